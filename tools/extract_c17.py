"""C17 extractor: the HTTP route table of `setup_http_api_handler`
(crates/klukai-agent/src/agent/util.rs) -> lean/Corro/Gen/Routes.lean.

What is extracted, in source order, from the one builder chain `Router::<()>::new() ... ;`:
  * every `.route("<path>", <method>(handler)...)`: its path and its methods,
  * whether a `.layer(axum::middleware::from_fn(require_authz))` call comes AFTER the route in the
    chain (in axum a `.layer` wraps exactly the routes added before it, so this is "guarded"),
  * how many authz layers there are.
Strict by design: anything in the chain (or anywhere else in the function) that this file does not
recognise -- nest / merge / fallback / route_service / a second Router / a method-router call that is
not a plain HTTP method / a layer that mentions require_authz in an unknown form -- raises, and the
check reports the broken tie.

The generated file is also read by harness/src/c17.rs (the `⟨"path", ["M",..], bool⟩` lines), so
keep one route per line.
"""
import os, re

SRC = "crates/klukai-agent/src/agent/util.rs"
FN = "setup_http_api_handler"
METHODS = {"get": "GET", "post": "POST", "put": "PUT", "delete": "DELETE", "patch": "PATCH",
           "head": "HEAD", "options": "OPTIONS", "trace": "TRACE", "connect": "CONNECT"}
# calls allowed on a MethodRouter after the first method call, besides further methods
MR_NEUTRAL = {"route_layer", "layer"}
AUTHZ_RE = re.compile(r"^\s*(?:axum\s*::\s*)?(?:middleware\s*::\s*)?from_fn\s*\(\s*require_authz\s*\)\s*$")


class ExtractError(Exception):
    pass


def blank_comments_and_strings(src, keep_strings=False):
    """Same-length copy of `src` with comments blanked (and string/char literal *contents* blanked
    unless keep_strings) so that bracket matching and keyword search cannot be fooled."""
    out = list(src)
    i, n = 0, len(src)

    def blank(a, b):
        for k in range(a, b):
            if out[k] != "\n":
                out[k] = " "

    while i < n:
        c = src[i]
        if src.startswith("//", i):
            j = src.find("\n", i)
            j = n if j < 0 else j
            blank(i, j)
            i = j
        elif src.startswith("/*", i):
            depth, j = 1, i + 2
            while j < n and depth:
                if src.startswith("/*", j):
                    depth += 1; j += 2
                elif src.startswith("*/", j):
                    depth -= 1; j += 2
                else:
                    j += 1
            blank(i, j)
            i = j
        elif c == '"' or (c == "r" and re.match(r'r#*"', src[i:i + 8]) and not (i and (src[i - 1].isalnum() or src[i - 1] == "_"))):
            if c == "r":
                m = re.match(r'r(#*)"', src[i:])
                hashes = m.group(1)
                start = i + len(m.group(0))
                end = src.find('"' + hashes, start)
                if end < 0:
                    raise ExtractError("unterminated raw string")
                if not keep_strings:
                    blank(start, end)
                i = end + 1 + len(hashes)
            else:
                j = i + 1
                while j < n and src[j] != '"':
                    j += 2 if src[j] == "\\" else 1
                if j >= n:
                    raise ExtractError("unterminated string")
                if not keep_strings:
                    blank(i + 1, j)
                i = j + 1
        elif c == "'":
            # char literal or lifetime
            m = re.match(r"'(\\.[^']*|[^'\\])'", src[i:i + 12])
            if m:
                if not keep_strings:
                    blank(i + 1, i + len(m.group(0)) - 1)
                i += len(m.group(0))
            else:
                i += 1
        else:
            i += 1
    return "".join(out)


OPEN, CLOSE = "([{", ")]}"


def match_close(code, i):
    """index of the bracket closing the one at code[i] (code has strings/comments blanked)"""
    depth = 0
    for j in range(i, len(code)):
        ch = code[j]
        if ch in OPEN:
            depth += 1
        elif ch in CLOSE:
            depth -= 1
            if depth == 0:
                if OPEN.index(code[i]) != CLOSE.index(ch):
                    raise ExtractError("mismatched brackets")
                return j
    raise ExtractError("unbalanced brackets")


def split_args(code, lo, hi):
    """top-level comma split of code[lo:hi] -> [(a, b)] index pairs"""
    parts, depth, start = [], 0, lo
    j = lo
    while j < hi:
        ch = code[j]
        if ch in OPEN:
            depth += 1
        elif ch in CLOSE:
            depth -= 1
        elif ch == "|" and depth == 0:
            pass
        elif ch == "," and depth == 0:
            parts.append((start, j))
            start = j + 1
        j += 1
    if code[start:hi].strip():
        parts.append((start, hi))
    return parts


def parse_chain(code, i, hi):
    """parse `.name[::<..>](args)` calls starting at code[i:] up to hi -> [(name, args_lo, args_hi)];
    raises on anything between the calls that is not whitespace."""
    calls = []
    while True:
        m = re.compile(r"\s*").match(code, i)
        i = m.end()
        if i >= hi:
            return calls
        m = re.compile(r"\.\s*([A-Za-z_][A-Za-z0-9_]*)\s*(::\s*<[^()]*>\s*)?\(").match(code, i)
        if not m or m.end() > hi + 1:
            raise ExtractError(f"unrecognised text in builder chain: {code[i:i + 60]!r}")
        op = m.end() - 1
        cl = match_close(code, op)
        calls.append((m.group(1), op + 1, cl))
        i = cl + 1


def parse_method_router(code, raw, lo, hi, path):
    """`post(handler).route_layer(...)`, `get(a).post(b)` ... -> list of methods"""
    m = re.compile(r"\s*(?:axum\s*::\s*)?(?:routing\s*::\s*)?([A-Za-z_][A-Za-z0-9_]*)\s*\(").match(code, lo)
    if not m:
        raise ExtractError(f"route {path}: cannot parse method router {raw[lo:hi][:60]!r}")
    first = m.group(1)
    if first not in METHODS:
        raise ExtractError(f"route {path}: method router starts with `{first}` (only plain HTTP-method constructors are understood)")
    cl = match_close(code, m.end() - 1)
    methods = [METHODS[first]]
    for name, a, b in parse_chain(code, cl + 1, hi):
        if name in METHODS:
            methods.append(METHODS[name])
        elif name in MR_NEUTRAL:
            if "require_authz" in code[a:b]:
                raise ExtractError(f"route {path}: per-route layer mentions require_authz; not understood")
        else:
            raise ExtractError(f"route {path}: unknown method-router call `.{name}(`")
    if len(set(methods)) != len(methods):
        raise ExtractError(f"route {path}: duplicate method")
    return methods


def extract_routes(src):
    code = blank_comments_and_strings(src)
    withstr = blank_comments_and_strings(src, keep_strings=True)
    m = re.search(r"\bfn\s+" + FN + r"\s*\(", code)
    if not m:
        raise ExtractError(f"fn {FN} not found")
    if len(re.findall(r"\bfn\s+" + FN + r"\b", code)) != 1:
        raise ExtractError(f"fn {FN} defined more than once")
    params_end = match_close(code, m.end() - 1)
    body_open = code.find("{", params_end)
    body_close = match_close(code, body_open)
    body = code[body_open:body_close + 1]

    starts = [x for x in re.finditer(r"\bRouter\b", body)]
    ctor = [x for x in re.finditer(r"\bRouter\s*(::\s*<[^>]*>\s*)?::\s*new\s*\(\s*\)", body)]
    if len(ctor) != 1 or len(starts) != 1:
        raise ExtractError(f"expected exactly one `Router::new()` in {FN}, found {len(ctor)} constructor(s) / {len(starts)} mention(s)")
    chain_lo = body_open + ctor[0].end()
    # the statement must be `let <ident> = Router...;`
    pre = code[body_open:body_open + ctor[0].start()]
    lm = re.search(r"\blet\s+(mut\s+)?([A-Za-z_][A-Za-z0-9_]*)\s*(:[^=]*)?=\s*$", pre)
    if not lm:
        raise ExtractError("the router is not built by a plain `let <name> = Router::new()...;` statement")
    var, is_mut = lm.group(2), bool(lm.group(1))
    if is_mut:
        raise ExtractError("router variable is `mut`: later modification cannot be excluded")
    # end of the statement: first `;` at depth 0
    depth, j = 0, chain_lo
    while j < body_close:
        ch = code[j]
        if ch in OPEN:
            depth += 1
        elif ch in CLOSE:
            depth -= 1
        elif ch == ";" and depth == 0:
            break
        j += 1
    else:
        raise ExtractError("end of router statement not found")
    chain_hi = j
    calls = parse_chain(code, chain_lo, chain_hi)

    routes, authz_positions = [], []
    for idx, (name, a, b) in enumerate(calls):
        if name == "route":
            args = split_args(code, a, b)
            if len(args) != 2:
                raise ExtractError("`.route(` with other than two arguments")
            pm = re.fullmatch(r'\s*"((?:[^"\\]|\\.)*)"\s*', withstr[args[0][0]:args[0][1]])
            if not pm or "\\" in pm.group(1):
                raise ExtractError(f"route path is not a plain string literal: {src[args[0][0]:args[0][1]]!r}")
            path = pm.group(1)
            methods = parse_method_router(code, src, args[1][0], args[1][1], path)
            routes.append({"path": path, "methods": methods, "pos": idx})
        elif name == "layer":
            text = code[a:b]
            if "require_authz" in text:
                if not AUTHZ_RE.match(text):
                    raise ExtractError(f"a layer mentions require_authz in an unrecognised form: {text.strip()[:80]!r}")
                authz_positions.append(idx)
        else:
            raise ExtractError(f"unknown call `.{name}(` in the router builder chain")
    if not routes:
        raise ExtractError("no routes found")
    paths = [r["path"] for r in routes]
    if len(set(paths)) != len(paths):
        raise ExtractError("the same path is routed twice")

    # nothing else in the function may add routes / routers
    rest = code[body_open:chain_lo] + code[chain_hi:body_close]
    for bad in (r"\.\s*route\s*\(", r"\.\s*route_service\s*\(", r"\.\s*nest\s*\(", r"\.\s*nest_service\s*\(",
                r"\.\s*merge\s*\(", r"\.\s*fallback\s*\(", r"\.\s*fallback_service\s*\(", r"\.\s*method_not_allowed_fallback\s*\("):
        if re.search(bad, rest):
            raise ExtractError(f"router modified outside the builder chain ({bad})")
    # the served app is exactly `<var>.clone().into_make_service...`
    uses = re.findall(r"\b" + re.escape(var) + r"\b", code[chain_hi:body_close])
    served = re.findall(r"\b" + re.escape(var) + r"\s*\.\s*clone\s*\(\s*\)\s*\.\s*into_make_service", code[chain_hi:body_close])
    if len(uses) != 1 or len(served) != 1:
        raise ExtractError(f"router variable `{var}` is used other than as `{var}.clone().into_make_service…`")
    # require_authz itself must be the function defined in this file
    if len(re.findall(r"\bfn\s+require_authz\s*\(", code)) != 1:
        raise ExtractError("fn require_authz not found exactly once in util.rs")

    last_authz = max(authz_positions) if authz_positions else -1
    for r in routes:
        r["guarded"] = r["pos"] < last_authz
    return routes, len(authz_positions)


def lean_str(s):
    if not re.fullmatch(r"[A-Za-z0-9_/{}.:*\-]+", s):
        raise ExtractError(f"route path with unexpected characters: {s!r}")
    return '"' + s + '"'


def render(routes, n_authz):
    lines = [
        "/- GENERATED by tools/extract_c17.py from crates/klukai-agent/src/agent/util.rs",
        "   (`setup_http_api_handler`).  Do not edit: regenerated at the start of every check.",
        "   One entry per `.route(..)` in source order; `guarded` = a",
        "   `.layer(axum::middleware::from_fn(require_authz))` call follows the route in the builder chain. -/",
        "namespace Corro.Gen.Routes",
        "",
        "structure Route where",
        "  path : String",
        "  methods : List String",
        "  guarded : Bool",
        "deriving Repr, DecidableEq",
        "",
        f"/-- number of `require_authz` layers in the builder chain -/",
        f"def authzLayers : Nat := {n_authz}",
        "",
        "def routes : List Route := [",
    ]
    for i, r in enumerate(routes):
        ms = ", ".join('"' + m + '"' for m in r["methods"])
        comma = "," if i + 1 < len(routes) else ""
        lines.append(f"  ⟨{lean_str(r['path'])}, [{ms}], {'true' if r['guarded'] else 'false'}⟩{comma}")
    lines += ["]", "", "end Corro.Gen.Routes", ""]
    return "\n".join(lines)


def extract(repo):
    with open(os.path.join(repo, SRC), encoding="utf-8") as f:
        src = f.read()
    routes, n = extract_routes(src)
    return [("Routes.lean", render(routes, n))]


if __name__ == "__main__":
    import sys
    print(extract(sys.argv[1] if len(sys.argv) > 1 else "/repo")[0][1])
