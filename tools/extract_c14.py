"""C14 extractor: the constants and the decision shapes of the update-feed batching loop
(`batch_candidates`, `handle_candidates`, `filter_matchable_change` in
crates/klukai-types/src/updates.rs) -> lean/Corro/Gen/UpdatesConsts.lean.

Extracted:
  * `const MAX_CACHE_ENTRIES`, `KEEP_CACHE_ENTRIES`, `PROCESS_CHANGES_THRESHOLD` (usize literals) and
    `PROCESS_BUFFER_DEADLINE` (milliseconds) declared inside `batch_candidates`,
  * the capacity of the candidates channel (`mpsc::channel(N)` in `UpdateHandle::create`).
Checked to be present in the expected form (anything else raises, the check then reports the broken
tie between `Corro/Model/Updates.lean` and the source):
  * the cache test `if *o.get() > cl { continue; }` followed by `o.insert(cl)`,
  * the eviction `if cl_cache.len() > MAX_CACHE_ENTRIES { cl_cache = cl_cache.split_off(cl_cache.len() - KEEP_CACHE_ENTRIES) }`,
  * the threshold test `if buf_count >= PROCESS_CHANGES_THRESHOLD { process = true }`,
  * the deadline branch `if buf_count != 0 { process = true }`,
  * `process` is declared once before the loop and never assigned `false` inside it (the model's
    sticky `process` flag) -- if the code starts resetting it the model must follow, so this raises,
  * the parity test `if cl % 2 == 0 { change_type = ChangeType::Delete }` with `ChangeType::Update`
    as the default,
  * the per-batch de-duplication `pks.contains_key(change.pk)` -> `return false` in
    `filter_matchable_change`.
The generated file is also read by harness/src/c14.rs (the `def <name> : Nat := <n>` lines).
"""
import os, re

SRC = "crates/klukai-types/src/updates.rs"


class ExtractError(Exception):
    pass


def strip_comments(src):
    out, i, n = [], 0, len(src)
    while i < n:
        if src.startswith("//", i):
            j = src.find("\n", i)
            i = n if j < 0 else j
        elif src.startswith("/*", i):
            j = src.find("*/", i + 2)
            i = n if j < 0 else j + 2
        elif src[i] == '"':
            j = i + 1
            while j < n and src[j] != '"':
                j += 2 if src[j] == "\\" else 1
            out.append('""')
            i = j + 1
        else:
            out.append(src[i])
            i += 1
    return "".join(out)


def fn_body(src, name):
    m = re.search(r"\bfn\s+" + re.escape(name) + r"\b", src)
    if not m:
        raise ExtractError(f"fn {name} not found in {SRC}")
    i = src.find("{", m.end())
    # skip the parameter list / where clause: the body is the first `{` at paren depth 0
    depth, j = 0, m.end()
    while j < len(src):
        c = src[j]
        if c in "(<[":
            depth += 1 if c != "<" else 0
        elif c in ")]":
            depth -= 1
        elif c == "{" and depth == 0:
            i = j
            break
        j += 1
    depth, j = 0, i
    while j < len(src):
        if src[j] == "{":
            depth += 1
        elif src[j] == "}":
            depth -= 1
            if depth == 0:
                return src[i:j + 1]
        j += 1
    raise ExtractError(f"unbalanced braces in fn {name}")


def const_usize(body, name):
    ms = re.findall(r"\bconst\s+" + name + r"\s*:\s*usize\s*=\s*([0-9_]+)\s*;", body)
    if len(ms) != 1:
        raise ExtractError(f"expected exactly one `const {name}: usize = <literal>;`, found {len(ms)}")
    return int(ms[0].replace("_", ""))


def need(body, pattern, what):
    if not re.search(pattern, body, re.S):
        raise ExtractError(f"{SRC}: expected shape not found: {what}")


def extract(repo):
    path = os.path.join(repo, SRC)
    src = strip_comments(open(path).read())
    bc = fn_body(src, "batch_candidates")
    cap = const_usize(bc, "MAX_CACHE_ENTRIES")
    keep = const_usize(bc, "KEEP_CACHE_ENTRIES")
    thr = const_usize(bc, "PROCESS_CHANGES_THRESHOLD")
    m = re.findall(r"\bconst\s+PROCESS_BUFFER_DEADLINE\s*:\s*Duration\s*=\s*Duration::from_millis\(\s*([0-9_]+)\s*\)\s*;", bc)
    if len(m) != 1:
        raise ExtractError("PROCESS_BUFFER_DEADLINE: expected one Duration::from_millis literal")
    deadline_ms = int(m[0].replace("_", ""))

    need(bc, r"Entry::Occupied\(\s*mut\s+o\s*\)\s*=>\s*\{\s*if\s+\*o\.get\(\)\s*>\s*cl\s*\{\s*continue;\s*\}\s*o\.insert\(cl\);\s*\}",
         "occupied entry: `if *o.get() > cl { continue; } o.insert(cl);`")
    need(bc, r"Entry::Vacant\(\s*v\s*\)\s*=>\s*\{\s*v\.insert\(cl\);\s*\}", "vacant entry: `v.insert(cl);`")
    need(bc, r"buffed\.insert\(pk,\s*cl\);\s*buf_count\s*\+=\s*1;", "`buffed.insert(pk, cl); buf_count += 1;`")
    need(bc, r"if\s+cl_cache\.len\(\)\s*>\s*MAX_CACHE_ENTRIES\s*\{\s*cl_cache\s*=\s*cl_cache\.split_off\(\s*cl_cache\.len\(\)\s*-\s*KEEP_CACHE_ENTRIES\s*\);\s*\}",
         "eviction: `if cl_cache.len() > MAX_CACHE_ENTRIES { cl_cache = cl_cache.split_off(cl_cache.len() - KEEP_CACHE_ENTRIES); }`")
    need(bc, r"if\s+buf_count\s*>=\s*PROCESS_CHANGES_THRESHOLD\s*\{\s*process\s*=\s*true;?\s*\}",
         "threshold: `if buf_count >= PROCESS_CHANGES_THRESHOLD { process = true }`")
    need(bc, r"if\s+buf_count\s*!=\s*0\s*\{\s*process\s*=\s*true;?\s*\}", "deadline: `if buf_count != 0 { process = true }`")
    need(bc, r"let\s+mut\s+cl_cache\s*:\s*IndexMap<", "`cl_cache` is an IndexMap (insertion-ordered)")
    # sticky `process`: declared before `loop`, never reset
    loop_at = bc.find("loop {")
    decl = re.search(r"let\s+mut\s+process\s*=\s*false\s*;", bc)
    if loop_at < 0 or not decl or decl.start() > loop_at:
        raise ExtractError("`let mut process = false;` is expected before the `loop {` of batch_candidates")
    if re.search(r"\bprocess\s*=\s*false\b", bc[loop_at:]):
        raise ExtractError("`process` is reset inside the loop now: the model's sticky flag no longer follows the code")
    if len(re.findall(r"let\s+mut\s+process\b", bc)) != 1:
        raise ExtractError("`process` declared more than once")
    need(bc, r"if\s+process\s*\{.*?handle_candidates\(\s*evt_tx\.clone\(\)\s*,\s*std::mem::take\(&mut\s+buf\)\s*\).*?buf_count\s*=\s*0;",
         "flush: `if process { handle_candidates(evt_tx.clone(), std::mem::take(&mut buf)) … buf_count = 0; }`")
    need(bc, r"tokio::select!\s*\{\s*biased;", "`biased;` select in batch_candidates")

    hc = fn_body(src, "handle_candidates")
    need(hc, r"let\s+mut\s+change_type\s*=\s*ChangeType::Update;\s*if\s+cl\s*%\s*2\s*==\s*0\s*\{\s*change_type\s*=\s*ChangeType::Delete;?\s*\}",
         "parity: `let mut change_type = ChangeType::Update; if cl % 2 == 0 { change_type = ChangeType::Delete }`")

    fm = fn_body(src[src.find("impl Handle for UpdateHandle"):], "filter_matchable_change")
    need(fm, r"if\s+change\.table\.to_string\(\)\s*!=\s*self\.inner\.name\s*\{\s*return\s+false;\s*\}", "table filter")
    need(fm, r"\.map\(\|pks\|\s*pks\.contains_key\(change\.pk\)\)\s*\.unwrap_or_default\(\)\s*\{.*?return\s+false;\s*\}",
         "per-batch de-duplication: `pks.contains_key(change.pk)` -> `return false`")

    cr = fn_body(src, "create")
    m = re.findall(r"let\s*\(\s*changes_tx\s*,\s*changes_rx\s*\)\s*=\s*mpsc::channel\(\s*([0-9_]+)\s*\)\s*;", cr)
    if len(m) != 1:
        raise ExtractError("candidates channel capacity: expected `let (changes_tx, changes_rx) = mpsc::channel(<literal>);`")
    chan = int(m[0].replace("_", ""))

    text = f"""/- GENERATED by tools/extract_c14.py from /repo/{SRC}. Do not edit: regenerated at the
   start of every check.  Constants of `batch_candidates` / `UpdateHandle::create`; the extractor
   also checks the shapes of the cache test, the eviction, the (sticky) `process` flag, the parity
   test and the per-batch de-duplication and raises when they change. -/
namespace Corro.Gen.UpdatesConsts

/-- `MAX_CACHE_ENTRIES` -/
def maxCacheEntries : Nat := {cap}
/-- `KEEP_CACHE_ENTRIES` -/
def keepCacheEntries : Nat := {keep}
/-- `PROCESS_CHANGES_THRESHOLD` -/
def processChangesThreshold : Nat := {thr}
/-- `PROCESS_BUFFER_DEADLINE` in milliseconds (the model's `tick`) -/
def processBufferDeadlineMs : Nat := {deadline_ms}
/-- capacity of the candidates channel of one handle (`try_send` falls back to a spawned send beyond it) -/
def candidatesChannelCap : Nat := {chan}

end Corro.Gen.UpdatesConsts
"""
    return [("UpdatesConsts.lean", text)]
