#!/usr/bin/env python3
"""Regenerates MANIFEST.json from tools/props.py (so it is always schema-valid)."""
import json, os, subprocess, sys
VERIF = os.path.dirname(os.path.dirname(os.path.abspath(__file__)))
sys.path.insert(0, os.path.join(VERIF, "tools"))
import props

ALL_IDS = ["C%02d" % i for i in range(1, 21)]

def hook_commits():
    try:
        out = subprocess.run(["git", "-C", "/repo", "log", "--format=%H %s"], capture_output=True, text=True).stdout
        return [l.split(" ")[0] for l in out.splitlines() if " verif hooks" in l]
    except Exception:
        return []

def main():
    checks = []
    for pid in ALL_IDS:
        c = props.CONFIG.get(pid)
        if not c or c.get("unclaimed"):
            continue
        checks.append({
            "property_id": pid,
            "quick_cmd": f"tools/check {pid} --tier quick",
            "thorough_cmd": f"tools/check {pid} --tier thorough",
            "evidence_file": f"evidence/{pid}.json",
            "replay_cmd_template": f"tools/check {pid} --replay {{path}}",
            "engine": "lean4+hx",
            "level_claimed": {"category": "proof", "text": c["level_text"], "design_ref": c.get("design_ref", "DESIGN.md §4")},
            "level_note": c["level_note"],
            "technique": c["technique"],
        })
    na = []
    for pid in ALL_IDS:
        c = props.CONFIG.get(pid)
        if not c or c.get("unclaimed"):
            na.append({"property_id": pid, "reason": (c or {}).get("unclaimed", "not yet built: model, theorems and correspondence for this property are still to come (see DESIGN.md §4); Lean proof is applicable")})
    m = {
        "version": 1,
        "setup_cmd": "tools/setup",
        "hooks": {
            "guard": "beanpuppy_corrosion_verif",
            "enable": "RUSTFLAGS=\"--cfg beanpuppy_corrosion_verif\" (set in /verif/harness/.cargo/config.toml; the harness crate path-depends on /repo/crates/*)",
            "baseline_off_cmd": "cd /repo && cargo nextest run --workspace --no-fail-fast --tool-config-file pb:/w/lib/nextest.toml --profile pb --test-threads 8 --offline",
            "source_commits": hook_commits(),
            "add_only": True,
        },
        "engines": [
            {"name": "lean4+hx", "path": "tools/check", "serves_properties": [c["property_id"] for c in checks],
             "kind_free_text": "Lean 4 theorems about hand-written executable models (lean/Corro) + differential correspondence check of the model driver (lean/Driver) against the real Rust code (harness/, bin hx) + source-extracted tables (tools/extract.py)"},
        ],
        "checks": checks,
        "notes": "See DESIGN.md. known_findings.json lists genuine defects recorded rather than repaired.",
        "not_applicable": na,
    }
    with open(os.path.join(VERIF, "MANIFEST.json"), "w") as f:
        json.dump(m, f, indent=1)
    print(f"{len(checks)} checks, {len(na)} unclaimed")

if __name__ == "__main__":
    main()
