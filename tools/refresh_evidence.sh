#!/bin/bash
# tools/refresh_evidence.sh [ids…] — runs the quick check of every (given) property against the unmodified
# /repo working tree, one after the other, so that evidence/<id>.json comes from a full clean run.
cd "$(dirname "$0")/.."
ids="$@"; [ -z "$ids" ] && ids=$(seq -f "C%02g" 1 20)
for id in $ids; do
  s=$(date +%s)
  out=$(tools/check $id --tier quick 2>&1); rc=$?
  echo "$id rc=$rc $(( $(date +%s) - s ))s :: $(echo "$out" | grep -E "correspondence|VIOLATION" | cut -c1-200 | tr '\n' ' ')"
done
