#!/usr/bin/env python3
"""tools/covmiss.py <file-suffix> <fn-name>[,<fn-name>…] <prop> [<prop>…]
Development aid: lines of the given functions (in the /repo source file whose path ends with <file-suffix>)
that NONE of the given properties' coverage runs (tools/covrun) executed."""
import re, sys
suffix, fns, props = sys.argv[1], sys.argv[2].split(","), sys.argv[3:]
cov = {}   # line -> max count seen ; src
src = {}
for p in props:
    txt = open(f"/verif/evidence/tmp/cov/{p}/show.txt").read()
    for blk in re.split(r"\n(?=/[^\n|]*:\n)", txt):
        head = blk.split("\n", 1)[0]
        if not head.rstrip(":").endswith(suffix):
            continue
        for l in blk.split("\n"):
            m = re.match(r"\s*(\d+)\|\s*([0-9.kMG]*)\|(.*)", l)
            if not m:
                continue
            n, c, s = int(m.group(1)), m.group(2), m.group(3)
            src[n] = s
            if c == "":
                continue
            hit = c != "0"
            cov[n] = cov.get(n, False) or hit
infn = None
for n in sorted(src):
    s = src[n]
    for f in fns:
        if re.search(r"\bfn " + re.escape(f) + r"\b", s):
            infn = f
            print(f"--- {f} (line {n})")
    if infn and n in cov and not cov[n]:
        print(f"{n:5d}  {s[:150]}")
    if infn and s.startswith("}"):
        infn = None
