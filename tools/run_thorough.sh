#!/bin/bash
# tools/run_thorough.sh [ids…] — runs the thorough tier of the given (default: all) properties one after the other
cd "$(dirname "$0")/.."
ids="$@"; [ -z "$ids" ] && ids=$(seq -f "C%02g" 1 20)
for id in $ids; do
  s=$(date +%s)
  out=$(tools/check $id --tier thorough 2>&1); rc=$?
  echo "$id rc=$rc $(( $(date +%s) - s ))s :: $(echo "$out" | grep -E "lean:|correspondence|VIOLATION" | cut -c1-160 | tr '\n' ' ')"
done
