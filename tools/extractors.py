"""Source → Lean table extractors. Each returns (file name under Corro/Gen, file text)."""
ALL = []
