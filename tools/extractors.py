"""Source → Lean table extractors.  Every tools/extract_cNN.py module exposes
`extract(repo) -> list[(file name under lean/Corro/Gen, file text)]`; they are discovered here."""
import glob, importlib.util, os

def _load():
    fns = []
    here = os.path.dirname(os.path.abspath(__file__))
    for p in sorted(glob.glob(os.path.join(here, "extract_c[0-9][0-9].py"))):
        spec = importlib.util.spec_from_file_location(os.path.basename(p)[:-3], p)
        m = importlib.util.module_from_spec(spec)
        spec.loader.exec_module(m)
        fns.append((os.path.basename(p)[8:-3].upper(), m.extract))
    return fns

ALL = _load()
