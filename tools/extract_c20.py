"""C20 extractor: lock-acquisition programs of the agent's tasks and the write-pool constants
-> lean/Corro/Gen/LockPrograms.lean.

1. Programs.  Every non-test function under crates/*/src (the wrappers' own definitions in
   klukai-types/src/agent.rs excluded by construction: their calls carry no label literal) that
   acquires one of the modelled resources becomes a program: the acquisitions in textual order and a
   release where the guard's scope ends.

     conn    `.write_priority()` | `.write_normal()` | `.write_low()`
     bookie  `.read|write|blocking_write|…(` on a receiver whose last name segment contains `bookie`
     booked  the same methods on a receiver whose last name segment contains `booked`
             (a call of those methods whose first argument is a label literal but whose receiver cannot
             be classified raises)

   Guard scope (conservative = never shorter than the real one):
     * the acquisition is followed by `.method(`/`.field` (other than `.await`, `?`): the guard is a
       temporary, released at the end of the enclosing statement; a temporary in the tail expression of
       a block lives to the end of the statement that encloses the block;
     * otherwise the guard is a value: if it flows (through block tails / match arms / if branches)
       into a `let` statement it is held to the end of the block of that `let`, or to a `drop(name);`
       statement of that same block; several acquisitions flowing into the same `let` (if/else
       branches) are one acquisition; a value that flows out of the function raises;
     * `spawn…(async [move] { … })` bodies are programs of their own (`fn@spawnN`);
     * a call of another extracted function (by name) is inlined at the call site.
   Early exits (`?`, `return`, `continue`) only shorten real scopes, loops repeat a balanced body, so
   the straight-line program over-approximates what any execution holds at each acquisition.

2. Constants of `SplitPool` (klukai-types/src/agent.rs) and of `setup` (klukai-agent/src/agent/setup.rs):
   the `biased;` keyword and branch order of the dispatcher's `select!`, the wiring of the three
   queues to `write_priority|normal|low`, the write pool's `max_size`, `Semaphore::new(n)` of
   `write_sema`.

3. Bounded channels (waits on a channel under a guard).  Channels: every `let (tx, rx) = bounded(cap,
   "label");` of the non-test sources (the pool's own three queues in klukai-types/src/agent.rs are part of
   the `conn` resource), plus `mpsc::channel(cap)` / `tokio_channel(cap)` in agent/setup.rs and
   agent/run_root.rs.  A sender / receiver is recognised by the last name segment of the method receiver:
   the creating variable's name anywhere (`tx_apply`, `agent.tx_apply()`), or an alias — a `let x = …name…
   [.clone()];` in the same function, or the parameter that receives it at a call site (followed through
   calls to a fixpoint; that is how `rx_clear_buf` becomes `rx_partials` in `clear_buffered_meta_loop`).
     * blocking send: `.blocking_send(`, `.send(`, `.send_timeout(`, `.reserve*(` on a sender of a known
       channel -> `acq chan; rel chan` at its textual position (`try_send` does not block: ignored);
     * consumer: the program that calls `.recv()`/`.recv_many(`/`.blocking_recv()` on a receiver of the
       channel holds `chan` over the innermost loop body around that call (the whole rest of the function
       if there is no loop); a channel with blocking senders but no consumer found raises;
     * `.blocking_send(` / `.send(…).await` on any other receiver whose name looks like a channel sender
       (`tx`, `*_tx`, `tx_*`, `*sender*`) while the program holds conn / bookie / booked raises: a wait
       on an unknown channel under a guard cannot be decided.
   Ranks: a topological order of "held -> acquired" over all programs plus conn -> bookie -> booked is
   emitted as `ranking`; when there is a cycle the leftover kinds are emitted in the default order and
   Lean's `decide` on `ordered ranking` fails, which is the finding.

Strict: anything unexpected raises; tools/check then reports the broken tie.
"""
import bisect, glob, os, re

REQUIRED = [
    ("crates/klukai-agent/src/agent/util.rs", "process_multiple_changes"),
    ("crates/klukai-agent/src/agent/util.rs", "process_fully_buffered_changes"),
    ("crates/klukai-agent/src/agent/util.rs", "clear_buffered_meta_loop"),
    ("crates/klukai-agent/src/api/public/mod.rs", "make_broadcastable_changes"),
    ("crates/klukai-agent/src/api/public/mod.rs", "execute_schema"),
    ("crates/klukai-agent/src/agent/handlers.rs", "handle_changes"),
    ("crates/klukai-agent/src/agent/handlers.rs", "vacuum_db"),
    ("crates/klukai-agent/src/agent/handlers.rs", "wal_checkpoint_over_threshold"),
    ("crates/klukai-agent/src/agent/run_root.rs", "run"),
    ("crates/klukai-agent/src/agent/setup.rs", "setup"),
    ("crates/klukai-agent/src/api/peer/mod.rs", "process_sync"),
    ("crates/klukai-agent/src/broadcast/mod.rs", None),      # whichever fn persists member states
    ("crates/klukai/src/admin.rs", "handle_conn"),
    ("crates/klukai-types/src/sync.rs", "generate_sync"),
]

CONN_METHODS = {"write_priority": "priority", "write_normal": "normal", "write_low": "low"}
LOCK_METHODS = {"read": "R", "blocking_read": "R", "write": "W", "write_owned": "W",
                "blocking_write": "W", "blocking_write_owned": "W"}
RANK = {"conn": 0, "bookie": 1, "booked": 2}
OPEN, CLOSE = "([{", ")]}"
BLOCK_KW = ("if", "match", "for", "while", "loop", "unsafe")


class ExtractError(Exception):
    pass


# ------------------------------------------------------------------ lexical layer

def blank(src, keep_strings=False):
    """same-length copy with comments (and string/char contents unless keep_strings) blanked"""
    out = list(src)
    i, n = 0, len(src)

    def bl(a, b):
        for k in range(a, b):
            if out[k] != "\n":
                out[k] = " "

    while i < n:
        c = src[i]
        if src.startswith("//", i):
            j = src.find("\n", i)
            j = n if j < 0 else j
            bl(i, j)
            i = j
        elif src.startswith("/*", i):
            depth, j = 1, i + 2
            while j < n and depth:
                if src.startswith("/*", j):
                    depth += 1; j += 2
                elif src.startswith("*/", j):
                    depth -= 1; j += 2
                else:
                    j += 1
            bl(i, j)
            i = j
        elif c == '"' or (c in "rb" and re.match(r'b?r?#*"', src[i:i + 8]) and not (i and (src[i - 1].isalnum() or src[i - 1] == "_"))):
            m = re.match(r'(b?)(r?)(#*)"', src[i:])
            if m.group(2):
                hashes = m.group(3)
                start = i + len(m.group(0))
                end = src.find('"' + hashes, start)
                if end < 0:
                    raise ExtractError("unterminated raw string")
                if not keep_strings:
                    bl(start, end)
                i = end + 1 + len(hashes)
            else:
                j = i + len(m.group(0))
                start = j
                while j < n and src[j] != '"':
                    j += 2 if src[j] == "\\" else 1
                if j >= n:
                    raise ExtractError("unterminated string")
                if not keep_strings:
                    bl(start, j)
                i = j + 1
        elif c == "'":
            m = re.match(r"'(\\.[^']*|[^'\\])'", src[i:i + 12])
            if m:
                bl(i + 1, i + len(m.group(0)) - 1)
                if keep_strings:
                    pass
                i += len(m.group(0))
            else:
                i += 1
        else:
            i += 1
    return "".join(out)


def bracket_table(code, what):
    """match[i] = index of the partner bracket"""
    match, stack = {}, []
    for i, ch in enumerate(code):
        if ch in OPEN:
            stack.append(i)
        elif ch in CLOSE:
            if not stack or OPEN.index(code[stack[-1]]) != CLOSE.index(ch):
                raise ExtractError(f"{what}: unbalanced brackets near offset {i}")
            j = stack.pop()
            match[j] = i
            match[i] = j
    if stack:
        raise ExtractError(f"{what}: unbalanced brackets (unclosed at {stack[-1]})")
    return match


def skip_ws(code, i, hi=None):
    hi = len(code) if hi is None else hi
    while i < hi and code[i].isspace():
        i += 1
    return i


IDENT = re.compile(r"[A-Za-z_][A-Za-z0-9_]*")


class File:
    def __init__(self, repo, rel):
        self.rel = rel
        with open(os.path.join(repo, rel), encoding="utf-8") as f:
            self.src = f.read()
        self.code = blank(self.src)
        self.withstr = blank(self.src, keep_strings=True)
        self.blank_tests()
        self.match = bracket_table(self.code, rel)
        self.braces = sorted(i for i in self.match if self.code[i] == "{")
        self._stmts = {}

    def line(self, pos):
        return self.src.count("\n", 0, pos) + 1

    def blank_range(self, a, b):
        def f(s):
            return s[:a] + re.sub(r"[^\n]", " ", s[a:b]) + s[b:]
        self.code = f(self.code)
        self.withstr = f(self.withstr)

    def blank_tests(self):
        """remove `#[cfg(test)]`/`#[test]`/`#[tokio::test…]` items and the verification hooks
        (`#[cfg(beanpuppy_corrosion_verif)]`: visibility wrappers, no behaviour)"""
        while True:
            m = re.search(r"#\s*\[\s*(cfg\s*\(\s*(?:test|beanpuppy_corrosion_verif)\s*\)|test|tokio\s*::\s*test[^\]]*)\]", self.code)
            if not m:
                return
            # the item: up to the first `;` or the end of the first `{…}` at depth 0
            i, depth = m.end(), 0
            n = len(self.code)
            end = None
            while i < n:
                ch = self.code[i]
                if ch in "([":
                    depth += 1
                elif ch in ")]":
                    depth -= 1
                elif ch == "{" and depth == 0:
                    d, j = 0, i
                    while j < n:
                        if self.code[j] == "{":
                            d += 1
                        elif self.code[j] == "}":
                            d -= 1
                            if d == 0:
                                break
                        j += 1
                    end = j + 1
                    break
                elif ch == ";" and depth == 0:
                    end = i + 1
                    break
                i += 1
            if end is None:
                raise ExtractError(f"{self.rel}: cannot delimit the test item at line {self.line(m.start())}")
            self.blank_range(m.start(), end)

    # ---- blocks and statements

    def innermost_brace(self, pos, root):
        """the innermost `{` (index) whose block contains pos, not outside `root`"""
        k = bisect.bisect_right(self.braces, pos) - 1
        while k >= 0:
            o = self.braces[k]
            if self.match[o] > pos and o < pos:
                if o < root:
                    return root
                return o
            k -= 1
        return root

    def statements(self, o):
        """statements of the block opened at `o`: list of dicts(a, b, tail, let)"""
        if o in self._stmts:
            return self._stmts[o]
        code, match = self.code, self.match
        hi = match[o]
        out = []
        i = skip_ws(code, o + 1, hi)
        while i < hi:
            a = i
            m = IDENT.match(code, i)
            word = m.group(0) if m else ""
            j = i
            # loop labels
            lm = re.compile(r"'[A-Za-z_][A-Za-z0-9_]*\s*:\s*").match(code, i)
            if lm:
                j = lm.end()
                m = IDENT.match(code, j)
                word = m.group(0) if m else ""
            end, tail = None, False
            is_macro_block = False
            mm = re.compile(r"(?:[A-Za-z_][A-Za-z0-9_]*\s*::\s*)*[A-Za-z_][A-Za-z0-9_]*\s*!\s*\{").match(code, j)
            if mm:
                is_macro_block = True
            if word in BLOCK_KW or code[j] == "{" or is_macro_block:
                # block-like expression statement: ends at the closing brace of its (last else) block
                k = j
                while True:
                    # first `{` at depth 0 from k
                    while k < hi and code[k] != "{":
                        if code[k] in "([":
                            k = match[k] + 1
                        elif code[k] == ";":
                            break
                        else:
                            k += 1
                    if k >= hi or code[k] != "{":
                        k = None
                        break
                    k = match[k] + 1
                    nxt = skip_ws(code, k, hi)
                    em = re.compile(r"else\b").match(code, nxt)
                    if word == "if" and em:
                        k = em.end()
                        continue
                    break
                if k is not None:
                    end = k
                    nxt = skip_ws(code, end, hi)
                    # a block-like statement directly followed by `.`/`?` is really an expression
                    # in tail position (`match x {…}.foo()`); treat through to the next `;`
                    if nxt < hi and code[nxt] in ".?":
                        end = None
                    else:
                        tail = nxt >= hi
            if end is None:
                k = j
                while k < hi and code[k] != ";":
                    if code[k] in OPEN:
                        k = match[k] + 1
                    else:
                        k += 1
                if k < hi:
                    end = k + 1
                else:
                    end, tail = hi, True
            out.append({"a": a, "b": end, "tail": tail, "let": word == "let", "word": word})
            i = skip_ws(code, end, hi)
        self._stmts[o] = out
        return out

    def statement_at(self, o, pos):
        for s in self.statements(o):
            if s["a"] <= pos < s["b"]:
                return s
        raise ExtractError(f"{self.rel}:{self.line(pos)}: no statement found around the acquisition")


# ------------------------------------------------------------------ functions

def find_functions(f):
    """[(name, body_open, body_close, fn_pos)] for every fn with a body"""
    code = f.code
    fns = []
    for m in re.finditer(r"\bfn\s+([A-Za-z_][A-Za-z0-9_]*)", code):
        i = m.end()
        i = skip_ws(code, i)
        if i < len(code) and code[i] == "<":
            depth = 0
            while i < len(code):
                if code[i] == "<":
                    depth += 1
                elif code[i] == ">" and code[i - 1] != "-":
                    depth -= 1
                    if depth == 0:
                        i += 1
                        break
                i += 1
            i = skip_ws(code, i)
        if i >= len(code) or code[i] != "(":
            continue  # `fn` in a type position (`fn(A) -> B`) or unparsable: not an item
        i = f.match[i] + 1
        while i < len(code) and code[i] not in "{;":
            if code[i] in "([":
                i = f.match[i] + 1
            else:
                i += 1
        if i >= len(code) or code[i] == ";":
            continue
        fns.append((m.group(1), i, f.match[i], m.start()))
    return fns


def receiver_name(f, dot):
    """last name segment of the receiver expression that ends right before the `.` at `dot`"""
    code = f.code
    i = dot - 1
    while i >= 0 and code[i].isspace():
        i -= 1
    if i < 0:
        return None
    if code[i] == "?":
        i -= 1
        while i >= 0 and code[i].isspace():
            i -= 1
    if code[i] == ")":
        i = f.match[i] - 1
        while i >= 0 and code[i].isspace():
            i -= 1
        # optional turbofish is not expected here
    j = i
    while j >= 0 and (code[j].isalnum() or code[j] == "_"):
        j -= 1
    name = code[j + 1:i + 1]
    return name or None


ACQ_RE = re.compile(r"\.\s*([A-Za-z_][A-Za-z0-9_]*)\s*(::\s*<[^;{}()]*?>\s*)?\(")


def find_acquisitions(f, lo, hi):
    """acquisition call sites in code[lo:hi]: dicts(pos, end, kind, mode, what)"""
    code, out = f.code, []
    for m in ACQ_RE.finditer(code, lo, hi):
        meth = m.group(1)
        op = m.end() - 1
        cl = f.match[op]
        if meth in CONN_METHODS:
            if code[op + 1:cl].strip():
                continue
            out.append({"pos": m.start(), "end": cl + 1, "kind": "conn", "mode": "W", "what": meth})
        elif meth in LOCK_METHODS:
            first = f.withstr[op + 1:cl].lstrip()
            labelled = first.startswith('"')
            recv = receiver_name(f, m.start())
            kind = None
            if recv and "bookie" in recv.lower():
                kind = "bookie"
            elif recv and ("booked" in recv.lower() or recv in ("book_writer", "book_reader")):
                kind = "booked"
            if kind is None:
                if labelled:
                    raise ExtractError(f"{f.rel}:{f.line(m.start())}: `.{meth}(\"…\")` looks like a counted-lock "
                                       f"acquisition but its receiver `{recv}` is neither a bookie nor a booked")
                continue
            if not labelled and not code[op + 1:cl].strip() and kind is not None:
                # e.g. `booked.read()` without label: not the counted-lock API; be loud
                raise ExtractError(f"{f.rel}:{f.line(m.start())}: `.{meth}()` on `{recv}` without a label: unknown lock API")
            out.append({"pos": m.start(), "end": cl + 1, "kind": kind, "mode": LOCK_METHODS[meth], "what": meth})
    return out


def escapes(f, acq):
    """does the guard flow on as a value (True) or is it a temporary receiver of a further call (False)?"""
    code = f.code
    i = acq["end"]
    while True:
        i = skip_ws(code, i)
        m = re.compile(r"\.\s*await\b").match(code, i)
        if m:
            i = m.end()
            continue
        if i < len(code) and code[i] == "?":
            i += 1
            continue
        break
    return not (i < len(code) and code[i] == ".")


SPAWN_RE = re.compile(r"\bspawn[A-Za-z0-9_]*\s*\(\s*async\s+(?:move\s+)?\{")


class Program:
    def __init__(self, f, name, root_open, excluded):
        self.f, self.name, self.root = f, name, root_open
        self.close = f.match[root_open]
        self.excluded = excluded  # [(a,b)] sub-ranges that belong to other programs
        self.events = []          # (pos, order, op)
        self.calls = []           # (pos, callee name)
        self.unknown_sends = []   # (pos, receiver, method, line)

    def owns(self, pos):
        return self.root < pos < self.close and not any(a <= pos < b for a, b in self.excluded)


def release_of(f, prog, acq):
    """-> (release position, let-statement key or None)"""
    esc = escapes(f, acq)
    pos = acq["pos"]
    o = f.innermost_brace(pos, prog.root)
    while True:
        s = f.statement_at(o, pos)
        if esc and s["let"]:
            # bound: to the end of the block of the `let`, or an explicit drop of the bound name
            rel = f.match[o]
            m = re.compile(r"let\s+(?:mut\s+)?([A-Za-z_][A-Za-z0-9_]*)\s*(?::[^=]*)?=").match(f.code, s["a"])
            if m:
                name = m.group(1)
                for t in f.statements(o):
                    if t["a"] >= s["b"] and re.fullmatch(r"(?:std\s*::\s*mem\s*::\s*)?drop\s*\(\s*" + re.escape(name) + r"\s*\)\s*;", f.code[t["a"]:t["b"]].strip()):
                        rel = t["a"]
                        break
                    # shadowing `let name = …` ends our knowledge of the name, not the guard's life
            return rel, (o, s["a"])
        if s["tail"]:
            if o == prog.root:
                if esc:
                    raise ExtractError(f"{f.rel}:{f.line(pos)}: a guard flows out of `{prog.name}`; not understood")
                return f.match[o], None
            pos = o
            o = f.innermost_brace(o, prog.root)
            continue
        if esc and re.compile(r"(?:\*\s*)?[A-Za-z_][A-Za-z0-9_.]*\s*=[^=]").match(f.code, s["a"]):
            raise ExtractError(f"{f.rel}:{f.line(pos)}: a guard is assigned to an existing place; not understood")
        return s["b"], None


# ------------------------------------------------------------------ bounded channels

CHAN_FILES_RAW = ("crates/klukai-agent/src/agent/setup.rs", "crates/klukai-agent/src/agent/run_root.rs")
POOL_FILE = "crates/klukai-types/src/agent.rs"
SEND_METHODS = ("blocking_send", "send", "send_timeout", "reserve", "reserve_owned", "reserve_many")
RECV_METHODS = ("recv", "recv_many", "blocking_recv")
SENDERISH = re.compile(r"(^|_)tx($|_)|sender")


class Channel:
    def __init__(self, label, tx, rx, cap, where):
        self.label, self.tx, self.rx, self.cap, self.where = label, tx, rx, cap, where
        self.tx_names = {("*", tx)}    # (function name or "*", identifier)
        self.rx_names = {("*", rx)}
        self.consumers = []            # program names
        self.senders = []              # "file:line in program"


def find_channels(files):
    chans = []
    pat_b = re.compile(r"let\s*\(\s*(?:mut\s+)?([A-Za-z_][A-Za-z0-9_]*)\s*,\s*(?:mut\s+)?([A-Za-z_][A-Za-z0-9_]*)\s*\)\s*=\s*bounded\s*\(")
    pat_r = re.compile(r"let\s*\(\s*(?:mut\s+)?([A-Za-z_][A-Za-z0-9_]*)\s*,\s*(?:mut\s+)?([A-Za-z_][A-Za-z0-9_]*)\s*\)\s*=\s*(?:(?:tokio\s*::\s*sync\s*::\s*)?mpsc\s*::\s*channel|tokio_channel)\s*(?:::\s*<[^;{}()]*?>\s*)?\(")
    for f in files:
        if f.rel == POOL_FILE:
            continue
        for pat, raw in ((pat_b, False), (pat_r, True)):
            if raw and f.rel not in CHAN_FILES_RAW:
                continue
            for m in pat.finditer(f.code):
                op = m.end() - 1
                cl = f.match[op]
                args = split_top(f, op + 1, cl)
                if raw:
                    if len(args) != 1:
                        raise ExtractError(f"{f.rel}:{f.line(m.start())}: channel(..) with {len(args)} arguments")
                    label = m.group(1)
                else:
                    if len(args) != 2:
                        raise ExtractError(f"{f.rel}:{f.line(m.start())}: bounded(..) with {len(args)} arguments")
                    lm = re.fullmatch(r'\s*"([A-Za-z0-9_]+)"\s*', f.withstr[args[1][0]:args[1][1]])
                    if not lm:
                        raise ExtractError(f"{f.rel}:{f.line(m.start())}: bounded(..) label is not a plain literal")
                    label = lm.group(1)
                cap = re.sub(r"\s+", "", f.code[args[0][0]:args[0][1]])
                chans.append(Channel(label, m.group(1), m.group(2), cap, f"{f.rel}:{f.line(m.start())}"))
    labels = [c.label for c in chans]
    if len(set(labels)) != len(labels):
        raise ExtractError(f"two bounded channels share a label: {sorted(labels)}")
    names = [c.tx for c in chans] + [c.rx for c in chans]
    if len(set(names)) != len(names):
        raise ExtractError(f"two bounded channels share a variable name: {sorted(names)}")
    for need in ("apply", "clear_buf", "bcast", "changes", "foca"):
        if need not in labels:
            raise ExtractError(f"bounded channel `{need}` not found in the agent set-up")
    chans.sort(key=lambda c: c.label)
    return chans


def split_top(f, lo, hi):
    """top-level comma split of code[lo:hi] -> [(a,b)]"""
    code, parts, start, j = f.code, [], lo, lo
    while j < hi:
        ch = code[j]
        if ch in OPEN:
            j = f.match[j] + 1
            continue
        if ch == ",":
            parts.append((start, j))
            start = j + 1
        j += 1
    if code[start:hi].strip():
        parts.append((start, hi))
    return parts


def fn_params(f, fn_pos):
    """parameter names of the fn item at fn_pos (self excluded, keeps positions of the others)"""
    code = f.code
    m = re.compile(r"fn\s+[A-Za-z_][A-Za-z0-9_]*").match(code, fn_pos)
    i = skip_ws(code, m.end())
    if code[i] == "<":
        depth = 0
        while i < len(code):
            if code[i] == "<":
                depth += 1
            elif code[i] == ">" and code[i - 1] != "-":
                depth -= 1
                if depth == 0:
                    i += 1
                    break
            i += 1
        i = skip_ws(code, i)
    out = []
    for a, b in split_top(f, i + 1, f.match[i]):
        t = code[a:b].strip()
        if re.match(r"(&\s*)?('[a-z_]+\s+)?(mut\s+)?self\b", t):
            continue
        pm = re.match(r"(?:mut\s+)?([A-Za-z_][A-Za-z0-9_]*)\s*:", t)
        out.append(pm.group(1) if pm else None)
    return out


def last_segment(expr):
    """`&mut agent.tx_apply().clone()` -> tx_apply ; None when the expression is not a plain path/call chain"""
    t = re.sub(r"\s+", "", expr)
    t = re.sub(r"^&(mut)?", "", t)
    t = re.sub(r"^mut(?=[A-Za-z_])", "", t) if t.startswith("mut ") else t
    t = re.sub(r"(\.clone\(\))+$", "", t)
    if not re.fullmatch(r"[A-Za-z_][A-Za-z0-9_]*(\(\))?((\.|::)[A-Za-z_][A-Za-z0-9_]*(\(\))?)*", t):
        return None
    seg = re.split(r"\.|::", t)[-1]
    return seg[:-2] if seg.endswith("()") else seg


def enclosing_fn(fns, pos):
    best = None
    for (n, o, c, fp) in fns:
        if o < pos < c and (best is None or o > best[1]):
            best = (n, o, c, fp)
    return best


def resolve_channel_names(chans, infos):
    """infos: [(File, progs, fns)].  Follows senders / receivers through `let` aliases and call arguments."""
    fn_index = {}
    for f, _, fns in infos:
        for (n, o, c, fp) in fns:
            fn_index.setdefault(n, []).append((f, o, c, fp))
    for _ in range(6):
        grew = False
        for ch in chans:
            for names in (ch.tx_names, ch.rx_names):
                idents = sorted({n for _, n in names})
                pat = re.compile(r"(?<![A-Za-z0-9_])(" + "|".join(re.escape(n) for n in idents) + r")(?![A-Za-z0-9_])")
                for f, _, fns in infos:
                    for m in pat.finditer(f.code):
                        fn = enclosing_fn(fns, m.start())
                        if fn is None:
                            continue
                        scope = fn[0]
                        if ("*", m.group(1)) not in names and (scope, m.group(1)) not in names:
                            continue
                        # (i) `let alias = <path ending in the name>[.clone()];`
                        o = f.innermost_brace(m.start(), fn[1])
                        try:
                            st = f.statement_at(o, m.start())
                        except ExtractError:
                            st = None
                        if st and st["let"]:
                            lm = re.compile(r"let\s+(?:mut\s+)?([A-Za-z_][A-Za-z0-9_]*)\s*(?::[^=]*)?=([^=].*?);\s*$", re.S).match(f.code[st["a"]:st["b"]])
                            if lm and last_segment(lm.group(2)) == m.group(1):
                                key = (scope, lm.group(1))
                                if key not in names and ("*", lm.group(1)) not in names:
                                    names.add(key)
                                    grew = True
                        # (ii) argument of a call: the callee's parameter becomes an alias inside the callee
                        k = m.start()
                        par = None
                        j = k
                        depth = 0
                        while j > fn[1]:
                            j -= 1
                            c2 = f.code[j]
                            if c2 in ")]}":
                                j = f.match[j]
                            elif c2 == "(":
                                par = j
                                break
                            elif c2 in "{[" or c2 == ";":
                                break
                        if par is None:
                            continue
                        args = split_top(f, par + 1, f.match[par])
                        idx = next((i for i, (a, b) in enumerate(args) if a <= m.start() < b), None)
                        if idx is None or last_segment(f.code[args[idx][0]:args[idx][1]]) != m.group(1):
                            continue
                        q = par - 1
                        while q >= 0 and f.code[q].isspace():
                            q -= 1
                        e = q + 1
                        while q >= 0 and (f.code[q].isalnum() or f.code[q] == "_"):
                            q -= 1
                        callee = f.code[q + 1:e]
                        if not callee or callee not in fn_index:
                            continue
                        is_method = q >= 0 and f.code[q] == "."
                        cands = fn_index[callee]
                        same = [c for c in cands if c[0] is f]
                        cands = same if same else cands
                        if len(cands) != 1:
                            continue
                        cf, co, cc, cfp = cands[0]
                        params = fn_params(cf, cfp)
                        if is_method and False:
                            pass
                        if idx < len(params) and params[idx]:
                            key = (callee, params[idx])
                            if key not in names and ("*", params[idx]) not in names:
                                names.add(key)
                                grew = True
        if not grew:
            return
    raise ExtractError("channel name resolution did not stabilise")


def loop_body_around(f, prog, pos):
    """the `{` of the innermost loop body (inside the program) that contains `pos`, or whose header does"""
    o = f.innermost_brace(pos, prog.root)
    st = f.statement_at(o, pos)
    if st["word"] in ("while", "for", "loop"):
        k = pos
        while k < st["b"] and f.code[k] != "{":
            k = f.match[k] + 1 if f.code[k] in "([" else k + 1
        if k < st["b"]:
            return k
    while True:
        if o == prog.root:
            return None
        parent = f.innermost_brace(o, prog.root)
        st = f.statement_at(parent, o)
        if st["word"] in ("while", "for", "loop"):
            # is `o` the body of that loop (first depth-0 brace of the statement)?
            k = st["a"]
            while k < st["b"] and f.code[k] != "{":
                k = f.match[k] + 1 if f.code[k] in "([" else k + 1
            if k == o:
                return o
        o = parent


def add_channel_events(chans, infos):
    by_tx, by_rx = {}, {}
    for ch in chans:
        for key in ch.tx_names:
            by_tx.setdefault(key, ch)
        for key in ch.rx_names:
            by_rx.setdefault(key, ch)
    meth = re.compile(r"\.\s*(" + "|".join(SEND_METHODS + RECV_METHODS) + r")\s*(?:::\s*<[^;{}()]*?>\s*)?\(")
    for f, progs, fns in infos:
        for m in meth.finditer(f.code):
            owners = [p for p in progs if p.owns(m.start())]
            if not owners:
                continue
            owners.sort(key=lambda p: p.close - p.root)
            p = owners[0]
            fn = enclosing_fn(fns, m.start())
            scope = fn[0] if fn else "*"
            recv = receiver_name(f, m.start())
            if recv is None:
                continue
            op = m.end() - 1
            cl = f.match[op]
            name = m.group(1)
            if name in SEND_METHODS:
                ch = by_tx.get((scope, recv)) or by_tx.get(("*", recv))
                if ch is not None:
                    p.events.append((m.start(), 1, -m.start(), ("acq", "chan:" + ch.label, "W", name, f.line(m.start()))))
                    p.events.append((cl + 1, 0, -m.start(), ("rel", "chan:" + ch.label)))
                    ch.senders.append(f"{f.rel}:{f.line(m.start())} ({p.name}, {name})")
                    continue
                awaited = bool(re.compile(r"\s*\.\s*await\b").match(f.code, cl + 1))
                if (name == "blocking_send" or (name == "send" and awaited)) and SENDERISH.search(recv):
                    p.unknown_sends.append((m.start(), recv, name, f.line(m.start())))
            else:
                ch = by_rx.get((scope, recv)) or by_rx.get(("*", recv))
                if ch is None:
                    continue
                body = loop_body_around(f, p, m.start())
                a, b = (body + 1, f.match[body]) if body is not None else (m.start(), p.close)
                if any(e[3][0] == "acq" and e[3][1] == "chan:" + ch.label and e[3][3] == "consume" for e in p.events):
                    continue
                p.events.append((a, 1, -a, ("acq", "chan:" + ch.label, "W", "consume", f.line(m.start()))))
                p.events.append((b, 0, -a, ("rel", "chan:" + ch.label)))
                ch.consumers.append(f"{f.rel}::{p.name}")
    for ch in chans:
        if ch.senders and not ch.consumers:
            raise ExtractError(f"bounded channel `{ch.label}` ({ch.where}) has blocking senders ({ch.senders[0]} …) but no consumer was found")
        if len(ch.consumers) > 1:
            raise ExtractError(f"bounded channel `{ch.label}` has several consumers: {ch.consumers}")


def compute_ranking(chans, programs):
    """topological order of held -> acquired; leftover (cyclic) kinds keep the default order"""
    kinds = ["chan:" + c.label for c in chans] + ["conn", "bookie", "booked"]
    default = {k: i for i, k in enumerate(kinds)}
    edges = {("conn", "bookie"), ("bookie", "booked"), ("conn", "booked")}
    for _, _, ops in programs:
        held = []
        for e in ops:
            if e[0] == "acq":
                for h in held:
                    if h != e[1]:
                        edges.add((h, e[1]))
                held.append(e[1])
            elif e[0] == "rel" and e[1] in held:
                held.remove(e[1])
    order, left, cyclic = [], list(kinds), []
    while left:
        free = [k for k in left if not any((h, k) in edges for h in left if h != k)]
        if free:
            k = min(free, key=lambda k: default[k])
        else:
            # a cycle: no rank order exists; place the default-first kind and go on, so that only the
            # programs on the cycle fail `ordered`
            k = min(left, key=lambda k: default[k])
            cyclic.append(k)
        order.append(k)
        left.remove(k)
    return {k: i for i, k in enumerate(order)}, cyclic



def build_programs(f):
    """programs of one file (before call inlining)"""
    fns = find_functions(f)
    spawns = []
    for m in SPAWN_RE.finditer(f.code):
        o = m.end() - 1
        spawns.append((o, f.match[o]))
    roots = []  # (name, open, close)
    counters = {}
    fn_ranges = [(o, c, n) for (n, o, c, _) in fns]
    for n, o, c, _ in fns:
        roots.append((n, o, c, False))
    for o, c in spawns:
        owner = [(fo, fc, n) for (fo, fc, n) in fn_ranges if fo < o and c <= fc]
        if not owner:
            continue
        owner.sort(key=lambda t: t[1] - t[0])
        n = owner[0][2]
        counters[n] = counters.get(n, 0) + 1
        roots.append((f"{n}@spawn{counters[n]}", o, c, True))
    progs = []
    for name, o, c, _ in roots:
        excluded = [(o2, c2 + 1) for (_, o2, c2, _) in roots if o < o2 and c2 < c]
        progs.append(Program(f, name, o, excluded))
    # acquisitions
    for p in progs:
        acqs = [a for a in find_acquisitions(f, p.root, p.close) if p.owns(a["pos"])]
        merged = {}
        for a in acqs:
            rel, key = release_of(f, p, a)
            if key is not None:
                k2 = (key, a["kind"])
                if k2 in merged:
                    # another branch flowing into the same `let`: one acquisition
                    if a["mode"] == "W":
                        merged[k2]["mode"] = "W"
                    merged[k2]["what"] += "|" + a["what"]
                    continue
                merged[k2] = a
            a["rel"] = rel
        for a in acqs:
            if "rel" in a:
                p.events.append((a["pos"], 1, -a["pos"], ("acq", a["kind"], a["mode"], a["what"], f.line(a["pos"]))))
                p.events.append((a["rel"], 0, -a["pos"], ("rel", a["kind"])))
    return progs, fns


def scan_calls(progs_by_file, relevant):
    """record calls of relevant functions inside every program"""
    names = {}
    for p in relevant:
        names.setdefault(p.name, []).append(p)
    if not names:
        return
    pat = re.compile(r"(?<![A-Za-z0-9_])(" + "|".join(re.escape(n) for n in sorted(names) if "@" not in n) + r")\s*(?:::\s*<[^;{}()]*?>\s*)?\(")
    for f, progs in progs_by_file:
        for m in pat.finditer(f.code):
            pre = f.code[max(0, m.start() - 12):m.start()]
            if re.search(r"\bfn\s+$", pre):
                continue
            if re.search(r"\.\s*$", pre) and not re.search(r"\bself\s*\.\s*$", f.code[max(0, m.start() - 24):m.start()]):
                continue  # a method of something else
            owners = [p for p in progs if p.owns(m.start())]
            if not owners:
                continue
            owners.sort(key=lambda p: p.close - p.root)
            owner = owners[0]
            cands = names[m.group(1)]
            same = [c for c in cands if c.f is f]
            if re.search(r"\bself\s*\.\s*$", f.code[max(0, m.start() - 24):m.start()]):
                # a method of the same type: only functions of this file qualify
                if not same:
                    continue
                cands = same
            target = same[0] if len(same) == 1 else (cands[0] if len(cands) == 1 else None)
            qm = re.search(r"((?:[A-Za-z_][A-Za-z0-9_]*\s*::\s*)+)$", f.code[max(0, m.start() - 80):m.start()])
            if qm and len(cands) > 1:
                # `a::b::name(`: the module path names files / directories
                qs = [x for x in re.split(r"\s*::\s*", qm.group(1)) if x]
                if qs[-1] in ("self", "Self"):
                    byq = same
                elif qs[-1] == "super":
                    byq = [c for c in cands if os.path.dirname(c.f.rel) in (os.path.dirname(f.rel), os.path.dirname(os.path.dirname(f.rel)))]
                else:
                    qs = [x for x in qs if x not in ("crate", "self", "super")]
                    byq = [c for c in cands if all(x in re.split(r"[/.]", c.f.rel) for x in qs)]
                    if len(byq) > 1:
                        # prefer the file named after the last segment
                        exact = [c for c in byq if os.path.basename(c.f.rel) == qs[-1] + ".rs"]
                        byq = exact or byq
                if not byq:
                    continue  # a function of another module that is not extracted
                target = byq[0] if len(byq) == 1 else None
            if target is None:
                raise ExtractError(f"{f.rel}:{f.line(m.start())}: call of `{m.group(1)}` is ambiguous between "
                                   + ", ".join(c.f.rel for c in cands))
            if target is owner:
                continue
            if not any(pos == m.start() for pos, _ in owner.calls):
                owner.calls.append((m.start(), target))


def linearise(p, stack=()):
    """ops of a program with calls inlined"""
    if p in stack:
        raise ExtractError("recursive call chain through " + " -> ".join(q.name for q in stack + (p,)))
    evs = list(p.events)
    for pos, callee in p.calls:
        evs.append((pos, 1, -pos, ("call", callee)))
    for pos, recv, meth, line in p.unknown_sends:
        evs.append((pos, 1, -pos, ("unk", recv, meth, f"{p.f.rel}:{line}")))
    evs.sort(key=lambda e: (e[0], e[1], e[2]))
    ops = []
    for _, _, _, e in evs:
        if e[0] == "call":
            sub = linearise(e[1], stack + (p,))
            if sub:
                ops.append(("note", f"call {e[1].name}"))
                ops.extend(sub)
                ops.append(("note", f"end {e[1].name}"))
        else:
            ops.append(e)
    return ops


def source_files(repo):
    out = []
    for p in sorted(glob.glob(os.path.join(repo, "crates", "*", "src", "**", "*.rs"), recursive=True)):
        rel = os.path.relpath(p, repo)
        parts = rel.split(os.sep)
        if parts[1] in ("klukai-tests",) or "tests" in parts or parts[-1] in ("tests.rs", "test.rs"):
            continue
        out.append(rel)
    return out


def extract_programs(repo):
    infos = []
    for rel in source_files(repo):
        f = File(repo, rel)
        progs, fns = build_programs(f)
        infos.append((f, progs, fns))
    progs_by_file = [(f, progs) for f, progs, _ in infos]
    # bounded channels: table, name flow, send / consume events
    chans = find_channels([f for f, _, _ in infos])
    resolve_channel_names(chans, infos)
    add_channel_events(chans, infos)
    # relevant = has events, or (fixpoint) calls a relevant program
    relevant = [p for _, ps in progs_by_file for p in ps if p.events]
    seen = set(id(p) for p in relevant)
    for _ in range(12):
        for _, ps in progs_by_file:
            for p in ps:
                p.calls = []
        scan_calls(progs_by_file, relevant)
        grew = False
        for _, ps in progs_by_file:
            for p in ps:
                if p.calls and id(p) not in seen:
                    seen.add(id(p))
                    relevant.append(p)
                    grew = True
        if not grew:
            break
    else:
        raise ExtractError("call closure did not stabilise")
    result = []
    for p in relevant:
        ops = linearise(p)
        if not any(o[0] == "acq" for o in ops):
            continue
        # a wait on an unknown channel while a guard is held cannot be decided
        held = []
        for e in ops:
            if e[0] == "acq":
                held.append(e[1])
            elif e[0] == "rel" and e[1] in held:
                held.remove(e[1])
            elif e[0] == "unk":
                guards = [h for h in held if not h.startswith("chan:")]
                if guards:
                    raise ExtractError(f"{e[3]}: `{e[1]}.{e[2]}(..)` waits on a channel the extractor does not know while "
                                       f"`{p.name}` holds {guards}")
        ops = [e for e in ops if e[0] != "unk"]
        result.append((p.f.rel, p.name, ops))
    result.sort(key=lambda t: (t[0], t[1]))
    # required functions
    have = {(rel, name.split("@")[0]) for rel, name, _ in result}
    have_files = {rel for rel, _, _ in result}
    for rel, name in REQUIRED:
        if name is None:
            if rel not in have_files:
                raise ExtractError(f"no acquiring function found in {rel} (expected at least one)")
        elif (rel, name) not in have:
            raise ExtractError(f"required writer function `{name}` not found (or acquires nothing) in {rel}")
    # every textual conn acquisition of the scanned sources must have been attributed
    n_sites = 0
    for f, ps in progs_by_file:
        for m in re.finditer(r"\.\s*(write_priority|write_normal|write_low)\s*\(\s*\)", f.code):
            n_sites += 1
            if not any(p.owns(m.start()) for p in ps):
                raise ExtractError(f"{f.rel}:{f.line(m.start())}: write-connection acquisition outside any function body")
    return result, n_sites, chans


# ------------------------------------------------------------------ write-pool constants

def extract_pool(repo):
    rel = "crates/klukai-types/src/agent.rs"
    f = File(repo, rel)
    code, ws = f.code, f.withstr
    m = re.search(r"\bimpl\s+SplitPool\s*\{", code)
    if not m:
        raise ExtractError("impl SplitPool not found")
    io, ic = m.end() - 1, f.match[m.end() - 1]
    fns = {n: (o, c) for (n, o, c, _) in find_functions(f) if io < o < ic}
    for need in ("create", "new", "write_priority", "write_normal", "write_low", "write_inner"):
        if need not in fns:
            raise ExtractError(f"SplitPool::{need} not found")
    # --- new: queues, dispatcher
    o, c = fns["new"]
    body, bodys = code[o:c], ws[o:c]
    queues = {}
    for qm in re.finditer(r"let\s*\(\s*([a-z_]+)_tx\s*,\s*mut\s+([a-z_]+)_rx\s*\)\s*=\s*bounded\s*\(\s*(\d+)\s*,\s*\"([a-z]+)\"\s*\)\s*;", bodys):
        if qm.group(1) != qm.group(2):
            raise ExtractError("queue sender/receiver names differ")
        queues[qm.group(1)] = qm.group(4)
    if sorted(queues) != ["low", "normal", "priority"] or any(k != v for k, v in queues.items()):
        raise ExtractError(f"expected the three queues priority/normal/low with matching labels, found {queues}")
    spawns = list(re.finditer(r"tokio\s*::\s*spawn\s*\(\s*async\s+move\s*\{", body))
    if len(spawns) != 1:
        raise ExtractError("expected exactly one spawned dispatcher in SplitPool::new")
    so = o + spawns[0].end() - 1
    sc = f.match[so]
    disp, disps = code[so:sc], ws[so:sc]
    sels = list(re.finditer(r"tokio\s*::\s*select\s*!\s*\{", disp))
    if len(sels) != 1:
        raise ExtractError("expected exactly one select! in the dispatcher")
    lo = so + sels[0].end() - 1
    hi = f.match[lo]
    sel, sels_ = code[lo + 1:hi], ws[lo + 1:hi]
    biased = bool(re.match(r"\s*biased\s*;", sel))
    branches = re.findall(r"Some\s*\(\s*tx\s*\)\s*=\s*([a-z_]+)_rx\s*\.\s*recv\s*\(\s*\)\s*=>\s*\(\s*tx\s*,\s*\"([a-z]+)\"\s*\)", sels_)
    rest = re.sub(r"Some\s*\(\s*tx\s*\)\s*=\s*([a-z_]+)_rx\s*\.\s*recv\s*\(\s*\)\s*=>\s*\(\s*tx\s*,\s*\"([a-z]+)\"\s*\)\s*,?", "", sels_)
    rest = re.sub(r"^\s*biased\s*;", "", rest)
    if rest.strip():
        raise ExtractError(f"unrecognised text in the dispatcher select!: {rest.strip()[:80]!r}")
    if len(branches) != 3 or any(a != b for a, b in branches) or sorted(a for a, _ in branches) != ["low", "normal", "priority"]:
        raise ExtractError(f"dispatcher branches not understood: {branches}")
    order = [a for a, _ in branches]
    after = code[hi + 1:sc]
    if not re.search(r"wait_conn_drop\s*\(\s*tx\s*,\s*channel\s*\)\s*\.\s*await", after):
        raise ExtractError("dispatcher does not `wait_conn_drop(tx, channel).await` after the select!")
    if not re.search(r"\bloop\s*\{", disp[:sels[0].start()]):
        raise ExtractError("dispatcher select! is not inside a loop")
    # wait_conn_drop: a failed send returns
    wm = re.search(r"\bfn\s+wait_conn_drop\s*\(", code)
    if not wm:
        raise ExtractError("fn wait_conn_drop not found")
    wo = code.index("{", f.match[wm.end() - 1])
    wbody = code[wo:f.match[wo]]
    if not re.search(r"if\s+let\s+Err\s*\(\s*_?[a-z]*\s*\)\s*=\s*tx\s*\.\s*send\s*\(\s*cancel\s*\.\s*clone\s*\(\s*\)\s*\.\s*drop_guard\s*\(\s*\)\s*\)\s*\{[^{}]*\breturn\s*;[^{}]*\}", wbody):
        raise ExtractError("wait_conn_drop: `if let Err(_) = tx.send(cancel.clone().drop_guard()) { …; return; }` not found")
    if not re.search(r"cancel\s*\.\s*cancelled\s*\(\s*\)\s*=>\s*\{\s*break\s*;", wbody):
        raise ExtractError("wait_conn_drop: `cancel.cancelled() => { break; }` not found")
    # --- wiring of write_* to the queues
    for meth, q in CONN_METHODS.items():
        o2, c2 = fns[meth]
        if not re.search(r"self\s*\.\s*write_inner\s*\(\s*&\s*self\s*\.\s*0\s*\.\s*" + q + r"_tx\s*,\s*\"" + q + r"\"\s*\)\s*\.\s*await", ws[o2:c2]):
            raise ExtractError(f"SplitPool::{meth} does not use the `{q}` queue")
    init = re.search(r"Self\s*\(\s*Arc\s*::\s*new\s*\(\s*SplitPoolInner\s*\{([^{}]*)\}", body)
    if not init:
        raise ExtractError("SplitPoolInner initialiser not found in SplitPool::new")
    fields = [x.strip() for x in init.group(1).split(",") if x.strip()]
    for need in ("priority_tx", "normal_tx", "low_tx", "write", "write_sema"):
        if need not in fields:
            raise ExtractError(f"SplitPoolInner initialiser: field `{need}` is not initialised by the same-named variable")
    # --- write_inner: order queue -> guard -> conn -> permit, result carries all three
    o3, c3 = fns["write_inner"]
    wi = ws[o3:c3]
    steps = [r"chan\s*\.\s*send\s*\(\s*tx\s*\)", r"let\s+_drop_guard\s*=\s*timeout_fut\s*\(\s*\"[^\"]*\"\s*,\s*max_timeout\s*,\s*rx\s*\)",
             r"let\s+conn\s*=\s*timeout_fut\s*\(\s*\"[^\"]*\"\s*,\s*max_timeout\s*,\s*self\s*\.\s*0\s*\.\s*write\s*\.\s*get\s*\(\s*\)\s*\)",
             r"let\s+_permit\s*=\s*timeout_fut\s*\(\s*\"[^\"]*\"\s*,\s*max_timeout\s*,\s*self\s*\.\s*0\s*\.\s*write_sema\s*\.\s*clone\s*\(\s*\)\s*\.\s*acquire_owned\s*\(\s*\)\s*,?\s*\)",
             r"Ok\s*\(\s*WriteConn\s*\{\s*conn\s*,\s*_drop_guard\s*,\s*_permit\s*,?\s*\}\s*\)"]
    at = 0
    for st in steps:
        mm = re.compile(st).search(wi, at)
        if not mm:
            raise ExtractError(f"write_inner: step /{st[:40]}…/ not found in the expected order")
        at = mm.end()
    # --- create: pool sizes
    o4, c4 = fns["create"]
    cr = code[o4:c4]
    rw = re.search(r"let\s+rw_pool\s*=\s*sqlite_pool\s*::\s*Config\s*::\s*new\s*\([^;]*?\)\s*((?:\.\s*[a-z_]+\s*\([^;]*?\)\s*)*)\?\s*;", cr)
    if not rw:
        raise ExtractError("SplitPool::create: `let rw_pool = sqlite_pool::Config::new(..)…?;` not found")
    sizes = re.findall(r"\.\s*max_size\s*\(\s*(\d+)\s*\)", rw.group(1))
    if len(sizes) != 1:
        raise ExtractError("SplitPool::create: write pool has no single literal `.max_size(n)`")
    if re.search(r"read_only", rw.group(1)):
        raise ExtractError("SplitPool::create: rw_pool is read-only?")
    pool_size = int(sizes[0])
    call = re.search(r"Self\s*::\s*new\s*\(([^;]*)\)\s*\)", cr)
    if not call:
        raise ExtractError("SplitPool::create: call of Self::new not found")
    args = [a.strip() for a in call.group(1).split(",") if a.strip()]
    if len(args) != 4 or args[1] != "write_sema" or args[3] != "rw_pool":
        raise ExtractError(f"SplitPool::create: Self::new arguments not understood: {args}")
    sig = code[code.rfind("fn", 0, fns["new"][0]):fns["new"][0]]
    pm = re.search(r"\(\s*path\s*:[^,]*,\s*write_sema\s*:[^,]*,\s*read\s*:[^,]*,\s*write\s*:[^,)]*\)", sig)
    if not pm:
        raise ExtractError("SplitPool::new signature not understood")
    # --- semaphore size where the agent is set up
    rel2 = "crates/klukai-agent/src/agent/setup.rs"
    g = File(repo, rel2)
    sm = re.findall(r"let\s+write_sema\s*=\s*Arc\s*::\s*new\s*\(\s*Semaphore\s*::\s*new\s*\(\s*(\d+)\s*\)\s*\)\s*;", g.code)
    if len(sm) != 1:
        raise ExtractError("setup.rs: `let write_sema = Arc::new(Semaphore::new(n));` not found exactly once")
    if not re.search(r"SplitPool\s*::\s*create\s*\([^;]*,\s*write_sema\s*\.\s*clone\s*\(\s*\)\s*\)", g.code):
        raise ExtractError("setup.rs: SplitPool::create(.., write_sema.clone()) not found")
    return {"biased": biased, "order": order, "pool_size": pool_size, "permits": int(sm[0])}


# ------------------------------------------------------------------ rendering

def check_ordered(ops, rank):
    """python twin of `Corro.LockOrder.ordered` (for messages only; Lean decides)"""
    held = []
    for e in ops:
        if e[0] == "acq":
            if any(rank[h] >= rank[e[1]] for h in held):
                return False, e
            held.append(e[1])
        elif e[0] == "rel":
            if e[1] not in held:
                return False, e
            held.remove(e[1])
    return not held, None


def render(programs, pool, n_sites, chans):
    rank, cyclic = compute_ranking(chans, programs)
    ids = {"chan:" + c.label: i for i, c in enumerate(chans)}

    def kind(k):
        return f"(.chan {ids[k]})" if k.startswith("chan:") else "." + k

    L = []
    L.append("/- GENERATED by tools/extract_c20.py from /repo (crates/*/src). Do not edit: regenerated at the")
    L.append("   start of every check.  One program per function (or spawned async block) that acquires the write")
    L.append("   connection, the bookie or a booked lock, blocks on a send into one of the agent's bounded channels or")
    L.append("   consumes one: acquisitions in textual order, a release where the guard's scope ends, a blocking send")
    L.append("   as `acq chan; rel chan`, the consumer holding `chan` over its loop body, calls of other extracted")
    L.append("   functions inlined.  Actor 0 stands for any actor. -/")
    L.append("import Corro.Model.WritePool")
    L.append("import Corro.Model.LockOrder")
    L.append("namespace Corro.Gen.LockPrograms")
    L.append("open Corro.LockOrder")
    L.append("")
    L.append("/-- `SplitPool::new`: `biased;` present, textual order of the `select!` branches;")
    L.append("`SplitPool::create`: `max_size` of the write pool; `setup`: `Semaphore::new(n)` of `write_sema` -/")
    order = ", ".join("." + q for q in pool["order"])
    L.append(f"def poolCfg : Corro.WritePool.Cfg := ⟨{'true' if pool['biased'] else 'false'}, [{order}], {pool['pool_size']}, {pool['permits']}⟩")
    L.append("")
    L.append(f"/-- number of `.write_priority()|.write_normal()|.write_low()` call sites in non-test sources -/")
    L.append(f"def connSites : Nat := {n_sites}")
    L.append("")
    L.append("/-- the agent's bounded channels: (`chan` number, label, capacity expression, created at, consumer) -/")
    L.append("def channels : List (Nat × String × String × String × String) := [")
    for i, c in enumerate(chans):
        comma = "," if i + 1 < len(chans) else ""
        cons = c.consumers[0].replace("crates/", "") if c.consumers else "-"
        L.append(f"  -- blocking senders: {', '.join(x.replace('crates/', '') for x in c.senders) if c.senders else 'none'}")
        L.append(f"  ({i}, \"{c.label}\", \"{c.cap}\", \"{c.where.replace('crates/', '')}\", \"{cons}\"){comma}")
    L.append("]")
    L.append("")
    L.append("/-- ranks: a topological order of `held -> acquired` over all programs and conn -> bookie -> booked" + (
        f";\nNO such order exists (a cycle was broken at {', '.join(cyclic)})" if cyclic else "") + " -/")
    L.append("def ranking : Ranking := [" + ", ".join(f"({kind(k)}, {r})" for k, r in sorted(rank.items(), key=lambda t: t[1])) + "]")
    L.append("")
    L.append("def programs : List Named := [")
    for i, (rel, name, ops) in enumerate(programs):
        short = rel.replace("crates/", "")
        items = []
        for e in ops:
            if e[0] == "acq":
                items.append(f".acq {kind(e[1])} 0 .{e[2]}")
            elif e[0] == "rel":
                items.append(f".rel {kind(e[1])}")
        comma = "," if i + 1 < len(programs) else ""
        trace = " ".join((f"{e[3]}@{e[4]}" if e[0] == "acq" else (f"-{e[1]}" if e[0] == "rel" else f"[{e[1]}]")) for e in ops)
        L.append(f"  -- {trace}")
        L.append(f"  ⟨\"{short}::{name}\", [{', '.join(items)}]⟩{comma}")
    L.append("]")
    L.append("")
    L.append("end Corro.Gen.LockPrograms")
    L.append("")
    return "\n".join(L)


def extract(repo):
    programs, n_sites, chans = extract_programs(repo)
    pool = extract_pool(repo)
    return [("LockPrograms.lean", render(programs, pool, n_sites, chans))]


if __name__ == "__main__":
    import sys
    pos = [a for a in sys.argv[1:] if not a.startswith("-")]
    repo = pos[0] if pos else "/repo"
    programs, n_sites, chans = extract_programs(repo)
    rank, cyclic = compute_ranking(chans, programs)
    for rel, name, ops in programs:
        ok, bad = check_ordered(ops, rank)
        print(("OK   " if ok else "BAD  ") + rel + "::" + name + ("" if ok else f"   <- {bad}"))
        if "-v" in sys.argv:
            for e in ops:
                print("      ", e)
    for c in chans:
        print(f"chan {c.label}: cap={c.cap} at {c.where}\n    tx={sorted(c.tx_names)}\n    rx={sorted(c.rx_names)}\n    consumer={c.consumers}\n    senders={c.senders}")
    print("ranking:", sorted(rank.items(), key=lambda t: t[1]), "cyclic:", cyclic)
    print(extract_pool(repo), "conn sites:", n_sites)
