"""C20 extractor: lock-acquisition programs of the agent's tasks and the write-pool constants
-> lean/Corro/Gen/LockPrograms.lean.

1. Programs.  Every non-test function under crates/*/src (the wrappers' own definitions in
   klukai-types/src/agent.rs excluded by construction: their calls carry no label literal) that
   acquires one of the modelled resources becomes a program: the acquisitions in textual order and a
   release where the guard's scope ends.

     conn    `.write_priority()` | `.write_normal()` | `.write_low()`
     bookie  `.read|write|blocking_write|…(` on a receiver whose last name segment contains `bookie`
     booked  the same methods on a receiver whose last name segment contains `booked`
             (a call of those methods whose first argument is a label literal but whose receiver cannot
             be classified raises)

   Guard scope (conservative = never shorter than the real one):
     * the acquisition is followed by `.method(`/`.field` (other than `.await`, `?`): the guard is a
       temporary, released at the end of the enclosing statement; a temporary in the tail expression of
       a block lives to the end of the statement that encloses the block;
     * otherwise the guard is a value: if it flows (through block tails / match arms / if branches)
       into a `let` statement it is held to the end of the block of that `let`, or to a `drop(name);`
       statement of that same block; several acquisitions flowing into the same `let` (if/else
       branches) are one acquisition; a value that flows out of the function raises;
     * `spawn…(async [move] { … })` bodies are programs of their own (`fn@spawnN`);
     * a call of another extracted function (by name) is inlined at the call site.
   Early exits (`?`, `return`, `continue`) only shorten real scopes, loops repeat a balanced body, so
   the straight-line program over-approximates what any execution holds at each acquisition.

2. Constants of `SplitPool` (klukai-types/src/agent.rs) and of `setup` (klukai-agent/src/agent/setup.rs):
   the `biased;` keyword and branch order of the dispatcher's `select!`, the wiring of the three
   queues to `write_priority|normal|low`, the write pool's `max_size`, `Semaphore::new(n)` of
   `write_sema`.

Strict: anything unexpected raises; tools/check then reports the broken tie.
"""
import bisect, glob, os, re

REQUIRED = [
    ("crates/klukai-agent/src/agent/util.rs", "process_multiple_changes"),
    ("crates/klukai-agent/src/agent/util.rs", "process_fully_buffered_changes"),
    ("crates/klukai-agent/src/agent/util.rs", "clear_buffered_meta_loop"),
    ("crates/klukai-agent/src/api/public/mod.rs", "make_broadcastable_changes"),
    ("crates/klukai-agent/src/api/public/mod.rs", "execute_schema"),
    ("crates/klukai-agent/src/agent/handlers.rs", "handle_changes"),
    ("crates/klukai-agent/src/agent/handlers.rs", "vacuum_db"),
    ("crates/klukai-agent/src/agent/handlers.rs", "wal_checkpoint_over_threshold"),
    ("crates/klukai-agent/src/agent/run_root.rs", "run"),
    ("crates/klukai-agent/src/agent/setup.rs", "setup"),
    ("crates/klukai-agent/src/api/peer/mod.rs", "process_sync"),
    ("crates/klukai-agent/src/broadcast/mod.rs", None),      # whichever fn persists member states
    ("crates/klukai/src/admin.rs", "handle_conn"),
    ("crates/klukai-types/src/sync.rs", "generate_sync"),
]

CONN_METHODS = {"write_priority": "priority", "write_normal": "normal", "write_low": "low"}
LOCK_METHODS = {"read": "R", "blocking_read": "R", "write": "W", "write_owned": "W",
                "blocking_write": "W", "blocking_write_owned": "W"}
RANK = {"conn": 0, "bookie": 1, "booked": 2}
OPEN, CLOSE = "([{", ")]}"
BLOCK_KW = ("if", "match", "for", "while", "loop", "unsafe")


class ExtractError(Exception):
    pass


# ------------------------------------------------------------------ lexical layer

def blank(src, keep_strings=False):
    """same-length copy with comments (and string/char contents unless keep_strings) blanked"""
    out = list(src)
    i, n = 0, len(src)

    def bl(a, b):
        for k in range(a, b):
            if out[k] != "\n":
                out[k] = " "

    while i < n:
        c = src[i]
        if src.startswith("//", i):
            j = src.find("\n", i)
            j = n if j < 0 else j
            bl(i, j)
            i = j
        elif src.startswith("/*", i):
            depth, j = 1, i + 2
            while j < n and depth:
                if src.startswith("/*", j):
                    depth += 1; j += 2
                elif src.startswith("*/", j):
                    depth -= 1; j += 2
                else:
                    j += 1
            bl(i, j)
            i = j
        elif c == '"' or (c in "rb" and re.match(r'b?r?#*"', src[i:i + 8]) and not (i and (src[i - 1].isalnum() or src[i - 1] == "_"))):
            m = re.match(r'(b?)(r?)(#*)"', src[i:])
            if m.group(2):
                hashes = m.group(3)
                start = i + len(m.group(0))
                end = src.find('"' + hashes, start)
                if end < 0:
                    raise ExtractError("unterminated raw string")
                if not keep_strings:
                    bl(start, end)
                i = end + 1 + len(hashes)
            else:
                j = i + len(m.group(0))
                start = j
                while j < n and src[j] != '"':
                    j += 2 if src[j] == "\\" else 1
                if j >= n:
                    raise ExtractError("unterminated string")
                if not keep_strings:
                    bl(start, j)
                i = j + 1
        elif c == "'":
            m = re.match(r"'(\\.[^']*|[^'\\])'", src[i:i + 12])
            if m:
                bl(i + 1, i + len(m.group(0)) - 1)
                if keep_strings:
                    pass
                i += len(m.group(0))
            else:
                i += 1
        else:
            i += 1
    return "".join(out)


def bracket_table(code, what):
    """match[i] = index of the partner bracket"""
    match, stack = {}, []
    for i, ch in enumerate(code):
        if ch in OPEN:
            stack.append(i)
        elif ch in CLOSE:
            if not stack or OPEN.index(code[stack[-1]]) != CLOSE.index(ch):
                raise ExtractError(f"{what}: unbalanced brackets near offset {i}")
            j = stack.pop()
            match[j] = i
            match[i] = j
    if stack:
        raise ExtractError(f"{what}: unbalanced brackets (unclosed at {stack[-1]})")
    return match


def skip_ws(code, i, hi=None):
    hi = len(code) if hi is None else hi
    while i < hi and code[i].isspace():
        i += 1
    return i


IDENT = re.compile(r"[A-Za-z_][A-Za-z0-9_]*")


class File:
    def __init__(self, repo, rel):
        self.rel = rel
        with open(os.path.join(repo, rel), encoding="utf-8") as f:
            self.src = f.read()
        self.code = blank(self.src)
        self.withstr = blank(self.src, keep_strings=True)
        self.blank_tests()
        self.match = bracket_table(self.code, rel)
        self.braces = sorted(i for i in self.match if self.code[i] == "{")
        self._stmts = {}

    def line(self, pos):
        return self.src.count("\n", 0, pos) + 1

    def blank_range(self, a, b):
        def f(s):
            return s[:a] + re.sub(r"[^\n]", " ", s[a:b]) + s[b:]
        self.code = f(self.code)
        self.withstr = f(self.withstr)

    def blank_tests(self):
        """remove `#[cfg(test)]`/`#[test]`/`#[tokio::test…]` items and the verification hooks
        (`#[cfg(beanpuppy_corrosion_verif)]`: visibility wrappers, no behaviour)"""
        while True:
            m = re.search(r"#\s*\[\s*(cfg\s*\(\s*(?:test|beanpuppy_corrosion_verif)\s*\)|test|tokio\s*::\s*test[^\]]*)\]", self.code)
            if not m:
                return
            # the item: up to the first `;` or the end of the first `{…}` at depth 0
            i, depth = m.end(), 0
            n = len(self.code)
            end = None
            while i < n:
                ch = self.code[i]
                if ch in "([":
                    depth += 1
                elif ch in ")]":
                    depth -= 1
                elif ch == "{" and depth == 0:
                    d, j = 0, i
                    while j < n:
                        if self.code[j] == "{":
                            d += 1
                        elif self.code[j] == "}":
                            d -= 1
                            if d == 0:
                                break
                        j += 1
                    end = j + 1
                    break
                elif ch == ";" and depth == 0:
                    end = i + 1
                    break
                i += 1
            if end is None:
                raise ExtractError(f"{self.rel}: cannot delimit the test item at line {self.line(m.start())}")
            self.blank_range(m.start(), end)

    # ---- blocks and statements

    def innermost_brace(self, pos, root):
        """the innermost `{` (index) whose block contains pos, not outside `root`"""
        k = bisect.bisect_right(self.braces, pos) - 1
        while k >= 0:
            o = self.braces[k]
            if self.match[o] > pos and o < pos:
                if o < root:
                    return root
                return o
            k -= 1
        return root

    def statements(self, o):
        """statements of the block opened at `o`: list of dicts(a, b, tail, let)"""
        if o in self._stmts:
            return self._stmts[o]
        code, match = self.code, self.match
        hi = match[o]
        out = []
        i = skip_ws(code, o + 1, hi)
        while i < hi:
            a = i
            m = IDENT.match(code, i)
            word = m.group(0) if m else ""
            j = i
            # loop labels
            lm = re.compile(r"'[A-Za-z_][A-Za-z0-9_]*\s*:\s*").match(code, i)
            if lm:
                j = lm.end()
                m = IDENT.match(code, j)
                word = m.group(0) if m else ""
            end, tail = None, False
            is_macro_block = False
            mm = re.compile(r"(?:[A-Za-z_][A-Za-z0-9_]*\s*::\s*)*[A-Za-z_][A-Za-z0-9_]*\s*!\s*\{").match(code, j)
            if mm:
                is_macro_block = True
            if word in BLOCK_KW or code[j] == "{" or is_macro_block:
                # block-like expression statement: ends at the closing brace of its (last else) block
                k = j
                while True:
                    # first `{` at depth 0 from k
                    while k < hi and code[k] != "{":
                        if code[k] in "([":
                            k = match[k] + 1
                        elif code[k] == ";":
                            break
                        else:
                            k += 1
                    if k >= hi or code[k] != "{":
                        k = None
                        break
                    k = match[k] + 1
                    nxt = skip_ws(code, k, hi)
                    em = re.compile(r"else\b").match(code, nxt)
                    if word == "if" and em:
                        k = em.end()
                        continue
                    break
                if k is not None:
                    end = k
                    nxt = skip_ws(code, end, hi)
                    # a block-like statement directly followed by `.`/`?` is really an expression
                    # in tail position (`match x {…}.foo()`); treat through to the next `;`
                    if nxt < hi and code[nxt] in ".?":
                        end = None
                    else:
                        tail = nxt >= hi
            if end is None:
                k = j
                while k < hi and code[k] != ";":
                    if code[k] in OPEN:
                        k = match[k] + 1
                    else:
                        k += 1
                if k < hi:
                    end = k + 1
                else:
                    end, tail = hi, True
            out.append({"a": a, "b": end, "tail": tail, "let": word == "let", "word": word})
            i = skip_ws(code, end, hi)
        self._stmts[o] = out
        return out

    def statement_at(self, o, pos):
        for s in self.statements(o):
            if s["a"] <= pos < s["b"]:
                return s
        raise ExtractError(f"{self.rel}:{self.line(pos)}: no statement found around the acquisition")


# ------------------------------------------------------------------ functions

def find_functions(f):
    """[(name, body_open, body_close, fn_pos)] for every fn with a body"""
    code = f.code
    fns = []
    for m in re.finditer(r"\bfn\s+([A-Za-z_][A-Za-z0-9_]*)", code):
        i = m.end()
        i = skip_ws(code, i)
        if i < len(code) and code[i] == "<":
            depth = 0
            while i < len(code):
                if code[i] == "<":
                    depth += 1
                elif code[i] == ">" and code[i - 1] != "-":
                    depth -= 1
                    if depth == 0:
                        i += 1
                        break
                i += 1
            i = skip_ws(code, i)
        if i >= len(code) or code[i] != "(":
            continue  # `fn` in a type position (`fn(A) -> B`) or unparsable: not an item
        i = f.match[i] + 1
        while i < len(code) and code[i] not in "{;":
            if code[i] in "([":
                i = f.match[i] + 1
            else:
                i += 1
        if i >= len(code) or code[i] == ";":
            continue
        fns.append((m.group(1), i, f.match[i], m.start()))
    return fns


def receiver_name(f, dot):
    """last name segment of the receiver expression that ends right before the `.` at `dot`"""
    code = f.code
    i = dot - 1
    while i >= 0 and code[i].isspace():
        i -= 1
    if i < 0:
        return None
    if code[i] == "?":
        i -= 1
        while i >= 0 and code[i].isspace():
            i -= 1
    if code[i] == ")":
        i = f.match[i] - 1
        while i >= 0 and code[i].isspace():
            i -= 1
        # optional turbofish is not expected here
    j = i
    while j >= 0 and (code[j].isalnum() or code[j] == "_"):
        j -= 1
    name = code[j + 1:i + 1]
    return name or None


ACQ_RE = re.compile(r"\.\s*([A-Za-z_][A-Za-z0-9_]*)\s*(::\s*<[^;{}()]*?>\s*)?\(")


def find_acquisitions(f, lo, hi):
    """acquisition call sites in code[lo:hi]: dicts(pos, end, kind, mode, what)"""
    code, out = f.code, []
    for m in ACQ_RE.finditer(code, lo, hi):
        meth = m.group(1)
        op = m.end() - 1
        cl = f.match[op]
        if meth in CONN_METHODS:
            if code[op + 1:cl].strip():
                continue
            out.append({"pos": m.start(), "end": cl + 1, "kind": "conn", "mode": "W", "what": meth})
        elif meth in LOCK_METHODS:
            first = f.withstr[op + 1:cl].lstrip()
            labelled = first.startswith('"')
            recv = receiver_name(f, m.start())
            kind = None
            if recv and "bookie" in recv.lower():
                kind = "bookie"
            elif recv and ("booked" in recv.lower() or recv in ("book_writer", "book_reader")):
                kind = "booked"
            if kind is None:
                if labelled:
                    raise ExtractError(f"{f.rel}:{f.line(m.start())}: `.{meth}(\"…\")` looks like a counted-lock "
                                       f"acquisition but its receiver `{recv}` is neither a bookie nor a booked")
                continue
            if not labelled and not code[op + 1:cl].strip() and kind is not None:
                # e.g. `booked.read()` without label: not the counted-lock API; be loud
                raise ExtractError(f"{f.rel}:{f.line(m.start())}: `.{meth}()` on `{recv}` without a label: unknown lock API")
            out.append({"pos": m.start(), "end": cl + 1, "kind": kind, "mode": LOCK_METHODS[meth], "what": meth})
    return out


def escapes(f, acq):
    """does the guard flow on as a value (True) or is it a temporary receiver of a further call (False)?"""
    code = f.code
    i = acq["end"]
    while True:
        i = skip_ws(code, i)
        m = re.compile(r"\.\s*await\b").match(code, i)
        if m:
            i = m.end()
            continue
        if i < len(code) and code[i] == "?":
            i += 1
            continue
        break
    return not (i < len(code) and code[i] == ".")


SPAWN_RE = re.compile(r"\bspawn[A-Za-z0-9_]*\s*\(\s*async\s+(?:move\s+)?\{")


class Program:
    def __init__(self, f, name, root_open, excluded):
        self.f, self.name, self.root = f, name, root_open
        self.close = f.match[root_open]
        self.excluded = excluded  # [(a,b)] sub-ranges that belong to other programs
        self.events = []          # (pos, order, op)
        self.calls = []           # (pos, callee name)

    def owns(self, pos):
        return self.root < pos < self.close and not any(a <= pos < b for a, b in self.excluded)


def release_of(f, prog, acq):
    """-> (release position, let-statement key or None)"""
    esc = escapes(f, acq)
    pos = acq["pos"]
    o = f.innermost_brace(pos, prog.root)
    while True:
        s = f.statement_at(o, pos)
        if esc and s["let"]:
            # bound: to the end of the block of the `let`, or an explicit drop of the bound name
            rel = f.match[o]
            m = re.compile(r"let\s+(?:mut\s+)?([A-Za-z_][A-Za-z0-9_]*)\s*(?::[^=]*)?=").match(f.code, s["a"])
            if m:
                name = m.group(1)
                for t in f.statements(o):
                    if t["a"] >= s["b"] and re.fullmatch(r"(?:std\s*::\s*mem\s*::\s*)?drop\s*\(\s*" + re.escape(name) + r"\s*\)\s*;", f.code[t["a"]:t["b"]].strip()):
                        rel = t["a"]
                        break
                    # shadowing `let name = …` ends our knowledge of the name, not the guard's life
            return rel, (o, s["a"])
        if s["tail"]:
            if o == prog.root:
                if esc:
                    raise ExtractError(f"{f.rel}:{f.line(pos)}: a guard flows out of `{prog.name}`; not understood")
                return f.match[o], None
            pos = o
            o = f.innermost_brace(o, prog.root)
            continue
        if esc and re.compile(r"(?:\*\s*)?[A-Za-z_][A-Za-z0-9_.]*\s*=[^=]").match(f.code, s["a"]):
            raise ExtractError(f"{f.rel}:{f.line(pos)}: a guard is assigned to an existing place; not understood")
        return s["b"], None


def build_programs(f):
    """programs of one file (before call inlining)"""
    fns = find_functions(f)
    spawns = []
    for m in SPAWN_RE.finditer(f.code):
        o = m.end() - 1
        spawns.append((o, f.match[o]))
    roots = []  # (name, open, close)
    counters = {}
    fn_ranges = [(o, c, n) for (n, o, c, _) in fns]
    for n, o, c, _ in fns:
        roots.append((n, o, c, False))
    for o, c in spawns:
        owner = [(fo, fc, n) for (fo, fc, n) in fn_ranges if fo < o and c <= fc]
        if not owner:
            continue
        owner.sort(key=lambda t: t[1] - t[0])
        n = owner[0][2]
        counters[n] = counters.get(n, 0) + 1
        roots.append((f"{n}@spawn{counters[n]}", o, c, True))
    progs = []
    for name, o, c, _ in roots:
        excluded = [(o2, c2 + 1) for (_, o2, c2, _) in roots if o < o2 and c2 < c]
        progs.append(Program(f, name, o, excluded))
    # acquisitions
    for p in progs:
        acqs = [a for a in find_acquisitions(f, p.root, p.close) if p.owns(a["pos"])]
        merged = {}
        for a in acqs:
            rel, key = release_of(f, p, a)
            if key is not None:
                k2 = (key, a["kind"])
                if k2 in merged:
                    # another branch flowing into the same `let`: one acquisition
                    if a["mode"] == "W":
                        merged[k2]["mode"] = "W"
                    merged[k2]["what"] += "|" + a["what"]
                    continue
                merged[k2] = a
            a["rel"] = rel
        for a in acqs:
            if "rel" in a:
                p.events.append((a["pos"], 1, -a["pos"], ("acq", a["kind"], a["mode"], a["what"], f.line(a["pos"]))))
                p.events.append((a["rel"], 0, -a["pos"], ("rel", a["kind"])))
    return progs, fns


def scan_calls(progs_by_file, relevant):
    """record calls of relevant functions inside every program"""
    names = {}
    for p in relevant:
        names.setdefault(p.name, []).append(p)
    if not names:
        return
    pat = re.compile(r"(?<![A-Za-z0-9_])(" + "|".join(re.escape(n) for n in sorted(names) if "@" not in n) + r")\s*(?:::\s*<[^;{}()]*?>\s*)?\(")
    for f, progs in progs_by_file:
        for m in pat.finditer(f.code):
            pre = f.code[max(0, m.start() - 12):m.start()]
            if re.search(r"\bfn\s+$", pre):
                continue
            if re.search(r"\.\s*$", pre) and not re.search(r"\bself\s*\.\s*$", f.code[max(0, m.start() - 24):m.start()]):
                continue  # a method of something else
            owners = [p for p in progs if p.owns(m.start())]
            if not owners:
                continue
            owners.sort(key=lambda p: p.close - p.root)
            owner = owners[0]
            cands = names[m.group(1)]
            same = [c for c in cands if c.f is f]
            target = same[0] if len(same) == 1 else (cands[0] if len(cands) == 1 else None)
            if target is None:
                raise ExtractError(f"{f.rel}:{f.line(m.start())}: call of `{m.group(1)}` is ambiguous between "
                                   + ", ".join(c.f.rel for c in cands))
            if target is owner:
                continue
            if not any(pos == m.start() for pos, _ in owner.calls):
                owner.calls.append((m.start(), target))


def linearise(p, stack=()):
    """ops of a program with calls inlined"""
    if p in stack:
        raise ExtractError("recursive call chain through " + " -> ".join(q.name for q in stack + (p,)))
    evs = list(p.events)
    for pos, callee in p.calls:
        evs.append((pos, 1, -pos, ("call", callee)))
    evs.sort(key=lambda e: (e[0], e[1], e[2]))
    ops = []
    for _, _, _, e in evs:
        if e[0] == "call":
            sub = linearise(e[1], stack + (p,))
            if sub:
                ops.append(("note", f"call {e[1].name}"))
                ops.extend(sub)
                ops.append(("note", f"end {e[1].name}"))
        else:
            ops.append(e)
    return ops


def source_files(repo):
    out = []
    for p in sorted(glob.glob(os.path.join(repo, "crates", "*", "src", "**", "*.rs"), recursive=True)):
        rel = os.path.relpath(p, repo)
        parts = rel.split(os.sep)
        if parts[1] in ("klukai-tests",) or "tests" in parts or parts[-1] in ("tests.rs", "test.rs"):
            continue
        out.append(rel)
    return out


def extract_programs(repo):
    progs_by_file = []
    for rel in source_files(repo):
        f = File(repo, rel)
        quick = re.search(r"write_priority|write_normal|write_low|booki|booked", f.code)
        if not quick:
            progs_by_file.append((f, []))
            continue
        progs, _ = build_programs(f)
        progs_by_file.append((f, progs))
    # relevant = has events, or (fixpoint) calls a relevant program
    relevant = [p for _, ps in progs_by_file for p in ps if p.events]
    seen = set(id(p) for p in relevant)
    for _ in range(12):
        for _, ps in progs_by_file:
            for p in ps:
                p.calls = []
        scan_calls(progs_by_file, relevant)
        grew = False
        for _, ps in progs_by_file:
            for p in ps:
                if p.calls and id(p) not in seen:
                    seen.add(id(p))
                    relevant.append(p)
                    grew = True
        if not grew:
            break
    else:
        raise ExtractError("call closure did not stabilise")
    result = []
    for p in relevant:
        ops = linearise(p)
        if not any(o[0] == "acq" for o in ops):
            continue
        result.append((p.f.rel, p.name, ops))
    result.sort(key=lambda t: (t[0], t[1]))
    # required functions
    have = {(rel, name.split("@")[0]) for rel, name, _ in result}
    have_files = {rel for rel, _, _ in result}
    for rel, name in REQUIRED:
        if name is None:
            if rel not in have_files:
                raise ExtractError(f"no acquiring function found in {rel} (expected at least one)")
        elif (rel, name) not in have:
            raise ExtractError(f"required writer function `{name}` not found (or acquires nothing) in {rel}")
    # every textual conn acquisition of the scanned sources must have been attributed
    n_sites = 0
    for f, ps in progs_by_file:
        for m in re.finditer(r"\.\s*(write_priority|write_normal|write_low)\s*\(\s*\)", f.code):
            n_sites += 1
            if not any(p.owns(m.start()) for p in ps):
                raise ExtractError(f"{f.rel}:{f.line(m.start())}: write-connection acquisition outside any function body")
    return result, n_sites


# ------------------------------------------------------------------ write-pool constants

def extract_pool(repo):
    rel = "crates/klukai-types/src/agent.rs"
    f = File(repo, rel)
    code, ws = f.code, f.withstr
    m = re.search(r"\bimpl\s+SplitPool\s*\{", code)
    if not m:
        raise ExtractError("impl SplitPool not found")
    io, ic = m.end() - 1, f.match[m.end() - 1]
    fns = {n: (o, c) for (n, o, c, _) in find_functions(f) if io < o < ic}
    for need in ("create", "new", "write_priority", "write_normal", "write_low", "write_inner"):
        if need not in fns:
            raise ExtractError(f"SplitPool::{need} not found")
    # --- new: queues, dispatcher
    o, c = fns["new"]
    body, bodys = code[o:c], ws[o:c]
    queues = {}
    for qm in re.finditer(r"let\s*\(\s*([a-z_]+)_tx\s*,\s*mut\s+([a-z_]+)_rx\s*\)\s*=\s*bounded\s*\(\s*(\d+)\s*,\s*\"([a-z]+)\"\s*\)\s*;", bodys):
        if qm.group(1) != qm.group(2):
            raise ExtractError("queue sender/receiver names differ")
        queues[qm.group(1)] = qm.group(4)
    if sorted(queues) != ["low", "normal", "priority"] or any(k != v for k, v in queues.items()):
        raise ExtractError(f"expected the three queues priority/normal/low with matching labels, found {queues}")
    spawns = list(re.finditer(r"tokio\s*::\s*spawn\s*\(\s*async\s+move\s*\{", body))
    if len(spawns) != 1:
        raise ExtractError("expected exactly one spawned dispatcher in SplitPool::new")
    so = o + spawns[0].end() - 1
    sc = f.match[so]
    disp, disps = code[so:sc], ws[so:sc]
    sels = list(re.finditer(r"tokio\s*::\s*select\s*!\s*\{", disp))
    if len(sels) != 1:
        raise ExtractError("expected exactly one select! in the dispatcher")
    lo = so + sels[0].end() - 1
    hi = f.match[lo]
    sel, sels_ = code[lo + 1:hi], ws[lo + 1:hi]
    biased = bool(re.match(r"\s*biased\s*;", sel))
    branches = re.findall(r"Some\s*\(\s*tx\s*\)\s*=\s*([a-z_]+)_rx\s*\.\s*recv\s*\(\s*\)\s*=>\s*\(\s*tx\s*,\s*\"([a-z]+)\"\s*\)", sels_)
    rest = re.sub(r"Some\s*\(\s*tx\s*\)\s*=\s*([a-z_]+)_rx\s*\.\s*recv\s*\(\s*\)\s*=>\s*\(\s*tx\s*,\s*\"([a-z]+)\"\s*\)\s*,?", "", sels_)
    rest = re.sub(r"^\s*biased\s*;", "", rest)
    if rest.strip():
        raise ExtractError(f"unrecognised text in the dispatcher select!: {rest.strip()[:80]!r}")
    if len(branches) != 3 or any(a != b for a, b in branches) or sorted(a for a, _ in branches) != ["low", "normal", "priority"]:
        raise ExtractError(f"dispatcher branches not understood: {branches}")
    order = [a for a, _ in branches]
    after = code[hi + 1:sc]
    if not re.search(r"wait_conn_drop\s*\(\s*tx\s*,\s*channel\s*\)\s*\.\s*await", after):
        raise ExtractError("dispatcher does not `wait_conn_drop(tx, channel).await` after the select!")
    if not re.search(r"\bloop\s*\{", disp[:sels[0].start()]):
        raise ExtractError("dispatcher select! is not inside a loop")
    # wait_conn_drop: a failed send returns
    wm = re.search(r"\bfn\s+wait_conn_drop\s*\(", code)
    if not wm:
        raise ExtractError("fn wait_conn_drop not found")
    wo = code.index("{", f.match[wm.end() - 1])
    wbody = code[wo:f.match[wo]]
    if not re.search(r"if\s+let\s+Err\s*\(\s*_?[a-z]*\s*\)\s*=\s*tx\s*\.\s*send\s*\(\s*cancel\s*\.\s*clone\s*\(\s*\)\s*\.\s*drop_guard\s*\(\s*\)\s*\)\s*\{[^{}]*\breturn\s*;[^{}]*\}", wbody):
        raise ExtractError("wait_conn_drop: `if let Err(_) = tx.send(cancel.clone().drop_guard()) { …; return; }` not found")
    if not re.search(r"cancel\s*\.\s*cancelled\s*\(\s*\)\s*=>\s*\{\s*break\s*;", wbody):
        raise ExtractError("wait_conn_drop: `cancel.cancelled() => { break; }` not found")
    # --- wiring of write_* to the queues
    for meth, q in CONN_METHODS.items():
        o2, c2 = fns[meth]
        if not re.search(r"self\s*\.\s*write_inner\s*\(\s*&\s*self\s*\.\s*0\s*\.\s*" + q + r"_tx\s*,\s*\"" + q + r"\"\s*\)\s*\.\s*await", ws[o2:c2]):
            raise ExtractError(f"SplitPool::{meth} does not use the `{q}` queue")
    init = re.search(r"Self\s*\(\s*Arc\s*::\s*new\s*\(\s*SplitPoolInner\s*\{([^{}]*)\}", body)
    if not init:
        raise ExtractError("SplitPoolInner initialiser not found in SplitPool::new")
    fields = [x.strip() for x in init.group(1).split(",") if x.strip()]
    for need in ("priority_tx", "normal_tx", "low_tx", "write", "write_sema"):
        if need not in fields:
            raise ExtractError(f"SplitPoolInner initialiser: field `{need}` is not initialised by the same-named variable")
    # --- write_inner: order queue -> guard -> conn -> permit, result carries all three
    o3, c3 = fns["write_inner"]
    wi = ws[o3:c3]
    steps = [r"chan\s*\.\s*send\s*\(\s*tx\s*\)", r"let\s+_drop_guard\s*=\s*timeout_fut\s*\(\s*\"[^\"]*\"\s*,\s*max_timeout\s*,\s*rx\s*\)",
             r"let\s+conn\s*=\s*timeout_fut\s*\(\s*\"[^\"]*\"\s*,\s*max_timeout\s*,\s*self\s*\.\s*0\s*\.\s*write\s*\.\s*get\s*\(\s*\)\s*\)",
             r"let\s+_permit\s*=\s*timeout_fut\s*\(\s*\"[^\"]*\"\s*,\s*max_timeout\s*,\s*self\s*\.\s*0\s*\.\s*write_sema\s*\.\s*clone\s*\(\s*\)\s*\.\s*acquire_owned\s*\(\s*\)\s*,?\s*\)",
             r"Ok\s*\(\s*WriteConn\s*\{\s*conn\s*,\s*_drop_guard\s*,\s*_permit\s*,?\s*\}\s*\)"]
    at = 0
    for st in steps:
        mm = re.compile(st).search(wi, at)
        if not mm:
            raise ExtractError(f"write_inner: step /{st[:40]}…/ not found in the expected order")
        at = mm.end()
    # --- create: pool sizes
    o4, c4 = fns["create"]
    cr = code[o4:c4]
    rw = re.search(r"let\s+rw_pool\s*=\s*sqlite_pool\s*::\s*Config\s*::\s*new\s*\([^;]*?\)\s*((?:\.\s*[a-z_]+\s*\([^;]*?\)\s*)*)\?\s*;", cr)
    if not rw:
        raise ExtractError("SplitPool::create: `let rw_pool = sqlite_pool::Config::new(..)…?;` not found")
    sizes = re.findall(r"\.\s*max_size\s*\(\s*(\d+)\s*\)", rw.group(1))
    if len(sizes) != 1:
        raise ExtractError("SplitPool::create: write pool has no single literal `.max_size(n)`")
    if re.search(r"read_only", rw.group(1)):
        raise ExtractError("SplitPool::create: rw_pool is read-only?")
    pool_size = int(sizes[0])
    call = re.search(r"Self\s*::\s*new\s*\(([^;]*)\)\s*\)", cr)
    if not call:
        raise ExtractError("SplitPool::create: call of Self::new not found")
    args = [a.strip() for a in call.group(1).split(",") if a.strip()]
    if len(args) != 4 or args[1] != "write_sema" or args[3] != "rw_pool":
        raise ExtractError(f"SplitPool::create: Self::new arguments not understood: {args}")
    sig = code[code.rfind("fn", 0, fns["new"][0]):fns["new"][0]]
    pm = re.search(r"\(\s*path\s*:[^,]*,\s*write_sema\s*:[^,]*,\s*read\s*:[^,]*,\s*write\s*:[^,)]*\)", sig)
    if not pm:
        raise ExtractError("SplitPool::new signature not understood")
    # --- semaphore size where the agent is set up
    rel2 = "crates/klukai-agent/src/agent/setup.rs"
    g = File(repo, rel2)
    sm = re.findall(r"let\s+write_sema\s*=\s*Arc\s*::\s*new\s*\(\s*Semaphore\s*::\s*new\s*\(\s*(\d+)\s*\)\s*\)\s*;", g.code)
    if len(sm) != 1:
        raise ExtractError("setup.rs: `let write_sema = Arc::new(Semaphore::new(n));` not found exactly once")
    if not re.search(r"SplitPool\s*::\s*create\s*\([^;]*,\s*write_sema\s*\.\s*clone\s*\(\s*\)\s*\)", g.code):
        raise ExtractError("setup.rs: SplitPool::create(.., write_sema.clone()) not found")
    return {"biased": biased, "order": order, "pool_size": pool_size, "permits": int(sm[0])}


# ------------------------------------------------------------------ rendering

def check_ordered(ops):
    """python twin of `Corro.LockOrder.ordered` (for messages only; Lean decides)"""
    held = []
    for e in ops:
        if e[0] == "acq":
            if any(RANK[h] >= RANK[e[1]] for h in held):
                return False, e
            held.append(e[1])
        elif e[0] == "rel":
            if e[1] not in held:
                return False, e
            held.remove(e[1])
    return not held, None


def render(programs, pool, n_sites):
    L = []
    L.append("/- GENERATED by tools/extract_c20.py from /repo (crates/*/src). Do not edit: regenerated at the")
    L.append("   start of every check.  One program per function (or spawned async block) that acquires the write")
    L.append("   connection, the bookie or a booked lock: acquisitions in textual order, a release where the")
    L.append("   guard's scope ends, calls of other extracted functions inlined.  Actor 0 stands for any actor. -/")
    L.append("import Corro.Model.WritePool")
    L.append("import Corro.Model.LockOrder")
    L.append("namespace Corro.Gen.LockPrograms")
    L.append("open Corro.LockOrder")
    L.append("")
    L.append("/-- `SplitPool::new`: `biased;` present, textual order of the `select!` branches;")
    L.append("`SplitPool::create`: `max_size` of the write pool; `setup`: `Semaphore::new(n)` of `write_sema` -/")
    order = ", ".join("." + q for q in pool["order"])
    L.append(f"def poolCfg : Corro.WritePool.Cfg := ⟨{'true' if pool['biased'] else 'false'}, [{order}], {pool['pool_size']}, {pool['permits']}⟩")
    L.append("")
    L.append(f"/-- number of `.write_priority()|.write_normal()|.write_low()` call sites in non-test sources -/")
    L.append(f"def connSites : Nat := {n_sites}")
    L.append("")
    L.append("def programs : List Named := [")
    for i, (rel, name, ops) in enumerate(programs):
        short = rel.replace("crates/", "")
        items = []
        for e in ops:
            if e[0] == "acq":
                items.append(f".acq .{e[1]} 0 .{e[2]}")
            elif e[0] == "rel":
                items.append(f".rel .{e[1]}")
        comma = "," if i + 1 < len(programs) else ""
        trace = " ".join((f"{e[3]}@{e[4]}" if e[0] == "acq" else (f"-{e[1]}" if e[0] == "rel" else f"[{e[1]}]")) for e in ops)
        L.append(f"  -- {trace}")
        L.append(f"  ⟨\"{short}::{name}\", [{', '.join(items)}]⟩{comma}")
    L.append("]")
    L.append("")
    L.append("end Corro.Gen.LockPrograms")
    L.append("")
    return "\n".join(L)


def extract(repo):
    programs, n_sites = extract_programs(repo)
    pool = extract_pool(repo)
    return [("LockPrograms.lean", render(programs, pool, n_sites))]


if __name__ == "__main__":
    import sys
    repo = sys.argv[1] if len(sys.argv) > 1 else "/repo"
    programs, n_sites = extract_programs(repo)
    for rel, name, ops in programs:
        ok, bad = check_ordered(ops)
        print(("OK   " if ok else "BAD  ") + rel + "::" + name)
        for e in ops:
            print("      ", e)
    print(extract_pool(repo), "conn sites:", n_sites)
