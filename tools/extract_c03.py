"""C03 extractor: the SQL of the sequence bookkeeping / change buffer -> lean/Corro/Gen/SeqSql.lean.

Read from /repo on every check (tools/extract.py), so the theorems of Corro/Props/C03Sql.lean are
about the SQL *as it is in the source now*:

  crates/klukai-agent/src/agent/util.rs
    fn process_incomplete_version
      * the `DELETE FROM __corro_seq_bookkeeping WHERE <expr> RETURNING <cols>` statement: its WHERE
        clause is PARSED (recursive descent, SQLite precedence: OR < AND < NOT < comparison/BETWEEN <
        +/-) and re-emitted as the Lean function `Corro.Gen.sqlTouching`; the RETURNING columns, the
        `named_params!` bindings and the `row.get(0)?..=row.get(1)?` reader are checked / emitted;
      * the `INSERT INTO __corro_buffered_changes ... ON CONFLICT (<cols>) DO NOTHING` key columns.
    fn clear_buffered_meta_loop
      * both `DELETE FROM <t> WHERE (<cols>) IN (SELECT <cols> FROM <t> WHERE <expr> LIMIT ?)`
        statements: the matched tuple, the selected tuple, and the inner WHERE (parsed, emitted as
        `sqlClearBufSelects` / `sqlClearSeqSelects`), with the positional `params![..]` bindings checked.
    fn process_multiple_changes / fn process_fully_buffered_changes
      * the lower bound N of every `<seqs>.gaps(&(CrsqlSeq(N)..=<last>))` completeness test.
  crates/klukai-types/src/agent.rs
    * `PartialVersion::full_range` lower bound; the NOT NULL / INTEGER declarations of the columns
      the predicates use (two-valued logic and integer comparison are only right for those).

Arithmetic: SQLite integers are signed 64 bit, the model uses Nat.  A comparison between linear
forms is emitted with every subtracted term moved to the other side (`x = :start - 1` becomes
`x + 1 == s`), which is the same statement over the integers; with :start = 0 the SQL compares with
-1, which no stored (non-negative) seq equals, and `x + 1 == 0` is false as well.  Values are assumed
to stay far from 2^63 (SQLite would switch to REAL on overflow).

Strict by design: whatever this file does not recognise raises ExtractError with a message that says
what was expected and what was found; tools/check then reports the broken tie.
"""
import os, re

UTIL = "crates/klukai-agent/src/agent/util.rs"
TYPES = "crates/klukai-types/src/agent.rs"
SEQ_T = "__corro_seq_bookkeeping"
BUF_T = "__corro_buffered_changes"


class ExtractError(Exception):
    pass


# ---------------------------------------------------------------------------------- Rust scanning

def scan_rust(src):
    """-> (code, keep, strings)
    code: same-length copy of src, comments and string/char contents blanked
    keep: same-length copy of src, comments blanked, strings kept
    strings: [(start, end, value)] for every string literal (value unescaped)"""
    code, keep = list(src), list(src)
    strings = []
    i, n = 0, len(src)

    def blank(buf, a, b):
        for k in range(a, b):
            if buf[k] != "\n":
                buf[k] = " "

    while i < n:
        c = src[i]
        if src.startswith("//", i):
            j = src.find("\n", i)
            j = n if j < 0 else j
            blank(code, i, j); blank(keep, i, j)
            i = j
        elif src.startswith("/*", i):
            depth, j = 1, i + 2
            while j < n and depth:
                if src.startswith("/*", j):
                    depth += 1; j += 2
                elif src.startswith("*/", j):
                    depth -= 1; j += 2
                else:
                    j += 1
            blank(code, i, j); blank(keep, i, j)
            i = j
        elif c == "r" and re.match(r'r#*"', src[i:i + 10]) and not (i and (src[i - 1].isalnum() or src[i - 1] == "_")):
            m = re.match(r'r(#*)"', src[i:])
            start = i + len(m.group(0))
            end = src.find('"' + m.group(1), start)
            if end < 0:
                raise ExtractError("unterminated raw string literal")
            blank(code, start, end)
            j = end + 1 + len(m.group(1))
            strings.append((i, j, src[start:end]))
            i = j
        elif c == '"':
            j = i + 1
            while j < n and src[j] != '"':
                j += 2 if src[j] == "\\" else 1
            if j >= n:
                raise ExtractError("unterminated string literal")
            blank(code, i + 1, j)
            strings.append((i, j + 1, unescape(src[i + 1:j])))
            i = j + 1
        elif c == "'":
            m = re.match(r"'(\\.[^']*|[^'\\])'", src[i:i + 12])
            if m:
                blank(code, i + 1, i + len(m.group(0)) - 1)
                i += len(m.group(0))
            else:
                i += 1
        else:
            i += 1
    return "".join(code), "".join(keep), strings


def unescape(s):
    if "\\" not in s:
        return s
    out, i = [], 0
    simple = {"n": "\n", "t": "\t", "r": "\r", "\\": "\\", '"': '"', "'": "'", "0": "\0"}
    while i < len(s):
        if s[i] != "\\":
            out.append(s[i]); i += 1
            continue
        nx = s[i + 1] if i + 1 < len(s) else ""
        if nx in simple:
            out.append(simple[nx]); i += 2
        elif nx == "\n":          # line continuation: skip the newline and leading whitespace
            i += 2
            while i < len(s) and s[i] in " \t\n\r":
                i += 1
        else:
            return s  # \x.. / \u{..}: irrelevant for SQL keywords; keep raw (such a literal will not parse as our SQL)
    return "".join(out)


OPEN, CLOSE = "([{", ")]}"


def match_close(code, i):
    depth = 0
    for j in range(i, len(code)):
        ch = code[j]
        if ch in OPEN:
            depth += 1
        elif ch in CLOSE:
            depth -= 1
            if depth == 0:
                return j
    raise ExtractError("unbalanced brackets")


def fn_body(code, name, fname):
    ms = list(re.finditer(r"\bfn\s+" + re.escape(name) + r"\b", code))
    if len(ms) != 1:
        raise ExtractError(f"{fname}: expected exactly one `fn {name}`, found {len(ms)}")
    p = code.find("(", ms[0].end())
    pc = match_close(code, p)
    b = code.find("{", pc)
    if b < 0:
        raise ExtractError(f"{fname}: body of fn {name} not found")
    return b, match_close(code, b)


def literals_in(strings, lo, hi, pattern, what, exactly=1):
    hit = [s for s in strings if lo <= s[0] < hi and re.search(pattern, s[2], re.I | re.S)]
    if exactly is not None and len(hit) != exactly:
        raise ExtractError(f"expected {exactly} string literal(s) with {what}, found {len(hit)}")
    return hit


def split_top(text):
    parts, depth, start = [], 0, 0
    for j, ch in enumerate(text):
        if ch in OPEN:
            depth += 1
        elif ch in CLOSE:
            depth -= 1
        elif ch == "," and depth == 0:
            parts.append(text[start:j]); start = j + 1
    if text[start:].strip():
        parts.append(text[start:])
    return [p.strip() for p in parts]


def squeeze(s):
    return re.sub(r"\s+", "", s)


def macro_args(code, keep, after, limit, macro, what):
    """the top-level comma separated arguments of the first `macro![..]` in keep[after:limit]"""
    m = re.compile(re.escape(macro) + r"\s*!\s*([\[\(\{])").search(code, after, limit)
    if not m:
        raise ExtractError(f"{what}: no `{macro}!` call follows the statement")
    op = m.end() - 1
    cl = match_close(code, op)
    # strings are blanked in `code` (so brackets inside them cannot confuse match_close); split on `keep`
    # with string contents protected
    inner_code, inner_keep = code[op + 1:cl], keep[op + 1:cl]
    parts, depth, start = [], 0, 0
    for j, ch in enumerate(inner_code):
        if ch in OPEN:
            depth += 1
        elif ch in CLOSE:
            depth -= 1
        elif ch == "," and depth == 0:
            parts.append(inner_keep[start:j]); start = j + 1
    if inner_keep[start:].strip():
        parts.append(inner_keep[start:])
    return [p.strip() for p in parts], cl


# ---------------------------------------------------------------------------------- SQL parsing

TOK = re.compile(r"""\s*(?:
      (?P<comment>--[^\n]*)
    | (?P<param>:[A-Za-z_][A-Za-z0-9_]*)
    | (?P<qmark>\?\d*)
    | (?P<ident>[A-Za-z_][A-Za-z0-9_]*)
    | (?P<num>\d+)
    | (?P<op><=|>=|<>|!=|==|=|<|>|\+|-|\(|\)|,|;|\*)
    | (?P<qident>"(?:[^"]|"")*")
    )""", re.X)

KEYWORDS = {"AND", "OR", "NOT", "BETWEEN", "IN", "SELECT", "FROM", "WHERE", "DELETE", "RETURNING", "LIMIT",
            "IS", "NULL", "LIKE", "GLOB", "CASE", "WHEN", "THEN", "ELSE", "END", "EXISTS", "ISNULL", "NOTNULL",
            "COLLATE", "ORDER", "BY", "INSERT", "INTO", "VALUES", "ON", "CONFLICT", "DO", "NOTHING", "UPDATE", "SET"}
CMP = {"=": "eq", "==": "eq", "!=": "ne", "<>": "ne", "<=": "le", ">=": "ge", "<": "lt", ">": "gt"}


def tokenize(sql, what):
    toks, i = [], 0
    sql = sql.rstrip()
    while i < len(sql):
        m = TOK.match(sql, i)
        if not m or m.end() == i:
            if not sql[i:].strip():
                break
            raise ExtractError(f"{what}: cannot tokenize SQL at {sql[i:i + 30]!r}")
        i = m.end()
        k = m.lastgroup
        v = m.group(k)
        if k == "comment":
            continue
        if k == "ident" and v.upper() in KEYWORDS:
            toks.append(("kw", v.upper()))
        elif k == "qmark":
            if v != "?":
                raise ExtractError(f"{what}: numbered parameter {v} is not understood")
            toks.append(("qmark", "?"))
        else:
            toks.append((k, v))
    return toks


def show(toks):
    return " ".join(v for _, v in toks)


class Parser:
    """expressions over integer columns / parameters; `?` parameters are numbered in order of appearance"""

    def __init__(self, toks, what):
        self.t, self.i, self.what, self.nq = toks, 0, what, 0

    def peek(self, k=0):
        return self.t[self.i + k] if self.i + k < len(self.t) else ("eof", "")

    def next(self):
        tok = self.peek()
        self.i += 1
        return tok

    def at(self, kind, val=None):
        k, v = self.peek()
        return k == kind and (val is None or v == val)

    def expect(self, kind, val=None):
        if not self.at(kind, val):
            raise ExtractError(f"{self.what}: expected {val or kind} at `{show(self.t[self.i:self.i + 6])}`")
        return self.next()

    def fail(self, msg):
        raise ExtractError(f"{self.what}: {msg} at `{show(self.t[self.i:self.i + 6])}`")

    # ---- expression grammar
    def expr(self):
        return as_bool(self.or_(), self)

    def or_(self):
        parts = [self.and_()]
        while self.at("kw", "OR"):
            self.next()
            parts.append(self.and_())
        if len(parts) == 1:
            return parts[0]
        return ("or", [as_bool(p, self) for p in parts])

    def and_(self):
        parts = [self.not_()]
        while self.at("kw", "AND"):
            self.next()
            parts.append(self.not_())
        if len(parts) == 1:
            return parts[0]
        return ("and", [as_bool(p, self) for p in parts])

    def not_(self):
        if self.at("kw", "NOT"):
            self.next()
            return ("not", as_bool(self.not_(), self))
        return self.cmp()

    def cmp(self):
        left = self.add()
        k, v = self.peek()
        if k == "op" and v in CMP:
            self.next()
            right = self.add()
            return ("cmp", CMP[v], lin(left, self), lin(right, self))
        neg = False
        if k == "kw" and v == "NOT" and self.peek(1) == ("kw", "BETWEEN"):
            self.next()
            neg = True
            k, v = self.peek()
        if k == "kw" and v == "BETWEEN":
            self.next()
            a = self.add()
            self.expect("kw", "AND")
            b = self.add()
            x = lin(left, self)
            node = ("and", [("cmp", "ge", x, lin(a, self)), ("cmp", "le", x, lin(b, self))])
            return ("not", node) if neg else node
        if k == "kw" and v in ("IS", "IN", "LIKE", "GLOB", "ISNULL", "NOTNULL", "COLLATE", "NOT"):
            self.fail(f"operator {v} is outside the understood subset")
        return left

    def add(self):
        left = self.primary()
        while self.at("op", "+") or self.at("op", "-"):
            op = self.next()[1]
            right = lin(self.primary(), self)
            left = lin(left, self)
            if op == "+":
                left = ("lin", left[1] + right[1], left[2] + right[2])
            else:
                left = ("lin", left[1] + right[2], left[2] + right[1])
        return left

    def primary(self):
        k, v = self.peek()
        if k == "op" and v == "(":
            self.next()
            e = self.or_()
            self.expect("op", ")")
            return e
        if k == "op" and v == "-":
            self.next()
            e = lin(self.primary(), self)
            return ("lin", e[2], e[1])
        if k == "op" and v == "+":
            self.next()
            return lin(self.primary(), self)
        if k == "ident":
            self.next()
            if self.at("op", "("):
                self.fail(f"function call {v}(..) is outside the understood subset")
            return ("lin", [("col", v.lower())], [])
        if k == "qident":
            self.next()
            return ("lin", [("col", v[1:-1].lower())], [])
        if k == "param":
            self.next()
            return ("lin", [("param", v)], [])
        if k == "qmark":
            self.next()
            self.nq += 1
            return ("lin", [("param", f"?{self.nq}")], [])
        if k == "num":
            self.next()
            return ("lin", [("num", int(v))], [])
        self.fail("expected a column, a parameter, a number or `(`")


def lin(node, p):
    if node[0] != "lin":
        p.fail("a boolean expression is used as a number (outside the understood subset)")
    return node


def as_bool(node, p):
    """a bare numeric expression used as a truth value is `!= 0`"""
    if node[0] == "lin":
        return ("truth", node)
    return node


# ---------------------------------------------------------------------------------- Lean rendering

def render_side(atoms, const, env, what):
    names = []
    for kind, v in atoms:
        key = v if kind == "param" else v
        if (kind, key) not in env:
            known = ", ".join(sorted(k for _, k in env))
            raise ExtractError(f"{what}: unknown {'parameter' if kind == 'param' else 'column'} `{v}` (understood: {known})")
        names.append(env[(kind, key)][0])
    if const:
        names.append(str(const))
    return " + ".join(names) if names else "0"


def normal(l, r):
    """(l op r) with subtracted terms moved across: A op B, A/B = (atoms, const)"""
    a_atoms, b_atoms, ca, cb = [], [], 0, 0
    for kind, v in l[1] + r[2]:
        if kind == "num":
            ca += v
        else:
            a_atoms.append((kind, v))
    for kind, v in r[1] + l[2]:
        if kind == "num":
            cb += v
        else:
            b_atoms.append((kind, v))
    k = min(ca, cb)
    return (a_atoms, ca - k), (b_atoms, cb - k)


def check_types(op, A, B, env, what):
    """blob-typed names (site id) may only be tested for (in)equality against each other"""
    def ty(atoms):
        return [env[a][1] for a in atoms if a in env]
    ta, tb = ty(A[0]), ty(B[0])
    if "blob" in ta + tb:
        ok = op in ("eq", "ne") and ta == ["blob"] and tb == ["blob"] and A[1] == 0 and B[1] == 0
        if not ok:
            raise ExtractError(f"{what}: site_id / the actor parameter (BLOBs) are used other than in a plain `=`/`!=` against each other")


def render(node, env, what):
    k = node[0]
    if k in ("and", "or"):
        op = " && " if k == "and" else " || "
        return "(" + op.join(render(c, env, what) for c in node[1]) + ")"
    if k == "not":
        return "(!" + render(node[1], env, what) + ")"
    if k == "truth":
        A, B = normal(node[1], ("lin", [], []))
        check_types("truth", A, B, env, what)
        return f"({render_side(*A, env, what)} != {render_side(*B, env, what)})"
    if k == "cmp":
        op = node[1]
        A, B = normal(node[2], node[3])
        check_types(op, A, B, env, what)
        a, b = render_side(*A, env, what), render_side(*B, env, what)
        return {"eq": f"({a} == {b})", "ne": f"({a} != {b})", "le": f"decide ({a} ≤ {b})", "ge": f"decide ({b} ≤ {a})",
                "lt": f"decide ({a} < {b})", "gt": f"decide ({b} < {a})"}[op]
    raise ExtractError(f"{what}: internal: node {k}")


def pretty(node, env, what, indent):
    """like render, but one child per line for wide and/or nodes"""
    flat = render(node, env, what)
    if node[0] not in ("and", "or") or len(flat) + indent <= 100:
        return flat
    op = " &&" if node[0] == "and" else " ||"
    pad = " " * (indent + 1)
    kids = [pretty(c, env, what, indent + 1) for c in node[1]]
    return "(" + (op + "\n" + pad).join(kids) + ")"


def names_used(node, acc=None):
    acc = set() if acc is None else acc
    k = node[0]
    if k in ("and", "or"):
        for c in node[1]:
            names_used(c, acc)
    elif k == "not":
        names_used(node[1], acc)
    elif k == "truth":
        names_used(node[1], acc)
    elif k == "cmp":
        names_used(node[2], acc); names_used(node[3], acc)
    elif k == "lin":
        for kind, v in node[1] + node[2]:
            if kind != "num":
                acc.add((kind, v))
    return acc


def clean_sql(sql):
    s = re.sub(r"--[^\n]*", " ", sql)
    s = re.sub(r"\s+", " ", s).strip()
    return s.replace("-/", "- /").replace("/-", "/ -")


def col_list(text, what):
    cols = [c.strip().strip('"').lower() for c in text.split(",")]
    if not cols or any(not re.fullmatch(r"[a-z_][a-z0-9_]*", c) for c in cols):
        raise ExtractError(f"{what}: not a plain column list: {text.strip()!r}")
    if len(set(cols)) != len(cols):
        raise ExtractError(f"{what}: a column is listed twice: {text.strip()!r}")
    return cols


def lean_strs(xs):
    return "[" + ", ".join('"' + x + '"' for x in xs) + "]"


# ---------------------------------------------------------------------------------- the pieces

SEQ_ENV = {
    ("col", "site_id"): ("siteRow", "blob"), ("col", "db_version"): ("verRow", "int"),
    ("col", "start_seq"): ("startSeq", "int"), ("col", "end_seq"): ("endSeq", "int"),
    ("param", ":actor_id"): ("site", "blob"), ("param", ":db_version"): ("ver", "int"),
    ("param", ":start"): ("s", "int"), ("param", ":end"): ("e", "int"),
}
# what each named parameter must be bound to in `named_params!` (whitespace-insensitive)
SEQ_BIND = {":actor_id": "actor_id", ":db_version": "version", ":start": "seqs.start()", ":end": "seqs.end()"}


def seq_delete(code, keep, strings, lo, hi):
    what = f"util.rs process_incomplete_version `DELETE FROM {SEQ_T}`"
    (a, b, sql), = literals_in(strings, lo, hi, r"\bDELETE\s+FROM\s+" + SEQ_T + r"\b", f"`DELETE FROM {SEQ_T}` in fn process_incomplete_version")
    toks = tokenize(sql, what)
    p = Parser(toks, what)
    p.expect("kw", "DELETE"); p.expect("kw", "FROM")
    t = p.expect("ident")
    if t[1] != SEQ_T:
        p.fail(f"table is {t[1]}")
    p.expect("kw", "WHERE")
    tree = p.expr()
    p.expect("kw", "RETURNING")
    ret = []
    while True:
        ret.append(p.expect("ident")[1].lower())
        if p.at("op", ","):
            p.next()
            continue
        break
    if p.at("op", ";"):
        p.next()
    if not p.at("eof"):
        p.fail("unexpected text after the RETURNING column list")
    used = names_used(tree)
    body = pretty(tree, SEQ_ENV, what, 2)
    # the parameters are bound to the chunk's range and key
    args, cl = macro_args(code, keep, b, hi, "named_params", what)
    binds = {}
    for arg in args:
        m = re.fullmatch(r'"(:[A-Za-z_][A-Za-z0-9_]*)"\s*:\s*(.+)', arg, re.S)
        if not m:
            raise ExtractError(f"{what}: named_params! entry not of the form \":name\": expr: {arg!r}")
        binds[m.group(1)] = squeeze(m.group(2)).lstrip("&*")
    for kind, v in sorted(used):
        if kind == "param":
            if v not in binds:
                raise ExtractError(f"{what}: parameter {v} is used in the SQL but not bound in named_params!")
            if binds[v] != squeeze(SEQ_BIND[v]):
                raise ExtractError(f"{what}: parameter {v} is bound to `{binds[v]}`, expected `{SEQ_BIND[v]}` "
                                   f"(the model passes the chunk's actor, version and seq range in these positions)")
    # the rows are read back as start..=end
    stmt_end = code.find(";", cl)
    reader = squeeze(code[cl:stmt_end if stmt_end > 0 else hi])
    if "row.get(0)?..=row.get(1)?" not in reader:
        raise ExtractError(f"{what}: the RETURNING rows are no longer read as `row.get(0)?..=row.get(1)?`")
    return {"tree": tree, "body": body, "returning": ret, "sql": clean_sql(sql), "binds": binds}


def buf_insert(strings, lo, hi):
    what = f"util.rs process_incomplete_version `INSERT INTO {BUF_T}`"
    (a, b, sql), = literals_in(strings, lo, hi, r"\bINSERT\b.*\bINTO\s+" + BUF_T + r"\b", f"`INSERT INTO {BUF_T}` in fn process_incomplete_version")
    s = clean_sql(sql)
    if re.search(r"\bINSERT\s+OR\b", s, re.I):
        raise ExtractError(f"{what}: `INSERT OR ...` form is not understood (expected plain INSERT ... ON CONFLICT (..) DO NOTHING)")
    m = re.findall(r"\bON\s+CONFLICT\s*(?:\(([^)]*)\))?\s*DO\s+(NOTHING|UPDATE)\b", s, re.I)
    if len(m) != 1:
        raise ExtractError(f"{what}: expected exactly one `ON CONFLICT (..) DO ..` clause, found {len(m)}")
    if not m[0][0].strip():
        raise ExtractError(f"{what}: ON CONFLICT without a column list")
    return {"key": col_list(m[0][0], what + " ON CONFLICT"), "nothing": m[0][1].upper() == "NOTHING", "sql": s}


CLEAR_ENV = {
    ("col", "site_id"): ("siteRow", "blob"), ("col", "db_version"): ("verRow", "int"),
    ("param", "?1"): ("site", "blob"), ("param", "?2"): ("vlo", "int"), ("param", "?3"): ("vhi", "int"),
}
CLEAR_BIND = ["actor_id", "versions.start()", "versions.end()"]


def clear_delete(code, keep, strings, lo, hi, table):
    what = f"util.rs clear_buffered_meta_loop `DELETE FROM {table}`"
    (a, b, sql), = literals_in(strings, lo, hi, r"\bDELETE\s+FROM\s+" + table + r"\b", f"`DELETE FROM {table}` in fn clear_buffered_meta_loop")
    s = clean_sql(sql)
    m = re.fullmatch(r"DELETE\s+FROM\s+" + table + r"\s+WHERE\s*\(([^()]*)\)\s*IN\s*\(\s*SELECT\s+(.*?)\s+FROM\s+" + table +
                     r"\s+WHERE\s+(.*)\s+LIMIT\s+\?\s*\)\s*;?", s, re.I | re.S)
    if not m:
        raise ExtractError(f"{what}: not of the form DELETE FROM t WHERE (cols) IN (SELECT cols FROM t WHERE <expr> LIMIT ?): {s!r}")
    key = col_list(m.group(1), what + " matched tuple")
    sel = col_list(m.group(2), what + " selected tuple")
    p = Parser(tokenize(m.group(3), what), what + " inner WHERE")
    tree = p.expr()
    if not p.at("eof"):
        p.fail("unexpected text after the inner WHERE expression")
    if p.nq != 3:
        raise ExtractError(f"{what}: inner WHERE has {p.nq} `?` parameters, expected 3 (actor, first version, last version)")
    body = pretty(tree, CLEAR_ENV, what, 2)
    args, _ = macro_args(code, keep, b, hi, "params", what)
    got = [squeeze(x).lstrip("&*") for x in args]
    if len(got) != 4 or got[:3] != [squeeze(x) for x in CLEAR_BIND]:
        raise ExtractError(f"{what}: params![..] is {args}, expected [{', '.join(CLEAR_BIND)}, <limit>]")
    return {"key": key, "sel": sel, "body": body, "sql": s}


GAPS_ARG = re.compile(r"&?\(?CrsqlSeq\((\d+)\)\.\.=\*?([A-Za-z_][A-Za-z0-9_.]*)\)?")


def gap_starts(code, lo, hi, fname):
    """lower bounds of every `.gaps(<arg>)` in code[lo:hi]; <arg> is `&(CrsqlSeq(N)..=x)` or `&ident` with
    `let ident = CrsqlSeq(N)..=x;` before it in the same function"""
    out = []
    for m in re.finditer(r"\.\s*gaps\s*\(", code[lo:hi]):
        op = lo + m.end() - 1
        cl = match_close(code, op)
        arg = squeeze(code[op + 1:cl])
        mm = GAPS_ARG.fullmatch(arg)
        if not mm:
            im = re.fullmatch(r"&?([A-Za-z_][A-Za-z0-9_]*)", arg)
            if im:
                lets = list(re.finditer(r"\blet\s+" + im.group(1) + r"\s*(?::[^=;]*)?=\s*([^;]*);", code[lo:op]))
                if lets:
                    mm = GAPS_ARG.fullmatch(squeeze(lets[-1].group(1)))
        if not mm:
            raise ExtractError(f"util.rs fn {fname}: the range of `.gaps({arg})` is not recognisably `CrsqlSeq(N)..=<last_seq>`")
        if "last" not in mm.group(2):
            raise ExtractError(f"util.rs fn {fname}: `.gaps({arg})` upper bound `{mm.group(2)}` is not a last_seq")
        out.append(int(mm.group(1)))
    if not out:
        raise ExtractError(f"util.rs fn {fname}: no `.gaps(&(CrsqlSeq(N)..=last_seq))` completeness test found")
    return out


def one_value(xs, what):
    if len(set(xs)) != 1:
        raise ExtractError(f"{what}: the completeness tests start at different seqs: {xs}")
    return xs[0]


def schema_checks(types_src):
    _, _, strings = scan_rust(types_src)
    need = {SEQ_T: {"site_id": "BLOB", "db_version": "INTEGER", "start_seq": "INTEGER", "end_seq": "INTEGER"},
            BUF_T: {"site_id": "BLOB", "db_version": "INTEGER", "seq": "INTEGER"}}
    pks = {}
    for table, cols in need.items():
        hit = [s for s in strings if re.search(r"CREATE\s+TABLE\s+(IF\s+NOT\s+EXISTS\s+)?" + table + r"\b", s[2], re.I)]
        if len(hit) != 1:
            raise ExtractError(f"agent.rs: expected one string literal with CREATE TABLE {table}, found {len(hit)}")
        sql = re.sub(r"--[^\n]*", " ", hit[0][2])
        m = re.search(r"CREATE\s+TABLE\s+(?:IF\s+NOT\s+EXISTS\s+)?" + table + r"\s*\(", sql, re.I)
        body = sql[m.end() - 1:match_close(sql, m.end() - 1) + 1]
        for c, ty in cols.items():
            if not re.search(r"[(,]\s*\"?" + c + r"\"?\s+" + ty + r"\s+NOT\s+NULL\b", body, re.I):
                raise ExtractError(f"agent.rs: column {table}.{c} is no longer declared `{ty} NOT NULL` "
                                   f"(the extracted predicates assume two-valued logic and {ty.lower()} comparison)")
        pm = re.search(r"PRIMARY\s+KEY\s*\(([^)]*)\)", body, re.I)
        if not pm:
            raise ExtractError(f"agent.rs: table {table} has no table-level PRIMARY KEY (..)")
        pks[table] = col_list(pm.group(1), f"agent.rs {table} PRIMARY KEY")
    return pks


def full_range_start(types_src):
    code, _, _ = scan_rust(types_src)
    ms = list(re.finditer(r"\bfn\s+full_range\b", code))
    if len(ms) != 1:
        raise ExtractError(f"agent.rs: expected exactly one `fn full_range`, found {len(ms)}")
    b = code.find("{", ms[0].end())
    body = squeeze(code[b + 1:match_close(code, b)])
    m = re.fullmatch(r"CrsqlSeq\((\d+)\)\.\.=self\.last_seq", body)
    if not m:
        raise ExtractError(f"agent.rs: PartialVersion::full_range body is `{body}`, expected `CrsqlSeq(N)..=self.last_seq`")
    return int(m.group(1))


# ---------------------------------------------------------------------------------- output

def doc(s, width=96):
    words, lines, cur = s.split(" "), [], ""
    for w in words:
        if cur and len(cur) + 1 + len(w) > width:
            lines.append(cur); cur = w
        else:
            cur = (cur + " " + w) if cur else w
    if cur:
        lines.append(cur)
    return "\n   ".join(lines)


def extract(repo):
    with open(os.path.join(repo, UTIL), encoding="utf-8") as f:
        util = f.read()
    with open(os.path.join(repo, TYPES), encoding="utf-8") as f:
        types = f.read()
    code, keep, strings = scan_rust(util)
    lo, hi = fn_body(code, "process_incomplete_version", "util.rs")
    sd = seq_delete(code, keep, strings, lo, hi)
    bi = buf_insert(strings, lo, hi)
    clo, chi = fn_body(code, "clear_buffered_meta_loop", "util.rs")
    cb = clear_delete(code, keep, strings, clo, chi, BUF_T)
    cs = clear_delete(code, keep, strings, clo, chi, SEQ_T)
    mlo, mhi = fn_body(code, "process_multiple_changes", "util.rs")
    g_sched = one_value(gap_starts(code, mlo, mhi, "process_multiple_changes"), "util.rs fn process_multiple_changes")
    alo, ahi = fn_body(code, "process_fully_buffered_changes", "util.rs")
    g_apply = one_value(gap_starts(code, alo, ahi, "process_fully_buffered_changes"), "util.rs fn process_fully_buffered_changes")
    pks = schema_checks(types)
    g_full = full_range_start(types)

    L = []
    L.append(f"/- GENERATED by tools/extract_c03.py from {UTIL} and {TYPES}.")
    L.append("   Do not edit: regenerated from the source at the start of every check.")
    L.append("   SQL integers are signed; comparisons are emitted over Nat with subtracted terms moved to the")
    L.append("   other side (`x = :start - 1` is `x + 1 == s`: with :start = 0 SQLite compares with -1, which no")
    L.append("   stored seq equals, and `x + 1 == 0` is false too).  All columns used are declared NOT NULL")
    L.append("   (checked by the extractor), so SQL's three-valued logic does not arise. -/")
    L.append("namespace Corro.Gen")
    L.append("")
    L.append("/-- WHERE clause of the `DELETE … RETURNING` of `process_incomplete_version`, parsed from:")
    L.append("   `" + doc(sd["sql"]) + "`")
    L.append("   row columns: site_id, db_version, start_seq, end_seq; parameters: " +
             ", ".join(f"{k} := {v}" for k, v in sorted(sd["binds"].items())) + " -/")
    L.append("def sqlTouching (siteRow verRow startSeq endSeq : Nat) (site ver s e : Nat) : Bool :=")
    L.append("  " + sd["body"])
    L.append("")
    L.append("/-- RETURNING columns of that statement (read back as `row.get(0)..=row.get(1)`) -/")
    L.append(f"def seqDeleteReturning : List String := {lean_strs(sd['returning'])}")
    L.append("")
    L.append("/-- `INSERT INTO __corro_buffered_changes … ON CONFLICT (<these>) DO …` -/")
    L.append(f"def bufferConflictKey : List String := {lean_strs(bi['key'])}")
    L.append("/-- the conflict action is `DO NOTHING` -/")
    L.append(f"def bufferConflictDoNothing : Bool := {'true' if bi['nothing'] else 'false'}")
    L.append("/-- `PRIMARY KEY (..)` of `__corro_buffered_changes` / `__corro_seq_bookkeeping` (schema in agent.rs) -/")
    L.append(f"def bufferPrimaryKey : List String := {lean_strs(pks[BUF_T])}")
    L.append(f"def seqPrimaryKey : List String := {lean_strs(pks[SEQ_T])}")
    L.append("")
    L.append("/-- clear job (`clear_buffered_meta_loop`), buffered changes:")
    L.append("   `" + doc(cb["sql"]) + "`")
    L.append("   matched tuple / tuple selected by the sub query / the sub query's WHERE (?1 ?2 ?3 := actor_id, versions.start(), versions.end()) -/")
    L.append(f"def clearBufKey : List String := {lean_strs(cb['key'])}")
    L.append(f"def clearBufSelect : List String := {lean_strs(cb['sel'])}")
    L.append("def sqlClearBufSelects (siteRow verRow : Nat) (site vlo vhi : Nat) : Bool :=")
    L.append("  " + cb["body"])
    L.append("")
    L.append("/-- clear job, sequence rows:")
    L.append("   `" + doc(cs["sql"]) + "` -/")
    L.append(f"def clearSeqKey : List String := {lean_strs(cs['key'])}")
    L.append(f"def clearSeqSelect : List String := {lean_strs(cs['sel'])}")
    L.append("def sqlClearSeqSelects (siteRow verRow : Nat) (site vlo vhi : Nat) : Bool :=")
    L.append("  " + cs["body"])
    L.append("")
    L.append("/-- lower bound of the `seqs.gaps(&(CrsqlSeq(N)..=last_seq))` test that triggers `tx_apply` (process_multiple_changes) -/")
    L.append(f"def gapTestStart : Nat := {g_sched}")
    L.append("/-- the same test inside `process_fully_buffered_changes` -/")
    L.append(f"def applyGapTestStart : Nat := {g_apply}")
    L.append("/-- `PartialVersion::full_range` = `CrsqlSeq(N)..=self.last_seq` -/")
    L.append(f"def fullRangeStart : Nat := {g_full}")
    L.append("")
    L.append("end Corro.Gen")
    L.append("")
    return [("SeqSql.lean", "\n".join(L))]


if __name__ == "__main__":
    import sys
    print(extract(sys.argv[1] if len(sys.argv) > 1 else "/repo")[0][1])
