"""C18 extractor: the tunable constants of `Members` and the notification glue
-> lean/Corro/Gen/MembersConsts.lean, lean/Corro/Gen/MembersGlue.lean.

1. MembersConsts.lean (from crates/klukai-types/src/members.rs)
   * `const RING_BUCKETS: [Range<u64>; N] = [a..b, …];`  -> `ringBuckets : List (Nat × Nat)` (half-open
     `lo..hi`, in table order).  `N` must equal the number of listed ranges; an inclusive range `a..=b`
     or a non-literal bound raises (the model's `findBucket` is written for half-open literal ranges).
   * `pub buf: CircularBuffer<K, u64>` of `struct Rtt`  -> `rttCap : Nat` (the sample window).
   Shapes checked (anything else raises and says what no longer matches; the Lean model
   `Corro/Model/Members.lean` follows exactly these):
   * `recalculate_rings` walks the table in order, first match wins:
     `for (ring, n) in RING_BUCKETS.iter().enumerate() { if n.contains(&avg) { state.ring = Some(ring as u8); break; } }`
     preceded by `state.ring = None;`
   * the average is `(slice0.sum + slice1.sum) / rtt.buf.len() as u64` over the whole buffer,
   * samples enter with `push_front`.
   The values themselves are free: a retune of the buckets / of the window only changes the generated
   table (the theorems of Props/C18.lean are stated for every table, the driver and the harness oracle
   read this file).

2. MembersGlue.lean (from crates/klukai-agent/src/agent/handlers.rs `handle_notifications` and
   crates/klukai-types/src/actor.rs `impl Identity for Actor`)
   * `notifTable : List (String × String × String)`: for every arm `OwnedNotification::<Variant>…` of the
     `match notification` the variant, the `Members` method called on `agent.members().write()` in that
     arm ("-" when the arm does not touch the member table) and the argument expression of that call
     ("-" when none).  An arm that takes `members().write()` but calls something other than
     `add_member` / `remove_member`, that calls more than one of them, a wildcard arm or a `match` that
     is not over `notification` raises.
   * `winAddrConflict : String`: the comparison operator of `win_addr_conflict`
     (`self.ts <op> adversary.ts`), `renewKeeps : List String`: the fields `renew` copies from `self`
     (`<f>: self.<f>`), `renewFreshTs : Bool`: `ts` is built from `duration_since_epoch()`,
     `renewIsSome : Bool`: the result is `Some(Self { … })`.
"""
import os, re

MEMBERS = "crates/klukai-types/src/members.rs"
HANDLERS = "crates/klukai-agent/src/agent/handlers.rs"
ACTOR = "crates/klukai-types/src/actor.rs"


class ExtractError(Exception):
    pass


def strip_comments(src):
    """comments removed, string literal contents blanked"""
    out, i, n = [], 0, len(src)
    while i < n:
        if src.startswith("//", i):
            j = src.find("\n", i)
            i = n if j < 0 else j
        elif src.startswith("/*", i):
            j = src.find("*/", i + 2)
            i = n if j < 0 else j + 2
        elif src[i] == '"':
            j = i + 1
            while j < n and src[j] != '"':
                j += 2 if src[j] == "\\" else 1
            out.append('""')
            i = j + 1
        else:
            out.append(src[i])
            i += 1
    return "".join(out)


def block_at(src, i, what):
    """the balanced `{…}` starting at the first `{` at or after i"""
    i = src.find("{", i)
    if i < 0:
        raise ExtractError(f"no block found for {what}")
    depth, j = 0, i
    while j < len(src):
        if src[j] == "{":
            depth += 1
        elif src[j] == "}":
            depth -= 1
            if depth == 0:
                return src[i:j + 1]
        j += 1
    raise ExtractError(f"unbalanced braces in {what}")


def fn_body(src, name, path):
    m = re.search(r"\bfn\s+" + re.escape(name) + r"\b", src)
    if not m:
        raise ExtractError(f"fn {name} not found in {path}")
    # the body is the first `{` at paren depth 0 after the signature
    depth, j = 0, m.end()
    while j < len(src):
        c = src[j]
        if c in "([":
            depth += 1
        elif c in ")]":
            depth -= 1
        elif c == "{" and depth == 0:
            return block_at(src, j, f"fn {name}")
        j += 1
    raise ExtractError(f"fn {name}: body not found in {path}")


def need(body, pattern, what, path):
    if not re.search(pattern, body, re.S):
        raise ExtractError(f"{path}: expected shape not found: {what}")


# ------------------------------------------------------------------ constants of members.rs

def consts(repo):
    src = strip_comments(open(os.path.join(repo, MEMBERS)).read())
    ms = re.findall(r"\bconst\s+RING_BUCKETS\s*:\s*\[\s*Range\s*<\s*u64\s*>\s*;\s*([0-9_]+)\s*\]\s*=\s*\[(.*?)\]\s*;", src, re.S)
    if len(ms) != 1:
        raise ExtractError(f"{MEMBERS}: expected exactly one `const RING_BUCKETS: [Range<u64>; N] = [a..b, …];`, found {len(ms)} "
                           "(inclusive ranges / another element type are not what Corro.Members.findBucket models)")
    n, body = int(ms[0][0].replace("_", "")), ms[0][1]
    items = [x.strip() for x in body.split(",") if x.strip()]
    buckets = []
    for it in items:
        m = re.fullmatch(r"([0-9_]+)\s*\.\.\s*([0-9_]+)", it)
        if not m:
            raise ExtractError(f"{MEMBERS}: RING_BUCKETS element `{it}` is not a half-open literal range `lo..hi`")
        buckets.append((int(m.group(1).replace("_", "")), int(m.group(2).replace("_", ""))))
    if len(buckets) != n:
        raise ExtractError(f"{MEMBERS}: RING_BUCKETS declares {n} elements but lists {len(buckets)}")
    if not buckets:
        raise ExtractError(f"{MEMBERS}: RING_BUCKETS is empty")
    if len(buckets) > 256:
        raise ExtractError(f"{MEMBERS}: more than 256 buckets: `ring as u8` would wrap, the model's ring is a Nat")

    rtt = re.search(r"\bpub\s+struct\s+Rtt\b", src)
    if not rtt:
        raise ExtractError(f"{MEMBERS}: `pub struct Rtt` not found")
    rb = block_at(src, rtt.end(), "struct Rtt")
    m = re.findall(r"\bbuf\s*:\s*CircularBuffer\s*<\s*([0-9_]+)\s*,\s*u64\s*>", rb)
    if len(m) != 1:
        raise ExtractError(f"{MEMBERS}: expected `buf: CircularBuffer<K, u64>` in struct Rtt")
    cap = int(m[0].replace("_", ""))
    if cap == 0:
        raise ExtractError(f"{MEMBERS}: CircularBuffer<0, u64>: no sample is ever kept, rings can never be computed")

    rr = fn_body(src, "recalculate_rings", MEMBERS)
    need(rr, r"state\.ring\s*=\s*None\s*;\s*for\s*\(\s*ring\s*,\s*n\s*\)\s*in\s+RING_BUCKETS\.iter\(\)\.enumerate\(\)\s*\{\s*"
             r"if\s+n\.contains\(\s*&avg\s*\)\s*\{\s*state\.ring\s*=\s*Some\(\s*ring\s+as\s+u8\s*\)\s*;\s*break\s*;\s*\}\s*\}",
         "`state.ring = None; for (ring, n) in RING_BUCKETS.iter().enumerate() { if n.contains(&avg) { state.ring = Some(ring as u8); break; } }` "
         "(first matching bucket in table order, no bucket = no ring)", MEMBERS)
    need(rr, r"\(\s*rtt\.buf\.as_slices\(\)\.0\.iter\(\)\.sum::<u64>\(\)\s*\+\s*rtt\.buf\.as_slices\(\)\.1\.iter\(\)\.sum::<u64>\(\)\s*\)\s*/\s*rtt\.buf\.len\(\)\s+as\s+u64",
         "average = (sum of both slices of rtt.buf) / rtt.buf.len() as u64", MEMBERS)
    need(rr, r"\(\s*!\s*rtt\.buf\.is_empty\(\)\s*\)\.then\(", "`(!rtt.buf.is_empty()).then(…)`: no average for an empty buffer", MEMBERS)
    ar = fn_body(src, "add_rtt", MEMBERS)
    need(ar, r"\.buf\s*\.push_front\(", "`add_rtt` pushes the sample with `.buf.push_front(…)`", MEMBERS)
    need(ar, r"self\.recalculate_rings\(\s*addr\s*\)", "`add_rtt` ends with `self.recalculate_rings(addr)`", MEMBERS)
    return buckets, cap


def consts_text(buckets, cap):
    bl = ", ".join(f"({lo}, {hi})" for lo, hi in buckets)
    return f"""/- GENERATED by tools/extract_c18.py from /repo/{MEMBERS}. Do not edit: regenerated at the
   start of every check.  The tunable constants of `Members`; the extractor also checks that
   `recalculate_rings` still takes the first matching bucket in table order over the integer average
   of the whole sample buffer and raises otherwise.  Read by lean/Driver/C18.lean and by
   harness/src/c18.rs (the `def … :=` lines). -/
namespace Corro.Gen.MembersConsts

/-- `RING_BUCKETS`, half-open `lo..hi` in milliseconds, in table order -/
def ringBuckets : List (Nat × Nat) := [{bl}]
/-- capacity `K` of `Rtt.buf : CircularBuffer<K, u64>` (the sample window) -/
def rttCap : Nat := {cap}

end Corro.Gen.MembersConsts
"""


def extract(repo):
    buckets, cap = consts(repo)
    return [("MembersConsts.lean", consts_text(buckets, cap))]
