"""C18 extractor: the tunable constants of `Members` and the notification glue
-> lean/Corro/Gen/MembersConsts.lean, lean/Corro/Gen/MembersGlue.lean.

1. MembersConsts.lean (from crates/klukai-types/src/members.rs)
   * `const RING_BUCKETS: [Range<u64>; N] = [a..b, …];`  -> `ringBuckets : List (Nat × Nat)` (half-open
     `lo..hi`, in table order).  `N` must equal the number of listed ranges; an inclusive range `a..=b`
     or a non-literal bound raises (the model's `findBucket` is written for half-open literal ranges).
   * `pub buf: CircularBuffer<K, u64>` of `struct Rtt`  -> `rttCap : Nat` (the sample window).
   Shapes checked (anything else raises and says what no longer matches; the Lean model
   `Corro/Model/Members.lean` follows exactly these):
   * `recalculate_rings` walks the table in order, first match wins:
     `for (ring, n) in RING_BUCKETS.iter().enumerate() { if n.contains(&avg) { state.ring = Some(ring as u8); break; } }`
     preceded by `state.ring = None;`
   * the average is `(slice0.sum + slice1.sum) / rtt.buf.len() as u64` over the whole buffer,
   * samples enter with `push_front`.
   The values themselves are free: a retune of the buckets / of the window only changes the generated
   table (the theorems of Props/C18.lean are stated for every table, the driver and the harness oracle
   read this file).

2. MembersGlue.lean (from crates/klukai-agent/src/agent/handlers.rs `handle_notifications` and
   crates/klukai-types/src/actor.rs `impl Identity for Actor`)
   * `notifTable : List (NotifKind × MemberCall)`: for every arm `OwnedNotification::<Variant>(…)` of the
     single `match notification` inside `while let Some(notification) = notification_rx.recv().await`,
     the variant and what the arm does to the member table: `addMember` / `removeMember` when the arm's
     FIRST statement is `let r = agent.members().write().add_member(&payload)` / `…remove_member(&payload)`
     with `payload` the arm's single binding, `nothing` when the arm never takes `members().write()`.
     Raises on: a wildcard / guarded / or-pattern arm, a write lock taken anywhere else in the arm or
     more than once, another `Members` method, another argument, the member table reached before or
     after the `match`.  (What `read()` is used for - the cluster size sent to foca - is not modelled.)
   * `winCmp : Cmp`: the operator of `win_addr_conflict` (`self.ts <op> adversary.ts`).  `renew` must be
     `Some(Self { id: self.id, addr: self.addr, ts: NTP64::from(duration_since_epoch()).into(),
     cluster_id: self.cluster_id })` with `duration_since_epoch()` reading `SystemTime::now()`; anything
     else raises (the model's `renew` is written for exactly this).
"""
import os, re

MEMBERS = "crates/klukai-types/src/members.rs"
HANDLERS = "crates/klukai-agent/src/agent/handlers.rs"
ACTOR = "crates/klukai-types/src/actor.rs"


class ExtractError(Exception):
    pass


def strip_comments(src):
    """comments removed, string literal contents blanked"""
    out, i, n = [], 0, len(src)
    while i < n:
        if src.startswith("//", i):
            j = src.find("\n", i)
            i = n if j < 0 else j
        elif src.startswith("/*", i):
            j = src.find("*/", i + 2)
            i = n if j < 0 else j + 2
        elif src[i] == '"':
            j = i + 1
            while j < n and src[j] != '"':
                j += 2 if src[j] == "\\" else 1
            out.append('""')
            i = j + 1
        else:
            out.append(src[i])
            i += 1
    return "".join(out)


def block_at(src, i, what):
    """the balanced `{…}` starting at the first `{` at or after i"""
    i = src.find("{", i)
    if i < 0:
        raise ExtractError(f"no block found for {what}")
    depth, j = 0, i
    while j < len(src):
        if src[j] == "{":
            depth += 1
        elif src[j] == "}":
            depth -= 1
            if depth == 0:
                return src[i:j + 1]
        j += 1
    raise ExtractError(f"unbalanced braces in {what}")


def fn_body(src, name, path):
    m = re.search(r"\bfn\s+" + re.escape(name) + r"\b", src)
    if not m:
        raise ExtractError(f"fn {name} not found in {path}")
    # the body is the first `{` at paren depth 0 after the signature
    depth, j = 0, m.end()
    while j < len(src):
        c = src[j]
        if c in "([":
            depth += 1
        elif c in ")]":
            depth -= 1
        elif c == "{" and depth == 0:
            return block_at(src, j, f"fn {name}")
        j += 1
    raise ExtractError(f"fn {name}: body not found in {path}")


def need(body, pattern, what, path):
    if not re.search(pattern, body, re.S):
        raise ExtractError(f"{path}: expected shape not found: {what}")


# ------------------------------------------------------------------ constants of members.rs

def consts(repo):
    src = strip_comments(open(os.path.join(repo, MEMBERS)).read())
    ms = re.findall(r"\bconst\s+RING_BUCKETS\s*:\s*\[\s*Range\s*<\s*u64\s*>\s*;\s*([0-9_]+)\s*\]\s*=\s*\[(.*?)\]\s*;", src, re.S)
    if len(ms) != 1:
        raise ExtractError(f"{MEMBERS}: expected exactly one `const RING_BUCKETS: [Range<u64>; N] = [a..b, …];`, found {len(ms)} "
                           "(inclusive ranges / another element type are not what Corro.Members.findBucket models)")
    n, body = int(ms[0][0].replace("_", "")), ms[0][1]
    items = [x.strip() for x in body.split(",") if x.strip()]
    buckets = []
    for it in items:
        m = re.fullmatch(r"([0-9_]+)\s*\.\.\s*([0-9_]+)", it)
        if not m:
            raise ExtractError(f"{MEMBERS}: RING_BUCKETS element `{it}` is not a half-open literal range `lo..hi`")
        buckets.append((int(m.group(1).replace("_", "")), int(m.group(2).replace("_", ""))))
    if len(buckets) != n:
        raise ExtractError(f"{MEMBERS}: RING_BUCKETS declares {n} elements but lists {len(buckets)}")
    if not buckets:
        raise ExtractError(f"{MEMBERS}: RING_BUCKETS is empty")
    if len(buckets) > 256:
        raise ExtractError(f"{MEMBERS}: more than 256 buckets: `ring as u8` would wrap, the model's ring is a Nat")

    rtt = re.search(r"\bpub\s+struct\s+Rtt\b", src)
    if not rtt:
        raise ExtractError(f"{MEMBERS}: `pub struct Rtt` not found")
    rb = block_at(src, rtt.end(), "struct Rtt")
    m = re.findall(r"\bbuf\s*:\s*CircularBuffer\s*<\s*([0-9_]+)\s*,\s*u64\s*>", rb)
    if len(m) != 1:
        raise ExtractError(f"{MEMBERS}: expected `buf: CircularBuffer<K, u64>` in struct Rtt")
    cap = int(m[0].replace("_", ""))
    if cap == 0:
        raise ExtractError(f"{MEMBERS}: CircularBuffer<0, u64>: no sample is ever kept, rings can never be computed")

    rr = fn_body(src, "recalculate_rings", MEMBERS)
    need(rr, r"state\.ring\s*=\s*None\s*;\s*for\s*\(\s*ring\s*,\s*n\s*\)\s*in\s+RING_BUCKETS\.iter\(\)\.enumerate\(\)\s*\{\s*"
             r"if\s+n\.contains\(\s*&avg\s*\)\s*\{\s*state\.ring\s*=\s*Some\(\s*ring\s+as\s+u8\s*\)\s*;\s*break\s*;\s*\}\s*\}",
         "`state.ring = None; for (ring, n) in RING_BUCKETS.iter().enumerate() { if n.contains(&avg) { state.ring = Some(ring as u8); break; } }` "
         "(first matching bucket in table order, no bucket = no ring)", MEMBERS)
    need(rr, r"\(\s*rtt\.buf\.as_slices\(\)\.0\.iter\(\)\.sum::<u64>\(\)\s*\+\s*rtt\.buf\.as_slices\(\)\.1\.iter\(\)\.sum::<u64>\(\)\s*\)\s*/\s*rtt\.buf\.len\(\)\s+as\s+u64",
         "average = (sum of both slices of rtt.buf) / rtt.buf.len() as u64", MEMBERS)
    need(rr, r"\(\s*!\s*rtt\.buf\.is_empty\(\)\s*\)\.then\(", "`(!rtt.buf.is_empty()).then(…)`: no average for an empty buffer", MEMBERS)
    ar = fn_body(src, "add_rtt", MEMBERS)
    need(ar, r"\.buf\s*\.push_front\(", "`add_rtt` pushes the sample with `.buf.push_front(…)`", MEMBERS)
    need(ar, r"self\.recalculate_rings\(\s*addr\s*\)", "`add_rtt` ends with `self.recalculate_rings(addr)`", MEMBERS)
    return buckets, cap


def consts_text(buckets, cap):
    bl = ", ".join(f"({lo}, {hi})" for lo, hi in buckets)
    return f"""/- GENERATED by tools/extract_c18.py from /repo/{MEMBERS}. Do not edit: regenerated at the
   start of every check.  The tunable constants of `Members`; the extractor also checks that
   `recalculate_rings` still takes the first matching bucket in table order over the integer average
   of the whole sample buffer and raises otherwise.  Read by lean/Driver/C18.lean and by
   harness/src/c18.rs (the `def … :=` lines). -/
namespace Corro.Gen.MembersConsts

/-- `RING_BUCKETS`, half-open `lo..hi` in milliseconds, in table order -/
def ringBuckets : List (Nat × Nat) := [{bl}]
/-- capacity `K` of `Rtt.buf : CircularBuffer<K, u64>` (the sample window) -/
def rttCap : Nat := {cap}

end Corro.Gen.MembersConsts
"""


# ------------------------------------------------------------------ the glue: handlers.rs, actor.rs

KINDS = {"MemberUp": "memberUp", "MemberDown": "memberDown", "Rename": "rename", "Active": "active",
         "Idle": "idle", "Defunct": "defunct", "Rejoin": "rejoin"}
CALLS = {"add_member": "addMember", "remove_member": "removeMember"}
CMPS = {"<": "lt", "<=": "le", ">": "gt", ">=": "ge", "==": "eq", "!=": "ne"}


def match_arms(block, what):
    """[(pattern, body)] of the arms of a `{ pat => body, … }` match block (comments already stripped)"""
    inner = block[1:-1]
    arms, i, n = [], 0, len(inner)
    while True:
        while i < n and inner[i] in " \t\r\n,":
            i += 1
        if i >= n:
            return arms
        j = inner.find("=>", i)
        if j < 0:
            raise ExtractError(f"{what}: arm without `=>` near `{inner[i:i + 40]}`")
        pat = inner[i:j].strip()
        k = j + 2
        while k < n and inner[k] in " \t\r\n":
            k += 1
        if k < n and inner[k] == "{":
            body = block_at(inner, k, what + " arm " + pat)
            i = k + len(body)
        else:
            depth, e = 0, k
            while e < n and not (inner[e] == "," and depth == 0):
                depth += inner[e] in "([{"
                depth -= inner[e] in ")]}"
                e += 1
            body = inner[k:e]
            i = e
        arms.append((pat, body))


def glue(repo):
    src = strip_comments(open(os.path.join(repo, HANDLERS)).read())
    hn = fn_body(src, "handle_notifications", HANDLERS)
    need(hn, r"while\s+let\s+Some\(\s*notification\s*\)\s*=\s*notification_rx\.recv\(\)\.await\s*\{",
         "`while let Some(notification) = notification_rx.recv().await {` (every notification, in order)", HANDLERS)
    ms = list(re.finditer(r"\bmatch\s+notification\s*\{", hn))
    if len(ms) != 1:
        raise ExtractError(f"{HANDLERS}: handle_notifications: expected exactly one `match notification {{`, found {len(ms)}")
    before = hn[:ms[0].start()]
    if re.search(r"members\(\)|\bcontinue\b|\bbreak\b|\breturn\b", before):
        raise ExtractError(f"{HANDLERS}: handle_notifications touches the member table or leaves the loop before `match notification`")
    mblock = block_at(hn, ms[0].end() - 1, "match notification")
    after = hn[ms[0].end() - 1 + len(mblock):]
    if re.search(r"members\(\)", after):
        raise ExtractError(f"{HANDLERS}: handle_notifications touches the member table after `match notification`")
    table = []
    for pat, body in match_arms(mblock, "match notification"):
        m = re.fullmatch(r"OwnedNotification::(\w+)\s*(?:\(\s*([^()]*?)\s*\))?", pat)
        if not m:
            raise ExtractError(f"{HANDLERS}: arm pattern `{pat}` is not a plain `OwnedNotification::<Variant>(bindings)` "
                               "(wildcard, guard, `|` or nested pattern: Corro.Members.callOf models first-arm-by-variant only)")
        variant, binds = m.group(1), [b.strip() for b in (m.group(2) or "").split(",") if b.strip()]
        writes = len(re.findall(r"members\(\)\s*\.\s*write\(\)", body))
        call = "nothing"
        if writes:
            # the arm's FIRST statement is `let x = [{] agent.members().write().<call>(&<payload>) [}];`
            lead = re.match(r"\{\s*let\s+\w+\s*=\s*\{?\s*agent\.members\(\)\s*\.write\(\)\s*\.(\w+)\(\s*&\s*(\w+)\s*\)\s*\}?\s*;", body)
            if not lead or writes != 1:
                raise ExtractError(f"{HANDLERS}: arm `{pat}` takes `members().write()` {writes}× but not as one leading "
                                   "`let r = agent.members().write().<add_member|remove_member>(&payload);`")
            fn, arg = lead.group(1), lead.group(2)
            if fn not in CALLS:
                raise ExtractError(f"{HANDLERS}: arm `{pat}` calls `Members::{fn}` (neither add_member nor remove_member)")
            if binds != [arg]:
                raise ExtractError(f"{HANDLERS}: arm `{pat}` passes `&{arg}`, which is not its single payload binding {binds}")
            call = CALLS[fn]
        if re.search(r"\bmembers\b", re.sub(r"members\(\)\s*\.\s*(read|write)\(\)", "", body)):
            raise ExtractError(f"{HANDLERS}: arm `{pat}` reaches the member table other than through members().read()/write()")
        table.append((KINDS.get(variant, "other"), call, variant))
    if not table:
        raise ExtractError(f"{HANDLERS}: `match notification` has no arms")

    asrc = strip_comments(open(os.path.join(repo, ACTOR)).read())
    im = re.search(r"\bimpl\s+Identity\s+for\s+Actor\b", asrc)
    if not im:
        raise ExtractError(f"{ACTOR}: `impl Identity for Actor` not found")
    ib = block_at(asrc, im.end(), "impl Identity for Actor")
    wb = fn_body(ib, "win_addr_conflict", ACTOR)
    m = re.fullmatch(r"\{\s*self\.ts\s*(<=|>=|==|!=|<|>)\s*adversary\.ts\s*\}", wb)
    if not m:
        raise ExtractError(f"{ACTOR}: win_addr_conflict is not `self.ts <op> adversary.ts`")
    cmp_ = CMPS[m.group(1)]
    rb = fn_body(ib, "renew", ACTOR)
    m = re.fullmatch(r"\{\s*Some\(\s*Self\s*\{(.*)\}\s*\)\s*\}", rb, re.S)
    if not m:
        raise ExtractError(f"{ACTOR}: renew is not `Some(Self {{ … }})`")
    fields = {}
    for f in [x.strip() for x in m.group(1).split(",") if x.strip()]:
        k, _, v = f.partition(":")
        fields[k.strip()] = re.sub(r"\s+", "", v)
    want = {"id": "self.id", "addr": "self.addr", "cluster_id": "self.cluster_id",
            "ts": "NTP64::from(duration_since_epoch()).into()"}
    if fields != want:
        raise ExtractError(f"{ACTOR}: renew builds {fields}, the model's `renew` is {want}")
    need(asrc, r"fn\s+duration_since_epoch\(\)\s*->\s*Duration\s*\{\s*SystemTime::now\(\)\s*\.duration_since\(\s*SystemTime::UNIX_EPOCH\s*\)",
         "`duration_since_epoch()` = `SystemTime::now().duration_since(UNIX_EPOCH)`", ACTOR)
    return table, cmp_


def glue_text(table, cmp_):
    rows = ",\n   ".join(f"(.{k}, .{c})" for k, c, _ in table)
    names = ", ".join(v for _, _, v in table)
    return f"""import Corro.Model.Members
/- GENERATED by tools/extract_c18.py from /repo/{HANDLERS} (`handle_notifications`) and
   /repo/{ACTOR} (`impl Identity for Actor`).  Do not edit: regenerated at the start of every check.
   Arms of `match notification`, in source order: {names}. -/
namespace Corro.Gen.MembersGlue
open Corro.Members

/-- per arm of `match notification`: the variant and what the arm's leading statement does to
`agent.members().write()` with the arm's payload (`nothing`: the arm never takes the write lock) -/
def notifTable : List (NotifKind × MemberCall) :=
  [{rows}]

/-- `win_addr_conflict`: `self.ts <op> adversary.ts` -/
def winCmp : Cmp := .{cmp_}

end Corro.Gen.MembersGlue
"""


def extract(repo):
    buckets, cap = consts(repo)
    table, cmp_ = glue(repo)
    return [("MembersConsts.lean", consts_text(buckets, cap)), ("MembersGlue.lean", glue_text(table, cmp_))]
