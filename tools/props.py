"""Per-property configuration shared by tools/check and tools/mkmanifest.py."""

TRUSTED_BASE = [
    "Lean 4.33 kernel (thorough tier: re-checked by leanchecker); axioms per theorem audited with #print axioms, allowed ⊆ {propext, Classical.choice, Quot.sound}; no sorry/axiom/native_decide/bv_decide (grep on every run)",
    "the theorem statements in lean/Corro/Props/<id>.lean say what the property says",
    "correspondence check: harness generators, canonical printers, the driver's parser (differential testing; input distribution is in this file)",
    "integers modelled as Nat (u64 wrap-around out of scope)",
]

import glob, json, os
CONFIG = {}
for _p in sorted(glob.glob(os.path.join(os.path.dirname(os.path.abspath(__file__)), "propcfg", "C*.json"))):
    CONFIG[os.path.basename(_p)[:-5]] = json.load(open(_p))
