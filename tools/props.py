"""Per-property configuration shared by tools/check and tools/mkmanifest.py."""

TRUSTED_BASE = [
    "Lean 4.33 kernel (thorough tier: re-checked by leanchecker); axioms per theorem audited with #print axioms, allowed ⊆ {propext, Classical.choice, Quot.sound}; no sorry/axiom/native_decide/bv_decide (grep on every run)",
    "the theorem statements in lean/Corro/Props/<id>.lean say what the property says",
    "correspondence check: harness generators, canonical printers, the driver's parser (differential testing; input distribution is in this file)",
    "integers modelled as Nat (u64 wrap-around out of scope)",
]

CONFIG = {
    "C08": {
        "title": "Changeset chunks tile the sequence range exactly, whatever the size limit",
        "technique": "Lean 4 theorems (induction over the change list / fuel) about an executable model of ChunkedChanges::next and chunk_range + differential correspondence of model vs real iterator on generated and exhaustively enumerated small inputs",
        "level_text": "Proof (full strength for the modelled functions): chunks_contiguous, tiles_cover_once, chunks_partition_changes, chunks_inside, nonfinal_chunk_nonempty hold for every strictly increasing change list inside [start,last], every start<=last and every sequence of size limits; chunkRange_union for every range and chunk size >= 1. The model is tied to change.rs / peer/mod.rs by running both on the same inputs (50k random + exhaustive subsets of seqs over 0..=4 (quick) / 0..=7 (thorough) x limit patterns) and diffing outputs; an independent tiling oracle is evaluated on the real output.",
        "level_note": "Trusted: Lean kernel; statement fidelity; the harness (generator/printer/driver parser). Modelled not verified: Change::estimated_byte_size is read from the real code per change (its value is an input of the model); the rusqlite row iterator is replaced by a Vec iterator; iterator errors (Some(Err)) are not modelled; chunk_range with step 0 (panics in the real code) is excluded.",
        "design_ref": "DESIGN.md §4 C08",
        "assumptions": ["change sizes are whatever estimated_byte_size returns (any Nat in the theorems)", "start <= last, seqs strictly increasing inside [start,last] (the property's quantifier)"],
    },
}
