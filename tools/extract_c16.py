"""C16 extractor: the cluster-id decision sites -> lean/Corro/Gen/ClusterSites.lean.

For every place where the code decides on a cluster id, this records whether the comparison is PRESENT
in the current source with the expected POLARITY, as a table `sites : List (String × Bool)`.  The theorem
`Corro.ClusterGate.all_sites_guarded` (`decide` over the table) is therefore re-checked against the
source on every run.

  site                                   file / function                      what must be there
  uni.drop_on_mismatch                   agent/uni.rs spawn_unipayload_handler
                                         the arm `UniPayload::V1 { data: ..Change(change), cluster_id: P }`
                                         starts with `if cluster_id != P { continue; }` and then pushes
  uni.captured_is_agent_id               agent/handlers.rs spawn_incoming_connection_handlers
                                         3rd argument of `uni::spawn_unipayload_handler(..)` is `agent.cluster_id()`
  serve_sync.rejects_first               api/peer/mod.rs serve_sync
                                         `if cluster_id != agent.cluster_id() { ..Rejection(DifferentCluster).. return Ok(0); }`
                                         before any read_sync_msg / generate_sync / State / process_sync
  bi.passes_payload_cluster              agent/bi.rs spawn_bipayload_handler
                                         `BiPayload::V1 { data, cluster_id }` and `serve_sync(.., cluster_id, framed, tx)`
  handle_sync.candidates_same_cluster    agent/handlers.rs handle_sync
                                         `.filter(|(id, state)| { A && B })` over `members.states.iter()` with a
                                         conjunct `state.cluster_id == agent.cluster_id()`
  broadcast.targets_same_cluster         broadcast/mod.rs handle_broadcasts
                                         `.filter_map(|(member_id, state)| { if C1 || C2 .. { None } else { Some(state.addr) } })`
                                         with a disjunct `state.cluster_id != agent.cluster_id()`
  broadcast.ring0_uses_agent_cluster     broadcast/mod.rs handle_broadcasts: every `.ring0(..)` gets `agent.cluster_id()`
  members.ring0_same_cluster             klukai-types/src/members.rs Members::ring0
                                         `(v.cluster_id == cluster_id && ring == 0).then_some(v.addr)`
  payload.uni_default_on_eof / payload.bi_default_on_eof
                                         klukai-types/src/broadcast.rs: `#[speedy(default_on_eof)] cluster_id: ClusterId`
  payload.default_cluster_is_zero        klukai-types/src/actor.rs: `#[derive(.. Default ..)] pub struct ClusterId(pub u16);`
  sender.uni_declares_own_cluster        broadcast/mod.rs handle_broadcasts: `UniPayload::V1 { .., cluster_id: agent.cluster_id() }`
  client.declares_own_cluster            api/peer/mod.rs parallel_sync: `BiPayload::V1 { .., cluster_id: agent.cluster_id() }`
  client.rejection_aborts                api/peer/mod.rs parallel_sync:
                                         `Some(SyncMessage::V1(SyncMessageV1::Rejection(r))) => { return Err(r.into()) }`
                                         before `compute_available_needs`

Freshness.  Every site also records WHERE the node's own cluster id comes from:
  fresh = true   `agent.cluster_id()` evaluated at the use site, or a local bound to it INSIDE the innermost
                 long-running loop (`loop {` / `while … {`) that encloses the use, or in a function that runs
                 once per session / per sync round (serve_sync, parallel_sync, handle_sync)
  fresh = false  a local (or field shorthand resolved to a local) bound to `agent.cluster_id()` OUTSIDE a loop
                 that encloses the use: the value is read once when the task starts and a run-time
                 `cluster set-id` never reaches it; or a function parameter handed in once per accepted
                 connection (the uni handler: staleness window = one accepted connection)
A local that is bound to anything else than `agent.cluster_id()`, or an operand that cannot be resolved, makes
the site `guarded = false`.  `all_sites_fresh` (Props/C16.lean) requires fresh for every site except
`uni.drop_on_mismatch`, whose window is documented there.

Strict: a file, function or anchor (the push, the filter closure, the enum...) that cannot be found raises
(tools/check then reports the broken tie).  A site that is found but whose comparison is missing, inverted
or joined with the wrong connective is recorded `false`, which makes `all_sites_guarded` fail to build.
"""
import os, re


class ExtractError(Exception):
    pass


OPEN, CLOSE = "([{", ")]}"


def blank(src):
    """same-length copy with comments and string/char literal contents blanked"""
    out = list(src)
    i, n = 0, len(src)

    def bl(a, b):
        for k in range(a, b):
            if out[k] != "\n":
                out[k] = " "

    while i < n:
        c = src[i]
        if src.startswith("//", i):
            j = src.find("\n", i)
            j = n if j < 0 else j
            bl(i, j)
            i = j
        elif src.startswith("/*", i):
            depth, j = 1, i + 2
            while j < n and depth:
                if src.startswith("/*", j):
                    depth += 1; j += 2
                elif src.startswith("*/", j):
                    depth -= 1; j += 2
                else:
                    j += 1
            bl(i, j)
            i = j
        elif c == "r" and re.match(r'r#*"', src[i:i + 8]) and not (i and (src[i - 1].isalnum() or src[i - 1] == "_")):
            m = re.match(r'r(#*)"', src[i:])
            start = i + len(m.group(0))
            end = src.find('"' + m.group(1), start)
            if end < 0:
                raise ExtractError("unterminated raw string")
            bl(start, end)
            i = end + 1 + len(m.group(1))
        elif c == '"':
            j = i + 1
            while j < n and src[j] != '"':
                j += 2 if src[j] == "\\" else 1
            if j >= n:
                raise ExtractError("unterminated string")
            bl(i + 1, j)
            i = j + 1
        elif c == "'":
            m = re.match(r"'(\\.[^']*|[^'\\])'", src[i:i + 12])
            if m:
                bl(i + 1, i + len(m.group(0)) - 1)
                i += len(m.group(0))
            else:
                i += 1
        else:
            i += 1
    return "".join(out)


def match_close(code, i):
    depth = 0
    for j in range(i, len(code)):
        ch = code[j]
        if ch in OPEN:
            depth += 1
        elif ch in CLOSE:
            depth -= 1
            if depth == 0:
                if OPEN.index(code[i]) != CLOSE.index(ch):
                    raise ExtractError("mismatched brackets")
                return j
    raise ExtractError("unbalanced brackets")


def squash(s):
    """all whitespace removed (the patterns below are written without any)"""
    return re.sub(r"\s+", "", s)


def read(repo, rel):
    p = os.path.join(repo, rel)
    if not os.path.exists(p):
        raise ExtractError(f"{rel} not found")
    return blank(open(p).read())


def strip_tests(code):
    """drop `#[cfg(test)] mod … { … }` so that test code cannot satisfy a pattern"""
    while True:
        m = re.search(r"#\[cfg\(test\)\]\s*(?:pub\s+)?mod\s+\w+\s*\{", code)
        if not m:
            return code
        end = match_close(code, m.end() - 1)
        code = code[:m.start()] + " " * (end + 1 - m.start()) + code[end + 1:]


def fn_parts(code, name, rel):
    """(squashed signature, squashed body) of the only non-test `fn name`"""
    code = strip_tests(code)
    ms = list(re.finditer(r"\bfn\s+" + re.escape(name) + r"\s*(<[^>(]*>)?\s*\(", code))
    if len(ms) != 1:
        raise ExtractError(f"{rel}: expected exactly one `fn {name}`, found {len(ms)}")
    m = ms[0]
    par_close = match_close(code, m.end() - 1)
    body_open = code.find("{", par_close)
    if body_open < 0:
        raise ExtractError(f"{rel}: fn {name} has no body")
    body_close = match_close(code, body_open)
    return squash(code[m.start():body_open]), squash(code[body_open:body_close + 1])


def top_split(s, sep):
    """split squashed `s` on the 2-char operator `sep` at bracket depth 0"""
    parts, depth, start, i = [], 0, 0, 0
    while i < len(s):
        ch = s[i]
        if ch in OPEN:
            depth += 1
        elif ch in CLOSE:
            depth -= 1
        elif depth == 0 and s.startswith(sep, i):
            parts.append(s[start:i])
            start = i + len(sep)
            i += len(sep)
            continue
        i += 1
    parts.append(s[start:])
    return parts


def unparen(s):
    while s.startswith("(") and match_close(s, 0) == len(s) - 1:
        s = s[1:-1]
    return s


def is_cmp(expr, a, b, op):
    e = unparen(expr)
    return e in (f"{a}{op}{b}", f"{b}{op}{a}")


def call_args(body, callee, rel):
    """squashed top-level arguments of the only call `callee(` in the squashed body"""
    idxs = [m.end() - 1 for m in re.finditer(r"(?<![A-Za-z0-9_])" + re.escape(callee) + r"\(", body)]
    if len(idxs) != 1:
        raise ExtractError(f"{rel}: expected exactly one call of `{callee}`, found {len(idxs)}")
    cl = match_close(body, idxs[0])
    args = top_split(body[idxs[0] + 1:cl], ",")
    if args and args[-1] == "":
        args.pop()
    return args



def _loop_blocks(body):
    """[(open_brace, close_brace)] of every `loop {` / `while … {` block of the squashed body"""
    out = []
    for m in re.finditer(r"(?<![A-Za-z0-9_])loop\{", body):
        o = m.end() - 1
        out.append((o, match_close(body, o)))
    for m in re.finditer(r"(?<![A-Za-z0-9_])while(?=let|!|\(|[a-z_]+[.(])", body):
        depth, j = 0, m.end()
        while j < len(body):
            ch = body[j]
            if ch in "([":
                depth += 1
            elif ch in ")]":
                depth -= 1
            elif ch == "{" and depth == 0:
                break
            j += 1
        if j < len(body):
            out.append((j, match_close(body, j)))
    return out


def resolve_own(body, expr, use_pos, rel, sig=""):
    """Where does `expr` (an operand that should be the node's own cluster id) come from?
    -> (is_own_id, fresh, note)"""
    e = unparen(expr)
    if e == "agent.cluster_id()":
        return True, True, "agent.cluster_id() at the use site"
    if not re.fullmatch(r"[A-Za-z_][A-Za-z0-9_]*", e):
        return False, False, f"unrecognised operand `{e}`"
    binds = [(m.start(), m.group(1)) for m in re.finditer(r"let(?:mut)?" + re.escape(e) + r"(?::[A-Za-z0-9_:<>]+)?=([^;]*);", body) if m.start() < use_pos]
    if not binds:
        if re.search(r"[(,]" + re.escape(e) + r":ClusterId[,)]", sig):
            return False, False, f"`{e}` is a parameter of the function"
        raise ExtractError(f"{rel}: cannot resolve `{e}` (no `let {e} = …;` before its use)")
    bpos, rhs = binds[-1]
    if rhs not in ("agent.cluster_id()", "*agent.cluster_id()"):
        return False, False, f"`{e}` is bound to `{rhs[:60]}`"
    stale = [1 for (o, c) in _loop_blocks(body) if bpos < o < use_pos < c]
    if stale:
        return True, False, f"local `{e}` = agent.cluster_id() bound OUTSIDE the enclosing loop (read once at task start)"
    return True, True, f"local `{e}` = agent.cluster_id() bound inside the enclosing loop / per call"


def other_operand(expr, fixed, op):
    """X if expr is `fixed op X` or `X op fixed`"""
    e = unparen(expr)
    if e.startswith(fixed + op):
        return e[len(fixed + op):]
    if e.endswith(op + fixed):
        return e[:-len(op + fixed)]
    return None


# ------------------------------------------------------------------ the sites
# every site function returns (guarded, fresh, note)

def site_uni(repo):
    rel = "crates/klukai-agent/src/agent/uni.rs"
    sig, body = fn_parts(read(repo, rel), "spawn_unipayload_handler", rel)
    if "cluster_id:ClusterId" not in sig:
        raise ExtractError(f"{rel}: spawn_unipayload_handler has no `cluster_id: ClusterId` parameter")
    if re.search(r"\blet(mut)?cluster_id\b", body) or "letcluster_id" in body or "letmutcluster_id" in body:
        return False, False, "cluster_id is re-bound inside the handler"
    pushes = [m.start() for m in re.finditer(r"changes\.push\(", body)]
    if len(pushes) != 1:
        raise ExtractError(f"{rel}: expected exactly one `changes.push(` in the handler, found {len(pushes)}")
    arm = re.search(r"UniPayload::V1\{data:UniPayloadV1::Broadcast\(BroadcastV1::Change\((\w+),?\),?\),cluster_id:(\w+),?\}=>\{", body)
    if not arm:
        raise ExtractError(f"{rel}: the `UniPayload::V1 {{ data: ..Change(change), cluster_id: <name> }} =>` arm was not found")
    if arm.end() > pushes[0]:
        raise ExtractError(f"{rel}: `changes.push(` precedes the payload arm")
    p = arm.group(2)
    between = body[arm.end():pushes[0]]
    if between in (f"ifcluster_id!={p}{{continue;}}", f"if{p}!=cluster_id{{continue;}}"):
        # the own id is the handler's parameter: handed in once per accepted connection
        return True, False, between + "  [cluster_id = fn parameter, fixed per accepted connection]"
    return False, False, between[:120] or "<nothing between the arm and the push>"


def site_uni_capture(repo):
    rel = "crates/klukai-agent/src/agent/handlers.rs"
    _, body = fn_parts(read(repo, rel), "spawn_incoming_connection_handlers", rel)
    args = call_args(body, "spawn_unipayload_handler", rel)
    if len(args) != 4:
        raise ExtractError(f"{rel}: spawn_unipayload_handler call has {len(args)} arguments")
    return args[2] == "agent.cluster_id()", args[2] == "agent.cluster_id()", args[2] + "  [evaluated when the connection is accepted]"


def site_serve_sync(repo):
    rel = "crates/klukai-agent/src/api/peer/mod.rs"
    sig, body = fn_parts(read(repo, rel), "serve_sync", rel)
    if "cluster_id:ClusterId" not in sig:
        raise ExtractError(f"{rel}: serve_sync has no `cluster_id: ClusterId` parameter")
    later = [body.find(x) for x in ("read_sync_msg(", "generate_sync(", "SyncMessageV1::State(", "process_sync(")]
    if any(x < 0 for x in later):
        raise ExtractError(f"{rel}: serve_sync no longer has the expected shape (read_sync_msg/generate_sync/State/process_sync)")
    first_use = min(later)
    if "letcluster_id" in body[:first_use] or "letmutcluster_id" in body[:first_use]:
        return False, False, "cluster_id is re-bound before the check"
    m = re.search(r"if(\(?[\w.()]*cluster_id[\w.()]*(?:==|!=)[\w.()]*\)?)\{", body)
    if not m or m.start() > first_use:
        return False, False, "no cluster_id comparison before the first read/State"
    cond = m.group(1)
    blk_close = match_close(body, m.end() - 1)
    blk = body[m.end():blk_close]
    own = other_operand(cond, "cluster_id", "!=")
    is_own, fresh, note = resolve_own(body, own, m.start(), rel, sig) if own else (False, False, "no `cluster_id != <own id>` comparison")
    ok = (is_own
          and "SyncMessage::V1(SyncMessageV1::Rejection(SyncRejectionV1::DifferentCluster))" in blk
          and blk.endswith("returnOk(0);")
          and "SyncMessageV1::State" not in blk and "SyncMessageV1::Changeset" not in blk)
    # nothing is written before the check
    if "encode_write_sync_msg(" in body[:m.start()] or "write_buf(" in body[:m.start()]:
        ok = False
    return ok, ok and fresh, f"if {cond} {{ ..{'Rejection(DifferentCluster)' if 'DifferentCluster' in blk else 'no rejection'}.. }}  [{note}]"


def site_bi(repo):
    rel = "crates/klukai-agent/src/agent/bi.rs"
    _, body = fn_parts(read(repo, rel), "spawn_bipayload_handler", rel)
    if not re.search(r"BiPayload::V1\{data,cluster_id,?\}=>", body):
        return False, False, "BiPayload::V1 pattern does not bind cluster_id"
    args = call_args(body, "serve_sync", rel)
    if len(args) != 7:
        raise ExtractError(f"{rel}: serve_sync call has {len(args)} arguments")
    return args[4] == "cluster_id", args[4] == "cluster_id", args[4] + "  [the id the frame declares]"


def closure_after(body, anchor, method, rel):
    """squashed (params, closure body) of the first `.method(|params| …)` after `anchor`"""
    a = body.find(anchor)
    if a < 0:
        raise ExtractError(f"{rel}: anchor `{anchor}` not found")
    m = re.compile(r"\." + method + r"\(\|").search(body, a)
    if not m or m.start() != a + len(anchor):
        raise ExtractError(f"{rel}: `.{method}(|..|` does not directly follow `{anchor}`")
    cl = match_close(body, m.end() - 2)
    inner = body[m.end() - 1:cl]          # |params|body
    pm = re.match(r"\|([^|]*)\|", inner)
    if not pm:
        raise ExtractError(f"{rel}: cannot parse the closure parameters")
    cb = inner[pm.end():]
    if cb.endswith(","):
        cb = cb[:-1]
    if cb.startswith("{") and match_close(cb, 0) == len(cb) - 1:
        cb = cb[1:-1]
    return pm.group(1), cb


def site_handle_sync(repo):
    rel = "crates/klukai-agent/src/agent/handlers.rs"
    _, body = fn_parts(read(repo, rel), "handle_sync", rel)
    params, cb = closure_after(body, "members.states.iter()", "filter", rel)
    if params not in ("(id,state)",):
        raise ExtractError(f"{rel}: unexpected filter closure parameters {params}")
    if "||" in "".join(top_split(cb, "&&")) and len(top_split(cb, "||")) > 1:
        return False, False, cb[:160]
    conj = top_split(cb, "&&")
    owns = [x for x in (other_operand(c, "state.cluster_id", "==") for c in conj) if x]
    use = body.find("members.states.iter().filter(")
    is_own, fresh, note = resolve_own(body, owns[0], use, rel) if len(owns) == 1 else (False, False, "no `state.cluster_id == <own id>` conjunct")
    ok = is_own
    # the candidates must come from this filter: the chain is collected straight into `candidates`
    if not re.search(r"letcandidates=\{letmembers=agent\.members\(\)\.read\(\);members\.states\.iter\(\)\.filter\(", body):
        raise ExtractError(f"{rel}: `let candidates = {{ let members = agent.members().read(); members.states.iter().filter(` not found")
    return ok, ok and fresh, cb[:160] + f"  [{note}]"


def site_broadcast_targets(repo):
    rel = "crates/klukai-agent/src/broadcast/mod.rs"
    _, body = fn_parts(read(repo, rel), "handle_broadcasts", rel)
    anchor = "letbroadcast_to={agent.members().read().states.iter()"
    params, cb = closure_after(body, anchor, "filter_map", rel)
    if params != "(member_id,state)":
        raise ExtractError(f"{rel}: unexpected filter_map closure parameters {params}")
    m = re.match(r"if(.*)\{None\}else\{Some\(state\.addr\)\}$", cb)
    if not m:
        return False, False, cb[:200]
    cond = m.group(1)
    if len(top_split(cond, "&&")) > 1:
        return False, False, cond[:200]
    disj = top_split(cond, "||")
    owns = [x for x in (other_operand(d, "state.cluster_id", "!=") for d in disj) if x]
    use = body.find(anchor)
    is_own, fresh, note = resolve_own(body, owns[0], use, rel) if len(owns) == 1 else (False, False, "no `state.cluster_id != <own id>` disjunct")
    return is_own, is_own and fresh, cond[:200] + f"  [{note}]"


def site_ring0_calls(repo):
    rel = "crates/klukai-agent/src/broadcast/mod.rs"
    _, body = fn_parts(read(repo, rel), "handle_broadcasts", rel)
    calls = [m.end() - 1 for m in re.finditer(r"\.ring0\(", body)]
    if not calls:
        raise ExtractError(f"{rel}: no `.ring0(` call in handle_broadcasts")
    res = [resolve_own(body, body[i + 1:match_close(body, i)], i, rel) for i in calls]
    args = [body[i + 1:match_close(body, i)] for i in calls]
    return all(r[0] for r in res), all(r[0] and r[1] for r in res), ";".join(args) + "  [" + "; ".join(r[2] for r in res) + "]"


def site_members_ring0(repo):
    rel = "crates/klukai-types/src/members.rs"
    sig, body = fn_parts(read(repo, rel), "ring0", rel)
    if "cluster_id:ClusterId" not in sig:
        return False, False, "ring0 takes no cluster id"
    m = re.search(r"\.and_then\(\|ring\|\((.*?)\)\.then_some\(v\.addr\)\)", body)
    if not m:
        return False, False, body[:200]
    conj = top_split(m.group(1), "&&")
    ok = (len(top_split(m.group(1), "||")) == 1
          and any(is_cmp(c, "v.cluster_id", "cluster_id", "==") for c in conj)
          and any(is_cmp(c, "ring", "0", "==") for c in conj))
    return ok, ok, m.group(1) + "  [the caller's argument]"


def site_payload(repo, enum):
    rel = "crates/klukai-types/src/broadcast.rs"
    code = squash(strip_tests(read(repo, rel)))
    ms = list(re.finditer(r"pubenum" + enum + r"\{", code))
    if len(ms) != 1:
        raise ExtractError(f"{rel}: expected exactly one `pub enum {enum}`")
    cl = match_close(code, ms[0].end() - 1)
    body = code[ms[0].end():cl]
    i = body.find("cluster_id:ClusterId")
    if i < 0:
        raise ExtractError(f"{rel}: {enum} has no `cluster_id: ClusterId` field")
    attr = "#[speedy(default_on_eof)]"
    return body[:i].endswith(attr), body[:i].endswith(attr), body[max(0, i - 40):i + 20]


def site_default_zero(repo):
    rel = "crates/klukai-types/src/actor.rs"
    code = squash(strip_tests(read(repo, rel)))
    m = re.search(r"#\[derive\(([^\]]*)\)\](?:#\[[^\]]*\])*pubstructClusterId\(pubu16\);", code)
    if not m:
        raise ExtractError(f"{rel}: `pub struct ClusterId(pub u16);` with a derive list not found")
    ok = "Default" in m.group(1).split(",") and "implDefaultforClusterId" not in code
    return ok, ok, "derive(" + m.group(1) + ")"


def site_sender_uni(repo):
    rel = "crates/klukai-agent/src/broadcast/mod.rs"
    _, body = fn_parts(read(repo, rel), "handle_broadcasts", rel)
    ms = list(re.finditer(r"UniPayload::V1\{", body))
    if len(ms) != 1:
        raise ExtractError(f"{rel}: expected exactly one `UniPayload::V1 {{` construction in handle_broadcasts, found {len(ms)}")
    cl = match_close(body, ms[0].end() - 1)
    fields = top_split(body[ms[0].end():cl], ",")
    cf = [f for f in fields if f.startswith("cluster_id:") or f == "cluster_id"]
    if len(cf) != 1:
        raise ExtractError(f"{rel}: UniPayload::V1 construction has no cluster_id field")
    val = cf[0][len("cluster_id:"):] if ":" in cf[0] else "cluster_id"      # field shorthand = a local of that name
    is_own, fresh, note = resolve_own(body, val, ms[0].start(), rel)
    return is_own, is_own and fresh, cf[0] + f"  [{note}]"


def site_client(repo):
    rel = "crates/klukai-agent/src/api/peer/mod.rs"
    _, body = fn_parts(read(repo, rel), "parallel_sync", rel)
    ms = list(re.finditer(r"BiPayload::V1\{", body))
    if len(ms) != 1:
        raise ExtractError(f"{rel}: expected exactly one `BiPayload::V1 {{` construction in parallel_sync, found {len(ms)}")
    cl = match_close(body, ms[0].end() - 1)
    fields = top_split(body[ms[0].end():cl], ",")
    cf = [f for f in fields if f.startswith("cluster_id:") or f == "cluster_id"]
    if len(cf) != 1:
        raise ExtractError(f"{rel}: BiPayload::V1 construction has no cluster_id field")
    val = cf[0][len("cluster_id:"):] if ":" in cf[0] else "cluster_id"
    is_own, fresh, note = resolve_own(body, val, ms[0].start(), rel)
    declares = (is_own, is_own and fresh, cf[0] + f"  [{note}]")
    needs = body.find("compute_available_needs(")
    if needs < 0:
        raise ExtractError(f"{rel}: parallel_sync no longer calls compute_available_needs")
    m = re.search(r"Some\(SyncMessage::V1\(SyncMessageV1::Rejection\((\w+)\)\)\)=>\{?returnErr\(\1\.into\(\)\);?\}?", body)
    ab = bool(m) and m.start() < needs
    aborts = (ab, ab, m.group(0) if m else "no `Rejection(r) => return Err(r.into())` arm")
    return declares, aborts


def extract(repo):
    rows = []

    def add(name, res):
        ok, fresh, what = res
        rows.append((name, bool(ok), bool(fresh), what))

    add("uni.drop_on_mismatch", site_uni(repo))
    add("uni.captured_is_agent_id", site_uni_capture(repo))
    add("serve_sync.rejects_first", site_serve_sync(repo))
    add("bi.passes_payload_cluster", site_bi(repo))
    add("handle_sync.candidates_same_cluster", site_handle_sync(repo))
    add("broadcast.targets_same_cluster", site_broadcast_targets(repo))
    add("broadcast.ring0_uses_agent_cluster", site_ring0_calls(repo))
    add("members.ring0_same_cluster", site_members_ring0(repo))
    add("payload.uni_default_on_eof", site_payload(repo, "UniPayload"))
    add("payload.bi_default_on_eof", site_payload(repo, "BiPayload"))
    add("payload.default_cluster_is_zero", site_default_zero(repo))
    add("sender.uni_declares_own_cluster", site_sender_uni(repo))
    declares, aborts = site_client(repo)
    add("client.declares_own_cluster", declares)
    add("client.rejection_aborts", aborts)

    lines = [
        "/- GENERATED by tools/extract_c16.py from the cluster-id decision sites of /repo",
        "   (agent/uni.rs, agent/bi.rs, agent/handlers.rs, api/peer/mod.rs, broadcast/mod.rs,",
        "   klukai-types/src/{members,broadcast,actor}.rs).  Do not edit: regenerated at the start of every check.",
        "   One entry per site: (name, guarded, fresh).",
        "   guarded = the comparison / stamp is present in the source with the expected polarity and its own-id",
        "             operand is the agent's cluster id;",
        "   fresh   = that operand is `agent.cluster_id()` evaluated at the use site (or bound inside the enclosing",
        "             loop / per call), not a value read once outside the task's loop or per accepted connection.",
        "   The text after `--` is what was found at the site (whitespace removed) and [where the id comes from]. -/",
        "namespace Corro.Gen.ClusterSites",
        "",
        "def sites : List (String × Bool × Bool) := [",
    ]
    for i, (name, ok, fresh, what) in enumerate(rows):
        what = re.sub(r"[^\x20-\x7e]", "?", what).replace("-/", "- /").replace("/-", "/ -")
        comma = "," if i + 1 < len(rows) else ""
        b = lambda x: "true" if x else "false"
        lines.append(f'  ("{name}", {b(ok)}, {b(fresh)}){comma}  -- {what}')
    lines += ["]", "", "end Corro.Gen.ClusterSites", ""]
    return [("ClusterSites.lean", "\n".join(lines))]
