#!/usr/bin/env python3
"""Regenerates lean/Corro/Gen/*.lean from /repo's current source (run at the start of every check).
Writes a file only when its content changed, so lake does not rebuild needlessly."""
import os, re, sys

VERIF = os.path.dirname(os.path.dirname(os.path.abspath(__file__)))
REPO = os.environ.get("VERIF_REPO", "/repo")
GEN = os.path.join(VERIF, "lean", "Corro", "Gen")


def write_if_changed(path, text):
    os.makedirs(os.path.dirname(path), exist_ok=True)
    if os.path.exists(path) and open(path).read() == text:
        return
    with open(path, "w") as f:
        f.write(text)


def main():
    from extractors import ALL
    only = sys.argv[1] if len(sys.argv) > 1 else None
    rc = 0
    for pid, fn in ALL:
        if only and pid != only:
            continue
        try:
            for name, text in fn(REPO):
                write_if_changed(os.path.join(GEN, name), text)
        except Exception as e:  # the tie to the source is broken for this property only
            print(f"EXTRACT-FAILED {pid}: {e!r}")
            rc = 1
    return rc


if __name__ == "__main__":
    sys.path.insert(0, os.path.dirname(os.path.abspath(__file__)))
    sys.exit(main())
