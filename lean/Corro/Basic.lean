def hello := "world"
