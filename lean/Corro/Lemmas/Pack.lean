/-
Helper lemmas for the packed-key model (`Corro/Model/Pack.lean`): big-endian byte strings,
minimal byte counts, one-column round trip.  Core Lean only.
-/
import Corro.Model.Pack

namespace Corro.Pack

/-! ### big-endian byte strings -/

theorem beNat_nil : beNat [] = 0 := rfl

theorem beNat_snoc (xs : Bytes) (b : UInt8) : beNat (xs ++ [b]) = beNat xs * 256 + b.toNat := by
  simp [beNat, List.foldl_append]

theorem beBytes_length (k n : Nat) : (beBytes k n).length = k := by
  induction k generalizing n with
  | zero => rfl
  | succ k ih => simp [beBytes, ih]

theorem beNat_beBytes (k n : Nat) : beNat (beBytes k n) = n % 256 ^ k := by
  induction k generalizing n with
  | zero => simp [beBytes, beNat_nil, Nat.mod_one]
  | succ k ih =>
    simp only [beBytes, beNat_snoc, ih, UInt8.toNat_ofNat']
    have h1 : n % 256 ^ (k + 1) = 256 * (n / 256 % 256 ^ k) + n % 256 := by
      rw [Nat.pow_succ, Nat.mul_comm (256 ^ k) 256, Nat.mod_mul]
      omega
    omega

theorem beNat_beBytes_of_lt (k n : Nat) (h : n < 256 ^ k) : beNat (beBytes k n) = n := by
  rw [beNat_beBytes, Nat.mod_eq_of_lt h]

theorem take_beBytes (k n : Nat) (rest : Bytes) : (beBytes k n ++ rest).take k = beBytes k n :=
  List.take_left' (beBytes_length k n)

theorem drop_beBytes (k n : Nat) (rest : Bytes) : (beBytes k n ++ rest).drop k = rest :=
  List.drop_left' (beBytes_length k n)

/-! ### minimal byte counts -/

theorem numBytes32_le (m : Nat) : numBytes32 m ≤ 4 := by
  unfold numBytes32; repeat' split
  all_goals omega

theorem numBytes32_spec (m : Nat) (h : m < 4294967296) : m < 256 ^ numBytes32 m := by
  unfold numBytes32
  split
  · omega
  · split
    · show m < 16777216; omega
    · split
      · show m < 65536; omega
      · split
        · show m < 256; omega
        · show m < 1; omega

theorem numBytes64_le (n : Nat) : numBytes64 n ≤ 8 := by
  unfold numBytes64
  have := numBytes32_le (n % 4294967296)
  repeat' split
  all_goals omega

theorem numBytes64_spec (n : Nat) (h : n < 18446744073709551616) : n < 256 ^ numBytes64 n := by
  unfold numBytes64
  split
  · omega
  · split
    · show n < 72057594037927936; omega
    · split
      · show n < 281474976710656; omega
      · split
        · show n < 1099511627776; omega
        · have h2 : n % 4294967296 = n := by omega
          have := numBytes32_spec (n % 4294967296) (by omega)
          rw [h2] at this ⊢
          exact this

/-- minimality: one byte fewer would not hold the pattern (so the encoding is the canonical
shortest one, as the extension produces it). -/
theorem numBytes64_minimal (n : Nat) (h : n < 18446744073709551616) (hk : 0 < numBytes64 n) :
    256 ^ (numBytes64 n - 1) ≤ n := by
  unfold numBytes64 at hk ⊢
  split
  · show 72057594037927936 ≤ n; omega
  · split
    · show 281474976710656 ≤ n; omega
    · split
      · show 1099511627776 ≤ n; omega
      · split
        · show 4294967296 ≤ n; omega
        · rename_i h1 h2 h3 h4
          simp only [h1, h2, h3, h4, if_false] at hk
          unfold numBytes32 at hk ⊢
          split
          · show 16777216 ≤ n; omega
          · split
            · show 65536 ≤ n; omega
            · split
              · show 256 ≤ n; omega
              · split
                · show 1 ≤ n; omega
                · rename_i g1 g2 g3 g4
                  rw [if_neg g1, if_neg g2, if_neg g3, if_neg g4] at hk
                  exact absurd hk (Nat.lt_irrefl 0)

/-! ### i64 ↔ bit pattern -/

theorem pat64_lt (v : Int) : pat64 v < 18446744073709551616 := by
  unfold pat64; omega

theorem ofPat64_pat64 (v : Int) (h1 : -9223372036854775808 ≤ v) (h2 : v < 9223372036854775808) :
    ofPat64 (pat64 v) = v := by
  unfold ofPat64 pat64; omega

/-! ### one column -/

theorem typeByte (k ty : Nat) (hk : k ≤ 8) (hty : ty < 8) :
    (UInt8.ofNat (k * 8 + ty)).toNat % 8 = ty ∧ (UInt8.ofNat (k * 8 + ty)).toNat / 8 = k := by
  simp only [UInt8.toNat_ofNat']; omega

theorem unpackPayload_packLen (ty : Nat) (p rest : Bytes) (h : p.length < 2147483648) :
    ∃ t, packLen ty p.length ++ p ++ rest
          = t :: (beBytes (numBytes32 p.length) p.length ++ (p ++ rest)) ∧
        t = UInt8.ofNat (numBytes32 p.length * 8 + ty) ∧
        unpackPayload (numBytes32 p.length) (beBytes (numBytes32 p.length) p.length ++ (p ++ rest))
          = .ok (p, rest) := by
  have hm : p.length % 4294967296 = p.length := by omega
  refine ⟨_, ?_, rfl, ?_⟩
  · simp [packLen, hm]
  · unfold unpackPayload
    have hlen := numBytes32_spec p.length (by omega)
    simp only [take_beBytes, drop_beBytes, beNat_beBytes_of_lt _ _ hlen, List.length_append,
      beBytes_length]
    rw [if_neg (by omega), if_neg (by omega)]
    simp

theorem unpackOne_packVal (v : Val) (rest : Bytes) (h : WFVal v) :
    unpackOne (packVal v ++ rest) = .ok (v, rest) := by
  cases v with
  | null => simp [packVal, unpackOne]
  | int v =>
    simp only [WFVal] at h
    have hk := numBytes64_le (pat64 v)
    have hs := numBytes64_spec (pat64 v) (pat64_lt v)
    have ht := typeByte (numBytes64 (pat64 v)) 1 hk (by omega)
    simp only [packVal, List.cons_append, unpackOne, ht.1, ht.2]
    rw [if_neg (by omega)]
    simp only [take_beBytes, drop_beBytes, beNat_beBytes_of_lt _ _ hs, List.length_append,
      beBytes_length, ofPat64_pat64 v h.1 h.2]
    simp
  | real b =>
    simp only [WFVal] at h
    have h8 : b < 256 ^ 8 := by show b < 18446744073709551616; exact h
    simp only [packVal, List.cons_append, unpackOne]
    have : (2 : UInt8).toNat = 2 := rfl
    simp only [this, take_beBytes, drop_beBytes, beNat_beBytes_of_lt _ _ h8, List.length_append,
      beBytes_length]
    simp
  | text p =>
    simp only [WFVal] at h
    obtain ⟨t, e1, e2, e3⟩ := unpackPayload_packLen 3 p rest h
    have ht := typeByte (numBytes32 p.length) 3 (by have := numBytes32_le p.length; omega) (by omega)
    simp only [packVal]
    rw [e1, e2]
    simp only [unpackOne, ht.1, ht.2, e3]
    rw [if_neg (by have := numBytes32_le p.length; omega)]
    simp
  | blob p =>
    simp only [WFVal] at h
    obtain ⟨t, e1, e2, e3⟩ := unpackPayload_packLen 4 p rest h
    have ht := typeByte (numBytes32 p.length) 4 (by have := numBytes32_le p.length; omega) (by omega)
    simp only [packVal]
    rw [e1, e2]
    simp only [unpackOne, ht.1, ht.2, e3]
    rw [if_neg (by have := numBytes32_le p.length; omega)]
    simp

theorem unpackCols_packVals (vs : List Val) (rest : Bytes) (h : ∀ v ∈ vs, WFVal v) :
    unpackCols vs.length (packVals vs ++ rest) = .ok vs := by
  induction vs with
  | nil => rfl
  | cons v vs ih =>
    simp only [packVals, List.length_cons, unpackCols, List.append_assoc]
    rw [unpackOne_packVal v _ (h v (by simp))]
    simp only []
    rw [ih (fun w hw => h w (by simp [hw]))]

/-! ### consumption -/

theorem unpackPayload_len (il : Nat) (bs p r : Bytes) (h : unpackPayload il bs = .ok (p, r)) :
    p.length + r.length + il = bs.length := by
  unfold unpackPayload at h
  split at h
  · cases h
  · simp only [] at h
    split at h
    · cases h
    · rename_i h1 h2
      injection h with h
      injection h with hp hr
      subst hp; subst hr
      simp only [List.length_take, List.length_drop] at *
      omega

theorem unpackOne_len (bs r : Bytes) (v : Val) (h : unpackOne bs = .ok (v, r)) :
    weight v + r.length ≤ bs.length := by
  unfold unpackOne at h
  split at h
  · cases h
  · rename_i t bs
    simp only [] at h
    split at h
    · cases h
    · split at h
      · split at h
        · cases h
        · rename_i p r' hp
          injection h with h; injection h with hv hr; subst hv; subst hr
          have := unpackPayload_len _ _ _ _ hp
          simp only [weight, List.length_cons]; omega
      · split at h
        · split at h
          · cases h
          · injection h with h; injection h with hv hr; subst hv; subst hr
            simp only [weight, List.length_cons, List.length_drop]; omega
        · split at h
          · split at h
            · cases h
            · injection h with h; injection h with hv hr; subst hv; subst hr
              simp only [weight, List.length_cons, List.length_drop]; omega
          · split at h
            · injection h with h; injection h with hv hr; subst hv; subst hr
              simp only [weight, List.length_cons]; omega
            · split at h
              · split at h
                · cases h
                · rename_i p r' hp
                  injection h with h; injection h with hv hr; subst hv; subst hr
                  have := unpackPayload_len _ _ _ _ hp
                  simp only [weight, List.length_cons]; omega
              · cases h

theorem unpackCols_len (c : Nat) (bs : Bytes) (vs : List Val) (h : unpackCols c bs = .ok vs) :
    weights vs ≤ bs.length ∧ vs.length = c := by
  induction c generalizing bs vs with
  | zero =>
    simp only [unpackCols] at h
    injection h with h; subst h; simp [weights]
  | succ c ih =>
    simp only [unpackCols] at h
    split at h
    · cases h
    · rename_i v r h1
      split at h
      · cases h
      · rename_i ws h2
        injection h with h; subst h
        have a := unpackOne_len _ _ _ h1
        have b := ih _ _ h2
        simp only [weights, List.length_cons]; omega

end Corro.Pack
