/-
C03 helper lemmas: `deliver` of a batch with ONE changeset, computed explicitly (skipped / buffered /
completed), as needed for `apply_eq_unchunked`.
-/
import Corro.Lemmas.NodeHolder
namespace Corro.Node
open Corro.Crdt

theorem alreadySeen_nil_full (s ver lo hi last : Nat) (cs : List Chg) :
    alreadySeen [] (.full s ver lo hi last cs) = false := by
  rw [alreadySeen_full_eq]; rfl

theorem finish_nil (n : Node) : finish (n, [], []) = n := by
  show (if n.alive then n else n) = n
  split <;> rfl

/-- a changeset the node already knows is dropped before the transaction: nothing happens -/
theorem deliver_single_skip (n : Node) (it : Item)
    (h : (n.booked it.site).containsAll it.versions.1 it.versions.2 it.seqs = true) :
    n.deliver [it] = n := by
  have hunk : unknownOf n [it] = [] := by
    unfold unknownOf
    rw [dedupeBatch_single]
    simp [h]
  rw [deliver_eq']
  have : deliverFold n [it] = (n, [], []) := by
    unfold deliverFold
    rw [hunk]
    rfl
  rw [this, finish_nil]

/-- an unknown changeset reaches the transaction of its actor, alone -/
theorem deliverFold_single (n : Node) (it : Item)
    (h : (n.booked it.site).containsAll it.versions.1 it.versions.2 it.seqs = false) :
    deliverFold n [it] = processActor n it.site [it] := by
  have hunk : unknownOf n [it] = [it] := by
    unfold unknownOf
    rw [dedupeBatch_single]
    simp [h]
  unfold deliverFold
  rw [hunk]
  have : sitesOf [it] = [it.site] := rfl
  rw [this]
  simp only [List.foldl_cons, List.foldl_nil, actorStep, List.nil_append]
  have hf : List.filter (fun x => decide (x.site = it.site)) [it] = [it] := by simp
  rw [hf]

/-- the pre-apply node and the applies after buffering one incomplete chunk -/
theorem processActor_single_buffer (n : Node) (site ver lo hi last : Nat) (cs : List Chg)
    (hnc : (n.booked site).containsAll ver ver (some (lo, hi)) = false) (hlh : lo ≤ hi)
    (hinc : ¬ (lo = 0 ∧ hi = last)) :
    processActor n site [Item.full site ver lo hi last cs] =
      (((n.bufferChunk site ver lo hi last cs).1.setBooked site
          ((((n.booked site).insertDb [(ver, ver)]).insertPartial ver
            ⟨[(n.bufferChunk site ver lo hi last cs).2], last⟩).1)),
        (if (mergedPartial ((n.booked site).insertDb [(ver, ver)]) ver
            ⟨[(n.bufferChunk site ver lo hi last cs).2], last⟩).complete then [(site, ver)] else []),
        []) := by
  have hc : (lo == 0 && hi == last) = false := by
    cases h1 : (lo == 0 && hi == last) with
    | false => rfl
    | true =>
      simp only [Bool.and_eq_true, beq_iff_eq] at h1
      exact absurd h1 hinc
  have htx : txFold n site [Item.full site ver lo hi last cs] =
      stBuffer { node := n, seen := [], processed := [], clears := [] } site ver lo hi last cs := by
    unfold txFold
    simp only [List.foldl_cons, List.foldl_nil]
    rw [processOne_full, hnc, alreadySeen_nil_full, hc]
    simp only [Bool.false_eq_true, if_false, Bool.false_and]
    rw [if_neg (by omega)]
  rw [processActor_node, htx]
  unfold stBuffer committed procRanges
  simp only [List.nil_append, List.isEmpty_cons, Bool.false_eq_true, if_false, List.map_cons,
    List.map_nil, List.foldl_cons, List.foldl_nil, commitStep]
  rw [insertPartial_snd]
  split <;> rfl

/-- … and after a complete changeset with changes -/
theorem processActor_single_complete (n : Node) (site ver last : Nat) (cs : List Chg)
    (hnc : (n.booked site).containsAll ver ver (some (0, last)) = false) (hne : cs ≠ []) :
    processActor n site [Item.full site ver 0 last last cs] =
      (((n.mergeChanges cs).setBooked site
          (((n.booked site).insertDb [(ver, ver)]).dropPartials ver ver)),
        [],
        (if hasBufferedMeta (n.mergeChanges cs) site ver ver then [(site, ver, ver)] else [])) := by
  have hce : cs.isEmpty = false := by
    cases cs with
    | nil => exact absurd rfl hne
    | cons c cs => rfl
  have htx : txFold n site [Item.full site ver 0 last last cs] =
      stComplete { node := n, seen := [], processed := [], clears := [] } site ver cs := by
    unfold txFold
    simp only [List.foldl_cons, List.foldl_nil]
    rw [processOne_full, hnc, alreadySeen_nil_full, hce]
    simp
  rw [processActor_node, htx]
  unfold stComplete committed procRanges
  simp only [List.nil_append, List.isEmpty_cons, Bool.false_eq_true, if_false, List.map_cons,
    List.map_nil, List.foldl_cons, List.foldl_nil, commitStep]

/-- … and after a complete changeset without changes (cleared) -/
theorem processActor_single_cleared (n : Node) (site ver last : Nat)
    (hnc : (n.booked site).containsAll ver ver (some (0, last)) = false) :
    processActor n site [Item.full site ver 0 last last []] =
      (((if (n.booked site).max ≤ ver then n.bumpDbv site ver else n).setBooked site
          (((n.booked site).insertDb [(ver, ver)]).dropPartials ver ver)),
        [],
        (if hasBufferedMeta (if (n.booked site).max ≤ ver then n.bumpDbv site ver else n) site ver ver
          then [(site, ver, ver)] else [])) := by
  have htx : txFold n site [Item.full site ver 0 last last []] =
      stCleared (n.booked site) { node := n, seen := [], processed := [], clears := [] } site ver ver := by
    unfold txFold
    simp only [List.foldl_cons, List.foldl_nil]
    rw [processOne_full, hnc, alreadySeen_nil_full]
    simp
  rw [processActor_node, htx]
  unfold stCleared committed procRanges
  simp only [List.nil_append, List.isEmpty_cons, Bool.false_eq_true, if_false, List.map_cons,
    List.map_nil, List.foldl_cons, List.foldl_nil, commitStep]

end Corro.Node
