/-
Helper lemmas for C11, part 1: the `query` table as a keyed set — `upsertOne`, `deleteOne`, and the
per-table `pass` of `handle_candidates` replace exactly the slice of the candidate keys.
-/
import Corro.Model.Ivm

namespace Corro.Ivm

/-- a key value of a stored row: not NULL and not the empty string (which `coalesce(pk, "")`
cannot tell from NULL) -/
def CleanVal (v : Val) : Prop := v ≠ .null ∧ v ≠ .text []
def CleanKey (k : Key) : Prop := k ≠ [] ∧ ∀ v ∈ k, CleanVal v
/-- the key columns of a result row: stored key values or NULLs, never the empty string -/
def Proper (pks : List Key) : Prop := ∀ k ∈ pks, ∀ v ∈ k, v ≠ .text []

theorem coal_inj {a b : Val} (ha : a ≠ .text []) (hb : b ≠ .text []) (h : coal a = coal b) : a = b := by
  unfold coal at h
  split at h <;> split at h <;> simp_all

theorem coalKey_inj : ∀ {a b : Key}, (∀ v ∈ a, v ≠ .text []) → (∀ v ∈ b, v ≠ .text []) →
    coalKey a = coalKey b → a = b := by
  intro a
  induction a with
  | nil => intro b _ _ h; cases b <;> simp_all [coalKey]
  | cons x xs ih =>
    intro b ha hb h
    cases b with
    | nil => simp [coalKey] at h
    | cons y ys =>
      simp only [coalKey, List.map_cons, List.cons.injEq] at h
      have h1 := coal_inj (ha x (by simp)) (hb y (by simp)) h.1
      have h2 := ih (fun v hv => ha v (by simp [hv])) (fun v hv => hb v (by simp [hv])) h.2
      rw [h1, h2]

theorem ckey_inj : ∀ {a b : List Key}, Proper a → Proper b → ckey a = ckey b → a = b := by
  intro a
  induction a with
  | nil => intro b _ _ h; cases b <;> simp_all [ckey]
  | cons x xs ih =>
    intro b ha hb h
    cases b with
    | nil => simp [ckey] at h
    | cons y ys =>
      simp only [ckey, List.map_cons, List.cons.injEq] at h
      have h1 := coalKey_inj (ha x (by simp)) (hb y (by simp)) h.1
      have h2 := ih (fun k hk => ha k (by simp [hk])) (fun k hk => hb k (by simp [hk])) h.2
      rw [h1, h2]

theorem coal_clean {v : Val} (h : CleanVal v) : coal v = v := by
  unfold coal; simp [h.1]

theorem coalKey_clean {k : Key} (h : ∀ v ∈ k, CleanVal v) : coalKey k = k := by
  induction k with
  | nil => rfl
  | cons x xs ih =>
    simp only [coalKey, List.map_cons]
    rw [coal_clean (h x (by simp))]
    have := ih (fun v hv => h v (by simp [hv]))
    simp only [coalKey] at this
    rw [this]

/-- structural invariant of the materialised table -/
structure StOk (st : State) : Prop where
  keys : st.rows.Pairwise (fun a b => a.pks ≠ b.pks)
  proper : ∀ m ∈ st.rows, Proper m.pks
  rowids : st.rows.Pairwise (fun a b => a.rowid ≠ b.rowid)
  bound : ∀ m ∈ st.rows, m.rowid < st.nextRowid

def State.outs (st : State) : List Out := st.rows.map MRow.out

theorem mem_outs {st : State} {o : Out} : o ∈ st.outs ↔ ∃ m ∈ st.rows, m.out = o := by
  simp [State.outs]

/-- two rows of a well-formed table with the same key are the same row -/
theorem StOk.uniq {st : State} (h : StOk st) {a b : MRow} (ha : a ∈ st.rows) (hb : b ∈ st.rows)
    (hk : a.pks = b.pks) : a = b := by
  have := h.keys
  rcases List.mem_iff_getElem.mp ha with ⟨i, hi, rfl⟩
  rcases List.mem_iff_getElem.mp hb with ⟨j, hj, rfl⟩
  rw [List.pairwise_iff_getElem] at this
  rcases Nat.lt_trichotomy i j with hlt | heq | hgt
  · exact absurd hk (this i j hi hj hlt)
  · subst heq; rfl
  · exact absurd hk.symm (this j i hj hi hgt)

theorem StOk.uniqRowid {st : State} (h : StOk st) {a b : MRow} (ha : a ∈ st.rows) (hb : b ∈ st.rows)
    (hk : a.rowid = b.rowid) : a = b := by
  have := h.rowids
  rcases List.mem_iff_getElem.mp ha with ⟨i, hi, rfl⟩
  rcases List.mem_iff_getElem.mp hb with ⟨j, hj, rfl⟩
  rw [List.pairwise_iff_getElem] at this
  rcases Nat.lt_trichotomy i j with hlt | heq | hgt
  · exact absurd hk (this i j hi hj hlt)
  · subst heq; rfl
  · exact absurd hk.symm (this j i hj hi hgt)

theorem find_key_some {st : State} (h : StOk st) {o : Out} (ho : Proper o.pks) {m : MRow}
    (hf : st.rows.find? (fun m => ckey m.pks = ckey o.pks) = some m) : m ∈ st.rows ∧ m.pks = o.pks := by
  have hm := List.mem_of_find?_eq_some hf
  have hp := List.find?_some hf
  simp only [decide_eq_true_eq] at hp
  exact ⟨hm, ckey_inj (h.proper m hm) ho hp⟩

theorem find_key_none {st : State} {o : Out}
    (hf : st.rows.find? (fun m => ckey m.pks = ckey o.pks) = none) : ∀ m ∈ st.rows, m.pks ≠ o.pks := by
  intro m hm he
  have := List.find?_eq_none.mp hf m hm
  simp [he] at this

/-! ### events only grow, ids are consecutive -/

def Consec : Nat → List Event → Prop
  | _, [] => True
  | n, e :: es => e.id = n ∧ Consec (n + 1) es

theorem consec_append : ∀ (a b : List Event) (n : Nat), Consec n a → Consec (n + a.length) b → Consec n (a ++ b) := by
  intro a
  induction a with
  | nil => intro b n _ h; simpa using h
  | cons x xs ih =>
    intro b n ha hb
    simp only [Consec] at ha
    simp only [List.cons_append, Consec]
    refine ⟨ha.1, ih b (n + 1) ha.2 ?_⟩
    simp only [List.length_cons] at hb
    have : n + 1 + xs.length = n + (xs.length + 1) := by omega
    rw [this]; exact hb

/-- `st'` is `st` after emitting the events `ex` -/
def Ext (st st' : State) (ex : List Event) : Prop :=
  st'.events = st.events ++ ex ∧ Consec st.nextId ex ∧ st'.nextId = st.nextId + ex.length ∧
  st'.lastRowid = st.lastRowid

theorem Ext.refl (st : State) : Ext st st [] := by simp [Ext, Consec]

theorem Ext.trans {a b c : State} {x y : List Event} (h1 : Ext a b x) (h2 : Ext b c y) : Ext a c (x ++ y) := by
  obtain ⟨e1, c1, n1, l1⟩ := h1
  obtain ⟨e2, c2, n2, l2⟩ := h2
  refine ⟨by rw [e2, e1, List.append_assoc], consec_append x y _ c1 (by rw [← n1]; exact c2), ?_, by rw [l2, l1]⟩
  rw [n2, n1, List.length_append]; omega

theorem ext_emit (st : State) (k : Kind) (r : Nat) (cs : List Val) :
    Ext st (emit st k r cs) [⟨k, r, cs, st.nextId⟩] := by
  simp [Ext, emit, Consec]

end Corro.Ivm
