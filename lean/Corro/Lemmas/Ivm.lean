/-
Helper lemmas for C11, part 1: the `query` table as a keyed set — `upsertOne`, `deleteOne`, and the
per-table `pass` of `handle_candidates` replace exactly the slice of the candidate keys.
-/
import Corro.Model.Ivm

namespace Corro.Ivm

/-- a key value of a stored row: not NULL and not the empty string (which `coalesce(pk, "")`
cannot tell from NULL) -/
def CleanVal (v : Val) : Prop := v ≠ .null ∧ v ≠ .text []
def CleanKey (k : Key) : Prop := k ≠ [] ∧ ∀ v ∈ k, CleanVal v
/-- the key columns of a result row: stored key values or NULLs, never the empty string -/
def Proper (pks : List Key) : Prop := ∀ k ∈ pks, ∀ v ∈ k, v ≠ .text []

theorem coal_inj {a b : Val} (ha : a ≠ .text []) (hb : b ≠ .text []) (h : coal a = coal b) : a = b := by
  unfold coal at h
  split at h <;> split at h <;> simp_all

theorem coalKey_inj : ∀ {a b : Key}, (∀ v ∈ a, v ≠ .text []) → (∀ v ∈ b, v ≠ .text []) →
    coalKey a = coalKey b → a = b := by
  intro a
  induction a with
  | nil => intro b _ _ h; cases b <;> simp_all [coalKey]
  | cons x xs ih =>
    intro b ha hb h
    cases b with
    | nil => simp [coalKey] at h
    | cons y ys =>
      simp only [coalKey, List.map_cons, List.cons.injEq] at h
      have h1 := coal_inj (ha x (by simp)) (hb y (by simp)) h.1
      have h2 := ih (fun v hv => ha v (by simp [hv])) (fun v hv => hb v (by simp [hv])) h.2
      rw [h1, h2]

theorem ckey_inj : ∀ {a b : List Key}, Proper a → Proper b → ckey a = ckey b → a = b := by
  intro a
  induction a with
  | nil => intro b _ _ h; cases b <;> simp_all [ckey]
  | cons x xs ih =>
    intro b ha hb h
    cases b with
    | nil => simp [ckey] at h
    | cons y ys =>
      simp only [ckey, List.map_cons, List.cons.injEq] at h
      have h1 := coalKey_inj (ha x (by simp)) (hb y (by simp)) h.1
      have h2 := ih (fun k hk => ha k (by simp [hk])) (fun k hk => hb k (by simp [hk])) h.2
      rw [h1, h2]

theorem coal_clean {v : Val} (h : CleanVal v) : coal v = v := by
  unfold coal; simp [h.1]

theorem coalKey_clean {k : Key} (h : ∀ v ∈ k, CleanVal v) : coalKey k = k := by
  induction k with
  | nil => rfl
  | cons x xs ih =>
    simp only [coalKey, List.map_cons]
    rw [coal_clean (h x (by simp))]
    have := ih (fun v hv => h v (by simp [hv]))
    simp only [coalKey] at this
    rw [this]

/-- structural invariant of the materialised table -/
structure StOk (st : State) : Prop where
  keys : st.rows.Pairwise (fun a b => a.pks ≠ b.pks)
  proper : ∀ m ∈ st.rows, Proper m.pks
  rowids : st.rows.Pairwise (fun a b => a.rowid ≠ b.rowid)
  bound : ∀ m ∈ st.rows, m.rowid < st.nextRowid
  last : st.lastRowid < st.nextRowid

def State.outs (st : State) : List Out := st.rows.map MRow.out

theorem mem_outs {st : State} {o : Out} : o ∈ st.outs ↔ ∃ m ∈ st.rows, m.out = o := by
  simp [State.outs]

/-- two rows of a well-formed table with the same key are the same row -/
theorem StOk.uniq {st : State} (h : StOk st) {a b : MRow} (ha : a ∈ st.rows) (hb : b ∈ st.rows)
    (hk : a.pks = b.pks) : a = b := by
  have := h.keys
  rcases List.mem_iff_getElem.mp ha with ⟨i, hi, rfl⟩
  rcases List.mem_iff_getElem.mp hb with ⟨j, hj, rfl⟩
  rw [List.pairwise_iff_getElem] at this
  rcases Nat.lt_trichotomy i j with hlt | heq | hgt
  · exact absurd hk (this i j hi hj hlt)
  · subst heq; rfl
  · exact absurd hk.symm (this j i hj hi hgt)

theorem StOk.uniqRowid {st : State} (h : StOk st) {a b : MRow} (ha : a ∈ st.rows) (hb : b ∈ st.rows)
    (hk : a.rowid = b.rowid) : a = b := by
  have := h.rowids
  rcases List.mem_iff_getElem.mp ha with ⟨i, hi, rfl⟩
  rcases List.mem_iff_getElem.mp hb with ⟨j, hj, rfl⟩
  rw [List.pairwise_iff_getElem] at this
  rcases Nat.lt_trichotomy i j with hlt | heq | hgt
  · exact absurd hk (this i j hi hj hlt)
  · subst heq; rfl
  · exact absurd hk.symm (this j i hj hi hgt)

theorem find_key_some {st : State} (h : StOk st) {o : Out} (ho : Proper o.pks) {m : MRow}
    (hf : st.rows.find? (fun m => ckey m.pks = ckey o.pks) = some m) : m ∈ st.rows ∧ m.pks = o.pks := by
  have hm := List.mem_of_find?_eq_some hf
  have hp := List.find?_some hf
  simp only [decide_eq_true_eq] at hp
  exact ⟨hm, ckey_inj (h.proper m hm) ho hp⟩

theorem find_key_none {st : State} {o : Out}
    (hf : st.rows.find? (fun m => ckey m.pks = ckey o.pks) = none) : ∀ m ∈ st.rows, m.pks ≠ o.pks := by
  intro m hm he
  have := List.find?_eq_none.mp hf m hm
  simp [he] at this

/-! ### events only grow, ids are consecutive -/

def Consec : Nat → List Event → Prop
  | _, [] => True
  | n, e :: es => e.id = n ∧ Consec (n + 1) es

theorem consec_append : ∀ (a b : List Event) (n : Nat), Consec n a → Consec (n + a.length) b → Consec n (a ++ b) := by
  intro a
  induction a with
  | nil => intro b n _ h; simpa using h
  | cons x xs ih =>
    intro b n ha hb
    simp only [Consec] at ha
    simp only [List.cons_append, Consec]
    refine ⟨ha.1, ih b (n + 1) ha.2 ?_⟩
    simp only [List.length_cons] at hb
    have : n + 1 + xs.length = n + (xs.length + 1) := by omega
    rw [this]; exact hb

/-- `st'` is `st` after emitting the events `ex` -/
def Ext (st st' : State) (ex : List Event) : Prop :=
  st'.events = st.events ++ ex ∧ Consec st.nextId ex ∧ st'.nextId = st.nextId + ex.length ∧
  st'.lastRowid = st.lastRowid

theorem Ext.refl (st : State) : Ext st st [] := by simp [Ext, Consec]

theorem Ext.trans {a b c : State} {x y : List Event} (h1 : Ext a b x) (h2 : Ext b c y) : Ext a c (x ++ y) := by
  obtain ⟨e1, c1, n1, l1⟩ := h1
  obtain ⟨e2, c2, n2, l2⟩ := h2
  refine ⟨by rw [e2, e1, List.append_assoc], consec_append x y _ c1 (by rw [← n1]; exact c2), ?_, by rw [l2, l1]⟩
  rw [n2, n1, List.length_append]; omega

theorem ext_emit (st : State) (k : Kind) (r : Nat) (cs : List Val) :
    Ext st (emit st k r cs) [⟨k, r, cs, st.nextId⟩] := by
  simp [Ext, emit, Consec]

/-! ### the client's view, as a set -/

def SameSet (a b : View) : Prop := ∀ x, x ∈ a ↔ x ∈ b

theorem SameSet.rfl' (a : View) : SameSet a a := fun _ => Iff.rfl

theorem applyEvent_congr {a b : View} (h : SameSet a b) (e : Event) :
    SameSet (applyEvent a e) (applyEvent b e) := by
  intro x
  unfold applyEvent
  cases e.kind <;> simp only [List.mem_append, List.mem_filter, List.mem_map, List.mem_singleton]
  · rw [h x]
  · constructor <;> rintro ⟨y, hy, rfl⟩
    · exact ⟨y, (h y).mp hy, rfl⟩
    · exact ⟨y, (h y).mpr hy, rfl⟩
  · rw [h x]

theorem replay_congr : ∀ (es : List Event) {a b : View}, SameSet a b → SameSet (replay a es) (replay b es) := by
  intro es
  induction es with
  | nil => intro a b h; exact h
  | cons e es ih => intro a b h; exact ih (applyEvent_congr h e)

theorem replay_append (v : View) (a b : List Event) : replay v (a ++ b) = replay (replay v a) b := by
  simp [replay, List.foldl_append]

/-- `st'` is `st` after a piece of `handle_candidates` that emitted `ex`: ids consecutive, the
client's view follows -/
structure Trans (st st' : State) (ex : List Event) : Prop where
  ext : Ext st st' ex
  view : SameSet (replay st.view ex) st'.view
  rowids : ∀ e ∈ ex, e.rowid < st'.nextRowid
  mono : st.nextRowid ≤ st'.nextRowid

theorem Trans.refl (st : State) : Trans st st [] :=
  ⟨Ext.refl st, fun _ => Iff.rfl, by simp, Nat.le_refl _⟩

theorem Trans.trans {a b c : State} {x y : List Event} (h1 : Trans a b x) (h2 : Trans b c y) :
    Trans a c (x ++ y) := by
  refine ⟨h1.ext.trans h2.ext, ?_, ?_, Nat.le_trans h1.mono h2.mono⟩
  · rw [replay_append]
    intro v
    rw [replay_congr y h1.view v]
    exact h2.view v
  · intro e he
    rcases List.mem_append.mp he with h | h
    · exact Nat.lt_of_lt_of_le (h1.rowids e h) h2.mono
    · exact h2.rowids e h

theorem mem_view {st : State} {v : Nat × List Val} : v ∈ st.view ↔ ∃ m ∈ st.rows, (m.rowid, m.cells) = v := by
  simp [State.view]

/-! ### one upsert -/

def setCells (o : Out) (x : MRow) : MRow :=
  if ckey x.pks = ckey o.pks then { x with cells := o.cells } else x

theorem upsertOne_eq (st : State) (o : Out) : upsertOne st o =
    match st.rows.find? (fun m => ckey m.pks = ckey o.pks) with
    | some m =>
      if m.cells = o.cells then st
      else emit { st with rows := st.rows.map (setCells o) }
        (if m.rowid > st.lastRowid then .insert else .update) m.rowid o.cells
    | none =>
      emit { st with rows := st.rows ++ [⟨st.nextRowid, o.pks, o.cells⟩], nextRowid := st.nextRowid + 1 }
        (if st.nextRowid > st.lastRowid then .insert else .update) st.nextRowid o.cells := rfl

theorem upsertOne_spec {st : State} (h : StOk st) {o : Out} (ho : Proper o.pks) :
    StOk (upsertOne st o) ∧
    (∀ x, x ∈ (upsertOne st o).outs ↔ x = o ∨ (x ∈ st.outs ∧ x.pks ≠ o.pks)) ∧
    ∃ ex, Trans st (upsertOne st o) ex ∧ (o ∈ st.outs → ex = []) := by
  rw [upsertOne_eq]
  split
  · rename_i m hf
    obtain ⟨hm, hpk⟩ := find_key_some h ho hf
    have hkey : ∀ y ∈ st.rows, (ckey y.pks = ckey o.pks ↔ y = m) := by
      intro y hy
      constructor
      · intro hc
        exact h.uniq hy hm ((ckey_inj (h.proper y hy) ho hc).trans hpk.symm)
      · intro e; subst e; rw [hpk]
    split
    · rename_i hc
      have hmo : m.out = o := by cases o; simp_all [MRow.out]
      refine ⟨h, ?_, [], Trans.refl st, fun _ => rfl⟩
      intro x
      constructor
      · intro hx
        by_cases hp : x.pks = o.pks
        · left
          obtain ⟨y, hy, rfl⟩ := mem_outs.mp hx
          have : y = m := h.uniq hy hm (by simpa [MRow.out] using hp.trans hpk.symm)
          rw [this, hmo]
        · exact Or.inr ⟨hx, hp⟩
      · rintro (rfl | ⟨hx, _⟩)
        · exact mem_outs.mpr ⟨m, hm, hmo⟩
        · exact hx
    · rename_i hc
      -- cells replaced
      have hfp : ∀ y, (setCells o y).pks = y.pks := by intro y; unfold setCells; split <;> rfl
      have hfr : ∀ y, (setCells o y).rowid = y.rowid := by intro y; unfold setCells; split <;> rfl
      have hfm : setCells o m = { m with cells := o.cells } := by simp [setCells, hpk]
      have hfo : ∀ y ∈ st.rows, y ≠ m → setCells o y = y := by
        intro y hy hne
        unfold setCells
        rw [if_neg (fun hc' => hne ((hkey y hy).mp hc'))]
      have hno : o ∉ st.outs := by
        intro hin
        obtain ⟨y, hy, hyo⟩ := mem_outs.mp hin
        have : y = m := h.uniq hy hm (by rw [hpk, ← hyo]; rfl)
        subst this
        apply hc; rw [← hyo]; rfl
      refine ⟨?_, ?_, ?_⟩
      · refine ⟨?_, ?_, ?_, ?_, ?_⟩
        · simp only [emit]
          rw [List.pairwise_map]
          exact h.keys.imp (fun {a b} hab => by rw [hfp, hfp]; exact hab)
        · intro y hy
          simp only [emit, List.mem_map] at hy
          obtain ⟨z, hz, rfl⟩ := hy
          rw [hfp]; exact h.proper z hz
        · simp only [emit]
          rw [List.pairwise_map]
          exact h.rowids.imp (fun {a b} hab => by rw [hfr, hfr]; exact hab)
        · intro y hy
          simp only [emit, List.mem_map] at hy
          obtain ⟨z, hz, rfl⟩ := hy
          rw [hfr]; exact h.bound z hz
        · simp only [emit]; exact h.last
      · intro x
        simp only [State.outs, emit, List.map_map, List.mem_map, Function.comp]
        constructor
        · rintro ⟨y, hy, rfl⟩
          by_cases hym : y = m
          · subst hym; left; rw [hfm]; cases o; simp_all [MRow.out]
          · right
            rw [hfo y hy hym]
            exact ⟨⟨y, hy, rfl⟩, fun hp => hym (h.uniq hy hm (by simpa [MRow.out] using hp.trans hpk.symm))⟩
        · rintro (rfl | ⟨⟨y, hy, rfl⟩, hp⟩)
          · exact ⟨m, hm, by rw [hfm]; simp [MRow.out, hpk]⟩
          · have hym : y ≠ m := fun e => hp (by subst e; simpa [MRow.out] using hpk)
            exact ⟨y, hy, by rw [hfo y hy hym]⟩
      · refine ⟨_, ⟨ext_emit _ _ _ _, ?_, ?_, by simp [emit]⟩, fun hin => absurd hin hno⟩
        · -- the client's view
          intro v
          simp only [replay, List.foldl_cons, List.foldl_nil, applyEvent]
          have hv' : ∀ v, v ∈ State.view (emit { st with rows := st.rows.map (setCells o) } (if m.rowid > st.lastRowid then Kind.insert else Kind.update) m.rowid o.cells) ↔
              (v = (m.rowid, o.cells)) ∨ (v ∈ st.view ∧ v.1 ≠ m.rowid) := by
            intro v
            simp only [State.view, emit, List.map_map, List.mem_map, Function.comp]
            constructor
            · rintro ⟨y, hy, rfl⟩
              by_cases hym : y = m
              · subst hym; left; rw [hfm]
              · right
                rw [hfo y hy hym]
                exact ⟨⟨y, hy, rfl⟩, fun hr => hym (h.uniqRowid hy hm hr)⟩
            · rintro (rfl | ⟨⟨y, hy, rfl⟩, hr⟩)
              · exact ⟨m, hm, by rw [hfm]⟩
              · have hym : y ≠ m := fun e => hr (by subst e; rfl)
                exact ⟨y, hy, by rw [hfo y hy hym]⟩
          rw [hv' v]
          by_cases hgt : m.rowid > st.lastRowid
          · rw [if_pos hgt]
            simp only [List.mem_append, List.mem_filter, List.mem_singleton, decide_eq_true_eq]
            constructor
            · rintro (⟨a, b⟩ | a)
              · exact Or.inr ⟨a, b⟩
              · exact Or.inl a
            · rintro (a | ⟨a, b⟩)
              · exact Or.inr a
              · exact Or.inl ⟨a, b⟩
          · rw [if_neg hgt]
            simp only [List.mem_map]
            constructor
            · rintro ⟨w, hw, rfl⟩
              split
              · left; rfl
              · rename_i hne; exact Or.inr ⟨hw, hne⟩
            · rintro (rfl | ⟨a, b⟩)
              · exact ⟨(m.rowid, m.cells), mem_view.mpr ⟨m, hm, rfl⟩, by simp⟩
              · exact ⟨v, a, by simp [b]⟩
        · intro e he
          simp only [List.mem_singleton] at he
          subst he
          simp only [emit]
          exact h.bound m hm
  · rename_i hf
    have hnone := find_key_none hf
    have hlt := h.last
    have hno : o ∉ st.outs := by
      intro hin
      obtain ⟨y, hy, hyo⟩ := mem_outs.mp hin
      exact hnone y hy (by rw [← hyo]; rfl)
    refine ⟨?_, ?_, ?_⟩
    · refine ⟨?_, ?_, ?_, ?_, ?_⟩
      · simp only [emit]
        rw [List.pairwise_append]
        refine ⟨h.keys, by simp, ?_⟩
        intro a ha b hb
        simp only [List.mem_singleton] at hb
        subst hb
        exact hnone a ha
      · intro y hy
        simp only [emit, List.mem_append, List.mem_singleton] at hy
        rcases hy with hy | rfl
        · exact h.proper y hy
        · exact ho
      · simp only [emit]
        rw [List.pairwise_append]
        refine ⟨h.rowids, by simp, ?_⟩
        intro a ha b hb
        simp only [List.mem_singleton] at hb
        subst hb
        exact Nat.ne_of_lt (h.bound a ha)
      · intro y hy
        simp only [emit, List.mem_append, List.mem_singleton] at hy
        rcases hy with hy | rfl
        · exact Nat.lt_succ_of_lt (h.bound y hy)
        · exact Nat.lt_succ_self _
      · simp only [emit]; omega
    · intro x
      simp only [State.outs, emit, List.map_append, List.mem_append, List.mem_map, List.map_cons, List.map_nil, List.mem_singleton]
      constructor
      · rintro (⟨y, hy, rfl⟩ | rfl)
        · exact Or.inr ⟨⟨y, hy, rfl⟩, hnone y hy⟩
        · left; rfl
      · rintro (rfl | ⟨hx, _⟩)
        · right; rfl
        · exact Or.inl hx
    · refine ⟨_, ⟨ext_emit _ _ _ _, ?_, ?_, by simp [emit]⟩, fun hin => absurd hin hno⟩
      · intro v
        simp only [replay, List.foldl_cons, List.foldl_nil, applyEvent]
        rw [if_pos hlt]
        simp only [State.view, emit, List.map_append, List.mem_append, List.mem_filter, List.map_cons, List.map_nil,
          List.mem_singleton, decide_eq_true_eq, List.mem_map]
        constructor
        · rintro (⟨⟨y, hy, rfl⟩, _⟩ | rfl)
          · exact Or.inl ⟨y, hy, rfl⟩
          · right; rfl
        · rintro (⟨y, hy, rfl⟩ | rfl)
          · exact Or.inl ⟨⟨y, hy, rfl⟩, Nat.ne_of_lt (h.bound y hy)⟩
          · right; rfl
      · intro e he
        simp only [List.mem_singleton] at he
        subst he
        simp [emit]

/-! ### folds -/

theorem upsertFold_spec : ∀ (fresh : List Out) {st : State}, StOk st → (∀ o ∈ fresh, Proper o.pks) →
    (∀ o ∈ fresh, ∀ o' ∈ fresh, o.pks = o'.pks → o = o') →
    StOk (fresh.foldl upsertOne st) ∧
    (∀ x, x ∈ (fresh.foldl upsertOne st).outs ↔ x ∈ fresh ∨ (x ∈ st.outs ∧ ∀ o ∈ fresh, x.pks ≠ o.pks)) ∧
    ∃ ex, Trans st (fresh.foldl upsertOne st) ex := by
  intro fresh
  induction fresh with
  | nil => intro st h _ _; exact ⟨h, by simp, [], Trans.refl st⟩
  | cons o rest ih =>
    intro st h hp hf
    obtain ⟨h1, m1, ex1, t1, _⟩ := upsertOne_spec h (hp o (by simp))
    obtain ⟨h2, m2, ex2, t2⟩ := ih h1 (fun x hx => hp x (by simp [hx]))
      (fun a ha b hb => hf a (by simp [ha]) b (by simp [hb]))
    refine ⟨h2, ?_, ex1 ++ ex2, t1.trans t2⟩
    intro x
    simp only [List.foldl_cons]
    rw [m2 x, m1 x]
    constructor
    · rintro (hx | ⟨(rfl | ⟨hx, hne⟩), hall⟩)
      · exact Or.inl (by simp [hx])
      · exact Or.inl (by simp)
      · refine Or.inr ⟨hx, ?_⟩
        intro o' ho'
        rcases List.mem_cons.mp ho' with rfl | ho'
        · exact hne
        · exact hall o' ho'
    · rintro (hx | ⟨hx, hall⟩)
      · rcases List.mem_cons.mp hx with rfl | hx
        · by_cases hdup : ∃ o' ∈ rest, x.pks = o'.pks
          · obtain ⟨o', ho', hpk⟩ := hdup
            have : x = o' := hf x (by simp) o' (by simp [ho']) hpk
            exact Or.inl (this ▸ ho')
          · exact Or.inr ⟨Or.inl rfl, fun o' ho' hpk => hdup ⟨o', ho', hpk⟩⟩
        · exact Or.inl hx
      · exact Or.inr ⟨Or.inr ⟨hx, hall o (by simp)⟩, fun o' ho' => hall o' (by simp [ho'])⟩

theorem deleteOne_spec {st : State} (h : StOk st) {m : MRow} (hm : m ∈ st.rows) :
    StOk (deleteOne st m) ∧
    (∀ y, y ∈ (deleteOne st m).rows ↔ y ∈ st.rows ∧ y ≠ m) ∧
    Trans st (deleteOne st m) [⟨.delete, m.rowid, m.cells, st.nextId⟩] := by
  have hrows : ∀ y, y ∈ (deleteOne st m).rows ↔ y ∈ st.rows ∧ y ≠ m := by
    intro y
    simp only [deleteOne, emit, List.mem_filter, decide_eq_true_eq]
    constructor
    · rintro ⟨hy, hr⟩; exact ⟨hy, fun e => hr (by rw [e])⟩
    · rintro ⟨hy, hne⟩; exact ⟨hy, fun hr => hne (h.uniqRowid hy hm hr)⟩
  refine ⟨⟨?_, ?_, ?_, ?_, ?_⟩, hrows, ⟨ext_emit _ _ _ _, ?_, ?_, by simp [deleteOne, emit]⟩⟩
  · simp only [deleteOne, emit]; exact h.keys.sublist List.filter_sublist
  · intro y hy; exact h.proper y ((hrows y).mp hy).1
  · simp only [deleteOne, emit]; exact h.rowids.sublist List.filter_sublist
  · intro y hy
    have := h.bound y ((hrows y).mp hy).1
    simpa [deleteOne, emit] using this
  · simpa [deleteOne, emit] using h.last
  · intro v
    simp only [replay, List.foldl_cons, List.foldl_nil, applyEvent, List.mem_filter, decide_eq_true_eq]
    rw [mem_view, mem_view]
    constructor
    · rintro ⟨⟨y, hy, rfl⟩, hr⟩
      exact ⟨y, (hrows y).mpr ⟨hy, fun e => hr (by rw [e])⟩, rfl⟩
    · rintro ⟨y, hy, rfl⟩
      obtain ⟨hy1, hne⟩ := (hrows y).mp hy
      exact ⟨⟨y, hy1, rfl⟩, fun hr => hne (h.uniqRowid hy1 hm hr)⟩
  · intro e he
    simp only [List.mem_singleton] at he
    subst he
    simpa [deleteOne, emit] using h.bound m hm

theorem deleteFold_spec : ∀ (D : List MRow) {st : State}, StOk st → (∀ m ∈ D, m ∈ st.rows) →
    D.Pairwise (fun a b => a ≠ b) →
    StOk (D.foldl deleteOne st) ∧
    (∀ y, y ∈ (D.foldl deleteOne st).rows ↔ y ∈ st.rows ∧ y ∉ D) ∧
    ∃ ex, Trans st (D.foldl deleteOne st) ex := by
  intro D
  induction D with
  | nil => intro st h _ _; exact ⟨h, by simp, [], Trans.refl st⟩
  | cons m rest ih =>
    intro st h hmem hpw
    obtain ⟨h1, r1, t1⟩ := deleteOne_spec h (hmem m (by simp))
    rw [List.pairwise_cons] at hpw
    obtain ⟨h2, r2, ex2, t2⟩ := ih h1
      (fun y hy => (r1 y).mpr ⟨hmem y (by simp [hy]), fun e => hpw.1 y hy e.symm⟩) hpw.2
    refine ⟨h2, ?_, _, t1.trans t2⟩
    intro y
    simp only [List.foldl_cons]
    rw [r2 y, r1 y]
    simp only [List.mem_cons, not_or]
    constructor
    · rintro ⟨⟨a, b⟩, c⟩; exact ⟨a, b, c⟩
    · rintro ⟨a, b, c⟩; exact ⟨⟨a, b⟩, c⟩

/-! ### one table of `handle_candidates` -/

/-- the result row lies in the slice of the candidate keys of FROM position `i` -/
def sliceOut (i : Nat) (ks : List Key) (o : Out) : Prop := coalKey (o.pks.getD i []) ∈ ks.map coalKey

theorem inSlice_iff (i : Nat) (ks : List Key) (m : MRow) : inSlice i ks m = true ↔ sliceOut i ks m.out := by
  simp [inSlice, sliceOut, MRow.out]

/-- `pass` with the result of the rewritten statement made a parameter -/
def passCore (res : List Out) (st : State) (i : Nat) (ks : List Key) : State :=
  let old := st.rows.filter (inSlice i ks)
  let fresh := res.filter (fun o => !(old.any (fun m => m.out = o)))
  let st1 := fresh.foldl upsertOne st
  let old1 := st1.rows.filter (inSlice i ks)
  let gone := old1.filter (fun m => !(res.any (fun o => m.out = o)))
  let goneKeys := gone.map (fun m => ckey m.pks)
  (st1.rows.filter (fun m => decide (ckey m.pks ∈ goneKeys))).foldl deleteOne st1

theorem pass_eq (q : Query) (db : Db) (st : State) (i : Nat) (ks : List Key) :
    pass q db st i ks = passCore (evalKeyed (stmtFor q i ks) db) st i ks := rfl

theorem pairwise_ne_of_keys {l : List MRow} (h : l.Pairwise (fun a b => a.pks ≠ b.pks)) :
    l.Pairwise (fun a b => a ≠ b) :=
  h.imp (fun {a b} hab e => hab (by rw [e]))

theorem passCore_spec {res : List Out} {st : State} {i : Nat} {ks : List Key} (h : StOk st)
    (hp : ∀ o ∈ res, Proper o.pks) (hf : ∀ o ∈ res, ∀ o' ∈ res, o.pks = o'.pks → o = o')
    (hs : ∀ o ∈ res, sliceOut i ks o) :
    StOk (passCore res st i ks) ∧
    (∀ x, x ∈ (passCore res st i ks).outs ↔ x ∈ res ∨ (x ∈ st.outs ∧ ¬ sliceOut i ks x)) ∧
    ∃ ex, Trans st (passCore res st i ks) ex := by
  -- the upsert half
  have hfresh : ∀ o, o ∈ res.filter (fun o => !((st.rows.filter (inSlice i ks)).any (fun m => m.out = o))) ↔
      o ∈ res ∧ o ∉ st.outs := by
    intro o
    simp only [List.mem_filter, Bool.not_eq_true', List.any_eq_false, decide_eq_true_eq, mem_outs, not_exists, not_and]
    constructor
    · rintro ⟨ho, hn⟩
      refine ⟨ho, fun m hm hmo => hn m ⟨hm, ?_⟩ hmo⟩
      rw [inSlice_iff, hmo]; exact hs o ho
    · rintro ⟨ho, hn⟩
      exact ⟨ho, fun m hm hmo => hn m hm.1 hmo⟩
  obtain ⟨h1, m1, ex1, t1⟩ := upsertFold_spec
    (res.filter (fun o => !((st.rows.filter (inSlice i ks)).any (fun m => m.out = o)))) h
    (fun o ho => hp o ((hfresh o).mp ho).1)
    (fun a ha b hb => hf a ((hfresh a).mp ha).1 b ((hfresh b).mp hb).1)
  -- the delete half
  generalize hst1 : (res.filter (fun o => !((st.rows.filter (inSlice i ks)).any (fun m => m.out = o)))).foldl upsertOne st = st1 at h1 m1 t1
  have hD : ∀ m ∈ st1.rows, (ckey m.pks ∈ ((st1.rows.filter (inSlice i ks)).filter (fun m => !(res.any (fun o => m.out = o)))).map (fun m => ckey m.pks) ↔
      sliceOut i ks m.out ∧ m.out ∉ res) := by
    intro m hm
    simp only [List.mem_map, List.mem_filter, Bool.not_eq_true', List.any_eq_false, decide_eq_true_eq]
    constructor
    · rintro ⟨g, ⟨⟨hg, hsl⟩, hn⟩, hk⟩
      have : g = m := h1.uniq hg hm (ckey_inj (h1.proper g hg) (h1.proper m hm) hk)
      subst this
      exact ⟨(inSlice_iff i ks g).mp hsl, fun hin => hn _ hin rfl⟩
    · rintro ⟨hsl, hn⟩
      exact ⟨m, ⟨⟨hm, (inSlice_iff i ks m).mpr hsl⟩, fun o ho hmo => hn (hmo ▸ ho)⟩, rfl⟩
  obtain ⟨h2, r2, ex2, t2⟩ := deleteFold_spec
    (st1.rows.filter (fun m => decide (ckey m.pks ∈ ((st1.rows.filter (inSlice i ks)).filter (fun m => !(res.any (fun o => m.out = o)))).map (fun m => ckey m.pks)))) h1
    (fun m hm => (List.mem_filter.mp hm).1)
    ((pairwise_ne_of_keys h1.keys).sublist List.filter_sublist)
  have heq : passCore res st i ks = (st1.rows.filter (fun m => decide (ckey m.pks ∈ ((st1.rows.filter (inSlice i ks)).filter (fun m => !(res.any (fun o => m.out = o)))).map (fun m => ckey m.pks)))).foldl deleteOne st1 := by
    simp only [passCore]; rw [hst1]
  rw [heq]
  refine ⟨h2, ?_, ex1 ++ ex2, t1.trans t2⟩
  intro x
  rw [mem_outs]
  constructor
  · rintro ⟨y, hy, rfl⟩
    obtain ⟨hy1, hnd⟩ := (r2 y).mp hy
    have hyo : y.out ∈ st1.outs := mem_outs.mpr ⟨y, hy1, rfl⟩
    have hnot : ¬ (sliceOut i ks y.out ∧ y.out ∉ res) := by
      intro hc
      apply hnd
      simp only [List.mem_filter, decide_eq_true_eq]
      exact ⟨hy1, (hD y hy1).mpr hc⟩
    rcases (m1 y.out).mp hyo with hfr | ⟨hin, _⟩
    · exact Or.inl ((hfresh _).mp hfr).1
    · by_cases hsl : sliceOut i ks y.out
      · by_cases hr : y.out ∈ res
        · exact Or.inl hr
        · exact absurd ⟨hsl, hr⟩ hnot
      · exact Or.inr ⟨hin, hsl⟩
  · intro hx
    have hx1 : x ∈ st1.outs := by
      rw [m1 x]
      rcases hx with hr | ⟨hin, hsl⟩
      · by_cases hin : x ∈ st.outs
        · refine Or.inr ⟨hin, fun o ho hpk => ?_⟩
          obtain ⟨hor, hon⟩ := (hfresh o).mp ho
          have : x = o := hf x hr o hor hpk
          exact hon (this ▸ hin)
        · exact Or.inl ((hfresh x).mpr ⟨hr, hin⟩)
      · refine Or.inr ⟨hin, fun o ho hpk => hsl ?_⟩
        have := hs o ((hfresh o).mp ho).1
        simpa [sliceOut, hpk] using this
    obtain ⟨y, hy, rfl⟩ := mem_outs.mp hx1
    refine ⟨y, (r2 y).mpr ⟨hy, ?_⟩, rfl⟩
    intro hyD
    simp only [List.mem_filter, decide_eq_true_eq] at hyD
    obtain ⟨hsl, hn⟩ := (hD y hy).mp hyD.2
    rcases hx with hr | ⟨_, hns⟩
    · exact hn hr
    · exact hns hsl

theorem passCore_noop {res : List Out} {st : State} {i : Nat} {ks : List Key}
    (hres : ∀ x, x ∈ res ↔ x ∈ st.outs ∧ sliceOut i ks x) : passCore res st i ks = st := by
  have hfresh : res.filter (fun o => !((st.rows.filter (inSlice i ks)).any (fun m => m.out = o))) = [] := by
    rw [List.filter_eq_nil_iff]
    intro o ho
    obtain ⟨hin, hsl⟩ := (hres o).mp ho
    obtain ⟨m, hm, rfl⟩ := mem_outs.mp hin
    simp only [Bool.not_eq_true', Bool.not_eq_false, List.any_eq_true, List.mem_filter, decide_eq_true_eq]
    exact ⟨m, ⟨hm, (inSlice_iff i ks m).mpr hsl⟩, rfl⟩
  simp only [passCore, hfresh, List.foldl_nil]
  have hgone : (st.rows.filter (inSlice i ks)).filter (fun m => !(res.any (fun o => m.out = o))) = [] := by
    rw [List.filter_eq_nil_iff]
    intro m hm
    obtain ⟨hm1, hsl⟩ := List.mem_filter.mp hm
    simp only [Bool.not_eq_true', Bool.not_eq_false, List.any_eq_true, decide_eq_true_eq]
    exact ⟨m.out, (hres _).mpr ⟨mem_outs.mpr ⟨m, hm1, rfl⟩, (inSlice_iff i ks m).mp hsl⟩, rfl⟩
  rw [hgone]
  have hnil : st.rows.filter (fun _ => false) = [] := by
    rw [List.filter_eq_nil_iff]; intro _ _; simp
  simp [hnil]

end Corro.Ivm
