/-
C03 helper lemmas: a partially held version is resolved by what a holder answers
(`partial_resolved_by_holder`).  Here: the `Empty` answer, computed directly.
-/
import Corro.Lemmas.NodeRestart
namespace Corro.Node
open Corro.Crdt Corro.Needs

theorem sup_singleton (a b : Nat) : sup [(a, b)] = b := by
  simp [sup, Nat.max_def]

/-- after `insert_db`, no inserted version is needed -/
theorem insertDb_not_needed (b : Booked) (hw : RSet.WF b.needed) (vs : List (Nat × Nat))
    (hvs : ∀ r ∈ vs, r.1 ≤ r.2) (v : Nat) (hv : ∃ r ∈ vs, r.1 ≤ v ∧ v ≤ r.2) :
    ¬ RSet.Mem (b.insertDb vs).needed v := by
  unfold Booked.insertDb
  split
  · rename_i he
    obtain ⟨r, hr, _⟩ := hv
    have : vs = [] := List.isEmpty_iff.mp he
    rw [this] at hr; cases hr
  · simp only
    have hw1 : RSet.WF (if b.max + 1 ≤ sup vs then RSet.insert b.needed (b.max + 1, sup vs) else b.needed) := by
      split
      · rename_i h; exact RSet.insert_wf _ _ _ h hw
      · exact hw
    rw [RSet.mem_removeAll _ _ hw1 hvs]
    intro h; exact h.2 hv

theorem dedupeBatch_single (it : Item) : dedupeBatch [it] = [it] := rfl

theorem dedupSorted_single (a : Nat) : dedupSorted [a] = [a] := rfl

/-- a whole version held only as an incomplete partial is not "contained" (the fix) -/
theorem contains_none_incomplete (b : Booked) (v : Nat) (p : Partial) (hp : b.partial? v = some p)
    (hc : p.complete = false) : b.contains v none = false := by
  unfold Booked.contains
  rw [hp]
  simp [hc]

theorem containsAll_single (b : Booked) (v : Nat) (s : Option (Nat × Nat)) :
    b.containsAll v v s = b.contains v s := by
  unfold Booked.containsAll
  simp [show v + 1 - v = 1 by omega, List.range_succ]

theorem hasBufferedMeta_false {n : Node} {site vlo vhi : Nat} (h : hasBufferedMeta n site vlo vhi = false) :
    (∀ c ∈ n.buf, ¬ (c.site = site ∧ vlo ≤ c.dbv ∧ c.dbv ≤ vhi)) ∧
    (∀ r ∈ n.seqRows, ¬ (r.site = site ∧ vlo ≤ r.ver ∧ r.ver ≤ vhi)) := by
  unfold hasBufferedMeta at h
  simp only [Bool.or_eq_false_iff, List.any_eq_false, decide_eq_true_eq] at h
  exact h

theorem clearMeta_no_rows (n : Node) (site vlo vhi : Nat) :
    (∀ c ∈ (n.clearMeta site vlo vhi).buf, ¬ (c.site = site ∧ vlo ≤ c.dbv ∧ c.dbv ≤ vhi)) ∧
    (∀ r ∈ (n.clearMeta site vlo vhi).seqRows, ¬ (r.site = site ∧ vlo ≤ r.ver ∧ r.ver ≤ vhi)) := by
  unfold Node.clearMeta
  simp only [List.mem_filter, Bool.not_eq_true', Bool.and_eq_false_iff, beq_eq_false_iff_ne,
    decide_eq_false_iff_not]
  constructor
  · rintro c ⟨_, h⟩ ⟨h1, h2, h3⟩
    rcases h with (h | h) | h
    · exact h h1
    · exact h h2
    · exact h h3
  · rintro c ⟨_, h⟩ ⟨h1, h2, h3⟩
    rcases h with (h | h) | h
    · exact h h1
    · exact h h2
    · exact h h3

/-- the node after delivering the single `Empty` changeset `v..=v` for a version it holds as an
incomplete partial -/
theorem deliver_empty_over_partial (n : Node) (site ver : Nat) (p : Partial)
    (hp : (n.booked site).partial? ver = some p) (hc : p.complete = false) :
    let n1 := if (n.booked site).max ≤ ver then n.bumpDbv site ver else n
    let n2 := n1.setBooked site (((n.booked site).insertDb [(ver, ver)]).dropPartials ver ver)
    n.deliver [Item.empty site ver ver] =
      if hasBufferedMeta n1 site ver ver then n2.clearMeta site ver ver else n2 := by
  have hnc : (n.booked site).containsAll ver ver none = false := by
    rw [containsAll_single]; exact contains_none_incomplete _ _ _ hp hc
  have hunk : unknownOf n [Item.empty site ver ver] = [Item.empty site ver ver] := by
    unfold unknownOf
    rw [dedupeBatch_single]
    simp only [List.filter_cons, List.filter_nil, Item.site, Item.versions, Item.seqs, hnc]
    rfl
  have htx : txFold n site [Item.empty site ver ver] =
      stCleared (n.booked site) { node := n, seen := [], processed := [], clears := [] } site ver ver := by
    unfold txFold
    simp only [List.foldl_cons, List.foldl_nil]
    rw [processOne_empty, hnc]
    have : alreadySeen [] (Item.empty site ver ver) = false := by
      simp [alreadySeen, Item.versions, Item.seqs, seenGet, show ver + 1 - ver = 1 by omega, List.range_succ]
    rw [this]
    rfl
  intro n1 n2
  have hfold : deliverFold n [Item.empty site ver ver] =
      (n2, [], if hasBufferedMeta n1 site ver ver then [(site, ver, ver)] else []) := by
    unfold deliverFold
    rw [hunk]
    have hs : sitesOf [Item.empty site ver ver] = [site] := rfl
    rw [hs]
    simp only [List.foldl_cons, List.foldl_nil, actorStep]
    have hf : List.filter (fun x => decide (x.site = site)) [Item.empty site ver ver] =
        [Item.empty site ver ver] := by simp [Item.site]
    rw [hf, processActor_eq, htx]
    simp only [stCleared, List.nil_append, List.isEmpty_cons, Bool.false_eq_true, if_false, List.map_cons,
      List.map_nil, List.foldl_cons, List.foldl_nil, commitStep]
    rfl
  rw [deliver_eq', hfold]
  unfold finish
  simp only [applyAll_nil, ite_self]
  split
  · rfl
  · rfl

/-- what a holder with no live change, no buffered row and no need for the version answers -/
theorem handleNeed_part_empty (h : Node) (site ver : Nat) (seqs : List (Nat × Nat))
    (hl : (h.live site ver).isEmpty = true) (hb : h.hasBuf site ver = false)
    (hg : h.inGaps site ver = false) :
    handleNeed h site (.part ver seqs) = [Item.empty site ver ver] := by
  rw [handleNeed_part, hl, hb, hg]; rfl

/-- the `Empty` answer resolves the partial: it is dropped, its rows are cleared, it is not needed -/
theorem resolved_by_empty (n : Node) (site ver : Nat) (p : Partial)
    (hp : (n.booked site).partial? ver = some p) (hc : p.complete = false)
    (hw : RSet.WF (n.booked site).needed) :
    ((n.deliver [Item.empty site ver ver]).booked site).partial? ver = none ∧
    rowsOf (n.deliver [Item.empty site ver ver]).seqRows site ver = [] ∧
    bufOf (n.deliver [Item.empty site ver ver]).buf site ver = [] ∧
    ¬ RSet.Mem ((n.deliver [Item.empty site ver ver]).booked site).needed ver := by
  have hd := deliver_empty_over_partial n site ver p hp hc
  simp only at hd
  rw [hd]
  have hbk : ∀ m : Node, m.booked site = ((n.booked site).insertDb [(ver, ver)]).dropPartials ver ver →
      (m.booked site).partial? ver = none ∧ ¬ RSet.Mem (m.booked site).needed ver := by
    intro m hm
    rw [hm]
    refine ⟨by rw [partial?_dropPartials]; simp, ?_⟩
    rw [dropPartials_needed]
    exact insertDb_not_needed _ hw [(ver, ver)] (by simp) ver ⟨(ver, ver), by simp, Nat.le_refl _, Nat.le_refl _⟩
  have hrows : ∀ (rows : List SeqRow), (∀ r ∈ rows, ¬ (r.site = site ∧ ver ≤ r.ver ∧ r.ver ≤ ver)) →
      rowsOf rows site ver = [] := by
    intro rows h
    unfold rowsOf
    apply List.filter_eq_nil_iff.mpr
    intro r hr
    simp only [decide_eq_true_eq]
    rintro ⟨h1, h2⟩
    exact h r hr ⟨h1, by omega, by omega⟩
  have hbuf : ∀ (buf : List Chg), (∀ c ∈ buf, ¬ (c.site = site ∧ ver ≤ c.dbv ∧ c.dbv ≤ ver)) →
      bufOf buf site ver = [] := by
    intro buf h
    unfold bufOf
    apply List.filter_eq_nil_iff.mpr
    intro c hc'
    simp only [decide_eq_true_eq]
    rintro ⟨h1, h2⟩
    exact h c hc' ⟨h1, by omega, by omega⟩
  generalize (if (n.booked site).max ≤ ver then n.bumpDbv site ver else n) = n1
  by_cases hm : hasBufferedMeta n1 site ver ver = true
  · rw [if_pos hm]
    have hcl := clearMeta_no_rows
      (n1.setBooked site (((n.booked site).insertDb [(ver, ver)]).dropPartials ver ver)) site ver ver
    have := hbk ((n1.setBooked site (((n.booked site).insertDb [(ver, ver)]).dropPartials ver ver)).clearMeta
      site ver ver) (by rw [booked_clearMeta, booked_setBooked_same])
    exact ⟨this.1, hrows _ hcl.2, hbuf _ hcl.1, this.2⟩
  · rw [if_neg hm]
    have hm' := hasBufferedMeta_false (by simpa using hm)
    have := hbk (n1.setBooked site (((n.booked site).insertDb [(ver, ver)]).dropPartials ver ver))
      (by rw [booked_setBooked_same])
    refine ⟨this.1, hrows _ ?_, hbuf _ ?_, this.2⟩
    · rw [setBooked_seqRows]; exact hm'.2
    · rw [setBooked_buf]; exact hm'.1

end Corro.Node
