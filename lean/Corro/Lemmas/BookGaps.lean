/-
Helper lemmas for C02, part 2: what `compute_gaps_change` returns and what the two loops of
`insert_db` do to a canonical `needed` set whose rows are stored one-to-one in the gaps table.
-/
import Corro.Lemmas.Book

namespace Corro.Book
open Corro Corro.RSet

/-! ### the `HashSet` of removed ranges -/

theorem mem_hsInsert {l : List (Nat × Nat)} {r p : Nat × Nat} : p ∈ hsInsert l r ↔ p ∈ l ∨ p = r := by
  unfold hsInsert
  split
  · rename_i h
    have hr : r ∈ l := by simpa using h
    constructor
    · exact Or.inl
    · rintro (h1 | rfl)
      · exact h1
      · exact hr
  · simp

theorem nodup_hsInsert {l : List (Nat × Nat)} {r : Nat × Nat} (h : l.Nodup) : (hsInsert l r).Nodup := by
  unfold hsInsert
  split
  · exact h
  · rename_i hc
    have hr : r ∉ l := by simpa using hc
    rw [List.nodup_append]
    refine ⟨h, by simp, ?_⟩
    intro a ha b hb
    have : b = r := by simpa using hb
    subst this
    intro hab; subst hab; exact hr ha

/-! ### invariant of the first loop of `compute_gaps_change` -/

/-- `gs` are the "gap between max + 1 and start" ranges inserted so far. -/
structure CInv (N : RSet) (c : GapsChanges) (gs : List (Nat × Nat)) : Prop where
  wf : WF c.insertSet
  nodup : c.removeRanges.Nodup
  sub : ∀ r ∈ c.removeRanges, r ∈ N
  memI : ∀ x, Mem c.insertSet x ↔
    (∃ r ∈ c.removeRanges, r.1 ≤ x ∧ x ≤ r.2) ∨ (∃ g ∈ gs, g.1 ≤ x ∧ x ≤ g.2)

theorem CInv.add {N : RSet} {c : GapsChanges} {gs : List (Nat × Nat)} {r : Nat × Nat}
    (hN : WF N) (h : CInv N c gs) (hr : r ∈ N) : CInv N (addCollapsible c r) gs := by
  have hf := wf_forward hN r hr
  refine ⟨?_, ?_, ?_, ?_⟩
  · exact insert_wf _ r.1 r.2 hf h.wf
  · exact nodup_hsInsert h.nodup
  · intro q hq
    rcases mem_hsInsert.mp hq with h1 | rfl
    · exact h.sub q h1
    · exact hr
  · intro x
    show Mem (RSet.insert c.insertSet (r.1, r.2)) x ↔ _
    rw [mem_insert _ _ _ _ hf, h.memI]
    simp only [addCollapsible]
    constructor
    · rintro ((⟨q, hq, hx⟩ | hg) | hx)
      · exact Or.inl ⟨q, mem_hsInsert.mpr (Or.inl hq), hx⟩
      · exact Or.inr hg
      · exact Or.inl ⟨r, mem_hsInsert.mpr (Or.inr rfl), hx⟩
    · rintro (⟨q, hq, hx⟩ | hg)
      · rcases mem_hsInsert.mp hq with h1 | rfl
        · exact Or.inl (Or.inl ⟨q, h1, hx⟩)
        · exact Or.inr hx
      · exact Or.inl (Or.inr hg)

theorem addAll_spec {N : RSet} {gs : List (Nat × Nat)} (hN : WF N) :
    ∀ (l : List (Nat × Nat)) (c : GapsChanges), CInv N c gs → (∀ r ∈ l, r ∈ N) →
      CInv N (l.foldl addCollapsible c) gs ∧ (l.foldl addCollapsible c).max = c.max ∧
      (∀ q, q ∈ (l.foldl addCollapsible c).removeRanges ↔ q ∈ c.removeRanges ∨ q ∈ l) := by
  intro l
  induction l with
  | nil => intro c h _; simp [h]
  | cons r t ih =>
    intro c h hl
    have h1 := CInv.add hN h (hl r (by simp))
    obtain ⟨i1, i2, i3⟩ := ih (addCollapsible c r) h1 (fun q hq => hl q (by simp [hq]))
    simp only [List.foldl_cons]
    refine ⟨i1, by rw [i2]; rfl, ?_⟩
    intro q
    rw [i3]
    simp only [addCollapsible, mem_hsInsert, List.mem_cons]
    grind

theorem addGet_spec {N : RSet} {gs : List (Nat × Nat)} (hN : WF N) (c : GapsChanges) (x : Nat)
    (h : CInv N c gs) :
    CInv N (addGet N c x) gs ∧ (addGet N c x).max = c.max ∧
    (∀ q, q ∈ (addGet N c x).removeRanges ↔ q ∈ c.removeRanges ∨ RSet.get? N x = some q) := by
  unfold addGet
  cases hg : RSet.get? N x with
  | none => simp [h]
  | some r =>
    have hr := get?_some hg
    refine ⟨CInv.add hN h hr.1, rfl, ?_⟩
    intro q
    simp only [addCollapsible, mem_hsInsert]
    constructor
    · rintro (h1 | rfl)
      · exact Or.inl h1
      · exact Or.inr rfl
    · rintro (h1 | h1)
      · exact Or.inl h1
      · exact Or.inr (Option.some.inj h1).symm

/-- the three "collapsible" cases of one inserted range `v` -/
def Touch3 (v q : Nat × Nat) : Prop :=
  (q.1 ≤ v.2 ∧ v.1 ≤ q.2) ∨ (q.1 ≤ v.1 - 1 ∧ v.1 - 1 ≤ q.2) ∨ (q.1 ≤ v.2 + 1 ∧ v.2 + 1 ≤ q.2)

theorem stepRange_spec {N : RSet} {M : Option Nat} {c : GapsChanges} {gs : List (Nat × Nat)}
    (v : Nat × Nat) (hN : WF N) (h : CInv N c gs) :
    CInv N (stepRange N M c v) (if M.getD 0 + 1 < v.1 then gs ++ [(M.getD 0 + 1, v.1)] else gs) ∧
    (stepRange N M c v).max = optMax c.max v.2 ∧
    (∀ q ∈ c.removeRanges, q ∈ (stepRange N M c v).removeRanges) ∧
    (∀ q ∈ N, Touch3 v q → q ∈ (stepRange N M c v).removeRanges) := by
  -- c0: max updated
  have h0 : CInv N { c with max := optMax c.max v.2 } gs := ⟨h.wf, h.nodup, h.sub, h.memI⟩
  -- c1: overlapping
  obtain ⟨h1, m1, r1⟩ := addAll_spec hN (RSet.overlapping N v) _ h0
    (fun r hr => ((mem_overlapping N v r).mp hr).1)
  -- c2, c3: start - 1, end + 1
  obtain ⟨h2, m2, r2⟩ := addGet_spec hN _ (v.1 - 1) h1
  obtain ⟨h3, m3, r3⟩ := addGet_spec hN _ (v.2 + 1) h2
  have cover3 : ∀ q ∈ N, Touch3 v q →
      q ∈ (addGet N (addGet N ((RSet.overlapping N v).foldl addCollapsible
        { c with max := optMax c.max v.2 }) (v.1 - 1)) (v.2 + 1)).removeRanges := by
    intro q hq ht
    rw [r3, r2, r1]
    rcases ht with ht | ht | ht
    · exact Or.inl (Or.inl (Or.inr ((mem_overlapping N v q).mpr ⟨hq, ht.1, ht.2⟩)))
    · exact Or.inl (Or.inr (get?_of_elem hN hq ht.1 ht.2))
    · exact Or.inr (get?_of_elem hN hq ht.1 ht.2)
  have keep3 : ∀ q ∈ c.removeRanges,
      q ∈ (addGet N (addGet N ((RSet.overlapping N v).foldl addCollapsible
        { c with max := optMax c.max v.2 }) (v.1 - 1)) (v.2 + 1)).removeRanges := by
    intro q hq
    rw [r3, r2, r1]
    exact Or.inl (Or.inl (Or.inl hq))
  unfold stepRange
  by_cases hg : M.getD 0 + 1 < v.1
  · simp only [hg, if_true]
    -- c4: the gap range is inserted into the insert set only
    have hgf : (M.getD 0 + 1, v.1).1 ≤ (M.getD 0 + 1, v.1).2 := by simp; omega
    have h4 : CInv N { (addGet N (addGet N ((RSet.overlapping N v).foldl addCollapsible
        { c with max := optMax c.max v.2 }) (v.1 - 1)) (v.2 + 1)) with
        insertSet := (addGet N (addGet N ((RSet.overlapping N v).foldl addCollapsible
        { c with max := optMax c.max v.2 }) (v.1 - 1)) (v.2 + 1)).insertSet.insert (M.getD 0 + 1, v.1) }
        (gs ++ [(M.getD 0 + 1, v.1)]) := by
      refine ⟨insert_wf _ _ _ hgf h3.wf, h3.nodup, h3.sub, ?_⟩
      intro x
      rw [mem_insert _ _ _ _ hgf, h3.memI]
      simp only [List.mem_append, List.mem_singleton]
      constructor
      · rintro ((hr | ⟨g, hg1, hx⟩) | hx)
        · exact Or.inl hr
        · exact Or.inr ⟨g, Or.inl hg1, hx⟩
        · exact Or.inr ⟨_, Or.inr rfl, hx⟩
      · rintro (hr | ⟨g, hg1 | rfl, hx⟩)
        · exact Or.inl (Or.inl hr)
        · exact Or.inl (Or.inr ⟨g, hg1, hx⟩)
        · exact Or.inr hx
    obtain ⟨h5, m5, r5⟩ := addAll_spec hN (RSet.overlapping N (M.getD 0 + 1, v.1)) _ h4
      (fun r hr => ((mem_overlapping N _ r).mp hr).1)
    refine ⟨h5, ?_, ?_, ?_⟩
    · rw [m5]; show (addGet N _ (v.2 + 1)).max = _; rw [m3, m2, m1]
    · intro q hq; rw [r5]; exact Or.inl (keep3 q hq)
    · intro q hq ht; rw [r5]; exact Or.inl (cover3 q hq ht)
  · simp only [hg, if_false]
    refine ⟨h3, ?_, keep3, cover3⟩
    rw [m3, m2, m1]

theorem foldStep_spec {N : RSet} {M : Option Nat} (hN : WF N) :
    ∀ (vs : List (Nat × Nat)) (c : GapsChanges) (gs : List (Nat × Nat)), CInv N c gs →
      ∃ gs', CInv N (vs.foldl (stepRange N M) c) gs' ∧
        (vs.foldl (stepRange N M) c).max = vs.foldl (fun a v => optMax a v.2) c.max ∧
        (∀ q ∈ c.removeRanges, q ∈ (vs.foldl (stepRange N M) c).removeRanges) ∧
        (∀ v ∈ vs, ∀ q ∈ N, Touch3 v q → q ∈ (vs.foldl (stepRange N M) c).removeRanges) ∧
        (∀ g, g ∈ gs' ↔ g ∈ gs ∨ ∃ v ∈ vs, M.getD 0 + 1 < v.1 ∧ g = (M.getD 0 + 1, v.1)) := by
  intro vs
  induction vs with
  | nil => intro c gs h; exact ⟨gs, h, rfl, fun _ h => h, by simp, by simp⟩
  | cons v t ih =>
    intro c gs h
    obtain ⟨s1, s2, s3, s4⟩ := stepRange_spec (M := M) v hN h
    obtain ⟨gs', i1, i2, i3, i4, i5⟩ := ih _ _ s1
    refine ⟨gs', i1, ?_, ?_, ?_, ?_⟩
    · simp only [List.foldl_cons]; rw [i2, s2]
    · intro q hq; exact i3 q (s3 q hq)
    · intro w hw q hq ht
      rcases List.mem_cons.mp hw with rfl | hw
      · exact i3 q (s4 q hq ht)
      · exact i4 w hw q hq ht
    · intro g
      rw [i5]
      by_cases hg : M.getD 0 + 1 < v.1
      · simp only [hg, if_true, List.mem_append, List.mem_cons, exists_eq_or_imp]
        grind
      · simp only [hg, if_false, List.mem_cons, exists_eq_or_imp]
        grind

/-! ### the new head -/

/-- largest end of a list of ranges (0 for the empty list) -/
def supHi : List (Nat × Nat) → Nat
  | [] => 0
  | v :: t => max v.2 (supHi t)

theorem le_supHi {vs : List (Nat × Nat)} {v : Nat × Nat} (h : v ∈ vs) : v.2 ≤ supHi vs := by
  induction vs with
  | nil => cases h
  | cons w t ih =>
    unfold supHi
    rcases List.mem_cons.mp h with rfl | h
    · omega
    · have := ih h; omega

theorem supHi_attained {vs : List (Nat × Nat)} (h : vs ≠ []) : ∃ v ∈ vs, v.2 = supHi vs := by
  induction vs with
  | nil => exact absurd rfl h
  | cons w t ih =>
    unfold supHi
    by_cases ht : t = []
    · subst ht; exact ⟨w, by simp, by simp [supHi]⟩
    · obtain ⟨v, hv, he⟩ := ih ht
      by_cases hle : supHi t ≤ w.2
      · exact ⟨w, by simp, by omega⟩
      · exact ⟨v, by simp [hv], by omega⟩

theorem optMax_getD (m : Option Nat) (x : Nat) : optMax m x = some (max (m.getD 0) x) := by
  cases m <;> simp [optMax, Nat.max_def]

theorem optMax_fold : ∀ (vs : List (Nat × Nat)) (m : Option Nat), vs ≠ [] →
    vs.foldl (fun a v => optMax a v.2) m = some (max (m.getD 0) (supHi vs)) := by
  intro vs
  induction vs with
  | nil => intro m h; exact absurd rfl h
  | cons v t ih =>
    intro m _
    simp only [List.foldl_cons]
    by_cases ht : t = []
    · subst ht; simp [supHi, optMax_getD]
    · rw [ih _ ht, optMax_getD]; simp [supHi]

/-! ### compute_gaps_change -/

theorem computeGapsChange_spec {s : Book} {vs : RSet} (hN : WF s.needed) (hv : WF vs) (hne : vs ≠ []) :
    let ch := computeGapsChange s vs
    ch.max = some (max (s.max.getD 0) (supHi vs)) ∧
    ch.removeRanges.Nodup ∧ (∀ r ∈ ch.removeRanges, r ∈ s.needed) ∧
    (∀ v ∈ vs, ∀ q ∈ s.needed, Touch3 v q → q ∈ ch.removeRanges) ∧
    WF ch.insertSet ∧
    (∀ x, Mem ch.insertSet x ↔
      ((∃ r ∈ ch.removeRanges, r.1 ≤ x ∧ x ≤ r.2) ∨
       (s.max.getD 0 + 1 ≤ x ∧ x ≤ supHi vs ∧ ¬ Mem vs x)) ∧ ¬ Mem vs x) := by
  have hfwd := wf_forward hv
  have h0 : CInv s.needed ⟨s.max, [], []⟩ [] :=
    ⟨trivial, List.nodup_nil, by simp, by simp [mem_nil]⟩
  obtain ⟨gs', i1, i2, _, i4, i5⟩ := foldStep_spec (M := s.max) hN vs _ [] h0
  simp only [computeGapsChange]
  refine ⟨?_, i1.nodup, i1.sub, i4, removeAll_wf _ _ i1.wf hfwd, ?_⟩
  · rw [i2]; exact optMax_fold vs s.max hne
  · intro x
    rw [mem_removeAll _ _ i1.wf hfwd, i1.memI]
    have hS : (∃ r ∈ vs, r.1 ≤ x ∧ x ≤ r.2) ↔ Mem vs x := Iff.rfl
    rw [hS]
    constructor
    · rintro ⟨h1 | ⟨g, hg, hx⟩, hns⟩
      · exact ⟨Or.inl h1, hns⟩
      · rcases (i5 g).mp hg with hg | ⟨v, hv1, hlt, rfl⟩
        · cases hg
        · have := le_supHi hv1
          have := hfwd v hv1
          simp at hx
          exact ⟨Or.inr ⟨by omega, by omega, hns⟩, hns⟩
    · rintro ⟨h1 | ⟨hlo, hhi, _⟩, hns⟩
      · exact ⟨Or.inl h1, hns⟩
      · obtain ⟨v, hv1, hv2⟩ := supHi_attained hne
        have hnv : ¬ (v.1 ≤ x ∧ x ≤ v.2) := fun hh => hns ⟨v, hv1, hh⟩
        refine ⟨Or.inr ⟨(s.max.getD 0 + 1, v.1), (i5 _).mpr (Or.inr ⟨v, hv1, by omega, rfl⟩), ?_⟩, hns⟩
        simp; omega

/-! ### the two loops of insert_db -/

theorem pmRemoveRange_id {m : PMap} {r : Nat × Nat} (h : ∀ e ∈ m, ¬ (r.1 ≤ e.1 ∧ e.1 ≤ r.2)) :
    pmRemoveRange m r = m := by
  unfold pmRemoveRange
  apply List.filter_eq_self.mpr
  intro e he
  have := h e he
  simp; omega

theorem deleteLoop_ok : ∀ (rr : List (Nat × Nat)) (s : Book) (rows : Rows),
    WF s.needed → rows = s.needed → rr.Nodup → (∀ r ∈ rr, r ∈ s.needed) →
    ∃ s', deleteLoop rr s rows = .ok (s', s'.needed) ∧ WF s'.needed ∧ s'.max = s.max ∧
      (∀ q, q ∈ s'.needed ↔ q ∈ s.needed ∧ q ∉ rr) ∧
      ((∀ e ∈ s.partials, ¬ Mem s.needed e.1) → s'.partials = s.partials) := by
  intro rr
  induction rr with
  | nil =>
    intro s rows hw hr _ _
    subst hr
    exact ⟨s, rfl, hw, rfl, by simp, fun _ => rfl⟩
  | cons r t ih =>
    intro s rows hw hrows hnd hsub
    subst hrows
    have hr := hsub r (by simp)
    have hnd' := List.nodup_cons.mp hnd
    unfold deleteLoop
    simp only [rowCount_one hw hr, if_true]
    have hrem : RSet.remove s.needed r = rowDelete s.needed r := remove_exact hw hr
    have hw1 : WF (rowDelete s.needed r) := wfFrom_filter hw _
    obtain ⟨s', e1, e2, e3, e4, e5⟩ := ih
      { s with partials := pmRemoveRange s.partials r, needed := RSet.remove s.needed r }
      (rowDelete s.needed r) (by rw [hrem]; exact hw1) hrem.symm hnd'.2
      (by
        intro q hq
        show q ∈ RSet.remove s.needed r
        rw [hrem, mem_rowDelete]
        exact ⟨hsub q (by simp [hq]), fun he => hnd'.1 (he ▸ hq)⟩)
    refine ⟨s', e1, e2, e3, ?_, ?_⟩
    · intro q
      rw [e4]
      show q ∈ RSet.remove s.needed r ∧ q ∉ t ↔ _
      rw [hrem, mem_rowDelete]
      simp only [List.mem_cons, not_or]
      constructor
      · rintro ⟨⟨a, b⟩, c⟩; exact ⟨a, b, c⟩
      · rintro ⟨a, b, c⟩; exact ⟨⟨a, b⟩, c⟩
    · intro hp
      have hid : pmRemoveRange s.partials r = s.partials :=
        pmRemoveRange_id (fun e he hin => hp e he (mem_of_elem hr hin.1 hin.2))
      rw [e5]
      · exact hid
      · intro e he
        show ¬ Mem (RSet.remove s.needed r) e.1
        have he' : e ∈ s.partials := by
          have : e ∈ pmRemoveRange s.partials r := he
          rw [hid] at this; exact this
        rw [hrem]
        rintro ⟨p, hp1, hp2⟩
        exact hp e he' ⟨p, (mem_rowDelete.mp hp1).1, hp2⟩

theorem insertLoop_ok : ∀ (ins : List (Nat × Nat)) (lb : Nat) (s : Book) (rows : Rows),
    WF s.needed → rows = s.needed → WFfrom lb ins → (∀ r ∈ ins, Isolated s.needed r) →
    ∃ s', insertLoop ins s rows = .ok (s', s'.needed) ∧ WF s'.needed ∧ s'.max = s.max ∧
      s'.partials = s.partials ∧ (∀ q, q ∈ s'.needed ↔ q ∈ s.needed ∨ q ∈ ins) := by
  intro ins
  induction ins with
  | nil =>
    intro lb s rows hw hr _ _
    subst hr
    exact ⟨s, rfl, hw, rfl, rfl, by simp⟩
  | cons r t ih =>
    intro lb s rows hw hrows hins hiso
    subst hrows
    obtain ⟨a, b⟩ := r
    have htail := wfFrom_tail hins
    have hall := wfFrom_forall htail
    simp only [WFfrom] at hins
    have hf : (a, b).1 ≤ (a, b).2 := hins.2.1
    obtain ⟨h1, h2⟩ := insert_isolated hw hf (hiso (a, b) (by simp))
    unfold insertLoop
    simp only [h2, Bool.false_eq_true, if_false]
    obtain ⟨s', e1, e2, e3, e4, e5⟩ := ih (b + 2)
      { s with needed := RSet.insert s.needed (a, b) } (rowInsert s.needed (a, b))
      (insert_wf _ a b hf hw) h1.symm htail
      (by
        intro q hq p hp
        have hp' : p ∈ rowInsert s.needed (a, b) := by rw [← h1]; exact hp
        rcases mem_rowInsert.mp hp' with rfl | hp'
        · have := hall q hq; simp at this ⊢; omega
        · exact hiso q (by simp [hq]) p hp')
    refine ⟨s', e1, e2, e3, e4, ?_⟩
    intro q
    rw [e5]
    show q ∈ RSet.insert s.needed (a, b) ∨ q ∈ t ↔ _
    rw [h1, mem_rowInsert]
    simp only [List.mem_cons]
    grind

end Corro.Book
