/-
One actor's share of a batch (`processActor`): the per-actor consistency invariant with the scheduled
clear jobs pending (`ConsP`), assembled from the transaction invariant `TI` and the after-commit
invariant `CI`.
-/
import Corro.Lemmas.NodeCommit
namespace Corro.Node
open Corro.Crdt

theorem hasRows_of_seqMem {rows : List SeqRow} {n : Node} (h : n.seqRows = rows) {a v x : Nat}
    (hm : SeqMem rows a v x) : HasRows n a v := by
  obtain ⟨r, hr, hs, hv, _⟩ := hm
  exact ⟨r, by rw [h]; exact hr, hs, hv⟩

theorem seqMem_of_hasRows {n : Node} {a v : Nat} (hf : ∀ r ∈ n.seqRows, r.site = a → r.lo ≤ r.hi)
    (h : HasRows n a v) : ∃ x, SeqMem n.seqRows a v x := by
  obtain ⟨r, hr, hs, hv⟩ := h
  exact ⟨r.lo, r, hr, hs, hv, Nat.le_refl _, hf r hr hs⟩

/-- the versions processed in the transaction, as handed to `insert_db` -/
def procRanges (st : TxSt) : List (Nat × Nat) := st.processed.map (fun p => (p.vlo, p.vhi))

/-- the bookkeeping of the actor after `insert_db` and the after-commit fold, and the applies -/
def committed (n : Node) (site : Nat) (st : TxSt) : Booked × List (Nat × Nat) :=
  st.processed.foldl (commitStep site) ((n.booked site).insertDb (procRanges st), [])

theorem b0_le_b1 (b : Booked) (vs : List (Nat × Nat)) : b.max ≤ (b.insertDb vs).max := by
  unfold Booked.insertDb
  split
  · exact Nat.le_refl _
  · exact Nat.le_max_left _ _

section
variable {L : Nat → Nat → Nat} {n : Node} {site : Nat} {st : TxSt}

theorem procOK (_hc : ConsA L n site) (h : TI L n site st) :
    ProcOK L site ((n.booked site).insertDb (procRanges st)) st.processed := by
  refine ⟨h.pw, ?_, ?_⟩
  · intro e he q hq
    have := (h.shape e he).2 q hq
    exact ⟨this.2.1, this.2.2.1⟩
  · intro e he
    have hne : procRanges st ≠ [] := by
      intro hnil
      have : (e.vlo, e.vhi) ∈ procRanges st := List.mem_map.mpr ⟨e, he, rfl⟩
      rw [hnil] at this; cases this
    rw [insertDb_max _ _ hne]
    have h1 : e.vhi ≤ sup (procRanges st) := le_sup (r := (e.vlo, e.vhi)) (List.mem_map.mpr ⟨e, he, rfl⟩)
    have h2 := (h.shape e he).1
    have h3 : sup (procRanges st) ≤ Nat.max (n.booked site).max (sup (procRanges st)) := Nat.le_max_right _ _
    omega

theorem committed_CI (hc : ConsA L n site) (h : TI L n site st) :
    CI L site ((n.booked site).insertDb (procRanges st)) st.processed (committed n site st) := by
  unfold committed
  apply commitFold_CI (insertDb_pwf hc.pwf _) (insertDb_keysSorted hc.keys _)
  · intro v p hp; rw [partial?_insertDb] at hp; exact hc.part_last v p hp
  · exact procOK hc h

/-- inside the transaction, `(site, v)` has rows iff it had before or a chunk of `v` was buffered -/
theorem TI.hasRows_iff (hc : ConsA L n site) (h : TI L n site st) (v : Nat) :
    HasRows st.node site v ↔
      HasRows n site v ∨ ∃ e ∈ st.processed, e.vlo = v ∧ e.part.isSome = true := by
  constructor
  · intro hr
    obtain ⟨x, hx⟩ := seqMem_of_hasRows (fun r hr hs => (h.rows_fwd r hr hs).1) hr
    rcases (h.seqmem v x).mp hx with h1 | ⟨e, he, h1, q, h2, _⟩
    · exact Or.inl (hasRows_of_seqMem rfl h1)
    · exact Or.inr ⟨e, he, h1, by rw [h2]; rfl⟩
  · rintro (hr | ⟨e, he, h1, h2⟩)
    · obtain ⟨x, hx⟩ := seqMem_of_hasRows (fun r hr hs => (hc.rows_fwd r hr hs).1) hr
      exact hasRows_of_seqMem rfl ((h.seqmem v x).mpr (Or.inl hx))
    · cases hq : e.part with
      | none => rw [hq] at h2; cases h2
      | some q =>
        obtain ⟨x, hx⟩ := ((h.shape e he).2 q hq).2.2.2.2
        exact hasRows_of_seqMem rfl ((h.seqmem v x).mpr (Or.inr ⟨e, he, h1, q, hq, hx⟩))

/-- a version covered by a scheduled clear job was cleared / completed in the transaction -/
theorem TI.covered_noneCov (h : TI L n site st) {v : Nat} (hv : Covered (st.clears.map (·.2)) v) :
    NoneCov st.processed v := by
  obtain ⟨c, hc, h1, h2⟩ := hv
  obtain ⟨c', hc', rfl⟩ := List.mem_map.mp hc
  obtain ⟨_, e, he, hn, h3, h4⟩ := h.clearsFrom c' hc'
  exact ⟨e, he, hn, by omega, by omega⟩

/-- the assembled statement: a node with the durable state of the end of the transaction and the
committed bookkeeping for `site` is consistent for `site`, the scheduled clear jobs pending -/
theorem cons_after_tx (hc : ConsA L n site) (h : TI L n site st) (N : Node)
    (hrows : N.seqRows = st.node.seqRows) (hbuf : N.buf = st.node.buf)
    (hdbv : dbvOf N site = dbvOf st.node site) (hbk : N.booked site = (committed n site st).1) :
    ConsP L N site (st.clears.map (·.2)) := by
  have hci := committed_CI hc h
  have hpo := procOK hc h
  have hb1p : ∀ v, ((n.booked site).insertDb (procRanges st)).partial? v = (n.booked site).partial? v :=
    fun v => partial?_insertDb _ _ _
  have hHR : ∀ v, HasRows N site v ↔ HasRows st.node site v := by
    intro v; unfold HasRows; rw [hrows]
  have hfwdP : ∀ r ∈ procRanges st, r.1 ≤ r.2 := by
    intro r hr
    obtain ⟨e, he, rfl⟩ := List.mem_map.mp hr
    exact (h.shape e he).1
  have hmaxle := b0_le_b1 (n.booked site) (procRanges st)
  -- no some-entry for a version whose old partial is complete
  have hnosome : ∀ v p0, (n.booked site).partial? v = some p0 → p0.complete = true →
      ¬ ∃ e ∈ st.processed, e.vlo = v ∧ e.part.isSome = true := by
    rintro v p0 hp0 hcomp ⟨e, he, h1, h2⟩
    cases hq : e.part with
    | none => rw [hq] at h2; cases h2
    | some q =>
      have := ((h.shape e he).2 q hq).2.2.2.1 p0 (by rw [h1]; exact hp0)
      rw [hcomp] at this; cases this
  refine ⟨by rw [hbk]; exact hci.pwf, by rw [hbk]; exact hci.keys, by rw [hrows]; exact h.rows_fwd,
    ?_, ?_, ?_, ?_, by rw [hrows, hbuf]; exact h.buf_cov, ?_, ?_, ?_, ?_, ?_⟩
  · intro v p hp; rw [hbk] at hp; exact (hci.mem v p hp).2
  · -- rows_part
    intro v hv
    rw [hHR] at hv
    by_cases hnc : NoneCov st.processed v
    · left
      obtain ⟨e, he, hn, h1, h2⟩ := hnc
      obtain ⟨c, hcm, h3⟩ := h.cleared e he hn v h1 h2 (Or.inl hv)
      exact ⟨c.2, List.mem_map.mpr ⟨c, hcm, rfl⟩, h3⟩
    · right
      have hsome : ((committed n site st).1.partial? v).isSome = true := by
        rw [hci.some_iff v hnc, hb1p]
        rcases (h.hasRows_iff hc v).mp hv with h1 | h1
        · left
          rcases hc.rows_part v h1 with h2 | ⟨p0, hp0, _⟩
          · exact absurd h2 (not_covered_nil v)
          · rw [hp0]; rfl
        · exact Or.inr h1
      cases hp : (committed n site st).1.partial? v with
      | none => rw [hp] at hsome; cases hsome
      | some p =>
        refine ⟨p, by rw [hbk]; exact hp, ?_⟩
        intro x
        rw [(hci.mem v p hp).1 x, hrows, h.seqmem v x, hb1p]
        constructor
        · rintro (⟨p0, hp0, hm⟩ | h1)
          · by_cases hrn : HasRows n site v
            · rcases hc.rows_part v hrn with h2 | ⟨p0', hp0', hm'⟩
              · exact absurd h2 (not_covered_nil v)
              · rw [hp0] at hp0'; cases hp0'
                exact Or.inl ((hm' x).mp hm)
            · exfalso
              have hcomp := hc.norows_part v p0 hp0 hrn
              rcases (h.hasRows_iff hc v).mp hv with h2 | h2
              · exact hrn h2
              · exact hnosome v p0 hp0 hcomp h2
          · exact Or.inr h1
        · rintro (h1 | h1)
          · left
            rcases hc.rows_part v (hasRows_of_seqMem rfl h1) with h2 | ⟨p0, hp0, hm⟩
            · exact absurd h2 (not_covered_nil v)
            · exact ⟨p0, hp0, (hm x).mpr h1⟩
          · exact Or.inr h1
  · -- norows_part
    intro v p hp hnr
    rw [hbk] at hp
    rw [hHR] at hnr
    have hnc : ¬ NoneCov st.processed v := by
      intro hcov; rw [hci.none_cov v hcov] at hp; cases hp
    have hnoe : ¬ ∃ e ∈ st.processed, e.vlo = v ∧ e.part.isSome = true :=
      fun he => hnr ((h.hasRows_iff hc v).mpr (Or.inr he))
    have hnrn : ¬ HasRows n site v := fun hr => hnr ((h.hasRows_iff hc v).mpr (Or.inl hr))
    have hs : ((committed n site st).1.partial? v).isSome = true := by rw [hp]; rfl
    rw [hci.some_iff v hnc, hb1p] at hs
    rcases hs with hs | hs
    · cases hp0 : (n.booked site).partial? v with
      | none => rw [hp0] at hs; cases hs
      | some p0 =>
        have hcomp := hc.norows_part v p0 hp0 hnrn
        have hw0 := hc.pwf.of_partial? hp0
        have hw := hci.pwf.of_partial? hp
        rw [complete_iff hw, (hci.mem v p hp).2]
        intro x hx
        rw [(hci.mem v p hp).1 x, hb1p]
        left
        refine ⟨p0, hp0, (complete_iff hw0).mp hcomp x ?_⟩
        rw [hc.part_last v p0 hp0]; exact hx
    · exact absurd hs hnoe
  · -- cleared_none
    intro v hv
    rw [hbk]; exact hci.none_cov v (h.covered_noneCov hv)
  · -- dbv_le
    rw [hdbv, hbk, hci.max]
    rcases h.dbv_le with h1 | ⟨e, he, h1⟩
    · have := hc.dbv_le; omega
    · have := hpo.le_max e he
      have hne : procRanges st ≠ [] := by
        intro hnil
        have : (e.vlo, e.vhi) ∈ procRanges st := List.mem_map.mpr ⟨e, he, rfl⟩
        rw [hnil] at this; cases this
      rw [insertDb_max _ _ hne]
      have h2 : e.vhi ≤ sup (procRanges st) := le_sup (r := (e.vlo, e.vhi)) (List.mem_map.mpr ⟨e, he, rfl⟩)
      have h3 : sup (procRanges st) ≤ Nat.max (n.booked site).max (sup (procRanges st)) := Nat.le_max_right _ _
      omega
  · -- rows_le
    intro r hr hs
    rw [hbk, hci.max]
    rw [hrows] at hr
    have hhr : HasRows st.node site r.ver := ⟨r, hr, hs, rfl⟩
    rcases (h.hasRows_iff hc r.ver).mp hhr with ⟨r', hr', hs', hv'⟩ | ⟨e, he, h1, _⟩
    · have := hc.rows_le r' hr' hs'; omega
    · have := hpo.le_max e he; omega
  · -- max_att
    rw [hbk, hci.max, hdbv]
    -- evidence that survives the pending clears
    have hev0 : (n.booked site).max ≤ dbvOf st.node site ∨
        ∃ r ∈ N.seqRows, r.site = site ∧ (n.booked site).max ≤ r.ver ∧
          ¬ Covered (st.clears.map (·.2)) r.ver := by
      rcases hc.max_att with h1 | ⟨r, hr, hs, h1, _⟩
      · left; have := h.dbv_ge; omega
      · have hhr : HasRows st.node site r.ver := (h.hasRows_iff hc r.ver).mpr (Or.inl ⟨r, hr, hs, rfl⟩)
        obtain ⟨r', hr', hs', hv'⟩ := hhr
        by_cases hcov : Covered (st.clears.map (·.2)) r.ver
        · left
          obtain ⟨e, he, hn, h2, h3⟩ := h.covered_noneCov hcov
          have := h.dbv_none e he hn (by omega)
          omega
        · right
          exact ⟨r', by rw [hrows]; exact hr', hs', by omega, by rw [hv']; exact hcov⟩
    have hevP : ∀ e ∈ st.processed, e.vhi ≤ (n.booked site).max ∨ e.vhi ≤ dbvOf st.node site ∨
        ∃ r ∈ N.seqRows, r.site = site ∧ e.vhi ≤ r.ver ∧ ¬ Covered (st.clears.map (·.2)) r.ver := by
      intro e he
      cases hq : e.part with
      | none =>
        by_cases hm : (n.booked site).max ≤ e.vhi
        · exact Or.inr (Or.inl (h.dbv_none e he hq hm))
        · left; omega
      | some q =>
        have hsh := (h.shape e he).2 q hq
        have hhr : HasRows st.node site e.vlo :=
          (h.hasRows_iff hc e.vlo).mpr (Or.inr ⟨e, he, rfl, by rw [hq]; rfl⟩)
        obtain ⟨r', hr', hs', hv'⟩ := hhr
        by_cases hcov : Covered (st.clears.map (·.2)) e.vlo
        · obtain ⟨e', he', hn', h2, h3⟩ := h.covered_noneCov hcov
          by_cases hm : (n.booked site).max ≤ e'.vhi
          · have := h.dbv_none e' he' hn' hm
            right; left; omega
          · left; omega
        · right; right
          exact ⟨r', by rw [hrows]; exact hr', hs', by omega, by rw [hv']; exact hcov⟩
    by_cases hnil : procRanges st = []
    · have : (n.booked site).insertDb (procRanges st) = n.booked site := by
        unfold Booked.insertDb; rw [hnil]; rfl
      rw [this]; exact hev0
    · rw [insertDb_max _ _ hnil]
      have hmx : ∀ x y : Nat, Nat.max x y = Max.max x y := fun _ _ => rfl
      rw [hmx]
      rcases sup_attained (procRanges st) with h0 | ⟨r, hr, h1⟩
      · rw [h0, Nat.max_eq_left (Nat.zero_le _)]; exact hev0
      · obtain ⟨e, he, rfl⟩ := List.mem_map.mp hr
        simp only at h1
        by_cases hle : sup (procRanges st) ≤ (n.booked site).max
        · rw [Nat.max_eq_left hle]; exact hev0
        · rw [Nat.max_eq_right (by omega), h1]
          rcases hevP e he with h2 | h2 | h2
          · omega
          · exact Or.inl h2
          · exact Or.inr h2
  · -- needed_wf
    rw [hbk, hci.needed]
    exact insertDb_needed_wf hc.needed_wf _ hfwdP
  · -- part_known
    intro v p hp
    rw [hbk] at hp
    rw [hbk, hci.max, hci.needed]
    have hnc : ¬ NoneCov st.processed v := by
      intro hcov; rw [hci.none_cov v hcov] at hp; cases hp
    have hs : ((committed n site st).1.partial? v).isSome = true := by rw [hp]; rfl
    rw [hci.some_iff v hnc, hb1p] at hs
    rcases hs with hs | ⟨e, he, h1, h2⟩
    · cases hp0 : (n.booked site).partial? v with
      | none => rw [hp0] at hs; cases hs
      | some p0 =>
        have hk := hc.part_known v p0 hp0
        refine ⟨by omega, ?_⟩
        by_cases hnil : procRanges st = []
        · have : (n.booked site).insertDb (procRanges st) = n.booked site := by
            unfold Booked.insertDb; rw [hnil]; rfl
          rw [this]; exact hk.2
        · rw [mem_insertDb_needed hc.needed_wf _ hfwdP hnil]
          rintro ⟨h3 | h3, _⟩
          · exact hk.2 h3
          · omega
    · refine ⟨by rw [← h1]; exact hpo.le_max e he, ?_⟩
      apply insertDb_not_needed _ hc.needed_wf _ hfwdP
      exact ⟨(e.vlo, e.vhi), List.mem_map.mpr ⟨e, he, rfl⟩, by simp only; omega,
        by have := (h.shape e he).1; simp only; omega⟩

end

end Corro.Node
