/-
C01, protocol level, BATCHES AND CRASHES — the runs of the ONE-CHANGESET-PER-BATCH model with crashes
(`Crash.ReachC`, `Props/C01ClusterCrash.lean`) are, node for node, runs of the batched model with
crashes (`Full.ReachF`): a delivery of one changeset is the batch `[it]` (`Node.deliver [it]` is the
same call), a session delivering the answers `keep` one at a time is the session with the batches
`[[ans k₁], [ans k₂], …]`.  The simulation is stated on the node states and the log (`SameNL`); the
ghost lists of the two models are different bookkeepings of the same merges and are not compared.
-/
import Corro.Lemmas.ClusterFullStep

namespace Corro.ClusterSys.Full
open Corro.Crdt Corro.Node

/-- the step of the batched model that does what `op` does -/
def liftOp : Op → OpB
  | .write i stmts => .write i stmts
  | .deliverOrigin i site ver lo hi => .deliverOrigins i [(site, ver, lo, hi)]
  | .sync i j keep => .syncB i j (keep.map (fun k => [Pick.ans k]))
  | .kill i => .kill i
  | .restart i => .restart i

/-- same nodes, same log (the ghost lists may differ) -/
def SameNL (c' c : Cluster) : Prop := c'.nodes = c.nodes ∧ c'.log = c.log

theorem deliver_nil (n : Node) : n.deliver [] = n := by
  show (if n.alive = true then n else n) = n
  split <;> rfl

theorem set_self {α : Type} (l : List α) (i : Nat) (x : α) (h : l[i]? = some x) : l.set i x = l := by
  apply List.ext_getElem?
  intro j
  by_cases hij : i = j
  · subst hij
    rw [List.getElem?_set_self (List.getElem?_eq_some_iff.mp h).1, h]
  · rw [List.getElem?_set_ne hij]

theorem setNode_nodes (c : Cluster) (i : Nat) (s : Node × List Chg) : (c.setNode i s).nodes = c.nodes.set i s.1 := rfl

theorem setNode_log (c : Cluster) (i : Nat) (s : Node × List Chg) : (c.setNode i s).log = c.log := rfl

theorem foldB_singletons_fst (L : Log) (ans : List Item) (keep : List Nat) (s s' : Node × List Chg)
    (h : s'.1 = s.1) :
    (((keep.map (fun k => [Pick.ans k])).map (pickBatch L ans)).foldl deliverB s').1 =
      ((pick ans keep).foldl deliverOne s).1 := by
  induction keep generalizing s s' with
  | nil => exact h
  | cons k keep ih =>
    simp only [List.map_cons, List.foldl_cons]
    unfold pick
    rw [List.filterMap_cons]
    cases hk : ans[k]? with
    | none =>
      have hb : pickBatch L ans [Pick.ans k] = [] := by
        unfold pickBatch
        simp [hk]
      rw [hb]
      exact ih s (deliverB s' []) (by show s'.1.deliver [] = s.1; rw [deliver_nil]; exact h)
    | some it =>
      have hb : pickBatch L ans [Pick.ans k] = [it] := by
        unfold pickBatch
        simp [hk]
      rw [hb]
      simp only [List.foldl_cons]
      exact ih (deliverOne s it) (deliverB s' [it]) (by
        show s'.1.deliver [it] = s.1.deliver [it]
        rw [h])

/-- **one step**: from states with the same nodes and log, `stepB (liftOp op)` and `step op` lead to
states with the same nodes and log -/
theorem stepB_lift {c' c : Cluster} (h : SameNL c' c) (op : Op) : SameNL (stepB c' (liftOp op)) (step c op) := by
  obtain ⟨hn, hl⟩ := h
  cases op with
  | write i stmts =>
    show SameNL (step c' (.write i stmts)) (step c (.write i stmts))
    rw [step_write, step_write, hn]
    cases hi : c.nodes[i]? with
    | none => exact ⟨hn, hl⟩
    | some n =>
      simp only
      split
      · exact ⟨rfl, by simp only [hl]⟩
      · exact ⟨hn, hl⟩
  | deliverOrigin i site ver lo hi =>
    show SameNL (stepB c' (.deliverOrigins i [(site, ver, lo, hi)])) _
    rw [stepB_deliverOrigins, step_deliverOrigin, hn]
    cases hi' : c.nodes[i]? with
    | none => exact ⟨hn, hl⟩
    | some n =>
      simp only
      have hob : originBatch c'.log [(site, ver, lo, hi)] =
          if originValid c.log site ver lo hi then [originItem c.log site ver lo hi] else [] := by
        rw [hl]
        unfold originBatch
        cases hv : originValid c.log site ver lo hi <;> simp [hv]
      have hval : originValid c.log site ver lo hi =
          (c.log.has site ver && decide (lo ≤ hi) && decide (hi ≤ maxSeq (c.log.get site ver))) := rfl
      rw [hob, hval]
      split
      · exact ⟨by rw [setNode_nodes, setNode_nodes, hn]; rfl, by rw [setNode_log, setNode_log, hl]⟩
      · refine ⟨?_, by rw [setNode_log, hl]⟩
        rw [setNode_nodes, hn]
        show c.nodes.set i (n.deliver []) = c.nodes
        rw [deliver_nil]
        exact set_self _ _ _ hi'
  | sync i j keep =>
    show SameNL (stepB c' (.syncB i j (keep.map (fun k => [Pick.ans k])))) _
    rw [stepB_syncB, step_sync, hn]
    cases hi : c.nodes[i]? with
    | none => exact ⟨hn, hl⟩
    | some ni =>
      cases hj : c.nodes[j]? with
      | none => exact ⟨hn, hl⟩
      | some nj =>
        simp only
        split
        · exact ⟨hn, hl⟩
        · refine ⟨?_, by rw [setNode_log, setNode_log, hl]⟩
          rw [setNode_nodes, setNode_nodes, hn,
            foldB_singletons_fst c'.log (answers ni nj) keep (ni, c.R i) (ni, c'.R i) rfl]
  | kill i =>
    show SameNL (step c' (.kill i)) (step c (.kill i))
    rw [step_kill, step_kill, hn]
    cases hi : c.nodes[i]? with
    | none => exact ⟨hn, hl⟩
    | some n => exact ⟨by simp only [setNode_nodes, hn], by simp only [setNode_log, hl]⟩
  | restart i =>
    show SameNL (step c' (.restart i)) (step c (.restart i))
    rw [step_restart, step_restart, hn]
    cases hi : c.nodes[i]? with
    | none => exact ⟨hn, hl⟩
    | some n => exact ⟨by simp only [setNode_nodes, hn], by simp only [setNode_log, hl]⟩

theorem opOKB_lift {c' c : Cluster} (h : SameNL c' c) {op : Op} (hok : OpOK c op) : OpOKB c' (liftOp op) := by
  cases op with
  | write i stmts =>
    show OpOK c' (.write i stmts)
    have h' : (match c.nodes[i]? with | some n => WriteAgrees n.db stmts | none => True) := hok
    show (match c'.nodes[i]? with | some n => WriteAgrees n.db stmts | none => True)
    rw [h.1]; exact h'
  | deliverOrigin => trivial
  | sync => trivial
  | kill => trivial
  | restart => trivial

theorem serverCleanB_lift {c' c : Cluster} (h : SameNL c' c) {op : Op} (hcl : Crash.serverClean c op = true) :
    serverCleanB c' (liftOp op) = true := by
  cases op with
  | sync i j keep =>
    show (match c'.nodes[j]? with | some nj => nodeClean nj | none => true) = true
    rw [h.1]; exact hcl
  | write => rfl
  | deliverOrigin => rfl
  | kill => rfl
  | restart => rfl

/-- **every run of the one-changeset-per-batch model with crashes is, node for node, a run of the
batched model with crashes** -/
theorem reachF_of_reachC {k : Nat} {c : Cluster} (h : Crash.ReachC k c) : ∃ c', ReachF k c' ∧ SameNL c' c := by
  induction h with
  | init => exact ⟨_, ReachF.init, rfl, rfl⟩
  | @step c op _ hok hcl ih =>
    obtain ⟨c', hr, hs⟩ := ih
    exact ⟨_, ReachF.step (liftOp op) hr (opOKB_lift hs hok) (serverCleanB_lift hs hcl), stepB_lift hs op⟩

end Corro.ClusterSys.Full
