/-
C19 helper lemmas: what `backup` and `adopt` do to the site table and to look-ups through it.
-/
import Corro.Lemmas.Backup

namespace Corro.Backup

/-- the site table `backup` leaves behind -/
def backupSites (sites : List (Nat × Site)) (self : Site) : List (Nat × Site) :=
  sites.filter (fun p => p.1 != 0) ++ [(nextOrd (sites.filter (fun p => p.1 != 0)), self)]

theorem mem_backupSites {sites : List (Nat × Site)} {self : Site} {o : Nat} {s : Site} :
    (o, s) ∈ backupSites sites self ↔
      ((o, s) ∈ sites ∧ o ≠ 0) ∨ (o = nextOrd (sites.filter (fun p => p.1 != 0)) ∧ s = self) := by
  unfold backupSites
  simp [List.mem_append, List.mem_filter]

theorem rest_lt_next {sites : List (Nat × Site)} {o : Nat} {s : Site} (h : (o, s) ∈ sites) (ho : o ≠ 0) :
    o < nextOrd (sites.filter (fun p => p.1 != 0)) := by
  have := (nextOrd_fresh (sites.filter (fun p => p.1 != 0))).1 (o, s)
    (by simp [List.mem_filter, h, ho])
  exact this

theorem backupSites_ordsKey {sites : List (Nat × Site)} {self : Site} (hk : OrdsKey sites) :
    OrdsKey (backupSites sites self) := by
  intro p hp q hq e
  obtain ⟨po, ps⟩ := p
  obtain ⟨qo, qs⟩ := q
  simp only at e
  subst e
  rcases mem_backupSites.mp hp with ⟨h1, h1'⟩ | ⟨h1, h1'⟩ <;>
  rcases mem_backupSites.mp hq with ⟨h2, h2'⟩ | ⟨h2, h2'⟩
  · exact hk _ h1 _ h2 rfl
  · have := rest_lt_next h1 h1'; omega
  · have := rest_lt_next h2 h2'; omega
  · subst h1' h2'; rfl

theorem backupSites_sitesKey {sites : List (Nat × Site)} {self : Site} (hs : SitesKey sites)
    (h0 : (0, self) ∈ sites) : SitesKey (backupSites sites self) := by
  intro p hp q hq e
  obtain ⟨po, ps⟩ := p
  obtain ⟨qo, qs⟩ := q
  simp only at e
  subst e
  rcases mem_backupSites.mp hp with ⟨h1, h1'⟩ | ⟨h1, h1'⟩ <;>
  rcases mem_backupSites.mp hq with ⟨h2, h2'⟩ | ⟨h2, h2'⟩
  · exact hs _ h1 _ h2 rfl
  · subst h2'
    have := hs _ h1 _ h0 rfl
    simp only [Prod.mk.injEq] at this
    exact absurd this.1 h1'
  · subst h1'
    have := hs _ h2 _ h0 rfl
    simp only [Prod.mk.injEq] at this
    exact absurd this.1 h2'
  · subst h1 h2; rfl

theorem backupSites_zero {sites : List (Nat × Site)} {self : Site} :
    siteOf (backupSites sites self) 0 = none := by
  rw [siteOf_eq_none]
  intro p hp e
  obtain ⟨po, ps⟩ := p
  simp only at e
  subst e
  rcases mem_backupSites.mp hp with ⟨_, h⟩ | ⟨h, _⟩
  · exact h rfl
  · have := (nextOrd_fresh (sites.filter (fun p => p.1 != 0))).2; omega

theorem backupSites_moved {sites : List (Nat × Site)} {self : Site} (hk : OrdsKey sites) :
    siteOf (backupSites sites self) (nextOrd (sites.filter (fun p => p.1 != 0))) = some self := by
  rw [siteOf_eq_some (backupSites_ordsKey hk)]
  exact mem_backupSites.mpr (Or.inr ⟨rfl, rfl⟩)

theorem backupSites_keep {sites : List (Nat × Site)} {self : Site} (hk : OrdsKey sites) {o : Nat}
    (ho : o ≠ 0) (hres : (siteOf sites o).isSome) :
    siteOf (backupSites sites self) o = siteOf sites o := by
  obtain ⟨s0, hs0⟩ := Option.isSome_iff_exists.mp hres
  have hm0 := siteOf_some_mem hs0
  have hlt := rest_lt_next hm0 ho
  apply opt_ext
  intro s
  rw [siteOf_eq_some (backupSites_ordsKey hk), siteOf_eq_some hk, mem_backupSites]
  constructor
  · rintro (⟨h, _⟩ | ⟨h, _⟩)
    · exact h
    · omega
  · intro h; exact Or.inl ⟨h, ho⟩

/-! ### adopt -/

/-- the site table `restore --self-actor-id` / `--actor-id a` leaves in the snapshot -/
def adoptSites (sites : List (Nat × Site)) (a : Site) : List (Nat × Site) :=
  (sites.filter (fun p => p.2 != a)).filter (fun p => p.1 != 0) ++ [(0, a)]

theorem mem_adoptSites {sites : List (Nat × Site)} {a : Site} {o : Nat} {s : Site} :
    (o, s) ∈ adoptSites sites a ↔ ((o, s) ∈ sites ∧ s ≠ a ∧ o ≠ 0) ∨ (o = 0 ∧ s = a) := by
  unfold adoptSites
  simp only [List.mem_append, List.mem_filter, List.mem_singleton, Prod.mk.injEq, bne_iff_ne, ne_eq]
  constructor
  · rintro (⟨⟨h1, h2⟩, h3⟩ | h)
    · exact Or.inl ⟨h1, h2, h3⟩
    · exact Or.inr h
  · rintro (⟨h1, h2, h3⟩ | h)
    · exact Or.inl ⟨⟨h1, h2⟩, h3⟩
    · exact Or.inr h

theorem adoptSites_ordsKey {sites : List (Nat × Site)} {a : Site} (hk : OrdsKey sites) :
    OrdsKey (adoptSites sites a) := by
  intro p hp q hq e
  obtain ⟨po, ps⟩ := p
  obtain ⟨qo, qs⟩ := q
  simp only at e
  subst e
  rcases mem_adoptSites.mp hp with ⟨h1, _, h1'⟩ | ⟨h1, h1'⟩ <;>
  rcases mem_adoptSites.mp hq with ⟨h2, _, h2'⟩ | ⟨h2, h2'⟩
  · exact hk _ h1 _ h2 rfl
  · exact absurd h2 h1'
  · exact absurd h1 h2'
  · subst h1' h2'; rfl

theorem adoptSites_sitesKey {sites : List (Nat × Site)} {a : Site} (hs : SitesKey sites) :
    SitesKey (adoptSites sites a) := by
  intro p hp q hq e
  obtain ⟨po, ps⟩ := p
  obtain ⟨qo, qs⟩ := q
  simp only at e
  subst e
  rcases mem_adoptSites.mp hp with ⟨h1, h1a, _⟩ | ⟨h1, h1'⟩ <;>
  rcases mem_adoptSites.mp hq with ⟨h2, h2a, _⟩ | ⟨h2, h2'⟩
  · exact hs _ h1 _ h2 rfl
  · exact absurd h2' h1a
  · exact absurd h1' h2a
  · subst h1 h2; rfl

theorem adoptSites_zero {sites : List (Nat × Site)} {a : Site} (hk : OrdsKey sites) :
    siteOf (adoptSites sites a) 0 = some a := by
  rw [siteOf_eq_some (adoptSites_ordsKey hk)]
  exact mem_adoptSites.mpr (Or.inr ⟨rfl, rfl⟩)

/-- ordinals other than 0 that do not belong to `a` resolve as before -/
theorem adoptSites_keep {sites : List (Nat × Site)} {a : Site} (hk : OrdsKey sites) {o : Nat}
    (ho : o ≠ 0) (hna : ∀ s, (o, s) ∈ sites → s ≠ a) :
    siteOf (adoptSites sites a) o = siteOf sites o := by
  apply opt_ext
  intro s
  rw [siteOf_eq_some (adoptSites_ordsKey hk), siteOf_eq_some hk, mem_adoptSites]
  constructor
  · rintro (⟨h, _, _⟩ | ⟨h, _⟩)
    · exact h
    · exact absurd h ho
  · intro h; exact Or.inl ⟨h, hna s h, ho⟩

end Corro.Backup
