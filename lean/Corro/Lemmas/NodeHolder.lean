/-
C03 helper lemmas: a partially held version is resolved by what a holder with live rows answers
(`partial_resolved_by_holder`, the `Full` answers).
-/
import Corro.Lemmas.NodeCover
namespace Corro.Node
open Corro.Crdt Corro.Needs

/-- a holder with live changes answers every requested range -/
theorem livePart_isSome {h : Node} {site ver : Nat} (hl : (h.live site ver).isEmpty = false)
    (r : Nat × Nat) :
    livePart h site ver r = some (Item.full site ver r.1 r.2 (maxSeq (h.live site ver))
      ((h.live site ver).filter (fun c => r.1 ≤ c.seq ∧ c.seq ≤ r.2))) := by
  unfold livePart
  simp only
  split
  · rename_i hc
    exfalso
    simp only [Bool.and_eq_true, beq_iff_eq] at hc
    obtain ⟨⟨h1, h2⟩, h3⟩ := hc
    rcases maxSeq_attained (h.live site ver) with ⟨c, hc1, hc2⟩ | ⟨h4, _⟩
    · have : c ∈ (h.live site ver).filter (fun c => r.1 ≤ c.seq ∧ c.seq ≤ r.2) := by
        rw [List.mem_filter]
        refine ⟨hc1, ?_⟩
        simp only [decide_eq_true_eq]
        omega
      rw [List.isEmpty_iff.mp h1] at this
      cases this
    · rw [h4] at hl; cases hl
  · rfl

theorem noRows_of_not_hasRows {n : Node} {a v : Nat} (h : ¬ HasRows n a v) : rowsOf n.seqRows a v = [] := by
  unfold rowsOf
  apply List.filter_eq_nil_iff.mpr
  intro r hr
  simp only [decide_eq_true_eq]
  rintro ⟨h1, h2⟩
  exact h ⟨r, hr, h1, h2⟩

theorem noBuf_of_not_hasRows {L : Nat → Nat → Nat} {n : Node} {a v : Nat} (hc : ConsA L n a)
    (h : ¬ HasRows n a v) : bufOf n.buf a v = [] := by
  unfold bufOf
  apply List.filter_eq_nil_iff.mpr
  intro c hcm
  simp only [decide_eq_true_eq]
  rintro ⟨h1, h2⟩
  obtain ⟨r, hr1, hr2, hr3, _⟩ := hc.buf_cov c hcm h1
  exact h ⟨r, hr1, hr2, by rw [hr3, h2]⟩

/-- the receiver `n` holds `(site, ver)` as the incomplete partial `p`; the holder `h` has live
changes of the version whose largest seq is the version's `last_seq`; `n` receives, in one batch,
what `h` answers to the partial need for the gaps of `p`.  Afterwards the version is not partial any
more (no partial, or a complete one that has been applied), has no sequence rows and no buffered
rows, and is not needed. -/
theorem resolved_by_live {L : Nat → Nat → Nat} {n h : Node} {site ver : Nat} {p : Partial}
    (hc : Consistent L n) (hal : n.alive = true) (hnp : NoPending n)
    (hp : (n.booked site).partial? ver = some p)
    (hl : (h.live site ver).isEmpty = false) (hlast : maxSeq (h.live site ver) = L site ver) :
    let n' := n.deliver (handleNeed h site (.part ver (RSet.gaps p.seqs (0, p.last))))
    ((n'.booked site).partial? ver = none ∨
      ∃ q, (n'.booked site).partial? ver = some q ∧ q.complete = true) ∧
    rowsOf n'.seqRows site ver = [] ∧ bufOf n'.buf site ver = [] ∧
    ¬ RSet.Mem (n'.booked site).needed ver := by
  intro n'
  have hca := hc.actor site
  have hwp := hca.pwf.of_partial? hp
  have hpl := hca.part_last ver p hp
  have hbatch : handleNeed h site (.part ver (RSet.gaps p.seqs (0, p.last))) =
      (RSet.gaps p.seqs (0, p.last)).filterMap (livePart h site ver) := by
    rw [handleNeed_part, hl]; rfl
  have hwf : ∀ it ∈ handleNeed h site (.part ver (RSet.gaps p.seqs (0, p.last))), ItemWF L it := by
    intro it hit
    rw [hbatch] at hit
    obtain ⟨r, hr, hlp⟩ := List.mem_filterMap.mp hit
    rw [livePart_isSome hl r] at hlp
    simp only [Option.some.injEq] at hlp
    subst hlp
    have hin := RSet.gaps_inside p.seqs 0 p.last 0 hwp r hr
    refine ⟨hlast, by rw [hlast, ← hpl]; exact hin.2.2, ?_⟩
    intro c hcm
    have hcm' := List.mem_filter.mp hcm
    have := mem_live.mp hcm'.1
    simp only [decide_eq_true_eq] at hcm'
    exact ⟨this.2.1, this.2.2.1, hcm'.2.1, hcm'.2.2⟩
  have hc' : Consistent L n' := deliver_consistent' hc _ hwf
  have hnp' : NoPending n' := deliver_noPending' hc _ hwf hal hnp
  have hca' := hc'.actor site
  rcases deliver_cov hc _ hwf site ver p hp with ⟨h1, h2⟩ | ⟨q, h1, h2, h3, h4⟩
  · have hnr : ¬ HasRows n' site ver := by
      intro hr
      rcases hca'.rows_part ver hr with h5 | ⟨q, hq, _⟩
      · exact not_covered_nil ver h5
      · rw [h1] at hq; cases hq
    exact ⟨Or.inl h1, noRows_of_not_hasRows hnr, noBuf_of_not_hasRows hca' hnr, h2⟩
  · have hwq := hca'.pwf.of_partial? h1
    have hqc : q.complete = true := by
      rw [complete_iff hwq, h2]
      intro x hx
      by_cases hmx : RSet.Mem p.seqs x
      · exact h3 x hmx
      · have hg : RSet.Mem (RSet.gaps p.seqs (0, p.last)) x :=
          (RSet.mem_gaps p.seqs 0 p.last x 0 hwp).mpr ⟨⟨Nat.zero_le _, hx⟩, hmx⟩
        obtain ⟨r, hr, hx1, hx2⟩ := hg
        have hin := RSet.gaps_inside p.seqs 0 p.last 0 hwp r hr
        apply h4 r.1 r.2 ?_ hin.2.1 x ⟨hx1, hx2⟩
        refine ⟨maxSeq (h.live site ver), (h.live site ver).filter (fun c => r.1 ≤ c.seq ∧ c.seq ≤ r.2), ?_⟩
        rw [hbatch]
        exact List.mem_filterMap.mpr ⟨r, hr, livePart_isSome hl r⟩
    have hnr : ¬ HasRows n' site ver := hnp' site ver q h1 hqc
    exact ⟨Or.inr ⟨q, h1, hqc⟩, noRows_of_not_hasRows hnr, noBuf_of_not_hasRows hca' hnr,
      (hca'.part_known ver q h1).2⟩

end Corro.Node
