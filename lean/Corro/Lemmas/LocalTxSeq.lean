/-
The change list of a local transaction has strictly increasing sequence numbers.

`Crdt.localTx` returns the live clock entries attributed to (own site, new version), sorted by
`seq`.  Sorting gives `≤`; strictness needs that no two live entries of the version share a `seq`.
That is an invariant of `applyStmt`: every entry written while the transaction runs takes the next
value of the statement counter, and entries only disappear (are overwritten) — `TxInv` below.
Helper lemmas for `Corro/Props/C07.lean` (`broadcast_tiles`).
-/
import Corro.Lemmas.CrdtLocal

namespace Corro.Crdt

/-! ### generic list facts -/

section Generic
variable {α β κ : Type}

theorem pairwise_mem_ne {Q : α → α → Prop} (hs : ∀ {x y}, Q x y → Q y x) {l : List α}
    (h : l.Pairwise Q) {a b : α} (ha : a ∈ l) (hb : b ∈ l) (hne : a ≠ b) : Q a b := by
  induction l with
  | nil => cases ha
  | cons x l ih =>
    rw [List.pairwise_cons] at h
    rcases List.mem_cons.mp ha with e1 | ha' <;> rcases List.mem_cons.mp hb with e2 | hb'
    · exact absurd (e1.trans e2.symm) hne
    · subst e1; exact h.1 _ hb'
    · subst e2; exact hs (h.1 _ ha')
    · exact ih h.2 ha' hb'

/-- replacing (or appending) the entry of one key keeps a symmetric pairwise relation, provided the
new entry is related to every entry of another key -/
theorem pairwise_upsert_rel (key : α → κ) (k : α → Prop) [DecidablePred k] {Q : α → α → Prop}
    (r : α) (hk : ∀ x, k x ↔ key x = key r) {l : List α}
    (hkey : l.Pairwise (fun a b => key a ≠ key b)) (hQ : l.Pairwise Q)
    (hr : ∀ x ∈ l, ¬ k x → Q r x ∧ Q x r) :
    (upsert k r l).Pairwise Q := by
  unfold upsert
  split
  · rw [List.pairwise_map]
    refine (hkey.and hQ).imp_of_mem ?_
    intro a b ha hb ⟨hne, hab⟩
    by_cases h1 : k a <;> by_cases h2 : k b
    · exact absurd (((hk a).mp h1).trans ((hk b).mp h2).symm) hne
    · simp only [h1, h2, if_true, if_false]; exact (hr b hb h2).1
    · simp only [h1, h2, if_true, if_false]; exact (hr a ha h1).2
    · simp only [h1, h2, if_false]; exact hab
  · rename_i hany
    simp only [List.any_eq_true, decide_eq_true_eq, not_exists, not_and] at hany
    rw [List.pairwise_append]
    refine ⟨hQ, List.pairwise_singleton _ _, ?_⟩
    intro a ha b hb
    simp at hb; subst hb
    exact (hr a ha (hany a ha)).2

end Generic

/-! ### insertion sort by `seq` -/

theorem insertBySeq_perm (c : Chg) (l : List Chg) : (insertBySeq c l).Perm (c :: l) := by
  induction l with
  | nil => exact List.Perm.refl _
  | cons x l ih =>
    unfold insertBySeq
    split
    · exact List.Perm.refl _
    · exact (List.Perm.cons x ih).trans (List.Perm.swap c x l)

theorem foldl_insertBySeq_perm (cs acc : List Chg) :
    (cs.foldl (fun acc c => insertBySeq c acc) acc).Perm (cs ++ acc) := by
  induction cs generalizing acc with
  | nil => exact List.Perm.refl _
  | cons c cs ih =>
    simp only [List.foldl_cons]
    refine (ih _).trans ?_
    refine (List.Perm.append_left cs (insertBySeq_perm c acc)).trans ?_
    exact List.perm_middle

theorem sortBySeq_perm (cs : List Chg) : (sortBySeq cs).Perm cs := by
  unfold sortBySeq
  simpa using foldl_insertBySeq_perm cs []

theorem insertBySeq_sorted (c : Chg) {l : List Chg} (h : l.Pairwise (fun a b => a.seq ≤ b.seq)) :
    (insertBySeq c l).Pairwise (fun a b => a.seq ≤ b.seq) := by
  induction l with
  | nil => simp [insertBySeq]
  | cons x l ih =>
    rw [List.pairwise_cons] at h
    unfold insertBySeq
    split
    · rename_i hlt
      rw [List.pairwise_cons]
      refine ⟨?_, List.pairwise_cons.mpr h⟩
      intro a ha
      rcases List.mem_cons.mp ha with rfl | ha
      · omega
      · have := h.1 a ha; omega
    · rename_i hge
      rw [List.pairwise_cons]
      refine ⟨?_, ih h.2⟩
      intro a ha
      rcases mem_insertBySeq.mp ha with rfl | ha
      · omega
      · exact h.1 a ha

theorem foldl_insertBySeq_sorted (cs : List Chg) {acc : List Chg}
    (h : acc.Pairwise (fun a b => a.seq ≤ b.seq)) :
    (cs.foldl (fun acc c => insertBySeq c acc) acc).Pairwise (fun a b => a.seq ≤ b.seq) := by
  induction cs generalizing acc with
  | nil => exact h
  | cons c cs ih => exact ih (insertBySeq_sorted c h)

theorem sortBySeq_sorted (cs : List Chg) : (sortBySeq cs).Pairwise (fun a b => a.seq ≤ b.seq) :=
  foldl_insertBySeq_sorted cs List.Pairwise.nil

/-- sorted and pairwise distinct = strictly increasing -/
theorem sortBySeq_strict {cs : List Chg} (h : cs.Pairwise (fun a b => a.seq ≠ b.seq)) :
    (sortBySeq cs).Pairwise (fun a b => a.seq < b.seq) := by
  have h1 := sortBySeq_sorted cs
  have h2 : (sortBySeq cs).Pairwise (fun a b => a.seq ≠ b.seq) :=
    (sortBySeq_perm cs).symm.pairwise h (fun hab => fun e => hab e.symm)
  exact (h1.and h2).imp (fun ⟨a, b⟩ => by omega)

/-! ### clock entries of the store -/

/-- the clock entries of a row: sentinel (if any), then one per stored cell -/
def rowClocks (r : Row) : List Clock := r.sent.toList ++ r.cells.map (·.clk)

def dbClocks (db : Db) : List Clock := db.rows.flatMap rowClocks

theorem changes_map_clock (db : Db) : db.changes.map Chg.clock = dbClocks db := by
  unfold Db.changes dbClocks
  rw [List.map_flatMap]
  congr 1
  funext r
  cases h : r.sent <;> simp [rowClocks, Chg.clock, h, List.map_map, Function.comp_def]

theorem clock_mem_of_chg_mem {db : Db} {c : Chg} (h : c ∈ db.changes) : c.clock ∈ dbClocks db := by
  rw [← changes_map_clock]; exact List.mem_map_of_mem h

/-- attributed to site `s`, version `v` -/
def Own (s v : Nat) (k : Clock) : Prop := k.site = s ∧ k.dbv = v

/-- two entries of (`s`, `v`) never share a sequence number -/
def Rk (s v : Nat) (a b : Clock) : Prop := Own s v a → Own s v b → a.seq ≠ b.seq

theorem Rk.symm {s v : Nat} {a b : Clock} (h : Rk s v a b) : Rk s v b a :=
  fun hb ha e => h ha hb e.symm

/-- invariant of a running local transaction that will become version `v` of site `s`, with `k`
the next sequence number: the live entries of (`s`, `v`) have pairwise distinct sequence numbers
below `k`; nothing is attributed to a later version. -/
structure TxInv (db : Db) (s v k : Nat) : Prop where
  nodup : db.NoDup
  pw : (dbClocks db).Pairwise (Rk s v)
  bound : ∀ c ∈ dbClocks db, Own s v c → c.seq < k
  le : ∀ c ∈ dbClocks db, c.site = s → c.dbv ≤ v

theorem mem_dbClocks {db : Db} {c : Clock} : c ∈ dbClocks db ↔ ∃ r ∈ db.rows, c ∈ rowClocks r := by
  unfold dbClocks; exact List.mem_flatMap

theorem mem_rows_setRow {db : Db} {r' x : Row} (h : x ∈ (db.setRow r').rows) : x = r' ∨ x ∈ db.rows := by
  rw [Db.setRow_rows] at h
  exact mem_upsert _ h

/-- writing one row: its entries of (`s`,`v`) are new (`≥ k`) or inherited from the row it replaces -/
theorem TxInv.setRow {db : Db} {s v k k' : Nat} (h : TxInv db s v k) (r' : Row) (hk : k ≤ k')
    (hnd : r'.NoDup) (hpw : (rowClocks r').Pairwise (Rk s v))
    (hfresh : ∀ a ∈ rowClocks r', Own s v a →
      k ≤ a.seq ∨ ∃ old ∈ db.rows, old.key = r'.key ∧ a ∈ rowClocks old)
    (hb : ∀ a ∈ rowClocks r', Own s v a → a.seq < k')
    (hle : ∀ a ∈ rowClocks r', a.site = s → a.dbv ≤ v) : TxInv (db.setRow r') s v k' := by
  have hold := List.pairwise_flatMap.mp h.pw
  refine ⟨setRow_noDup h.nodup hnd, ?_, ?_, ?_⟩
  · unfold dbClocks
    rw [Db.setRow_rows, List.pairwise_flatMap]
    constructor
    · intro x hx
      rcases mem_upsert _ hx with rfl | hx
      · exact hpw
      · exact hold.1 x hx
    · refine pairwise_upsert_rel Row.key _ r' (by intro x; simp [Row.key]) h.nodup.1 hold.2 ?_
      intro x hx hkx
      have hkey : x.key ≠ r'.key := by
        intro e; apply hkx; simpa [Row.key] using e
      have main : ∀ a ∈ rowClocks r', ∀ b ∈ rowClocks x, Rk s v a b := by
        intro a ha b hb' oa ob
        have hbk : b.seq < k := h.bound b (mem_dbClocks.mpr ⟨x, hx, hb'⟩) ob
        rcases hfresh a ha oa with hge | ⟨old, hold1, hold2, hold3⟩
        · omega
        · have hne : old ≠ x := by
            intro e; subst e; exact hkey hold2
          have := pairwise_mem_ne (Q := fun a₁ a₂ => ∀ x ∈ rowClocks a₁, ∀ y ∈ rowClocks a₂, Rk s v x y)
            (fun hxy p hp q hq => (hxy q hq p hp).symm) hold.2 hold1 hx hne
          exact this a hold3 b hb' oa ob
      exact ⟨main, fun b hb' a ha => (main a ha b hb').symm⟩
  · intro c hc oc
    obtain ⟨x, hx, hcx⟩ := mem_dbClocks.mp hc
    rcases mem_rows_setRow hx with rfl | hx
    · exact hb c hcx oc
    · have := h.bound c (mem_dbClocks.mpr ⟨x, hx, hcx⟩) oc; omega
  · intro c hc hs
    obtain ⟨x, hx, hcx⟩ := mem_dbClocks.mp hc
    rcases mem_rows_setRow hx with rfl | hx
    · exact hle c hcx hs
    · exact h.le c (mem_dbClocks.mpr ⟨x, hx, hcx⟩) hs

theorem TxInv.mono {db : Db} {s v k k' : Nat} (h : TxInv db s v k) (hk : k ≤ k') : TxInv db s v k' :=
  ⟨h.nodup, h.pw, fun c hc oc => Nat.lt_of_lt_of_le (h.bound c hc oc) hk, h.le⟩

/-! ### INSERT -/

theorem mem_zipIdx_bounds {l : List String} {n : Nat} {p : String × Nat} (h : p ∈ l.zipIdx n) :
    p.1 ∈ l ∧ n ≤ p.2 ∧ p.2 < n + l.length := by
  induction l generalizing n with
  | nil => simp at h
  | cons a l ih =>
    rw [List.zipIdx_cons] at h
    rcases List.mem_cons.mp h with rfl | h
    · simp
    · have := ih h
      simp only [List.mem_cons, List.length_cons]
      exact ⟨Or.inr this.1, by omega, by omega⟩

theorem zipIdx_pairwise {l : List String} (hl : l.Pairwise (· ≠ ·)) (n : Nat) :
    (l.zipIdx n).Pairwise (fun a b => a.1 ≠ b.1 ∧ a.2 < b.2) := by
  induction l generalizing n with
  | nil => simp
  | cons a l ih =>
    rw [List.pairwise_cons] at hl
    rw [List.zipIdx_cons, List.pairwise_cons]
    refine ⟨?_, ih hl.2 (n + 1)⟩
    intro p hp
    have := mem_zipIdx_bounds hp
    exact ⟨hl.1 _ this.1, by simp; omega⟩

theorem tableCols_nodup {t : String} {cols : List String} (h : tableCols t = some cols) :
    cols.Pairwise (· ≠ ·) := by
  unfold tableCols at h
  split at h <;> cases h <;> simp

/-- the row a local INSERT writes -/
def insRow (s ver k : Nat) (tbl pk : String) (ncl : Nat) (P : Prop) [Decidable P]
    (val : String × Nat → Val) (cols : List String) : Row :=
  { tbl := tbl, pk := pk, cl := ncl,
    sent := if P then some ⟨ncl, s, ver, k⟩ else none,
    cells := List.map (fun x => ⟨x.fst, val x, ⟨1, s, ver, (if P then k + 1 else k) + x.snd⟩⟩) cols.zipIdx }

theorem mem_rowClocks_insRow {s ver k : Nat} {tbl pk : String} {ncl : Nat} {P : Prop} [Decidable P]
    {val : String × Nat → Val} {cols : List String} {a : Clock}
    (h : a ∈ rowClocks (insRow s ver k tbl pk ncl P val cols)) :
    a.site = s ∧ a.dbv = ver ∧ k ≤ a.seq ∧ a.seq < (if P then k + 1 else k) + cols.length := by
  unfold rowClocks insRow at h
  simp only [List.mem_append, List.mem_map, List.map_map] at h
  rcases h with h | ⟨x, hx, rfl⟩
  · by_cases hP : P
    · simp [hP] at h; subst h; simp [hP]; omega
    · simp [hP] at h
  · have := mem_zipIdx_bounds hx
    simp only [Function.comp]
    refine ⟨trivial, trivial, ?_, ?_⟩ <;> split <;> omega

theorem insRow_pairwise (s ver k : Nat) (tbl pk : String) (ncl : Nat) (P : Prop) [Decidable P]
    (val : String × Nat → Val) {cols : List String} (hc : cols.Pairwise (· ≠ ·)) :
    (rowClocks (insRow s ver k tbl pk ncl P val cols)).Pairwise (fun a b => a.seq ≠ b.seq) ∧
    (insRow s ver k tbl pk ncl P val cols).NoDup := by
  have hz := zipIdx_pairwise hc 0
  constructor
  · unfold rowClocks insRow
    simp only [List.map_map]
    rw [List.pairwise_append]
    refine ⟨?_, ?_, ?_⟩
    · by_cases hP : P <;> simp [hP]
    · rw [List.pairwise_map]
      exact hz.imp (fun ⟨_, h2⟩ => by simp only [Function.comp]; omega)
    · intro a ha b hb
      obtain ⟨x, hx, rfl⟩ := List.mem_map.mp hb
      by_cases hP : P
      · simp [hP] at ha; subst ha; simp [hP]; omega
      · simp [hP] at ha
  · unfold Row.NoDup insRow
    simp only []
    rw [List.pairwise_map]
    exact hz.imp (fun ⟨h1, _⟩ => h1)

theorem TxInv.ins {db : Db} {v k : Nat} (h : TxInv db db.site v k) (tbl pk : String) (ncl : Nat)
    (P : Prop) [Decidable P] (val : String × Nat → Val) {cols : List String}
    (hc : cols.Pairwise (· ≠ ·)) :
    TxInv (db.setRow (insRow db.site v k tbl pk ncl P val cols)) db.site v
      ((if P then k + 1 else k) + cols.length) := by
  have hp := insRow_pairwise db.site v k tbl pk ncl P val hc
  refine h.setRow _ (by split <;> omega) hp.2 (hp.1.imp (fun hab _ _ => hab)) ?_ ?_ ?_
  · intro a ha _; exact Or.inl (mem_rowClocks_insRow ha).2.2.1
  · intro a ha _; exact (mem_rowClocks_insRow ha).2.2.2
  · intro a ha _; exact Nat.le_of_eq (mem_rowClocks_insRow ha).2.1

/-! ### UPDATE -/

@[simp] theorem setCell_sent (r : Row) (c : Cell) : (r.setCell c).sent = r.sent := by
  unfold Row.setCell; split <;> rfl

theorem mem_rowClocks_setCell {r : Row} {c : Cell} {a : Clock} (h : a ∈ rowClocks (r.setCell c)) :
    a = c.clk ∨ a ∈ rowClocks r := by
  unfold rowClocks at h ⊢
  rw [setCell_sent, Row.setCell_cells] at h
  rcases List.mem_append.mp h with h | h
  · exact Or.inr (List.mem_append_left _ h)
  · obtain ⟨x, hx, rfl⟩ := List.mem_map.mp h
    rcases mem_upsert _ hx with rfl | hx
    · exact Or.inl rfl
    · exact Or.inr (List.mem_append_right _ (List.mem_map_of_mem hx))

/-- state of the column loop of a local UPDATE of row `r0` (`k` = counter when the statement began) -/
structure UpdOK (r0 : Row) (s v k : Nat) (acc : Row × Nat) : Prop where
  nodup : acc.1.NoDup
  tbl : acc.1.tbl = r0.tbl
  pk : acc.1.pk = r0.pk
  pw : (rowClocks acc.1).Pairwise (Rk s v)
  bound : ∀ a ∈ rowClocks acc.1, Own s v a → a.seq < acc.2
  fresh : ∀ a ∈ rowClocks acc.1, Own s v a → k ≤ a.seq ∨ a ∈ rowClocks r0
  le : ∀ a ∈ rowClocks acc.1, a.site = s → a.dbv ≤ v
  ge : k ≤ acc.2

theorem UpdOK.step {r0 : Row} {s v k : Nat} {r : Row} {sq : Nat} (h : UpdOK r0 s v k (r, sq))
    (cid : String) (val : Val) (cv : Nat) :
    UpdOK r0 s v k (r.setCell ⟨cid, val, ⟨cv, s, v, sq⟩⟩, sq + 1) := by
  have hold := List.pairwise_append.mp h.pw
  refine ⟨setCell_noDup _ h.nodup, by simpa using h.tbl, by simpa using h.pk, ?_, ?_, ?_, ?_, ?_⟩
  · show (rowClocks (r.setCell _)).Pairwise (Rk s v)
    unfold rowClocks
    rw [setCell_sent, Row.setCell_cells, List.pairwise_append]
    refine ⟨hold.1, ?_, ?_⟩
    · rw [List.pairwise_map]
      refine pairwise_upsert_rel (fun x : Cell => x.cid) _ _ (fun _ => Iff.rfl) h.nodup
        (List.pairwise_map.mp hold.2.1) ?_
      intro x hx _
      have hxs : Own s v x.clk → x.clk.seq < sq := fun o =>
        h.bound x.clk (List.mem_append_right _ (List.mem_map_of_mem hx)) o
      exact ⟨fun _ ox => by have := hxs ox; simp only; omega,
             fun ox _ => by have := hxs ox; simp only; omega⟩
    · intro a ha b hb
      obtain ⟨x, hx, rfl⟩ := List.mem_map.mp hb
      rcases mem_upsert _ hx with rfl | hx
      · intro oa _
        have := h.bound a (List.mem_append_left _ ha) oa
        simp only; omega
      · exact hold.2.2 a ha _ (List.mem_map_of_mem hx)
  · intro a ha oa
    rcases mem_rowClocks_setCell ha with rfl | ha
    · simp
    · have := h.bound a ha oa; simp only at this ⊢; omega
  · intro a ha oa
    rcases mem_rowClocks_setCell ha with rfl | ha
    · exact Or.inl h.ge
    · exact h.fresh a ha oa
  · intro a ha hs
    rcases mem_rowClocks_setCell ha with rfl | ha
    · exact Nat.le_refl _
    · exact h.le a ha hs
  · have := h.ge; simp only at this ⊢; omega

theorem foldl_inv {α β : Type} {P : β → Prop} (f : β → α → β) (hf : ∀ b a, P b → P (f b a))
    (l : List α) {b : β} (hb : P b) : P (l.foldl f b) := by
  induction l generalizing b with
  | nil => exact hb
  | cons a l ih => exact ih (hf b a hb)

/-! ### one statement, a statement list, the transaction -/

theorem rowClocks_of_mem {db : Db} {s v k : Nat} (h : TxInv db s v k) {r : Row} (hr : r ∈ db.rows) :
    (rowClocks r).Pairwise (Rk s v) ∧ (∀ a ∈ rowClocks r, Own s v a → a.seq < k) ∧
    (∀ a ∈ rowClocks r, a.site = s → a.dbv ≤ v) :=
  ⟨(List.pairwise_flatMap.mp h.pw).1 r hr,
   fun a ha => h.bound a (mem_dbClocks.mpr ⟨r, hr, ha⟩),
   fun a ha => h.le a (mem_dbClocks.mpr ⟨r, hr, ha⟩)⟩

theorem applyStmt_inv {db : Db} {v k : Nat} (hi : TxInv db db.site v k) {st : Stmt} {db' : Db} {k' : Nat}
    (h : applyStmt db v k st = .ok (db', k')) : TxInv db' db.site v k' ∧ db'.site = db.site := by
  cases st with
  | ins tbl pk assigns =>
    unfold applyStmt at h
    cases hc : tableCols tbl with
    | none => simp [hc] at h
    | some cols =>
      simp only [hc] at h
      have hnd := tableCols_nodup hc
      have fin : ∀ (ncl : Nat) (P : Prop) [Decidable P] (val : String × Nat → Val),
          (Except.ok (db.setRow (insRow db.site v k tbl pk ncl P val cols),
            (if P then k + 1 else k) + cols.length) : Except WErr (Db × Nat)) = .ok (db', k') →
          TxInv db' db.site v k' ∧ db'.site = db.site := by
        intro ncl P _ val h
        simp only [Except.ok.injEq, Prod.mk.injEq] at h
        obtain ⟨h1, h2⟩ := h
        subst h1 h2
        exact ⟨hi.ins tbl pk ncl P val hnd, by simp⟩
      split at h
      · split at h
        · cases h
        · exact fin _ _ _ h
      · split at h
        · cases h
        · exact fin _ _ _ h
  | upd tbl pk assigns =>
    unfold applyStmt at h
    cases hc : tableCols tbl with
    | none => simp [hc] at h
    | some cols =>
      simp only [hc] at h
      split at h
      · simp only [Except.ok.injEq, Prod.mk.injEq] at h
        obtain ⟨h1, h2⟩ := h; subst h1 h2; exact ⟨hi, rfl⟩
      · rename_i r hr
        split at h
        · simp only [Except.ok.injEq, Prod.mk.injEq] at h
          obtain ⟨h1, h2⟩ := h; subst h1 h2; exact ⟨hi, rfl⟩
        · have hrm := findRow_some hr
          have hrow := rowClocks_of_mem hi hrm.2.2
          have init : UpdOK r db.site v k (r, k) :=
            ⟨hi.nodup.2 r hrm.2.2, rfl, rfl, hrow.1, hrow.2.1, fun a ha _ => Or.inr ha, hrow.2.2,
              Nat.le_refl _⟩
          generalize hfold : List.foldl _ (r, k) cols = res at h
          have hres : UpdOK r db.site v k res := by
            rw [← hfold]
            refine foldl_inv _ ?_ cols init
            intro acc c hacc
            obtain ⟨r1, s1⟩ := acc
            dsimp only
            split
            · exact hacc
            · split
              · exact hacc
              · exact hacc.step _ _ _
          simp only [Except.ok.injEq, Prod.mk.injEq] at h
          obtain ⟨h1, h2⟩ := h
          subst h1 h2
          refine ⟨hi.setRow res.1 hres.ge hres.nodup hres.pw ?_ hres.bound hres.le, by simp⟩
          intro a ha oa
          rcases hres.fresh a ha oa with hge | hin
          · exact Or.inl hge
          · exact Or.inr ⟨r, hrm.2.2, by simp [Row.key, hres.tbl, hres.pk], hin⟩
  | del tbl pk =>
    simp only [applyStmt] at h
    split at h
    · simp only [Except.ok.injEq, Prod.mk.injEq] at h
      obtain ⟨h1, h2⟩ := h; subst h1 h2; exact ⟨hi, rfl⟩
    · rename_i r hr
      split at h
      · simp only [Except.ok.injEq, Prod.mk.injEq] at h
        obtain ⟨h1, h2⟩ := h; subst h1 h2; exact ⟨hi, rfl⟩
      · simp only [Except.ok.injEq, Prod.mk.injEq] at h
        obtain ⟨h1, h2⟩ := h
        subst h1 h2
        refine ⟨hi.setRow _ (Nat.le_succ k) List.Pairwise.nil ?_ ?_ ?_ ?_, by simp⟩
        · simp [rowClocks]
        · intro a ha _; simp [rowClocks] at ha; subst ha; exact Or.inl (Nat.le_refl _)
        · intro a ha _; simp [rowClocks] at ha; subst ha; simp
        · intro a ha _; simp [rowClocks] at ha; subst ha; simp

theorem applyStmts_inv {stmts : List Stmt} {db : Db} {v k : Nat} (hi : TxInv db db.site v k)
    {db' : Db} {k' : Nat} (h : applyStmts db v k stmts = .ok (db', k')) :
    TxInv db' db.site v k' ∧ db'.site = db.site := by
  induction stmts generalizing db k with
  | nil =>
    simp only [applyStmts, Except.ok.injEq, Prod.mk.injEq] at h
    obtain ⟨h1, h2⟩ := h; subst h1 h2; exact ⟨hi, rfl⟩
  | cons st ss ih =>
    simp only [applyStmts] at h
    split at h
    · cases h
    · rename_i db1 k1 h1
      have ⟨i1, s1⟩ := applyStmt_inv hi h1
      have ⟨i2, s2⟩ := ih (s1 ▸ i1) h
      exact ⟨s1 ▸ i2, s2.trans s1⟩

/-- the store between transactions: keys unique, nothing attributed to a version the site has not
produced yet -/
structure DbOk (db : Db) : Prop where
  nodup : db.NoDup
  le : ∀ c ∈ dbClocks db, c.site = db.site → c.dbv ≤ db.dbv

theorem DbOk.txInv {db : Db} (h : DbOk db) : TxInv db db.site (db.dbv + 1) 0 := by
  refine ⟨h.nodup, ?_, ?_, ?_⟩
  · refine List.pairwise_of_forall_mem_list ?_
    intro a ha b _ oa _
    have := h.le a ha oa.1
    have := oa.2
    omega
  · intro c hc oc
    have := h.le c hc oc.1
    have := oc.2
    omega
  · intro c hc hs
    have := h.le c hc hs
    omega

theorem dbOk_empty (s : Nat) : DbOk { site := s } :=
  ⟨⟨List.Pairwise.nil, fun _ h => by cases h⟩, fun _ h _ => by simp [dbClocks] at h⟩

theorem le_foldl_max' {cs : List Chg} {x : Chg} (h : x ∈ cs) (m : Nat) :
    x.seq ≤ cs.foldl (fun m c => Nat.max m c.seq) m := by
  induction cs generalizing m with
  | nil => cases h
  | cons c cs ih =>
    have init : ∀ (l : List Chg) (m : Nat), m ≤ l.foldl (fun m c => Nat.max m c.seq) m := by
      intro l
      induction l with
      | nil => intro m; exact Nat.le_refl _
      | cons d l ihl => intro m; exact Nat.le_trans (Nat.le_max_left _ _) (ihl _)
    rcases List.mem_cons.mp h with rfl | h
    · exact Nat.le_trans (Nat.le_max_right _ _) (init cs _)
    · exact ih h _

/-- **what an acknowledged local transaction returns**: the next version; a non-empty change list
with strictly increasing sequence numbers that is exactly the set of live entries attributed to
(own site, that version) in the new store. -/
theorem localTx_some {db : Db} (hok : DbOk db) {stmts : List Stmt} {db' : Db} {ver : Nat}
    {chs : List Chg} (h : localTx db stmts = .ok (db', some (ver, chs))) :
    ver = db.dbv + 1 ∧ db'.dbv = ver ∧ db'.site = db.site ∧ DbOk db' ∧ chs ≠ [] ∧
    chs.Pairwise (fun a b => a.seq < b.seq) ∧
    (∀ c, c ∈ chs ↔ c ∈ db'.changes ∧ c.site = db.site ∧ c.dbv = ver) := by
  unfold localTx at h
  simp only [] at h
  split at h
  · cases h
  · rename_i db1 k1 h1
    have ⟨inv, hs⟩ := applyStmts_inv hok.txInv h1
    split at h
    · cases h
    · rename_i hne
      simp only [Except.ok.injEq, Prod.mk.injEq, Option.some.injEq] at h
      obtain ⟨hdb, hver, hchs⟩ := h
      subst hdb hver
      have hmem : ∀ c, c ∈ chs ↔ c ∈ db1.changes ∧ c.site = db.site ∧ c.dbv = db.dbv + 1 := by
        intro c
        rw [← hchs, mem_sortBySeq]
        unfold Db.changesOf
        simp only [List.mem_filter, decide_eq_true_eq, Nat.zero_le, true_and]
        constructor
        · rintro ⟨h1, h2, h3, _⟩; exact ⟨h1, h2, h3⟩
        · rintro ⟨h1, h2, h3⟩; exact ⟨h1, h2, h3, le_foldl_max h1 0⟩
      refine ⟨rfl, rfl, hs, ⟨inv.nodup, ?_⟩, ?_, ?_, hmem⟩
      · intro c hc hs; exact inv.le c hc (hs.trans ‹_›)
      · intro e; rw [← hchs] at e; simp [e] at hne
      · rw [← hchs]
        apply sortBySeq_strict
        have hp : db1.changes.Pairwise (fun a b => Rk db.site (db.dbv + 1) a.clock b.clock) := by
          have := inv.pw
          rw [← changes_map_clock, List.pairwise_map] at this
          exact this
        unfold Db.changesOf
        refine (hp.filter _).imp_of_mem ?_
        intro a b ha hb hab
        simp only [List.mem_filter, decide_eq_true_eq] at ha hb
        exact hab ⟨ha.2.1, ha.2.2.1⟩ ⟨hb.2.1, hb.2.2.1⟩

/-- the acknowledged version is the successor of the store's version (no hypothesis on the store) -/
theorem localTx_ver {db : Db} {stmts : List Stmt} {db' : Db} {ver : Nat} {chs : List Chg}
    (h : localTx db stmts = .ok (db', some (ver, chs))) : ver = db.dbv + 1 ∧ db'.dbv = ver := by
  unfold localTx at h
  simp only [] at h
  split at h
  · cases h
  · split at h
    · cases h
    · simp only [Except.ok.injEq, Prod.mk.injEq, Option.some.injEq] at h
      obtain ⟨hdb, hver, _⟩ := h
      subst hdb hver
      exact ⟨rfl, rfl⟩

theorem localTx_none {db : Db} {stmts : List Stmt} {db' : Db}
    (h : localTx db stmts = .ok (db', none)) : db' = db := by
  unfold localTx at h
  simp only [] at h
  split at h
  · cases h
  · split at h
    · simp only [Except.ok.injEq, Prod.mk.injEq] at h; exact h.1.symm
    · simp at h

theorem localTx_error {db : Db} {stmts : List Stmt} {e : WErr} :
    localTx db stmts = .error e ↔ applyStmts db (db.dbv + 1) 0 stmts = .error e := by
  unfold localTx
  simp only []
  split
  · rename_i e' he; rw [he]; constructor <;> (intro h; cases h; rfl)
  · rename_i db1 k1 h1
    rw [h1]
    split <;> simp

end Corro.Crdt
