/-
C14 helper lemmas, part 2: monotonicity of a cached key, the sortedness of the events inside the
horizon, the "cache entry is backed by a buffered or emitted event" invariant and the tracking
invariant used for `parity_is_fate` / `no_stale_partial`.  Core Lean only.
-/
import Corro.Lemmas.Updates

namespace Corro.Updates

/-! ### a cached key through one select arm -/

theorem pushCand_cache_mono {s : St} (c : Cand) {k v : Nat} (h : lookup k s.cache = some v) :
    ∃ v', lookup k (pushCand s c).cache = some v' ∧ v ≤ v' := by
  unfold pushCand
  cases hs : stale s c with
  | true => exact ⟨v, by simpa using h, Nat.le_refl _⟩
  | false =>
    simp only [Bool.false_eq_true, if_false]
    by_cases hk : k = c.1
    · subst hk
      exact ⟨c.2, lookup_upsert_self _ _ _, (stale_false_iff.1 hs) v h⟩
    · exact ⟨v, by rw [lookup_upsert_ne _ _ hk]; exact h, Nat.le_refl _⟩

theorem fold_cache_mono {s : St} (b : List Cand) {k v : Nat} (h : lookup k s.cache = some v) :
    ∃ v', lookup k (b.foldl pushCand s).cache = some v' ∧ v ≤ v' := by
  induction b generalizing s v with
  | nil => exact ⟨v, h, Nat.le_refl _⟩
  | cons c rest ih =>
    obtain ⟨v1, h1, hle1⟩ := pushCand_cache_mono c h
    obtain ⟨v2, h2, hle2⟩ := ih h1
    exact ⟨v2, h2, Nat.le_trans hle1 hle2⟩

/-- state after the candidates of a batch, before eviction -/
def folded (s : St) : In → St
  | .batch b => b.foldl pushCand s
  | .tick => s

theorem arm_buf (p : Params) (s : St) (x : In) : (arm p s x).buf = (folded s x).buf := by
  cases x with
  | tick => simp only [arm, folded]; split <;> rfl
  | batch b => simp only [arm, folded]; split <;> rfl

theorem arm_bufCount (p : Params) (s : St) (x : In) : (arm p s x).bufCount = (folded s x).bufCount := by
  cases x with
  | tick => simp only [arm, folded]; split <;> rfl
  | batch b => simp only [arm, folded]; split <;> rfl

theorem coh_folded {s : St} (x : In) (h : Coh s) : Coh (folded s x) := by
  cases x with
  | tick => exact h
  | batch b => exact coh_fold b h

theorem arm_cache_sub {p : Params} {s : St} (x : In) (hs : Coh s) {k v : Nat}
    (h : lookup k (arm p s x).cache = some v) : lookup k (folded s x).cache = some v := by
  cases x with
  | tick => simp only [arm] at h; simp only [folded]; split at h <;> exact h
  | batch b =>
    simp only [arm] at h; simp only [folded]
    split at h <;> exact lookup_evict (coh_fold b hs).cacheNodup h

theorem folded_cache_mono {s : St} (x : In) {k v : Nat} (h : lookup k s.cache = some v) :
    ∃ v', lookup k (folded s x).cache = some v' ∧ v ≤ v' := by
  cases x with
  | tick => exact ⟨v, h, Nat.le_refl _⟩
  | batch b => exact fold_cache_mono b h

/-- (A1) a buffered value of a key that was cached at the start of the iteration is at least the
cached value -/
theorem arm_buf_ge {p : Params} {s : St} (x : In) (hs : Coh s) {k v b : Nat}
    (hc : lookup k s.cache = some v) (hb : lookup k (arm p s x).buf = some b) : v ≤ b := by
  rw [arm_buf] at hb
  obtain ⟨v', hv', hle⟩ := folded_cache_mono x hc
  have := (coh_folded x hs).agree k v' b hv' hb
  omega

/-- (A2) while cached, the cached value does not decrease -/
theorem arm_cache_ge {p : Params} {s : St} (x : In) (hs : Coh s) {k v v2 : Nat}
    (hc : lookup k s.cache = some v) (h2 : lookup k (arm p s x).cache = some v2) : v ≤ v2 := by
  have h3 := arm_cache_sub x hs h2
  obtain ⟨v', hv', hle⟩ := folded_cache_mono x hc
  rw [hv'] at h3; simp only [Option.some.injEq] at h3; omega

/-- the events of one iteration that concern key `k`: none, or exactly the buffered value -/
theorem clsOf_step {p : Params} {s : St} (x : In) (hs : Coh s) (k : Nat) :
    clsOf k (step p s x).2 = [] ∨
      ∃ b, clsOf k (step p s x).2 = [b] ∧ lookup k (arm p s x).buf = some b ∧ (arm p s x).process = true := by
  unfold step finish
  split
  · rename_i hp
    cases hb : lookup k (arm p s x).buf with
    | none => exact Or.inl (clsOf_map_toEvent_of_none hb)
    | some b => exact Or.inr ⟨b, clsOf_map_toEvent_of_some (coh_arm x hs).bufNodup hb, rfl, hp⟩
  · exact Or.inl rfl

theorem step_buf_none_of_process {p : Params} {s : St} (x : In) (k : Nat)
    (h : (arm p s x).process = true) : lookup k (step p s x).1.buf = none := by
  unfold step finish; simp [h, lookup]

theorem step_buf_of_not_process {p : Params} {s : St} (x : In)
    (h : (arm p s x).process = false) : (step p s x) = (arm p s x, []) := by
  unfold step finish; simp [h]

/-! ### inside the horizon the causal lengths of a key's events never decrease -/

theorem horizon_sorted_aux (p : Params) (k : Nat) : ∀ (xs : List In) (s : St), Coh s →
    (horizonCls p k s xs).Pairwise (· ≤ ·) ∧
    (∀ v, lookup k s.cache = some v → ∀ x ∈ horizonCls p k s xs, v ≤ x) := by
  intro xs
  induction xs with
  | nil => intro s _; simp [horizonCls]
  | cons x xs ih =>
    intro s hs
    have hr : Coh (step p s x).1 := coh_step x hs
    have hcache : (step p s x).1.cache = (arm p s x).cache := step_cache p s x
    obtain ⟨ihs, ihge⟩ := ih (step p s x).1 hr
    simp only [horizonCls]
    rcases clsOf_step (p := p) x hs k with hE | ⟨b, hE, hb, _⟩
    · -- no event for k in this iteration
      rw [hE]; simp only [List.nil_append]
      cases hc : cached k (step p s x).1 with
      | false => simp
      | true =>
        simp only [if_true]
        refine ⟨ihs, ?_⟩
        intro v hv y hy
        simp only [cached, hcache] at hc
        obtain ⟨c', hc'⟩ := Option.isSome_iff_exists.1 hc
        have h1 : v ≤ c' := arm_cache_ge x hs hv hc'
        have h2 := ihge c' (by rw [hcache]; exact hc') y hy
        omega
    · rw [hE]
      cases hc : cached k (step p s x).1 with
      | false =>
        simp only [Bool.false_eq_true, if_false, List.append_nil]
        refine ⟨by simp, ?_⟩
        intro v hv y hy
        simp only [List.mem_singleton] at hy; subst hy
        exact arm_buf_ge x hs hv hb
      | true =>
        simp only [if_true]
        simp only [cached, hcache] at hc
        obtain ⟨c', hc'⟩ := Option.isSome_iff_exists.1 hc
        have hbc : b = c' := (coh_arm x hs).agree k c' b hc' hb
        have hge := ihge c' (by rw [hcache]; exact hc')
        refine ⟨?_, ?_⟩
        · rw [List.pairwise_append]
          refine ⟨by simp, ihs, ?_⟩
          intro a ha y hy
          simp only [List.mem_singleton] at ha; subst ha
          have := hge y hy; omega
        · intro v hv y hy
          simp only [List.singleton_append, List.mem_cons] at hy
          have h1 : v ≤ b := arm_buf_ge x hs hv hb
          rcases hy with rfl | hy
          · exact h1
          · have := hge y hy; omega

/-! ### every cache entry is backed by a buffered or an already emitted notification -/

/-- for every cached `(k, c)`: `(k, c)` is buffered, or the event for `(k, c)` is among `evs` -/
def Backed (s : St) (evs : List Event) : Prop :=
  ∀ k c, lookup k s.cache = some c → lookup k s.buf = some c ∨ toEvent (k, c) ∈ evs

theorem backed_pushCand {s : St} {evs : List Event} (c : Cand) (h : Backed s evs) :
    Backed (pushCand s c) evs := by
  unfold pushCand
  split
  · exact h
  · intro k v hv
    simp only at hv ⊢
    by_cases hk : k = c.1
    · subst hk
      rw [lookup_upsert_self] at hv ⊢
      exact Or.inl hv
    · rw [lookup_upsert_ne _ _ hk] at hv ⊢
      exact h k v hv

theorem backed_fold {s : St} {evs : List Event} (b : List Cand) (h : Backed s evs) :
    Backed (b.foldl pushCand s) evs := by
  induction b generalizing s with
  | nil => exact h
  | cons c rest ih => exact ih (backed_pushCand c h)

theorem backed_folded {s : St} {evs : List Event} (x : In) (h : Backed s evs) :
    Backed (folded s x) evs := by
  cases x with
  | tick => exact h
  | batch b => exact backed_fold b h

theorem backed_step {p : Params} {s : St} {evs : List Event} (x : In) (hs : Coh s)
    (h : Backed s evs) : Backed (step p s x).1 (evs ++ (step p s x).2) := by
  intro k c hc
  rw [step_cache] at hc
  have hf := backed_folded x h k c (arm_cache_sub x hs hc)
  rw [← arm_buf p] at hf
  cases hp : (arm p s x).process with
  | false =>
    rw [step_buf_of_not_process x hp]
    rcases hf with hf | hf
    · exact Or.inl hf
    · exact Or.inr (by simp [hf])
  | true =>
    refine Or.inr ?_
    rcases hf with hf | hf
    · have : (step p s x).2 = (arm p s x).buf.map toEvent := by unfold step finish; simp [hp]
      rw [this]
      exact List.mem_append_right _ (List.mem_map_of_mem (lookup_some_mem hf))
    · exact List.mem_append_left _ hf

theorem backed_run {p : Params} : ∀ (xs : List In) (s : St) (evs : List Event), Coh s → Backed s evs →
    Backed (stateAfter p s xs) (evs ++ events p s xs) := by
  intro xs
  induction xs with
  | nil => intro s evs _ h; simpa [stateAfter, events, run] using h
  | cons x xs ih =>
    intro s evs hs h
    rw [stateAfter_cons, events_cons, ← List.append_assoc]
    exact ih _ _ (coh_step x hs) (backed_step x hs h)

/-! ### a buffered key is emitted by the next flush -/

theorem pushCand_buf_keeps {s : St} (c : Cand) {k : Nat} (h : (lookup k s.buf).isSome) :
    (lookup k (pushCand s c).buf).isSome := by
  unfold pushCand
  split
  · exact h
  · simp only
    rw [lookup_isSome_iff_mem_keys] at h ⊢
    exact (mem_keys_upsert _ _ _ _).2 (Or.inr h)

theorem fold_buf_keeps {s : St} (b : List Cand) {k : Nat} (h : (lookup k s.buf).isSome) :
    (lookup k (b.foldl pushCand s).buf).isSome := by
  induction b generalizing s with
  | nil => exact h
  | cons c rest ih => exact ih (pushCand_buf_keeps c h)

theorem arm_buf_keeps {p : Params} {s : St} (x : In) {k : Nat} (h : (lookup k s.buf).isSome) :
    (lookup k (arm p s x).buf).isSome := by
  rw [arm_buf]
  cases x with
  | tick => exact h
  | batch b => exact fold_buf_keeps b h

theorem mem_events_of_buffered {s : St} {k : Nat} (h : (lookup k s.buf).isSome) :
    ∃ e ∈ s.buf.map toEvent, e.key = k := by
  obtain ⟨v, hv⟩ := Option.isSome_iff_exists.1 h
  exact ⟨toEvent (k, v), List.mem_map_of_mem (lookup_some_mem hv), rfl⟩

theorem buffered_is_emitted (p : Params) (k : Nat) : ∀ (xs : List In) (s : St), Coh s →
    (lookup k s.buf).isSome → ∃ e ∈ events p s (xs ++ [.tick]), e.key = k := by
  intro xs
  induction xs with
  | nil =>
    intro s hs h
    have hne : s.bufCount ≠ 0 := by
      intro h0; have := hs.count h0; rw [this] at h; simp [lookup] at h
    obtain ⟨e, he, hk⟩ := mem_events_of_buffered h
    refine ⟨e, ?_, hk⟩
    simp [events, run, step, arm, finish, hne, he]
  | cons x xs ih =>
    intro s hs h
    have ha := arm_buf_keeps (p := p) x h
    rw [List.cons_append, events_cons]
    cases hp : (arm p s x).process with
    | true =>
      obtain ⟨e, he, hk⟩ := mem_events_of_buffered ha
      refine ⟨e, List.mem_append_left _ ?_, hk⟩
      unfold step finish; simp [hp, he]
    | false =>
      rw [step_buf_of_not_process x hp]
      obtain ⟨e, he, hk⟩ := ih (arm p s x) (coh_arm x hs) ha
      exact ⟨e, List.mem_append_right _ he, hk⟩

theorem pushCand_cache_ne {s : St} {c : Cand} {k : Nat} (h : k ≠ c.1) :
    lookup k (pushCand s c).cache = lookup k s.cache := by
  unfold pushCand; split
  · rfl
  · simp only; exact lookup_upsert_ne _ _ h

theorem stale_congr {s s' : St} {c : Cand} (h : lookup c.1 s'.cache = lookup c.1 s.cache) :
    stale s' c = stale s c := by
  unfold stale; rw [h]

/-- an accepted candidate of a batch with distinct keys is buffered after the batch's candidates -/
theorem fold_buffers_accepted : ∀ (b : List Cand) (s : St) (k cl : Nat),
    (b.map (·.1)).Nodup → (k, cl) ∈ b → stale s (k, cl) = false →
    (lookup k (b.foldl pushCand s).buf).isSome := by
  intro b
  induction b with
  | nil => intro s k cl _ hm; simp at hm
  | cons c rest ih =>
    intro s k cl hn hm hst
    simp only [List.map_cons, List.nodup_cons] at hn
    simp only [List.mem_cons] at hm
    simp only [List.foldl_cons]
    rcases hm with hm | hm
    · subst hm
      apply fold_buf_keeps
      unfold pushCand; rw [hst]; simp [lookup_upsert_self]
    · have hne : k ≠ c.1 := by
        intro e; apply hn.1; rw [← e]
        exact List.mem_map_of_mem (f := (·.1)) hm
      apply ih _ k cl hn.2 hm
      -- the cache entry of k is untouched by a candidate of another key
      rw [stale_congr (s := s) (pushCand_cache_ne hne)]; exact hst

/-! ### every event's kind is the parity of its causal length -/

theorem kind_of_mem_step {p : Params} {s : St} (x : In) {e : Event} (h : e ∈ (step p s x).2) :
    e.kind = kindOf e.cl := by
  unfold step finish at h
  split at h
  · simp only [List.mem_map] at h
    obtain ⟨c, _, rfl⟩ := h; rfl
  · simp at h

theorem kind_of_mem_events {p : Params} : ∀ (xs : List In) (s : St) {e : Event},
    e ∈ events p s xs → e.kind = kindOf e.cl := by
  intro xs
  induction xs with
  | nil => intro s e h; simp [events, run] at h
  | cons x xs ih =>
    intro s e h
    rw [events_cons, List.mem_append] at h
    rcases h with h | h
    · exact kind_of_mem_step x h
    · exact ih _ h

/-! ### tracking one key that is never evicted -/

theorem maxCl_append (a b : List Nat) : maxCl (a ++ b) = max (maxCl a) (maxCl b) := by
  induction a with
  | nil => simp [maxCl]
  | cons x xs ih => simp only [List.cons_append, maxCl, ih]; omega

theorem le_maxCl_of_mem {a : List Nat} {x : Nat} (h : x ∈ a) : x ≤ maxCl a := by
  induction a with
  | nil => simp at h
  | cons y ys ih =>
    simp only [List.mem_cons] at h
    simp only [maxCl]
    rcases h with rfl | h
    · omega
    · have := ih h; omega

/-- cache side: nothing seen yet → neither cached nor buffered; otherwise the cache holds the
maximum of what was offered -/
def TC (k : Nat) (seen : List Nat) (s : St) : Prop :=
  (seen = [] → lookup k s.cache = none ∧ lookup k s.buf = none) ∧
  (seen ≠ [] → lookup k s.cache = some (maxCl seen))

/-- event side: `k`'s events so far are sorted, bounded by the maximum offered, and when nothing of
`k` is buffered the last of them carries the maximum -/
def TE (k : Nat) (seen : List Nat) (s : St) (evs : List Event) : Prop :=
  (clsOf k evs).Pairwise (· ≤ ·) ∧
  (∀ x ∈ clsOf k evs, x ≤ maxCl seen) ∧
  (seen ≠ [] → lookup k s.buf = none → (clsOf k evs).getLast? = some (maxCl seen))

theorem tc_pushCand {k : Nat} {seen : List Nat} {s : St} (c : Cand) (_hs : Coh s) (h : TC k seen s) :
    TC k (seen ++ (if c.1 = k then [c.2] else [])) (pushCand s c) := by
  by_cases hk : c.1 = k
  · simp only [hk, if_true]
    refine ⟨by simp, fun _ => ?_⟩
    rw [maxCl_append]; simp only [maxCl]
    unfold pushCand
    cases hst : stale s c with
    | true =>
      simp only [if_true]
      unfold stale at hst
      rw [hk] at hst
      cases hl : lookup k s.cache with
      | none => rw [hl] at hst; simp at hst
      | some old =>
        rw [hl] at hst
        have hne : seen ≠ [] := by
          intro e; have := (h.1 e).1; rw [this] at hl; simp at hl
        have := h.2 hne
        rw [hl] at this; simp only [Option.some.injEq] at this
        simp only [decide_eq_true_eq] at hst
        congr 1; omega
    | false =>
      simp only [Bool.false_eq_true, if_false]
      rw [← hk, lookup_upsert_self]; congr 1
      have hle := stale_false_iff.1 hst
      by_cases hne : seen = []
      · subst hne; simp [maxCl]
      · have := hle _ (hk ▸ h.2 hne); omega
  · simp only [hk, if_false, List.append_nil]
    have hk' : k ≠ c.1 := fun e => hk e.symm
    unfold pushCand
    split
    · exact h
    · refine ⟨fun e => ?_, fun e => ?_⟩
      · simp only; rw [lookup_upsert_ne _ _ hk', lookup_upsert_ne _ _ hk']; exact h.1 e
      · simp only; rw [lookup_upsert_ne _ _ hk']; exact h.2 e

theorem te_pushCand {k : Nat} {seen : List Nat} {s : St} {evs : List Event} (c : Cand)
    (htc : TC k seen s) (h : TE k seen s evs) :
    TE k (seen ++ (if c.1 = k then [c.2] else [])) (pushCand s c) evs := by
  obtain ⟨h1, h2, h3⟩ := h
  refine ⟨h1, ?_, ?_⟩
  · intro x hx; have := h2 x hx; rw [maxCl_append]; omega
  · intro hne0 hb
    by_cases hk : c.1 = k
    · simp only [hk, if_true]
      unfold pushCand at hb
      cases hst : stale s c with
      | false =>
        rw [hst] at hb; simp only [Bool.false_eq_true, if_false] at hb
        rw [← hk, lookup_upsert_self] at hb; simp at hb
      | true =>
        rw [hst] at hb; simp only [if_true] at hb
        unfold stale at hst; rw [hk] at hst
        cases hl : lookup k s.cache with
        | none => rw [hl] at hst; simp at hst
        | some old =>
          rw [hl] at hst; simp only [decide_eq_true_eq] at hst
          have hne : seen ≠ [] := by
            intro e; have := (htc.1 e).1; rw [this] at hl; simp at hl
          have hm := htc.2 hne
          rw [hl] at hm; simp only [Option.some.injEq] at hm
          rw [h3 hne hb, maxCl_append]; simp only [maxCl]; congr 1; omega
    · have hk' : k ≠ c.1 := fun e => hk e.symm
      simp only [hk, if_false, List.append_nil] at hne0 ⊢
      have hb' : lookup k s.buf = none := by
        unfold pushCand at hb
        split at hb
        · exact hb
        · simp only at hb; rw [lookup_upsert_ne _ _ hk'] at hb; exact hb
      exact h3 hne0 hb'

theorem track_fold {k : Nat} {evs : List Event} : ∀ (b : List Cand) (seen : List Nat) (s : St),
    Coh s → TC k seen s → TE k seen s evs →
    TC k (seen ++ offeredIn k (.batch b)) (b.foldl pushCand s) ∧
    TE k (seen ++ offeredIn k (.batch b)) (b.foldl pushCand s) evs := by
  intro b
  induction b with
  | nil => intro seen s _ h1 h2; simpa [offeredIn] using ⟨h1, h2⟩
  | cons c rest ih =>
    intro seen s hs h1 h2
    have h1' := tc_pushCand c hs h1
    have h2' := te_pushCand c h1 h2
    have := ih _ _ (coh_pushCand c hs) h1' h2'
    have heq : seen ++ offeredIn k (.batch (c :: rest)) =
        (seen ++ (if c.1 = k then [c.2] else [])) ++ offeredIn k (.batch rest) := by
      simp only [offeredIn, List.filter_cons]
      by_cases hk : c.1 = k <;> simp [hk]
    rw [heq]; exact this

theorem track_folded {k : Nat} {evs : List Event} (x : In) {seen : List Nat} {s : St}
    (hs : Coh s) (h1 : TC k seen s) (h2 : TE k seen s evs) :
    TC k (seen ++ offeredIn k x) (folded s x) ∧ TE k (seen ++ offeredIn k x) (folded s x) evs := by
  cases x with
  | tick => simpa [offeredIn, folded] using ⟨h1, h2⟩
  | batch b => exact track_fold b seen s hs h1 h2

/-- the kept condition of one iteration -/
def keptStep (p : Params) (k : Nat) (s : St) (x : In) : Prop :=
  (cached k s = true ∨ offeredIn k x ≠ []) → cached k (step p s x).1 = true

theorem track_step {p : Params} {k : Nat} {evs : List Event} (x : In) {seen : List Nat} {s : St}
    (hs : Coh s) (h1 : TC k seen s) (h2 : TE k seen s evs) (hk : keptStep p k s x) :
    TC k (seen ++ offeredIn k x) (step p s x).1 ∧
    TE k (seen ++ offeredIn k x) (step p s x).1 (evs ++ (step p s x).2) := by
  obtain ⟨f1, f2⟩ := track_folded (evs := evs) x hs h1 h2
  have hcf := coh_folded x hs
  -- the cache after the iteration
  have hTC : TC k (seen ++ offeredIn k x) (step p s x).1 ∧
      (∀ b, lookup k (arm p s x).buf = some b → seen ++ offeredIn k x ≠ [] ∧ b = maxCl (seen ++ offeredIn k x)) := by
    by_cases hne : seen ++ offeredIn k x = []
    · have hn := f1.1 hne
      refine ⟨⟨fun _ => ?_, fun e => absurd hne e⟩, ?_⟩
      · refine ⟨?_, ?_⟩
        · rw [step_cache]
          cases hl : lookup k (arm p s x).cache with
          | none => rfl
          | some v => have := arm_cache_sub x hs hl; rw [hn.1] at this; simp at this
        · cases hp : (arm p s x).process with
          | true => exact step_buf_none_of_process x k hp
          | false => rw [step_buf_of_not_process x hp, arm_buf]; exact hn.2
      · intro b hb; rw [arm_buf, hn.2] at hb; simp at hb
    · have hc := f1.2 hne
      have hcached : cached k (step p s x).1 = true := by
        apply hk
        by_cases hseen : seen = []
        · right; intro e; apply hne; rw [hseen, e]; rfl
        · left; simp [cached, h1.2 hseen]
      simp only [cached] at hcached
      obtain ⟨v, hv⟩ := Option.isSome_iff_exists.1 hcached
      have hv' := hv
      rw [step_cache] at hv'
      have := arm_cache_sub x hs hv'
      rw [hc] at this; simp only [Option.some.injEq] at this; subst this
      refine ⟨⟨fun e => absurd e hne, fun _ => hv⟩, ?_⟩
      intro b hb
      rw [arm_buf] at hb
      exact ⟨hne, hcf.agree k _ b hc hb⟩
  refine ⟨hTC.1, ?_⟩
  obtain ⟨g1, g2, g3⟩ := f2
  cases hp : (arm p s x).process with
  | false =>
    rw [step_buf_of_not_process x hp]
    simp only [List.append_nil]
    exact ⟨g1, g2, fun hne hb => g3 hne (by rw [← arm_buf p]; exact hb)⟩
  | true =>
    have hev : (step p s x).2 = (arm p s x).buf.map toEvent := by unfold step finish; simp [hp]
    rw [hev]; unfold TE; rw [clsOf_append]
    cases hb : lookup k (arm p s x).buf with
    | none =>
      rw [clsOf_map_toEvent_of_none hb, List.append_nil]
      refine ⟨g1, g2, fun hne _ => g3 hne (by rw [← arm_buf p]; exact hb)⟩
    | some b =>
      obtain ⟨hne, hbm⟩ := hTC.2 b hb
      rw [clsOf_map_toEvent_of_some (coh_arm x hs).bufNodup hb]
      refine ⟨?_, ?_, ?_⟩
      · rw [List.pairwise_append]
        refine ⟨g1, by simp, ?_⟩
        intro a ha y hy
        simp only [List.mem_singleton] at hy; subst hy
        have := g2 a ha; omega
      · intro y hy
        simp only [List.mem_append, List.mem_singleton] at hy
        rcases hy with hy | hy
        · exact g2 y hy
        · omega
      · intro _ _; simp [hbm]

/-- `keptThroughout` unfolded into per-iteration conditions -/
theorem kept_cons {p : Params} {k : Nat} {s : St} {x : In} {xs : List In}
    (h : keptThroughout p k s (x :: xs) = true) :
    keptStep p k s x ∧ keptThroughout p k (step p s x).1 xs = true := by
  simp only [keptThroughout, Bool.and_eq_true] at h
  refine ⟨?_, h.2⟩
  intro hc
  have h1 := h.1
  split at h1
  · exact h1
  · rename_i hn
    exfalso; apply hn
    rcases hc with hc | hc
    · simp [hc]
    · cases ho : offeredIn k x with
      | nil => exact absurd ho hc
      | cons a as => simp

theorem track_run {p : Params} {k : Nat} : ∀ (xs : List In) (seen : List Nat) (s : St) (evs : List Event),
    Coh s → TC k seen s → TE k seen s evs → keptThroughout p k s xs = true →
    TC k (seen ++ offered k xs) (stateAfter p s xs) ∧
    TE k (seen ++ offered k xs) (stateAfter p s xs) (evs ++ events p s xs) := by
  intro xs
  induction xs with
  | nil => intro seen s evs _ h1 h2 _; simpa [offered, stateAfter, events, run] using ⟨h1, h2⟩
  | cons x xs ih =>
    intro seen s evs hs h1 h2 hk
    obtain ⟨hk1, hk2⟩ := kept_cons hk
    obtain ⟨t1, t2⟩ := track_step (evs := evs) x hs h1 h2 hk1
    have := ih _ _ _ (coh_step x hs) t1 t2 hk2
    rw [stateAfter_cons, events_cons]
    simp only [offered, List.flatMap_cons] at this ⊢
    rw [← List.append_assoc, ← List.append_assoc]
    exact this

theorem tc_init (k : Nat) : TC k [] init := ⟨fun _ => by simp [init, lookup], fun h => absurd rfl h⟩
theorem te_init (k : Nat) : TE k [] init [] := ⟨by simp [clsOf], by simp [clsOf], fun h => absurd rfl h⟩

end Corro.Updates
