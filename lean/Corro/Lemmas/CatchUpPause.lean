/-
Lemmas for C12 about a batch that the matcher has sent and not committed (the window in which the
verification hook `verif_hooks::before_matcher_commit` holds the real matcher; harness op `wpause`):
* the coarse environment steps of the driver (`sendBatch`, `commitBatch`) are schedules of `Act`s;
* while the matcher stays there and the pipe delivers nothing more, a subscriber is never declared
  caught up (invariant `PInv`).
-/
import Corro.Lemmas.CatchUpSnap

namespace Corro.CatchUp

theorem sendBatch_eq (cfg : Cfg) (n : Nat) : ∀ e : Env, sendBatch cfg e n = { e with sent := e.sent + n } := by
  induction n with
  | zero => intro e; rfl
  | succ n ih =>
    intro e
    simp only [sendBatch, ih, stepEnv]
    congr 1
    omega

theorem run_replicate_emit (cfg : Cfg) (n : Nat) : ∀ (e : Env) (s : Sub),
    run cfg (e, s) (List.replicate n .emit) = (sendBatch cfg e n, s) := by
  induction n with
  | zero => intro e s; rfl
  | succ n ih =>
    intro e s
    simp only [List.replicate_succ, run, step, sendBatch]
    exact ih _ s

theorem run_append (cfg : Cfg) (a b : List Act) : ∀ st : State, run cfg st (a ++ b) = run cfg (run cfg st a) b := by
  induction a with
  | nil => intro st; rfl
  | cons x xs ih => intro st; simp only [List.cons_append, run]; exact ih _

theorem mem_idsFrom {lo hi k : Nat} (h : k ∈ idsFrom lo hi) : lo < k ∧ k ≤ hi := by
  simp only [idsFrom, List.mem_range'_1] at h
  omega

/-- actions of the subscriber's own tasks: the matcher stays where it is, the pipe and the purge idle -/
def SubOnly (a : Act) : Prop := a = .main ∨ a = .qrecv ∨ a = .qcancel

/-- what holds at each program point while the matcher sits between send and commit -/
def PausePc (e : Env) (s : Sub) : Prop :=
  match s.pc with
  | .start => True
  | .readEoq pin => pin ≤ e.committed
  | .tryRecv => s.last ≤ e.committed
  | .loop _ => s.target = some e.sent ∧ s.last ≤ e.committed ∧ s.minId ≤ e.sent
  | .afterLoop => s.target = some e.sent ∧ s.minId ≤ e.sent
  | .done => ∃ pre, s.out = pre ++ [.error, .closed]
  | _ => False

/-- invariant of a subscriber that subscribed while `committed < sent` and to which nothing more is
published: its queue stays empty, nothing above `committed` is delivered, it never gets past the
reconcile loop -/
structure PInv (e : Env) (s : Sub) : Prop where
  q : s.qHead = s.qTail
  cur : s.cur = e.published + 1
  qt : s.qt = .running
  nc : s.cancelled = false
  nh : s.handed = false
  ids : ∀ k ∈ chg s.out, k ≤ e.committed
  md : ∀ n, s.mode = .since n → n ≤ e.committed
  pcs : PausePc e s

theorem pinv_attach (e : Env) (m : Mode) (hm : ∀ n, m = .since n → n ≤ e.committed) : PInv e (attach e m) := by
  refine ⟨rfl, rfl, rfl, rfl, rfl, ?_, hm, ?_⟩
  · intro k hk; simp [attach, chg] at hk
  · simp [attach, PausePc]

theorem pinv_qrecv (cfg : Cfg) {e : Env} {s : Sub} (h : PInv e s) : stepQRecv cfg e s = s := by
  obtain ⟨q, cur, qt, nc, nh, ids, md, pcs⟩ := h
  simp only [stepQRecv, lagging, qt, cur]
  simp
  intro h
  omega

theorem pinv_qcancel {e : Env} {s : Sub} (h : PInv e s) : stepQCancel s = s := by
  simp [stepQCancel, h.nc]

theorem pinv_main (cfg : Cfg) {e : Env} {s : Sub} (hun : e.committed < e.sent) (h : PInv e s) :
    PInv e (stepMain cfg e s) := by
  obtain ⟨q, cur, qt, nc, nh, ids, md, pcs⟩ := h
  obtain ⟨mode, pc, cur', qHead, qTail, qt', cancelled, last, minId, pending, target, base, handed, out⟩ := s
  simp only [] at q cur qt nc nh ids md
  subst q cur qt nc nh
  cases pc with
  | start =>
    cases mode with
    | anew =>
      simp only [stepMain]
      refine ⟨rfl, rfl, rfl, rfl, rfl, ?_, md, ?_⟩
      · intro k hk
        simp only [chg_append, chg, List.append_nil] at hk
        exact ids k hk
      · simp [PausePc]
    | skip =>
      simp only [stepMain]
      exact ⟨rfl, rfl, rfl, rfl, rfl, ids, md, by simp [PausePc]⟩
    | since n =>
      have hn : n ≤ e.committed := md n rfl
      simp only [stepMain, logRead]
      refine ⟨rfl, rfl, rfl, rfl, rfl, ?_, md, ?_⟩
      · intro k hk
        simp only [chg_append, chg_map_change, List.mem_append] at hk
        rcases hk with hk | hk
        · exact ids k hk
        · exact (mem_idsFrom hk).2
      · simp only [PausePc]
        omega
  | readEoq pin =>
    simp only [PausePc] at pcs
    simp only [stepMain]
    refine ⟨rfl, rfl, rfl, rfl, rfl, ?_, md, ?_⟩
    · intro k hk
      simp only [chg_append, chg, List.append_nil] at hk
      exact ids k hk
    · simpa [PausePc] using pcs
  | tryRecv =>
    simp only [PausePc] at pcs
    have h1 : ¬ qHead < qHead := Nat.lt_irrefl _
    have h2 : ¬ e.sent ≤ last := by omega
    simp only [stepMain, h1, h2, if_false]
    simp only [reduceCtorEq, or_self, if_false]
    refine ⟨rfl, rfl, rfl, rfl, rfl, ids, md, ?_⟩
    simp only [PausePc]
    exact ⟨trivial, pcs, by omega⟩
  | loop i =>
    simp only [PausePc] at pcs
    obtain ⟨ht, hl, hm⟩ := pcs
    subst ht
    simp only [stepMain]
    split
    · have h3 : last + 1 ≤ e.sent := by omega
      simp only [h3, if_true, logRead]
      refine ⟨rfl, rfl, rfl, rfl, rfl, ?_, md, ?_⟩
      · intro k hk
        simp only [chg_append, chg_map_change, List.mem_append] at hk
        rcases hk with hk | hk
        · exact ids k hk
        · exact (mem_idsFrom hk).2
      · simp only [PausePc]
        exact ⟨trivial, by omega, by omega⟩
    · exact ⟨rfl, rfl, rfl, rfl, rfl, ids, md, by simp only [PausePc]; exact ⟨trivial, hm⟩⟩
  | afterLoop =>
    simp only [PausePc] at pcs
    obtain ⟨ht, hm⟩ := pcs
    subst ht
    simp only [stepMain, hm, if_true]
    refine ⟨rfl, rfl, rfl, rfl, rfl, ?_, md, ?_⟩
    · intro k hk
      simp only [chg_append, chg, List.append_nil] at hk
      exact ids k hk
    · simp only [PausePc]
      exact ⟨out, rfl⟩
  | done =>
    simp only [stepMain]
    exact ⟨rfl, rfl, rfl, rfl, rfl, ids, md, pcs⟩
  | sendPending => exact absurd pcs (by simp [PausePc])
  | cancel => exact absurd pcs (by simp [PausePc])
  | drain => exact absurd pcs (by simp [PausePc])
  | join => exact absurd pcs (by simp [PausePc])
  | live => exact absurd pcs (by simp [PausePc])

theorem run_pinv (cfg : Cfg) (acts : List Act) : ∀ (e : Env) (s : Sub), e.committed < e.sent → PInv e s →
    (∀ a ∈ acts, SubOnly a) →
    (run cfg (e, s) acts).1 = e ∧ PInv e (run cfg (e, s) acts).2 := by
  induction acts with
  | nil => intro e s _ h _; exact ⟨rfl, h⟩
  | cons a as ih =>
    intro e s hun h ha
    have hrest : ∀ a ∈ as, SubOnly a := fun x hx => ha x (List.mem_cons_of_mem _ hx)
    simp only [run]
    rcases ha a (List.mem_cons_self ..) with rfl | rfl | rfl
    · exact ih e _ hun (pinv_main cfg hun h) hrest
    · simp only [step, pinv_qrecv cfg h]
      exact ih e s hun h hrest
    · simp only [step, pinv_qcancel h]
      exact ih e s hun h hrest

end Corro.CatchUp
