/-
Helper lemmas for C15 (`Corro.Schema`): association lists, the planner, execution on the abstract
database, and the invariant tying the in-memory schema, the database and `__corro_schema` together.
-/
import Corro.Model.Schema

namespace Corro.Schema
open AList

/-! ### association lists -/
section alist
variable {α : Type}

@[simp] theorem lookup_nil (k : Name) : lookup k ([] : AList α) = none := rfl

theorem lookup_cons (k k' : Name) (v : α) (l : AList α) :
    lookup k ((k', v) :: l) = if k' = k then some v else lookup k l := rfl

theorem insert_cons (k k' : Name) (v v' : α) (l : AList α) :
    AList.insert k v ((k', v') :: l) = if k' = k then (k, v) :: l else (k', v') :: AList.insert k v l := rfl

theorem erase_cons (k k' : Name) (v' : α) (l : AList α) :
    AList.erase k ((k', v') :: l) = if k' = k then AList.erase k l else (k', v') :: AList.erase k l := by
  unfold AList.erase; by_cases h : k' = k <;> simp [h]

theorem modify_cons (k k' : Name) (f : α → α) (v' : α) (l : AList α) :
    AList.modify k f ((k', v') :: l) = if k' = k then (k', f v') :: l else (k', v') :: AList.modify k f l := rfl

theorem lookup_insert (k k' : Name) (v : α) (l : AList α) :
    lookup k (AList.insert k' v l) = if k' = k then some v else lookup k l := by
  induction l with
  | nil => simp [AList.insert, lookup_cons]
  | cons e r ih => obtain ⟨a, b⟩ := e; grind [insert_cons, lookup_cons]

theorem lookup_insert_self (k : Name) (v : α) (l : AList α) : lookup k (AList.insert k v l) = some v := by
  simp [lookup_insert]

theorem lookup_insert_ne {k k' : Name} (h : k' ≠ k) (v : α) (l : AList α) :
    lookup k (AList.insert k' v l) = lookup k l := by
  simp [lookup_insert, h]

theorem insert_eq_self {k : Name} {v : α} {l : AList α} (h : lookup k l = some v) : AList.insert k v l = l := by
  induction l with
  | nil => simp at h
  | cons e r ih => obtain ⟨a, b⟩ := e; grind [insert_cons, lookup_cons]

theorem lookup_erase (k k' : Name) (l : AList α) :
    lookup k (AList.erase k' l) = if k' = k then none else lookup k l := by
  induction l with
  | nil => simp [AList.erase]
  | cons e r ih => obtain ⟨a, b⟩ := e; grind [erase_cons, lookup_cons]

theorem erase_eq_self {k : Name} {l : AList α} (h : lookup k l = none) : AList.erase k l = l := by
  induction l with
  | nil => rfl
  | cons e r ih => obtain ⟨a, b⟩ := e; grind [erase_cons, lookup_cons]

theorem lookup_modify (k k' : Name) (f : α → α) (l : AList α) :
    lookup k (AList.modify k' f l) = if k' = k then (lookup k l).map f else lookup k l := by
  induction l with
  | nil => simp [AList.modify]
  | cons e r ih => obtain ⟨a, b⟩ := e; grind [modify_cons, lookup_cons]

theorem lookup_append (k : Name) (l m : AList α) :
    lookup k (l ++ m) = match lookup k l with
      | some v => some v
      | none => lookup k m := by
  induction l with
  | nil => simp
  | cons e r ih =>
    obtain ⟨a, b⟩ := e
    by_cases h : a = k <;> simp [lookup_cons, h, ih]

theorem lookup_some_mem {k : Name} {v : α} {l : AList α} (h : lookup k l = some v) : (k, v) ∈ l := by
  induction l with
  | nil => simp at h
  | cons e r ih =>
    obtain ⟨a, b⟩ := e
    by_cases h1 : a = k
    · simp [lookup_cons, h1] at h; simp [h1, h]
    · simp [lookup_cons, h1] at h; exact List.mem_cons_of_mem _ (ih h)

theorem lookup_eq_none_iff {k : Name} {l : AList α} : lookup k l = none ↔ k ∉ keys l := by
  induction l with
  | nil => simp [keys]
  | cons e r ih =>
    obtain ⟨a, b⟩ := e
    by_cases h1 : a = k
    · simp [lookup_cons, h1, keys]
    · simp only [lookup_cons, h1, if_false, ih, keys, List.map_cons, List.mem_cons, not_or]
      constructor
      · intro h; exact ⟨fun h2 => h1 h2.symm, h⟩
      · intro h; exact h.2

theorem contains_iff {k : Name} {l : AList α} : contains k l = true ↔ k ∈ keys l := by
  unfold contains
  cases h : lookup k l with
  | none => simp [lookup_eq_none_iff.mp h]
  | some v =>
    simp
    have := lookup_some_mem h
    exact List.mem_map.mpr ⟨(k, v), this, rfl⟩

theorem contains_false_iff {k : Name} {l : AList α} : contains k l = false ↔ lookup k l = none := by
  unfold contains; cases lookup k l <;> simp

theorem contains_of_lookup {k : Name} {v : α} {l : AList α} (h : lookup k l = some v) : contains k l = true := by
  simp [contains, h]

theorem lookup_isSome_of_mem_keys {k : Name} {l : AList α} (h : k ∈ keys l) : ∃ v, lookup k l = some v := by
  cases h1 : lookup k l with
  | none => exact absurd h (lookup_eq_none_iff.mp h1)
  | some v => exact ⟨v, rfl⟩

/-- filtering on the key does not disturb the entries that pass -/
theorem lookup_filter_key (p : Name → Bool) (k : Name) (l : AList α) :
    lookup k (l.filter (fun e => p e.1)) = if p k then lookup k l else none := by
  induction l with
  | nil => simp
  | cons e r ih =>
    obtain ⟨a, b⟩ := e
    by_cases h1 : a = k
    · subst h1
      by_cases hp : p a <;> simp [hp, lookup_cons, ih]
    · by_cases hp : p a <;> simp [hp, lookup_cons, h1, ih]

theorem keys_append (l m : AList α) : keys (l ++ m) = keys l ++ keys m := by simp [keys]

theorem keys_insert_of_contains {k : Name} (v : α) {l : AList α} (h : k ∈ keys l) : keys (AList.insert k v l) = keys l := by
  induction l with
  | nil => simp [keys] at h
  | cons e r ih =>
    obtain ⟨a, b⟩ := e
    by_cases h1 : a = k
    · simp [AList.insert, h1, keys]
    · have : k ∈ keys r := by
        simp [keys] at h ⊢
        rcases h with h | h
        · exact absurd h.symm h1
        · exact h
      have := ih this
      simp [AList.insert, h1, keys] at this ⊢
      exact this

theorem keys_insert_of_not_contains {k : Name} (v : α) {l : AList α} (h : k ∉ keys l) :
    keys (AList.insert k v l) = keys l ++ [k] := by
  induction l with
  | nil => simp [keys, AList.insert]
  | cons e r ih =>
    obtain ⟨a, b⟩ := e
    have h1 : a ≠ k := by intro h2; apply h; simp [keys, h2]
    have h3 : k ∉ keys r := by intro h2; apply h; simp [keys] at h2 ⊢; exact Or.inr h2
    have := ih h3
    simp [AList.insert, h1, keys] at this ⊢
    exact this

theorem mem_keys_insert {k k' : Name} {v : α} {l : AList α} : k ∈ keys (AList.insert k' v l) ↔ k = k' ∨ k ∈ keys l := by
  by_cases h : k' ∈ keys l
  · rw [keys_insert_of_contains v h]
    constructor
    · exact Or.inr
    · rintro (h1 | h1)
      · exact h1 ▸ h
      · exact h1
  · rw [keys_insert_of_not_contains v h]; simp [or_comm]

def NodupKeys (l : AList α) : Prop := (keys l).Nodup

theorem nodupKeys_nil : NodupKeys ([] : AList α) := by simp [NodupKeys, keys]

theorem nodupKeys_insert {k : Name} (v : α) {l : AList α} (h : NodupKeys l) : NodupKeys (AList.insert k v l) := by
  unfold NodupKeys at *
  by_cases h1 : k ∈ keys l
  · rw [keys_insert_of_contains v h1]; exact h
  · rw [keys_insert_of_not_contains v h1]
    exact List.nodup_append.mpr ⟨h, by simp, by intro a ha b hb; simp at hb; subst hb; intro h2; exact h1 (h2 ▸ ha)⟩

theorem nodupKeys_erase {k : Name} {l : AList α} (h : NodupKeys l) : NodupKeys (AList.erase k l) := by
  unfold NodupKeys keys AList.erase at *
  exact (List.Sublist.map _ List.filter_sublist).nodup h

theorem nodupKeys_filter (p : Name × α → Bool) {l : AList α} (h : NodupKeys l) : NodupKeys (l.filter p) := by
  unfold NodupKeys keys at *
  exact (List.Sublist.map _ List.filter_sublist).nodup h

theorem filterMap_congr' {β γ : Type} {f g : β → Option γ} {l : List β} (h : ∀ x ∈ l, f x = g x) :
    l.filterMap f = l.filterMap g := by
  induction l with
  | nil => rfl
  | cons a r ih =>
    have h1 := h a (by simp)
    have h2 := ih (fun x hx => h x (by simp [hx]))
    simp [List.filterMap_cons, h1, h2]

/-- with distinct keys, reading every key back gives the list itself -/
theorem filterMap_keys_lookup {l : AList α} (h : NodupKeys l) :
    (keys l).filterMap (fun k => (lookup k l).map (fun c => (k, c))) = l := by
  induction l with
  | nil => rfl
  | cons e r ih =>
    obtain ⟨a, b⟩ := e
    have hn : a ∉ keys r ∧ NodupKeys r := by
      unfold NodupKeys keys at h ⊢; simpa using h
    have h1 : (keys r).filterMap (fun k => (lookup k ((a, b) :: r)).map (fun c => (k, c)))
        = (keys r).filterMap (fun k => (lookup k r).map (fun c => (k, c))) := by
      apply filterMap_congr'
      intro k hk
      have : a ≠ k := by intro h2; subst h2; exact hn.1 hk
      simp [lookup_cons, this]
    have h2 : keys ((a, b) :: r) = a :: keys r := rfl
    rw [h2, List.filterMap_cons, h1, ih hn.2]
    simp [lookup_cons]

theorem lookup_filterMap_keys (f : Name → Option α) (k : Name) (ks : List Name) :
    lookup k (ks.filterMap (fun n => (f n).map (fun c => (n, c)))) = if k ∈ ks then f k else none := by
  induction ks with
  | nil => simp
  | cons a r ih =>
    by_cases h : a = k
    · subst h
      cases hf : f a with
      | none => simp [hf, ih]
      | some c => simp [hf, lookup_cons]
    · have h' : ¬ k = a := fun h2 => h h2.symm
      cases hf : f a with
      | none => simp [hf, ih, h']
      | some c => simp [hf, lookup_cons, h, ih, h']

end alist

/-! ### the planner -/

theorem andThen_ok_iff (a b : Steps) : (Steps.andThen a b).2 = none ↔ a.2 = none ∧ b.2 = none := by
  unfold Steps.andThen
  cases h : a.2 <;> simp

theorem andThen_acts {a b : Steps} (h : a.2 = none) : (Steps.andThen a b).1 = a.1 ++ b.1 := by
  unfold Steps.andThen; simp [h]

theorem mem_andThen {x : Action} {a b : Steps} (h : x ∈ (Steps.andThen a b).1) : x ∈ a.1 ∨ x ∈ b.1 := by
  unfold Steps.andThen at h
  cases h2 : a.2 with
  | none => simp [h2] at h; exact h
  | some e => simp [h2] at h; exact Or.inl h

theorem mem_addColSteps {tbl : Name} {l : AList Column} {x : Action} (h : x ∈ (addColSteps tbl l).1) :
    ∃ n c, (n, c) ∈ l ∧ x = .addColumn tbl n c ∧ c.pk = false := by
  induction l with
  | nil => simp [addColSteps] at h
  | cons e r ih =>
    obtain ⟨n, c⟩ := e
    unfold addColSteps at h
    split at h
    · simp at h
    · split at h
      · simp at h
      · rename_i hpk _
        rcases mem_andThen h with h1 | h1
        · simp at h1
          exact ⟨n, c, by simp, h1, by simpa using hpk⟩
        · obtain ⟨n', c', hm, hx, hp⟩ := ih h1
          exact ⟨n', c', List.mem_cons_of_mem _ hm, hx, hp⟩

theorem addColSteps_ok {tbl : Name} {l : AList Column} (h : (addColSteps tbl l).2 = none) :
    (addColSteps tbl l).1 = l.map (fun e => Action.addColumn tbl e.1 e.2) := by
  induction l with
  | nil => simp [addColSteps]
  | cons e r ih =>
    obtain ⟨n, c⟩ := e
    unfold addColSteps at h ⊢
    split
    · rename_i h1; simp [h1] at h
    · split
      · rename_i h1 h2; simp [h1, h2] at h
      · rename_i h1 h2
        rw [if_neg h1, if_neg h2] at h
        have h3 := (andThen_ok_iff _ _).mp h
        rw [andThen_acts (by rfl), ih h3.2]
        simp

/-- what `indexActions` can contain -/
theorem mem_indexActions {tbl : Name} {o n : AList Index} {x : Action} (h : x ∈ indexActions tbl o n) :
    (∃ i ix, x = .createIndex tbl i ix) ∨ (∃ i, x = .dropIndex tbl i) := by
  unfold indexActions at h
  simp only [List.mem_append, List.mem_filterMap, List.mem_map, List.mem_flatten] at h
  rcases h with (⟨k, _, hk⟩ | ⟨k, _, hk⟩) | ⟨l, ⟨k, _, hk⟩, hx⟩
  · cases hl : lookup k n with
    | none => simp [hl] at hk
    | some i => simp [hl] at hk; exact Or.inl ⟨k, i, hk.symm⟩
  · exact Or.inr ⟨k, hk.symm⟩
  · cases hl : changedIndex o n k with
    | none => simp [hl] at hk
    | some i =>
      simp [hl] at hk; subst hk; simp at hx
      rcases hx with hx | hx
      · exact Or.inr ⟨k, hx⟩
      · exact Or.inl ⟨k, i, hx⟩

theorem tableSteps_ok {name : Name} {t nt : Table} (h : (tableSteps name t nt).2 = none) :
    (∀ c ∈ keys t.cols, contains c nt.cols = true) ∧
    (∀ c ∈ keys t.cols, ∀ c', lookup c nt.cols = some c' → lookup c t.cols = some c') ∧
    t.pk = nt.pk ∧ (addColSteps name (newCols t nt)).2 = none ∧
    (tableSteps name t nt).1 = (addColSteps name (newCols t nt)).1 ++ indexActions name t.idx nt.idx := by
  unfold tableSteps at h ⊢
  split at h
  · simp at h
  · rename_i h1
    split at h
    · simp at h
    · rename_i h2
      split at h
      · simp at h
      · rename_i h3
        have h4 := (andThen_ok_iff _ _).mp h
        simp only [h1, h2, h3, if_false]
        refine ⟨?_, ?_, by simpa using h3, h4.1, ?_⟩
        · intro c hc
          simp only [List.any_eq_true, not_exists, not_and, Bool.not_eq_true] at h1
          have := h1 c hc
          simpa using this
        · intro c hc c' hl
          simp only [List.any_eq_true, not_exists, not_and, Bool.not_eq_true] at h2
          have := h2 c hc
          simp [colChanged, hl] at this
          exact this
        · simp only [Bool.false_eq_true, if_false]
          rw [andThen_acts h4.1]

theorem mem_newCols {t nt : Table} {n : Name} {c : Column} (h : (n, c) ∈ newCols t nt) :
    (n, c) ∈ nt.cols ∧ lookup n t.cols = none := by
  unfold newCols at h
  simp only [List.mem_filter, Bool.not_eq_eq_eq_not, Bool.not_true] at h
  exact ⟨h.1, contains_false_iff.mp h.2⟩

theorem mem_tableSteps {name : Name} {t nt : Table} {x : Action} (h : x ∈ (tableSteps name t nt).1) :
    (∃ n c, x = .addColumn name n c ∧ lookup n t.cols = none ∧ c.pk = false) ∨
    (∃ i ix, x = .createIndex name i ix) ∨ (∃ i, x = .dropIndex name i) := by
  unfold tableSteps at h
  split at h
  · simp at h
  · split at h
    · simp at h
    · split at h
      · simp at h
      · rcases mem_andThen h with h1 | h1
        · obtain ⟨n, c, hm, hx, hp⟩ := mem_addColSteps h1
          exact Or.inl ⟨n, c, hx, (mem_newCols hm).2, hp⟩
        · exact Or.inr (mem_indexActions h1)

theorem mem_interSteps {old new : Schema} {L : List Name} {x : Action} (h : x ∈ (interSteps old new L).1) :
    ∃ n t nt, n ∈ L ∧ lookup n old = some t ∧ lookup n new = some nt ∧ x ∈ (tableSteps n t nt).1 := by
  induction L with
  | nil => simp [interSteps] at h
  | cons n r ih =>
    unfold interSteps at h
    split at h
    · rename_i t nt ho hn
      rcases mem_andThen h with h1 | h1
      · exact ⟨n, t, nt, by simp, ho, hn, h1⟩
      · obtain ⟨n', t', nt', hm, r1, r2, r3⟩ := ih h1
        exact ⟨n', t', nt', List.mem_cons_of_mem _ hm, r1, r2, r3⟩
    · obtain ⟨n', t', nt', hm, r1, r2, r3⟩ := ih h
      exact ⟨n', t', nt', List.mem_cons_of_mem _ hm, r1, r2, r3⟩

theorem interSteps_ok {old new : Schema} {L : List Name} (h : (interSteps old new L).2 = none) :
    ∀ n ∈ L, ∀ t nt, lookup n old = some t → lookup n new = some nt → (tableSteps n t nt).2 = none := by
  induction L with
  | nil => simp
  | cons n r ih =>
    intro m hm t nt ho hn
    unfold interSteps at h
    split at h
    · rename_i t' nt' ho' hn'
      have h2 := (andThen_ok_iff _ _).mp h
      rcases List.mem_cons.mp hm with rfl | hm
      · rw [ho] at ho'; rw [hn] at hn'
        cases ho'; cases hn'; exact h2.1
      · exact ih h2.2 m hm t nt ho hn
    · rename_i hno
      rcases List.mem_cons.mp hm with rfl | hm
      · exact (hno t nt ho hn).elim
      · exact ih h m hm t nt ho hn

theorem mem_newTableActions {old new : Schema} {x : Action} (h : x ∈ newTableActions old new) :
    ∃ n t, x = .createTable n t ∧ lookup n old = none ∧ (n, t) ∈ new := by
  unfold newTableActions at h
  simp only [List.mem_map, List.mem_filter, Bool.not_eq_eq_eq_not, Bool.not_true] at h
  obtain ⟨⟨k, t⟩, ⟨hm, hk⟩, hx⟩ := h
  exact ⟨k, t, hx.symm, contains_false_iff.mp hk, hm⟩

theorem planSteps_ok {old new : Schema} (h : (planSteps old new).2 = none) :
    (∀ k ∈ keys old, contains k new = true) ∧
    (planSteps old new).1 = newTableActions old new ++ (interSteps old new (keys new)).1 ∧
    (interSteps old new (keys new)).2 = none := by
  unfold planSteps at h ⊢
  split at h
  · simp at h
  · rename_i h1
    have h2 := (andThen_ok_iff _ _).mp h
    simp only [h1]
    refine ⟨?_, ?_, h2.2⟩
    · intro k hk
      simp only [List.any_eq_true, not_exists, not_and, Bool.not_eq_true] at h1
      simpa using h1 k hk
    · simp only [Bool.false_eq_true, if_false]
      rw [andThen_acts (by rfl)]

theorem mem_planSteps {old new : Schema} {x : Action} (h : x ∈ (planSteps old new).1) :
    x ∈ newTableActions old new ∨ x ∈ (interSteps old new (keys new)).1 := by
  unfold planSteps at h
  split at h
  · simp at h
  · exact mem_andThen h

/-- what a statement of the plan may be: a table that did not exist, a column that did not exist and is
not part of the key, or an index statement on a table that exists -/
def Action.Additive (old new : Schema) : Action → Prop
  | .createTable n t => lookup n old = none ∧ (n, t) ∈ new
  | .addColumn tbl col c => ∃ t, lookup tbl old = some t ∧ lookup col t.cols = none ∧ c.pk = false
  | .createIndex tbl _ _ => contains tbl old = true
  | .dropIndex tbl _ => contains tbl old = true

theorem planSteps_additive (old new : Schema) : ∀ a ∈ (planSteps old new).1, a.Additive old new := by
  intro a ha
  rcases mem_planSteps ha with h | h
  · obtain ⟨n, t, rfl, h1, h2⟩ := mem_newTableActions h
    exact ⟨h1, h2⟩
  · obtain ⟨n, t, nt, _, ho, hn, hx⟩ := mem_interSteps h
    rcases mem_tableSteps hx with ⟨c, col, rfl, h1, h2⟩ | ⟨i, ix, rfl⟩ | ⟨i, rfl⟩
    · exact ⟨t, ho, h1, h2⟩
    · exact contains_of_lookup ho
    · exact contains_of_lookup ho

/-! ### `submit`, taken apart -/

theorem submit_err {st st' : State} {stmts : List Stmt} {e : Err} (h : submit st stmts = (st', .error e)) :
    st' = st := by
  unfold submit at h
  split at h
  · cases h; rfl
  · split at h
    · cases h; rfl
    · simp only at h
      split at h
      · cases h; rfl
      · split at h
        · cases h; rfl
        · cases h

theorem submit_ok {st st' : State} {stmts : List Stmt} {r : Applied} (h : submit st stmts = (st', .ok r)) :
    ∃ part tables' imp,
      parse stmts = .ok part ∧
      constrain (merge st.mem part) = none ∧
      (planSteps st.mem (merge st.mem part)).2 = none ∧
      execAll st.db.tables (planSteps st.mem (merge st.mem part)).1 = .ok (tables', imp) ∧
      st' = { db := { tables := tables', persisted := rewritePersisted tables' (keys part) st.db.persisted },
              mem := reorderSchema st.mem (merge (merge st.mem part) imp) } ∧
      r = { acts := (planSteps st.mem (merge st.mem part)).1, imported := keys imp } := by
  unfold submit at h
  split at h
  · cases h
  · split at h
    · cases h
    · rename_i part hp
      simp only at h
      split at h
      · cases h
      · rename_i hc
        split at h
        · cases h
        · rename_i tables' new' acts imp' ha
          unfold applySchema at ha
          simp only at ha
          split at ha
          · cases ha
          · rename_i db' imp he
            split at ha
            · cases ha
            · rename_i hs
              cases ha
              cases h
              exact ⟨part, tables', imp, hp, hc, hs, he, rfl, rfl⟩

/-! ### executing the statements on the abstract database -/

theorem execAll_eq_foldl {db db' : Tables} {acts : List Action} {imp : List (Name × Table)}
    (h : execAll db acts = .ok (db', imp)) : db' = acts.foldl effect db := by
  induction acts generalizing db imp with
  | nil => simp [execAll] at h; simp [h.1]
  | cons a r ih =>
    unfold execAll at h
    split at h
    · cases h
    · split at h
      · cases h
      · rename_i db'' imp' he
        cases h
        simpa using ih he

/-- what execution may do to a table that exists: the key stays, columns are only appended, every row
is extended by the same new cells, a replicated table stays replicated -/
structure TableExt (dt dt' : DbTable) : Prop where
  pk : dt'.tbl.pk = dt.tbl.pk
  cols : ∃ cs, dt'.tbl.cols = dt.tbl.cols ++ cs
  rows : ∃ ext, dt'.rows = dt.rows.map (fun r => r ++ ext)
  crr : dt.crr = true → dt'.crr = true

theorem TableExt.refl (dt : DbTable) : TableExt dt dt :=
  ⟨rfl, ⟨[], by simp⟩, ⟨[], by simp⟩, id⟩

theorem TableExt.trans {a b c : DbTable} (h1 : TableExt a b) (h2 : TableExt b c) : TableExt a c := by
  obtain ⟨p1, ⟨c1, hc1⟩, ⟨e1, he1⟩, r1⟩ := h1
  obtain ⟨p2, ⟨c2, hc2⟩, ⟨e2, he2⟩, r2⟩ := h2
  refine ⟨p2.trans p1, ⟨c1 ++ c2, by rw [hc2, hc1, List.append_assoc]⟩, ⟨e1 ++ e2, ?_⟩, fun h => r2 (r1 h)⟩
  rw [he2, he1, List.map_map]
  apply List.map_congr_left
  intro r _
  simp

theorem tblEffect_ext (dt : DbTable) (a : Action) : TableExt dt (tblEffect dt a) := by
  cases a with
  | createTable n t => exact ⟨rfl, ⟨[], by simp [tblEffect]⟩, ⟨[], by simp [tblEffect]⟩, fun _ => rfl⟩
  | addColumn tbl col c =>
    refine ⟨rfl, ⟨[(col, c)], rfl⟩, ⟨if c.gen.isSome then [] else [(col, c.dflt.getD "NULL")], ?_⟩, id⟩
    simp only [tblEffect]
    apply List.map_congr_left
    intro r _
    unfold extendRow
    split <;> simp
  | createIndex tbl i ix => exact ⟨rfl, ⟨[], by simp [tblEffect]⟩, ⟨[], by simp [tblEffect]⟩, id⟩
  | dropIndex tbl i => exact ⟨rfl, ⟨[], by simp [tblEffect]⟩, ⟨[], by simp [tblEffect]⟩, id⟩

theorem effect_createTable (db : Tables) (n : Name) (t : Table) :
    effect db (.createTable n t) =
      if contains n db then AList.modify n (fun dt => tblEffect dt (.createTable n t)) db
      else db ++ [(n, { tbl := t, rows := [], crr := true })] := rfl

theorem effect_ext (db : Tables) (a : Action) {n : Name} {dt : DbTable} (h : lookup n db = some dt) :
    ∃ dt', lookup n (effect db a) = some dt' ∧ TableExt dt dt' := by
  have hmod : ∀ k, ∃ dt', lookup n (AList.modify k (fun d => tblEffect d a) db) = some dt' ∧ TableExt dt dt' := by
    intro k
    rw [lookup_modify]
    split
    · exact ⟨tblEffect dt a, by simp [h], tblEffect_ext dt a⟩
    · exact ⟨dt, h, TableExt.refl dt⟩
  cases a with
  | createTable k t =>
    rw [effect_createTable]
    split
    · exact hmod k
    · exact ⟨dt, by rw [lookup_append, h], TableExt.refl dt⟩
  | addColumn tbl col c => exact hmod tbl
  | createIndex tbl i ix => exact hmod tbl
  | dropIndex tbl i => exact hmod tbl

theorem foldl_effect_ext (acts : List Action) (db : Tables) {n : Name} {dt : DbTable} (h : lookup n db = some dt) :
    ∃ dt', lookup n (acts.foldl effect db) = some dt' ∧ TableExt dt dt' := by
  induction acts generalizing db dt with
  | nil => exact ⟨dt, h, TableExt.refl dt⟩
  | cons a r ih =>
    obtain ⟨d1, h1, e1⟩ := effect_ext db a h
    obtain ⟨d2, h2, e2⟩ := ih (effect db a) h1
    exact ⟨d2, by simpa using h2, e1.trans e2⟩

/-- every accepted submission only extends the tables of the database -/
theorem submit_db_ext {st st' : State} {stmts : List Stmt} {r : Applied} (h : submit st stmts = (st', .ok r))
    {n : Name} {dt : DbTable} (hn : lookup n st.db.tables = some dt) :
    ∃ dt', lookup n st'.db.tables = some dt' ∧ TableExt dt dt' := by
  obtain ⟨part, tables', imp, _, _, _, he, rfl, _⟩ := submit_ok h
  rw [execAll_eq_foldl he]
  exact foldl_effect_ext _ _ hn

/-! ### the in-memory schema after an accepted submission -/

theorem lookup_merge_of_not_mem {n : Name} (p : Schema) (m : Schema) (h : n ∉ keys p) :
    lookup n (merge m p) = lookup n m := by
  unfold merge
  induction p generalizing m with
  | nil => rfl
  | cons e r ih =>
    obtain ⟨k, v⟩ := e
    have h1 : k ≠ n := by intro h2; apply h; simp [keys, h2]
    have h2 : n ∉ keys r := by intro h3; apply h; simp [keys] at h3 ⊢; exact Or.inr h3
    simp only [List.foldl_cons]
    rw [ih _ h2, lookup_insert_ne h1]

theorem lookup_reorderSchema (old new : Schema) (n : Name) :
    lookup n (reorderSchema old new) = (lookup n new).map (fun nt => match lookup n old with
      | some t => reorderCols t nt
      | none => nt) := by
  unfold reorderSchema
  induction new with
  | nil => rfl
  | cons e r ih =>
    obtain ⟨k, v⟩ := e
    by_cases h : k = n
    · subst h
      cases ho : lookup k old <;> simp [List.map_cons, lookup_cons, ho]
    · cases ho : lookup k old <;> simp [List.map_cons, lookup_cons, ho, h, ih]

theorem lookup_reorderCols (t nt : Table) (c : Name) : lookup c (reorderCols t nt).cols = lookup c nt.cols := by
  unfold reorderCols newCols
  simp only []
  rw [lookup_append, lookup_filterMap_keys (fun k => lookup k nt.cols), lookup_filter_key (fun k => !contains k t.cols)]
  by_cases h : c ∈ keys t.cols
  · have hc : contains c t.cols = true := contains_iff.mpr h
    cases lookup c nt.cols <;> simp [h, hc]
  · have hc : contains c t.cols = false := by
      cases hc : contains c t.cols with
      | false => rfl
      | true => exact absurd (contains_iff.mp hc) h
    cases lookup c nt.cols <;> simp [h, hc]

theorem execAll_imported_mem {db db' : Tables} {acts : List Action} {imp : List (Name × Table)}
    (h : execAll db acts = .ok (db', imp)) : ∀ k ∈ keys imp, ∃ t, Action.createTable k t ∈ acts := by
  induction acts generalizing db imp with
  | nil => simp [execAll] at h; simp [h.2, keys]
  | cons a r ih =>
    unfold execAll at h
    split at h
    · cases h
    · split at h
      · cases h
      · rename_i db'' imp' he
        cases h
        intro k hk
        rw [keys_append] at hk
        rcases List.mem_append.mp hk with hk | hk
        · cases a with
          | createTable n t =>
            have him : imported db (.createTable n t) = match lookup n db with
                | some dt => [(n, dt.tbl)]
                | none => [] := rfl
            rw [him] at hk
            cases hl : lookup n db with
            | none => simp [hl, keys] at hk
            | some dt => simp [hl, keys] at hk; subst hk; exact ⟨t, by simp⟩
          | addColumn _ _ _ => simp [imported, keys] at hk
          | createIndex _ _ _ => simp [imported, keys] at hk
          | dropIndex _ _ => simp [imported, keys] at hk
        · obtain ⟨t, ht⟩ := ih he k hk
          exact ⟨t, List.mem_cons_of_mem _ ht⟩

/-- a table the node knew keeps, in memory, its key and every column definition -/
theorem submit_mem_ext {st st' : State} {stmts : List Stmt} {r : Applied} (h : submit st stmts = (st', .ok r))
    {n : Name} {t : Table} (hn : lookup n st.mem = some t) :
    ∃ t', lookup n st'.mem = some t' ∧ t'.pk = t.pk ∧
      ∀ c col, lookup c t.cols = some col → lookup c t'.cols = some col := by
  obtain ⟨part, tables', imp, _, _, hs, he, rfl, _⟩ := submit_ok h
  obtain ⟨hkeep, hacts, hinter⟩ := planSteps_ok hs
  have hcn := hkeep n (contains_iff.mp (contains_of_lookup hn))
  obtain ⟨nt, hnt⟩ : ∃ nt, lookup n (merge st.mem part) = some nt := by
    unfold contains at hcn
    cases hl : lookup n (merge st.mem part) with
    | none => simp [hl] at hcn
    | some nt => exact ⟨nt, rfl⟩
  have hts := interSteps_ok hinter n (contains_iff.mp (contains_of_lookup hnt)) t nt hn hnt
  obtain ⟨h1, h2, h3, _, _⟩ := tableSteps_ok hts
  -- imported tables are new tables, so they are not `n`
  have hni : n ∉ keys imp := by
    intro hk
    obtain ⟨t0, ht0⟩ := execAll_imported_mem he n hk
    have := planSteps_additive _ _ _ ht0
    simp [Action.Additive, hn] at this
  refine ⟨reorderCols t nt, ?_, ?_, ?_⟩
  · simp only []
    rw [lookup_reorderSchema, lookup_merge_of_not_mem _ _ hni, hnt]
    simp [hn]
  · simp [reorderCols, h3]
  · intro c col hc
    rw [lookup_reorderCols]
    have hk : c ∈ keys t.cols := contains_iff.mp (contains_of_lookup hc)
    have := h1 c hk
    unfold contains at this
    cases hl : lookup c nt.cols with
    | none => simp [hl] at this
    | some c' =>
      have := h2 c hk c' hl
      rw [hc] at this
      cases this; rfl

/-! ### more on association lists -/
section alist2
variable {α : Type}

theorem ext_of_keys_lookup {a b : AList α} (hk : keys a = keys b) (hl : ∀ k, lookup k a = lookup k b)
    (hn : NodupKeys a) : a = b := by
  induction a generalizing b with
  | nil => cases b with
    | nil => rfl
    | cons e r => simp [keys] at hk
  | cons e r ih =>
    obtain ⟨k, v⟩ := e
    cases b with
    | nil => simp [keys] at hk
    | cons e' r' =>
      obtain ⟨k', v'⟩ := e'
      simp only [keys, List.map_cons, List.cons.injEq] at hk
      obtain ⟨hk1, hk2⟩ := hk
      subst hk1
      have h0 := hl k
      simp only [lookup_cons, if_true, Option.some.injEq] at h0
      subst h0
      have hn' : k ∉ keys r ∧ NodupKeys r := by
        unfold NodupKeys keys at hn ⊢; simpa using hn
      congr 1
      apply ih hk2 _ hn'.2
      intro j
      by_cases hj : k = j
      · subst hj
        have h1 : lookup k r = none := lookup_eq_none_iff.mpr hn'.1
        have h2 : lookup k r' = none := lookup_eq_none_iff.mpr (by
          have : keys r' = keys r := hk2.symm
          rw [this]; exact hn'.1)
        rw [h1, h2]
      · have := hl j
        simpa [lookup_cons, hj] using this

theorem mem_insert {k n : Name} {v t : α} {l : AList α} (h : (n, t) ∈ AList.insert k v l) :
    (n, t) = (k, v) ∨ (n, t) ∈ l := by
  induction l with
  | nil => simp [AList.insert] at h; exact Or.inl (by simp [h])
  | cons e r ih =>
    obtain ⟨a, b⟩ := e
    rw [insert_cons] at h
    split at h
    · rcases List.mem_cons.mp h with h | h
      · exact Or.inl h
      · exact Or.inr (List.mem_cons_of_mem _ h)
    · rcases List.mem_cons.mp h with h | h
      · exact Or.inr (by simp [h])
      · rcases ih h with h | h
        · exact Or.inl h
        · exact Or.inr (List.mem_cons_of_mem _ h)

theorem keys_modify (k : Name) (f : α → α) (l : AList α) : keys (AList.modify k f l) = keys l := by
  induction l with
  | nil => rfl
  | cons e r ih =>
    obtain ⟨a, b⟩ := e
    rw [modify_cons]
    split
    · rfl
    · simp only [keys, List.map_cons] at ih ⊢; rw [ih]

end alist2

theorem nodupKeys_merge {m : Schema} (p : Schema) (h : NodupKeys m) : NodupKeys (merge m p) := by
  unfold merge
  induction p generalizing m with
  | nil => exact h
  | cons e r ih => exact ih (nodupKeys_insert _ h)

theorem lookup_merge_some {n : Name} {v : Table} {m : Schema} (p : Schema) (h : lookup n (merge m p) = some v) :
    lookup n m = some v ∨ (n, v) ∈ p := by
  unfold merge at h
  induction p generalizing m with
  | nil => exact Or.inl h
  | cons e r ih =>
    obtain ⟨k, t⟩ := e
    rcases ih h with h1 | h1
    · rw [lookup_insert] at h1
      split at h1
      · rename_i hk; subst hk; cases h1; exact Or.inr (by simp)
      · exact Or.inl h1
    · exact Or.inr (List.mem_cons_of_mem _ h1)

/-- what `merge` gives for a submitted table does not depend on what was there before -/
theorem lookup_merge_congr {n : Name} (p : Schema) {m m' : Schema} (h : n ∈ keys p ∨ lookup n m = lookup n m') :
    lookup n (merge m p) = lookup n (merge m' p) := by
  unfold merge
  induction p generalizing m m' with
  | nil =>
    rcases h with h | h
    · simp [keys] at h
    · exact h
  | cons e r ih =>
    obtain ⟨k, t⟩ := e
    simp only [List.foldl_cons]
    apply ih
    by_cases hk : k = n
    · right; simp [lookup_insert, hk]
    · rcases h with h | h
      · left
        simp only [keys, List.map_cons, List.mem_cons] at h
        rcases h with h | h
        · exact absurd h.symm hk
        · exact h
      · right; simp [lookup_insert, hk, h]

theorem keys_merge_of_subset {m : Schema} (p : Schema) (h : ∀ k ∈ keys p, k ∈ keys m) : keys (merge m p) = keys m := by
  unfold merge
  induction p generalizing m with
  | nil => rfl
  | cons e r ih =>
    obtain ⟨k, t⟩ := e
    simp only [List.foldl_cons]
    have hk : k ∈ keys m := h k (by simp [keys])
    rw [ih, keys_insert_of_contains _ hk]
    intro j hj
    rw [keys_insert_of_contains _ hk]
    exact h j (by simp only [keys, List.map_cons, List.mem_cons]; exact Or.inr hj)

theorem mem_keys_merge {m : Schema} (p : Schema) {k : Name} (h : k ∈ keys p ∨ k ∈ keys m) : k ∈ keys (merge m p) := by
  unfold merge
  induction p generalizing m with
  | nil =>
    rcases h with h | h
    · simp [keys] at h
    · exact h
  | cons e r ih =>
    obtain ⟨j, t⟩ := e
    simp only [List.foldl_cons]
    apply ih
    rcases h with h | h
    · simp only [keys, List.map_cons, List.mem_cons] at h
      rcases h with h | h
      · right; exact mem_keys_insert.mpr (Or.inl h)
      · left; exact h
    · right; exact mem_keys_insert.mpr (Or.inr h)

theorem keys_reorderSchema (old new : Schema) : keys (reorderSchema old new) = keys new := by
  unfold reorderSchema keys
  rw [List.map_map]
  apply List.map_congr_left
  intro e _
  simp only [Function.comp]
  split <;> rfl

/-! ### what execution does to one table -/

def Action.isCreate : Action → Bool
  | .createTable _ _ => true
  | _ => false

theorem effect_of_not_create {a : Action} (h : a.isCreate = false) (db : Tables) :
    effect db a = AList.modify a.table (fun dt => tblEffect dt a) db := by
  cases a <;> first | rfl | simp [Action.isCreate] at h

theorem lookup_foldl_effect (acts : List Action) (h : ∀ a ∈ acts, a.isCreate = false) (db : Tables) (n : Name) :
    lookup n (acts.foldl effect db) =
      (lookup n db).map (fun dt => (acts.filter (fun a => decide (a.table = n))).foldl tblEffect dt) := by
  induction acts generalizing db with
  | nil => simp
  | cons a r ih =>
    have h1 := h a (by simp)
    have h2 : ∀ x ∈ r, x.isCreate = false := fun x hx => h x (by simp [hx])
    simp only [List.foldl_cons]
    rw [ih h2, effect_of_not_create h1, lookup_modify]
    by_cases hn : a.table = n
    · simp [hn]
      cases lookup n db <;> simp
    · simp [hn]

def mkDbTable (t : Table) : DbTable := { tbl := t, rows := [], crr := true }

theorem foldl_effect_creates (L : Schema) (db : Tables) (hn : NodupKeys L)
    (hf : ∀ k ∈ keys L, lookup k db = none) :
    (L.map (fun e => Action.createTable e.1 e.2)).foldl effect db = db ++ L.map (fun e => (e.1, mkDbTable e.2)) := by
  induction L generalizing db with
  | nil => simp
  | cons e r ih =>
    obtain ⟨k, t⟩ := e
    have hk : lookup k db = none := hf k (by simp [keys])
    have hn' : k ∉ keys r ∧ NodupKeys r := by
      unfold NodupKeys keys at hn ⊢; simpa using hn
    simp only [List.map_cons, List.foldl_cons]
    rw [effect_createTable, contains_false_iff.mpr hk]
    simp only [Bool.false_eq_true, if_false]
    rw [ih _ hn'.2]
    · simp [mkDbTable]
    · intro j hj
      rw [lookup_append, hf j (by simp only [keys, List.map_cons, List.mem_cons]; exact Or.inr hj)]
      have : k ≠ j := by intro h; subst h; exact hn'.1 hj
      simp [lookup_cons, this]

theorem execAll_append {db db' : Tables} {a b : List Action} {imp : List (Name × Table)}
    (h : execAll db (a ++ b) = .ok (db', imp)) :
    ∃ db1 i1 i2, execAll db a = .ok (db1, i1) ∧ execAll db1 b = .ok (db', i2) ∧ imp = i1 ++ i2 := by
  induction a generalizing db imp with
  | nil => exact ⟨db, [], imp, rfl, h, rfl⟩
  | cons x r ih =>
    simp only [List.cons_append] at h
    unfold execAll at h
    split at h
    · cases h
    · rename_i hc
      split at h
      · cases h
      · rename_i db'' imp' he
        cases h
        obtain ⟨db1, i1, i2, h1, h2, h3⟩ := ih he
        refine ⟨db1, imported db x ++ i1, i2, ?_, h2, by rw [h3, List.append_assoc]⟩
        unfold execAll
        simp [hc, h1]

theorem execAll_noCreate_imp {db db' : Tables} {acts : List Action} {imp : List (Name × Table)}
    (hc : ∀ a ∈ acts, a.isCreate = false) (h : execAll db acts = .ok (db', imp)) : imp = [] := by
  induction acts generalizing db imp with
  | nil => simp [execAll] at h; exact h.2
  | cons x r ih =>
    unfold execAll at h
    split at h
    · cases h
    · split at h
      · cases h
      · rename_i db'' imp' he
        cases h
        have h1 := hc x (by simp)
        have : imported db x = [] := by cases x <;> first | rfl | simp [Action.isCreate] at h1
        rw [this, ih (fun a ha => hc a (by simp [ha])) he]
        rfl

theorem execAll_creates_imp (L : Schema) {db db' : Tables} {imp : List (Name × Table)} (hn : NodupKeys L)
    (hf : ∀ k ∈ keys L, lookup k db = none)
    (h : execAll db (L.map (fun e => Action.createTable e.1 e.2)) = .ok (db', imp)) : imp = [] := by
  induction L generalizing db imp with
  | nil => simp [execAll] at h; exact h.2
  | cons e r ih =>
    obtain ⟨k, t⟩ := e
    have hk : lookup k db = none := hf k (by simp [keys])
    have hn' : k ∉ keys r ∧ NodupKeys r := by
      unfold NodupKeys keys at hn ⊢; simpa using hn
    simp only [List.map_cons] at h
    unfold execAll at h
    split at h
    · cases h
    · split at h
      · cases h
      · rename_i db'' imp' he
        cases h
        have him : imported db (.createTable k t) = [] := by
          show (match lookup k db with
            | some dt => [(k, dt.tbl)]
            | none => []) = []
          rw [hk]
        rw [him]
        simp only [List.nil_append]
        apply ih hn'.2 _ he
        intro j hj
        rw [effect_createTable, contains_false_iff.mpr hk]
        simp only [Bool.false_eq_true, if_false]
        rw [lookup_append, hf j (by simp only [keys, List.map_cons, List.mem_cons]; exact Or.inr hj)]
        have : k ≠ j := by intro h; subst h; exact hn'.1 hj
        simp [lookup_cons, this]

/-! ### the statements for one existing table -/

theorem tableSteps_table {n : Name} {t nt : Table} {x : Action} (h : x ∈ (tableSteps n t nt).1) :
    x.table = n ∧ x.isCreate = false := by
  rcases mem_tableSteps h with ⟨c, col, rfl, _, _⟩ | ⟨i, ix, rfl⟩ | ⟨i, rfl⟩ <;> exact ⟨rfl, rfl⟩

theorem interSteps_noCreate {old new : Schema} {L : List Name} : ∀ x ∈ (interSteps old new L).1, x.isCreate = false := by
  intro x hx
  obtain ⟨n, t, nt, _, _, _, h⟩ := mem_interSteps hx
  exact (tableSteps_table h).2

theorem filter_table_tableSteps (k n : Name) (t nt : Table) :
    (tableSteps k t nt).1.filter (fun a => decide (a.table = n)) = if k = n then (tableSteps k t nt).1 else [] := by
  split
  · rename_i h
    apply List.filter_eq_self.mpr
    intro a ha
    simp [(tableSteps_table ha).1, h]
  · rename_i h
    apply List.filter_eq_nil_iff.mpr
    intro a ha
    simp [(tableSteps_table ha).1, h]

theorem interSteps_filter {old new : Schema} {L : List Name} (hn : L.Nodup) (hok : (interSteps old new L).2 = none)
    (n : Name) :
    (interSteps old new L).1.filter (fun a => decide (a.table = n)) =
      if n ∈ L then (match lookup n old, lookup n new with
        | some t, some nt => (tableSteps n t nt).1
        | _, _ => []) else [] := by
  induction L with
  | nil => simp [interSteps]
  | cons k r ih =>
    have hn' : k ∉ r ∧ r.Nodup := by simpa using hn
    unfold interSteps at hok ⊢
    split
    · rename_i t nt ho hnw
      rw [ho, hnw] at hok
      simp only at hok
      have h2 := (andThen_ok_iff _ _).mp hok
      rw [andThen_acts h2.1, List.filter_append, filter_table_tableSteps, ih hn'.2 h2.2]
      by_cases hk : k = n
      · subst hk
        simp [hn'.1, ho, hnw]
      · have : ¬ n = k := fun h => hk h.symm
        simp [hk, this]
    · rename_i hno
      have hok' : (interSteps old new r).2 = none := by
        split at hok
        · rename_i t nt ho hnw; exact (hno t nt ho hnw).elim
        · exact hok
      rw [ih hn'.2 hok']
      by_cases hk : k = n
      · subst hk
        simp only [List.mem_cons, true_or, if_true, hn'.1, if_false]
      · have : ¬ n = k := fun h => hk h.symm
        simp [this]

def idxEffect (d : AList Index) : Action → AList Index
  | .createIndex _ i ix => AList.insert i ix d
  | .dropIndex _ i => AList.erase i d
  | _ => d

def Action.isIndex : Action → Bool
  | .createIndex _ _ _ => true
  | .dropIndex _ _ => true
  | _ => false

theorem foldl_tblEffect_pk (acts : List Action) (dt : DbTable) :
    (acts.foldl tblEffect dt).tbl.pk = dt.tbl.pk ∧ (acts.foldl tblEffect dt).tbl.tpk = dt.tbl.tpk ∧
    (acts.foldl tblEffect dt).tbl.pkExpr = dt.tbl.pkExpr := by
  induction acts generalizing dt with
  | nil => exact ⟨rfl, rfl, rfl⟩
  | cons a r ih =>
    simp only [List.foldl_cons]
    have := ih (tblEffect dt a)
    cases a <;> simpa [tblEffect] using this

theorem foldl_tblEffect_index (acts : List Action) (h : ∀ a ∈ acts, a.isIndex = true) (dt : DbTable) :
    (acts.foldl tblEffect dt).tbl.cols = dt.tbl.cols ∧
    (acts.foldl tblEffect dt).tbl.idx = acts.foldl idxEffect dt.tbl.idx := by
  induction acts generalizing dt with
  | nil => exact ⟨rfl, rfl⟩
  | cons a r ih =>
    have h1 := h a (by simp)
    have := ih (fun x hx => h x (by simp [hx])) (tblEffect dt a)
    simp only [List.foldl_cons]
    cases a <;> first | (simpa [tblEffect, idxEffect] using this) | (simp [Action.isIndex] at h1)

theorem foldl_addColumns (tbl : Name) (cs : AList Column) (dt : DbTable) :
    ((cs.map (fun e => Action.addColumn tbl e.1 e.2)).foldl tblEffect dt).tbl.cols = dt.tbl.cols ++ cs ∧
    ((cs.map (fun e => Action.addColumn tbl e.1 e.2)).foldl tblEffect dt).tbl.idx = dt.tbl.idx := by
  induction cs generalizing dt with
  | nil => simp
  | cons e r ih =>
    obtain ⟨n, c⟩ := e
    have := ih (tblEffect dt (.addColumn tbl n c))
    simp only [List.map_cons, List.foldl_cons]
    simpa [tblEffect] using this

theorem isIndex_of_mem_indexActions {tbl : Name} {o n : AList Index} {x : Action} (h : x ∈ indexActions tbl o n) :
    x.isIndex = true := by
  rcases mem_indexActions h with ⟨i, ix, rfl⟩ | ⟨i, rfl⟩ <;> rfl

theorem foldl_creates_lookup (tbl : Name) (g : Name → Option Index) (i : Name) (ks : List Name) (D : AList Index) :
    lookup i ((ks.filterMap (fun k => (g k).map (fun ix => Action.createIndex tbl k ix))).foldl idxEffect D) =
      match (if i ∈ ks then g i else none) with
      | some ix => some ix
      | none => lookup i D := by
  induction ks generalizing D with
  | nil => simp
  | cons k r ih =>
    cases hg : g k with
    | none =>
      simp only [List.filterMap_cons, hg, Option.map_none]
      rw [ih]
      by_cases hk : i = k
      · subst hk; by_cases hr : i ∈ r <;> simp [hr, hg]
      · simp [hk]
    | some ix =>
      simp only [List.filterMap_cons, hg, Option.map_some, List.foldl_cons, idxEffect]
      rw [ih, lookup_insert]
      by_cases hk : i = k
      · subst hk; by_cases hr : i ∈ r <;> simp [hr, hg]
      · have : ¬ k = i := fun h => hk h.symm
        simp [hk, this]

theorem foldl_drops_lookup (tbl : Name) (i : Name) (ks : List Name) (D : AList Index) :
    lookup i ((ks.map (fun k => Action.dropIndex tbl k)).foldl idxEffect D) =
      if i ∈ ks then none else lookup i D := by
  induction ks generalizing D with
  | nil => simp
  | cons k r ih =>
    simp only [List.map_cons, List.foldl_cons, idxEffect]
    rw [ih, lookup_erase]
    by_cases hk : i = k
    · subst hk; simp
    · have : ¬ k = i := fun h => hk h.symm
      simp [hk, this]

theorem foldl_replaces_lookup (tbl : Name) (h : Name → Option Index) (i : Name) (ks : List Name) (D : AList Index) :
    lookup i (((ks.filterMap (fun k => (h k).map (fun ix =>
        [Action.dropIndex tbl k, Action.createIndex tbl k ix]))).flatten).foldl idxEffect D) =
      match (if i ∈ ks then h i else none) with
      | some ix => some ix
      | none => lookup i D := by
  induction ks generalizing D with
  | nil => simp
  | cons k r ih =>
    cases hg : h k with
    | none =>
      simp only [List.filterMap_cons, hg, Option.map_none]
      rw [ih]
      by_cases hk : i = k
      · subst hk; by_cases hr : i ∈ r <;> simp [hr, hg]
      · simp [hk]
    | some ix =>
      simp only [List.filterMap_cons, hg, Option.map_some, List.flatten_cons, List.foldl_append, List.foldl_cons,
        List.foldl_nil, idxEffect]
      rw [ih, lookup_insert, lookup_erase]
      by_cases hk : i = k
      · subst hk; by_cases hr : i ∈ r <;> simp [hr, hg]
      · have : ¬ k = i := fun h => hk h.symm
        simp [hk, this]

theorem mem_keys_iff_lookup {α : Type} {k : Name} {l : AList α} : k ∈ keys l ↔ lookup k l ≠ none := by
  rw [Ne, lookup_eq_none_iff]; simp

/-- after the index statements of one table, the table's indexes are those of the new definition -/
theorem foldl_indexActions_lookup (tbl : Name) (O N D0 : AList Index) (h0 : ∀ i, lookup i D0 = lookup i O) (i : Name) :
    lookup i ((indexActions tbl O N).foldl idxEffect D0) = lookup i N := by
  unfold indexActions
  rw [List.foldl_append, List.foldl_append, foldl_replaces_lookup, foldl_drops_lookup, foldl_creates_lookup]
  unfold changedIndex
  simp only [List.mem_filter, mem_keys_iff_lookup, contains, h0 i]
  cases hN : lookup i N <;> cases hO : lookup i O <;> simp
  · rename_i ix ox
    by_cases he : ox = ix
    · simp [he]
    · simp [he]

/-! ### the database after an accepted `apply_schema` -/

theorem lookup_map_snd {α β : Type} (f : α → β) (n : Name) (L : AList α) :
    lookup n (L.map (fun e => (e.1, f e.2))) = (lookup n L).map f := by
  induction L with
  | nil => rfl
  | cons e r ih =>
    obtain ⟨k, v⟩ := e
    by_cases h : k = n <;> simp [List.map_cons, lookup_cons, h, ih]

theorem keys_filter_sub {α : Type} (p : Name × α → Bool) (l : AList α) {k : Name} (h : k ∈ keys (l.filter p)) : k ∈ keys l := by
  unfold keys at *
  obtain ⟨e, he, rfl⟩ := List.mem_map.mp h
  exact List.mem_map.mpr ⟨e, (List.mem_filter.mp he).1, rfl⟩

/-- The tables of the database after the statements of an accepted plan, and: nothing was imported.
`hU`: the database holds no table the node does not know. -/
theorem apply_tables {old new : Schema} {T T' : Tables} {imp : List (Name × Table)}
    (hU : ∀ k, lookup k old = none → lookup k T = none) (hN : NodupKeys new)
    (hs : (planSteps old new).2 = none) (he : execAll T (planSteps old new).1 = .ok (T', imp)) :
    imp = [] ∧
    (∀ n t nt dt, lookup n old = some t → lookup n new = some nt → lookup n T = some dt →
      lookup n T' = some ((tableSteps n t nt).1.foldl tblEffect dt)) ∧
    (∀ n nt, lookup n old = none → lookup n new = some nt → lookup n T' = some (mkDbTable nt)) ∧
    (∀ n, lookup n new = none → lookup n T' = lookup n T) := by
  obtain ⟨hkeep, hacts, hinter⟩ := planSteps_ok hs
  have hNL : NodupKeys (new.filter (fun e => !contains e.1 old)) := nodupKeys_filter _ hN
  have hfresh : ∀ k ∈ keys (new.filter (fun e => !contains e.1 old)), lookup k T = none := by
    intro k hk
    apply hU
    unfold keys at hk
    obtain ⟨e, he, rfl⟩ := List.mem_map.mp hk
    have := (List.mem_filter.mp he).2
    simp only [Bool.not_eq_eq_eq_not, Bool.not_true] at this
    exact contains_false_iff.mp this
  rw [hacts] at he
  have hT' := execAll_eq_foldl he
  obtain ⟨db1, i1, i2, e1, e2, himp⟩ := execAll_append he
  have hi1 : i1 = [] := execAll_creates_imp _ hNL hfresh (by simpa [newTableActions] using e1)
  have hi2 : i2 = [] := execAll_noCreate_imp interSteps_noCreate e2
  have hlook : ∀ n, lookup n T' =
      (lookup n (T ++ (new.filter (fun e => !contains e.1 old)).map (fun e => (e.1, mkDbTable e.2)))).map
        (fun dt => (((interSteps old new (keys new)).1.filter (fun a => decide (a.table = n))).foldl tblEffect dt)) := by
    intro n
    rw [hT', List.foldl_append, lookup_foldl_effect _ interSteps_noCreate]
    unfold newTableActions
    rw [foldl_effect_creates _ _ hNL hfresh]
  have hfil := fun n => interSteps_filter (old := old) (new := new) hN hinter n
  refine ⟨by rw [himp, hi1, hi2]; rfl, ?_, ?_, ?_⟩
  · intro n t nt dt ho hn hd
    rw [hlook, hfil, lookup_append, hd]
    have : n ∈ keys new := contains_iff.mp (contains_of_lookup hn)
    simp [this, ho, hn]
  · intro n nt ho hn
    rw [hlook, hfil, lookup_append, hU n ho]
    have : n ∈ keys new := contains_iff.mp (contains_of_lookup hn)
    have hc : contains n old = false := contains_false_iff.mpr ho
    simp only [this, if_true, ho]
    rw [lookup_map_snd mkDbTable, lookup_filter_key (fun k => !contains k old)]
    simp [hc, hn]
  · intro n hn
    rw [hlook, hfil, lookup_append]
    have : n ∉ keys new := lookup_eq_none_iff.mp hn
    simp only [this, if_false, List.foldl_nil]
    rw [lookup_map_snd mkDbTable, lookup_filter_key (fun k => !contains k old), hn]
    cases lookup n T <;> simp

/-! ### one existing table, end to end -/

theorem fold_tableSteps {n : Name} {t nt : Table} {dt : DbTable} (hts : (tableSteps n t nt).2 = none)
    (hidx : ∀ i, lookup i dt.tbl.idx = lookup i t.idx) :
    ((tableSteps n t nt).1.foldl tblEffect dt).tbl.pk = dt.tbl.pk ∧
    ((tableSteps n t nt).1.foldl tblEffect dt).tbl.cols = dt.tbl.cols ++ newCols t nt ∧
    ∀ i, lookup i ((tableSteps n t nt).1.foldl tblEffect dt).tbl.idx = lookup i nt.idx := by
  obtain ⟨_, _, _, hadd, hacts⟩ := tableSteps_ok hts
  refine ⟨(foldl_tblEffect_pk _ _).1, ?_, ?_⟩
  · rw [hacts, addColSteps_ok hadd, List.foldl_append,
      (foldl_tblEffect_index _ (fun a ha => isIndex_of_mem_indexActions ha) _).1, (foldl_addColumns _ _ _).1]
  · intro i
    rw [hacts, addColSteps_ok hadd, List.foldl_append,
      (foldl_tblEffect_index _ (fun a ha => isIndex_of_mem_indexActions ha) _).2, (foldl_addColumns _ _ _).2]
    exact foldl_indexActions_lookup n t.idx nt.idx dt.tbl.idx hidx i

theorem reorderCols_cols {n : Name} {t nt : Table} (hts : (tableSteps n t nt).2 = none) (hn : NodupKeys t.cols) :
    (reorderCols t nt).cols = t.cols ++ newCols t nt := by
  obtain ⟨h1, h2, _, _, _⟩ := tableSteps_ok hts
  unfold reorderCols
  simp only []
  congr 1
  rw [← filterMap_keys_lookup hn]
  rw [filterMap_keys_lookup hn]
  conv => rhs; rw [← filterMap_keys_lookup hn]
  apply filterMap_congr'
  intro k hk
  have := h1 k hk
  unfold contains at this
  cases hl : lookup k nt.cols with
  | none => simp [hl] at this
  | some c' => rw [h2 k hk c' hl]

theorem not_not_contains {α : Type} {k : Name} {l : AList α} (h : lookup k l ≠ none) : ¬ ((!contains k l) = true) := by
  unfold contains
  cases h1 : lookup k l with
  | none => exact absurd h1 h
  | some _ => simp

/-- two definitions that agree (key, columns and indexes as maps) need no statement -/
theorem tableSteps_same (n : Name) {a b : Table} (hpk : a.pk = b.pk) (hc : ∀ c, lookup c a.cols = lookup c b.cols)
    (hi : ∀ i, lookup i a.idx = lookup i b.idx) : tableSteps n a b = ([], none) := by
  have hnew : newCols a b = [] := by
    unfold newCols
    apply List.filter_eq_nil_iff.mpr
    intro e he
    obtain ⟨k, v⟩ := e
    have : k ∈ keys b.cols := List.mem_map.mpr ⟨(k, v), he, rfl⟩
    have : lookup k b.cols ≠ none := mem_keys_iff_lookup.mp this
    rw [← hc] at this
    exact not_not_contains this
  have hidx : indexActions n a.idx b.idx = [] := by
    unfold indexActions
    have h1 : (keys b.idx).filter (fun k => !contains k a.idx) = [] := by
      apply List.filter_eq_nil_iff.mpr
      intro k hk
      have : lookup k b.idx ≠ none := mem_keys_iff_lookup.mp hk
      rw [← hi] at this
      exact not_not_contains this
    have h2 : (keys a.idx).filter (fun k => !contains k b.idx) = [] := by
      apply List.filter_eq_nil_iff.mpr
      intro k hk
      have : lookup k a.idx ≠ none := mem_keys_iff_lookup.mp hk
      rw [hi] at this
      exact not_not_contains this
    have h3 : (keys a.idx).filterMap (fun k => (changedIndex a.idx b.idx k).map
        (fun i => [Action.dropIndex n k, Action.createIndex n k i])) = [] := by
      apply List.filterMap_eq_nil_iff.mpr
      intro k _
      unfold changedIndex
      rw [hi]
      cases lookup k b.idx <;> simp
    rw [h1, h2, h3]
    rfl
  unfold tableSteps
  have c1 : (keys a.cols).any (fun c => !contains c b.cols) = false := by
    apply List.any_eq_false.mpr
    intro c hc'
    have : lookup c a.cols ≠ none := mem_keys_iff_lookup.mp hc'
    rw [hc] at this
    exact not_not_contains this
  have c2 : (keys a.cols).any (colChanged a b) = false := by
    apply List.any_eq_false.mpr
    intro c _
    unfold colChanged
    rw [hc]
    cases lookup c b.cols <;> simp
  simp only [c1, c2, hpk, hnew, hidx]
  simp [addColSteps, Steps.andThen]

theorem lookup_rewritePersisted (T : Tables) (names : List Name) (p : Schema) (n : Name) :
    lookup n (rewritePersisted T names p) = if n ∈ names then (lookup n T).map (·.tbl) else lookup n p := by
  unfold rewritePersisted
  induction names generalizing p with
  | nil => simp
  | cons m r ih =>
    simp only [List.foldl_cons]
    rw [ih]
    unfold persistStep
    by_cases hr : n ∈ r
    · simp [hr]
    · by_cases hm : n = m
      · subst hm
        cases hl : lookup n T <;> simp [hr, lookup_insert, lookup_erase]
      · have : ¬ m = n := fun h => hm h.symm
        cases hl : lookup m T <;> simp [hr, hm, lookup_insert, lookup_erase, this]

theorem nodupKeys_rewritePersisted (T : Tables) (names : List Name) {p : Schema} (h : NodupKeys p) :
    NodupKeys (rewritePersisted T names p) := by
  unfold rewritePersisted
  induction names generalizing p with
  | nil => exact h
  | cons m r ih =>
    simp only [List.foldl_cons]
    apply ih
    unfold persistStep
    cases lookup m T with
    | none => exact nodupKeys_erase h
    | some dt => exact nodupKeys_insert _ h

theorem rewritePersisted_eq_self (T : Tables) (names : List Name) (p : Schema)
    (h : ∀ n ∈ names, lookup n p = (lookup n T).map (·.tbl)) : rewritePersisted T names p = p := by
  unfold rewritePersisted
  induction names with
  | nil => rfl
  | cons m r ih =>
    simp only [List.foldl_cons]
    have hm := h m (by simp)
    have : persistStep T p m = p := by
      unfold persistStep
      cases hl : lookup m T with
      | none => rw [hl] at hm; exact erase_eq_self (by simpa using hm)
      | some dt => rw [hl] at hm; exact insert_eq_self (by simpa using hm)
    rw [this]
    exact ih (fun n hn => h n (by simp [hn]))

/-! ### parsed tables have distinct column names -/

theorem nodupKeys_foldl_insert {α β : Type} (g : Name × β → α) (l : List (Name × β)) {acc : AList α}
    (h : NodupKeys acc) : NodupKeys (l.foldl (fun a e => AList.insert e.1 (g e) a) acc) := by
  induction l generalizing acc with
  | nil => exact h
  | cons e r ih => exact ih (nodupKeys_insert _ h)

theorem prepareTable_nodupCols (cols : AList Column) (tpk : Option (List Name)) (ex : Bool) :
    NodupKeys (prepareTable cols tpk ex).cols := by
  unfold prepareTable
  exact nodupKeys_foldl_insert _ cols nodupKeys_nil

theorem parseFrom_nodupCols {s s' : Schema} {stmts : List Stmt} (h : parseFrom s stmts = .ok s')
    (hs : ∀ n t, (n, t) ∈ s → NodupKeys t.cols) : ∀ n t, (n, t) ∈ s' → NodupKeys t.cols := by
  induction stmts generalizing s with
  | nil => simp [parseFrom] at h; subst h; exact hs
  | cons st r ih =>
    unfold parseFrom at h
    split at h
    · rename_i s1 h1
      apply ih h
      intro n t hm
      cases st with
      | table k cols tpk ex =>
        simp [parseStep] at h1; subst h1
        rcases mem_insert hm with h2 | h2
        · cases h2; exact prepareTable_nodupCols _ _ _
        · exact hs n t h2
      | index k tbl i =>
        simp only [parseStep] at h1
        split at h1
        · rename_i t0 hl
          cases h1
          rcases mem_insert hm with h2 | h2
          · cases h2
            have := hs _ t0 (lookup_some_mem hl)
            exact this
          · exact hs n t h2
        · cases h1
      | syntaxError => simp [parseStep] at h1
      | unsupported => simp [parseStep] at h1
    · cases h

/-! ### the invariant: in-memory schema, database and `__corro_schema` describe the same tables -/

/-- same key (ordered), same columns (ordered, same definitions), same indexes (as a map) -/
structure TableSame (d m : Table) : Prop where
  pk : d.pk = m.pk
  cols : d.cols = m.cols
  idx : ∀ i, lookup i d.idx = lookup i m.idx

theorem TableSame.refl (t : Table) : TableSame t t := ⟨rfl, rfl, fun _ => rfl⟩

structure Inv (st : State) : Prop where
  known : ∀ n t, lookup n st.mem = some t →
    ∃ dt, lookup n st.db.tables = some dt ∧ lookup n st.db.persisted = some dt.tbl ∧ TableSame dt.tbl t
  unknown : ∀ n, lookup n st.mem = none → lookup n st.db.persisted = none ∧ lookup n st.db.tables = none
  nodupMem : NodupKeys st.mem
  nodupPersisted : NodupKeys st.db.persisted
  nodupCols : ∀ n t, lookup n st.mem = some t → NodupKeys t.cols

theorem inv_init : Inv State.init :=
  ⟨by intro n t h; simp [State.init] at h, by intro n _; simp [State.init], nodupKeys_nil, nodupKeys_nil,
   by intro n t h; simp [State.init] at h⟩

theorem nodupKeys_append_newCols {t nt : Table} (h1 : NodupKeys t.cols) (h2 : NodupKeys nt.cols) :
    NodupKeys (t.cols ++ newCols t nt) := by
  unfold NodupKeys
  rw [keys_append]
  refine List.nodup_append.mpr ⟨h1, nodupKeys_filter _ h2, ?_⟩
  intro a ha b hb hab
  subst hab
  obtain ⟨e, he, rfl⟩ := List.mem_map.mp hb
  obtain ⟨k, c⟩ := e
  have := (mem_newCols he).2
  exact (lookup_eq_none_iff.mp this) ha

theorem inv_submit_ok {st st' : State} {stmts : List Stmt} {r : Applied} (hI : Inv st)
    (h : submit st stmts = (st', .ok r)) : Inv st' ∧ r.imported = [] := by
  obtain ⟨part, T', imp, hp, _, hs, he, rfl, rfl⟩ := submit_ok h
  have hN : NodupKeys (merge st.mem part) := nodupKeys_merge _ hI.nodupMem
  obtain ⟨himp, hA, hB, hC⟩ := apply_tables (fun k hk => (hI.unknown k hk).2) hN hs he
  subst himp
  obtain ⟨hkeep, _, hinter⟩ := planSteps_ok hs
  have hmerge0 : merge (merge st.mem part) [] = merge st.mem part := rfl
  have hpc : ∀ n t, (n, t) ∈ part → NodupKeys t.cols := parseFrom_nodupCols hp (by simp)
  have hnewc : ∀ n nt, lookup n (merge st.mem part) = some nt → NodupKeys nt.cols := by
    intro n nt hl
    rcases lookup_merge_some part hl with h1 | h1
    · exact hI.nodupCols n nt h1
    · exact hpc n nt h1
  -- a table of the new schema that was not submitted is the old one
  have hnotpart : ∀ n, n ∉ keys part → lookup n (merge st.mem part) = lookup n st.mem :=
    fun n hn => lookup_merge_of_not_mem part st.mem hn
  refine ⟨⟨?_, ?_, ?_, ?_, ?_⟩, rfl⟩
  · -- known
    intro n t' hl
    simp only [hmerge0] at hl
    rw [lookup_reorderSchema] at hl
    cases hn : lookup n (merge st.mem part) with
    | none => simp [hn] at hl
    | some nt =>
      have hnk : n ∈ keys (merge st.mem part) := contains_iff.mp (contains_of_lookup hn)
      cases ho : lookup n st.mem with
      | none =>
        simp [hn, ho] at hl; subst hl
        have hpart : n ∈ keys part := by
          apply Classical.byContradiction
          intro hc
          rw [hnotpart n hc, ho] at hn
          cases hn
        refine ⟨mkDbTable nt, hB n nt ho hn, ?_, TableSame.refl _⟩
        simp only []
        rw [lookup_rewritePersisted, hB n nt ho hn]
        simp [hpart, mkDbTable]
      | some t =>
        simp [hn, ho] at hl; subst hl
        obtain ⟨dt, hd, hpers, hsame⟩ := hI.known n t ho
        have hts := interSteps_ok hinter n hnk t nt ho hn
        obtain ⟨f1, f2, f3⟩ := fold_tableSteps (dt := dt) hts hsame.idx
        have hT := hA n t nt dt ho hn hd
        refine ⟨_, hT, ?_, ⟨?_, ?_, ?_⟩⟩
        · simp only []
          rw [lookup_rewritePersisted, hT]
          by_cases hpart : n ∈ keys part
          · simp [hpart]
          · have : nt = t := by
              rw [hnotpart n hpart, ho] at hn; cases hn; rfl
            subst this
            rw [tableSteps_same n rfl (fun _ => rfl) (fun _ => rfl)]
            simp [hpart, hpers]
        · rw [f1, hsame.pk]; exact (tableSteps_ok hts).2.2.1
        · rw [f2, hsame.cols, reorderCols_cols hts (hI.nodupCols n t ho)]
        · exact f3
  · -- unknown
    intro n hl
    simp only [hmerge0] at hl
    rw [lookup_reorderSchema] at hl
    have hn : lookup n (merge st.mem part) = none := by
      cases hn : lookup n (merge st.mem part) with
      | none => rfl
      | some nt => simp [hn] at hl
    have ho : lookup n st.mem = none := by
      cases ho : lookup n st.mem with
      | none => rfl
      | some t =>
        have := hkeep n (contains_iff.mp (contains_of_lookup ho))
        simp [contains, hn] at this
    have hpart : n ∉ keys part := by
      intro hc
      have := mem_keys_merge (m := st.mem) part (Or.inl hc)
      exact (lookup_eq_none_iff.mp hn) this
    refine ⟨?_, ?_⟩
    · simp only []
      rw [lookup_rewritePersisted]
      simp [hpart, (hI.unknown n ho).1]
    · simp only []
      rw [hC n hn]
      exact (hI.unknown n ho).2
  · -- nodupMem
    unfold NodupKeys
    simp only [hmerge0]
    rw [keys_reorderSchema]
    exact hN
  · exact nodupKeys_rewritePersisted _ _ hI.nodupPersisted
  · -- nodupCols
    intro n t' hl
    simp only [hmerge0] at hl
    rw [lookup_reorderSchema] at hl
    cases hn : lookup n (merge st.mem part) with
    | none => simp [hn] at hl
    | some nt =>
      have hnk : n ∈ keys (merge st.mem part) := contains_iff.mp (contains_of_lookup hn)
      cases ho : lookup n st.mem with
      | none => simp [hn, ho] at hl; subst hl; exact hnewc n nt hn
      | some t =>
        simp [hn, ho] at hl; subst hl
        have hts := interSteps_ok hinter n hnk t nt ho hn
        unfold NodupKeys
        rw [reorderCols_cols hts (hI.nodupCols n t ho)]
        exact nodupKeys_append_newCols (hI.nodupCols n t ho) (hnewc n nt hn)

theorem inv_submit {st : State} (stmts : List Stmt) (hI : Inv st) : Inv (submit st stmts).1 := by
  cases h : submit st stmts with
  | mk st' out =>
    cases out with
    | error e => rw [submit_err h]; exact hI
    | ok r => exact (inv_submit_ok hI h).1

theorem inv_rows {st st' : State} {t : Name} {k : Nat} (hI : Inv st) (h : insertRows st t k = some st') : Inv st' := by
  unfold insertRows at h
  split at h
  · cases h
  · simp only [Option.some.injEq] at h
    subst h
    refine ⟨?_, ?_, hI.nodupMem, hI.nodupPersisted, hI.nodupCols⟩
    · intro n tb hl
      obtain ⟨dt, hd, hp, hs⟩ := hI.known n tb hl
      simp only []
      rw [lookup_modify]
      split
      · exact ⟨{ dt with rows := insertRowsAux dt.tbl.cols k dt.rows }, by rw [hd]; rfl, hp, hs⟩
      · exact ⟨dt, hd, hp, hs⟩
    · intro n hl
      obtain ⟨h1, h2⟩ := hI.unknown n hl
      refine ⟨h1, ?_⟩
      simp only []
      rw [lookup_modify, h2]
      split <;> rfl

theorem inv_restart {st : State} (hI : Inv st) : Inv (restart st) := by
  unfold restart initSchema
  refine ⟨?_, ?_, hI.nodupPersisted, hI.nodupPersisted, ?_⟩
  · intro n p hl
    simp only [] at hl
    cases hm : lookup n st.mem with
    | none => rw [(hI.unknown n hm).1] at hl; cases hl
    | some t =>
      obtain ⟨dt, hd, hp, hs⟩ := hI.known n t hm
      rw [hp] at hl; cases hl
      exact ⟨dt, hd, hp, TableSame.refl _⟩
  · intro n hl
    simp only [] at hl
    cases hm : lookup n st.mem with
    | none => exact ⟨hl, (hI.unknown n hm).2⟩
    | some t =>
      obtain ⟨dt, _, hp, _⟩ := hI.known n t hm
      rw [hp] at hl; cases hl
  · intro n p hl
    simp only [] at hl
    cases hm : lookup n st.mem with
    | none => rw [(hI.unknown n hm).1] at hl; cases hl
    | some t =>
      obtain ⟨dt, _, hp, hs⟩ := hI.known n t hm
      rw [hp] at hl; cases hl
      rw [hs.cols]; exact hI.nodupCols n t hm

theorem step_submit (st : State) (s : List Stmt) : step st (.submit s) = (submit st s).1 := rfl
theorem step_rows (st : State) (t : Name) (k : Nat) : step st (.rows t k) = (insertRows st t k).getD st := rfl
theorem step_restart (st : State) : step st .restart = restart st := rfl

theorem inv_step {st : State} (op : Op) (hI : Inv st) : Inv (step st op) := by
  cases op with
  | submit s => exact inv_submit s hI
  | rows t k =>
    rw [step_rows]
    cases h : insertRows st t k with
    | none => exact hI
    | some st' => exact inv_rows hI h
  | restart => exact inv_restart hI

theorem inv_run {st : State} (ops : List Op) (hI : Inv st) : Inv (run st ops) := by
  unfold run
  induction ops generalizing st with
  | nil => exact hI
  | cons op r ih => exact ih (inv_step op hI)

/-- one operation never changes the key the node works with -/
theorem step_mem_pk {st : State} (op : Op) (hI : Inv st) {n : Name} {t : Table} (h : lookup n st.mem = some t) :
    ∃ t', lookup n (step st op).mem = some t' ∧ t'.pk = t.pk := by
  cases op with
  | submit s =>
    rw [step_submit]
    cases hs : submit st s with
    | mk st' out =>
      cases out with
      | error e => rw [submit_err hs]; exact ⟨t, h, rfl⟩
      | ok r =>
        obtain ⟨t', h1, h2, _⟩ := submit_mem_ext hs h
        exact ⟨t', h1, h2⟩
  | rows tb k =>
    rw [step_rows]
    cases hr : insertRows st tb k with
    | none => exact ⟨t, h, rfl⟩
    | some st' =>
      unfold insertRows at hr
      split at hr
      · cases hr
      · simp only [Option.some.injEq] at hr; subst hr; exact ⟨t, h, rfl⟩
  | restart =>
    obtain ⟨dt, _, hp, hs⟩ := hI.known n t h
    exact ⟨dt.tbl, hp, hs.pk⟩

theorem run_mem_pk {st : State} (ops : List Op) (hI : Inv st) {n : Name} {t : Table} (h : lookup n st.mem = some t) :
    ∃ t', lookup n (run st ops).mem = some t' ∧ t'.pk = t.pk := by
  unfold run
  induction ops generalizing st t with
  | nil => exact ⟨t, h, rfl⟩
  | cons op r ih =>
    obtain ⟨t1, h1, p1⟩ := step_mem_pk op hI h
    obtain ⟨t2, h2, p2⟩ := ih (inv_step op hI) h1
    exact ⟨t2, h2, p2.trans p1⟩

/-- over a sequence that also inserts rows: the key stays, columns are only appended, every old row is
still there, extended by the same new cells -/
structure TableKeeps (dt dt' : DbTable) : Prop where
  pk : dt'.tbl.pk = dt.tbl.pk
  cols : ∃ cs, dt'.tbl.cols = dt.tbl.cols ++ cs
  rows : ∃ ext more, dt'.rows = dt.rows.map (fun r => r ++ ext) ++ more

theorem TableKeeps.refl (dt : DbTable) : TableKeeps dt dt := ⟨rfl, ⟨[], by simp⟩, ⟨[], [], by simp⟩⟩

theorem TableExt.keeps {a b : DbTable} (h : TableExt a b) : TableKeeps a b := by
  obtain ⟨p, c, ⟨e, he⟩, _⟩ := h
  exact ⟨p, c, ⟨e, [], by simp [he]⟩⟩

theorem TableKeeps.trans {a b c : DbTable} (h1 : TableKeeps a b) (h2 : TableKeeps b c) : TableKeeps a c := by
  obtain ⟨p1, ⟨c1, hc1⟩, ⟨e1, m1, he1⟩⟩ := h1
  obtain ⟨p2, ⟨c2, hc2⟩, ⟨e2, m2, he2⟩⟩ := h2
  refine ⟨p2.trans p1, ⟨c1 ++ c2, by rw [hc2, hc1, List.append_assoc]⟩, ⟨e1 ++ e2, m1.map (fun r => r ++ e2) ++ m2, ?_⟩⟩
  rw [he2, he1, List.map_append, List.map_map, List.append_assoc]
  congr 1
  apply List.map_congr_left
  intro r _
  simp

theorem insertRowsAux_prefix (cols : AList Column) (k : Nat) (rows : List Row) :
    ∃ more, insertRowsAux cols k rows = rows ++ more := by
  induction k generalizing rows with
  | zero => exact ⟨[], by simp [insertRowsAux]⟩
  | succ k ih =>
    obtain ⟨m, hm⟩ := ih (rows ++ [mkRow (rows.length + 1) cols])
    exact ⟨[mkRow (rows.length + 1) cols] ++ m, by rw [insertRowsAux, hm, List.append_assoc]⟩

theorem step_db_keeps {st : State} (op : Op) {n : Name} {dt : DbTable} (h : lookup n st.db.tables = some dt) :
    ∃ dt', lookup n (step st op).db.tables = some dt' ∧ TableKeeps dt dt' := by
  cases op with
  | submit s =>
    rw [step_submit]
    cases hs : submit st s with
    | mk st' out =>
      cases out with
      | error e => rw [submit_err hs]; exact ⟨dt, h, TableKeeps.refl dt⟩
      | ok r =>
        obtain ⟨dt', h1, h2⟩ := submit_db_ext hs h
        exact ⟨dt', h1, h2.keeps⟩
  | rows tb k =>
    rw [step_rows]
    cases hr : insertRows st tb k with
    | none => exact ⟨dt, h, TableKeeps.refl dt⟩
    | some st' =>
      unfold insertRows at hr
      split at hr
      · cases hr
      · simp only [Option.some.injEq] at hr; subst hr
        simp only [Option.getD_some]
        rw [lookup_modify]
        split
        · refine ⟨{ dt with rows := insertRowsAux dt.tbl.cols k dt.rows }, by rw [h]; rfl, ⟨rfl, ⟨[], by simp⟩, ?_⟩⟩
          obtain ⟨m, hm⟩ := insertRowsAux_prefix dt.tbl.cols k dt.rows
          exact ⟨[], m, by simp only [hm]; simp⟩
        · exact ⟨dt, h, TableKeeps.refl dt⟩
  | restart => exact ⟨dt, h, TableKeeps.refl dt⟩

theorem run_db_keeps {st : State} (ops : List Op) {n : Name} {dt : DbTable} (h : lookup n st.db.tables = some dt) :
    ∃ dt', lookup n (run st ops).db.tables = some dt' ∧ TableKeeps dt dt' := by
  unfold run
  induction ops generalizing st dt with
  | nil => exact ⟨dt, h, TableKeeps.refl dt⟩
  | cons op r ih =>
    obtain ⟨d1, h1, k1⟩ := step_db_keeps op h
    obtain ⟨d2, h2, k2⟩ := ih h1
    exact ⟨d2, h2, k1.trans k2⟩

/-! ### re-applying an applied submission -/

theorem submit_nonempty {st st' : State} {stmts : List Stmt} {r : Applied} (h : submit st stmts = (st', .ok r)) :
    stmts.isEmpty = false := by
  cases h0 : stmts.isEmpty with
  | false => rfl
  | true => unfold submit at h; simp [h0] at h

theorem submit_eq_ok {st : State} {stmts : List Stmt} {part : Schema} {T' : Tables} {imp : List (Name × Table)}
    (h0 : stmts.isEmpty = false) (hp : parse stmts = .ok part) (hc : constrain (merge st.mem part) = none)
    (hs : (planSteps st.mem (merge st.mem part)).2 = none)
    (he : execAll st.db.tables (planSteps st.mem (merge st.mem part)).1 = .ok (T', imp)) :
    submit st stmts =
      ({ db := { tables := T', persisted := rewritePersisted T' (keys part) st.db.persisted },
         mem := reorderSchema st.mem (merge (merge st.mem part) imp) },
       .ok { acts := (planSteps st.mem (merge st.mem part)).1, imported := keys imp }) := by
  unfold submit applySchema
  simp [h0, hp, hc, hs, he]

theorem newCols_nil {a b : Table} (hc : ∀ c, lookup c a.cols = lookup c b.cols) : newCols a b = [] := by
  unfold newCols
  apply List.filter_eq_nil_iff.mpr
  intro e he
  obtain ⟨k, v⟩ := e
  have : k ∈ keys b.cols := List.mem_map.mpr ⟨(k, v), he, rfl⟩
  have : lookup k b.cols ≠ none := mem_keys_iff_lookup.mp this
  rw [← hc] at this
  exact not_not_contains this

theorem reorderCols_fix {m nt : Table} (hn : NodupKeys m.cols) (hc : ∀ c, lookup c m.cols = lookup c nt.cols)
    (h1 : m.pk = nt.pk) (h2 : m.idx = nt.idx) (h3 : m.tpk = nt.tpk) (h4 : m.pkExpr = nt.pkExpr) :
    reorderCols m nt = m := by
  have hcols : (reorderCols m nt).cols = m.cols := by
    unfold reorderCols
    simp only []
    rw [newCols_nil hc, List.append_nil]
    conv => rhs; rw [← filterMap_keys_lookup hn]
    apply filterMap_congr'
    intro k _
    rw [hc]
  cases m; cases nt
  simp only [reorderCols] at hcols ⊢
  simp only at h1 h2 h3 h4
  subst h1 h2 h3 h4
  simp [hcols]

theorem interSteps_nil {M new : Schema}
    (ht : ∀ n a b, lookup n M = some a → lookup n new = some b → tableSteps n a b = ([], none)) (L : List Name) :
    interSteps M new L = ([], none) := by
  induction L with
  | nil => rfl
  | cons n r ih =>
    unfold interSteps
    split
    · rename_i a b ha hb
      rw [ht n a b ha hb, ih]; rfl
    · exact ih

theorem planSteps_nil {M new : Schema} (hk : keys M = keys new)
    (ht : ∀ n a b, lookup n M = some a → lookup n new = some b → tableSteps n a b = ([], none)) :
    planSteps M new = ([], none) := by
  unfold planSteps
  have c1 : (keys M).any (fun k => !contains k new) = false := by
    apply List.any_eq_false.mpr
    intro k hk'
    rw [hk] at hk'
    exact not_not_contains (mem_keys_iff_lookup.mp hk')
  have c2 : newTableActions M new = [] := by
    unfold newTableActions
    rw [List.map_eq_nil_iff]
    apply List.filter_eq_nil_iff.mpr
    intro e he
    have : e.1 ∈ keys new := List.mem_map.mpr ⟨e, he, rfl⟩
    rw [← hk] at this
    exact not_not_contains (mem_keys_iff_lookup.mp this)
  simp only [c1, c2, interSteps_nil ht]
  rfl

/-- `submit s` twice: the second run executes nothing and returns the same state. -/
theorem resubmit_same {st st' : State} {stmts : List Stmt} {r : Applied} (hI : Inv st)
    (h : submit st stmts = (st', .ok r)) :
    submit st' stmts = (st', .ok { acts := [], imported := [] }) := by
  have hI' := (inv_submit_ok hI h).1
  have h0 := submit_nonempty h
  obtain ⟨part, T', imp, hp, hc, hs, he, hst, _⟩ := submit_ok h
  have hN : NodupKeys (merge st.mem part) := nodupKeys_merge _ hI.nodupMem
  obtain ⟨himp, _, _, _⟩ := apply_tables (fun k hk => (hI.unknown k hk).2) hN hs he
  subst himp
  have hmerge0 : merge (merge st.mem part) [] = merge st.mem part := rfl
  rw [hmerge0] at hst
  -- the second run merges the same tables into the (reordered) schema and gets the same new schema
  have hmem : st'.mem = reorderSchema st.mem (merge st.mem part) := by rw [hst]
  have hkeysM : keys st'.mem = keys (merge st.mem part) := by rw [hmem, keys_reorderSchema]
  have hlookM : ∀ n, lookup n st'.mem = (lookup n (merge st.mem part)).map (fun nt => match lookup n st.mem with
      | some t => reorderCols t nt
      | none => nt) := by
    intro n; rw [hmem, lookup_reorderSchema]
  have hsub : ∀ k ∈ keys part, k ∈ keys st'.mem := by
    intro k hk; rw [hkeysM]; exact mem_keys_merge part (Or.inl hk)
  have hnew2 : merge st'.mem part = merge st.mem part := by
    apply ext_of_keys_lookup
    · rw [keys_merge_of_subset part hsub, hkeysM]
    · intro n
      by_cases hn : n ∈ keys part
      · exact lookup_merge_congr part (Or.inl hn)
      · rw [lookup_merge_of_not_mem part _ hn, lookup_merge_of_not_mem part _ hn, hlookM,
          lookup_merge_of_not_mem part _ hn]
        cases ho : lookup n st.mem with
        | none => rfl
        | some t =>
          simp only [Option.map_some]
          rw [reorderCols_fix (hI.nodupCols n t ho) (fun _ => rfl) rfl rfl rfl rfl]
    · exact nodupKeys_merge _ hI'.nodupMem
  -- nothing to do: every table of the schema agrees with its new definition
  have hsame : ∀ n a b, lookup n st'.mem = some a → lookup n (merge st.mem part) = some b →
      tableSteps n a b = ([], none) := by
    intro n a b ha hb
    rw [hlookM, hb] at ha
    simp only [Option.map_some, Option.some.injEq] at ha
    subst ha
    cases lookup n st.mem with
    | none => exact tableSteps_same n rfl (fun _ => rfl) (fun _ => rfl)
    | some t => exact tableSteps_same n rfl (fun c => lookup_reorderCols t b c) (fun _ => rfl)
  have hplan : planSteps st'.mem (merge st'.mem part) = ([], none) := by
    rw [hnew2]; exact planSteps_nil hkeysM hsame
  have hfix : reorderSchema st'.mem (merge st.mem part) = st'.mem := by
    apply ext_of_keys_lookup
    · rw [keys_reorderSchema, hkeysM]
    · intro n
      rw [lookup_reorderSchema]
      cases hb : lookup n (merge st.mem part) with
      | none => rw [hlookM, hb]; rfl
      | some b =>
        have hm : lookup n st'.mem = some (match lookup n st.mem with
            | some t => reorderCols t b
            | none => b) := by rw [hlookM, hb]; rfl
        rw [hm]
        simp only [Option.map_some]
        congr 1
        have hnd := hI'.nodupCols n _ hm
        cases ho : lookup n st.mem with
        | none =>
          simp only [ho] at hnd ⊢
          exact reorderCols_fix hnd (fun _ => rfl) rfl rfl rfl rfl
        | some t =>
          simp only [ho] at hnd ⊢
          exact reorderCols_fix hnd (fun c => lookup_reorderCols t b c) rfl rfl rfl rfl
    · unfold NodupKeys; rw [keys_reorderSchema]; exact hN
  have hpers : rewritePersisted st'.db.tables (keys part) st'.db.persisted = st'.db.persisted := by
    apply rewritePersisted_eq_self
    intro n hn
    rw [hst]
    simp only []
    rw [lookup_rewritePersisted]
    simp [hn]
  have := submit_eq_ok (st := st') (T' := st'.db.tables) (imp := []) h0 hp (by rw [hnew2]; exact hc)
    (by rw [hplan]) (by rw [hplan]; rfl)
  rw [this, hplan, hpers]
  simp only [hnew2, hmerge0, hfix]
  rfl

end Corro.Schema
