/-
Helper lemmas for C11, part 5: the initial query, histories, no-op batches, the candidate map.
-/
import Corro.Lemmas.IvmMain

namespace Corro.Ivm

/-! ### the evaluator returns every joined row once -/

theorem joinStep_nodup {db : Db} {j : Join} {envs : List Env} (hn : (db j.src.tbl).Nodup) (he : envs.Nodup) :
    (joinStep db j envs).Nodup := by
  unfold joinStep
  rw [List.Nodup, List.pairwise_flatMap]
  constructor
  · intro e _
    have hms : ((db j.src.tbl).filter (fun r => j.on.holds (e ++ [some r]))).Nodup := hn.sublist List.filter_sublist
    have hmap : (((db j.src.tbl).filter (fun r => j.on.holds (e ++ [some r]))).map (fun r => e ++ [some r])).Nodup := by
      rw [List.Nodup, List.pairwise_map]
      exact hms.imp (fun {a b} hab heq => hab (by simpa using heq))
    cases j.kind with
    | inner => exact hmap
    | left =>
      simp only []
      split
      · simp
      · exact hmap
  · refine he.imp ?_
    intro e1 e2 hne x hx y hy hxy
    have hx' : ∃ o, x = e1 ++ [o] := by
      have hx1 : x ∈ joinStep db j [e1] := by simpa [joinStep] using hx
      obtain ⟨e, he, o, _, rfl⟩ := mem_joinStep.mp hx1
      simp only [List.mem_singleton] at he; subst he; exact ⟨o, rfl⟩
    have hy' : ∃ o, y = e2 ++ [o] := by
      have hy1 : y ∈ joinStep db j [e2] := by simpa [joinStep] using hy
      obtain ⟨e, he, o, _, rfl⟩ := mem_joinStep.mp hy1
      simp only [List.mem_singleton] at he; subst he; exact ⟨o, rfl⟩
    obtain ⟨o1, rfl⟩ := hx'
    obtain ⟨o2, rfl⟩ := hy'
    exact hne (List.append_inj_left' hxy rfl)

theorem joinAll_nodup {db : Db} : ∀ {js : List Join} {envs : List Env}, (∀ j ∈ js, (db j.src.tbl).Nodup) → envs.Nodup →
    (joinAll db js envs).Nodup := by
  intro js
  induction js with
  | nil => intro envs _ h; exact h
  | cons j js ih =>
    intro envs hn he
    exact ih (fun j' hj' => hn j' (by simp [hj'])) (joinStep_nodup (hn j (by simp)) he)

theorem envs_nodup {q : Query} {db : Db} (hn : ∀ s ∈ q.srcs, (db s.tbl).Nodup) : (q.envs db).Nodup := by
  unfold Query.envs
  apply joinAll_nodup
  · intro j hj
    exact hn j.src (by simp [Query.srcs]; exact Or.inr ⟨j, hj, rfl⟩)
  · rw [List.Nodup, List.pairwise_map]
    exact (hn q.base (by simp [Query.srcs])).imp (fun {a b} hab heq => hab (by simpa using heq))

theorem pairwise_of_forall_mem {α} {R : α → α → Prop} {l : List α} (h : l.Pairwise (fun a b => a ≠ b))
    (hr : ∀ a ∈ l, ∀ b ∈ l, a ≠ b → R a b) : l.Pairwise R := by
  induction l with
  | nil => exact List.Pairwise.nil
  | cons x xs ih =>
    rw [List.pairwise_cons] at h ⊢
    refine ⟨fun b hb => hr x (by simp) b (by simp [hb]) (h.1 b hb), ih h.2 ?_⟩
    intro a ha b hb; exact hr a (by simp [ha]) b (by simp [hb])

/-- the keyed result of a query on a well-formed database: distinct keys -/
theorem evalKeyed_pairwise {q : Query} {db : Db} (hdb : DbOk q.srcs db) (hn : ∀ s ∈ q.srcs, (db s.tbl).Nodup) :
    (evalKeyed q db).Pairwise (fun a b => a.pks ≠ b.pks) := by
  unfold evalKeyed
  rw [List.pairwise_map]
  have hnd : ((q.envs db).filter q.where_.holds).Pairwise (fun a b => a ≠ b) := (envs_nodup hn).sublist List.filter_sublist
  apply pairwise_of_forall_mem hnd
  intro e1 h1 e2 h2 hne hp
  have hm1 := (List.mem_filter.mp h1).1
  have hm2 := (List.mem_filter.mp h2).1
  unfold Query.envs at hm1 hm2
  obtain ⟨a0, ha0, hc1⟩ := mem_joinAll.mp hm1
  obtain ⟨b0, hb0, hc2⟩ := mem_joinAll.mp hm2
  obtain ⟨r1, hr1, rfl⟩ := List.mem_map.mp ha0
  obtain ⟨r2, hr2, rfl⟩ := List.mem_map.mp hb0
  exact hne (envPks_inj hdb (evalKeyed_envIn hr1 hc1) (evalKeyed_envIn hr2 hc2) hp)

/-! ### the initial query -/

theorem initFold_spec : ∀ (L : List Out) (st : State), StOk st → st.lastRowid + 1 = st.nextRowid ∨ st.rows = [] →
    (∀ o ∈ L, Proper o.pks) → L.Pairwise (fun a b => a.pks ≠ b.pks) →
    (∀ o ∈ L, ∀ m ∈ st.rows, m.pks ≠ o.pks) →
    StOk (L.foldl insertInitial st) ∧ (L.foldl insertInitial st).outs = st.outs ++ L ∧
    (L.foldl insertInitial st).events = st.events ∧ (L.foldl insertInitial st).nextId = st.nextId := by
  intro L
  induction L with
  | nil => intro st h _ _ _ _; exact ⟨h, by simp, rfl, rfl⟩
  | cons o rest ih =>
    intro st h _ hp hpw hdis
    rw [List.pairwise_cons] at hpw
    have h1 : StOk (insertInitial st o) := by
      refine ⟨?_, ?_, ?_, ?_, ?_⟩
      · simp only [insertInitial]
        rw [List.pairwise_append]
        refine ⟨h.keys, by simp, ?_⟩
        intro a ha b hb
        simp only [List.mem_singleton] at hb; subst hb
        exact hdis o (by simp) a ha
      · intro m hm
        simp only [insertInitial, List.mem_append, List.mem_singleton] at hm
        rcases hm with hm | rfl
        · exact h.proper m hm
        · exact hp o (by simp)
      · simp only [insertInitial]
        rw [List.pairwise_append]
        refine ⟨h.rowids, by simp, ?_⟩
        intro a ha b hb
        simp only [List.mem_singleton] at hb; subst hb
        exact Nat.ne_of_lt (h.bound a ha)
      · intro m hm
        simp only [insertInitial, List.mem_append, List.mem_singleton] at hm
        rcases hm with hm | rfl
        · exact Nat.lt_succ_of_lt (h.bound m hm)
        · exact Nat.lt_succ_self _
      · simp [insertInitial]
    obtain ⟨h2, o2, e2, n2⟩ := ih (insertInitial st o) h1 (Or.inl (by simp [insertInitial]))
      (fun x hx => hp x (by simp [hx])) hpw.2
      (by
        intro x hx m hm
        simp only [insertInitial, List.mem_append, List.mem_singleton] at hm
        rcases hm with hm | rfl
        · exact hdis x (by simp [hx]) m hm
        · exact hpw.1 x hx)
    refine ⟨h2, ?_, by rw [List.foldl_cons, e2]; rfl, by rw [List.foldl_cons, n2]; rfl⟩
    rw [List.foldl_cons, o2]
    simp [State.outs, insertInitial, MRow.out]

theorem initial_spec {q : Query} {db : Db} (hdb : DbOk q.srcs db) (hn : ∀ s ∈ q.srcs, (db s.tbl).Nodup) :
    StOk (initial q db) ∧ (initial q db).outs = evalKeyed q db ∧ (initial q db).events = [] ∧
    (initial q db).nextId = 1 := by
  have h0 : StOk ({} : State) := ⟨List.Pairwise.nil, by simp, List.Pairwise.nil, by simp, by decide⟩
  obtain ⟨h1, h2, h3, h4⟩ := initFold_spec (evalKeyed q db) {} h0 (Or.inr rfl)
    (fun o ho => evalKeyed_proper hdb ho) (evalKeyed_pairwise hdb hn) (by simp)
  exact ⟨h1, by simpa [State.outs, initial] using h2, h3, h4⟩

/-! ### a batch that finds the result unchanged does nothing -/

theorem step_noop {q : Query} {db : Db} (hdb : DbOk q.srcs db) {st : State}
    (hrep : ∀ x, x ∈ st.outs ↔ x ∈ evalKeyed q db) :
    ∀ (cands : List (Nat × List Key)), (∀ c ∈ cands, ∀ k ∈ c.2, CleanKey k) → step q db st cands = st := by
  intro cands hks
  have hfold : cands.foldl (stepFn q db) st = st := by
    induction cands with
    | nil => rfl
    | cons c rest ih =>
      have hone : stepFn q db st c = st := by
        unfold stepFn
        cases hp : posOf c.1 q.srcs with
        | none => rfl
        | some i =>
          obtain ⟨src, hsrc, _⟩ := posOf_get hp
          simp only []
          rw [pass_eq]
          apply passCore_noop
          intro x
          rw [evalKeyed_stmtFor hdb hsrc (hks c (by simp)) x, hrep x]
      rw [List.foldl_cons, hone]
      exact ih (fun c' hc' => hks c' (by simp [hc']))
  rw [step_eq, hfold]
  simp

/-! ### the candidate map contains the key of every relevant change -/

theorem addCand_mem (t : Nat) (k : Key) : ∀ (acc : List (Nat × List Key)),
    (∃ c ∈ addCand t k acc, c.1 = t ∧ k ∈ c.2) ∧
    (∀ c ∈ acc, ∃ c' ∈ addCand t k acc, c'.1 = c.1 ∧ ∀ x ∈ c.2, x ∈ c'.2) := by
  intro acc
  induction acc with
  | nil => exact ⟨⟨(t, [k]), by simp [addCand], rfl, by simp⟩, by simp⟩
  | cons a rest ih =>
    obtain ⟨t', ks⟩ := a
    unfold addCand
    by_cases ht : t' = t
    · rw [if_pos ht]
      constructor
      · refine ⟨(t', if k ∈ ks then ks else ks ++ [k]), by simp, ht, ?_⟩
        by_cases hk : k ∈ ks <;> simp [hk]
      · intro c hc
        rcases List.mem_cons.mp hc with rfl | hc
        · refine ⟨(t', if k ∈ ks then ks else ks ++ [k]), by simp, rfl, ?_⟩
          intro x hx
          by_cases hk : k ∈ ks <;> simp [hk, hx]
        · exact ⟨c, by simp [hc], rfl, fun x hx => hx⟩
    · rw [if_neg ht]
      obtain ⟨⟨c, hc, h1, h2⟩, ih2⟩ := ih
      constructor
      · exact ⟨c, by simp [hc], h1, h2⟩
      · intro c' hc'
        rcases List.mem_cons.mp hc' with rfl | hc'
        · exact ⟨(t', ks), by simp, rfl, fun x hx => hx⟩
        · obtain ⟨c'', h1, h2, h3⟩ := ih2 c' hc'
          exact ⟨c'', by simp [h1], h2, h3⟩

theorem candidates_fold (q : Query) : ∀ (chs : List Chg) (acc : List (Nat × List Key)),
    (∀ c ∈ chs, relevant q c = true →
      ∃ cand ∈ chs.foldl (fun acc c => if relevant q c then addCand c.tbl c.key acc else acc) acc, cand.1 = c.tbl ∧ c.key ∈ cand.2) ∧
    (∀ a ∈ acc, ∃ cand ∈ chs.foldl (fun acc c => if relevant q c then addCand c.tbl c.key acc else acc) acc,
      cand.1 = a.1 ∧ ∀ x ∈ a.2, x ∈ cand.2) := by
  intro chs
  induction chs with
  | nil => intro acc; exact ⟨by simp, fun a ha => ⟨a, ha, rfl, fun x hx => hx⟩⟩
  | cons c rest ih =>
    intro acc
    simp only [List.foldl_cons]
    by_cases hr : relevant q c = true
    · rw [if_pos hr]
      obtain ⟨ih1, ih2⟩ := ih (addCand c.tbl c.key acc)
      obtain ⟨⟨c0, hc0, h01, h02⟩, hkeep⟩ := addCand_mem c.tbl c.key acc
      constructor
      · intro c' hc' hrel
        rcases List.mem_cons.mp hc' with rfl | hc'
        · obtain ⟨cand, hcand, h1, h2⟩ := ih2 c0 hc0
          exact ⟨cand, hcand, h1.trans h01, h2 _ h02⟩
        · exact ih1 c' hc' hrel
      · intro a ha
        obtain ⟨a', ha', h1, h2⟩ := hkeep a ha
        obtain ⟨cand, hcand, h3, h4⟩ := ih2 a' ha'
        exact ⟨cand, hcand, h3.trans h1, fun x hx => h4 x (h2 x hx)⟩
    · rw [if_neg hr]
      obtain ⟨ih1, ih2⟩ := ih acc
      constructor
      · intro c' hc' hrel
        rcases List.mem_cons.mp hc' with rfl | hc'
        · exact absurd hrel hr
        · exact ih1 c' hc' hrel
      · exact ih2

end Corro.Ivm
