/-
C01, protocol level, BATCHES — liveness under a fairness hypothesis in the batched cluster model:
every node holds its own versions (`reachLiveB_own`), a lossless session `i ← j` whose answers the
client processes in ANY split into batches makes `i` hold every foreign version `j` holds
(`sync_step_progressB`), hence after writes have stopped any schedule of lossless sessions that
contains a session `i ← a` for every ordered pair ends with every node holding every version
(`allHeld_after_scheduleB`).
-/
import Corro.Lemmas.ClusterBatchSession
import Corro.Lemmas.ClusterBatchStep
import Corro.Lemmas.ClusterConv

namespace Corro.ClusterSys
open Corro.Crdt Corro.Node

/-! ### node ids -/

theorem processOne_id (b0 : Booked) (st : TxSt) (it : Item) : (processOne b0 st it).node.id = st.node.id := by
  cases it with
  | empty s vlo vhi =>
    rw [processOne_empty]
    split
    · rfl
    · split
      · rfl
      · unfold stCleared
        simp only
        split <;> simp
  | full s v lo hi last cs =>
    rw [processOne_full]
    split
    · rfl
    · split
      · rfl
      · split
        · unfold stCleared
          simp only
          split <;> simp
        · split
          · rfl
          · split
            · unfold stComplete; simp
            · unfold stBuffer; simp

theorem txFold_id (n : Node) (site : Nat) (items : List Item) : (txFold n site items).node.id = n.id := by
  unfold txFold
  apply foldl_inv (fun (st : TxSt) => st.node.id = n.id)
  · rfl
  · intro st it _ hst
    rw [processOne_id, hst]

theorem processActor_id (n : Node) (site : Nat) (items : List Item) : (processActor n site items).1.id = n.id := by
  rw [processActor_node]
  split
  · exact txFold_id n site items
  · simp only [setBooked_id]
    exact txFold_id n site items

theorem deliverFold_id (n : Node) (batch : List Item) : (deliverFold n batch).1.id = n.id := by
  unfold deliverFold
  apply foldl_inv (fun (acc : Node × List (Nat × Nat) × List (Nat × Nat × Nat)) => acc.1.id = n.id)
  · rfl
  · intro acc s _ hacc
    unfold actorStep
    simp only
    rw [processActor_id, hacc]

theorem clearAll_id (n : Node) (cl : List (Nat × Nat × Nat)) : (clearAll n cl).id = n.id := by
  induction cl generalizing n with
  | nil => rfl
  | cons c cl ih =>
    show (clearAll (n.clearMeta c.1 c.2.1 c.2.2) cl).id = _
    rw [ih]; rfl

theorem deliverB_id (n : Node) (batch : List Item) : (n.deliver batch).id = n.id := by
  rw [deliver_eq']
  unfold finish
  split
  · rw [applyAll_id, clearAll_id, deliverFold_id]
  · rw [clearAll_id, deliverFold_id]

theorem foldB_id (batches : List (List Item)) (s : Node × List Chg) : (batches.foldl deliverB s).1.id = s.1.id := by
  induction batches generalizing s with
  | nil => rfl
  | cons b batches ih =>
    rw [List.foldl_cons, ih]
    exact deliverB_id s.1 b

/-! ### what the batches of a step consist of -/

theorem chunkOK_originBatch {L : Log} (hL : LogOK L) (chunks : List (Nat × Nat × Nat × Nat)) :
    ∀ it ∈ originBatch L chunks, ChunkOK L it := by
  intro it hit
  obtain ⟨site, ver, lo, hi, hhas, rfl⟩ := mem_originBatch hit
  exact chunkOK_origin hL hhas

theorem chunkOK_pickBatches {L : Log} {ni nj : Node} {Rj : List Chg} (hN : NInv L nj Rj) (hI : LInv L nj Rj)
    (hL : LogOK L) (hcl : nodeClean nj = true) (batches : List (List Pick)) :
    ∀ b ∈ batches.map (pickBatch L (answers ni nj)), ∀ it ∈ b, ChunkOK L it := by
  intro b hb it hit
  obtain ⟨ps, _, rfl⟩ := List.mem_map.mp hb
  rcases mem_pickBatch hit with h | ⟨site, ver, lo, hi, hhas, rfl⟩
  · exact chunkOK_answers hN hI hL hcl h
  · exact chunkOK_origin hL hhas

/-! ### every node holds its own versions -/

theorem reachLiveB_own {k : Nat} {c : Cluster} (h : ReachLiveB k c) (hL : LogOK c.log) : OwnInv k c := by
  induction h with
  | init => exact ownInv_init k
  | @step c op hr hlive hok hclean ih =>
    have hL0 := logOK_of_stepB hL
    have ih := ih hL0
    have hfull := reachLiveB_inv hr hL0
    cases op with
    | write i stmts =>
      rw [stepB_write, step_write] at hL ⊢
      cases hi : c.nodes[i]? with
      | none => simp only [hi] at hL ⊢; exact ih
      | some n =>
        simp only [hi] at hL ⊢
        split at hL
        · rename_i n' ver chs hw
          simp only at hL
          have hn := hfull.node i n hi
          obtain ⟨_, hheld, hid⟩ := linv_write hn.1 hn.2 hw hL
          have hni := ih.ids i n hi
          have hlt : i < c.nodes.length := (List.getElem?_eq_some_iff.mp hi).1
          have hver : ver = c.log.head n.id + 1 := hL.2.1
          refine ⟨by simp [ih.len], ?_, ?_, ?_⟩
          · intro j m hj
            by_cases hij : i = j
            · subst hij
              simp only [List.getElem?_set_self hlt, Option.some.injEq] at hj
              rw [← hj, hid]; exact hni
            · simp only [List.getElem?_set_ne hij] at hj
              exact ih.ids j m hj
          · intro e he
            rcases List.mem_cons.mp he with rfl | he
            · simp only; rw [hni, ← ih.len]; exact hlt
            · exact ih.sites e he
          · intro j m hj v h1 h2
            rw [head_cons] at h2
            simp only at h2
            by_cases hij : i = j
            · subst hij
              simp only [List.getElem?_set_self hlt, Option.some.injEq] at hj
              rw [← hj]
              rw [if_pos hni] at h2
              rw [hni] at hver
              by_cases hv : v = ver
              · exact (hheld i v).mpr (Or.inl ⟨hni.symm, by omega, by omega⟩)
              · exact (hheld i v).mpr (Or.inr (ih.own i n hi v h1 (by omega)))
            · simp only [List.getElem?_set_ne hij] at hj
              rw [if_neg (by rw [hni]; exact hij)] at h2
              exact ih.own j m hj v h1 h2
        · exact ih
    | deliverOrigins i chunks =>
      rw [stepB_deliverOrigins] at hL ⊢
      cases hi' : c.nodes[i]? with
      | none => simp only [hi'] at hL ⊢; exact ih
      | some n =>
        simp only [hi'] at hL ⊢
        have hn := hfull.node i n hi'
        exact ownInv_setNode ih hi' (deliverB_id n _)
          (fun a v hh => deliverB_held_mono hn.1 hn.2 hL0 (chunkOK_originBatch hL0 chunks) hh)
    | syncB i j batches =>
      rw [stepB_syncB] at hL ⊢
      cases hi : c.nodes[i]? with
      | none => simp only [hi] at hL ⊢; exact ih
      | some ni =>
        cases hj : c.nodes[j]? with
        | none => simp only [hi, hj] at hL ⊢; exact ih
        | some nj =>
          simp only [hi, hj] at hL ⊢
          split
          · exact ih
          · have hni := hfull.node i ni hi
            have hnj := hfull.node j nj hj
            exact ownInv_setNode ih hi (foldB_id _ _)
              (fun a v hh => foldB_held_mono hL0 _ (ni, c.R i) hni.1 hni.2
                (chunkOK_pickBatches hnj.1 hnj.2 hL0 (clean_node hclean hj) batches) hh)
    | kill i => cases hlive
    | restart i => cases hlive

/-! ### one lossless session, in batches -/

def Pick.isAns : Pick → Bool
  | .ans _ => true
  | .orig .. => false

/-- **the session is lossless**: the client's batches contain answers of the server only, and every
answer is in at least one of them (any split into batches, any order, repeats allowed) -/
def LosslessB (ans : List Item) (batches : List (List Pick)) : Prop :=
  (∀ b ∈ batches, ∀ p ∈ b, p.isAns = true) ∧ ∀ k, k < ans.length → ∃ b ∈ batches, Pick.ans k ∈ b

instance (ans : List Item) (batches : List (List Pick)) : Decidable (LosslessB ans batches) := by
  unfold LosslessB; exact inferInstance

theorem pickBatch_sub {L : Log} {ans : List Item} {b : List Pick} (hb : ∀ p ∈ b, p.isAns = true) :
    ∀ it ∈ pickBatch L ans b, it ∈ ans := by
  intro it hit
  unfold pickBatch at hit
  obtain ⟨p, hp, he⟩ := List.mem_filterMap.mp hit
  cases p with
  | ans k => exact List.mem_of_getElem? he
  | orig site ver lo hi => have := hb _ hp; cases this

theorem losslessB_sub {L : Log} {ans : List Item} {batches : List (List Pick)} (h : LosslessB ans batches) :
    ∀ b ∈ batches.map (pickBatch L ans), ∀ it ∈ b, it ∈ ans := by
  intro b hb it hit
  obtain ⟨ps, hps, rfl⟩ := List.mem_map.mp hb
  exact pickBatch_sub (h.1 ps hps) it hit

theorem losslessB_cov {L : Log} {ans : List Item} {batches : List (List Pick)} (h : LosslessB ans batches) :
    ∀ it ∈ ans, ∃ b ∈ batches.map (pickBatch L ans), it ∈ b := by
  intro it hit
  obtain ⟨k, hk, he⟩ := List.mem_iff_getElem.mp hit
  obtain ⟨ps, hps, hmem⟩ := h.2 k hk
  refine ⟨pickBatch L ans ps, List.mem_map.mpr ⟨ps, hps, rfl⟩, ?_⟩
  unfold pickBatch
  refine List.mem_filterMap.mpr ⟨Pick.ans k, hmem, ?_⟩
  simp only
  rw [List.getElem?_eq_getElem hk, he]

/-- **`sync_round_progress`, batched.**  In a cluster reachable in the batched model under R2–R4, from
a clean state, a session of client `i` with server `j` that is lossless (`LosslessB`) leaves `i`
holding every version of every actor other than `i` that `j` holds — and everything `i` held. -/
theorem sync_step_progressB {k : Nat} {c : Cluster} (h : ReachLiveB k c) (hL : LogOK c.log)
    (hcl : c.clean = true) {i j : Nat} (hij : i ≠ j) {ni nj : Node} (hi : c.nodes[i]? = some ni)
    (hj : c.nodes[j]? = some nj) {batches : List (List Pick)} (hless : LosslessB (answers ni nj) batches) :
    ∃ ni', (stepB c (.syncB i j batches)).nodes[i]? = some ni' ∧
      (∀ a v, a ≠ i → 1 ≤ v → Held nj a v → Held ni' a v) ∧ (∀ a v, Held ni a v → Held ni' a v) := by
  have hfull := reachLiveB_inv h hL
  have hown := reachLiveB_own h hL
  have hni := hfull.node i ni hi
  have hnj := hfull.node j nj hj
  rw [stepB_syncB]
  simp only [hi, hj, if_neg hij]
  refine ⟨_, setNode_nodes_self hi _, ?_, ?_⟩
  · intro a v ha hv hh
    exact session_progressB hL hni.1 hni.2 hnj.1 hnj.2 (clean_node hcl hj)
      (by rw [hown.ids i ni hi]; exact ha) hv hh _ (losslessB_sub hless) (losslessB_cov hless)
  · intro a v hh
    exact foldB_held_mono hL _ (ni, c.R i) hni.1 hni.2
      (chunkOK_pickBatches hnj.1 hnj.2 hL (clean_node hcl hj) batches) hh

/-! ### a schedule of lossless sessions -/

/-- every op of the run is a sync session, executed from a clean state, that is lossless -/
def LosslessRunB : Cluster → List OpB → Prop
  | _, [] => True
  | c, op :: ops =>
    (∃ i j batches, op = .syncB i j batches ∧
      ∀ (ni nj : Node), c.nodes[i]? = some ni → c.nodes[j]? = some nj → LosslessB (answers ni nj) batches) ∧
    c.clean = true ∧ LosslessRunB (stepB c op) ops

theorem syncB_log (c : Cluster) (i j : Nat) (batches : List (List Pick)) :
    (stepB c (.syncB i j batches)).log = c.log := by
  rw [stepB_syncB]
  split
  · split <;> rfl
  · rfl

theorem syncB_nodes_other (c : Cluster) (i j : Nat) (batches : List (List Pick)) {m : Nat} (hm : i ≠ m) :
    (stepB c (.syncB i j batches)).nodes[m]? = c.nodes[m]? := by
  rw [stepB_syncB]
  split
  · split
    · rfl
    · exact setNode_nodes_other hm _
  · rfl

theorem reachLiveB_sync {k : Nat} {c : Cluster} (h : ReachLiveB k c) (hcl : c.clean = true) (i j : Nat)
    (batches : List (List Pick)) : ReachLiveB k (stepB c (.syncB i j batches)) :=
  ReachLiveB.step (.syncB i j batches) h rfl trivial hcl

/-- a sync session never loses `HoldsAll` -/
theorem holdsAll_syncB {k : Nat} {c : Cluster} (h : ReachLiveB k c) (hL : LogOK c.log) (hcl : c.clean = true)
    (i j : Nat) (batches : List (List Pick)) {m a : Nat} (hm : HoldsAll c m a) :
    HoldsAll (stepB c (.syncB i j batches)) m a := by
  intro n hn v h1 h2
  rw [syncB_log] at h2
  by_cases him : i = m
  · subst him
    rw [stepB_syncB] at hn
    cases hi : c.nodes[i]? with
    | none => simp only [hi] at hn; cases hn
    | some ni =>
      cases hj : c.nodes[j]? with
      | none => simp only [hi, hj] at hn; cases hn; exact hm _ hi v h1 h2
      | some nj =>
        simp only [hi, hj] at hn
        split at hn
        · rw [hi] at hn; cases hn; exact hm _ hi v h1 h2
        · rw [setNode_nodes_self hi] at hn
          cases hn
          have hfull := reachLiveB_inv h hL
          have hni := hfull.node i ni hi
          have hnj := hfull.node j nj hj
          exact foldB_held_mono hL _ (ni, c.R i) hni.1 hni.2
            (chunkOK_pickBatches hnj.1 hnj.2 hL (clean_node hcl hj) batches) (hm ni hi v h1 h2)
  · rw [syncB_nodes_other c i j batches him] at hn
    exact hm n hn v h1 h2

/-- **`eventual_convergence`, the bookkeeping half, batched.**  Start from a cluster reachable in the
batched model under R2–R4 with a well-formed log, and run ANY schedule `ops` of lossless sync sessions
from clean states (no more writes).  If for every ordered pair of distinct nodes `(i, a)` the schedule
contains a session `i ← a`, then at the end every node holds every version of every actor. -/
theorem allHeld_after_scheduleB {k : Nat} {c : Cluster} (h : ReachLiveB k c) (hL : LogOK c.log)
    (ops : List OpB) (hrun : LosslessRunB c ops)
    (hcov : ∀ i a, i < k → a < k → HoldsAll c i a ∨ (i ≠ a ∧ ∃ batches, OpB.syncB i a batches ∈ ops)) :
    ReachLiveB k (runB c ops) ∧ (runB c ops).log = c.log ∧
      ∀ i a, i < k → a < k → HoldsAll (runB c ops) i a := by
  induction ops generalizing c with
  | nil =>
    refine ⟨h, rfl, ?_⟩
    intro i a hi ha
    rcases hcov i a hi ha with h1 | ⟨_, _, h2⟩
    · exact h1
    · cases h2
  | cons op ops ih =>
    obtain ⟨⟨i0, j0, b0, rfl, hless⟩, hcl, hrest⟩ := hrun
    have hr' := reachLiveB_sync h hcl i0 j0 b0
    have hlog := syncB_log c i0 j0 b0
    have hL' : LogOK (stepB c (.syncB i0 j0 b0)).log := by rw [hlog]; exact hL
    have := ih hr' hL' hrest ?_
    · refine ⟨this.1, this.2.1.trans hlog, this.2.2⟩
    · intro i a hi ha
      rcases hcov i a hi ha with h1 | ⟨hne, batches, hmem⟩
      · exact Or.inl (holdsAll_syncB h hL hcl i0 j0 b0 h1)
      · rcases List.mem_cons.mp hmem with heq | hmem
        · -- this is the session `i ← a`
          simp only [OpB.syncB.injEq] at heq
          obtain ⟨rfl, rfl, rfl⟩ := heq
          left
          have hown := reachLiveB_own h hL
          have hlen := hown.len
          obtain ⟨ni, hni⟩ : ∃ ni, c.nodes[i]? = some ni :=
            ⟨c.nodes[i]'(by omega), List.getElem?_eq_getElem (by omega)⟩
          obtain ⟨na, hna⟩ : ∃ na, c.nodes[a]? = some na :=
            ⟨c.nodes[a]'(by omega), List.getElem?_eq_getElem (by omega)⟩
          obtain ⟨ni', h1, h2, _⟩ := sync_step_progressB h hL hcl hne hni hna (hless ni na hni hna)
          intro n hn v hv1 hv2
          rw [h1] at hn
          cases hn
          rw [hlog] at hv2
          exact h2 a v (fun h => hne h.symm) hv1 (hown.own a na hna v hv1 hv2)
        · exact Or.inr ⟨hne, batches, hmem⟩

/-! ### checking a concrete schedule -/

def losslessOpB (c : Cluster) : OpB → Bool
  | .syncB i j batches =>
    match c.nodes[i]?, c.nodes[j]? with
    | some ni, some nj => decide (LosslessB (answers ni nj) batches)
    | _, _ => true
  | _ => false

def losslessCheckB : Cluster → List OpB → Bool
  | _, [] => true
  | c, op :: ops => losslessOpB c op && c.clean && losslessCheckB (stepB c op) ops

theorem losslessRunB_of_check {c : Cluster} {ops : List OpB} (h : losslessCheckB c ops = true) :
    LosslessRunB c ops := by
  induction ops generalizing c with
  | nil => trivial
  | cons op ops ih =>
    unfold losslessCheckB at h
    simp only [Bool.and_eq_true] at h
    obtain ⟨⟨h1, h2⟩, h3⟩ := h
    refine ⟨?_, h2, ih h3⟩
    cases op with
    | syncB i j batches =>
      refine ⟨i, j, batches, rfl, ?_⟩
      intro ni nj hi hj
      have h1' : (match c.nodes[i]?, c.nodes[j]? with
          | some ni, some nj => decide (LosslessB (answers ni nj) batches)
          | _, _ => true) = true := h1
      rw [hi, hj] at h1'
      exact of_decide_eq_true h1'
    | write => cases h1
    | deliverOrigins => cases h1
    | kill => cases h1
    | restart => cases h1

/-- the first `N` answers of a session in TWO batches: the odd-numbered answers in reverse order,
then the even-numbered ones -/
def twoBatches (N : Nat) : List (List Pick) :=
  [((List.range N).filter (fun x => x % 2 = 1)).reverse.map Pick.ans,
   ((List.range N).filter (fun x => x % 2 = 0)).map Pick.ans]

/-- one round of sessions over all ordered pairs of distinct nodes, the client processing the answers
of every session as `twoBatches N` -/
def allPairsB (k N : Nat) : List OpB :=
  (List.range k).flatMap (fun i => (List.range k).filterMap (fun a =>
    if i = a then none else some (OpB.syncB i a (twoBatches N))))

theorem allPairsB_covers {k N i a : Nat} (hi : i < k) (ha : a < k) (hne : i ≠ a) :
    OpB.syncB i a (twoBatches N) ∈ allPairsB k N := by
  unfold allPairsB
  refine List.mem_flatMap.mpr ⟨i, List.mem_range.mpr hi, List.mem_filterMap.mpr ⟨a, List.mem_range.mpr ha, ?_⟩⟩
  rw [if_neg hne]

end Corro.ClusterSys
