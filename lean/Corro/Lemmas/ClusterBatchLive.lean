/-
C01, protocol level, BATCHES — progress: what one actor's transaction inside a batch does to ONE
version `(site, v)`, followed changeset by changeset on the virtual bookkeeping:

* `WillHold`: the version is booked, without a partial or with a complete one — it will be held once
  the applies of the batch have run; monotone (`TXI.willHold_step`);
* `PU`: under the hypothesis that every `Full` changeset of `(site, v)` in the batch is complete, the
  version "will be held" or has not been touched; a complete changeset of it (when there was no
  partial) and an `Empty` covering it settle it;
* `PB`: a partial of the version grows by the seq range of every changeset of it in the batch.
-/
import Corro.Lemmas.ClusterBatchDeliver
import Corro.Lemmas.ClusterLive

namespace Corro.ClusterSys
open Corro.Crdt Corro.Node

/-- the version is booked, without a partial or with a complete one -/
def WillHold (b : Booked) (v : Nat) : Prop :=
  b.containsVersion v = true ∧ ∀ p, b.partial? v = some p → p.complete = true

theorem contains_none_iff (b : Booked) (v : Nat) : b.contains v none = true ↔ WillHold b v := by
  unfold Booked.contains WillHold
  rw [Bool.and_eq_true]
  constructor
  · rintro ⟨h1, h2⟩
    refine ⟨h1, ?_⟩
    intro p hp
    rw [hp] at h2
    exact h2
  · rintro ⟨h1, h2⟩
    refine ⟨h1, ?_⟩
    cases hp : b.partial? v with
    | none => rfl
    | some p => exact h2 p hp

/-- every `Full` changeset of `(a, v)` in the list is complete -/
def AllCompleteFor (a v : Nat) (items : List Item) : Prop :=
  ∀ it ∈ items, ∀ lo hi last cs, it = Item.full a v lo hi last cs → lo = 0 ∧ hi = last

/-! ### the three kinds of steps of the transaction -/

/-- what `processOne` does with a changeset of the transaction's actor: nothing, a cleared /
completed version range, or a buffered chunk -/
inductive StepKind (b0 : Booked) (site : Nat) (st : TxSt) (it : Item) : Prop
  | skip (h : processOne b0 st it = st)
      (why : b0.containsAll it.versions.1 it.versions.2 it.seqs = true ∨ alreadySeen st.seen it = true ∨
        ∃ v lo hi last cs, it = .full site v lo hi last cs ∧ hi < lo) : StepKind b0 site st it
  | none (vlo vhi : Nat) (hlh : vlo ≤ vhi) (hv : it.versions = (vlo, vhi))
      (hshape : it = .empty site vlo vhi ∨ ∃ last cs, it = .full site vlo 0 last last cs ∧ vhi = vlo)
      (hnc : b0.containsAll vlo vhi it.seqs = false) (hns : alreadySeen st.seen it = false)
      (hseen : (processOne b0 st it).seen = seenInsert st.seen (vlo, vhi) none)
      (hproc : (processOne b0 st it).processed = st.processed ++ [⟨vlo, vhi, none⟩]) : StepKind b0 site st it
  | buffer (v lo hi last : Nat) (cs : List Chg) (hit : it = .full site v lo hi last cs) (hlh : lo ≤ hi)
      (hinc : ¬ (lo = 0 ∧ hi = last)) (hnc : b0.containsAll v v (some (lo, hi)) = false)
      (hns : alreadySeen st.seen it = false)
      (hst : processOne b0 st it = stBuffer st site v lo hi last cs) : StepKind b0 site st it

theorem stepKind (b0 : Booked) (site : Nat) (st : TxSt) (it : Item) (hs : it.site = site) :
    StepKind b0 site st it := by
  cases it with
  | empty s vlo vhi =>
    simp only [Item.site] at hs
    subst hs
    cases hc : b0.containsAll vlo vhi none with
    | true =>
      refine StepKind.skip ?_ (Or.inl hc)
      rw [processOne_empty, hc]; rfl
    | false =>
      cases hseen : alreadySeen st.seen (.empty s vlo vhi) with
      | true =>
        refine StepKind.skip ?_ (Or.inr (Or.inl hseen))
        rw [processOne_empty, hc, hseen]; rfl
      | false =>
        have hle : vlo ≤ vhi := by
          apply Classical.byContradiction
          intro hlt
          rw [containsAll_backward _ _ _ _ (by omega)] at hc
          cases hc
        have hp : processOne b0 st (.empty s vlo vhi) = stCleared b0 st s vlo vhi := by
          rw [processOne_empty, hc, hseen]; rfl
        exact StepKind.none vlo vhi hle rfl (Or.inl rfl) hc hseen (by rw [hp]; rfl) (by rw [hp]; rfl)
  | full s v lo hi last cs =>
    simp only [Item.site] at hs
    subst hs
    cases hc : b0.containsAll v v (some (lo, hi)) with
    | true =>
      refine StepKind.skip ?_ (Or.inl hc)
      rw [processOne_full, hc]; rfl
    | false =>
      cases hseen : alreadySeen st.seen (.full s v lo hi last cs) with
      | true =>
        refine StepKind.skip ?_ (Or.inr (Or.inl hseen))
        rw [processOne_full, hc, hseen]; rfl
      | false =>
        by_cases hcomp : lo = 0 ∧ hi = last
        · obtain ⟨rfl, rfl⟩ := hcomp
          cases hem : cs.isEmpty with
          | true =>
            have hp : processOne b0 st (.full s v 0 hi hi cs) = stCleared b0 st s v v := by
              rw [processOne_full, hc, hseen]
              simp [hem]
            exact StepKind.none v v (Nat.le_refl _) rfl (Or.inr ⟨hi, cs, rfl, rfl⟩) hc hseen
              (by rw [hp]; rfl) (by rw [hp]; rfl)
          | false =>
            have hp : processOne b0 st (.full s v 0 hi hi cs) = stComplete st s v cs := by
              rw [processOne_full, hc, hseen]
              simp [hem]
            exact StepKind.none v v (Nat.le_refl _) rfl (Or.inr ⟨hi, cs, rfl, rfl⟩) hc hseen
              (by rw [hp]; rfl) (by rw [hp]; rfl)
        · have hb : (lo == 0 && hi == last) = false := by
            cases h : (lo == 0 && hi == last) with
            | false => rfl
            | true =>
              simp only [Bool.and_eq_true, beq_iff_eq] at h
              exact absurd h hcomp
          by_cases hlt : hi < lo
          · refine StepKind.skip ?_ (Or.inr (Or.inr ⟨v, lo, hi, last, cs, rfl, hlt⟩))
            rw [processOne_full, hc, hseen, hb]
            simp [hlt]
          · refine StepKind.buffer v lo hi last cs rfl (by omega) hcomp hc hseen ?_
            rw [processOne_full, hc, hseen, hb]
            simp [hlt]

/-! ### the virtual bookkeeping after a step -/

/-- the virtual bookkeeping of the transaction's actor -/
def vbOf (N0 : Node) (site : Nat) (s : TxSt × List Chg) : Booked := (cV (N0.booked site) site s.1.processed).1

theorem cV_none_eq (b0 : Booked) (site : Nat) (P : List Processed) (vlo vhi : Nat) :
    (cV b0 site (P ++ [⟨vlo, vhi, none⟩])).1 = ((cV b0 site P).1.insertDb [(vlo, vhi)]).dropPartials vlo vhi := by
  rw [cV_append, commitStepV_none]

/-- the virtual node: the node inside the transaction with the virtual bookkeeping installed -/
def vNode (b0 : Booked) (site : Nat) (st : TxSt) : Node := st.node.setBooked site (cV b0 site st.processed).1

theorem vNode_booked (b0 : Booked) (site : Nat) (st : TxSt) :
    (vNode b0 site st).booked site = (cV b0 site st.processed).1 := booked_setBooked_same _ _ _

theorem cV_buffer_eq (b0 : Booked) (site : Nat) (st : TxSt) (v lo hi last : Nat) (cs : List Chg) :
    (cV b0 site (stBuffer st site v lo hi last cs).processed).1 = bufBooked (vNode b0 site st) site v lo hi last cs := by
  obtain ⟨hch2, _, _⟩ := bufferChunk_setBooked st.node site (cV b0 site st.processed).1 site v lo hi last cs
  unfold stBuffer
  simp only
  rw [cV_append, commitStepV_some]
  unfold bufBooked
  rw [vNode_booked]
  show _ = (((cV b0 site st.processed).1.insertDb [(v, v)]).insertPartial v
    ⟨[((st.node.setBooked site (cV b0 site st.processed).1).bufferChunk site v lo hi last cs).2], last⟩).1
  rw [hch2]
  split <;> rfl

section
variable {L : Log} {N0 : Node} {site : Nat} {R0 : List Chg} {C0 : List (Nat × Nat × Nat)}
  {A0 : List (Nat × Nat)}

theorem TXI.vb_wf {s : TxSt × List Chg} (h : TXI L N0 site R0 C0 A0 s) : RSet.WF (vbOf N0 site s).needed := by
  have := h.gi.needed_wf site
  rw [vbk_site] at this
  exact this

theorem TXI.vb_pwf {s : TxSt × List Chg} (h : TXI L N0 site R0 C0 A0 s) : (vbOf N0 site s).PWF := by
  have := h.gi.pwf site
  rw [vbk_site] at this
  exact this

/-- a version the virtual bookkeeping holds without a partial gets no chunk buffered -/
theorem TXI.key {st : TxSt} {M : List Chg} (h : TXI L N0 site R0 C0 A0 (st, M)) {v lo hi : Nat}
    (hnc : (N0.booked site).containsAll v v (some (lo, hi)) = false) (hns : seenGet st.seen v ≠ some none) :
    ¬ ((vbOf N0 site (st, M)).containsVersion v = true ∧ (vbOf N0 site (st, M)).partial? v = none) := by
  rintro ⟨h1, h2⟩
  have hb0 : (N0.booked site).contains v (some (lo, hi)) = false := by
    rw [← containsAll_single]; exact hnc
  rcases h.si v h1 h2 with ⟨h3, h4⟩ | h3
  · rw [contains_of_cv_none _ h3 h4] at hb0; cases hb0
  · exact hns h3

/-- the effect of one step on the virtual bookkeeping of version `v` -/
theorem none_step_cv {s : TxSt × List Chg} (h : TXI L N0 site R0 C0 A0 s) {vlo vhi : Nat} (hlh : vlo ≤ vhi)
    (w : Nat) :
    (((vbOf N0 site s).insertDb [(vlo, vhi)]).dropPartials vlo vhi).containsVersion w = true ↔
      (vlo ≤ w ∧ w ≤ vhi) ∨ (vbOf N0 site s).containsVersion w = true := by
  rw [containsVersion_dropPartials]
  exact containsVersion_insertDb h.vb_wf hlh w

theorem none_step_partial (b : Booked) (vlo vhi w : Nat) :
    ((b.insertDb [(vlo, vhi)]).dropPartials vlo vhi).partial? w =
      if vlo ≤ w ∧ w ≤ vhi then none else b.partial? w := by
  rw [partial?_dropPartials, partial?_insertDb]

/-- **"will be held" is monotone** inside the transaction -/
theorem TXI.willHold_step {s : TxSt × List Chg} (h : TXI L N0 site R0 C0 A0 s) (it : Item)
    (hs : it.site = site) {v : Nat} (hw : WillHold (vbOf N0 site s) v) :
    WillHold (vbOf N0 site (txStepG (N0.booked site) s it)) v := by
  obtain ⟨st, M⟩ := s
  unfold txStepG vbOf at *
  simp only at *
  cases stepKind (N0.booked site) site st it hs with
  | skip hsk _ => rw [hsk]; exact hw
  | none vlo vhi hlh hv hshape hnc hns hseen hproc =>
    rw [hproc, cV_none_eq]
    refine ⟨(none_step_cv h hlh v).mpr (Or.inr hw.1), ?_⟩
    intro p hp
    rw [none_step_partial] at hp
    split at hp
    · cases hp
    · exact hw.2 p hp
  | buffer v' lo hi last cs hit hlh hinc hnc hns hst =>
    rw [hst, cV_buffer_eq]
    have hVb := vNode_booked (N0.booked site) site st
    have hwf : RSet.WF ((vNode (N0.booked site) site st).booked site).needed := by rw [hVb]; exact h.vb_wf
    have hpwf : ((vNode (N0.booked site) site st).booked site).PWF := by rw [hVb]; exact h.vb_pwf
    refine ⟨?_, ?_⟩
    · rw [@bufBooked_cv (vNode (N0.booked site) site st) site v' lo hi last cs hwf v, hVb]
      exact Or.inr hw.1
    · intro p hp
      by_cases hv : v = v'
      · subst hv
        rw [bufBooked_partial_same] at hp
        cases hp
        cases ho : ((vNode (N0.booked site) site st).booked site).partial? v with
        | none =>
          exfalso
          rw [hVb] at ho
          subst hit
          exact h.key hnc (not_alreadySeen_full hns) ⟨hw.1, ho⟩
        | some old =>
          apply bufPartial_complete_of_old hpwf hlh ho
          rw [hVb] at ho
          exact hw.2 old ho
      · rw [bufBooked_partial_other _ _ _ _ _ _ _ v hv, hVb] at hp
        exact hw.2 p hp

end

/-! ### `seen` lookups -/

theorem alreadySeen_empty_mem {seen : List ((Nat × Nat) × Option Partial)} {s lo hi v : Nat}
    (h : alreadySeen seen (.empty s lo hi) = true) (h1 : lo ≤ v) (h2 : v ≤ hi) :
    (seenGet seen v).isSome = true := by
  unfold alreadySeen at h
  simp only [Item.versions, Item.seqs] at h
  rw [List.all_eq_true] at h
  have := h (v - lo) (List.mem_range.mpr (by omega))
  rw [show lo + (v - lo) = v by omega] at this
  exact this

theorem stBuffer_seen (st : TxSt) (site v lo hi last : Nat) (cs : List Chg) :
    (stBuffer st site v lo hi last cs).seen =
      seenInsert st.seen (v, v) (some ⟨[(st.node.bufferChunk site v lo hi last cs).2], last⟩) := rfl

theorem contains_cv {b : Booked} {v : Nat} {s : Option (Nat × Nat)} (h : b.contains v s = true) :
    b.containsVersion v = true := by
  unfold Booked.contains at h
  rw [Bool.and_eq_true] at h
  exact h.1

/-! ### a version all of whose `Full` changesets in the batch are complete -/

section
variable {L : Log} {N0 : Node} {site : Nat} {R0 : List Chg} {C0 : List (Nat × Nat × Nat)}
  {A0 : List (Nat × Nat)}

/-- progress of version `v` after the changesets `done` of the transaction, when every `Full`
changeset of `(site, v)` among them is complete: it will be held, or it has not been touched -/
structure PU (N0 : Node) (site v : Nat) (done : List Item) (s : TxSt × List Chg) : Prop where
  st : WillHold (vbOf N0 site s) v ∨
    (seenGet s.1.seen v = none ∧ ¬ WillHold (N0.booked site) v ∧
      (vbOf N0 site s).partial? v = (N0.booked site).partial? v)
  finFull : (N0.booked site).partial? v = none → (∃ last cs, Item.full site v 0 last last cs ∈ done) →
    WillHold (vbOf N0 site s) v
  finEmpty : (∃ lo hi, Item.empty site lo hi ∈ done ∧ lo ≤ v ∧ v ≤ hi) → WillHold (vbOf N0 site s) v

theorem PU.init (N0 : Node) (site v : Nat) :
    PU N0 site v [] ({ node := N0, seen := [], processed := [], clears := [] }, []) := by
  refine ⟨?_, ?_, ?_⟩
  · by_cases hw : WillHold (N0.booked site) v
    · exact Or.inl hw
    · exact Or.inr ⟨rfl, hw, rfl⟩
  · rintro _ ⟨_, _, h⟩; cases h
  · rintro ⟨_, _, h, _⟩; cases h

theorem PU.step {v : Nat} {done : List Item} {s : TxSt × List Chg} (hp : PU N0 site v done s)
    (h : TXI L N0 site R0 C0 A0 s) (it : Item) (hs : it.site = site)
    (hcomp : ∀ lo hi last cs, it = Item.full site v lo hi last cs → lo = 0 ∧ hi = last) :
    PU N0 site v (done ++ [it]) (txStepG (N0.booked site) s it) := by
  have hW := fun hw => h.willHold_step it hs (v := v) hw
  obtain ⟨st, M⟩ := s
  -- what the step does when the version has not been touched
  have hright : seenGet st.seen v = none → ¬ WillHold (N0.booked site) v →
      (vbOf N0 site (st, M)).partial? v = (N0.booked site).partial? v →
      (WillHold (vbOf N0 site (txStepG (N0.booked site) (st, M) it)) v ∨
        (seenGet (txStepG (N0.booked site) (st, M) it).1.seen v = none ∧
          (vbOf N0 site (txStepG (N0.booked site) (st, M) it)).partial? v = (N0.booked site).partial? v)) ∧
      ((∃ last cs, it = Item.full site v 0 last last cs) → (N0.booked site).partial? v = none →
        WillHold (vbOf N0 site (txStepG (N0.booked site) (st, M) it)) v) ∧
      ((∃ lo hi, it = Item.empty site lo hi ∧ lo ≤ v ∧ v ≤ hi) →
        WillHold (vbOf N0 site (txStepG (N0.booked site) (st, M) it)) v) := by
    intro h1 h2 h3
    unfold txStepG vbOf at *
    simp only at *
    cases stepKind (N0.booked site) site st it hs with
    | skip hsk why =>
      rw [hsk]
      refine ⟨Or.inr ⟨h1, h3⟩, ?_, ?_⟩
      · rintro ⟨last, cs, rfl⟩ hpn
        exfalso
        rcases why with hc | hc | ⟨v', lo, hi, last', cs', he, hlt⟩
        · have hc' : (N0.booked site).containsAll v v (some (0, last)) = true := hc
          rw [containsAll_single] at hc'
          exact h2 ⟨contains_cv hc', fun p hp' => by rw [hpn] at hp'; cases hp'⟩
        · rw [alreadySeen_full_eq, h1] at hc; cases hc
        · simp only [Item.full.injEq] at he
          omega
      · rintro ⟨lo, hi, rfl, hl1, hl2⟩
        exfalso
        rcases why with hc | hc | ⟨v', lo', hi', last', cs', he, _⟩
        · have hc' : (N0.booked site).containsAll lo hi none = true := hc
          exact h2 ((contains_none_iff _ _).mp ((containsAll_iff _ _ _ _).mp hc' v hl1 hl2))
        · have := alreadySeen_empty_mem hc hl1 hl2
          rw [h1] at this; cases this
        · cases he
    | none vlo vhi hlh hv hshape hnc hns hseen hproc =>
      rw [hproc, cV_none_eq, hseen]
      have hin : vlo ≤ v ∧ v ≤ vhi → WillHold
          (((cV (N0.booked site) site st.processed).1.insertDb [(vlo, vhi)]).dropPartials vlo vhi) v := by
        intro hin
        refine ⟨(none_step_cv h hlh v).mpr (Or.inl hin), ?_⟩
        intro p hp'
        rw [none_step_partial, if_pos hin] at hp'
        cases hp'
      refine ⟨?_, ?_, ?_⟩
      · by_cases hin' : vlo ≤ v ∧ v ≤ vhi
        · exact Or.inl (hin hin')
        · right
          rw [seenGet_cons, if_neg hin', none_step_partial, if_neg hin']
          exact ⟨h1, h3⟩
      · rintro ⟨last, cs, rfl⟩ _
        simp only [Item.versions, Prod.mk.injEq] at hv
        exact hin ⟨by omega, by omega⟩
      · rintro ⟨lo, hi, rfl, hl1, hl2⟩
        simp only [Item.versions, Prod.mk.injEq] at hv
        exact hin ⟨by omega, by omega⟩
    | buffer v' lo hi last cs hit hlh hinc hnc hns hst =>
      have hv : v ≠ v' := by
        rintro rfl
        exact hinc (hcomp lo hi last cs hit)
      rw [hst, cV_buffer_eq, stBuffer_seen]
      refine ⟨Or.inr ⟨?_, ?_⟩, ?_, ?_⟩
      · rw [seenGet_cons, if_neg (by omega)]; exact h1
      · rw [bufBooked_partial_other _ _ _ _ _ _ _ v hv, vNode_booked]; exact h3
      · rintro ⟨last', cs', rfl⟩ _
        simp only [Item.full.injEq] at hit
        exact absurd hit.2.1 hv
      · rintro ⟨lo', hi', rfl, _⟩
        cases hit
  refine ⟨?_, ?_, ?_⟩
  · rcases hp.st with hw | ⟨h1, h2, h3⟩
    · exact Or.inl (hW hw)
    · rcases (hright h1 h2 h3).1 with hw | ⟨g1, g2⟩
      · exact Or.inl hw
      · exact Or.inr ⟨g1, h2, g2⟩
  · intro hpn ⟨last, cs, hm⟩
    rcases List.mem_append.mp hm with hm | hm
    · exact hW (hp.finFull hpn ⟨last, cs, hm⟩)
    · simp only [List.mem_singleton] at hm
      rcases hp.st with hw | ⟨h1, h2, h3⟩
      · exact hW hw
      · exact (hright h1 h2 h3).2.1 ⟨last, cs, hm.symm⟩ hpn
  · rintro ⟨lo, hi, hm, hl1, hl2⟩
    rcases List.mem_append.mp hm with hm | hm
    · exact hW (hp.finEmpty ⟨lo, hi, hm, hl1, hl2⟩)
    · simp only [List.mem_singleton] at hm
      rcases hp.st with hw | ⟨h1, h2, h3⟩
      · exact hW hw
      · exact (hright h1 h2 h3).2.2 ⟨lo, hi, hm.symm, hl1, hl2⟩

end

/-! ### a partial grows by every changeset of its version -/

theorem rangesFor_append (a v : Nat) (l1 l2 : List Item) :
    rangesFor a v (l1 ++ l2) = rangesFor a v l1 ++ rangesFor a v l2 := by
  unfold rangesFor; rw [List.filterMap_append]

theorem mem_rangesFor {a v : Nat} {items : List Item} {r : Nat × Nat} :
    r ∈ rangesFor a v items ↔ (∃ last cs, Item.full a v r.1 r.2 last cs ∈ items) ∧ r.1 ≤ r.2 := by
  unfold rangesFor
  rw [List.mem_filterMap]
  constructor
  · rintro ⟨it, hit, he⟩
    cases it with
    | empty => cases he
    | full a' w lo hi last cs =>
      simp only at he
      split at he
      · rename_i hc
        simp only [Option.some.injEq] at he
        obtain ⟨rfl, rfl, h3⟩ := hc
        subst he
        exact ⟨⟨last, cs, hit⟩, h3⟩
      · cases he
  · rintro ⟨⟨last, cs, hit⟩, hle⟩
    refine ⟨_, hit, ?_⟩
    simp only [hle, and_self, if_true]

theorem contains_some_gaps {b : Booked} {v : Nat} {s : Nat × Nat} {q : Partial}
    (h : b.contains v (some s) = true) (hq : b.partial? v = some q) : (RSet.gaps q.seqs s).isEmpty = true := by
  rw [contains_some_eq, hq, Bool.and_eq_true] at h
  exact h.2

section
variable {L : Log} {N0 : Node} {site : Nat} {R0 : List Chg} {C0 : List (Nat × Nat × Nat)}
  {A0 : List (Nat × Nat)}

/-- the partial `q` of version `v` contains the old partial `q0` (same `last_seq`), the range of every
changeset of the version among `done`, and what `seen` records for the version -/
def Grown (site v : Nat) (q0 : Partial) (done : List Item) (seen : List ((Nat × Nat) × Option Partial))
    (q : Partial) : Prop :=
  q.last = q0.last ∧ (∀ x, RSet.Mem q0.seqs x → RSet.Mem q.seqs x) ∧
  (∀ r ∈ rangesFor site v done, ∀ x, r.1 ≤ x → x ≤ r.2 → RSet.Mem q.seqs x) ∧
  (∀ pm, seenGet seen v = some (some pm) → RSet.WF pm.seqs ∧ ∀ x, RSet.Mem pm.seqs x → RSet.Mem q.seqs x) ∧
  seenGet seen v ≠ some none

/-- progress of version `v`, held as the partial `q0` before the transaction, after the changesets
`done`: it will be held, or its partial has grown -/
def PB (N0 : Node) (site v : Nat) (q0 : Partial) (done : List Item) (s : TxSt × List Chg) : Prop :=
  WillHold (vbOf N0 site s) v ∨
    ∃ q, (vbOf N0 site s).partial? v = some q ∧ Grown site v q0 done s.1.seen q

theorem PB.init {v : Nat} {q0 : Partial} (hq0 : (N0.booked site).partial? v = some q0) :
    PB N0 site v q0 [] ({ node := N0, seen := [], processed := [], clears := [] }, []) := by
  right
  refine ⟨q0, hq0, rfl, fun x hx => hx, ?_, ?_, ?_⟩
  · intro r hr; cases hr
  · intro pm hpm; cases hpm
  · intro h; cases h

theorem PB.step {v : Nat} {q0 : Partial} {done : List Item} {s : TxSt × List Chg}
    (hq0 : (N0.booked site).partial? v = some q0) (hwf0 : RSet.WF q0.seqs)
    (hp : PB N0 site v q0 done s) (h : TXI L N0 site R0 C0 A0 s) (it : Item) (hs : it.site = site) :
    PB N0 site v q0 (done ++ [it]) (txStepG (N0.booked site) s it) := by
  rcases hp with hw | ⟨q, hq, hlast, hsub0, hranges, hseenS, hseenN⟩
  · exact Or.inl (h.willHold_step it hs hw)
  obtain ⟨st, M⟩ := s
  unfold PB txStepG vbOf at *
  simp only at *
  -- the ranges of `done ++ [it]`, given those of `it`
  have hgrow : ∀ (q' : Partial), (∀ x, RSet.Mem q.seqs x → RSet.Mem q'.seqs x) →
      (∀ lo hi last cs, it = Item.full site v lo hi last cs → lo ≤ hi → ∀ x, lo ≤ x → x ≤ hi → RSet.Mem q'.seqs x) →
      ∀ r ∈ rangesFor site v (done ++ [it]), ∀ x, r.1 ≤ x → x ≤ r.2 → RSet.Mem q'.seqs x := by
    intro q' hqq hnew r hr x h1 h2
    rw [rangesFor_append] at hr
    rcases List.mem_append.mp hr with hr | hr
    · exact hqq x (hranges r hr x h1 h2)
    · obtain ⟨⟨last, cs, hm⟩, hle⟩ := mem_rangesFor.mp hr
      simp only [List.mem_singleton] at hm
      exact hnew r.1 r.2 last cs hm.symm hle x h1 h2
  cases stepKind (N0.booked site) site st it hs with
  | skip hsk why =>
    rw [hsk]
    right
    refine ⟨q, hq, hlast, hsub0, hgrow q (fun x hx => hx) ?_, hseenS, hseenN⟩
    rintro lo hi last cs rfl hle x h1 h2
    rcases why with hc | hc | ⟨v', lo', hi', last', cs', he, hlt⟩
    · have hc' : (N0.booked site).containsAll v v (some (lo, hi)) = true := hc
      rw [containsAll_single] at hc'
      exact hsub0 x (mem_of_gaps_empty hwf0 (contains_some_gaps hc' hq0) ⟨h1, h2⟩)
    · rw [alreadySeen_full_eq] at hc
      cases hsg : seenGet st.seen v with
      | none => rw [hsg] at hc; cases hc
      | some o =>
        cases o with
        | none => exact absurd hsg hseenN
        | some pm =>
          rw [hsg] at hc
          obtain ⟨hw, hsub⟩ := hseenS pm hsg
          exact hsub x (mem_of_gaps_empty hw hc ⟨h1, h2⟩)
    · simp only [Item.full.injEq] at he
      omega
  | none vlo vhi hlh hv hshape hnc hns hseen hproc =>
    rw [hproc, cV_none_eq, hseen]
    by_cases hin : vlo ≤ v ∧ v ≤ vhi
    · left
      refine ⟨(none_step_cv h hlh v).mpr (Or.inl hin), ?_⟩
      intro p hp'
      rw [none_step_partial, if_pos hin] at hp'
      cases hp'
    · right
      refine ⟨q, by rw [none_step_partial, if_neg hin]; exact hq, hlast, hsub0, hgrow q (fun x hx => hx) ?_, ?_, ?_⟩
      · rintro lo hi last cs rfl _
        simp only [Item.versions, Prod.mk.injEq] at hv
        exact absurd ⟨by omega, by omega⟩ hin
      · intro pm hpm
        rw [seenGet_cons, if_neg hin] at hpm
        exact hseenS pm hpm
      · rw [seenGet_cons, if_neg hin]; exact hseenN
  | buffer v' lo hi last cs hit hlh hinc hnc hns hst =>
    rw [hst, cV_buffer_eq, stBuffer_seen]
    have hVb := vNode_booked (N0.booked site) site st
    by_cases hv : v = v'
    · subst hv
      right
      have hq' : ((vNode (N0.booked site) site st).booked site).partial? v = some q := by rw [hVb]; exact hq
      have hm := @mem_bufPartial (vNode (N0.booked site) site st) site v lo hi last cs hlh
      have hch := (bufferChunk_setBooked st.node site (cV (N0.booked site) site st.processed).1 site v lo hi last cs).1
      have hrange := bufChunk_range (vNode (N0.booked site) site st) site v lo hi last cs
      have hfwd := bufChunk_fwd (vNode (N0.booked site) site st) site v last cs hlh
      refine ⟨bufPartial (vNode (N0.booked site) site st) site v lo hi last cs, bufBooked_partial_same _ _ _ _ _ _ _,
        ?_, ?_, ?_, ?_, ?_⟩
      · rw [bufPartial_last, hq']; exact hlast
      · intro x hx
        exact (hm x).mpr (Or.inl ⟨q, hq', hsub0 x hx⟩)
      · apply hgrow _ (fun x hx => (hm x).mpr (Or.inl ⟨q, hq', hx⟩))
        intro lo' hi' last' cs' he _ x h1 h2
        simp only [hit, Item.full.injEq] at he
        obtain ⟨_, _, rfl, rfl, _⟩ := he
        exact (hm x).mpr (Or.inr ⟨by omega, by omega⟩)
      · intro pm hpm
        rw [seenGet_cons, if_pos ⟨Nat.le_refl _, Nat.le_refl _⟩] at hpm
        simp only [Option.some.injEq] at hpm
        subst hpm
        simp only
        have hch' : (st.node.bufferChunk site v lo hi last cs).2 =
            ((vNode (N0.booked site) site st).bufferChunk site v lo hi last cs).2 := hch.symm
        rw [hch']
        refine ⟨wf_single_range hfwd, ?_⟩
        intro x hx
        exact (hm x).mpr (Or.inr ((mem_single_range _ _ _).mp hx))
      · rw [seenGet_cons, if_pos ⟨Nat.le_refl _, Nat.le_refl _⟩]
        intro hc; cases hc
    · right
      refine ⟨q, ?_, hlast, hsub0, hgrow q (fun x hx => hx) ?_, ?_, ?_⟩
      · rw [bufBooked_partial_other _ _ _ _ _ _ _ v hv, hVb]; exact hq
      · intro lo' hi' last' cs' he
        simp only [hit, Item.full.injEq] at he
        exact absurd he.2.1.symm hv
      · intro pm hpm
        rw [seenGet_cons, if_neg (by omega)] at hpm
        exact hseenS pm hpm
      · rw [seenGet_cons, if_neg (by omega)]; exact hseenN

end

end Corro.ClusterSys
