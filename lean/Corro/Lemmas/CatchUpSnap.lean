/-
Helper lemmas for C12: the snapshot part of the output (`rows`, `eoq`) along every schedule,
and the client library's verdicts.
-/
import Corro.Lemmas.CatchUp

namespace Corro.CatchUp

/-- the snapshot items of an output -/
def snapPart : List Item → List Item
  | [] => []
  | .rows v :: r => .rows v :: snapPart r
  | .eoq s :: r => .eoq s :: snapPart r
  | _ :: r => snapPart r

@[simp] theorem snapPart_append (a b : List Item) : snapPart (a ++ b) = snapPart a ++ snapPart b := by
  induction a with
  | nil => rfl
  | cons x r ih => cases x <;> simp [snapPart, ih]

@[simp] theorem snapPart_map_change (l : List Nat) : snapPart (l.map Item.change) = [] := by
  induction l with
  | nil => rfl
  | cons x r ih => simp [snapPart, ih]

/-- program points after the first read -/
def Post (pc : Pc) : Prop := pc ≠ .start ∧ ∀ v, pc ≠ .readEoq v

/-- Shape of the output along every schedule: nothing, then (mode `anew` only) the rows of one
version `v`, then the end-of-query event carrying the same `v`, then no further snapshot item. -/
def SnapInv (s : Sub) : Prop :=
  (s.pc = .start → s.out = []) ∧
  (∀ v, s.pc = .readEoq v → s.out = [.rows v] ∧ s.mode = .anew) ∧
  (Post s.pc →
    (s.mode = .anew → ∃ v rest, s.out = .rows v :: .eoq v :: rest ∧ snapPart rest = []) ∧
    (s.mode ≠ .anew → snapPart s.out = []))

theorem snapInv_attach (e : Env) (m : Mode) : SnapInv (attach e m) := by
  refine ⟨fun _ => rfl, ?_, ?_⟩
  · intro v h; simp [attach] at h
  · intro h; exact absurd rfl h.1

/-- after the first read every step of the main task only appends non-snapshot items -/
theorem stepMain_post (cfg : Cfg) (e : Env) (s : Sub) (hp : Post s.pc) :
    Post (stepMain cfg e s).pc ∧ (stepMain cfg e s).mode = s.mode ∧
      ∃ l, (stepMain cfg e s).out = s.out ++ l ∧ snapPart l = [] := by
  obtain ⟨mode, pc, cur, qHead, qTail, qt, cancelled, last, minId, pending, target, base, handed, out⟩ := s
  obtain ⟨hp1, hp2⟩ := hp
  dsimp only at hp1 hp2
  cases pc with
  | start => exact absurd rfl hp1
  | readEoq v => exact absurd rfl (hp2 v)
  | tryRecv =>
    simp only [stepMain]
    (repeat' split) <;> refine ⟨⟨by simp, by simp⟩, rfl, ?_⟩ <;>
      first | exact ⟨_, rfl, rfl⟩ | exact ⟨_, rfl, by simp [logRead]⟩ | exact ⟨[], by simp, rfl⟩
  | loop i =>
    simp only [stepMain]
    (repeat' split) <;> refine ⟨⟨by simp, by simp⟩, rfl, ?_⟩ <;>
      first | exact ⟨_, rfl, rfl⟩ | exact ⟨_, rfl, by simp [logRead]⟩ | exact ⟨[], by simp, rfl⟩
  | afterLoop =>
    simp only [stepMain]
    (repeat' split) <;> refine ⟨⟨by simp, by simp⟩, rfl, ?_⟩ <;>
      first | exact ⟨_, rfl, rfl⟩ | exact ⟨_, rfl, by simp [logRead]⟩ | exact ⟨[], by simp, rfl⟩
  | sendPending =>
    simp only [stepMain]
    (repeat' split) <;> refine ⟨⟨by simp, by simp⟩, rfl, ?_⟩ <;>
      first | exact ⟨_, rfl, rfl⟩ | exact ⟨_, rfl, by simp [logRead]⟩ | exact ⟨[], by simp, rfl⟩
  | drain =>
    simp only [stepMain]
    (repeat' split) <;> refine ⟨⟨by simp, by simp⟩, rfl, ?_⟩ <;>
      first | exact ⟨_, rfl, rfl⟩ | exact ⟨_, rfl, by simp [logRead]⟩ | exact ⟨[], by simp, rfl⟩
  | join =>
    simp only [stepMain]
    (repeat' split) <;> refine ⟨⟨by simp, by simp⟩, rfl, ?_⟩ <;>
      first | exact ⟨_, rfl, rfl⟩ | exact ⟨_, rfl, by simp [logRead]⟩ | exact ⟨[], by simp, rfl⟩
  | live =>
    simp only [stepMain]
    (repeat' split) <;> refine ⟨⟨by simp, by simp⟩, rfl, ?_⟩ <;>
      first | exact ⟨_, rfl, rfl⟩ | exact ⟨_, rfl, by simp [logRead]⟩ | exact ⟨[], by simp, rfl⟩
  | cancel =>
    simp only [stepMain]
    exact ⟨⟨by simp, by simp⟩, by first | rfl | trivial, [], by simp, rfl⟩
  | done =>
    simp only [stepMain]
    exact ⟨⟨by simp, by simp⟩, by first | rfl | trivial, [], by simp, rfl⟩

theorem snapInv_main (cfg : Cfg) (e : Env) (s : Sub) (h : SnapInv s) : SnapInv (stepMain cfg e s) := by
  by_cases hp : Post s.pc
  · obtain ⟨hp', hm, l, hl, hs⟩ := stepMain_post cfg e s hp
    obtain ⟨_, _, h3⟩ := h
    obtain ⟨ha, hn⟩ := h3 hp
    refine ⟨fun h0 => absurd h0 hp'.1, fun v hv => absurd hv (hp'.2 v), fun _ => ⟨?_, ?_⟩⟩
    · intro hmode
      obtain ⟨v, rest, ho, hr⟩ := ha (hm ▸ hmode)
      exact ⟨v, rest ++ l, by rw [hl, ho]; rfl, by simp [hr, hs]⟩
    · intro hmode
      rw [hl]; simp [hn (hm ▸ hmode), hs]
  · obtain ⟨h1, h2, _⟩ := h
    obtain ⟨mode, pc, cur, qHead, qTail, qt, cancelled, last, minId, pending, target, base, handed, out⟩ := s
    cases pc with
    | start =>
      have ho : out = [] := h1 rfl
      subst ho
      cases mode with
      | anew =>
        simp only [stepMain]
        refine ⟨by simp, ?_, ?_⟩
        · intro v hv; simp at hv; subst hv; exact ⟨rfl, rfl⟩
        · intro hpost; exact absurd rfl (hpost.2 _)
      | skip =>
        simp only [stepMain]
        refine ⟨by simp, by simp, fun _ => ⟨by simp, fun _ => rfl⟩⟩
      | since n =>
        simp only [stepMain]
        refine ⟨by simp, by simp, fun _ => ⟨by simp, fun _ => by simp [logRead]⟩⟩
    | readEoq v =>
      obtain ⟨ho, hm⟩ := h2 v rfl
      dsimp only at ho hm
      subst ho hm
      simp only [stepMain]
      refine ⟨by simp, by simp, fun _ => ⟨fun _ => ⟨v, [], rfl, rfl⟩, fun hne => absurd rfl hne⟩⟩
    | _ => exact absurd ⟨by simp, by simp⟩ hp

theorem snapInv_step (cfg : Cfg) (st : State) (a : Act) (h : SnapInv st.2) : SnapInv (step cfg st a).2 := by
  obtain ⟨e, s⟩ := st
  cases a with
  | main => exact snapInv_main cfg e s h
  | qrecv =>
    simp only [step, stepQRecv]
    (repeat' split) <;> exact h
  | qcancel =>
    simp only [step, stepQCancel]
    (repeat' split) <;> exact h
  | emit => exact h
  | commit => exact h
  | publish => exact h
  | prune => exact h

theorem run_snapInv (cfg : Cfg) (acts : List Act) : ∀ st : State, SnapInv st.2 → SnapInv (run cfg st acts).2 := by
  induction acts with
  | nil => intro st h; exact h
  | cons a as ih => intro st h; exact ih _ (snapInv_step cfg st a h)

/-! ### client library -/

theorem idsFrom_cons (l k : Nat) : idsFrom l (l + (k + 1)) = (l + 1) :: idsFrom (l + 1) (l + 1 + k) := by
  simp only [idsFrom]
  have : l + (k + 1) - l = k + 1 := by omega
  rw [this, List.range'_succ]
  congr 2
  omega

/-- a well-formed prefix is accepted silently and leaves `last` at its end -/
theorem clientRun_good_append : ∀ (n l : Nat) (r : List Nat),
    clientRun (some l) (idsFrom l (l + n) ++ r) = List.replicate n none ++ clientRun (some (l + n)) r := by
  intro n
  induction n with
  | zero => intro l r; simp [idsFrom]
  | succ k ih =>
    intro l r
    rw [idsFrom_cons]
    simp only [List.cons_append, clientRun, handleChange]
    have := ih (l + 1) r
    have e : l + 1 + k = l + (k + 1) := by omega
    rw [e] at this
    rw [e]
    simp [this, List.replicate_succ]

theorem clientRun_good (n l : Nat) :
    clientRun (some l) (idsFrom l (l + n)) = List.replicate n none := by
  have := clientRun_good_append n l []
  simpa [clientRun] using this

/-- no verdict at all only on a well-formed sequence -/
theorem clientRun_silent : ∀ (ids : List Nat) (l : Nat),
    (∀ r ∈ clientRun (some l) ids, r = none) → ids = idsFrom l (l + ids.length) := by
  intro ids
  induction ids with
  | nil => intro l _; simp [idsFrom]
  | cons x r ih =>
    intro l h
    simp only [clientRun, handleChange] at h
    by_cases hx : l + 1 = x
    · subst hx
      simp only [ne_eq, not_true_eq_false, ite_false, List.mem_cons, forall_eq_or_imp, true_and] at h
      have := ih (l + 1) h
      simp only [List.length_cons]
      rw [idsFrom_cons, ← this]
    · have := h (some (l + 1, x)) (by simp [hx])
      cases this

end Corro.CatchUp
