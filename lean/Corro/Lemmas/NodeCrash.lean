/-
C06 helper lemmas, part 3: the sync state rebuilt by a restart, `deliver` on a killed node, and the
crash between the commit that stores data and the background apply.
-/
import Corro.Lemmas.NodeSync
namespace Corro.Node
open Corro.Crdt

/-! ### node identity under the applies -/

theorem applyBuffered_id (n : Node) (a v : Nat) : (n.applyBuffered a v).id = n.id := by
  unfold Node.applyBuffered
  simp only
  split
  · rfl
  · split
    · rfl
    · rw [clearMeta_id, setBooked_id]
      split
      · exact bumpDbv_id _ _ _
      · exact mergeChanges_id _ _

theorem applyAll_id (n : Node) (ap : List (Nat × Nat)) : (applyAll n ap).id = n.id := by
  induction ap generalizing n with
  | nil => rfl
  | cons t ap ih =>
    show (applyAll (n.applyBuffered t.1 t.2) ap).id = _
    rw [ih, applyBuffered_id]

theorem restart_id (n : Node) : (n.restart).id = n.id := by
  rw [restart_eq', applyAll_id]; rfl

/-! ### the sync state after a restart -/

/-- **for a consistent node the restart rebuilds exactly the sync state it had** (pending applies
included: applying a fully buffered version does not change what is advertised) -/
theorem restart_syncState {L : Nat → Nat → Nat} {n : Node} (hc : Consistent L n) :
    (n.restart).syncState = n.syncState := by
  have hrc := restart_consistent' hc
  apply syncState_congr (restart_id n) hrc.sorted hc.sorted (fun a => (hrc.actor a).keys)
    (fun a => (hc.actor a).keys)
  intro a
  rw [restart_booked hc]
  obtain ⟨h1, h2, h3, h4, _, _⟩ := reloaded_spec hc a
  refine ⟨h1, h2, ?_⟩
  intro v
  by_cases hr : HasRows n a v
  · rw [h3 v hr]
  · rw [h4 v hr]
    cases hp : (n.booked a).partial? v with
    | none => rfl
    | some q =>
      have := (hc.actor a).norows_part v q hp hr
      simp [gP, this]

/-- applying re-scheduled versions does not change the advertised state of a consistent node -/
theorem applyAll_syncState {L : Nat → Nat → Nat} {n : Node} (hc : Consistent L n) (ap : List (Nat × Nat)) :
    (applyAll n ap).syncState = n.syncState := by
  have hac := applyAll_consistent hc ap
  apply syncState_congr (applyAll_id n ap) hac.sorted hc.sorted (fun a => (hac.actor a).keys)
    (fun a => (hc.actor a).keys)
  intro a
  rw [applyAll_booked hc]
  exact BookEqv.refl _

/-! ### `kill` commutes with everything but the background apply -/

theorem kill_booked (n : Node) (a : Nat) : (n.kill).booked a = n.booked a := rfl

theorem bumpDbv_kill (n : Node) (s v : Nat) : (n.kill).bumpDbv s v = (n.bumpDbv s v).kill := by
  unfold Node.bumpDbv Node.kill
  simp only
  split <;> rfl

theorem mergeChanges_kill (n : Node) (cs : List Chg) : (n.kill).mergeChanges cs = (n.mergeChanges cs).kill := by
  induction cs generalizing n with
  | nil => rfl
  | cons c cs ih =>
    rw [mergeChanges_cons, mergeChanges_cons, bumpDbv_kill]
    exact ih ({ (n.bumpDbv c.site c.dbv) with db := merge n.db c } : Node)

theorem setBooked_kill (n : Node) (a : Nat) (b : Booked) : (n.kill).setBooked a b = (n.setBooked a b).kill := by
  unfold Node.setBooked Node.kill
  simp only
  split <;> rfl

theorem clearMeta_kill (n : Node) (s lo hi : Nat) : (n.kill).clearMeta s lo hi = (n.clearMeta s lo hi).kill := rfl

theorem bufferChunk_kill (n : Node) (s v lo hi last : Nat) (cs : List Chg) :
    (n.kill).bufferChunk s v lo hi last cs =
      ((n.bufferChunk s v lo hi last cs).1.kill, (n.bufferChunk s v lo hi last cs).2) := rfl

/-- the transaction state with a dead node -/
def TxSt.kill (st : TxSt) : TxSt := { st with node := st.node.kill }

theorem processOne_kill (b0 : Booked) (st : TxSt) (it : Item) :
    processOne b0 st.kill it = (processOne b0 st it).kill := by
  cases it with
  | empty s vlo vhi =>
    rw [processOne_empty, processOne_empty]
    split
    · rfl
    · show (if alreadySeen st.seen _ = true then _ else _) = _
      split
      · rfl
      · unfold stCleared TxSt.kill
        simp only
        split
        · rw [bumpDbv_kill]; rfl
        · rfl
  | full s ver lo hi last cs =>
    rw [processOne_full, processOne_full]
    split
    · rfl
    · show (if alreadySeen st.seen _ = true then _ else _) = _
      split
      · rfl
      · split
        · unfold stCleared TxSt.kill
          simp only
          split
          · rw [bumpDbv_kill]; rfl
          · rfl
        · split
          · rfl
          · split
            · unfold stComplete TxSt.kill
              simp only
              rw [mergeChanges_kill]; rfl
            · rfl

theorem txFold_kill (n : Node) (site : Nat) (items : List Item) :
    txFold n.kill site items = (txFold n site items).kill := by
  unfold txFold
  rw [kill_booked]
  suffices hs : ∀ (st : TxSt), items.foldl (processOne (n.booked site)) st.kill =
      (items.foldl (processOne (n.booked site)) st).kill from
    hs { node := n, seen := [], processed := [], clears := [] }
  induction items with
  | nil => intro st; rfl
  | cons it items ih =>
    intro st
    simp only [List.foldl_cons]
    rw [processOne_kill, ih]

theorem processActor_kill (n : Node) (site : Nat) (items : List Item) :
    processActor n.kill site items =
      ((processActor n site items).1.kill, (processActor n site items).2) := by
  rw [processActor_node, processActor_node, txFold_kill]
  have hp : (txFold n site items).kill.processed = (txFold n site items).processed := rfl
  have hcm : committed n.kill site (txFold n site items).kill = committed n site (txFold n site items) := rfl
  rw [hp, hcm]
  split
  · rfl
  · show ((txFold n site items).node.kill.setBooked site _, _, _) = _
    rw [setBooked_kill]; rfl

theorem unknownOf_kill (n : Node) (batch : List Item) : unknownOf n.kill batch = unknownOf n batch := rfl

theorem deliverFold_kill (n : Node) (batch : List Item) :
    deliverFold n.kill batch = ((deliverFold n batch).1.kill, (deliverFold n batch).2) := by
  unfold deliverFold
  rw [unknownOf_kill]
  suffices hs : ∀ (l : List Nat) (acc : Node × List (Nat × Nat) × List (Nat × Nat × Nat)),
      l.foldl (actorStep (unknownOf n batch)) (acc.1.kill, acc.2) =
        ((l.foldl (actorStep (unknownOf n batch)) acc).1.kill,
          (l.foldl (actorStep (unknownOf n batch)) acc).2) from hs _ (n, [], [])
  intro l
  induction l with
  | nil => intro acc; rfl
  | cons s l ih =>
    intro acc
    simp only [List.foldl_cons]
    have : actorStep (unknownOf n batch) (acc.1.kill, acc.2) s =
        ((actorStep (unknownOf n batch) acc s).1.kill, (actorStep (unknownOf n batch) acc s).2) := by
      unfold actorStep
      simp only
      rw [processActor_kill]
    rw [this, ih]

theorem clearAll_kill (n : Node) (cl : List (Nat × Nat × Nat)) : clearAll n.kill cl = (clearAll n cl).kill := by
  induction cl generalizing n with
  | nil => rfl
  | cons c cl ih =>
    show clearAll ((n.kill).clearMeta c.1 c.2.1 c.2.2) cl = _
    rw [clearMeta_kill, ih]; rfl

/-- **a dead node stops right before the re-applies** -/
theorem kill_deliver (n : Node) (batch : List Item) : (n.kill).deliver batch = (preApply n batch).kill := by
  rw [deliver_eq_preApply]
  have hpre : preApply n.kill batch = (preApply n batch).kill := by
    unfold preApply
    rw [deliverFold_kill, clearAll_kill]
  rw [hpre]
  rfl

/-! ### the crash between the commit and the background apply: sync state -/

theorem Consistent.kill {L : Nat → Nat → Nat} {n : Node} (hc : Consistent L n) : Consistent L n.kill :=
  ⟨fun a => (hc.actor a).transfer ⟨rfl, fun _ _ => Iff.rfl, fun _ _ => Iff.rfl, rfl⟩, hc.sorted⟩

theorem kill_syncState (n : Node) : (n.kill).syncState = n.syncState := rfl

/-- **any batch**: the sync state after "crash right after the commit, restart" is the sync state
of the uninterrupted delivery -/
theorem crash_syncState {L : Nat → Nat → Nat} {n : Node} (hc : Consistent L n) (batch : List Item)
    (hwf : ∀ it ∈ batch, ItemWF L it) (hal : n.alive = true) :
    (((n.kill).deliver batch).restart).syncState = (n.deliver batch).syncState := by
  have hX := preApply_consistent hc batch hwf
  rw [kill_deliver, restart_syncState hX.kill, kill_syncState, deliver_eq_preApply,
    preApply_alive hc batch hwf, hal]
  simp only [if_true]
  rw [applyAll_syncState hX]

/-! ### where the applies come from -/

theorem processOne_processed_from (b0 : Booked) (st : TxSt) (it : Item) :
    ∀ e ∈ (processOne b0 st it).processed, e ∈ st.processed ∨ it.versions = (e.vlo, e.vhi) := by
  intro e he
  cases it with
  | empty s vlo vhi =>
    rw [processOne_empty] at he
    split at he
    · exact Or.inl he
    · split at he
      · exact Or.inl he
      · unfold stCleared at he
        simp only at he
        rcases List.mem_append.mp he with h | h
        · exact Or.inl h
        · simp only [List.mem_singleton] at h; rw [h]; exact Or.inr rfl
  | full s ver lo hi last cs =>
    rw [processOne_full] at he
    split at he
    · exact Or.inl he
    · split at he
      · exact Or.inl he
      · split at he
        · unfold stCleared at he
          simp only at he
          rcases List.mem_append.mp he with h | h
          · exact Or.inl h
          · simp only [List.mem_singleton] at h; rw [h]; exact Or.inr rfl
        · split at he
          · exact Or.inl he
          · split at he
            · unfold stComplete at he
              simp only at he
              rcases List.mem_append.mp he with h | h
              · exact Or.inl h
              · simp only [List.mem_singleton] at h; rw [h]; exact Or.inr rfl
            · unfold stBuffer at he
              simp only at he
              rcases List.mem_append.mp he with h | h
              · exact Or.inl h
              · simp only [List.mem_singleton] at h; rw [h]; exact Or.inr rfl

theorem txFold_processed_from (n : Node) (site : Nat) (items : List Item) :
    ∀ e ∈ (txFold n site items).processed, ∃ it ∈ items, it.versions = (e.vlo, e.vhi) := by
  unfold txFold
  apply foldl_inv (fun (st : TxSt) => ∀ e ∈ st.processed, ∃ it ∈ items, it.versions = (e.vlo, e.vhi))
  · intro e he; cases he
  · intro st it hit hst e he
    rcases processOne_processed_from _ st it e he with h | h
    · exact hst e h
    · exact ⟨it, hit, h⟩

theorem commit_apps_from (site : Nat) (P : List Processed) (b : Booked) :
    ∀ t ∈ (P.foldl (commitStep site) (b, [])).2, ∃ e ∈ P, t = (site, e.vlo) := by
  apply foldl_inv (fun (acc : Booked × List (Nat × Nat)) => ∀ t ∈ acc.2, ∃ e ∈ P, t = (site, e.vlo))
  · intro t ht; cases ht
  · intro acc e he hacc t ht
    unfold commitStep at ht
    split at ht
    · simp only at ht
      split at ht
      · rcases List.mem_append.mp ht with h | h
        · exact hacc t h
        · simp only [List.mem_singleton] at h; exact ⟨e, he, h⟩
      · exact hacc t ht
    · exact hacc t ht

theorem processActor_apps_from (n : Node) (site : Nat) (items : List Item) :
    ∀ t ∈ (processActor n site items).2.1, t.1 = site ∧ ∃ it ∈ items, it.versions.1 = t.2 := by
  intro t ht
  rw [processActor_node] at ht
  split at ht
  · cases ht
  · simp only at ht
    obtain ⟨e, he, rfl⟩ := commit_apps_from site _ _ t ht
    obtain ⟨it, hit, hv⟩ := txFold_processed_from n site items e he
    exact ⟨rfl, it, hit, by rw [hv]⟩

theorem deliverFold_apps_from (n : Node) (batch : List Item) :
    ∀ t ∈ (deliverFold n batch).2.1, ∃ it ∈ batch, it.site = t.1 ∧ it.versions.1 = t.2 := by
  unfold deliverFold
  apply foldl_inv (fun (acc : Node × List (Nat × Nat) × List (Nat × Nat × Nat)) =>
    ∀ t ∈ acc.2.1, ∃ it ∈ batch, it.site = t.1 ∧ it.versions.1 = t.2)
  · intro t ht; cases ht
  · intro acc s _ hacc t ht
    unfold actorStep at ht
    simp only at ht
    rcases List.mem_append.mp ht with h | h
    · exact hacc t h
    · obtain ⟨h1, it, hit, h2⟩ := processActor_apps_from _ _ _ t h
      have := List.mem_filter.mp hit
      exact ⟨it, mem_unknownOf this.1, by rw [h1]; exact of_decide_eq_true this.2, h2⟩

/-! ### the crash between the commit and the background apply: the store, one version -/

theorem bufOf_filter_self (buf : List Chg) (s v : Nat) :
    bufOf (buf.filter (fun c => !decide (c.site = s ∧ c.dbv = v))) s v = [] := by
  unfold bufOf
  rw [List.filter_filter]
  apply List.filter_eq_nil_iff.mpr
  intro c _
  by_cases h : c.site = s ∧ c.dbv = v <;> simp [h]

theorem sortBySeq_nil : sortBySeq [] = [] := rfl

/-- applies of a version without buffered rows leave the store alone -/
theorem applyAll_same_db (Y : Node) (s v : Nat) (ap : List (Nat × Nat)) (hap : ∀ t ∈ ap, t = (s, v))
    (hb : bufOf Y.buf s v = []) : (applyAll Y ap).db = Y.db := by
  induction ap generalizing Y with
  | nil => rfl
  | cons t ap ih =>
    have ht := hap t (by simp)
    subst ht
    show (applyAll (Y.applyBuffered s v) ap).db = _
    have hstep : (Y.applyBuffered s v).db = Y.db ∧ bufOf (Y.applyBuffered s v).buf s v = [] := by
      cases hp : (Y.booked s).partial? v with
      | none =>
        rw [applyBuffered_skip Y s v (fun p h => by rw [hp] at h; cases h)]; exact ⟨rfl, hb⟩
      | some p =>
        cases hcomp : p.complete with
        | false =>
          rw [applyBuffered_skip Y s v (fun q h => by rw [hp] at h; cases h; exact hcomp)]
          exact ⟨rfl, hb⟩
        | true =>
          rw [applyBuffered_complete Y s v p hp hcomp]
          refine ⟨?_, ?_⟩
          · rw [clearMeta_db, applyCore_db, hb, sortBySeq_nil]; rfl
          · rw [clearMeta_buf_single, applyCore_buf]; exact bufOf_filter_self _ _ _
    rw [ih _ (fun t' ht' => hap t' (by simp [ht'])) hstep.2, hstep.1]

theorem applyTask_same_db (s v : Nat) (T : List (Nat × Nat)) (hT : ∀ t ∈ T, t = (s, v)) (db : Db)
    (buf : List Chg) (hb : bufOf buf s v = []) : (T.foldl applyTask (db, buf)).1 = db := by
  induction T generalizing db buf with
  | nil => rfl
  | cons t T ih =>
    have ht := hT t (by simp)
    subst ht
    simp only [List.foldl_cons, applyTask]
    rw [ih (fun t' ht' => hT t' (by simp [ht'])) _ _ (bufOf_filter_self _ _ _), hb, sortBySeq_nil]
    rfl

/-- **one version**: the store after "crash right after the commit, restart" is the store of the
uninterrupted delivery -/
theorem crash_db_one {L : Nat → Nat → Nat} {n : Node} (hc : Consistent L n) (batch : List Item)
    (hwf : ∀ it ∈ batch, ItemWF L it) (hal : n.alive = true) (hnp : NoPending n) (s v : Nat)
    (hone : ∀ it ∈ batch, it.site = s ∧ it.versions.1 = v) :
    (((n.kill).deliver batch).restart).db = (n.deliver batch).db := by
  have hX := preApply_consistent hc batch hwf
  have happs : ∀ t ∈ (deliverFold n batch).2.1, t = (s, v) := by
    intro t ht
    obtain ⟨it, hit, h1, h2⟩ := deliverFold_apps_from n batch t ht
    have := hone it hit
    exact Prod.ext (by rw [← h1]; exact this.1) (by rw [← h2]; exact this.2)
  have hT : restartTasks (preApply n batch).kill = restartTasks (preApply n batch) := rfl
  have htasks : ∀ t ∈ restartTasks (preApply n batch), t ∈ (deliverFold n batch).2.1 := by
    intro t ht
    obtain ⟨hr, p, hp, hcomp⟩ := (mem_restartTasks_cons hX t.1 t.2).mp ht
    exact preApply_np hc batch hwf hnp t.1 t.2 p hp hcomp hr
  rw [kill_deliver, deliver_eq_preApply, preApply_alive hc batch hwf, hal]
  simp only [if_true]
  have hL : ((preApply n batch).kill.restart).db =
      ((restartTasks (preApply n batch)).foldl applyTask ((preApply n batch).db, (preApply n batch).buf)).1 := by
    have := (restart_effect (preApply n batch).kill).1
    rw [hT] at this
    exact congrArg Prod.fst this
  rw [hL]
  generalize hXd : preApply n batch = X at *
  cases hTl : restartTasks X with
  | nil =>
    simp only [List.foldl_nil]
    -- nothing re-scheduled: every apply of `(s, v)` is a no-op on the store
    by_cases hr : HasRows X s v
    · -- rows but not a task: the partial is not complete, every apply is skipped
      have hskip : ∀ p, (X.booked s).partial? v = some p → p.complete = false := by
        intro p hp
        cases hcomp : p.complete with
        | false => rfl
        | true =>
          have := (mem_restartTasks_cons hX s v).mpr ⟨hr, p, hp, hcomp⟩
          rw [hTl] at this; cases this
      symm
      generalize (deliverFold n batch).2.1 = ap at happs
      clear htasks hL hTl hT
      induction ap with
      | nil => rfl
      | cons t ap ih =>
        have ht := happs t (by simp)
        subst ht
        show (applyAll (X.applyBuffered s v) ap).db = _
        rw [applyBuffered_skip X s v hskip]
        exact ih (fun t' ht' => happs t' (by simp [ht']))
    · symm
      apply applyAll_same_db X s v _ happs
      unfold bufOf
      apply List.filter_eq_nil_iff.mpr
      intro c hcm
      simp only [decide_eq_true_eq]
      rintro ⟨h1, h2⟩
      apply hr
      obtain ⟨r, hr1, hr2, hr3, _⟩ := (hX.actor s).buf_cov c hcm h1
      exact ⟨r, hr1, hr2, by rw [hr3, h2]⟩
  | cons t T =>
    have htv : ∀ t' ∈ t :: T, t' = (s, v) := fun t' ht' => happs t' (htasks t' (by rw [hTl]; exact ht'))
    have ht := htv t (by simp)
    subst ht
    have hmem : (s, v) ∈ (deliverFold n batch).2.1 := htasks (s, v) (by rw [hTl]; simp)
    obtain ⟨_, p, hp, hcomp⟩ := (mem_restartTasks_cons hX s v).mp (by rw [hTl]; simp)
    simp only [List.foldl_cons, applyTask]
    rw [applyTask_same_db s v T (fun t' ht' => htv t' (by simp [ht'])) _ _ (bufOf_filter_self _ _ _)]
    -- the uninterrupted run: the first apply of `(s, v)` merges the rows, the others are no-ops
    generalize (deliverFold n batch).2.1 = ap at happs hmem
    cases ap with
    | nil => cases hmem
    | cons t' ap =>
      have ht' := happs t' (by simp)
      subst ht'
      show _ = (applyAll (X.applyBuffered s v) ap).db
      rw [applyAll_same_db (X.applyBuffered s v) s v ap (fun t'' h'' => happs t'' (by simp [h'']))]
      · rw [applyBuffered_complete X s v p hp hcomp, clearMeta_db, applyCore_db]
      · rw [applyBuffered_complete X s v p hp hcomp, clearMeta_buf_single, applyCore_buf]
        exact bufOf_filter_self _ _ _

/-! ### local writes -/

theorem localWrite_consistent' {L : Nat → Nat → Nat} {n n' : Node} {stmts : List Stmt}
    {out : Option (Nat × List Chg)} (hc : Consistent L n) (h : n.localWrite stmts = .ok (n', out)) :
    Consistent L n' := by
  unfold Node.localWrite at h
  split at h
  · cases h
  · simp only [Except.ok.injEq, Prod.mk.injEq] at h
    rw [← h.1]; exact hc
  · rename_i db' ver chs _
    simp only [Except.ok.injEq, Prod.mk.injEq] at h
    obtain ⟨h1, _⟩ := h
    subst h1
    have hmx : ∀ x y : Nat, Nat.max x y = Max.max x y := fun _ _ => rfl
    have hbk0 : ∀ a, ({ n with db := db' } : Node).booked a = n.booked a := fun _ => rfl
    refine ⟨?_, ?_⟩
    · intro a
      by_cases ha : a = n.id
      · subst ha
        have hca := hc.actor n.id
        have hbk : (((({ n with db := db' } : Node).bumpDbv n.id ver).setBooked n.id
            ((({ n with db := db' } : Node).booked n.id).insertDb [(ver, ver)])).booked n.id) =
            (n.booked n.id).insertDb [(ver, ver)] := by rw [booked_setBooked_same, hbk0]
        have hdbv : dbvOf ((({ n with db := db' } : Node).bumpDbv n.id ver).setBooked n.id
            ((({ n with db := db' } : Node).booked n.id).insertDb [(ver, ver)])) n.id =
            Max.max (dbvOf n n.id) ver := by
          rw [dbvOf_congr (setBooked_dbv _ _ _), dbvOf_bumpDbv, if_pos rfl, hmx]; rfl
        have hmax' : ((n.booked n.id).insertDb [(ver, ver)]).max = Max.max (n.booked n.id).max ver := by
          rw [insertDb_max _ _ (by simp), sup_singleton, hmx]
        refine ⟨by rw [hbk]; exact insertDb_pwf hca.pwf _, by rw [hbk]; exact insertDb_keysSorted hca.keys _,
          ?_, ?_, ?_, ?_, fun v hv => absurd hv (not_covered_nil v), ?_, ?_, ?_, ?_,
          by rw [hbk]; exact insertDb_needed_wf hca.needed_wf _ (by simp), ?_⟩
        · intro r hr hs
          rw [setBooked_seqRows, bumpDbv_seqRows] at hr
          exact hca.rows_fwd r hr hs
        · intro v p hp; rw [hbk, partial?_insertDb] at hp; exact hca.part_last v p hp
        · intro v hv
          have hv' : HasRows n n.id v := by
            obtain ⟨r, hr, hs⟩ := hv
            rw [setBooked_seqRows, bumpDbv_seqRows] at hr
            exact ⟨r, hr, hs⟩
          rcases hca.rows_part v hv' with h1 | ⟨p, hp, hm⟩
          · exact Or.inl h1
          · refine Or.inr ⟨p, by rw [hbk, partial?_insertDb]; exact hp, ?_⟩
            intro x
            rw [setBooked_seqRows, bumpDbv_seqRows]; exact hm x
        · intro v p hp hnr
          rw [hbk, partial?_insertDb] at hp
          apply hca.norows_part v p hp
          rintro ⟨r, hr, hs⟩
          exact hnr ⟨r, by rw [setBooked_seqRows, bumpDbv_seqRows]; exact hr, hs⟩
        · intro c hcm hs
          rw [setBooked_buf, bumpDbv_buf] at hcm
          rw [setBooked_seqRows, bumpDbv_seqRows]
          exact hca.buf_cov c hcm hs
        · rw [hbk, hdbv, hmax']; have := hca.dbv_le; omega
        · intro r hr hs
          rw [setBooked_seqRows, bumpDbv_seqRows] at hr
          rw [hbk, hmax']; have := hca.rows_le r hr hs; omega
        · rw [hbk, hdbv, hmax']
          by_cases hle : ver ≤ (n.booked n.id).max
          · rw [Nat.max_eq_left hle]
            rcases hca.max_att with h1 | ⟨r, hr, hs, h1, h2⟩
            · left; omega
            · right
              exact ⟨r, by rw [setBooked_seqRows, bumpDbv_seqRows]; exact hr, hs, h1, h2⟩
          · left; omega
        · intro v p hp
          rw [hbk, partial?_insertDb] at hp
          have hk := hca.part_known v p hp
          rw [hbk, hmax']
          refine ⟨by omega, ?_⟩
          rw [mem_insertDb_needed hca.needed_wf [(ver, ver)] (by simp) (by simp), sup_singleton]
          rintro ⟨h1 | h1, _⟩
          · exact hk.2 h1
          · omega
      · apply (hc.actor a).transfer
        refine ⟨?_, ?_, ?_, ?_⟩
        · rw [booked_setBooked_other _ _ _ _ ha, booked_bumpDbv]; rfl
        · intro r _; rw [setBooked_seqRows, bumpDbv_seqRows]
        · intro c _; rw [setBooked_buf, bumpDbv_buf]
        · rw [dbvOf_congr (setBooked_dbv _ _ _), dbvOf_bumpDbv, if_neg ha]; rfl
    · apply setBooked_sorted
      rw [bumpDbv_book]; exact hc.sorted

/-- a fresh node is consistent -/
theorem fresh_consistent (L : Nat → Nat → Nat) (i : Nat) : Consistent L (Node.fresh i) := by
  refine ⟨?_, List.Pairwise.nil⟩
  intro a
  have hb : (Node.fresh i).booked a = {} := rfl
  refine ⟨?_, ?_, ?_, ?_, ?_, ?_, fun v hv => absurd hv (not_covered_nil v), ?_, ?_, ?_, ?_, ?_, ?_⟩
  · rw [hb]; intro e he; cases he
  · rw [hb]; exact List.Pairwise.nil
  · intro r hr; cases hr
  · intro v p hp; rw [hb] at hp; cases hp
  · rintro v ⟨r, hr, _⟩; cases hr
  · intro v p hp; rw [hb] at hp; cases hp
  · intro c hcm; cases hcm
  · rw [hb]; exact Nat.le_refl _
  · intro r hr; cases hr
  · rw [hb]; exact Or.inl (Nat.zero_le _)
  · rw [hb]; exact trivial
  · intro v p hp; rw [hb] at hp; cases hp

end Corro.Node
