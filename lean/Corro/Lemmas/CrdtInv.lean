/-
C01, CRDT level: the invariant that ties a database reached by folding `merge` to the *set* of
changes folded so far (`Inv`), and its preservation (`merge_inv`, `merge_fold_inv`).
No well-formedness of the changes is assumed.
-/
import Corro.Lemmas.CrdtSpec

namespace Corro.Crdt

/-- What is known about one cell `l` of row `(t,p)` whose current causal length is `n`, relative
to the changes `P` merged so far. -/
structure CellInv (P : List Chg) (t p : String) (n : Nat) (l : Cell) : Prop where
  notSent : l.cid ≠ sentinel
  /-- value and attribution come from a change of `P` for this row and column -/
  prov : ∃ c ∈ P, c.atRow t p ∧ c.cid = l.cid ∧ c.val = l.val ∧ c.site = l.clk.site ∧
    c.dbv = l.clk.dbv ∧ c.seq = l.clk.seq
  /-- no change of `P` for this cell in the current incarnation is above the cell … -/
  ub : ∀ d ∈ P, d.atCell t p l.cid n → keyLt l.key d.key = false
  /-- … and the cell's key is that of such a change, unless the cell is a zeroed leftover -/
  att : (∃ c ∈ P, c.atCell t p l.cid n ∧ c.key = l.key) ∨ l.clk.colv = 0

/-- What is known about the stored row `r` of key `(t,p)`. -/
structure RowOK (P : List Chg) (t p : String) (r : Row) : Prop where
  tbl : r.tbl = t
  pk : r.pk = p
  pos : 1 ≤ r.cl
  /-- the row's causal length is the maximum over `P` … -/
  ub : ∀ c ∈ P, c.atRow t p → c.cl ≤ r.cl
  /-- … and is attained -/
  att : ∃ c ∈ P, c.atRow t p ∧ c.cl = r.cl
  /-- a deleted row has no cells -/
  even : r.cl % 2 = 0 → r.cells = []
  cells : ∀ x l, r.findCell x = some l → CellInv P t p r.cl l
  /-- every column with a change in the current incarnation has a cell -/
  has : r.cl % 2 = 1 → ∀ c ∈ P, c.atCell t p c.cid r.cl → c.cid ≠ sentinel →
    ∃ l, r.findCell c.cid = some l

/-- the invariant for the lookup result of key `(t,p)` -/
def RowInv (P : List Chg) (t p : String) : Option Row → Prop
  | none => ∀ c ∈ P, c.atRow t p → c.cl = 0
  | some r => RowOK P t p r

/-- **The invariant.**  `db` is what one gets from merging exactly the set of changes `P`
(in some order, with some multiplicities). -/
def Inv (db : Db) (P : List Chg) : Prop := ∀ t p, RowInv P t p (db.findRow t p)

/-! ### the invariant only depends on the set of changes -/

theorem CellInv.congr {P Q : List Chg} (h : ∀ c, c ∈ P ↔ c ∈ Q) {t p : String} {n : Nat} {l : Cell}
    (hi : CellInv P t p n l) : CellInv Q t p n l := by
  obtain ⟨h1, ⟨c, hc, h2⟩, h3, h4⟩ := hi
  refine ⟨h1, ⟨c, (h c).mp hc, h2⟩, fun d hd => h3 d ((h d).mpr hd), ?_⟩
  rcases h4 with ⟨c, hc, h5⟩ | h5
  · exact Or.inl ⟨c, (h c).mp hc, h5⟩
  · exact Or.inr h5

theorem RowInv.congr {P Q : List Chg} (h : ∀ c, c ∈ P ↔ c ∈ Q) {t p : String} {o : Option Row}
    (hi : RowInv P t p o) : RowInv Q t p o := by
  cases o with
  | none => exact fun c hc => hi c ((h c).mpr hc)
  | some r =>
    obtain ⟨h1, h2, h3, h4, ⟨c, hc, h5⟩, h6, h7, h8⟩ := hi
    exact ⟨h1, h2, h3, fun c hc => h4 c ((h c).mpr hc), ⟨c, (h c).mp hc, h5⟩, h6,
      fun x l hl => (h7 x l hl).congr h, fun ho c hc => h8 ho c ((h c).mpr hc)⟩

theorem Inv.congr {db : Db} {P Q : List Chg} (h : ∀ c, c ∈ P ↔ c ∈ Q) (hi : Inv db P) : Inv db Q :=
  fun t p => (hi t p).congr h

/-! ### adding a change that does not concern the cell / the row -/

theorem CellInv.cons {P : List Chg} {t p : String} {n : Nat} {l : Cell} (c : Chg)
    (hi : CellInv P t p n l) (hc : ¬ c.atCell t p l.cid n) : CellInv (c :: P) t p n l := by
  obtain ⟨h1, ⟨c0, hc0, h2⟩, h3, h4⟩ := hi
  refine ⟨h1, ⟨c0, List.mem_cons_of_mem _ hc0, h2⟩, ?_, ?_⟩
  · intro d hd hat
    rcases List.mem_cons.mp hd with rfl | hd
    · exact absurd hat hc
    · exact h3 d hd hat
  · rcases h4 with ⟨c1, hc1, h5⟩ | h5
    · exact Or.inl ⟨c1, List.mem_cons_of_mem _ hc1, h5⟩
    · exact Or.inr h5

/-- a change that is below the row's causal length, or at it but a sentinel / a repeated delete,
changes nothing in what is known about the stored row -/
theorem RowOK.cons {P : List Chg} {t p : String} {r : Row} (c : Chg) (hi : RowOK P t p r)
    (hle : c.atRow t p → c.cl ≤ r.cl)
    (heq : c.atRow t p → c.cl = r.cl → r.cl % 2 = 0 ∨ c.cid = sentinel) : RowOK (c :: P) t p r := by
  obtain ⟨h1, h2, h3, h4, ⟨c0, hc0, h5⟩, h6, h7, h8⟩ := hi
  refine ⟨h1, h2, h3, ?_, ⟨c0, List.mem_cons_of_mem _ hc0, h5⟩, h6, ?_, ?_⟩
  · intro d hd hat
    rcases List.mem_cons.mp hd with rfl | hd
    · exact hle hat
    · exact h4 d hd hat
  · intro x l hl
    refine (h7 x l hl).cons c ?_
    intro hat
    rcases heq ⟨hat.1, hat.2.1⟩ hat.2.2.2 with he | hs
    · have := h6 he
      unfold Row.findCell at hl
      rw [this] at hl
      cases hl
    · exact (h7 x l hl).notSent (hat.2.2.1 ▸ hs)
  · intro ho d hd hat hns
    rcases List.mem_cons.mp hd with rfl | hd
    · rcases heq ⟨hat.1, hat.2.1⟩ hat.2.2.2 with he | hs
      · omega
      · exact absurd hs hns
    · exact h8 ho d hd hat hns

theorem RowInv.cons_other {P : List Chg} {t p : String} {o : Option Row} (c : Chg)
    (hi : RowInv P t p o) (hc : ¬ c.atRow t p) : RowInv (c :: P) t p o := by
  cases o with
  | none =>
    intro d hd hat
    rcases List.mem_cons.mp hd with rfl | hd
    · exact absurd hat hc
    · exact hi d hd hat
  | some r => exact RowOK.cons c hi (fun h => absurd h hc) (fun h => absurd h hc)

/-! ### a new incarnation -/

/-- a cell kept from an older incarnation: provenance in `P`, column version 0 -/
structure Leftover (P : List Chg) (t p : String) (l : Cell) : Prop where
  notSent : l.cid ≠ sentinel
  prov : ∃ c ∈ P, c.atRow t p ∧ c.cid = l.cid ∧ c.val = l.val ∧ c.site = l.clk.site ∧
    c.dbv = l.clk.dbv ∧ c.seq = l.clk.seq
  zero : l.clk.colv = 0

theorem resurrect_findCell (o : Option Row) (c : Chg) (x : String) :
    (resurrect o c).findCell x = match o with
      | some r => if r.cl % 2 = 1 then (r.findCell x).map Cell.zero else none
      | none => none := by
  unfold Row.findCell
  rw [resurrect_cells]
  cases o with
  | none => rfl
  | some r =>
    simp only []
    split
    · exact find_map_zero r.cells x
    · rfl

theorem resurrect_leftover {P : List Chg} {t p : String} {o : Option Row} (c : Chg)
    (hi : RowInv P t p o) {x : String} {l : Cell} (hl : (resurrect o c).findCell x = some l) :
    Leftover P t p l := by
  rw [resurrect_findCell] at hl
  cases o with
  | none => cases hl
  | some r =>
    simp only [] at hl
    split at hl
    · cases h0 : r.findCell x with
      | none => rw [h0] at hl; cases hl
      | some l0 =>
        rw [h0] at hl
        simp only [Option.map_some, Option.some.injEq] at hl
        subst hl
        have := hi.cells x l0 h0
        exact ⟨this.notSent, this.prov, rfl⟩
    · cases hl

theorem lclOf_bound {P : List Chg} {t p : String} {o : Option Row} (hi : RowInv P t p o) :
    ∀ d ∈ P, d.atRow t p → d.cl ≤ lclOf o := by
  intro d hd hat
  cases o with
  | none => have := hi d hd hat; simp [lclOf, this]
  | some r => exact hi.ub d hd hat

/-- the row written by a delete or by a sentinel that starts a new incarnation -/
theorem RowOK.fresh {P : List Chg} {t p : String} {c : Chg} {r' : Row} (hrow : c.atRow t p)
    (hlt : ∀ d ∈ P, d.atRow t p → d.cl < c.cl) (htbl : r'.tbl = t) (hpk : r'.pk = p)
    (hcl : r'.cl = c.cl) (hpos : 1 ≤ c.cl) (heven : c.cl % 2 = 0 → r'.cells = [])
    (hleft : ∀ x l, r'.findCell x = some l → Leftover P t p l)
    (hsent : c.cl % 2 = 1 → c.cid = sentinel) : RowOK (c :: P) t p r' := by
  refine ⟨htbl, hpk, by omega, ?_, ⟨c, List.mem_cons_self, hrow, hcl.symm⟩, by rw [hcl]; exact heven,
    ?_, ?_⟩
  · intro d hd hat
    rcases List.mem_cons.mp hd with rfl | hd
    · omega
    · have := hlt d hd hat; omega
  · intro x l hl
    obtain ⟨h1, ⟨c0, hc0, h2⟩, h3⟩ := hleft x l hl
    refine ⟨h1, ⟨c0, List.mem_cons_of_mem _ hc0, h2⟩, ?_, Or.inr h3⟩
    intro d hd hat
    rcases List.mem_cons.mp hd with rfl | hd
    · exfalso
      by_cases he : d.cl % 2 = 0
      · have := heven he
        unfold Row.findCell at hl; rw [this] at hl; cases hl
      · exact h1 (hat.2.2.1 ▸ hsent (by omega))
    · have := hlt d hd ⟨hat.1, hat.2.1⟩
      have := hat.2.2.2
      omega
  · intro ho d hd hat hns
    rcases List.mem_cons.mp hd with rfl | hd
    · exact absurd (hsent (by omega)) hns
    · have := hlt d hd ⟨hat.1, hat.2.1⟩
      have := hat.2.2.2
      omega

theorem Chg.cell_key (c : Chg) : c.cell.key = c.key := rfl

/-- the cell written by `c` when `c` is the only change of its cell and incarnation so far -/
theorem CellInv.single {P : List Chg} {t p : String} {c : Chg} (hrow : c.atRow t p)
    (hns : c.cid ≠ sentinel) (honly : ∀ d ∈ P, ¬ d.atCell t p c.cid c.cl) :
    CellInv (c :: P) t p c.cl c.cell := by
  refine ⟨hns, ⟨c, List.mem_cons_self, hrow, rfl, rfl, rfl, rfl, rfl⟩, ?_,
    Or.inl ⟨c, List.mem_cons_self, ⟨hrow.1, hrow.2, rfl, rfl⟩, rfl⟩⟩
  intro d hd hat
  rcases List.mem_cons.mp hd with rfl | hd
  · exact keyLt_irrefl _
  · exact absurd hat (honly d hd)

/-- the row written by a column change that starts a new incarnation -/
theorem RowOK.freshCol {P : List Chg} {t p : String} {c : Chg} {base : Row} (hrow : c.atRow t p)
    (hlt : ∀ d ∈ P, d.atRow t p → d.cl < c.cl) (htbl : base.tbl = t) (hpk : base.pk = p)
    (hcl : base.cl = c.cl) (hodd : c.cl % 2 = 1) (hns : c.cid ≠ sentinel)
    (hleft : ∀ x l, base.findCell x = some l → Leftover P t p l) :
    RowOK (c :: P) t p (base.setCell c.cell) := by
  have honly : ∀ d ∈ P, ∀ x, ¬ d.atCell t p x c.cl := by
    intro d hd x hat
    have := hlt d hd ⟨hat.1, hat.2.1⟩
    have := hat.2.2.2
    omega
  refine ⟨by simpa using htbl, by simpa using hpk, by simp; omega, ?_,
    ⟨c, List.mem_cons_self, hrow, by simp [hcl]⟩, by simp; omega, ?_, ?_⟩
  · intro d hd hat
    simp only [setCell_cl, hcl]
    rcases List.mem_cons.mp hd with rfl | hd
    · omega
    · have := hlt d hd hat; omega
  · intro x l hl
    simp only [setCell_cl, hcl]
    by_cases hx : c.cid = x
    · subst hx
      have : (base.setCell c.cell).findCell c.cell.cid = some c.cell := findCell_setCell_same base c.cell
      rw [show c.cell.cid = c.cid from rfl] at this
      rw [this] at hl
      cases hl
      exact CellInv.single hrow hns (fun d hd => honly d hd c.cid)
    · rw [findCell_setCell_other base c.cell x hx] at hl
      obtain ⟨h1, ⟨c0, hc0, h2⟩, h3⟩ := hleft x l hl
      refine ⟨h1, ⟨c0, List.mem_cons_of_mem _ hc0, h2⟩, ?_, Or.inr h3⟩
      intro d hd hat
      rcases List.mem_cons.mp hd with rfl | hd
      · exact absurd (hat.2.2.1.trans (findCell_some hl).1) hx
      · exact absurd hat (honly d hd _)
  · intro _ d hd hat hns'
    simp only [setCell_cl, hcl] at hat
    rcases List.mem_cons.mp hd with rfl | hd
    · exact ⟨d.cell, findCell_setCell_same base d.cell⟩
    · exact absurd hat (honly d hd _)

/-! ### a column change in the current incarnation -/

/-- writing the cell of `c` into the stored row, given what is known about the new cell -/
theorem RowOK.setCell {P : List Chg} {t p : String} {c : Chg} {r : Row} (hi : RowOK P t p r)
    (hrow : c.atRow t p) (hcl : r.cl = c.cl) (hodd : c.cl % 2 = 1)
    (hnew : CellInv (c :: P) t p r.cl c.cell) : RowOK (c :: P) t p (r.setCell c.cell) := by
  obtain ⟨h1, h2, h3, h4, ⟨c0, hc0, h5⟩, h6, h7, h8⟩ := hi
  refine ⟨by simpa using h1, by simpa using h2, by simpa using h3, ?_,
    ⟨c0, List.mem_cons_of_mem _ hc0, by simpa using h5⟩, by simp; omega, ?_, ?_⟩
  · intro d hd hat
    simp only [setCell_cl]
    rcases List.mem_cons.mp hd with rfl | hd
    · omega
    · exact h4 d hd hat
  · intro x l hl
    simp only [setCell_cl]
    by_cases hx : c.cid = x
    · subst hx
      have : (r.setCell c.cell).findCell c.cell.cid = some c.cell := findCell_setCell_same r c.cell
      rw [show c.cell.cid = c.cid from rfl] at this
      rw [this] at hl
      cases hl
      exact hnew
    · rw [findCell_setCell_other r c.cell x hx] at hl
      refine (h7 x l hl).cons c ?_
      intro hat
      exact hx (hat.2.2.1.trans (findCell_some hl).1)
  · intro ho d hd hat hns
    simp only [setCell_cl] at hat ho
    by_cases hx : c.cid = d.cid
    · rw [← hx]; exact ⟨c.cell, findCell_setCell_same r c.cell⟩
    · rw [findCell_setCell_other r c.cell d.cid hx]
      rcases List.mem_cons.mp hd with rfl | hd
      · exact absurd rfl hx
      · exact h8 ho d hd hat hns

/-- the column had no cell yet -/
theorem RowOK.colNew {P : List Chg} {t p : String} {c : Chg} {r : Row} (hi : RowOK P t p r)
    (hrow : c.atRow t p) (hcl : r.cl = c.cl) (hodd : c.cl % 2 = 1) (hns : c.cid ≠ sentinel)
    (hf : r.findCell c.cid = none) : RowOK (c :: P) t p (r.setCell c.cell) := by
  refine hi.setCell hrow hcl hodd ?_
  rw [hcl]
  refine CellInv.single hrow hns ?_
  intro d hd hat
  obtain ⟨l, hl⟩ := hi.has (by omega) d hd (by rw [hat.2.2.1, hcl]; exact hat) (by rw [hat.2.2.1]; exact hns)
  rw [hat.2.2.1, hf] at hl
  cases hl

/-- the incoming change beats the stored cell -/
theorem RowOK.colWin {P : List Chg} {t p : String} {c : Chg} {r : Row} {l : Cell}
    (hi : RowOK P t p r) (hrow : c.atRow t p) (hcl : r.cl = c.cl) (hodd : c.cl % 2 = 1)
    (hns : c.cid ≠ sentinel) (hf : r.findCell c.cid = some l) (hw : wins c l = true) :
    RowOK (c :: P) t p (r.setCell c.cell) := by
  refine hi.setCell hrow hcl hodd ?_
  rw [wins_eq_keyLt] at hw
  have hlc : l.cid = c.cid := (findCell_some hf).1
  have hprov : ∃ d ∈ c :: P, d.atRow t p ∧ d.cid = c.cell.cid ∧ d.val = c.cell.val ∧
      d.site = c.cell.clk.site ∧ d.dbv = c.cell.clk.dbv ∧ d.seq = c.cell.clk.seq :=
    ⟨c, List.mem_cons_self, hrow, rfl, rfl, rfl, rfl, rfl⟩
  have hself : c.atCell t p c.cell.cid r.cl := ⟨hrow.1, hrow.2, rfl, hcl.symm⟩
  refine ⟨hns, hprov, ?_, Or.inl ⟨c, List.mem_cons_self, hself, rfl⟩⟩
  intro d hd hat
  rcases List.mem_cons.mp hd with rfl | hd
  · exact keyLt_irrefl _
  · have h7 := (hi.cells c.cid l hf).ub d hd (by rw [hlc]; exact hat)
    cases h8 : keyLt c.cell.key d.key with
    | false => rfl
    | true => rw [keyLt_trans hw h8] at h7; cases h7

/-- the incoming change does not beat the stored cell: nothing changes -/
theorem RowOK.colLose {P : List Chg} {t p : String} {c : Chg} {r : Row} {l : Cell}
    (hi : RowOK P t p r) (hrow : c.atRow t p) (hcl : r.cl = c.cl)
    (hf : r.findCell c.cid = some l) (hw : wins c l = false) : RowOK (c :: P) t p r := by
  rw [wins_eq_keyLt] at hw
  obtain ⟨h1, h2, h3, h4, ⟨c0, hc0, h5⟩, h6, h7, h8⟩ := hi
  refine ⟨h1, h2, h3, ?_, ⟨c0, List.mem_cons_of_mem _ hc0, h5⟩, h6, ?_, ?_⟩
  · intro d hd hat
    rcases List.mem_cons.mp hd with rfl | hd
    · omega
    · exact h4 d hd hat
  · intro x l' hl'
    by_cases hx : c.cid = x
    · subst hx
      rw [hf] at hl'; cases hl'
      obtain ⟨g1, ⟨c1, hc1, g2⟩, g3, g4⟩ := h7 c.cid l hf
      refine ⟨g1, ⟨c1, List.mem_cons_of_mem _ hc1, g2⟩, ?_, ?_⟩
      · intro d hd hat
        rcases List.mem_cons.mp hd with rfl | hd
        · exact hw
        · exact g3 d hd hat
      · rcases g4 with ⟨c2, hc2, g5⟩ | g5
        · exact Or.inl ⟨c2, List.mem_cons_of_mem _ hc2, g5⟩
        · exact Or.inr g5
    · refine (h7 x l' hl').cons c ?_
      intro hat
      exact hx (hat.2.2.1.trans (findCell_some hl').1)
  · intro ho d hd hat hns
    rcases List.mem_cons.mp hd with rfl | hd
    · exact ⟨l, hf⟩
    · exact h8 ho d hd hat hns

/-! ### one merge step -/

theorem lclOf_pos_some {o : Option Row} {n : Nat} (h : n < lclOf o) : ∃ r, o = some r := by
  cases o with
  | none => simp [lclOf] at h
  | some r => exact ⟨r, rfl⟩

/-- the invariant of the touched row is preserved by one `merge` -/
theorem rowStep_inv {P : List Chg} {c : Chg} {o : Option Row} (hi : RowInv P c.tbl c.pk o) :
    RowInv (c :: P) c.tbl c.pk (rowStep o c) := by
  have hrow : c.atRow c.tbl c.pk := ⟨rfl, rfl⟩
  have hbound := lclOf_bound hi
  unfold rowStep
  refine mergeRow_elim (Q := fun x => RowInv (c :: P) c.tbl c.pk
      (match x with | some r => some r | none => o)) o c ?_ ?_ ?_ ?_ ?_ ?_ ?_ ?_ ?_
  · -- below the row's causal length
    intro hlow
    obtain ⟨r, rfl⟩ := lclOf_pos_some hlow
    exact RowOK.cons c hi (fun _ => Nat.le_of_lt hlow) (fun _ h => by simp [lclOf] at hlow; omega)
  · -- repeated delete
    intro he heq
    cases o with
    | none =>
      intro d hd hat
      rcases List.mem_cons.mp hd with rfl | hd
      · simpa [lclOf] using heq
      · exact hi d hd hat
    | some r =>
      simp only [lclOf] at heq
      exact RowOK.cons c hi (fun _ => by omega) (fun _ _ => Or.inl (by omega))
  · -- delete
    intro he hgt
    exact RowOK.fresh hrow (fun d hd hat => by have := hbound d hd hat; omega) rfl rfl rfl
      (by omega) (fun _ => rfl) (fun x l hl => by cases hl) (fun ho => by omega)
  · -- sentinel of the current incarnation
    intro ho hs heq
    cases o with
    | none => simp [lclOf] at heq; omega
    | some r =>
      simp only [lclOf] at heq
      exact RowOK.cons c hi (fun _ => by omega) (fun _ _ => Or.inr hs)
  · -- sentinel of a new incarnation
    intro ho hs hgt
    refine RowOK.fresh hrow (fun d hd hat => by have := hbound d hd hat; omega) rfl rfl rfl
      (by omega) (fun he => by omega) (fun x l hl => resurrect_leftover c hi hl) (fun _ => hs)
  · -- column change of a new incarnation
    intro ho hns hgt base h1 h2 h3 h4
    refine RowOK.freshCol hrow (fun d hd hat => by have := hbound d hd hat; omega) h1 h2 h3 ho hns ?_
    intro x l hl
    have : base.findCell x = (resurrect o c).findCell x := by
      unfold Row.findCell; rw [h4]
    rw [this] at hl
    exact resurrect_leftover c hi hl
  · intro ho hns r hr hcl hf
    subst hr
    exact RowOK.colNew hi hrow hcl ho hns hf
  · intro ho hns r l hr hcl hf hw
    subst hr
    exact RowOK.colWin hi hrow hcl ho hns hf hw
  · intro ho hns r l hr hcl hf hw
    subst hr
    exact RowOK.colLose hi hrow hcl hf hw

theorem inv_empty (s : Nat) : Inv (Db.empty s) [] := by
  intro t p
  show RowInv [] t p none
  intro c hc; cases hc

/-- **One step of the work-horse.**  Merging `c` into a database that is a merge of the set `P`
gives a merge of the set `P ∪ {c}`.  No side condition on `c`. -/
theorem merge_inv {db : Db} {P : List Chg} (hi : Inv db P) (c : Chg) : Inv (merge db c) (c :: P) := by
  intro t p
  by_cases h : c.tbl = t ∧ c.pk = p
  · obtain ⟨rfl, rfl⟩ := h
    rw [findRow_merge_same]
    exact rowStep_inv (hi c.tbl c.pk)
  · rw [findRow_merge_other db c t p h]
    exact (hi t p).cons_other c h

/-- **`merge_fold_inv`.**  Folding any list `cs` of changes into a database that is a merge of the
set `P` gives a merge of the set `P ∪ cs`; in particular (`inv_mergeAll_empty`) folding from the
empty database gives a merge of exactly the set of folded changes. -/
theorem merge_fold_inv {db : Db} {P : List Chg} (hi : Inv db P) (cs : List Chg) :
    Inv (mergeAll db cs) (cs.reverse ++ P) := by
  induction cs generalizing db P with
  | nil => exact hi
  | cons c cs ih =>
    have := ih (merge_inv hi c)
    simp only [List.reverse_cons, List.append_assoc, List.singleton_append]
    exact this

theorem inv_mergeAll {db : Db} {P : List Chg} (hi : Inv db P) (cs Q : List Chg)
    (hQ : ∀ c, c ∈ Q ↔ c ∈ P ∨ c ∈ cs) : Inv (mergeAll db cs) Q :=
  (merge_fold_inv hi cs).congr (by intro c; rw [hQ]; simp [or_comm])

theorem inv_mergeAll_empty (s : Nat) (cs : List Chg) : Inv (mergeAll (Db.empty s) cs) cs :=
  inv_mergeAll (inv_empty s) cs cs (by simp)

end Corro.Crdt
