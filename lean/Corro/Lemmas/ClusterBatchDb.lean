/-
C01, protocol level, BATCHES — what `Node.deliver batch` merges into the store (`mergedByBatch`, the
ghost list of the batched cluster model) is exact, for ANY node state and ANY batch, and consists of
changes that were buffered before or came with the batch; so do the buffered rows afterwards.
Hence the store-level invariant `NInv` is preserved by a batch (`ninv_deliverB`).
-/
import Corro.Lemmas.ClusterStep
import Corro.Model.ClusterSysBatch

namespace Corro.ClusterSys
open Corro.Crdt Corro.Node

/-- `e` came with one of the changesets `items` -/
def FromItems (items : List Item) (e : Chg) : Prop := ∃ it ∈ items, e ∈ itemChanges it

theorem FromItems.mono {items items' : List Item} {e : Chg} (h : FromItems items e)
    (hs : ∀ it ∈ items, it ∈ items') : FromItems items' e := by
  obtain ⟨it, h1, h2⟩ := h
  exact ⟨it, hs it h1, h2⟩

/-! ### one changeset inside the transaction -/

theorem stepMerged_full' (b0 : Booked) (st : TxSt) (s v lo hi last : Nat) (cs : List Chg) :
    stepMerged b0 st (.full s v lo hi last cs) =
      if b0.containsAll v v (some (lo, hi)) then []
      else if alreadySeen st.seen (.full s v lo hi last cs) then []
      else if lo == 0 && hi == last then cs else [] := rfl

theorem stepMerged_sub (b0 : Booked) (st : TxSt) (it : Item) : ∀ e ∈ stepMerged b0 st it, e ∈ itemChanges it := by
  intro e he
  cases it with
  | empty s vlo vhi =>
    unfold stepMerged at he
    split at he
    · cases he
    · split at he <;> cases he
  | full s v lo hi last cs =>
    rw [stepMerged_full'] at he
    split at he
    · cases he
    · split at he
      · cases he
      · split at he
        · exact he
        · cases he

theorem processOne_db (b0 : Booked) (st : TxSt) (it : Item) :
    (processOne b0 st it).node.db = mergeAll st.node.db (stepMerged b0 st it) := by
  cases it with
  | empty s vlo vhi =>
    have hm : stepMerged b0 st (.empty s vlo vhi) = [] := by
      unfold stepMerged
      split
      · rfl
      · split <;> rfl
    rw [hm, processOne_empty]
    split
    · rfl
    · split
      · rfl
      · unfold stCleared
        simp only
        split <;> simp [mergeAll]
  | full s v lo hi last cs =>
    rw [stepMerged_full', processOne_full]
    split
    · rfl
    · split
      · rfl
      · cases hcomp : (lo == 0 && hi == last) with
        | true =>
          simp only [Bool.and_eq_true, beq_iff_eq] at hcomp
          obtain ⟨rfl, rfl⟩ := hcomp
          simp only [Bool.true_and, if_true, Nat.not_lt_zero, if_false]
          cases hem : cs.isEmpty with
          | true =>
            have hnil : cs = [] := List.isEmpty_iff.mp hem
            subst hnil
            simp only [if_true]
            unfold stCleared
            simp only
            split <;> simp [mergeAll]
          | false =>
            simp only [Bool.false_eq_true, if_false]
            unfold stComplete
            simp only
            exact mergeChanges_db _ _
        | false =>
          simp only [Bool.false_and, Bool.false_eq_true, if_false]
          split
          · rfl
          · unfold stBuffer
            simp only
            rw [bufferChunk_db]
            rfl

theorem processOne_buf (b0 : Booked) (st : TxSt) (it : Item) :
    ∀ c ∈ (processOne b0 st it).node.buf, c ∈ st.node.buf ∨ c ∈ itemChanges it := by
  intro c hc
  cases it with
  | empty s vlo vhi =>
    left
    rw [processOne_empty] at hc
    split at hc
    · exact hc
    · split at hc
      · exact hc
      · unfold stCleared at hc
        simp only at hc
        split at hc <;> simpa using hc
  | full s v lo hi last cs =>
    rw [processOne_full] at hc
    split at hc
    · exact Or.inl hc
    · split at hc
      · exact Or.inl hc
      · split at hc
        · left
          unfold stCleared at hc
          simp only at hc
          split at hc <;> simpa using hc
        · split at hc
          · exact Or.inl hc
          · split at hc
            · left
              unfold stComplete at hc
              simpa using hc
            · unfold stBuffer at hc
              simp only at hc
              exact mem_bufferChunk_buf hc

/-! ### one actor's transaction -/

/-- store, ghost list and buffered rows relative to the start node `n` and the changesets `items` -/
structure DbInv (n : Node) (items : List Item) (N : Node) (M : List Chg) : Prop where
  db : N.db = mergeAll n.db M
  sub : ∀ e ∈ M, e ∈ n.buf ∨ FromItems items e
  buf : ∀ c ∈ N.buf, c ∈ n.buf ∨ FromItems items c

theorem DbInv.refl (n : Node) (items : List Item) : DbInv n items n [] :=
  ⟨rfl, (fun e he => by cases he), fun c hc => Or.inl hc⟩

theorem DbInv.mono {n : Node} {items items' : List Item} {N : Node} {M : List Chg} (h : DbInv n items N M)
    (hs : ∀ it ∈ items, it ∈ items') : DbInv n items' N M := by
  refine ⟨h.db, ?_, ?_⟩
  · intro e he
    rcases h.sub e he with h1 | h1
    · exact Or.inl h1
    · exact Or.inr (h1.mono hs)
  · intro c hc
    rcases h.buf c hc with h1 | h1
    · exact Or.inl h1
    · exact Or.inr (h1.mono hs)

/-- two stretches of the batch, one after the other -/
theorem DbInv.trans {n : Node} {items : List Item} {N N' : Node} {M M' : List Chg} (h : DbInv n items N M)
    (h' : DbInv N items N' M') : DbInv n items N' (M ++ M') := by
  refine ⟨?_, ?_, ?_⟩
  · rw [h'.db, h.db, mergeAll_append]
  · intro e he
    rcases List.mem_append.mp he with he | he
    · exact h.sub e he
    · rcases h'.sub e he with h1 | h1
      · exact h.buf e h1
      · exact Or.inr h1
  · intro c hc
    rcases h'.buf c hc with h1 | h1
    · exact h.buf c h1
    · exact Or.inr h1

theorem txFoldG_dbInv (n : Node) (site : Nat) (items : List Item) :
    DbInv n items (txFoldG n site items).1.node (txFoldG n site items).2 := by
  unfold txFoldG
  apply foldl_inv (fun (s : TxSt × List Chg) => DbInv n items s.1.node s.2)
  · exact DbInv.refl n items
  · intro s it hit hs
    unfold txStepG
    simp only
    apply hs.trans
    refine ⟨processOne_db _ _ _, ?_, ?_⟩
    · intro e he
      exact Or.inr ⟨it, hit, stepMerged_sub _ _ _ e he⟩
    · intro c hc
      rcases processOne_buf _ _ _ c hc with h | h
      · exact Or.inl h
      · exact Or.inr ⟨it, hit, h⟩

theorem txFoldG_fst' (n : Node) (site : Nat) (items : List Item) :
    (txFoldG n site items).1 = txFold n site items := by
  unfold txFoldG txFold
  suffices hs : ∀ (acc : TxSt × List Chg),
      (items.foldl (txStepG (n.booked site)) acc).1 = items.foldl (processOne (n.booked site)) acc.1 from hs _
  induction items with
  | nil => intro acc; rfl
  | cons it items ih => intro acc; simp only [List.foldl_cons]; rw [ih]; rfl

theorem processActor_dbInv (n : Node) (site : Nat) (items : List Item) :
    DbInv n items (processActor n site items).1 (txMerged n site items) := by
  have h := txFoldG_dbInv n site items
  rw [txFoldG_fst'] at h
  unfold txMerged
  rw [processActor_node]
  split
  · exact h
  · exact ⟨by simpa using h.db, h.sub, by simpa using h.buf⟩

/-! ### the fold over the actors -/

/-- the fold of `processActor` over the actors of the batch, with the ghost list -/
def deliverFoldG (n : Node) (batch : List Item) :
    (Node × List (Nat × Nat) × List (Nat × Nat × Nat)) × List Chg :=
  (sitesOf (unknownB n batch)).foldl (actorStepG (unknownB n batch)) ((n, [], []), [])

theorem deliverFoldG_fst (n : Node) (batch : List Item) : (deliverFoldG n batch).1 = deliverFold n batch := by
  unfold deliverFoldG deliverFold
  show ((sitesOf (unknownOf n batch)).foldl (actorStepG (unknownOf n batch)) ((n, [], []), [])).1 = _
  suffices hs : ∀ (l : List Nat) (acc : (Node × List (Nat × Nat) × List (Nat × Nat × Nat)) × List Chg),
      (l.foldl (actorStepG (unknownOf n batch)) acc).1 = l.foldl (actorStep (unknownOf n batch)) acc.1 from hs _ _
  intro l
  induction l with
  | nil => intro acc; rfl
  | cons s l ih => intro acc; simp only [List.foldl_cons]; rw [ih]; rfl

theorem deliverFoldG_dbInv (n : Node) (batch : List Item) :
    DbInv n batch (deliverFoldG n batch).1.1 (deliverFoldG n batch).2 := by
  unfold deliverFoldG
  apply foldl_inv (fun (acc : (Node × List (Nat × Nat) × List (Nat × Nat × Nat)) × List Chg) =>
    DbInv n batch acc.1.1 acc.2)
  · exact DbInv.refl n batch
  · intro acc s _ hacc
    unfold actorStepG
    simp only
    apply hacc.trans
    apply (processActor_dbInv acc.1.1 s _).mono
    intro it hit
    exact mem_unknownOf (n := n) (List.mem_filter.mp hit).1

/-! ### clear jobs and applies -/

theorem clearAll_dbInv (N : Node) (items : List Item) (cl : List (Nat × Nat × Nat)) :
    DbInv N items (clearAll N cl) [] :=
  ⟨clearAll_db N cl, (fun e he => by cases he), fun c hc => Or.inl (mem_clearAll_buf.mp hc).1⟩

theorem applyBuffered_db (N : Node) (a v : Nat) : (N.applyBuffered a v).db = mergeAll N.db (appliedBy N a v) := by
  by_cases hskip : ∀ p, (N.booked a).partial? v = some p → p.complete = false
  · rw [applyBuffered_skip N a v hskip]
    have : appliedBy N a v = [] := by
      unfold appliedBy
      cases hp : (N.booked a).partial? v with
      | none => rfl
      | some p => simp [hskip p hp]
    rw [this]; rfl
  · have hex : ∃ p, (N.booked a).partial? v = some p ∧ p.complete = true := by
      apply Classical.byContradiction
      intro hne
      apply hskip
      intro p hp
      cases hc : p.complete with
      | false => rfl
      | true => exact absurd ⟨p, hp, hc⟩ hne
    obtain ⟨p, hp, hpc⟩ := hex
    rw [applyBuffered_complete N a v p hp hpc, clearMeta_db, applyCore_db]
    unfold appliedBy
    rw [hp]
    simp only [hpc, if_true]
    rfl

theorem mem_appliedBy {N : Node} {a v : Nat} {e : Chg} (h : e ∈ appliedBy N a v) : e ∈ N.buf := by
  unfold appliedBy at h
  split at h
  · cases h
  · split at h
    · rw [mem_sortBySeq] at h
      exact (List.mem_filter.mp h).1
    · cases h

/-- what a list of applies merges -/
def applyMerged (N : Node) (ap : List (Nat × Nat)) : List Chg := (ap.foldl applyStepG (N, [])).2

theorem applyFoldG_eq (ap : List (Nat × Nat)) (N : Node) (M : List Chg) :
    ap.foldl applyStepG (N, M) = (applyAll N ap, M ++ applyMerged N ap) := by
  induction ap generalizing N M with
  | nil => simp [applyMerged]
  | cons t ap ih =>
    have hstep : ∀ M', applyStepG (N, M') t = (N.applyBuffered t.1 t.2, M' ++ appliedBy N t.1 t.2) := fun _ => rfl
    unfold applyMerged
    simp only [List.foldl_cons]
    rw [hstep, hstep, ih, ih]
    simp only [List.nil_append, List.append_assoc]
    rfl

theorem applyMerged_cons (N : Node) (t : Nat × Nat) (ap : List (Nat × Nat)) :
    applyMerged N (t :: ap) = appliedBy N t.1 t.2 ++ applyMerged (N.applyBuffered t.1 t.2) ap := by
  have hstep : applyStepG (N, []) t = (N.applyBuffered t.1 t.2, [] ++ appliedBy N t.1 t.2) := rfl
  unfold applyMerged
  simp only [List.foldl_cons]
  rw [hstep, applyFoldG_eq]
  simp only [List.nil_append]
  rfl

theorem applyAll_dbInv (items : List Item) (ap : List (Nat × Nat)) (N : Node) :
    DbInv N items (applyAll N ap) (applyMerged N ap) := by
  induction ap generalizing N with
  | nil => exact DbInv.refl N items
  | cons t ap ih =>
    rw [applyMerged_cons]
    have hone : DbInv N items (N.applyBuffered t.1 t.2) (appliedBy N t.1 t.2) :=
      ⟨applyBuffered_db N t.1 t.2, fun e he => Or.inl (mem_appliedBy he),
        fun c hc => Or.inl (mem_applyBuffered_buf hc)⟩
    exact hone.trans (ih (N.applyBuffered t.1 t.2))

/-! ### the whole batch -/

theorem mergedByBatch_eq (n : Node) (batch : List Item) :
    mergedByBatch n batch =
      if (clearAll (deliverFold n batch).1 (deliverFold n batch).2.2).alive then
        (deliverFoldG n batch).2 ++
          applyMerged (clearAll (deliverFold n batch).1 (deliverFold n batch).2.2) (deliverFold n batch).2.1
      else (deliverFoldG n batch).2 := by
  rw [← deliverFoldG_fst]
  show (if (clearAll (deliverFoldG n batch).1.1 (deliverFoldG n batch).1.2.2).alive then
      ((deliverFoldG n batch).1.2.1.foldl applyStepG
        (clearAll (deliverFoldG n batch).1.1 (deliverFoldG n batch).1.2.2, (deliverFoldG n batch).2)).2
      else (deliverFoldG n batch).2) = _
  split
  · rw [applyFoldG_eq]
  · rfl

/-- store, ghost list and buffered rows of a whole batch -/
theorem deliver_dbInv (n : Node) (batch : List Item) :
    DbInv n batch (n.deliver batch) (mergedByBatch n batch) := by
  have h1 := deliverFoldG_dbInv n batch
  rw [deliverFoldG_fst] at h1
  have h2 := h1.trans (clearAll_dbInv (deliverFold n batch).1 batch (deliverFold n batch).2.2)
  rw [List.append_nil] at h2
  rw [deliver_eq', mergedByBatch_eq]
  unfold finish
  split
  · exact h2.trans (applyAll_dbInv batch _ _)
  · exact h2

/-- **the ghost list of a batch is exact**: `n.deliver batch` merges exactly `mergedByBatch n batch`,
in that order, into the store -/
theorem mergedByBatch_spec (n : Node) (batch : List Item) :
    (n.deliver batch).db = mergeAll n.db (mergedByBatch n batch) := (deliver_dbInv n batch).db

/-- **`received_set`, one batch**: the store stays a merge of exactly the ghost list, which stays
inside the log, as do the buffered rows — any node state, any batch of changesets made of log
changes -/
theorem ninv_deliverB {L : Log} {n : Node} {R : List Chg} {batch : List Item} (hN : NInv L n R)
    (hL : LogOK L) (hit : ∀ it ∈ batch, ∀ e ∈ itemChanges it, e ∈ L.all) :
    NInv L (n.deliver batch) (mergedByBatch n batch ++ R) := by
  have h := deliver_dbInv n batch
  have hsrc : ∀ e, e ∈ n.buf ∨ FromItems batch e → e ∈ L.all := by
    rintro e (he | ⟨it, h1, h2⟩)
    · exact hN.bufsub e he
    · exact hit it h1 e h2
  have hm : ∀ e ∈ mergedByBatch n batch, e ∈ L.all := fun e he => hsrc e (h.sub e he)
  refine ⟨?_, ?_, ?_⟩
  · rw [h.db]
    exact hN.store.mergeAll (fun c hc => hL.chgOK (hm c hc))
  · intro e he
    rcases List.mem_append.mp he with h1 | h1
    · exact hm e h1
    · exact hN.rsub e h1
  · intro e he
    exact hsrc e (h.buf e he)

end Corro.ClusterSys
