/-
C01 with crashes — the cluster invariant `NInv ∧ KInv` of every node is preserved by EVERY step of
`ClusterSys.step`, `kill` and `restart` included (`reachC_inv`).  `ReachC` = all runs whose write
steps satisfy `OpOK` and in whose sync steps the server is clean.
-/
import Corro.Lemmas.ClusterCrashRestart

namespace Corro.ClusterSys.Crash
open Corro.Crdt Corro.Node Corro.ClusterSys

/-! ### fresh nodes, a growing log, local writes -/

theorem cinv_fresh (P : Nat → Nat → Prop) (i : Nat) : CInv P [] (Node.fresh i) [] := by
  refine ⟨List.Pairwise.nil, ?_, ?_, ?_, ?_, ?_, ?_, ?_, ?_, ?_, ?_, ?_, ?_, ?_, ?_, ?_, ?_⟩
  · intro a; rw [fresh_booked]; simp [RSet.WF, RSet.WFfrom]
  · intro a e he; rw [fresh_booked] at he; cases he
  · intro a; rw [fresh_booked]; exact List.Pairwise.nil
  · intro r hr; cases hr
  · intro r hr; cases hr
  · intro a; rw [fresh_booked]; exact Nat.zero_le _
  · intro a v p hp; rw [fresh_booked] at hp; cases hp
  · intro a v p hp; rw [fresh_booked] at hp; cases hp
  · intro a v x ⟨r, hr, _⟩; cases hr
  · intro r hr; cases hr
  · intro a v p hp; rw [fresh_booked] at hp; cases hp
  · intro a v _ c hc; cases hc
  · intro e he; cases he
  · intro r hr; cases hr
  · intro c hc; cases hc
  · intro a; exact Nat.zero_le _

/-- the invariant survives a new acknowledged transaction (of any site) -/
theorem CInv.cons_log {P : Nat → Nat → Prop} {L : Log} {n : Node} {R : List Chg} (h : CInv P L n R)
    (hsub : ∀ e ∈ R, e ∈ L.all) {e : (Nat × Nat) × List Chg} (hL : LogOK (e :: L)) : CInv P (e :: L) n R := by
  have hget : ∀ a v, v ≤ (n.booked a).max → Log.get (e :: L) a v = Log.get L a v := by
    intro a v hv
    exact hL.get_cons_old (by have := h.head_le a; omega)
  have hor : ∀ {c : Chg} {Q : Prop}, Q ∨ Dom L.all c → Q ∨ Dom (Log.all (e :: L)) c := by
    intro c Q hp
    rcases hp with hp | hp
    · exact Or.inl hp
    · exact Or.inr (dom_cons hp)
  refine ⟨h.sorted, h.needed_wf, h.pwf, h.keys, h.rows_fwd, h.rows_le, ?_, h.part_known, h.part_state,
    ?_, ?_, ?_, ?_, ?_, h.rows_part, h.buf_rows, h.dbv_le⟩
  · intro a
    have := h.head_le a
    have := head_le_cons e L a
    omega
  · intro a v x hx c hc hcx
    obtain ⟨r, hr, h1, h2, _⟩ := hx
    have hv : v ≤ (n.booked a).max := by
      have := h.rows_le r hr
      rw [h1, h2] at this; exact this
    rw [hget a v hv] at hc
    exact hor (h.cover a v x ⟨r, hr, h1, h2, by assumption⟩ c hc hcx)
  · intro r hr c hc hlt
    rw [hget _ _ (h.rows_le r hr)] at hc
    exact dom_cons (h.last_rows r hr c hc hlt)
  · intro a v p hp hpc c hc hlt
    have hv := ((containsVersion_iff _ _).mp (h.part_known a v p hp)).2
    rw [hget a v hv] at hc
    exact dom_cons (h.last_part a v p hp hpc c hc hlt)
  · intro a v hh c hc
    have hv := ((containsVersion_iff _ _).mp hh.1).2
    rw [hget a v hv] at hc
    exact hor (h.held a v hh c hc)
  · intro x hx c hc
    obtain ⟨f, hf, h1, h2⟩ := hL.tail.entry_of_mem_all (hsub x hx)
    have := (hL.tail.ver_le f hf).2
    rw [h1, h2] at this
    rw [hL.get_cons_old this] at hc
    exact hor (h.rgot x hx c hc)

theorem cinv_write {P : Nat → Nat → Prop} {L : Log} {n n' : Node} {R : List Chg} {stmts : List Stmt}
    {ver : Nat} {chs : List Chg} (hN : NInv L n R) (hI : CInv P L n R)
    (hw : n.localWrite stmts = .ok (n', some (ver, chs)))
    (hL : LogOK (((n.id, ver), chs) :: L)) :
    CInv P (((n.id, ver), chs) :: L) n' (chs ++ R) ∧
    (∀ a' w, Held n' a' w ↔ (a' = n.id ∧ ver ≤ w ∧ w ≤ ver) ∨ Held n a' w) ∧
    (∀ a' w, (n'.booked a').partial? w = (n.booked a').partial? w) ∧
    n'.id = n.id ∧ n'.alive = n.alive ∧ (∀ a', dbvOf n a' ≤ dbvOf n' a') ∧ ver ≤ dbvOf n' n.id := by
  obtain ⟨db', _, rfl⟩ := localWrite_ok hw
  have hI' := hI.cons_log hN.rsub hL
  have hver : ver = L.head n.id + 1 := hL.2.1
  have hmaxle := hI.head_le n.id
  have hbk : ∀ a, ({ n with db := db' } : Node).booked a = n.booked a := fun a => rfl
  have hmax : ((n.booked n.id).insertDb [(ver, ver)]).max = max (n.booked n.id).max ver := by
    rw [insertDb_max _ _ (by simp), sup_singleton]
  have hnorow : ∀ r ∈ n.seqRows, ¬ (r.site = n.id ∧ ver ≤ r.ver ∧ r.ver ≤ ver) := by
    rintro r hr ⟨h1, h2, _⟩
    have := hI.rows_le r hr
    rw [h1] at this
    omega
  have hnobuf : ∀ c ∈ n.buf, ¬ (c.site = n.id ∧ ver ≤ c.dbv ∧ c.dbv ≤ ver) := by
    rintro c hc ⟨h1, h2, _⟩
    have hLt := hL.tail
    have hg := hLt.get_of_mem_all (hN.bufsub c hc)
    rw [hLt.get_beyond (by rw [h1]; omega)] at hg
    cases hg
  have hmx : ∀ x y : Nat, Nat.max x y = max x y := fun _ _ => rfl
  have hdbv : ∀ a', dbvOf ((({ n with db := db' } : Node).bumpDbv n.id ver).setBooked n.id
        ((({ n with db := db' } : Node).booked n.id).insertDb [(ver, ver)])) a' =
      if a' = n.id then max (dbvOf n n.id) ver else dbvOf n a' := by
    intro a'
    rw [dbvOf_congr (setBooked_dbv _ _ _), dbvOf_bumpDbv]
    rfl
  suffices hmain : CInv P (((n.id, ver), chs) :: L)
      ((({ n with db := db' } : Node).bumpDbv n.id ver).setBooked n.id
        ((({ n with db := db' } : Node).booked n.id).insertDb [(ver, ver)])) (chs ++ R) ∧
      (∀ a' w, Held ((({ n with db := db' } : Node).bumpDbv n.id ver).setBooked n.id
        ((({ n with db := db' } : Node).booked n.id).insertDb [(ver, ver)])) a' w ↔
        (a' = n.id ∧ ver ≤ w ∧ w ≤ ver) ∨ Held n a' w) ∧
      (∀ a' w, ¬ (a' = n.id ∧ ver ≤ w ∧ w ≤ ver) →
        (((({ n with db := db' } : Node).bumpDbv n.id ver).setBooked n.id
          ((({ n with db := db' } : Node).booked n.id).insertDb [(ver, ver)])).booked a').partial? w =
          (n.booked a').partial? w) by
    refine ⟨hmain.1, hmain.2.1, ?_, by simp, by simp, ?_, ?_⟩
    · intro a' w
      by_cases ha : a' = n.id
      · rw [ha, booked_setBooked_same, hbk, partial?_insertDb]
      · rw [booked_setBooked_other _ _ _ _ ha, booked_bumpDbv]
        rfl
    · intro a'
      rw [hdbv a']
      split
      · rename_i h; rw [h]; omega
      · exact Nat.le_refl _
    · rw [hdbv n.id, if_pos rfl]; omega
  refine cinv_close (a := n.id) (vlo := ver) (vhi := ver) hI' hL (fun _ _ _ h => h)
    ?_ ?_ ?_ ?_ ?_ ?_ ?_ ?_ ?_ ?_ ?_ ?_ ?_ ?_ ?_ ?_
  · exact setBooked_sorted (by rw [bumpDbv_book]; exact hI.sorted) _ _
  · intro a' ha
    rw [booked_setBooked_other _ _ _ _ ha, booked_bumpDbv]
    rfl
  · intro w
    rw [booked_setBooked_same, hbk]
    exact containsVersion_insertDb (hI.needed_wf n.id) (Nat.le_refl ver) w
  · rw [booked_setBooked_same, hbk]
    exact insertDb_needed_wf (hI.needed_wf n.id) _
      (by intro r hr; rw [List.mem_singleton] at hr; subst hr; exact Nat.le_refl _)
  · rw [booked_setBooked_same, hbk]; exact insertDb_pwf (hI.pwf n.id) _
  · rw [booked_setBooked_same, hbk]; exact insertDb_keysSorted (hI.keys n.id) _
  · rw [booked_setBooked_same, hbk, hmax]; omega
  · rw [booked_setBooked_same, hbk, hmax, head_cons, if_pos rfl]; omega
  · intro w _
    rw [booked_setBooked_same, hbk, partial?_insertDb]
  · intro w p h1 h2 hp
    rw [booked_setBooked_same, hbk, partial?_insertDb] at hp
    have := ((containsVersion_iff _ _).mp (hI.part_known n.id w p hp)).2
    omega
  · intro r
    rw [setBooked_seqRows, bumpDbv_seqRows]
    exact ⟨fun h => ⟨h, hnorow r h⟩, fun h => h.1⟩
  · intro c
    rw [setBooked_buf, bumpDbv_buf]
    exact ⟨fun h => ⟨h, hnobuf c h⟩, fun h => h.1⟩
  · intro e he; exact List.mem_append_right _ he
  · intro e he
    rcases List.mem_append.mp he with h | h
    · right
      have := hL.2.2.1 e h
      exact ⟨this.1, by rw [this.2.1]; exact Nat.le_refl _, by rw [this.2.1]; exact Nat.le_refl _⟩
    · exact Or.inl h
  · intro w h1 h2 c hc
    have : w = ver := by omega
    subst this
    rw [hL.get_cons_new] at hc
    exact Or.inl (List.mem_append_left _ hc)
  · intro a'
    rw [hdbv a']
    have := hI.dbv_le a'
    by_cases ha : a' = n.id
    · rw [if_pos ha, ha, booked_setBooked_same, hbk, hmax]
      rw [ha] at this; omega
    · rw [if_neg ha, booked_setBooked_other _ _ _ _ ha, booked_bumpDbv]
      exact this

/-! ### reachability with crashes -/

/-- the side condition of a step beyond `OpOK`: the SERVER of a sync session has no sequence row
without a buffered row of its version (`nodeClean`, what `Cluster.clean` says of every node) -/
def serverClean (c : Cluster) : Op → Bool
  | .sync _ j _ =>
    match c.nodes[j]? with
    | some nj => nodeClean nj
    | none => true
  | _ => true

theorem serverClean_of_clean {c : Cluster} (h : c.clean = true) (op : Op) : serverClean c op = true := by
  cases op with
  | sync i j keep =>
    cases hj : c.nodes[j]? with
    | none => simp only [serverClean, hj]
    | some nj => simp only [serverClean, hj]; exact clean_node h hj
  | write => rfl
  | deliverOrigin => rfl
  | kill => rfl
  | restart => rfl

theorem serverClean_sync {c : Cluster} {i j : Nat} {keep : List Nat} (h : serverClean c (.sync i j keep) = true)
    {nj : Node} (hj : c.nodes[j]? = some nj) : nodeClean nj = true := by
  simp only [serverClean, hj] at h
  exact h

/-- clusters reachable by ANY steps — `kill` and `restart` included — whose write steps satisfy the
side condition `OpOK` (R3) and in whose sync steps the SERVER has no sequence row without a buffered
row (`serverClean`; implied by `Cluster.clean`, the second half of R4) -/
inductive ReachC (k : Nat) : Cluster → Prop
  | init : ReachC k (Cluster.init k)
  | step {c : Cluster} (op : Op) : ReachC k c → OpOK c op → serverClean c op = true →
      ReachC k (step c op)

theorem ReachC.reach {k : Nat} {c : Cluster} (h : ReachC k c) : Reach k c := by
  induction h with
  | init => exact Reach.init
  | step op _ hok _ ih => exact Reach.step op ih hok

/-- a run without crashes through clean states is such a run -/
theorem reachC_of_reachLive {k : Nat} {c : Cluster} (h : ReachLive k c) : ReachC k c := by
  induction h with
  | init => exact ReachC.init
  | step op _ _ hok hcl ih => exact ReachC.step op ih hok (serverClean_of_clean hcl op)

/-- the full node invariant (store level and `held_inv`) of every node, dead or alive -/
def FullK (L : Log) (n : Node) (R : List Chg) : Prop := NInv L n R ∧ KInv L n R

/-- **`held_inv`, cluster level, with crashes**: in every cluster reachable by any steps (sync steps
from clean states), with a well-formed log, every node — dead or alive — satisfies the full
invariant -/
theorem reachC_inv {k : Nat} {c : Cluster} (h : ReachC k c) (hL : LogOK c.log) :
    AllNodes (FullK c.log) c := by
  induction h with
  | init => exact allNodes_init _ k (fun i => ⟨ninv_fresh i, cinv_fresh _ i⟩)
  | @step c op _ hok hclean ih =>
    have hL0 := logOK_of_step hL
    have ih := ih hL0
    cases op with
    | write i stmts =>
      rw [step_write] at hL ⊢
      cases hi : c.nodes[i]? with
      | none => simp only [hi] at hL ⊢; exact ih
      | some n =>
        simp only [hi] at hL ⊢
        split at hL
        · rename_i n' ver chs hw
          simp only at hL
          have ih' : AllNodes (FullK (((n.id, ver), chs) :: c.log))
              ({ c with log := ((n.id, ver), chs) :: c.log } : Cluster) :=
            allNodes_mono ih rfl rfl (fun _ _ h => ⟨h.1.cons_log _, h.2.cons_log h.1.rsub hL⟩)
          have hn := ih.node i n hi
          obtain ⟨h1, _, _, _, hal, _⟩ := cinv_write hn.1 hn.2 hw hL
          exact allNodes_setNode (c := { c with log := ((n.id, ver), chs) :: c.log }) ih' hi
            (s := (n', chs ++ c.R i))
            ⟨ninv_write hn.1 hw (opOK_write hok hi) hL, h1.mono (fun _ _ h => by rw [hal]; exact h)⟩
        · exact ih
    | deliverOrigin i site ver lo hi =>
      rw [step_deliverOrigin] at hL ⊢
      cases hi' : c.nodes[i]? with
      | none => simp only [hi'] at hL ⊢; exact ih
      | some n =>
        simp only [hi'] at hL ⊢
        split
        · rename_i hg
          simp only [Bool.and_eq_true] at hg
          have hn := ih.node i n hi'
          have hck := chunkOK_origin (lo := lo) (hi := hi) hL0 hg.1.1
          exact allNodes_setNode ih hi'
            ⟨ninv_deliver hn.1 hL0 (originItem_changes hL0 _ _ _ _), kinv_deliver hn.1 hn.2 hL0 hck⟩
        · exact ih
    | sync i j keep =>
      rw [step_sync] at hL ⊢
      cases hi : c.nodes[i]? with
      | none => simp only [hi] at hL ⊢; exact ih
      | some ni =>
        cases hj : c.nodes[j]? with
        | none => simp only [hi, hj] at hL ⊢; exact ih
        | some nj =>
          simp only [hi, hj] at hL ⊢
          split
          · exact ih
          · have hni := ih.node i ni hi
            have hnj := ih.node j nj hj
            refine allNodes_setNode ih hi (deliverOne_fold_kinv hL0 _ (ni, c.R i) hni.1 hni.2 ?_)
            intro it hit
            exact chunkOK_answers hnj.1 hnj.2 hL0 (serverClean_sync hclean hj) (mem_pick hit)
    | kill i =>
      rw [step_kill] at hL ⊢
      cases hi : c.nodes[i]? with
      | none => simp only [hi] at hL ⊢; exact ih
      | some n =>
        simp only [hi] at hL ⊢
        have hn := ih.node i n hi
        exact allNodes_setNode ih hi (s := (n.kill, c.R i)) ⟨ninv_kill hn.1, kinv_kill hn.2⟩
    | restart i =>
      rw [step_restart] at hL ⊢
      cases hi : c.nodes[i]? with
      | none => simp only [hi] at hL ⊢; exact ih
      | some n =>
        simp only [hi] at hL ⊢
        have hn := ih.node i n hi
        exact allNodes_setNode ih hi (s := (n.restart, restartMerged n ++ c.R i))
          ⟨ninv_restart hn.1 hL0, kinv_restart hn.2 hL0⟩

/-! ### checking a concrete run -/

/-- every step of the run satisfies its side condition, and the server of every sync step is
clean -/
def runOKC : Cluster → List Op → Prop
  | _, [] => True
  | c, op :: ops => OpOK c op ∧ serverClean c op = true ∧ runOKC (step c op) ops

instance : (c : Cluster) → (ops : List Op) → Decidable (runOKC c ops)
  | _, [] => isTrue trivial
  | c, op :: ops =>
    have := instDecidableRunOKC (step c op) ops
    by unfold runOKC; exact inferInstance

theorem reachC_run {k : Nat} {c : Cluster} (h : ReachC k c) (ops : List Op) (hok : runOKC c ops) :
    ReachC k (run c ops) := by
  induction ops generalizing c with
  | nil => exact h
  | cons op ops ih =>
    obtain ⟨h1, h2, h3⟩ := hok
    exact ih (ReachC.step op h h1 h2) h3

end Corro.ClusterSys.Crash
