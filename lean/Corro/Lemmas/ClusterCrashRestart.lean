/-
C01 with crashes — `kill` and `restart` preserve the node invariant:

* `kinv_kill`: nothing but the `alive` flag changes;
* `cinv_reloaded`: after `from_conn` for every known actor the bookkeeping is an exact image of the
  durable rows (head = max of the db-version row and the row versions, ≤ the old head; a partial per
  version with sequence rows, made of exactly those rows), so a version is held after the reload only
  if it was held before;
* `cinv_applyAll`: the re-scheduled applies merge the buffered rows of every version whose rows cover
  `0..=last_seq` — all of its changes are buffered or dominated (`cover`, `last_rows`);
* `kinv_restart`: `KInv L n R → KInv L n.restart (restartMerged n ++ R)`, and the restarted node is
  alive with nothing pending.
-/
import Corro.Lemmas.ClusterCrashServe

namespace Corro.ClusterSys.Crash
open Corro.Crdt Corro.Node Corro.ClusterSys

/-! ### kill -/

/-- the invariant does not look at `id`, `db`, `alive` -/
theorem CInv.transfer {P : Nat → Nat → Prop} {L : Log} {n n' : Node} {R : List Chg} (h : CInv P L n R)
    (h1 : n'.book = n.book) (h2 : n'.seqRows = n.seqRows) (h3 : n'.buf = n.buf) (h4 : n'.dbv = n.dbv) :
    CInv P L n' R := by
  obtain ⟨id, db, book, rows, buf, dbv, alive⟩ := n
  obtain ⟨id', db', book', rows', buf', dbv', alive'⟩ := n'
  simp only at h1 h2 h3 h4
  subst h1 h2 h3 h4
  exact ⟨h.sorted, h.needed_wf, h.pwf, h.keys, h.rows_fwd, h.rows_le, h.head_le, h.part_known, h.part_state,
    h.cover, h.last_rows, h.last_part, h.held, h.rgot, h.rows_part, h.buf_rows, h.dbv_le⟩

theorem kinv_kill {L : Log} {n : Node} {R : List Chg} (h : KInv L n R) : KInv L n.kill R :=
  (h.transfer (n' := n.kill) rfl rfl rfl rfl).mono (fun _ _ _ => rfl)

theorem held_kill (n : Node) (a v : Nat) : Held n.kill a v ↔ Held n a v := Iff.rfl

/-! ### the reloaded bookkeeping -/

section Reload
variable {P : Nat → Nat → Prop} {L : Log} {n : Node} {R : List Chg}

theorem rowsForward (hI : CInv P L n R) (a : Nat) : n.ActorRowsForward a :=
  fun r hr _ => hI.rows_fwd r hr

theorem reloaded_needed (n : Node) (a : Nat) :
    ((reloaded n).booked a).needed = (n.booked a).needed := by
  rw [reloaded_booked]
  split
  · exact fromConn_needed n a
  · rename_i hk
    show ([] : RSet) = _
    unfold Node.booked
    cases hf : n.book.find? (·.1 = a) with
    | none => rfl
    | some e =>
      have hm := List.mem_of_find?_eq_some hf
      have he := List.find?_some hf
      simp only [decide_eq_true_eq] at he
      have : e.2.needed.isEmpty = true := by
        cases hx : e.2.needed.isEmpty with
        | true => rfl
        | false => exact absurd (mem_knownActors.mpr (Or.inr (Or.inr ⟨e, hm, he, hx⟩))) hk
      show [] = e.2.needed
      exact (List.isEmpty_iff.mp this).symm

theorem reloaded_partial_isSome (hI : CInv P L n R) (a v : Nat) :
    (((reloaded n).booked a).partial? v).isSome = true ↔ HasRows n a v := by
  rw [reloaded_booked]
  split
  · exact fromConn_partial_isSome n a v (rowsForward hI a)
  · rename_i hk
    constructor
    · intro h; cases h
    · rintro ⟨r, hr, hs, _⟩
      exact absurd (mem_knownActors.mpr (Or.inr (Or.inl ⟨r, hr, hs⟩))) hk

theorem reloaded_partial_spec (hI : CInv P L n R) {a v : Nat} {p : Partial}
    (hp : ((reloaded n).booked a).partial? v = some p) :
    a ∈ n.knownActors ∧ (n.fromConn a).partial? v = some p ∧
    RSet.WF p.seqs ∧ (∀ x, RSet.Mem p.seqs x ↔ SeqMem n.seqRows a v x) ∧
      ∃ r ∈ n.seqRows, r.site = a ∧ r.ver = v ∧ p.last = r.last := by
  rw [reloaded_booked] at hp
  split at hp
  · rename_i hk
    exact ⟨hk, hp, fromConn_partial_spec n a v (rowsForward hI a) hp⟩
  · cases hp

theorem dbvOf_unknown {a : Nat} (hk : a ∉ n.knownActors) : dbvOf n a = 0 := by
  unfold dbvOf
  cases hf : n.dbv.find? (·.1 = a) with
  | none => rfl
  | some e =>
    have hm := List.mem_of_find?_eq_some hf
    have he := List.find?_some hf
    simp only [decide_eq_true_eq] at he
    exact absurd (mem_knownActors.mpr (Or.inl ⟨e, hm, he⟩)) hk

/-- the reloaded head: at least the db-version row and every row version, at most the old head -/
theorem reloaded_max (hI : CInv P L n R) (a : Nat) :
    dbvOf n a ≤ ((reloaded n).booked a).max ∧
    (∀ r ∈ n.seqRows, r.site = a → r.ver ≤ ((reloaded n).booked a).max) ∧
    ((reloaded n).booked a).max ≤ (n.booked a).max := by
  rw [reloaded_booked]
  split
  · have hi := fromConn_inv n a (rowsForward hI a)
    rw [fromConn_max]
    refine ⟨hi.max_ge.1, ?_, ?_⟩
    · intro r hr hs
      exact hi.max_ge.2 r (mem_actorRows.mpr ⟨hr, hs⟩)
    · rcases hi.max_att with h | ⟨r, hr, h⟩
      · rw [h]; exact hI.dbv_le a
      · rw [h]
        obtain ⟨hr1, hr2⟩ := mem_actorRows.mp hr
        have := hI.rows_le r hr1
        rw [hr2] at this; exact this
  · rename_i hk
    refine ⟨by rw [dbvOf_unknown hk]; exact Nat.zero_le _, ?_, Nat.zero_le _⟩
    intro r hr hs
    exact absurd (mem_knownActors.mpr (Or.inr (Or.inl ⟨r, hr, hs⟩))) hk

theorem reloaded_pwf_keys (hI : CInv P L n R) (a : Nat) :
    ((reloaded n).booked a).PWF ∧ ((reloaded n).booked a).KeysSorted := by
  rw [reloaded_booked]
  split
  · have hi := fromConn_inv n a (rowsForward hI a)
    exact ⟨hi.pwf, hi.keys⟩
  · exact ⟨fun e he => (by cases he), List.Pairwise.nil⟩

theorem reloaded_sorted (n : Node) : (reloaded n).book.Pairwise (fun x y => x.1 < y.1) := by
  show (restartBook n).Pairwise _
  unfold restartBook
  rw [List.pairwise_map]
  exact knownActors_sorted n

theorem hasRows_reloaded (n : Node) (a v : Nat) : HasRows (reloaded n) a v ↔ HasRows n a v := Iff.rfl

/-- a version held right after the reload was held before the restart -/
theorem held_of_reloaded (hI : CInv P L n R) {a v : Nat} (hh : Held (reloaded n) a v) : Held n a v := by
  have hnr : ¬ HasRows n a v := by
    intro hr
    have := (reloaded_partial_isSome hI a v).mpr hr
    cases hp : ((reloaded n).booked a).partial? v with
    | none => rw [hp] at this; cases this
    | some p => exact (hh.2 p hp).2 hr
  obtain ⟨h1, h2⟩ := (containsVersion_iff _ _).mp hh.1
  rw [reloaded_needed] at h1
  have h3 := (reloaded_max hI a).2.2
  refine ⟨(containsVersion_iff _ _).mpr ⟨h1, by omega⟩, ?_⟩
  intro q hq
  rcases hI.part_state a v q hq with h | ⟨_, h, _⟩ | ⟨_, _, h⟩
  · exact h
  · exact absurd h hnr
  · exact absurd h hnr

/-- **the reload**: the node right after `from_conn` for every known actor satisfies the invariant
with anything pending -/
theorem cinv_reloaded (hI : CInv P L n R) : CInv AnyP L (reloaded n) R := by
  refine ⟨reloaded_sorted n, ?_, ?_, ?_, hI.rows_fwd, ?_, ?_, ?_, ?_, hI.cover, hI.last_rows, ?_, ?_, hI.rgot,
    ?_, hI.buf_rows, ?_⟩
  · intro a; rw [reloaded_needed]; exact hI.needed_wf a
  · intro a; exact (reloaded_pwf_keys hI a).1
  · intro a; exact (reloaded_pwf_keys hI a).2
  · intro r hr; exact (reloaded_max hI r.site).2.1 r hr rfl
  · intro a
    have := (reloaded_max hI a).2.2
    have := hI.head_le a
    omega
  · intro a v p hp
    have hs : (((reloaded n).booked a).partial? v).isSome = true := by rw [hp]; rfl
    obtain ⟨r, hr, h1, h2⟩ := (reloaded_partial_isSome hI a v).mp hs
    obtain ⟨q, hq⟩ := hI.rows_part r hr
    rw [h1, h2] at hq
    have hcv := (containsVersion_iff _ _).mp (hI.part_known a v q hq)
    refine (containsVersion_iff _ _).mpr ⟨by rw [reloaded_needed]; exact hcv.1, ?_⟩
    have := (reloaded_max hI a).2.1 r hr h1
    omega
  · intro a v p hp
    have hs : (((reloaded n).booked a).partial? v).isSome = true := by rw [hp]; rfl
    have hr := (reloaded_partial_isSome hI a v).mp hs
    cases hc : p.complete with
    | true => exact Or.inr (Or.inr ⟨trivial, rfl, hr⟩)
    | false =>
      obtain ⟨_, _, _, hm, _⟩ := reloaded_partial_spec hI hp
      exact Or.inr (Or.inl ⟨rfl, hr, fun x hx => (hm x).mp hx⟩)
  · intro a v p hp _ c hc hlt
    obtain ⟨_, _, _, _, r, hr, h1, h2, h3⟩ := reloaded_partial_spec hI hp
    have := hI.last_rows r hr
    rw [h1, h2] at this
    exact this c hc (by omega)
  · intro a v hh
    exact hI.held a v (held_of_reloaded hI hh)
  · intro r hr
    have := (reloaded_partial_isSome hI r.site r.ver).mpr ⟨r, hr, rfl, rfl⟩
    cases hp : ((reloaded n).booked r.site).partial? r.ver with
    | none => rw [hp] at this; cases this
    | some p => exact ⟨p, rfl⟩
  · intro a
    exact (reloaded_max hI a).1

/-- a version whose reloaded partial is complete has all its changes buffered or dominated -/
theorem reloaded_task_data (hI : CInv P L n R) {a v : Nat} {p : Partial}
    (hp : ((reloaded n).booked a).partial? v = some p) (hpc : p.complete = true) :
    ∀ c ∈ L.get a v, c ∈ n.buf ∨ Dom L.all c := by
  intro c hc
  obtain ⟨_, _, hw, hm, r, hr, h1, h2, h3⟩ := reloaded_partial_spec hI hp
  by_cases hle : c.seq ≤ p.last
  · have := (complete_iff hw).mp hpc c.seq hle
    exact hI.cover a v c.seq ((hm c.seq).mp this) c hc rfl
  · right
    have := hI.last_rows r hr
    rw [h1, h2] at this
    exact this c hc (by omega)

end Reload

/-! ### the re-scheduled applies -/

/-- applying, one after the other, versions that all have a complete partial and all of whose
changes are buffered, merged or dominated -/
theorem cinv_applyAll {L : Log} (hL : LogOK L) (T : List (Nat × Nat)) :
    ∀ (m : Node) (R : List Chg), CInv AnyP L m R →
    (∀ t ∈ T, ∃ p, (m.booked t.1).partial? t.2 = some p ∧ p.complete = true) →
    (∀ t ∈ T, ∀ c ∈ L.get t.1 t.2, c ∈ m.buf ∨ c ∈ R ∨ Dom L.all c) →
    ∃ R', CInv AnyP L (applyAll m T) R' ∧
      (∀ e, e ∈ R' ↔ e ∈ R ∨ (e ∈ m.buf ∧ ∃ t ∈ T, e.site = t.1 ∧ e.dbv = t.2)) ∧
      (∀ a w, Held m a w → Held (applyAll m T) a w) := by
  induction T with
  | nil =>
    intro m R hI _ _
    exact ⟨R, hI, fun e => ⟨fun h => Or.inl h, fun h => by
      rcases h with h | ⟨_, t, ht, _⟩
      · exact h
      · cases ht⟩, fun _ _ h => h⟩
  | cons t T ih =>
    intro m R hI hT hD
    obtain ⟨p, hp, hpc⟩ := hT t List.mem_cons_self
    obtain ⟨hI1, hheld1, _⟩ := cinv_apply (P' := AnyP) hI hL hp hpc (fun _ _ _ _ => trivial)
      (hD t List.mem_cons_self)
    obtain ⟨_, hbuf1⟩ := applyBuffered_rows_buf hp hpc
    have hR1 : ∀ e, e ∈ sortBySeq (bufOf m.buf t.1 t.2) ++ R ↔
        e ∈ R ∨ (e ∈ m.buf ∧ e.site = t.1 ∧ e.dbv = t.2) := by
      intro e
      rw [List.mem_append, mem_sortBySeq]
      unfold bufOf
      rw [List.mem_filter]
      simp only [decide_eq_true_eq]
      exact Or.comm
    obtain ⟨R', hI', hmem', hheld'⟩ := ih (m.applyBuffered t.1 t.2) (sortBySeq (bufOf m.buf t.1 t.2) ++ R) hI1
      (fun t' ht' => by
        rw [partial?_applyBuffered]
        exact hT t' (List.mem_cons_of_mem _ ht'))
      (fun t' ht' c hc => by
        rcases hD t' (List.mem_cons_of_mem _ ht') c hc with h | h | h
        · by_cases hk : c.site = t.1 ∧ c.dbv = t.2
          · exact Or.inr (Or.inl ((hR1 c).mpr (Or.inr ⟨h, hk⟩)))
          · exact Or.inl ((hbuf1 c).mpr ⟨h, hk⟩)
        · exact Or.inr (Or.inl ((hR1 c).mpr (Or.inl h)))
        · exact Or.inr (Or.inr h))
    refine ⟨R', hI', ?_, ?_⟩
    · intro e
      rw [hmem' e, hR1 e, hbuf1 e]
      constructor
      · rintro ((h | ⟨h1, h2⟩) | ⟨⟨h1, _⟩, t', ht', h3⟩)
        · exact Or.inl h
        · exact Or.inr ⟨h1, t, List.mem_cons_self, h2⟩
        · exact Or.inr ⟨h1, t', List.mem_cons_of_mem _ ht', h3⟩
      · rintro (h | ⟨h1, t', ht', h3⟩)
        · exact Or.inl (Or.inl h)
        · by_cases hk : e.site = t.1 ∧ e.dbv = t.2
          · exact Or.inl (Or.inr ⟨h1, hk⟩)
          · rcases List.mem_cons.mp ht' with rfl | ht'
            · exact absurd h3 hk
            · exact Or.inr ⟨⟨h1, hk⟩, t', ht', h3⟩
    · intro a w hh
      exact hheld' a w ((hheld1 a w).mpr (Or.inr hh))

/-! ### the ghost list of a restart -/

theorem mem_rmStep_fold {e : Chg} (T : List (Nat × Nat)) (acc buf : List Chg) :
    e ∈ (T.foldl rmStep (acc, buf)).1 ↔ e ∈ acc ∨ (e ∈ buf ∧ ∃ t ∈ T, e.site = t.1 ∧ e.dbv = t.2) := by
  induction T generalizing acc buf with
  | nil =>
    simp only [List.foldl_nil, List.not_mem_nil, false_and, exists_false, and_false, or_false]
  | cons t T ih =>
    rw [List.foldl_cons, ih]
    unfold rmStep
    simp only [List.mem_append, mem_sortBySeq, List.mem_filter, decide_eq_true_eq, Bool.not_eq_true',
      decide_eq_false_iff_not]
    constructor
    · rintro ((h | ⟨h1, h2⟩) | ⟨⟨h1, _⟩, t', ht', h3⟩)
      · exact Or.inl h
      · exact Or.inr ⟨h1, t, List.mem_cons_self, h2⟩
      · exact Or.inr ⟨h1, t', List.mem_cons_of_mem _ ht', h3⟩
    · rintro (h | ⟨h1, t', ht', h3⟩)
      · exact Or.inl (Or.inl h)
      · by_cases hk : e.site = t.1 ∧ e.dbv = t.2
        · exact Or.inl (Or.inr ⟨h1, hk⟩)
        · rcases List.mem_cons.mp ht' with rfl | ht'
          · exact absurd h3 hk
          · exact Or.inr ⟨⟨h1, hk⟩, t', ht', h3⟩

/-- what a restart merges: the buffered rows of the versions it re-applies -/
theorem mem_restartMerged {n : Node} {e : Chg} :
    e ∈ restartMerged n ↔ e ∈ n.buf ∧ ∃ t ∈ restartTasks n, e.site = t.1 ∧ e.dbv = t.2 := by
  rw [restartMerged_eq, mem_rmStep_fold]
  simp only [List.not_mem_nil, false_or]

/-! ### restart -/

/-- **restart** preserves the node invariant; the restarted node is alive with nothing pending, and
holds after the re-scheduled applies whatever the reloaded bookkeeping held -/
theorem cinv_restart {P : Nat → Nat → Prop} {L : Log} {n : Node} {R : List Chg} (hI : CInv P L n R)
    (hL : LogOK L) :
    CInv NoneP L n.restart (restartMerged n ++ R) ∧ (n.restart).alive = true ∧
    (∀ a w, Held (reloaded n) a w → Held n.restart a w) := by
  have hI0 := cinv_reloaded hI
  have hT := restartTasks_complete n
  obtain ⟨R', hI', hmem, hheld⟩ := cinv_applyAll hL (restartTasks n) (reloaded n) R hI0 hT
    (fun t ht c hc => by
      obtain ⟨p, hp, hpc⟩ := hT t ht
      rcases reloaded_task_data hI hp hpc c hc with h | h
      · exact Or.inl h
      · exact Or.inr (Or.inr h))
  rw [← restart_eq'] at hI' hheld
  have hnp : NoPending n.restart := by
    intro a v p hp hpc
    rw [restart_eq', partial?_applyAll] at hp
    obtain ⟨hk, hp', _⟩ := reloaded_partial_spec hI hp
    have ht : (a, v) ∈ restartTasks n := mem_restartTasks.mpr ⟨hk, p, hp', hpc⟩
    rintro ⟨r, hr, h1, h2⟩
    rw [(restart_effect n).2.1, mem_foldl_filter_rows] at hr
    exact hr.2 (a, v) ht ⟨h1, h2⟩
  refine ⟨(hI'.settle hnp).congr_R ?_, (restart_effect n).2.2, hheld⟩
  intro e
  rw [List.mem_append, mem_restartMerged, hmem e]
  exact Or.comm

theorem kinv_restart {L : Log} {n : Node} {R : List Chg} (hI : KInv L n R) (hL : LogOK L) :
    KInv L n.restart (restartMerged n ++ R) :=
  (cinv_restart hI hL).1.mono (fun _ _ h => absurd h id)

end Corro.ClusterSys.Crash
