/-
C01, protocol level — definitions for the counterexample that makes restriction R2 (`LogOK`: no
re-insertion of a deleted row) a NECESSITY of `held_inv` (`Props/C01ClusterFull.lean`,
`held_inv_needs_no_reinsertion_counterexample`): `LogOKre` is `LogOK` WITHOUT the single clause
`cl ≤ 2` of `ChgOK` (so causal lengths 3, 4, … — re-insertions — are allowed; everything else — versions
`1, 2, 3, …` per site, attribution, the shape of sentinels, deletes and column changes, strictly
increasing seqs — is kept), and the run of the known finding "relayed-sentinel-shares-seq".
-/
import Corro.Lemmas.ClusterStep

namespace Corro.ClusterSys
open Corro.Crdt Corro.Node

/-- `ChgOK` without the bound `cl ≤ 2` -/
def ChgOKre (c : Chg) : Prop :=
  1 ≤ c.cl ∧ (c.cid = sentinel → c.val = .null ∧ c.colv = c.cl) ∧
  (c.cl = 2 → c.cid = sentinel) ∧ (c.cid ≠ sentinel → 1 ≤ c.colv) ∧ c.seq ≤ 1000000000

instance (c : Chg) : Decidable (ChgOKre c) := by unfold ChgOKre; exact inferInstance

/-- `ChgOK` is `ChgOKre` plus `cl ≤ 2` -/
theorem chgOK_iff (c : Chg) : ChgOK c ↔ ChgOKre c ∧ c.cl ≤ 2 := by
  unfold ChgOK ChgOKre
  constructor
  · rintro ⟨h1, h2, h3, h4, h5, h6⟩; exact ⟨⟨h1, h3, h4, h5, h6⟩, h2⟩
  · rintro ⟨⟨h1, h3, h4, h5, h6⟩, h2⟩; exact ⟨h1, h2, h3, h4, h5, h6⟩

/-- `EntryOK` with `ChgOKre` -/
def EntryOKre (e : (Nat × Nat) × List Chg) : Prop :=
  (∀ c ∈ e.2, c.site = e.1.1 ∧ c.dbv = e.1.2 ∧ ChgOKre c) ∧ e.2.Pairwise (fun x y => x.seq < y.seq)

instance (e : (Nat × Nat) × List Chg) : Decidable (EntryOKre e) := by unfold EntryOKre; exact inferInstance

/-- `LogOK` without the clause `cl ≤ 2` -/
def LogOKre : Log → Prop
  | [] => True
  | e :: L => LogOKre L ∧ e.1.2 = Log.head L e.1.1 + 1 ∧ EntryOKre e

instance : (L : Log) → Decidable (LogOKre L)
  | [] => isTrue trivial
  | e :: L =>
    have := instDecidableLogOKre L
    by unfold LogOKre; exact inferInstance

/-- **`LogOK` is exactly `LogOKre` plus `cl ≤ 2` for every change of the log** -/
theorem logOK_iff (L : Log) : LogOK L ↔ LogOKre L ∧ ∀ c ∈ L.all, c.cl ≤ 2 := by
  induction L with
  | nil => exact ⟨fun _ => ⟨trivial, fun c hc => by cases hc⟩, fun _ => trivial⟩
  | cons e L ih =>
    unfold LogOK LogOKre EntryOK EntryOKre
    rw [ih, all_cons]
    constructor
    · rintro ⟨⟨h1, h2⟩, h3, h4, h5⟩
      refine ⟨⟨h1, h3, fun c hc => ⟨(h4 c hc).1, (h4 c hc).2.1, ((chgOK_iff c).mp (h4 c hc).2.2).1⟩, h5⟩, ?_⟩
      intro c hc
      rcases List.mem_append.mp hc with hc | hc
      · exact ((chgOK_iff c).mp (h4 c hc).2.2).2
      · exact h2 c hc
    · rintro ⟨⟨h1, h3, h4, h5⟩, h2⟩
      refine ⟨⟨h1, fun c hc => h2 c (List.mem_append_right _ hc)⟩, h3, ?_, h5⟩
      intro c hc
      exact ⟨(h4 c hc).1, (h4 c hc).2.1,
        (chgOK_iff c).mpr ⟨(h4 c hc).2.2, h2 c (List.mem_append_left _ hc)⟩⟩

namespace ExR

/-- The history of the known finding "relayed-sentinel-shares-seq" (`corpus/C01/
relayed_sentinel_shares_seq.ops`), five nodes, in the ONE-CHANGESET-PER-BATCH model (`ClusterSys.step`).
Table `t` (key `id`, columns `a`, `b`), row `id = 1` (`pk = "i1"`); `'a' = [97]`, `'y' = [121]`,
`'b' = [98]`.

 1. node 0 inserts the row (`a = 'a'`, `b = 1`): version (0,1), seqs 0..1;
 2.-4. nodes 1, 2, 3 receive (0,1) whole;
 5. node 0 deletes the row: (0,2) = one sentinel, `cl = 2`;
 6. node 2 receives (0,2);
 7. node 0 RE-INSERTS the row (`a = 'y'`, `b = 5`): (0,3) = sentinel `cl = 3` @0, `a` @1, `b` @2;
 8. node 2 (row deleted there) RE-INSERTS it concurrently (`a = 'b'`): (2,1) = sentinel `cl = 3` @0,
    `a` @1, `b = NULL` @2;
 9. node 1 (row alive, `cl = 1`) receives (2,1) whole — the row is resurrected by node 2's sentinel;
 10. node 1 receives (0,3) whole: the sentinel of (0,3) is ignored (equal `cl`), `a = 'y'`, `b = 5` win;
 11. node 3 syncs with node 1 (all answers): node 1 serves (0,3) as ONE COMPLETE changeset `0..=2`
     carrying its live entries of the version only — `a` @1 and `b` @2; the sentinel of (0,3) is not
     live on node 1 (node 2's won) — and (2,1) as its sentinel alone.  Node 3 (row at `cl = 1`) merges
     `a` first, which resurrects the row and creates an IMPLICIT sentinel attributed to
     `(0, 3, seq 1)` — the same `(site, db_version, seq)` as the column change `a`;
 12. node 4 receives the chunk `p0of3 = [0, 0]` of (0,3) (its real sentinel) and buffers it;
 13. node 4 syncs with node 3: it asks for `1..=2` of (0,3); node 3 answers with its live entries
     attributed to (0,3) in that range — the implicit sentinel @1, `a` @1, `b` @2; buffering keeps the
     FIRST row per `(site, db_version, seq)`: the sentinel @1, and DROPS `a` @1; the version is now
     complete, applied and booked as held;
 14.-17. the further sessions `4 ← 3`, `4 ← 0`, `0 ← 4`, `4 ← 0` carry `Empty` answers only; at the end
     nodes 0 and 4 both hold every version of the log. -/
def opsR : List Op := [
  .write 0 [.ins "t" "i1" [("a", .text [97]), ("b", .int 1)]],
  .deliverOrigin 1 0 1 0 1, .deliverOrigin 2 0 1 0 1, .deliverOrigin 3 0 1 0 1,
  .write 0 [.del "t" "i1"],
  .deliverOrigin 2 0 2 0 0,
  .write 0 [.ins "t" "i1" [("a", .text [121]), ("b", .int 5)]],
  .write 2 [.ins "t" "i1" [("a", .text [98])]],
  .deliverOrigin 1 2 1 0 2,
  .deliverOrigin 1 0 3 0 2,
  .sync 3 1 [0, 1, 2],
  .deliverOrigin 4 0 3 0 0,
  .sync 4 3 [0, 1, 2], .sync 4 3 [0, 1, 2], .sync 4 0 [0, 1, 2],
  .sync 0 4 [0, 1, 2], .sync 4 0 [0, 1, 2]]

def cR : Cluster := run (Cluster.init 5) opsR

/-- the state in which node 4 asks node 3 for the rest of (0,3) (after step 12) -/
def cR12 : Cluster := run (Cluster.init 5) (opsR.take 12)

end ExR

end Corro.ClusterSys
