/-
Helper lemmas for C02, part 3: `insert_db` as a whole on a well-formed bookkeeping state.
Definitions used by the property statements (`GapsOk`, `VersOk`, `supHi`) live here and in
`BookGaps.lean`.
-/
import Corro.Lemmas.BookGaps

namespace Corro.Book
open Corro Corro.RSet

/-- The gap bookkeeping of one actor is well formed: `needed` is canonical (pairwise disjoint,
non-adjacent, forward), the rows of `__corro_bookkeeping_gaps` are exactly its intervals, and every
needed version lies in `1 .. head` (the head itself is never needed). -/
structure GapsOk (b : Book) (rows : Rows) : Prop where
  wf : WF b.needed
  rows : rows = b.needed
  inside : ∀ x, Mem b.needed x → 1 ≤ x ∧ x < b.max.getD 0

/-- What callers hand to `insert_db`: a non-empty canonical set of versions, none of them 0. -/
structure VersOk (S : RSet) : Prop where
  wf : WF S
  ne : S ≠ []
  pos : ∀ x, Mem S x → 1 ≤ x

theorem insertDb_ok {b : Book} {rows : Rows} {S : RSet} (h : GapsOk b rows) (hS : VersOk S) :
    ∃ b', insertDb b rows S = .ok (b', b'.needed) ∧ WF b'.needed ∧
      b'.max = some (max (b.max.getD 0) (supHi S)) ∧
      (∀ x, Mem b'.needed x ↔
        (Mem b.needed x ∨ (b.max.getD 0 + 1 ≤ x ∧ x ≤ supHi S)) ∧ ¬ Mem S x) ∧
      ((∀ e ∈ b.partials, ¬ Mem b.needed e.1) → b'.partials = b.partials) := by
  obtain ⟨c1, c2, c3, c4, c5, c6⟩ := computeGapsChange_spec (s := b) h.wf hS.wf hS.ne
  obtain ⟨s1, d1, d2, d3, d4, d5⟩ := deleteLoop_ok _ b rows h.wf h.rows c2 c3
  -- every range of the insert set is isolated from what is left of `needed`
  have hiso : ∀ r ∈ (computeGapsChange b S).insertSet, Isolated s1.needed r := by
    intro r hr q hq
    have hrf := wf_forward c5 r hr
    have hq' := (d4 q).mp hq
    have hqf := wf_forward h.wf q hq'.1
    apply iso_of_pointwise hqf hrf
    intro x y hx1 hx2 hy1 hy2
    have hxI : Mem (computeGapsChange b S).insertSet x := mem_of_elem hr hx1 hx2
    have hyN : Mem b.needed y := mem_of_elem hq'.1 hy1 hy2
    rcases ((c6 x).mp hxI).1 with ⟨r', hr', hxr⟩ | ⟨hlo, _, _⟩
    · have hne : r' ≠ q := fun he => hq'.2 (he ▸ hr')
      have := wf_pairwise h.wf (c3 r' hr') hq'.1 hne
      omega
    · have := (h.inside y hyN).2
      omega
  obtain ⟨s2, i1, i2, i3, i4, i5⟩ := insertLoop_ok _ 0 s1 s1.needed d2 rfl c5 hiso
  refine ⟨{ s2 with max := (computeGapsChange b S).max }, ?_, i2, c1, ?_, ?_⟩
  · unfold insertDb
    simp only [d1, i1]
  · intro x
    show Mem s2.needed x ↔ _
    constructor
    · rintro ⟨q, hq, hx⟩
      rcases (i5 q).mp hq with hq1 | hq1
      · have hq' := (d4 q).mp hq1
        refine ⟨Or.inl ⟨q, hq'.1, hx⟩, ?_⟩
        rintro ⟨v, hv, hxv⟩
        exact hq'.2 (c4 v hv q hq'.1 (Or.inl ⟨by omega, by omega⟩))
      · have := (c6 x).mp (mem_of_elem hq1 hx.1 hx.2)
        refine ⟨?_, this.2⟩
        rcases this.1 with ⟨r', hr', hxr⟩ | ⟨hlo, hhi, _⟩
        · exact Or.inl ⟨r', c3 r' hr', hxr⟩
        · exact Or.inr ⟨hlo, hhi⟩
    · rintro ⟨hx, hns⟩
      have hI : ∀ (hh : Mem (computeGapsChange b S).insertSet x), Mem s2.needed x := by
        rintro ⟨q, hq, hxq⟩
        exact ⟨q, (i5 q).mpr (Or.inr hq), hxq⟩
      rcases hx with ⟨q, hq, hxq⟩ | ⟨hlo, hhi⟩
      · by_cases hqr : q ∈ (computeGapsChange b S).removeRanges
        · exact hI ((c6 x).mpr ⟨Or.inl ⟨q, hqr, hxq⟩, hns⟩)
        · exact ⟨q, (i5 q).mpr (Or.inl ((d4 q).mpr ⟨hq, hqr⟩)), hxq⟩
      · exact hI ((c6 x).mpr ⟨Or.inr ⟨hlo, hhi, hns⟩, hns⟩)
  · intro hp
    show s2.partials = b.partials
    rw [i4, d5 hp]

/-- the new `needed` stays inside `1 .. head'` -/
theorem insertDb_inside {b : Book} {S : RSet} (h : ∀ x, Mem b.needed x → 1 ≤ x ∧ x < b.max.getD 0)
    (hS : VersOk S) {x : Nat}
    (hx : (Mem b.needed x ∨ (b.max.getD 0 + 1 ≤ x ∧ x ≤ supHi S)) ∧ ¬ Mem S x) :
    1 ≤ x ∧ x < max (b.max.getD 0) (supHi S) := by
  rcases hx with ⟨hx | ⟨hlo, hhi⟩, hns⟩
  · have := h x hx; omega
  · obtain ⟨v, hv, hve⟩ := supHi_attained hS.ne
    have hvf := wf_forward hS.wf v hv
    have : x ≠ supHi S := by
      intro he; exact hns ⟨v, hv, by omega, by omega⟩
    omega

/-! ### `collect()` of a list of ranges -/

theorem ofList_wf {rs : List (Nat × Nat)} (h : ∀ r ∈ rs, r.1 ≤ r.2) : WF (RSet.ofList rs) :=
  insertAll_wf [] rs trivial h

theorem mem_ofList {rs : List (Nat × Nat)} (h : ∀ r ∈ rs, r.1 ≤ r.2) (x : Nat) :
    Mem (RSet.ofList rs) x ↔ ∃ r ∈ rs, r.1 ≤ x ∧ x ≤ r.2 := by
  have := mem_insertAll [] rs h x
  simp only [mem_nil, false_or] at this
  exact this

/-- two lists of forward ranges covering the same points end at the same point -/
theorem supHi_le_of_mem {S T : List (Nat × Nat)} (hS : ∀ r ∈ S, r.1 ≤ r.2)
    (h : ∀ x, Mem S x → Mem T x) : supHi S ≤ supHi T := by
  by_cases hne : S = []
  · subst hne; simp [supHi]
  · obtain ⟨v, hv, he⟩ := supHi_attained hne
    obtain ⟨w, hw, hx⟩ := h v.2 ⟨v, hv, hS v hv, Nat.le_refl _⟩
    have := le_supHi hw
    omega

theorem supHi_ofList {rs : List (Nat × Nat)} (h : ∀ r ∈ rs, r.1 ≤ r.2) :
    supHi (RSet.ofList rs) = supHi rs := by
  have hw := wf_forward (ofList_wf h)
  apply Nat.le_antisymm
  · exact supHi_le_of_mem hw (fun x hx => (mem_ofList h x).mp hx)
  · exact supHi_le_of_mem h (fun x hx => (mem_ofList h x).mpr hx)

theorem versOk_ofList {rs : List (Nat × Nat)} (hne : rs ≠ []) (h : ∀ r ∈ rs, 1 ≤ r.1 ∧ r.1 ≤ r.2) :
    VersOk (RSet.ofList rs) := by
  have hf : ∀ r ∈ rs, r.1 ≤ r.2 := fun r hr => (h r hr).2
  refine ⟨ofList_wf hf, ?_, ?_⟩
  · intro he
    cases rs with
    | nil => exact hne rfl
    | cons r t =>
      have : Mem (RSet.ofList (r :: t)) r.1 := (mem_ofList hf r.1).mpr ⟨r, by simp, Nat.le_refl _, hf r (by simp)⟩
      rw [he] at this
      exact mem_nil _ this
  · intro x hx
    obtain ⟨r, hr, hx1, _⟩ := (mem_ofList hf x).mp hx
    have := (h r hr).1
    omega

end Corro.Book
