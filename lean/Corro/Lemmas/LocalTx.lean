/-
Helper lemmas for C07 (`Corro/Props/C07.lean`): the node-level bookkeeping of a local write, the
case analysis of `LocalTx.submit`, the invariant `Good` of a node that is only written locally, and
what `announce` (the model of `broadcast_changes`) produces for a strictly increasing change list.
-/
import Corro.Lemmas.LocalTxSeq
import Corro.Model.LocalTx
import Corro.Props.C08

namespace Corro.Node
open Corro.Crdt

/-! ### `Node` accessors -/

@[simp] theorem bumpDbv_db (n : Node) (a v : Nat) : (n.bumpDbv a v).db = n.db := by
  unfold Node.bumpDbv; split <;> rfl
@[simp] theorem bumpDbv_id (n : Node) (a v : Nat) : (n.bumpDbv a v).id = n.id := by
  unfold Node.bumpDbv; split <;> rfl
@[simp] theorem bumpDbv_book (n : Node) (a v : Nat) : (n.bumpDbv a v).book = n.book := by
  unfold Node.bumpDbv; split <;> rfl
@[simp] theorem setBooked_db (n : Node) (a : Nat) (b : Booked) : (n.setBooked a b).db = n.db := by
  unfold Node.setBooked; split <;> rfl
@[simp] theorem setBooked_id (n : Node) (a : Nat) (b : Booked) : (n.setBooked a b).id = n.id := by
  unfold Node.setBooked; split <;> rfl

theorem booked_bumpDbv (n : Node) (a v x : Nat) : (n.bumpDbv a v).booked x = n.booked x := by
  unfold Node.booked; rw [bumpDbv_book]

theorem find_insertSortedBy {α : Type} (key : α → Nat) (p : α → Bool) (x : α) (hx : p x = true)
    (l : List α) (hl : ∀ y ∈ l, p y = false) : (insertSortedBy key x l).find? p = some x := by
  induction l with
  | nil => simp [insertSortedBy, hx]
  | cons y ys ih =>
    unfold insertSortedBy
    split
    · simp [hx]
    · have hy := hl y List.mem_cons_self
      simp only [List.find?_cons, hy]
      exact ih (fun z hz => hl z (List.mem_cons_of_mem _ hz))

theorem booked_setBooked_same (n : Node) (a : Nat) (b : Booked) : (n.setBooked a b).booked a = b := by
  unfold Node.setBooked Node.booked
  split
  · rename_i hany
    have hex : ∃ x ∈ n.book, x.1 = a := by simpa using hany
    have := find_replace_same (fun e : Nat × Booked => e.1 = a) (a, b) rfl n.book hex
    simp only [] at this ⊢
    rw [this]; rfl
  · rename_i hany
    have hno : ∀ y ∈ n.book, (decide (y.1 = a)) = false := by
      intro y hy
      simp only [decide_eq_false_iff_not]
      intro e
      apply hany
      simp only [List.any_eq_true, decide_eq_true_eq]
      exact ⟨y, hy, e⟩
    have := find_insertSortedBy (fun e : Nat × Booked => e.1) (fun e => decide (e.1 = a)) (a, b)
      (by simp) n.book hno
    simp only [] at this ⊢
    rw [this]; rfl

/-- `insert_db([max+1 ..= max+1])` on a gap-free own bookkeeping: still gap-free, head advanced by one
(`needed' = (needed ∪ [max+1, max+1]) \ {max+1}`) -/
theorem insertDb_succ (b : Booked) (hn : b.needed = []) :
    (b.insertDb [(b.max + 1, b.max + 1)]).needed = [] ∧
    (b.insertDb [(b.max + 1, b.max + 1)]).max = b.max + 1 := by
  unfold Booked.insertDb
  simp only [List.isEmpty_cons, Bool.false_eq_true, if_false, sup, List.foldl_cons, List.foldl_nil, hn]
  have h1 : Nat.max 0 (b.max + 1) = b.max + 1 := Nat.max_eq_right (Nat.zero_le _)
  have h2 : Nat.max b.max (b.max + 1) = b.max + 1 := Nat.max_eq_right (Nat.le_succ _)
  simp only [h1, h2, Nat.le_refl, if_true, RSet.insert, RSet.removeAll, List.foldl_cons,
    List.foldl_nil, RSet.remove]
  simp

end Corro.Node

namespace Corro.LocalTx
open Corro.Crdt Corro.Node
open Corro.Chunker (Incr Tiles Inside chunks Chunk chunks_contiguous chunks_partition_changes chunks_inside)

/-! ### the three outcomes of a request -/

/-- the request fails: no statement at all, an injected failing statement, or a statement the cell
store rejects in front of it (version `dbv + 1` is the one the transaction would produce) -/
def Failing (n : LNode) (req : Request) : Prop :=
  req = [] ∨ (split req).2.isSome = true ∨
    ∃ e, applyStmts n.node.db (n.node.db.dbv + 1) 0 (split req).1 = .error e

/-- the node after an acknowledged transaction: new store, own db-version row, own bookkeeping
`insert_db([ver ..= ver])` -/
def ackNode (nd : Node) (d : Db) (ver : Nat) : Node :=
  (({ nd with db := d } : Node).bumpDbv nd.id ver).setBooked nd.id
    ((({ nd with db := d } : Node).booked nd.id).insertDb [(ver, ver)])

inductive Outcome (cfg : Cfg) (n : LNode) (req : Request) : Prop where
  | failed (hf : Failing n req) (e : ErrKind) (h : submit cfg n req = (n, .err e))
  | noop (hf : ¬ Failing n req) (d : Db) (ht : localTx n.node.db (split req).1 = .ok (d, none))
      (h : submit cfg n req = (n, .noop))
  | acked (hf : ¬ Failing n req) (d : Db) (ver : Nat) (chs : List Chg)
      (ht : localTx n.node.db (split req).1 = .ok (d, some (ver, chs)))
      (h : submit cfg n req =
        ({ node := ackNode n.node d ver, outbox := n.outbox ++ [(ver, announce cfg ver chs)] },
          .ack ver chs (announce cfg ver chs)))

theorem submit_outcome (cfg : Cfg) (n : LNode) (req : Request) : Outcome cfg n req := by
  by_cases hemp : req = []
  · subst hemp
    exact .failed (Or.inl rfl) .empty (by simp [submit])
  have hne : req.isEmpty = false := by cases req <;> simp_all
  cases hk : (split req).2 with
  | some k =>
    cases ha : applyStmts n.node.db (n.node.db.dbv + 1) 0 (split req).1 with
    | error e =>
      exact .failed (Or.inr (Or.inl (by simp [hk]))) (ofWErr e) (by simp [submit, hne, hk, ha])
    | ok r =>
      exact .failed (Or.inr (Or.inl (by simp [hk]))) (.injected k) (by simp [submit, hne, hk, ha])
  | none =>
    cases ht : localTx n.node.db (split req).1 with
    | error e =>
      have ha := localTx_error.mp ht
      exact .failed (Or.inr (Or.inr ⟨e, ha⟩)) (ofWErr e)
        (by simp [submit, hne, hk, Node.localWrite, ht])
    | ok r =>
      obtain ⟨d, o⟩ := r
      have hnf : ¬ Failing n req := by
        rintro (h | h | ⟨e, he⟩)
        · exact hemp h
        · simp [hk] at h
        · have := localTx_error.mpr he; rw [ht] at this; cases this
      cases o with
      | none => exact .noop hnf d ht (by simp [submit, hne, hk, Node.localWrite, ht])
      | some vc =>
        obtain ⟨ver, chs⟩ := vc
        exact .acked hnf d ver chs ht (by simp [submit, hne, hk, Node.localWrite, ht, ackNode])

/-! ### invariant of a node that is written only through `submit` -/

structure Good (n : LNode) : Prop where
  site : n.node.db.site = n.node.id
  db : DbOk n.node.db
  needed : n.own.needed = []
  max : n.own.max = n.node.db.dbv

theorem good_fresh (i : Nat) : Good (LNode.fresh i) :=
  ⟨rfl, dbOk_empty i, rfl, rfl⟩

theorem ackNode_db (nd : Node) (d : Db) (ver : Nat) : (ackNode nd d ver).db = d := by
  simp [ackNode]
theorem ackNode_id (nd : Node) (d : Db) (ver : Nat) : (ackNode nd d ver).id = nd.id := by
  simp [ackNode]
theorem ackNode_own (nd : Node) (d : Db) (ver : Nat) :
    (ackNode nd d ver).booked nd.id = (nd.booked nd.id).insertDb [(ver, ver)] := by
  unfold ackNode
  rw [booked_setBooked_same]
  rfl

theorem good_ack {n : LNode} (hg : Good n) {stmts : List Stmt} {d : Db} {ver : Nat} {chs : List Chg}
    (ht : localTx n.node.db stmts = .ok (d, some (ver, chs))) (ob : List (Nat × List Msg)) :
    Good { node := ackNode n.node d ver, outbox := ob } := by
  have hs := localTx_some hg.db ht
  obtain ⟨hv, hdv, hsite, hok, _⟩ := hs
  have hown : (ackNode n.node d ver).booked n.node.id = (n.own).insertDb [(n.own.max + 1, n.own.max + 1)] := by
    rw [ackNode_own, hv, ← hg.max]; rfl
  have hi := insertDb_succ n.own hg.needed
  refine ⟨?_, ?_, ?_, ?_⟩
  · simp only [ackNode_db, ackNode_id]; rw [hsite]; exact hg.site
  · simp only [ackNode_db]; exact hok
  · show ((ackNode n.node d ver).booked (ackNode n.node d ver).id).needed = []
    rw [ackNode_id, hown]; exact hi.1
  · show ((ackNode n.node d ver).booked (ackNode n.node d ver).id).max = (ackNode n.node d ver).db.dbv
    rw [ackNode_id, hown, hi.2, ackNode_db, hdv, hv, hg.max]

theorem good_submit (cfg : Cfg) {n : LNode} (hg : Good n) (req : Request) :
    Good (submit cfg n req).1 := by
  cases submit_outcome cfg n req with
  | failed _ e h => rw [h]; exact hg
  | noop _ d _ h => rw [h]; exact hg
  | acked _ d ver chs ht h => rw [h]; exact good_ack hg ht _

theorem good_run (cfg : Cfg) {n : LNode} (hg : Good n) (reqs : List Request) :
    Good (run cfg n reqs).1 := by
  induction reqs generalizing n with
  | nil => exact hg
  | cons r rs ih => exact ih (good_submit cfg hg r)

/-! ### `announce` -/

theorem le_maxSeq {chs : List Chg} {c : Chg} (h : c ∈ chs) : c.seq ≤ maxSeq chs :=
  le_foldl_max' h 0

theorem incr_of_strict (cfg : Cfg) (last : Nat) :
    ∀ (chs : List Chg) (lb : Nat), chs.Pairwise (fun a b => a.seq < b.seq) →
      (∀ c ∈ chs, lb ≤ c.seq ∧ c.seq ≤ last) → Incr last lb (chs.map (toCk cfg)) := by
  intro chs
  induction chs with
  | nil => intro lb _ _; simp [Incr]
  | cons c cs ih =>
    intro lb hp hb
    rw [List.pairwise_cons] at hp
    simp only [List.map_cons, Incr]
    have hc := hb c List.mem_cons_self
    refine ⟨hc.1, hc.2, ih (c.seq + 1) hp.2 ?_⟩
    intro x hx
    have := hp.1 x hx
    have := hb x (List.mem_cons_of_mem _ hx)
    show c.seq + 1 ≤ x.seq ∧ x.seq ≤ last
    omega

theorem incr_announce (cfg : Cfg) {chs : List Chg} (hp : chs.Pairwise (fun a b => a.seq < b.seq)) :
    Incr (maxSeq chs) 0 (chs.map (toCk cfg)) :=
  incr_of_strict cfg (maxSeq chs) chs 0 hp (fun _ hc => ⟨Nat.zero_le _, le_maxSeq hc⟩)

/-- looking a change up by its sequence number finds it (sequence numbers are distinct) -/
theorem find_by_seq {chs : List Chg} (hp : chs.Pairwise (fun a b => a.seq < b.seq)) {c : Chg}
    (hc : c ∈ chs) : chs.find? (fun x => decide (x.seq = c.seq)) = some c :=
  find_of_mem_pairwise (fun x : Chg => x.seq) (hp.imp (fun h => Nat.ne_of_lt h)) hc

theorem filterMap_self {α β : Type} (f : β → Option α) (g : α → β) :
    ∀ (l : List α), (∀ x ∈ l, f (g x) = some x) → (l.map g).filterMap f = l := by
  intro l
  induction l with
  | nil => intro _; rfl
  | cons a l ih =>
    intro h
    simp only [List.map_cons]
    rw [List.filterMap_cons_some (h a List.mem_cons_self), ih (fun x hx => h x (List.mem_cons_of_mem _ hx))]

/-- the ranges of the announced messages, as chunks without payload (for `Chunker.Tiles`) -/
def Msg.range (m : Msg) : Chunk := ⟨[], m.lo, m.hi⟩

theorem tiles_range_congr : ∀ (cs : List Chunk) (f : Chunk → Chunk),
    (∀ c, (f c).lo = c.lo ∧ (f c).hi = c.hi) → ∀ s l, Tiles s l cs → Tiles s l (cs.map f) := by
  intro cs f hf
  induction cs with
  | nil => intro s l h; simp [Tiles] at h
  | cons c cs ih =>
    intro s l h
    cases cs with
    | nil =>
      simp only [Tiles, List.map_cons, List.map_nil] at h ⊢
      rw [(hf c).1, (hf c).2]; exact h
    | cons c2 r =>
      simp only [Tiles, List.map_cons] at h ⊢
      rw [(hf c).1, (hf c).2]
      exact ⟨h.1, h.2.1, h.2.2.1, by simpa using ih _ _ h.2.2.2⟩

theorem announce_ranges (cfg : Cfg) (ver : Nat) (chs : List Chg) :
    (announce cfg ver chs).map Msg.range =
      (chunks 0 (maxSeq chs) cfg.lim (chs.map (toCk cfg))).map (fun ck => ⟨[], ck.lo, ck.hi⟩) := by
  simp [announce, Msg.range, List.map_map, Function.comp_def]

/-- the message ranges tile `0 ..= last_seq` -/
theorem announce_tiles (cfg : Cfg) (ver : Nat) {chs : List Chg}
    (hp : chs.Pairwise (fun a b => a.seq < b.seq)) :
    Tiles 0 (maxSeq chs) ((announce cfg ver chs).map Msg.range) := by
  rw [announce_ranges]
  exact tiles_range_congr _ (fun ck => ⟨[], ck.lo, ck.hi⟩) (fun _ => ⟨rfl, rfl⟩) _ _
    (chunks_contiguous 0 (maxSeq chs) cfg.lim _ (Nat.zero_le _) (incr_announce cfg hp))

/-- concatenating the messages gives the version's change list back -/
theorem announce_flatten (cfg : Cfg) (ver : Nat) {chs : List Chg}
    (hp : chs.Pairwise (fun a b => a.seq < b.seq)) :
    ((announce cfg ver chs).map (·.changes)).flatten = chs := by
  have hpart := chunks_partition_changes 0 (maxSeq chs) cfg.lim _ (incr_announce cfg hp)
  have : (announce cfg ver chs).map (·.changes) =
      ((chunks 0 (maxSeq chs) cfg.lim (chs.map (toCk cfg))).map Chunk.changes).map
        (List.filterMap (fun k => chs.find? (fun c => c.seq = k.seq))) := by
    simp [announce, List.map_map, Function.comp_def]
  rw [this, ← List.filterMap_flatten, hpart]
  exact filterMap_self _ _ chs (fun x hx => find_by_seq hp hx)

theorem mem_announce {cfg : Cfg} {ver : Nat} {chs : List Chg} {m : Msg} (hm : m ∈ announce cfg ver chs) :
    m.ver = ver ∧ m.last = maxSeq chs ∧
    ∃ ck ∈ chunks 0 (maxSeq chs) cfg.lim (chs.map (toCk cfg)), m.lo = ck.lo ∧ m.hi = ck.hi ∧
      m.changes = ck.changes.filterMap (fun k => chs.find? (fun c => c.seq = k.seq)) := by
  unfold announce at hm
  obtain ⟨ck, hck, rfl⟩ := List.mem_map.mp hm
  exact ⟨rfl, rfl, ck, hck, rfl, rfl, rfl⟩

/-- every change of a message belongs to the version and lies inside the message's range -/
theorem announce_inside (cfg : Cfg) (ver : Nat) {chs : List Chg}
    (hp : chs.Pairwise (fun a b => a.seq < b.seq)) {m : Msg} (hm : m ∈ announce cfg ver chs) :
    ∀ c ∈ m.changes, c ∈ chs ∧ m.lo ≤ c.seq ∧ c.seq ≤ m.hi := by
  obtain ⟨_, _, ck, hck, hlo, hhi, hch⟩ := mem_announce hm
  have hin := chunks_inside 0 (maxSeq chs) cfg.lim _ (Nat.zero_le _) (incr_announce cfg hp) ck hck
  intro c hc
  rw [hch, List.mem_filterMap] at hc
  obtain ⟨k, hk, hf⟩ := hc
  have h1 := List.find?_some hf
  have h2 := List.mem_of_find?_eq_some hf
  simp only [decide_eq_true_eq] at h1
  have := hin k hk
  rw [hlo, hhi, h1]
  exact ⟨h2, this⟩

end Corro.LocalTx
