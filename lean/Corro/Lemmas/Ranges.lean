/-
Lemmas about the interval-set model (`Corro.RSet`): canonical form is preserved and every
operation has the expected point-set meaning.
-/
import Corro.Model.Ranges

namespace Corro.RSet

/-- point membership -/
def Mem (s : RSet) (x : Nat) : Prop := ∃ p ∈ s, p.1 ≤ x ∧ x ≤ p.2

/-- canonical form relative to a lower bound: every interval is forward, starts at `lb` or later,
and is separated from the next by at least one missing point. -/
def WFfrom : Nat → RSet → Prop
  | _, [] => True
  | lb, (a, b) :: t => lb ≤ a ∧ a ≤ b ∧ WFfrom (b + 2) t

/-- canonical form: sorted, forward, non-overlapping, non-adjacent. -/
def WF (s : RSet) : Prop := WFfrom 0 s

theorem WFfrom_mono {lb lb' : Nat} {s : RSet} (h : WFfrom lb s) (hle : lb' ≤ lb) : WFfrom lb' s := by
  cases s with
  | nil => trivial
  | cons p t => obtain ⟨a, b⟩ := p; simp only [WFfrom] at *; exact ⟨by omega, h.2.1, h.2.2⟩

theorem mem_nil (x : Nat) : ¬ Mem [] x := by simp [Mem]

theorem mem_cons {p : Nat × Nat} {t : RSet} {x : Nat} :
    Mem (p :: t) x ↔ (p.1 ≤ x ∧ x ≤ p.2) ∨ Mem t x := by
  simp [Mem]

@[simp] theorem mem_singleton {p : Nat × Nat} {x : Nat} : Mem [p] x ↔ (p.1 ≤ x ∧ x ≤ p.2) := by
  simp [Mem]

theorem WFfrom_mem_ge {lb : Nat} {s : RSet} (h : WFfrom lb s) {x : Nat} (hx : Mem s x) : lb ≤ x := by
  induction s generalizing lb with
  | nil => exact absurd hx (mem_nil x)
  | cons p t ih =>
    obtain ⟨a, b⟩ := p
    simp only [WFfrom] at h
    rcases mem_cons.mp hx with h1 | h1
    · simp at h1; omega
    · have := ih h.2.2 h1; omega

theorem contains_iff (s : RSet) (x : Nat) : contains s x = true ↔ Mem s x := by
  simp [contains, Mem]

/-! ### insert -/

theorem mem_insert (s : RSet) (lo hi x : Nat) (h : lo ≤ hi) :
    Mem (insert s (lo, hi)) x ↔ Mem s x ∨ (lo ≤ x ∧ x ≤ hi) := by
  induction s generalizing lo hi with
  | nil => simp [insert, Mem]
  | cons p t ih =>
    obtain ⟨a, b⟩ := p
    unfold insert
    split
    · simp only [mem_cons]; grind
    · split
      · simp only [mem_cons, ih lo hi h]; grind
      · rw [ih _ _ (by omega)]; simp only [mem_cons]
        grind

theorem insert_wfFrom (s : RSet) (lo hi lb : Nat) (h : lo ≤ hi) (hw : WFfrom lb s) (hlb : lb ≤ lo) :
    WFfrom lb (insert s (lo, hi)) := by
  induction s generalizing lo hi lb with
  | nil => simp [insert, WFfrom]; omega
  | cons p t ih =>
    obtain ⟨a, b⟩ := p
    simp only [WFfrom] at hw
    unfold insert
    split
    · simp only [WFfrom]; refine ⟨hlb, h, ?_, hw.2.1, hw.2.2⟩; omega
    · split
      · simp only [WFfrom]
        exact ⟨hw.1, hw.2.1, ih lo hi (b + 2) h hw.2.2 (by omega)⟩
      · exact ih _ _ lb (by omega) (WFfrom_mono hw.2.2 (by omega)) (by omega)

theorem insert_wf (s : RSet) (lo hi : Nat) (h : lo ≤ hi) (hw : WF s) : WF (insert s (lo, hi)) :=
  insert_wfFrom s lo hi 0 h hw (Nat.zero_le _)

/-! ### remove -/

theorem mem_remove (s : RSet) (lo hi x lb : Nat) (hw : WFfrom lb s) :
    Mem (remove s (lo, hi)) x ↔ Mem s x ∧ ¬ (lo ≤ x ∧ x ≤ hi) := by
  induction s generalizing lb with
  | nil => simp [remove, Mem]
  | cons p t ih =>
    obtain ⟨a, b⟩ := p
    simp only [WFfrom] at hw
    have hge : ∀ y, Mem t y → b + 2 ≤ y := fun y hy => WFfrom_mem_ge hw.2.2 hy
    unfold remove
    split
    · simp only [mem_cons, ih (b + 2) hw.2.2]; grind
    · split
      · simp only [mem_cons]; grind
      · have ih' := ih (b + 2) hw.2.2
        by_cases h1 : a < lo <;> by_cases h2 : hi < b <;> simp only [h1, h2, if_true, if_false,
          List.nil_append, List.cons_append, mem_cons, ih'] <;> grind

theorem remove_wfFrom (s : RSet) (lo hi lb : Nat) (hlh : lo ≤ hi) (hw : WFfrom lb s) :
    WFfrom lb (remove s (lo, hi)) := by
  induction s generalizing lb with
  | nil => simp [remove, WFfrom]
  | cons p t ih =>
    obtain ⟨a, b⟩ := p
    simp only [WFfrom] at hw
    unfold remove
    split
    · simp only [WFfrom]; exact ⟨hw.1, hw.2.1, ih (b + 2) hw.2.2⟩
    · split
      · simp only [WFfrom]; exact hw
      · have ih' := ih (b + 2) hw.2.2
        by_cases h1 : a < lo <;> by_cases h2 : hi < b <;> simp only [h1, h2, if_true, if_false,
          List.nil_append, List.cons_append, List.singleton_append, WFfrom]
        · exact ⟨hw.1, by omega, by omega, by omega, hw.2.2⟩
        · exact ⟨hw.1, by omega, WFfrom_mono ih' (by omega)⟩
        · exact ⟨by omega, by omega, hw.2.2⟩
        · exact WFfrom_mono ih' (by omega)

theorem remove_wf (s : RSet) (lo hi : Nat) (hlh : lo ≤ hi) (hw : WF s) : WF (remove s (lo, hi)) :=
  remove_wfFrom s lo hi 0 hlh hw

/-! ### gaps -/

theorem mem_gaps (s : RSet) (lo hi x lb : Nat) (hw : WFfrom lb s) :
    Mem (gaps s (lo, hi)) x ↔ (lo ≤ x ∧ x ≤ hi) ∧ ¬ Mem s x := by
  induction s generalizing lb lo with
  | nil =>
    unfold gaps
    split
    · simp only [mem_singleton, mem_nil x, not_false_eq_true, and_true]
    · have := mem_nil x; constructor
      · intro h; exact absurd h this
      · intro h; omega
  | cons p t ih =>
    obtain ⟨a, b⟩ := p
    simp only [WFfrom] at hw
    have hge : ∀ y, Mem t y → b + 2 ≤ y := fun y hy => WFfrom_mem_ge hw.2.2 hy
    have hnil := mem_nil x
    unfold gaps
    split
    · constructor
      · intro h; exact absurd h hnil
      · intro h; omega
    · split
      · simp only [mem_cons, ih lo (b + 2) hw.2.2]; grind
      · split
        · simp only [mem_cons, mem_singleton]; grind
        · have ih' := ih (b + 1) (b + 2) hw.2.2
          by_cases h1 : lo < a <;> by_cases h2 : b < hi <;> simp only [h1, h2, if_true, if_false,
            List.nil_append, List.cons_append, List.append_nil, mem_cons, ih'] <;> grind

theorem gaps_wfFrom (s : RSet) (lo hi lb : Nat) (hw : WFfrom lb s) :
    WFfrom lo (gaps s (lo, hi)) := by
  induction s generalizing lb lo with
  | nil => unfold gaps; split <;> simp [WFfrom]; omega
  | cons p t ih =>
    obtain ⟨a, b⟩ := p
    simp only [WFfrom] at hw
    unfold gaps
    split
    · simp [WFfrom]
    · split
      · exact ih lo (b + 2) hw.2.2
      · split
        · simp [WFfrom]; omega
        · have ih' := ih (b + 1) (b + 2) hw.2.2
          by_cases h1 : lo < a <;> by_cases h2 : b < hi <;> simp only [h1, h2, if_true, if_false,
            List.nil_append, List.cons_append, List.singleton_append, List.append_nil, WFfrom]
          · exact ⟨Nat.le_refl _, by omega, WFfrom_mono ih' (by omega)⟩
          · exact ⟨Nat.le_refl _, by omega, trivial⟩
          · exact WFfrom_mono ih' (by omega)

/-- every gap lies inside the outer range -/
theorem gaps_inside (s : RSet) (lo hi lb : Nat) (hw : WFfrom lb s) :
    ∀ p ∈ gaps s (lo, hi), lo ≤ p.1 ∧ p.1 ≤ p.2 ∧ p.2 ≤ hi := by
  induction s generalizing lb lo with
  | nil => unfold gaps; split <;> simp; omega
  | cons q t ih =>
    obtain ⟨a, b⟩ := q
    simp only [WFfrom] at hw
    unfold gaps
    split
    · simp
    · split
      · exact ih lo (b + 2) hw.2.2
      · split
        · simp; omega
        · have ih' := ih (b + 1) (b + 2) hw.2.2
          intro p hp
          by_cases h1 : lo < a <;> by_cases h2 : b < hi <;> simp only [h1, h2, if_true, if_false,
            List.nil_append, List.cons_append, List.append_nil, List.mem_cons,
            List.not_mem_nil, or_false] at hp
          · rcases hp with rfl | hp
            · simp; omega
            · have := ih' p hp; omega
          · subst hp; simp; omega
          · have := ih' p hp; omega

/-! ### canonical forms are unique -/

theorem wf_ext : ∀ (s t : RSet) (lb : Nat), WFfrom lb s → WFfrom lb t →
    (∀ x, Mem s x ↔ Mem t x) → s = t := by
  intro s
  induction s with
  | nil =>
    intro t lb _ ht h
    cases t with
    | nil => rfl
    | cons q t' =>
      obtain ⟨c, d⟩ := q
      simp only [WFfrom] at ht
      exact absurd ((h c).mpr (mem_cons.mpr (Or.inl ⟨Nat.le_refl _, ht.2.1⟩))) (mem_nil c)
  | cons p s' ih =>
    intro t lb hs ht h
    obtain ⟨a, b⟩ := p
    simp only [WFfrom] at hs
    cases t with
    | nil => exact absurd ((h a).mp (mem_cons.mpr (Or.inl ⟨Nat.le_refl _, hs.2.1⟩))) (mem_nil a)
    | cons q t' =>
      obtain ⟨c, d⟩ := q
      simp only [WFfrom] at ht
      have hs' : ∀ y, Mem s' y → b + 2 ≤ y := fun y hy => WFfrom_mem_ge hs.2.2 hy
      have ht' : ∀ y, Mem t' y → d + 2 ≤ y := fun y hy => WFfrom_mem_ge ht.2.2 hy
      have hac : a = c := by
        have h1 := (h a).mp (mem_cons.mpr (Or.inl ⟨Nat.le_refl _, hs.2.1⟩))
        have h2 := (h c).mpr (mem_cons.mpr (Or.inl ⟨Nat.le_refl _, ht.2.1⟩))
        rcases mem_cons.mp h1 with h1 | h1 <;> rcases mem_cons.mp h2 with h2 | h2
        · simp at h1 h2; omega
        · have := hs' c h2; simp at h1; omega
        · have := ht' a h1; simp at h2; omega
        · have := hs' c h2; have := ht' a h1; omega
      subst hac
      have hbd : b = d := by
        -- b+1 is in neither; compare ends
        by_cases hlt : b < d
        · have h1 := (h (b + 1)).mpr (mem_cons.mpr (Or.inl ⟨by simp; omega, by simp; omega⟩))
          rcases mem_cons.mp h1 with h1 | h1
          · simp at h1; omega
          · have := hs' _ h1; omega
        · by_cases hgt : d < b
          · have h1 := (h (d + 1)).mp (mem_cons.mpr (Or.inl ⟨by simp; omega, by simp; omega⟩))
            rcases mem_cons.mp h1 with h1 | h1
            · simp at h1; omega
            · have := ht' _ h1; omega
          · omega
      subst hbd
      have : s' = t' := ih t' (b + 2) hs.2.2 ht.2.2 (by
        intro x
        constructor
        · intro hx
          have hx2 := hs' x hx
          rcases mem_cons.mp ((h x).mp (mem_cons.mpr (Or.inr hx))) with h1 | h1
          · simp at h1; omega
          · exact h1
        · intro hx
          have hx2 := ht' x hx
          rcases mem_cons.mp ((h x).mpr (mem_cons.mpr (Or.inr hx))) with h1 | h1
          · simp at h1; omega
          · exact h1)
      rw [this]

theorem wf_unique (s t : RSet) (hs : WF s) (ht : WF t) (h : ∀ x, Mem s x ↔ Mem t x) : s = t :=
  wf_ext s t 0 hs ht h

/-! ### overlapping, folds -/

theorem mem_overlapping (s : RSet) (r p : Nat × Nat) :
    p ∈ overlapping s r ↔ p ∈ s ∧ p.1 ≤ r.2 ∧ r.1 ≤ p.2 := by
  simp [overlapping]

theorem insertAll_wf (s : RSet) (rs : List (Nat × Nat)) (hs : WF s) (hr : ∀ r ∈ rs, r.1 ≤ r.2) :
    WF (insertAll s rs) := by
  induction rs generalizing s with
  | nil => exact hs
  | cons r rs ih =>
    simp only [insertAll, List.foldl_cons]
    exact ih _ (insert_wf s r.1 r.2 (hr r (by simp)) hs) (fun r' h' => hr r' (by simp [h']))

theorem mem_insertAll (s : RSet) (rs : List (Nat × Nat)) (hr : ∀ r ∈ rs, r.1 ≤ r.2) (x : Nat) :
    Mem (insertAll s rs) x ↔ Mem s x ∨ ∃ r ∈ rs, r.1 ≤ x ∧ x ≤ r.2 := by
  induction rs generalizing s with
  | nil => simp [insertAll]
  | cons r rs ih =>
    simp only [insertAll, List.foldl_cons]
    have := ih (insert s r) (fun r' h' => hr r' (by simp [h']))
    simp only [insertAll] at this
    rw [this, show insert s r = insert s (r.1, r.2) from rfl, mem_insert s r.1 r.2 x (hr r (by simp))]
    simp only [List.mem_cons, exists_eq_or_imp]
    grind

theorem removeAll_wf (s : RSet) (rs : List (Nat × Nat)) (hs : WF s) (hr : ∀ r ∈ rs, r.1 ≤ r.2) :
    WF (removeAll s rs) := by
  induction rs generalizing s with
  | nil => exact hs
  | cons r rs ih =>
    simp only [removeAll, List.foldl_cons]
    exact ih _ (remove_wf s r.1 r.2 (hr r (by simp)) hs) (fun r' h' => hr r' (by simp [h']))

theorem mem_removeAll (s : RSet) (rs : List (Nat × Nat)) (hs : WF s) (hr : ∀ r ∈ rs, r.1 ≤ r.2)
    (x : Nat) :
    Mem (removeAll s rs) x ↔ Mem s x ∧ ¬ ∃ r ∈ rs, r.1 ≤ x ∧ x ≤ r.2 := by
  induction rs generalizing s with
  | nil => simp [removeAll]
  | cons r rs ih =>
    simp only [removeAll, List.foldl_cons]
    have := ih (remove s r) (remove_wf s r.1 r.2 (hr r (by simp)) hs) (fun r' h' => hr r' (by simp [h']))
    simp only [removeAll] at this
    rw [this, show remove s r = remove s (r.1, r.2) from rfl, mem_remove s r.1 r.2 x 0 hs]
    simp only [List.mem_cons, exists_eq_or_imp]
    grind

end Corro.RSet
