/-
Lookup algebra for the association lists of the cell store model (`Db.setRow`, `Row.setCell`),
the `NoDup` invariant, and `merge` expressed as a step on the one row it touches.
-/
import Corro.Lemmas.CrdtOrder
namespace Corro.Crdt

section Upsert
variable {α : Type} (k q : α → Prop) [DecidablePred k] [DecidablePred q]

/-- the association-list update used by `Db.setRow` and `Row.setCell` -/
def upsert (r : α) (l : List α) : List α :=
  if l.any (fun x => decide (k x)) then l.map (fun x => if k x then r else x) else l ++ [r]

theorem find_replace_same (r : α) (hr : k r) (l : List α) (h : ∃ x ∈ l, k x) :
    (l.map (fun x => if k x then r else x)).find? (fun x => decide (k x)) = some r := by
  induction l with
  | nil => simp at h
  | cons a l ih =>
    by_cases ha : k a
    · simp [ha, hr]
    · have h' : ∃ x ∈ l, k x := by
        obtain ⟨x, hx, hk⟩ := h
        rcases List.mem_cons.mp hx with rfl | hx
        · exact absurd hk ha
        · exact ⟨x, hx, hk⟩
      simp only [List.map_cons, ha, if_false, List.find?_cons, decide_false]
      exact ih h'

theorem find_replace_other (r : α) (hr : ¬ q r) (hd : ∀ x, k x → ¬ q x) (l : List α) :
    (l.map (fun x => if k x then r else x)).find? (fun x => decide (q x)) =
      l.find? (fun x => decide (q x)) := by
  induction l with
  | nil => rfl
  | cons a l ih =>
    by_cases ha : k a
    · have := hd a ha
      simp only [List.map_cons, ha, if_true, List.find?_cons, hr, this, decide_false, ih]
    · by_cases hq : q a
      · simp only [List.map_cons, ha, if_false, List.find?_cons, hq, decide_true]
      · simp only [List.map_cons, ha, if_false, List.find?_cons, hq, decide_false, ih]

theorem find_upsert_same (r : α) (hr : k r) (l : List α) :
    (upsert k r l).find? (fun x => decide (k x)) = some r := by
  unfold upsert
  split
  · rename_i h
    exact find_replace_same k r hr l (by simpa using h)
  · rename_i h
    simp only [List.any_eq_true, decide_eq_true_eq, not_exists, not_and] at h
    rw [List.find?_append]
    have : l.find? (fun x => decide (k x)) = none := by
      simp only [List.find?_eq_none, decide_eq_true_eq]; exact h
    simp [this, hr]

theorem find_upsert_other (r : α) (hr : ¬ q r) (hd : ∀ x, k x → ¬ q x) (l : List α) :
    (upsert k r l).find? (fun x => decide (q x)) = l.find? (fun x => decide (q x)) := by
  unfold upsert
  split
  · exact find_replace_other k q r hr hd l
  · rw [List.find?_append]
    simp only [List.find?_cons, hr, decide_false, List.find?_nil]
    cases l.find? (fun x => decide (q x)) <;> rfl

end Upsert

theorem Db.setRow_rows (db : Db) (r : Row) :
    (db.setRow r).rows = upsert (fun x : Row => x.tbl = r.tbl ∧ x.pk = r.pk) r db.rows := by
  unfold Db.setRow upsert
  split <;> rfl

theorem Row.setCell_cells (r : Row) (c : Cell) :
    (r.setCell c).cells = upsert (fun x : Cell => x.cid = c.cid) c r.cells := by
  unfold Row.setCell upsert
  split <;> rfl

theorem findRow_setRow_same (db : Db) (r : Row) : (db.setRow r).findRow r.tbl r.pk = some r := by
  unfold Db.findRow
  rw [Db.setRow_rows]
  exact find_upsert_same (fun x : Row => x.tbl = r.tbl ∧ x.pk = r.pk) r ⟨rfl, rfl⟩ db.rows

theorem findRow_setRow_other (db : Db) (r : Row) (t p : String) (h : ¬ (r.tbl = t ∧ r.pk = p)) :
    (db.setRow r).findRow t p = db.findRow t p := by
  unfold Db.findRow
  rw [Db.setRow_rows]
  exact find_upsert_other (fun x : Row => x.tbl = r.tbl ∧ x.pk = r.pk)
    (fun x : Row => x.tbl = t ∧ x.pk = p) r h
    (by intro x ⟨h1, h2⟩ ⟨h3, h4⟩; exact h ⟨h1 ▸ h3, h2 ▸ h4⟩) db.rows

theorem findRow_some {db : Db} {t p : String} {r : Row} (h : db.findRow t p = some r) :
    r.tbl = t ∧ r.pk = p ∧ r ∈ db.rows := by
  unfold Db.findRow at h
  have h1 := List.find?_some h
  have h2 := List.mem_of_find?_eq_some h
  simp only [decide_eq_true_eq] at h1
  exact ⟨h1.1, h1.2, h2⟩

theorem findCell_setCell_same (r : Row) (c : Cell) : (r.setCell c).findCell c.cid = some c := by
  unfold Row.findCell
  rw [Row.setCell_cells]
  exact find_upsert_same (fun x : Cell => x.cid = c.cid) c rfl r.cells

theorem findCell_setCell_other (r : Row) (c : Cell) (x : String) (h : c.cid ≠ x) :
    (r.setCell c).findCell x = r.findCell x := by
  unfold Row.findCell
  rw [Row.setCell_cells]
  exact find_upsert_other (fun y : Cell => y.cid = c.cid) (fun y : Cell => y.cid = x) c h
    (by intro y h1 h2; exact h (h1 ▸ h2)) r.cells

theorem findCell_some {r : Row} {x : String} {l : Cell} (h : r.findCell x = some l) :
    l.cid = x ∧ l ∈ r.cells := by
  unfold Row.findCell at h
  have h1 := List.find?_some h
  have h2 := List.mem_of_find?_eq_some h
  simp only [decide_eq_true_eq] at h1
  exact ⟨h1, h2⟩

@[simp] theorem setCell_tbl (r : Row) (c : Cell) : (r.setCell c).tbl = r.tbl := by
  unfold Row.setCell; split <;> rfl
@[simp] theorem setCell_pk (r : Row) (c : Cell) : (r.setCell c).pk = r.pk := by
  unfold Row.setCell; split <;> rfl
@[simp] theorem setCell_cl (r : Row) (c : Cell) : (r.setCell c).cl = r.cl := by
  unfold Row.setCell; split <;> rfl
@[simp] theorem setRow_site (db : Db) (r : Row) : (db.setRow r).site = db.site := by
  unfold Db.setRow; split <;> rfl
@[simp] theorem setRow_dbv (db : Db) (r : Row) : (db.setRow r).dbv = db.dbv := by
  unfold Db.setRow; split <;> rfl

/-- zeroing the column versions (what `resurrect` does to kept cells) -/
def Cell.zero (x : Cell) : Cell := { x with clk := { x.clk with colv := 0 } }

theorem find_map_zero (cells : List Cell) (x : String) :
    (cells.map Cell.zero).find? (fun y => decide (y.cid = x)) =
      (cells.find? (fun y => decide (y.cid = x))).map Cell.zero := by
  induction cells with
  | nil => rfl
  | cons a l ih =>
    by_cases h : a.cid = x
    · simp [Cell.zero, h]
    · simp only [List.map_cons, List.find?_cons]
      have : (Cell.zero a).cid = a.cid := rfl
      simp only [this, h, decide_false, ih]

/-! ### `merge` as a step on one row -/

/-- causal length of a looked-up row (0 = never seen) -/
def lclOf : Option Row → Nat
  | some r => r.cl
  | none => 0

/-- the cell a column change writes -/
def Chg.cell (c : Chg) : Cell := ⟨c.cid, c.val, c.clock⟩

/-- the row `merge` writes, or `none` when it leaves the database unchanged -/
def mergeRow (old : Option Row) (c : Chg) : Option Row :=
  let lcl := lclOf old
  if c.cl < lcl then none
  else if c.cl % 2 = 0 then
    if c.cl = lcl then none
    else some { tbl := c.tbl, pk := c.pk, cl := c.cl, sent := some ⟨c.cl, c.site, c.dbv, c.seq⟩, cells := [] }
  else if c.cid = sentinel then
    if c.cl = lcl then none else some (resurrect old c)
  else if c.cl > lcl then
    let base : Row :=
      if lcl = 0 ∧ c.cl = 1 then { tbl := c.tbl, pk := c.pk, cl := 1, sent := none, cells := [] }
      else resurrect old c
    some (base.setCell c.cell)
  else
    match old with
    | none => none
    | some r =>
      match r.findCell c.cid with
      | none => some (r.setCell c.cell)
      | some l => if wins c l then some (r.setCell c.cell) else none

/-- write back the result of `mergeRow` -/
def Db.applyRow (db : Db) : Option Row → Db
  | none => db
  | some r => db.setRow r

@[simp] theorem applyRow_none (db : Db) : db.applyRow none = db := rfl
@[simp] theorem applyRow_some (db : Db) (r : Row) : db.applyRow (some r) = db.setRow r := rfl

theorem merge_eq (db : Db) (c : Chg) :
    merge db c = db.applyRow (mergeRow (db.findRow c.tbl c.pk) c) := by
  unfold merge mergeRow Chg.cell
  generalize db.findRow c.tbl c.pk = o
  cases o with
  | none =>
    simp only [lclOf]
    by_cases h2 : c.cl % 2 = 0 <;> by_cases h3 : c.cl = 0 <;> by_cases h4 : c.cid = sentinel <;>
      by_cases h5 : c.cl > 0 <;> by_cases h6 : c.cl = 1 <;>
      first | (exfalso; omega) | simp [h2, h3, h4, h5, h6]
  | some r =>
    simp only [lclOf]
    have hw : ∀ (b : Bool) (x : Row), db.applyRow (if b = true then some x else none) =
        if b = true then db.setRow x else db := by
      intro b x; cases b <;> rfl
    cases r.findCell c.cid <;>
    by_cases h1 : c.cl < r.cl <;>
    by_cases h2 : c.cl % 2 = 0 <;> by_cases h3 : r.cl = c.cl <;> by_cases h4 : c.cid = sentinel <;>
      by_cases h5 : c.cl > r.cl <;> by_cases h6 : (r.cl = 0 ∧ c.cl = 1) <;>
      first | (exfalso; omega) | simp [h1, h2, h3, h4, h5, h6, hw, eq_comm (a := c.cl) (b := r.cl)]

@[simp] theorem resurrect_tbl (o : Option Row) (c : Chg) : (resurrect o c).tbl = c.tbl := rfl
@[simp] theorem resurrect_pk (o : Option Row) (c : Chg) : (resurrect o c).pk = c.pk := rfl
@[simp] theorem resurrect_cl (o : Option Row) (c : Chg) : (resurrect o c).cl = c.cl := rfl
theorem resurrect_cells (o : Option Row) (c : Chg) : (resurrect o c).cells =
    match o with
    | some r => if r.cl % 2 = 1 then r.cells.map Cell.zero else []
    | none => [] := rfl

/-- Case analysis of `mergeRow` along the decision tree of `merge`, one hypothesis per leaf. -/
theorem mergeRow_elim {Q : Option Row → Prop} (o : Option Row) (c : Chg)
    (hLow : c.cl < lclOf o → Q none)
    (hEvenEq : c.cl % 2 = 0 → c.cl = lclOf o → Q none)
    (hEvenGt : c.cl % 2 = 0 → lclOf o < c.cl →
      Q (some { tbl := c.tbl, pk := c.pk, cl := c.cl, sent := some ⟨c.cl, c.site, c.dbv, c.seq⟩, cells := [] }))
    (hSentEq : c.cl % 2 = 1 → c.cid = sentinel → c.cl = lclOf o → Q none)
    (hSentGt : c.cl % 2 = 1 → c.cid = sentinel → lclOf o < c.cl → Q (some (resurrect o c)))
    (hColGt : c.cl % 2 = 1 → c.cid ≠ sentinel → lclOf o < c.cl →
      ∀ base : Row, base.tbl = c.tbl → base.pk = c.pk → base.cl = c.cl →
        base.cells = (resurrect o c).cells → Q (some (base.setCell c.cell)))
    (hColNew : c.cl % 2 = 1 → c.cid ≠ sentinel → ∀ r, o = some r → r.cl = c.cl →
      r.findCell c.cid = none → Q (some (r.setCell c.cell)))
    (hColWin : c.cl % 2 = 1 → c.cid ≠ sentinel → ∀ r l, o = some r → r.cl = c.cl →
      r.findCell c.cid = some l → wins c l = true → Q (some (r.setCell c.cell)))
    (hColLose : c.cl % 2 = 1 → c.cid ≠ sentinel → ∀ r l, o = some r → r.cl = c.cl →
      r.findCell c.cid = some l → wins c l = false → Q none) :
    Q (mergeRow o c) := by
  unfold mergeRow
  simp only []
  by_cases h1 : c.cl < lclOf o
  · rw [if_pos h1]; exact hLow h1
  rw [if_neg h1]
  by_cases h2 : c.cl % 2 = 0
  · rw [if_pos h2]
    by_cases h3 : c.cl = lclOf o
    · rw [if_pos h3]; exact hEvenEq h2 h3
    · rw [if_neg h3]; exact hEvenGt h2 (by omega)
  rw [if_neg h2]
  have hodd : c.cl % 2 = 1 := by omega
  by_cases h4 : c.cid = sentinel
  · rw [if_pos h4]
    by_cases h3 : c.cl = lclOf o
    · rw [if_pos h3]; exact hSentEq hodd h4 h3
    · rw [if_neg h3]; exact hSentGt hodd h4 (by omega)
  rw [if_neg h4]
  by_cases h5 : c.cl > lclOf o
  · rw [if_pos h5]
    refine hColGt hodd h4 h5 _ ?_ ?_ ?_ ?_
    · split <;> rfl
    · split <;> rfl
    · split
      · rename_i h; exact h.2.symm
      · rfl
    · split
      · rename_i h
        rw [resurrect_cells]
        cases o with
        | none => rfl
        | some r =>
          have : r.cl = 0 := h.1
          simp [this]
      · rfl
  rw [if_neg h5]
  cases o with
  | none => simp only [lclOf] at h1 h5; omega
  | some r =>
    simp only [lclOf] at h1 h5
    have hcl : r.cl = c.cl := by omega
    simp only []
    cases hf : r.findCell c.cid with
    | none => exact hColNew hodd h4 r rfl hcl hf
    | some l =>
      simp only []
      cases hw : wins c l with
      | true => simp only [if_true]; exact hColWin hodd h4 r l rfl hcl hf hw
      | false => simp only [Bool.false_eq_true, if_false]; exact hColLose hodd h4 r l rfl hcl hf hw

/-- every row `mergeRow` writes carries the key of the change -/
theorem mergeRow_key {o : Option Row} {c : Chg} {r' : Row}
    (ho : ∀ r, o = some r → r.tbl = c.tbl ∧ r.pk = c.pk) (h : mergeRow o c = some r') :
    r'.tbl = c.tbl ∧ r'.pk = c.pk := by
  revert h
  refine mergeRow_elim (Q := fun x => x = some r' → r'.tbl = c.tbl ∧ r'.pk = c.pk) o c
    ?_ ?_ ?_ ?_ ?_ ?_ ?_ ?_ ?_
  · intro _ h; cases h
  · intro _ _ h; cases h
  · intro _ _ h; cases h; exact ⟨rfl, rfl⟩
  · intro _ _ _ h; cases h
  · intro _ _ _ h; cases h; exact ⟨rfl, rfl⟩
  · intro _ _ _ base h1 h2 _ _ h; cases h; simp [h1, h2]
  · intro _ _ r hr _ _ h; cases h; simpa using ho r hr
  · intro _ _ r l hr _ _ _ h; cases h; simpa using ho r hr
  · intro _ _ r l hr _ _ _ h; cases h

/-- the lookup of the touched row after a merge -/
def rowStep (o : Option Row) (c : Chg) : Option Row :=
  match mergeRow o c with
  | some r => some r
  | none => o

theorem findRow_merge_same (db : Db) (c : Chg) :
    (merge db c).findRow c.tbl c.pk = rowStep (db.findRow c.tbl c.pk) c := by
  rw [merge_eq]
  unfold rowStep
  cases h : mergeRow (db.findRow c.tbl c.pk) c with
  | none => rfl
  | some r' =>
    have hk := mergeRow_key (fun r hr => let ⟨a, b, _⟩ := findRow_some hr; ⟨a, b⟩) h
    simp only [Db.applyRow]
    rw [← hk.1, ← hk.2]
    exact findRow_setRow_same db r'

theorem findRow_merge_other (db : Db) (c : Chg) (t p : String) (hne : ¬ (c.tbl = t ∧ c.pk = p)) :
    (merge db c).findRow t p = db.findRow t p := by
  rw [merge_eq]
  cases h : mergeRow (db.findRow c.tbl c.pk) c with
  | none => rfl
  | some r' =>
    have hk := mergeRow_key (fun r hr => let ⟨a, b, _⟩ := findRow_some hr; ⟨a, b⟩) h
    simp only [Db.applyRow]
    exact findRow_setRow_other db r' t p (by rw [hk.1, hk.2]; exact hne)

@[simp] theorem merge_site (db : Db) (c : Chg) : (merge db c).site = db.site := by
  rw [merge_eq]; cases mergeRow (db.findRow c.tbl c.pk) c <;> simp [Db.applyRow]

/-! ### keys are unique -/

section UpsertNoDup
variable {α κ : Type} (key : α → κ) (k : α → Prop) [DecidablePred k]

theorem mem_upsert {r x : α} {l : List α} (h : x ∈ upsert k r l) : x = r ∨ x ∈ l := by
  unfold upsert at h
  split at h
  · obtain ⟨y, hy, rfl⟩ := List.mem_map.mp h
    by_cases hk : k y
    · simp [hk]
    · simp [hk, hy]
  · rcases List.mem_append.mp h with h | h
    · exact Or.inr h
    · simp at h; exact Or.inl h

theorem pairwise_upsert (r : α) (hk : ∀ x, k x ↔ key x = key r) {l : List α}
    (h : l.Pairwise (fun a b => key a ≠ key b)) :
    (upsert k r l).Pairwise (fun a b => key a ≠ key b) := by
  unfold upsert
  split
  · rw [List.pairwise_map]
    refine h.imp ?_
    intro a b hab
    have ha : key (if k a then r else a) = key a := by
      by_cases h1 : k a
      · simp [h1, (hk a).mp h1]
      · simp [h1]
    have hb : key (if k b then r else b) = key b := by
      by_cases h1 : k b
      · simp [h1, (hk b).mp h1]
      · simp [h1]
    rw [ha, hb]; exact hab
  · rename_i hany
    simp only [List.any_eq_true, decide_eq_true_eq, not_exists, not_and] at hany
    rw [List.pairwise_append]
    refine ⟨h, List.pairwise_singleton _ _, ?_⟩
    intro a ha b hb
    simp at hb; subst hb
    exact fun e => hany a ha ((hk a).mpr e)

/-- with unique keys, every element is what the lookup of its key returns -/
theorem find_of_mem_pairwise [DecidableEq κ] {l : List α}
    (h : l.Pairwise (fun a b => key a ≠ key b)) {x : α} (hx : x ∈ l) :
    l.find? (fun y => decide (key y = key x)) = some x := by
  induction l with
  | nil => cases hx
  | cons a l ih =>
    rw [List.pairwise_cons] at h
    rcases List.mem_cons.mp hx with rfl | hx
    · simp
    · have : key a ≠ key x := h.1 x hx
      simp only [List.find?_cons, this, decide_false]
      exact ih h.2 hx

end UpsertNoDup

def Row.key (r : Row) : String × String := (r.tbl, r.pk)

/-- no two cells of the row for the same column -/
def Row.NoDup (r : Row) : Prop := r.cells.Pairwise (fun a b => a.cid ≠ b.cid)

/-- no two rows with the same `(tbl, pk)`, no two cells of a row with the same `cid` -/
def Db.NoDup (db : Db) : Prop :=
  db.rows.Pairwise (fun a b => a.key ≠ b.key) ∧ ∀ r ∈ db.rows, r.NoDup

theorem setCell_noDup {r : Row} (c : Cell) (h : r.NoDup) : (r.setCell c).NoDup := by
  unfold Row.NoDup at *
  rw [Row.setCell_cells]
  exact pairwise_upsert (fun x : Cell => x.cid) _ c (fun _ => Iff.rfl) h

theorem setRow_noDup {db : Db} {r : Row} (h : db.NoDup) (hr : r.NoDup) : (db.setRow r).NoDup := by
  constructor
  · rw [Db.setRow_rows]
    refine pairwise_upsert Row.key _ r ?_ h.1
    intro x; simp [Row.key]
  · intro x hx
    rw [Db.setRow_rows] at hx
    rcases mem_upsert _ hx with rfl | hx
    · exact hr
    · exact h.2 x hx

theorem resurrect_noDup {o : Option Row} (c : Chg) (h : ∀ r, o = some r → r.NoDup) :
    (resurrect o c).NoDup := by
  unfold Row.NoDup
  rw [resurrect_cells]
  cases o with
  | none => exact List.Pairwise.nil
  | some r =>
    simp only []
    split
    · rw [List.pairwise_map]
      exact (h r rfl).imp (fun hab => hab)
    · exact List.Pairwise.nil

theorem mergeRow_noDup {o : Option Row} {c : Chg} {r' : Row}
    (ho : ∀ r, o = some r → r.NoDup) (h : mergeRow o c = some r') : r'.NoDup := by
  revert h
  refine mergeRow_elim (Q := fun x => x = some r' → r'.NoDup) o c ?_ ?_ ?_ ?_ ?_ ?_ ?_ ?_ ?_
  · intro _ h; cases h
  · intro _ _ h; cases h
  · intro _ _ h; cases h; exact List.Pairwise.nil
  · intro _ _ _ h; cases h
  · intro _ _ _ h; cases h; exact resurrect_noDup c ho
  · intro _ _ _ base _ _ _ h4 h; cases h
    apply setCell_noDup
    have := resurrect_noDup c ho
    unfold Row.NoDup at *
    rw [h4]; exact this
  · intro _ _ r hr _ _ h; cases h; exact setCell_noDup _ (ho r hr)
  · intro _ _ r l hr _ _ _ h; cases h; exact setCell_noDup _ (ho r hr)
  · intro _ _ r l hr _ _ _ h; cases h

/-- `merge` keeps row keys and cell columns unique -/
theorem merge_noDup {db : Db} (c : Chg) (h : db.NoDup) : (merge db c).NoDup := by
  rw [merge_eq]
  cases hm : mergeRow (db.findRow c.tbl c.pk) c with
  | none => exact h
  | some r' =>
    exact setRow_noDup h (mergeRow_noDup (fun r hr => h.2 r (findRow_some hr).2.2) hm)

theorem mergeAll_noDup {db : Db} (cs : List Chg) (h : db.NoDup) : (mergeAll db cs).NoDup := by
  induction cs generalizing db with
  | nil => exact h
  | cons c cs ih => exact ih (merge_noDup c h)

/-- with `NoDup`, the lookups see every row: nothing of the database is hidden from a view that
is defined through `findRow` / `findCell` -/
theorem findRow_of_mem {db : Db} (h : db.NoDup) {r : Row} (hr : r ∈ db.rows) :
    db.findRow r.tbl r.pk = some r := by
  have := find_of_mem_pairwise Row.key h.1 hr
  unfold Db.findRow
  rw [← this]
  congr 1
  funext y
  simp [Row.key]

theorem findCell_of_mem {r : Row} (h : r.NoDup) {l : Cell} (hl : l ∈ r.cells) :
    r.findCell l.cid = some l :=
  find_of_mem_pairwise (fun x : Cell => x.cid) h hl

end Corro.Crdt
