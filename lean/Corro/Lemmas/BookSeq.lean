/-
Helper lemmas for C02, part 4: the rows of `__corro_seq_bookkeeping` against the in-memory partials
(`process_incomplete_version`'s merge DELETE / INSERT vs `insert_partial`).
-/
import Corro.Lemmas.BookInv

namespace Corro.Book
open Corro Corro.RSet

/-! ### one version's block of seq ranges -/

/-- the DELETE's WHERE clause, on one stored range -/
def touchP (lo hi : Nat) (p : Nat × Nat) : Bool := seqTouches p.1 p.2 lo hi

/-- for forward ranges the six SQL cases say: overlapping or adjacent -/
theorem seqTouches_iff {s e lo hi : Nat} (h1 : s ≤ e) (h2 : lo ≤ hi) :
    seqTouches s e lo hi = true ↔ s ≤ hi + 1 ∧ lo ≤ e + 1 := by
  simp only [seqTouches, Bool.or_eq_true, Bool.and_eq_true, decide_eq_true_eq, ge_iff_le, ne_eq]
  omega

theorem ofList_of_wf {s : RSet} (h : WF s) : RSet.ofList s = s :=
  wf_unique _ _ (ofList_wf (wf_forward h)) h (fun x => mem_ofList (wf_forward h) x)

theorem insert_all_touch : ∀ (d : RSet) (lo hi : Nat), (∀ p ∈ d, p.1 ≤ hi + 1 ∧ lo ≤ p.2 + 1) →
    ∃ mg, RSet.insert d (lo, hi) = [mg] := by
  intro d
  induction d with
  | nil => intro lo hi _; exact ⟨(lo, hi), rfl⟩
  | cons p t ih =>
    intro lo hi h
    obtain ⟨a, b⟩ := p
    have hp := h (a, b) (by simp)
    simp only at hp
    unfold RSet.insert
    have h1 : ¬ hi + 1 < a := by omega
    have h2 : ¬ b + 1 < lo := by omega
    simp only [h1, h2, if_false]
    apply ih
    intro q hq
    have := h q (by simp [hq])
    omega

theorem mem_filter_split (s : RSet) (f : Nat × Nat → Bool) (x : Nat) :
    Mem s x ↔ Mem (s.filter f) x ∨ Mem (s.filter (fun p => !f p)) x := by
  simp only [Mem, List.mem_filter]
  constructor
  · rintro ⟨p, hp, hx⟩
    by_cases hf : f p = true
    · exact Or.inl ⟨p, ⟨hp, hf⟩, hx⟩
    · exact Or.inr ⟨p, ⟨hp, by simp [hf]⟩, hx⟩
  · rintro (⟨p, ⟨hp, _⟩, hx⟩ | ⟨p, ⟨hp, _⟩, hx⟩) <;> exact ⟨p, hp, hx⟩

/-- The merge on one block: the touching ranges and the incoming one collapse into a single range
`mg`; putting `mg` in key order among the untouched ranges gives exactly what
`RangeInclusiveSet::insert` makes of the block, whether it is given `mg` or the incoming range. -/
theorem seq_block {s : RSet} {lo hi : Nat} (hs : WF s) (hlh : lo ≤ hi) :
    ∃ mg, RSet.insert (RSet.ofList (s.filter (touchP lo hi))) (lo, hi) = [mg] ∧
      RSet.insert s mg = rowInsert (s.filter (fun p => !touchP lo hi p)) mg ∧
      rowConflict (s.filter (fun p => !touchP lo hi p)) mg = false ∧
      RSet.insert s mg = RSet.insert s (lo, hi) ∧ WF (RSet.insert s mg) ∧ RSet.insert s mg ≠ [] := by
  have hfwd := wf_forward hs
  have hdel : WF (s.filter (touchP lo hi)) := wfFrom_filter hs _
  have hrest : WF (s.filter (fun p => !touchP lo hi p)) := wfFrom_filter hs _
  rw [ofList_of_wf hdel]
  have htouch : ∀ p ∈ s.filter (touchP lo hi), p.1 ≤ hi + 1 ∧ lo ≤ p.2 + 1 := by
    intro p hp
    have hp' := List.mem_filter.mp hp
    exact (seqTouches_iff (hfwd p hp'.1) hlh).mp hp'.2
  obtain ⟨mg, hmg⟩ := insert_all_touch _ lo hi htouch
  have hmgwf : WF [mg] := hmg ▸ insert_wf _ lo hi hlh hdel
  have hmgf : mg.1 ≤ mg.2 := by
    obtain ⟨a, b⟩ := mg; simp only [WF, WFfrom] at hmgwf; exact hmgwf.2.1
  have hmem : ∀ x, (mg.1 ≤ x ∧ x ≤ mg.2) ↔ Mem (s.filter (touchP lo hi)) x ∨ (lo ≤ x ∧ x ≤ hi) := by
    intro x
    have := mem_insert (s.filter (touchP lo hi)) lo hi x hlh
    rw [hmg, mem_singleton] at this
    exact this
  -- mg is isolated from the untouched ranges
  have hiso : Isolated (s.filter (fun p => !touchP lo hi p)) mg := by
    intro q hq
    have hq' := List.mem_filter.mp hq
    have hqf := hfwd q hq'.1
    have hqn : ¬ (q.1 ≤ hi + 1 ∧ lo ≤ q.2 + 1) := by
      intro hh
      have := (seqTouches_iff hqf hlh).mpr hh
      have h2 := hq'.2
      simp only [touchP] at h2
      rw [this] at h2; simp at h2
    apply iso_of_pointwise hqf hmgf
    intro x y hx1 hx2 hy1 hy2
    rcases (hmem x).mp ⟨hx1, hx2⟩ with ⟨p, hp, hxp⟩ | hxr
    · have hp' := List.mem_filter.mp hp
      have hne : p ≠ q := by
        intro he; subst he
        have h2 := hq'.2
        rw [hp'.2] at h2; simp at h2
      have := wf_pairwise hs hp'.1 hq'.1 hne
      omega
    · omega
  obtain ⟨e1, e2⟩ := insert_isolated hrest hmgf hiso
  have hwf1 : WF (RSet.insert s mg) := insert_wf s mg.1 mg.2 hmgf hs
  have hsub : ∀ x, Mem (s.filter (touchP lo hi)) x → Mem s x := by
    rintro x ⟨p, hp, hx⟩; exact ⟨p, (List.mem_filter.mp hp).1, hx⟩
  refine ⟨mg, hmg, ?_, e2, ?_, hwf1, ?_⟩
  · rw [← e1]
    apply wf_unique _ _ hwf1 (insert_wf _ mg.1 mg.2 hmgf hrest)
    intro x
    rw [show mg = (mg.1, mg.2) from rfl, mem_insert _ _ _ _ hmgf, mem_insert _ _ _ _ hmgf,
      mem_filter_split s (touchP lo hi) x, hmem x]
    grind
  · apply wf_unique _ _ hwf1 (insert_wf s lo hi hlh hs)
    intro x
    rw [show mg = (mg.1, mg.2) from rfl, mem_insert _ _ _ _ hmgf, mem_insert _ _ _ _ hlh, hmem x]
    have := hsub x
    grind
  · intro he
    have : Mem (RSet.insert s mg) mg.1 := by
      rw [show mg = (mg.1, mg.2) from rfl, mem_insert _ _ _ _ hmgf]; exact Or.inr ⟨Nat.le_refl _, hmgf⟩
    rw [he] at this; exact mem_nil _ this

/-! ### the flat table -/

def tagRows (v last : Nat) (s : RSet) : List SeqRow := s.map (fun r => (v, r.1, r.2, last))

/-- the rows of `__corro_seq_bookkeeping` that describe the in-memory partials -/
def seqRowsOf : PMap → List SeqRow
  | [] => []
  | e :: t => tagRows e.1 e.2.last e.2.seqs ++ seqRowsOf t

/-- keys strictly ascending, all at least `lb` -/
def KeysFrom : Nat → PMap → Prop
  | _, [] => True
  | lb, e :: t => lb ≤ e.1 ∧ KeysFrom (e.1 + 1) t

theorem keysFrom_mono {lb lb' : Nat} {m : PMap} (h : KeysFrom lb m) (hle : lb' ≤ lb) : KeysFrom lb' m := by
  cases m with
  | nil => trivial
  | cons e t => simp only [KeysFrom] at *; exact ⟨by omega, h.2⟩

theorem keysFrom_forall {lb : Nat} {m : PMap} (h : KeysFrom lb m) : ∀ e ∈ m, lb ≤ e.1 := by
  induction m generalizing lb with
  | nil => intro e he; cases he
  | cons a t ih =>
    simp only [KeysFrom] at h
    intro e he
    rcases List.mem_cons.mp he with rfl | he
    · exact h.1
    · have := ih h.2 e he; omega

theorem lookup_cons_eq (k : Nat) (q : Partial) (t : PMap) : List.lookup k ((k, q) :: t) = some q := by
  simp [List.lookup]

theorem lookup_cons_ne {v k : Nat} (h : ¬ v = k) (q : Partial) (t : PMap) :
    List.lookup v ((k, q) :: t) = List.lookup v t := by
  have : (v == k) = false := by simp [h]
  simp [List.lookup, this]

theorem lookup_none_of_keysFrom {lb : Nat} {m : PMap} (h : KeysFrom lb m) {v : Nat} (hv : v < lb) :
    m.lookup v = none := by
  induction m generalizing lb with
  | nil => rfl
  | cons e t ih =>
    obtain ⟨k, q⟩ := e
    simp only [KeysFrom] at h
    have hne : ¬ v = k := by omega
    rw [lookup_cons_ne hne]
    exact ih h.2 (by omega)

theorem lookup_of_mem {lb : Nat} {m : PMap} (h : KeysFrom lb m) {v : Nat} {q : Partial}
    (hm : (v, q) ∈ m) : m.lookup v = some q := by
  induction m generalizing lb with
  | nil => cases hm
  | cons e t ih =>
    obtain ⟨k, p⟩ := e
    simp only [KeysFrom] at h
    rcases List.mem_cons.mp hm with heq | hm
    · have h1 : v = k := congrArg Prod.fst heq
      have h2 : q = p := congrArg Prod.snd heq
      subst h1; subst h2; exact lookup_cons_eq _ _ _
    · have := keysFrom_forall h.2 _ hm
      have hne : ¬ v = k := by simp at this; omega
      rw [lookup_cons_ne hne]
      exact ih h.2 hm

theorem mem_of_lookup {m : PMap} {v : Nat} {q : Partial} (h : m.lookup v = some q) : (v, q) ∈ m := by
  induction m with
  | nil => cases h
  | cons e t ih =>
    obtain ⟨k, p⟩ := e
    by_cases hk : v = k
    · subst hk; rw [lookup_cons_eq] at h; cases h; simp
    · rw [lookup_cons_ne hk] at h
      exact List.mem_cons_of_mem _ (ih h)

/-- seq ranges stored for `v` (none if `v` is not a partial) -/
def seqsOf (m : PMap) (v : Nat) : RSet :=
  match m.lookup v with
  | some p => p.seqs
  | none => []

/-- `m` with the touching ranges of `v` taken out -/
def pmFilt (v lo hi : Nat) (m : PMap) : PMap :=
  m.map (fun e => if e.1 = v then (e.1, { e.2 with seqs := e.2.seqs.filter (fun p => !touchP lo hi p) }) else e)

theorem filter_hit_same (v lo hi l : Nat) (s : RSet) :
    ((tagRows v l s).filter (seqHit v lo hi)).map (fun r => (r.2.1, r.2.2.1)) = s.filter (touchP lo hi) ∧
    (tagRows v l s).filter (fun r => !seqHit v lo hi r) = tagRows v l (s.filter (fun p => !touchP lo hi p)) := by
  induction s with
  | nil => simp [tagRows]
  | cons p t ih =>
    simp only [tagRows, List.map_cons, List.filter_cons] at ih ⊢
    by_cases hp : touchP lo hi p = true
    · have h1 : seqHit v lo hi (v, p.1, p.2, l) = true := by simpa [seqHit, touchP] using hp
      simp [h1, hp, ih.1, ih.2]
    · have h1 : seqHit v lo hi (v, p.1, p.2, l) = false := by
        simp only [seqHit, touchP] at hp ⊢; simp [hp]
      have hp' : touchP lo hi p = false := by simpa using hp
      simp [h1, hp', ih.1, ih.2]

theorem filter_hit_other {k v : Nat} (hne : k ≠ v) (lo hi l : Nat) (s : RSet) :
    (tagRows k l s).filter (seqHit v lo hi) = [] ∧
    (tagRows k l s).filter (fun r => !seqHit v lo hi r) = tagRows k l s := by
  constructor
  · apply List.filter_eq_nil_iff.mpr
    intro r hr
    simp only [tagRows, List.mem_map] at hr
    obtain ⟨p, _, rfl⟩ := hr
    simp [seqHit, hne]
  · apply List.filter_eq_self.mpr
    intro r hr
    simp only [tagRows, List.mem_map] at hr
    obtain ⟨p, _, rfl⟩ := hr
    simp [seqHit, hne]

/-- rows deleted by the merge: the touching ranges of `v`'s block -/
theorem deleted_eq {lb : Nat} {m : PMap} (h : KeysFrom lb m) (v lo hi : Nat) :
    ((seqRowsOf m).filter (seqHit v lo hi)).map (fun r => (r.2.1, r.2.2.1)) =
      (seqsOf m v).filter (touchP lo hi) := by
  induction m generalizing lb with
  | nil => simp [seqRowsOf, seqsOf]
  | cons e t ih =>
    obtain ⟨k, q⟩ := e
    simp only [KeysFrom] at h
    simp only [seqRowsOf, List.filter_append, List.map_append]
    by_cases hk : k = v
    · subst hk
      have hnone := lookup_none_of_keysFrom h.2 (Nat.lt_succ_self k)
      have ih' := ih h.2
      simp only [seqsOf, hnone, List.filter_nil] at ih'
      rw [(filter_hit_same k lo hi q.last q.seqs).1, ih']
      simp [seqsOf]
    · rw [(filter_hit_other hk lo hi q.last q.seqs).1, ih h.2]
      have : ¬ v = k := fun he => hk he.symm
      simp [seqsOf, lookup_cons_ne this]

/-- rows kept by the merge -/
theorem rest_eq (m : PMap) (v lo hi : Nat) :
    (seqRowsOf m).filter (fun r => !seqHit v lo hi r) = seqRowsOf (pmFilt v lo hi m) := by
  induction m with
  | nil => simp [seqRowsOf, pmFilt]
  | cons e t ih =>
    obtain ⟨k, q⟩ := e
    simp only [pmFilt, List.map_cons] at ih ⊢
    simp only [seqRowsOf, List.filter_append, ih]
    by_cases hk : k = v
    · subst hk
      simp [(filter_hit_same k lo hi q.last q.seqs).2]
    · simp [hk, (filter_hit_other hk lo hi q.last q.seqs).2]

theorem seqRowsOf_mem {m : PMap} {r : SeqRow} (h : r ∈ seqRowsOf m) :
    ∃ e ∈ m, r.1 = e.1 ∧ (r.2.1, r.2.2.1) ∈ e.2.seqs := by
  induction m with
  | nil => cases h
  | cons a t ih =>
    simp only [seqRowsOf, List.mem_append] at h
    rcases h with h | h
    · simp only [tagRows, List.mem_map] at h
      obtain ⟨p, hp, rfl⟩ := h
      exact ⟨a, by simp, rfl, hp⟩
    · obtain ⟨e, he, h1⟩ := ih h
      exact ⟨e, by simp [he], h1⟩

theorem pmFilt_mem {v lo hi : Nat} {m : PMap} {e : Nat × Partial} (h : e ∈ pmFilt v lo hi m) :
    ∃ e0 ∈ m, e.1 = e0.1 ∧ (e.1 = v → e.2.seqs = e0.2.seqs.filter (fun p => !touchP lo hi p)) := by
  simp only [pmFilt, List.mem_map] at h
  obtain ⟨e0, he0, rfl⟩ := h
  refine ⟨e0, he0, ?_, ?_⟩
  · split <;> rfl
  · intro hv
    split
    · rfl
    · rename_i hne; simp [hne] at hv

theorem pmFilt_id {v lo hi : Nat} {m : PMap} (h : ∀ e ∈ m, e.1 ≠ v) : pmFilt v lo hi m = m := by
  unfold pmFilt
  conv => rhs; rw [← List.map_id m]
  apply List.map_congr_left
  intro e he
  simp [h e he]

/-! ### ordered insertion into the flat table -/

theorem seqRowInsert_skip (blk X : List SeqRow) (r : SeqRow) (h : ∀ p ∈ blk, p.1 < r.1) :
    seqRowInsert (blk ++ X) r = blk ++ seqRowInsert X r := by
  induction blk with
  | nil => rfl
  | cons p t ih =>
    have hp := h p (by simp)
    have h1 : ¬ r.1 < p.1 := by omega
    have h2 : ¬ r.1 = p.1 := by omega
    simp only [List.cons_append, seqRowInsert, h1, h2, decide_false, Bool.false_and, Bool.or_self,
      Bool.false_eq_true, if_false]
    rw [ih (fun q hq => h q (by simp [hq]))]

theorem seqRowInsert_front (rows : List SeqRow) (r : SeqRow) (h : ∀ p ∈ rows, r.1 < p.1) :
    seqRowInsert rows r = r :: rows := by
  cases rows with
  | nil => rfl
  | cons p t =>
    have hp := h p (by simp)
    simp [seqRowInsert, hp]

theorem seqRowInsert_block (v l : Nat) (s : RSet) (Y : List SeqRow) (a b : Nat)
    (hY : ∀ p ∈ Y, v < p.1) :
    seqRowInsert (tagRows v l s ++ Y) (v, a, b, l) = tagRows v l (rowInsert s (a, b)) ++ Y := by
  induction s with
  | nil =>
    simp only [tagRows, List.map_nil, List.nil_append, rowInsert, List.map_cons, List.cons_append]
    exact seqRowInsert_front Y _ hY
  | cons p t ih =>
    simp only [tagRows, List.map_cons, List.cons_append] at ih ⊢
    unfold seqRowInsert rowInsert
    by_cases hap : a < p.1
    · simp [hap]
    · simp [hap, ih]

/-- the merged row lands where `pmPut` puts the new block -/
theorem seqRowInsert_put {lb : Nat} {m : PMap} (h : KeysFrom lb m) (v lo hi a b last : Nat)
    (hlast : ∀ e ∈ m, e.1 = v → e.2.last = last) :
    seqRowInsert (seqRowsOf (pmFilt v lo hi m)) (v, a, b, last) =
      seqRowsOf (pmPut m v ⟨rowInsert ((seqsOf m v).filter (fun p => !touchP lo hi p)) (a, b), last⟩) := by
  induction m generalizing lb with
  | nil => simp [pmFilt, seqRowsOf, seqRowInsert, pmPut, seqsOf, tagRows, rowInsert]
  | cons e t ih =>
    obtain ⟨k, q⟩ := e
    simp only [KeysFrom] at h
    have hkeys := keysFrom_forall h.2
    by_cases hlt : v < k
    · -- `v` is new and goes in front of everything
      have hall : ∀ e ∈ (k, q) :: t, e.1 ≠ v := by
        intro e he
        rcases List.mem_cons.mp he with rfl | he
        · simp; omega
        · have := hkeys e he; omega
      rw [pmFilt_id hall]
      have hnone : ((k, q) :: t).lookup v = none :=
        lookup_none_of_keysFrom (lb := k) (by simp only [KeysFrom]; exact ⟨Nat.le_refl _, h.2⟩) hlt
      have hfront : ∀ p ∈ seqRowsOf ((k, q) :: t), v < p.1 := by
        intro p hp
        obtain ⟨e, he, h1, _⟩ := seqRowsOf_mem hp
        rcases List.mem_cons.mp he with rfl | he
        · simp at h1; omega
        · have := hkeys e he; omega
      rw [seqRowInsert_front _ _ hfront]
      simp [pmPut, hlt, seqsOf, hnone, seqRowsOf, tagRows, rowInsert]
    · by_cases heq : v = k
      · subst heq
        have hl : q.last = last := hlast (v, q) (by simp) rfl
        have htail : ∀ e ∈ t, e.1 ≠ v := by
          intro e he; have := hkeys e he; omega
        have hY : ∀ p ∈ seqRowsOf t, v < p.1 := by
          intro p hp
          obtain ⟨e, he, h1, _⟩ := seqRowsOf_mem hp
          have := hkeys e he; omega
        simp only [pmFilt, List.map_cons, if_true] at *
        have : List.map (fun e => if e.1 = v then
            (e.1, { e.2 with seqs := e.2.seqs.filter (fun p => !touchP lo hi p) }) else e) t = t := by
          have := pmFilt_id (lo := lo) (hi := hi) htail
          simpa [pmFilt] using this
        rw [this]
        simp only [seqRowsOf, hl]
        rw [seqRowInsert_block v last _ _ a b hY]
        simp [pmPut, seqsOf, seqRowsOf]
      · have hgt : k < v := by omega
        have hk : ¬ k = v := by omega
        simp only [pmFilt, List.map_cons, hk, if_false, seqRowsOf] at *
        rw [seqRowInsert_skip _ _ _ (by
          intro p hp
          simp only [tagRows, List.mem_map] at hp
          obtain ⟨_, _, rfl⟩ := hp
          exact hgt)]
        have ih' := ih h.2 (fun e he => hlast e (by simp [he]))
        rw [ih']
        have hne : ¬ v = k := heq
        simp [pmPut, hlt, hne, seqsOf, lookup_cons_ne hne, seqRowsOf]

/-- no remaining row of `v` starts where the merged row starts -/
theorem seq_noconflict {lb : Nat} {m : PMap} (h : KeysFrom lb m) (v lo hi : Nat) (mg : Nat × Nat)
    (hc : rowConflict ((seqsOf m v).filter (fun p => !touchP lo hi p)) mg = false) :
    (seqRowsOf (pmFilt v lo hi m)).any (fun r => decide (r.1 = v) && decide (r.2.1 = mg.1)) = false := by
  apply Bool.eq_false_iff.mpr
  intro hany
  obtain ⟨r, hr, hcond⟩ := List.any_eq_true.mp hany
  simp only [Bool.and_eq_true, decide_eq_true_eq] at hcond
  obtain ⟨e, he, h1, h2⟩ := seqRowsOf_mem hr
  obtain ⟨e0, he0, h3, h4⟩ := pmFilt_mem he
  have hev : e.1 = v := by omega
  have hlk : m.lookup v = some e0.2 := by
    apply lookup_of_mem h
    have : e0 = (v, e0.2) := by
      obtain ⟨a, b⟩ := e0; simp at h3 ⊢; omega
    rw [← this]; exact he0
  have : (r.2.1, r.2.2.1) ∈ (seqsOf m v).filter (fun p => !touchP lo hi p) := by
    simp only [seqsOf, hlk]
    rw [← h4 hev]; exact h2
  have hcc : rowConflict ((seqsOf m v).filter (fun p => !touchP lo hi p)) mg = true := by
    unfold rowConflict
    apply List.any_eq_true.mpr
    exact ⟨_, this, by simp [hcond.2]⟩
  rw [hc] at hcc
  cases hcc

/-- `process_incomplete_version` on rows that mirror the partials: it succeeds, hands
`insert_partial` a one-range partial `[mg]`, and the new rows mirror the partials after
`insert_partial` has merged `[mg]` in. -/
theorem processIncomplete_spec {lb : Nat} {m : PMap} (h : KeysFrom lb m) (v lo hi last : Nat)
    (hlh : lo ≤ hi) (hwf : WF (seqsOf m v)) (hlast : ∀ e ∈ m, e.1 = v → e.2.last = last) :
    ∃ mg, processIncomplete (seqRowsOf m) v (lo, hi) last =
        .ok (seqRowsOf (pmPut m v ⟨RSet.insert (seqsOf m v) mg, last⟩), ⟨[mg], last⟩) ∧
      RSet.insert (seqsOf m v) mg = RSet.insert (seqsOf m v) (lo, hi) ∧
      WF (RSet.insert (seqsOf m v) mg) ∧ RSet.insert (seqsOf m v) mg ≠ [] := by
  obtain ⟨mg, b1, b2, b3, b4, b5, b6⟩ := seq_block (lo := lo) (hi := hi) hwf hlh
  refine ⟨mg, ?_, b4, b5, b6⟩
  unfold processIncomplete
  simp only [deleted_eq h v lo hi, b1, rest_eq m v lo hi, seq_noconflict h v lo hi mg b3]
  simp only [Bool.false_eq_true, if_false]
  rw [seqRowInsert_put h v lo hi mg.1 mg.2 last hlast, b2]

end Corro.Book
