/-
C01, protocol level, BATCHES AND CRASHES TOGETHER — the generalised node invariant of
`Lemmas/ClusterBatchGI.lean` (the states a node passes through INSIDE one `process_multiple_changes`
call) merged with the crash-tolerant invariant `Crash.CInv` of `Lemmas/ClusterCrashInv.lean`:

* `D` ("dead"): the apply loop of the node is gone.  A partial may then be COMPLETE WITH ITS SEQUENCE
  ROWS STILL THERE without a pending apply (third state of `part_state`);
* `rheld` ("everything merged belongs to a held version or a complete partial") is replaced by `rgot`
  ("everything merged belongs to a version all of whose changes are merged or dominated"), which
  survives crashes.

`GI D L bk rows buf R C A` with `C = []` is `Crash.CInv (fun _ _ => D)` (`gi_of_cinv`, `cinv_of_gi`; on an
alive node also `A = []`).  The four micro-steps of a batch preserve it: a cleared / completed
version range (`gi_cleared`), a buffered chunk (`gi_buffer`), a clear job (`gi_clear`), an apply
(`gi_apply`, alive nodes only).  The definitions `HasRowsL`, `HeldL`, `InClears`, `AllIn`,
`SeqsBacked`, `ovr` are those of `ClusterBatchGI.lean`.
-/
import Corro.Lemmas.ClusterBatchGI
import Corro.Lemmas.ClusterCrashInv

namespace Corro.ClusterSys.Full
open Corro.Crdt Corro.Node

/-! ### definitions -/

/-- the generalised node invariant (see the header) -/
structure GI (D : Prop) (L : Log) (bk : Nat → Booked) (rows : List SeqRow) (buf : List Chg) (R : List Chg)
    (C : List (Nat × Nat × Nat)) (A : List (Nat × Nat)) : Prop where
  needed_wf : ∀ a, RSet.WF (bk a).needed
  pwf : ∀ a, (bk a).PWF
  keys : ∀ a, (bk a).KeysSorted
  rows_fwd : ∀ r ∈ rows, r.lo ≤ r.hi
  rows_le : ∀ r ∈ rows, r.ver ≤ (bk r.site).max
  head_le : ∀ a, (bk a).max ≤ L.head a
  part_known : ∀ a v p, (bk a).partial? v = some p → (bk a).containsVersion v = true
  /-- a partial is complete and applied, or incomplete with its ranges in the rows, or complete with
  its rows still there: on a dead node, or with its apply pending -/
  part_state : ∀ a v p, (bk a).partial? v = some p →
    (p.complete = true ∧ ¬ HasRowsL rows a v) ∨
    (p.complete = false ∧ HasRowsL rows a v ∧ SeqsBacked L rows a v p) ∨
    (p.complete = true ∧ HasRowsL rows a v ∧
      (D ∨ ((a, v) ∈ A ∧ (AllIn L R a v ∨ SeqsBacked L rows a v p))))
  cover : ∀ a v x, SeqMem rows a v x → ∀ c ∈ L.get a v, c.seq = x → c ∈ buf ∨ Dom L.all c
  last_rows : ∀ r ∈ rows, ∀ c ∈ L.get r.site r.ver, r.last < c.seq → Dom L.all c
  held : ∀ a v, HeldL bk rows a v → AllIn L R a v
  /-- everything merged belongs to a version all of whose changes are merged or dominated -/
  rgot : ∀ e ∈ R, AllIn L R e.site e.dbv
  rows_part : ∀ r ∈ rows, (∃ p, (bk r.site).partial? r.ver = some p) ∨ InClears C r.site r.ver
  buf_rows : ∀ c ∈ buf, HasRowsL rows c.site c.dbv
  bufsub : ∀ c ∈ buf, c ∈ L.all
  /-- a version with a pending clear job is booked, without a partial -/
  clr_none : ∀ a v, InClears C a v → (bk a).containsVersion v = true ∧ (bk a).partial? v = none

/-! ### `Crash.CInv` is `GI` with no clear job pending -/

theorem gi_of_cinv {D : Prop} {P : Nat → Nat → Prop} {L : Log} {n : Node} {R : List Chg} (hN : NInv L n R)
    (hI : Crash.CInv P L n R) (hP : ∀ a v, P a v → D) : GI D L n.booked n.seqRows n.buf R [] [] := by
  refine ⟨hI.needed_wf, hI.pwf, hI.keys, hI.rows_fwd, hI.rows_le, hI.head_le, hI.part_known, ?_, hI.cover,
    hI.last_rows, hI.held, hI.rgot, fun r hr => Or.inl (hI.rows_part r hr),
    hI.buf_rows, hN.bufsub, fun a v h => absurd h (not_inClears_nil a v)⟩
  intro a v p hp
  rcases hI.part_state a v p hp with h | ⟨h1, h2, h3⟩ | ⟨h0, h1, h2⟩
  · exact Or.inl h
  · exact Or.inr (Or.inl ⟨h1, h2, h3, hI.last_part a v p hp h1⟩)
  · exact Or.inr (Or.inr ⟨h1, h2, Or.inl (hP a v h0)⟩)

/-- at the end of a batch: no clear job pending; the scheduled applies have run (`A = []`) unless the
node is dead -/
theorem cinv_of_gi {D : Prop} {L : Log} {n : Node} {R : List Chg} {A : List (Nat × Nat)}
    (hG : GI D L n.booked n.seqRows n.buf R [] A) (hA : ¬ D → A = [])
    (hsorted : n.book.Pairwise (fun x y => x.1 < y.1)) (hdbv : ∀ a, dbvOf n a ≤ (n.booked a).max) :
    Crash.CInv (fun _ _ => D) L n R := by
  refine ⟨hsorted, hG.needed_wf, hG.pwf, hG.keys, hG.rows_fwd, hG.rows_le, hG.head_le, hG.part_known,
    ?_, hG.cover, hG.last_rows, ?_, hG.held, hG.rgot, ?_, hG.buf_rows, hdbv⟩
  · intro a v p hp
    rcases hG.part_state a v p hp with h | ⟨h1, h2, h3⟩ | ⟨h1, h2, h3⟩
    · exact Or.inl h
    · exact Or.inr (Or.inl ⟨h1, h2, h3.1⟩)
    · refine Or.inr (Or.inr ⟨?_, h1, h2⟩)
      rcases h3 with h3 | ⟨h3, _⟩
      · exact h3
      · apply Classical.byContradiction
        intro hD
        rw [hA hD] at h3
        cases h3
  · intro a v p hp hc
    rcases hG.part_state a v p hp with ⟨h, _⟩ | ⟨_, _, h3⟩ | ⟨h, _⟩
    · rw [hc] at h; cases h
    · exact h3.2
    · rw [hc] at h; cases h
  · intro r hr
    rcases hG.rows_part r hr with h | h
    · exact h
    · exact absurd h (not_inClears_nil _ _)

/-! ### micro-step 1: a version range is completed / cleared inside the transaction

The bookkeeping of `a` gets `insert_db [(vlo, vhi)]` and loses the partials of the range; rows and
buffered rows stay (a clear job is scheduled when there are any). -/

theorem gi_cleared {D : Prop} {L : Log} {bk : Nat → Booked} {rows : List SeqRow} {buf R R' : List Chg}
    {C C' : List (Nat × Nat × Nat)} {A : List (Nat × Nat)} {a vlo vhi : Nat}
    (hG : GI D L bk rows buf R C A) (hlh : vlo ≤ vhi) (hhead : vhi ≤ L.head a)
    (c_R : ∀ e ∈ R, e ∈ R') (c_new : ∀ e ∈ R', e ∈ R ∨ (e.site = a ∧ vlo ≤ e.dbv ∧ e.dbv ≤ vhi))
    (c_data : ∀ v, vlo ≤ v → v ≤ vhi → AllIn L R' a v)
    (hC : ∀ a' v', InClears C a' v' → InClears C' a' v')
    (hC' : ∀ a' v', InClears C' a' v' → InClears C a' v' ∨ (a' = a ∧ vlo ≤ v' ∧ v' ≤ vhi))
    (hmeta : ∀ r ∈ rows, r.site = a → vlo ≤ r.ver → r.ver ≤ vhi → InClears C' a r.ver) :
    GI D L (ovr bk a (((bk a).insertDb [(vlo, vhi)]).dropPartials vlo vhi)) rows buf R' C' A := by
  have hmax : ((bk a).insertDb [(vlo, vhi)]).max = max (bk a).max vhi := by
    rw [insertDb_max _ _ (by simp), sup_singleton]
  have hcv : ∀ w, (((bk a).insertDb [(vlo, vhi)]).dropPartials vlo vhi).containsVersion w = true ↔
      (vlo ≤ w ∧ w ≤ vhi) ∨ (bk a).containsVersion w = true := by
    intro w
    rw [containsVersion_dropPartials]
    exact containsVersion_insertDb (hG.needed_wf a) hlh w
  have hpart : ∀ w, (((bk a).insertDb [(vlo, vhi)]).dropPartials vlo vhi).partial? w =
      if vlo ≤ w ∧ w ≤ vhi then none else (bk a).partial? w := by
    intro w
    rw [partial?_dropPartials, partial?_insertDb]
  -- held before and after
  have held_fwd : ∀ a' w, HeldL bk rows a' w →
      HeldL (ovr bk a (((bk a).insertDb [(vlo, vhi)]).dropPartials vlo vhi)) rows a' w := by
    intro a' w ⟨h1, h2⟩
    by_cases ha : a' = a
    · subst ha
      rw [HeldL, ovr_same]
      refine ⟨(hcv w).mpr (Or.inr h1), ?_⟩
      intro p hp
      rw [hpart] at hp
      split at hp
      · cases hp
      · exact h2 p hp
    · rw [HeldL, ovr_other _ _ _ ha]; exact ⟨h1, h2⟩
  have held_in : ∀ w, vlo ≤ w → w ≤ vhi →
      HeldL (ovr bk a (((bk a).insertDb [(vlo, vhi)]).dropPartials vlo vhi)) rows a w := by
    intro w h1 h2
    rw [HeldL, ovr_same]
    refine ⟨(hcv w).mpr (Or.inl ⟨h1, h2⟩), ?_⟩
    intro p hp
    rw [hpart, if_pos ⟨h1, h2⟩] at hp
    cases hp
  have held_back : ∀ a' w, HeldL (ovr bk a (((bk a).insertDb [(vlo, vhi)]).dropPartials vlo vhi)) rows a' w →
      (a' = a ∧ vlo ≤ w ∧ w ≤ vhi) ∨ HeldL bk rows a' w := by
    intro a' w hh
    by_cases hin : a' = a ∧ vlo ≤ w ∧ w ≤ vhi
    · exact Or.inl hin
    · right
      by_cases ha : a' = a
      · subst ha
        rw [HeldL, ovr_same] at hh
        have hw : ¬ (vlo ≤ w ∧ w ≤ vhi) := fun h => hin ⟨rfl, h⟩
        refine ⟨?_, ?_⟩
        · rcases (hcv w).mp hh.1 with h | h
          · exact absurd h hw
          · exact h
        · intro p hp
          exact hh.2 p (by rw [hpart, if_neg hw]; exact hp)
      · rw [HeldL, ovr_other _ _ _ ha] at hh; exact hh
  refine ⟨?_, ?_, ?_, hG.rows_fwd, ?_, ?_, ?_, ?_, hG.cover, hG.last_rows, ?_, ?_, ?_, hG.buf_rows, hG.bufsub, ?_⟩
  · intro a'
    by_cases ha : a' = a
    · subst ha
      rw [ovr_same, dropPartials_needed]
      exact insertDb_needed_wf (hG.needed_wf a') _
        (by intro r hr; rw [List.mem_singleton] at hr; subst hr; exact hlh)
    · rw [ovr_other _ _ _ ha]; exact hG.needed_wf a'
  · intro a'
    by_cases ha : a' = a
    · subst ha; rw [ovr_same]; exact dropPartials_pwf (insertDb_pwf (hG.pwf a') _) _ _
    · rw [ovr_other _ _ _ ha]; exact hG.pwf a'
  · intro a'
    by_cases ha : a' = a
    · subst ha; rw [ovr_same]; exact dropPartials_keysSorted (insertDb_keysSorted (hG.keys a') _) _ _
    · rw [ovr_other _ _ _ ha]; exact hG.keys a'
  · intro r hr
    have := hG.rows_le r hr
    by_cases ha : r.site = a
    · rw [ha, ovr_same, dropPartials_max, hmax]; rw [ha] at this; omega
    · rw [ovr_other _ _ _ ha]; exact this
  · intro a'
    by_cases ha : a' = a
    · subst ha
      rw [ovr_same, dropPartials_max, hmax]
      have := hG.head_le a'
      omega
    · rw [ovr_other _ _ _ ha]; exact hG.head_le a'
  · intro a' w p hp
    by_cases ha : a' = a
    · subst ha
      rw [ovr_same] at hp ⊢
      rw [hpart] at hp
      split at hp
      · cases hp
      · exact (hcv w).mpr (Or.inr (hG.part_known a' w p hp))
    · rw [ovr_other _ _ _ ha] at hp ⊢; exact hG.part_known a' w p hp
  · intro a' w p hp
    have hp' : (bk a').partial? w = some p := by
      by_cases ha : a' = a
      · subst ha
        rw [ovr_same, hpart] at hp
        split at hp
        · cases hp
        · exact hp
      · rw [ovr_other _ _ _ ha] at hp; exact hp
    rcases hG.part_state a' w p hp' with h | h | ⟨h1, h2, h3⟩
    · exact Or.inl h
    · exact Or.inr (Or.inl h)
    · refine Or.inr (Or.inr ⟨h1, h2, ?_⟩)
      rcases h3 with h3 | ⟨h3, h4⟩
      · exact Or.inl h3
      · refine Or.inr ⟨h3, ?_⟩
        rcases h4 with h4 | h4
        · exact Or.inl (h4.mono c_R)
        · exact Or.inr h4
  · intro a' w hh
    rcases held_back a' w hh with ⟨rfl, h1, h2⟩ | h
    · exact c_data w h1 h2
    · exact (hG.held a' w h).mono c_R
  · intro e he
    rcases c_new e he with h | ⟨h1, h2, h3⟩
    · exact (hG.rgot e h).mono c_R
    · rw [h1]; exact c_data _ h2 h3
  · intro r hr
    by_cases hin : r.site = a ∧ vlo ≤ r.ver ∧ r.ver ≤ vhi
    · right; rw [hin.1]; exact hmeta r hr hin.1 hin.2.1 hin.2.2
    · rcases hG.rows_part r hr with ⟨p, hp⟩ | h
      · left
        refine ⟨p, ?_⟩
        by_cases ha : r.site = a
        · rw [ha, ovr_same, hpart, if_neg (fun h => hin ⟨ha, h⟩)]
          rw [ha] at hp; exact hp
        · rw [ovr_other _ _ _ ha]; exact hp
      · exact Or.inr (hC _ _ h)
  · intro a' w hc
    by_cases hin : a' = a ∧ vlo ≤ w ∧ w ≤ vhi
    · obtain ⟨rfl, h1, h2⟩ := hin
      rw [ovr_same]
      exact ⟨(hcv w).mpr (Or.inl ⟨h1, h2⟩), by rw [hpart, if_pos ⟨h1, h2⟩]⟩
    · rcases hC' a' w hc with h | h
      · obtain ⟨h1, h2⟩ := hG.clr_none a' w h
        by_cases ha : a' = a
        · subst ha
          rw [ovr_same]
          exact ⟨(hcv w).mpr (Or.inr h1), by rw [hpart, if_neg (fun h => hin ⟨rfl, h⟩)]; exact h2⟩
        · rw [ovr_other _ _ _ ha]; exact ⟨h1, h2⟩
      · exact absurd h hin

/-! ### micro-step 3: a pending clear job runs -/

theorem gi_clear {D : Prop} {L : Log} {bk : Nat → Booked} {rows rows' : List SeqRow} {buf buf' R : List Chg}
    {C C' : List (Nat × Nat × Nat)} {A : List (Nat × Nat)} {s lo hi : Nat}
    (hG : GI D L bk rows buf R C A) (hL : LogOK L)
    (hr : ∀ r, r ∈ rows' ↔ r ∈ rows ∧ ¬ (r.site = s ∧ lo ≤ r.ver ∧ r.ver ≤ hi))
    (hb : ∀ c, c ∈ buf' ↔ c ∈ buf ∧ ¬ (c.site = s ∧ lo ≤ c.dbv ∧ c.dbv ≤ hi))
    (hcl : ∀ v, lo ≤ v → v ≤ hi → InClears C s v)
    (hC : ∀ a v, InClears C a v → InClears C' a v ∨ (a = s ∧ lo ≤ v ∧ v ≤ hi))
    (hC' : ∀ a v, InClears C' a v → InClears C a v) :
    GI D L bk rows' buf' R C' A := by
  have hHR := hasRowsL_iff_of_rows hr
  have hSM := seqMemL_iff_of_rows hr
  have hnone : ∀ a v p, (bk a).partial? v = some p → ¬ (a = s ∧ lo ≤ v ∧ v ≤ hi) := by
    rintro a v p hp ⟨rfl, h1, h2⟩
    rw [(hG.clr_none a v (hcl v h1 h2)).2] at hp
    cases hp
  have hsb : ∀ a v p, ¬ (a = s ∧ lo ≤ v ∧ v ≤ hi) → SeqsBacked L rows a v p → SeqsBacked L rows' a v p := by
    intro a v p hne ⟨h1, h2⟩
    exact ⟨fun x hx => (hSM a v x).mpr ⟨h1 x hx, hne⟩, h2⟩
  refine ⟨hG.needed_wf, hG.pwf, hG.keys, fun r h => hG.rows_fwd r ((hr r).mp h).1,
    fun r h => hG.rows_le r ((hr r).mp h).1, hG.head_le, hG.part_known, ?_, ?_,
    fun r h => hG.last_rows r ((hr r).mp h).1, ?_, ?_, ?_, ?_, fun c h => hG.bufsub c ((hb c).mp h).1,
    fun a v h => hG.clr_none a v (hC' a v h)⟩
  · intro a v p hp
    have hne := hnone a v p hp
    rcases hG.part_state a v p hp with ⟨h1, h2⟩ | ⟨h1, h2, h3⟩ | ⟨h1, h2, h3⟩
    · exact Or.inl ⟨h1, fun h => h2 ((hHR a v).mp h).1⟩
    · exact Or.inr (Or.inl ⟨h1, (hHR a v).mpr ⟨h2, hne⟩, hsb a v p hne h3⟩)
    · refine Or.inr (Or.inr ⟨h1, (hHR a v).mpr ⟨h2, hne⟩, ?_⟩)
      rcases h3 with h3 | ⟨h3, h4⟩
      · exact Or.inl h3
      · refine Or.inr ⟨h3, ?_⟩
        rcases h4 with h4 | h4
        · exact Or.inl h4
        · exact Or.inr (hsb a v p hne h4)
  · intro a v x hx c hc hcx
    obtain ⟨hx1, hx2⟩ := (hSM a v x).mp hx
    rcases hG.cover a v x hx1 c hc hcx with h | h
    · left
      refine (hb c).mpr ⟨h, ?_⟩
      obtain ⟨_, h1, h2, _⟩ := hL.mem_get hc
      rw [h1, h2]; exact hx2
    · exact Or.inr h
  · intro a v ⟨h1, h2⟩
    apply hG.held a v
    refine ⟨h1, ?_⟩
    intro p hp
    obtain ⟨h3, h4⟩ := h2 p hp
    exact ⟨h3, fun h => h4 ((hHR a v).mpr ⟨h, hnone a v p hp⟩)⟩
  · exact hG.rgot
  · intro r h
    obtain ⟨h1, h2⟩ := (hr r).mp h
    rcases hG.rows_part r h1 with h3 | h3
    · exact Or.inl h3
    · rcases hC _ _ h3 with h4 | h4
      · exact Or.inr h4
      · exact absurd h4 h2
  · intro c h
    obtain ⟨h1, h2⟩ := (hb c).mp h
    exact (hHR _ _).mpr ⟨hG.buf_rows c h1, h2⟩

/-! ### weakening -/

/-- the list of pending applies may be replaced by any list that contains every version whose apply
is actually pending -/
theorem GI.mono_A {D : Prop} {L : Log} {bk : Nat → Booked} {rows : List SeqRow} {buf R : List Chg}
    {C : List (Nat × Nat × Nat)} {A A' : List (Nat × Nat)} (hG : GI D L bk rows buf R C A)
    (hA : ∀ a v p, (bk a).partial? v = some p → p.complete = true → HasRowsL rows a v → (a, v) ∈ A →
      (a, v) ∈ A') : GI D L bk rows buf R C A' := by
  refine ⟨hG.needed_wf, hG.pwf, hG.keys, hG.rows_fwd, hG.rows_le, hG.head_le, hG.part_known, ?_, hG.cover,
    hG.last_rows, hG.held, hG.rgot, hG.rows_part, hG.buf_rows, hG.bufsub, hG.clr_none⟩
  intro a v p hp
  rcases hG.part_state a v p hp with h | h | ⟨h1, h2, h3⟩
  · exact Or.inl h
  · exact Or.inr (Or.inl h)
  · refine Or.inr (Or.inr ⟨h1, h2, ?_⟩)
    rcases h3 with h3 | ⟨h3, h4⟩
    · exact Or.inl h3
    · exact Or.inr ⟨hA a v p hp h1 h2 h3, h4⟩

/-! ### micro-step 4: a scheduled apply runs -/

theorem gi_apply {D : Prop} {L : Log} {N : Node} {R : List Chg} {C : List (Nat × Nat × Nat)} {A A' : List (Nat × Nat)}
    (hG : GI D L N.booked N.seqRows N.buf R C A) (hL : LogOK L) (hD : ¬ D) (a v : Nat)
    (hA : ∀ t ∈ A, t = (a, v) ∨ t ∈ A') :
    GI D L (N.applyBuffered a v).booked (N.applyBuffered a v).seqRows (N.applyBuffered a v).buf
      (appliedBy N a v ++ R) C A' := by
  by_cases hskip : ∀ p, (N.booked a).partial? v = some p → p.complete = false
  · rw [applyBuffered_skip N a v hskip, appliedBy_skip hskip]
    apply hG.mono_A
    intro a' w p hp hc _ hm
    rcases hA _ hm with h | h
    · simp only [Prod.mk.injEq] at h
      obtain ⟨rfl, rfl⟩ := h
      rw [hskip p hp] at hc; cases hc
    · exact h
  · have hex : ∃ p, (N.booked a).partial? v = some p ∧ p.complete = true := by
      apply Classical.byContradiction
      intro hne
      apply hskip
      intro p hp
      cases hc : p.complete with
      | false => rfl
      | true => exact absurd ⟨p, hp, hc⟩ hne
    obtain ⟨p, hp, hpc⟩ := hex
    have hX := applyBuffered_complete N a v p hp hpc
    have hcvv : (N.booked a).containsVersion v = true := hG.part_known a v p hp
    have hvmax : v ≤ (N.booked a).max := ((containsVersion_iff _ _).mp hcvv).2
    have hbk : (N.applyBuffered a v).booked = ovr N.booked a ((N.booked a).insertDb [(v, v)]) := by
      funext a'
      by_cases ha : a' = a
      · subst ha; rw [hX, booked_clearMeta, applyCore_booked_same, ovr_same]
      · rw [hX, booked_clearMeta, applyCore_booked_other _ _ _ _ ha, ovr_other _ _ _ ha]
    have hr : ∀ r, r ∈ (N.applyBuffered a v).seqRows ↔
        r ∈ N.seqRows ∧ ¬ (r.site = a ∧ v ≤ r.ver ∧ r.ver ≤ v) := by
      intro r; rw [hX, mem_clearMeta_rows, applyCore_seqRows]
    have hb : ∀ c, c ∈ (N.applyBuffered a v).buf ↔
        c ∈ N.buf ∧ ¬ (c.site = a ∧ v ≤ c.dbv ∧ c.dbv ≤ v) := by
      intro c; rw [hX, mem_clearMeta_buf, applyCore_buf]
    rw [hbk, appliedBy_complete hp hpc]
    generalize (N.applyBuffered a v).seqRows = rows' at hr
    generalize (N.applyBuffered a v).buf = buf' at hb
    have hHR := hasRowsL_iff_of_rows hr
    have hSM := seqMemL_iff_of_rows hr
    have hmax : ((N.booked a).insertDb [(v, v)]).max = (N.booked a).max := by
      rw [insertDb_max _ _ (by simp), sup_singleton]
      exact Nat.max_eq_left hvmax
    have hcv : ∀ w, ((N.booked a).insertDb [(v, v)]).containsVersion w = true ↔
        (N.booked a).containsVersion w = true := by
      intro w
      rw [containsVersion_insertDb (hG.needed_wf a) (Nat.le_refl v) w]
      constructor
      · rintro (h | h)
        · have : w = v := by omega
          rw [this]; exact hcvv
        · exact h
      · exact Or.inr
    have hRR : ∀ e ∈ R, e ∈ sortBySeq (bufOf N.buf a v) ++ R := fun e he => List.mem_append_right _ he
    have hnotav : ∀ {a' w : Nat}, ¬ (a' = a ∧ w = v) → ¬ (a' = a ∧ v ≤ w ∧ w ≤ v) := by
      intro a' w h h'; exact h ⟨h'.1, by omega⟩
    have hsb : ∀ a' w q, ¬ (a' = a ∧ w = v) → SeqsBacked L N.seqRows a' w q → SeqsBacked L rows' a' w q := by
      intro a' w q hne ⟨h1, h2⟩
      exact ⟨fun x hx => (hSM a' w x).mpr ⟨h1 x hx, hnotav hne⟩, h2⟩
    -- the data of `(a, v)` is in the new ghost list
    have hdata : AllIn L (sortBySeq (bufOf N.buf a v) ++ R) a v := by
      have hbacked : SeqsBacked L N.seqRows a v p → AllIn L (sortBySeq (bufOf N.buf a v) ++ R) a v := by
        intro ⟨h1, h2⟩ c hc
        by_cases hle : c.seq ≤ p.last
        · have hm := (complete_iff ((hG.pwf a).of_partial? hp)).mp hpc c.seq hle
          rcases hG.cover a v c.seq (h1 _ hm) c hc rfl with h | h
          · left
            apply List.mem_append_left
            rw [mem_sortBySeq]
            obtain ⟨_, h3, h4, _⟩ := hL.mem_get hc
            exact List.mem_filter.mpr ⟨h, by simpa using ⟨h3, h4⟩⟩
          · exact Or.inr h
        · exact Or.inr (h2 c hc (by omega))
      rcases hG.part_state a v p hp with ⟨h1, h2⟩ | ⟨h1, _⟩ | ⟨_, _, h3⟩
      · apply (hG.held a v _).mono hRR
        refine ⟨hcvv, ?_⟩
        intro q hq
        rw [hp] at hq; cases hq
        exact ⟨h1, h2⟩
      · rw [hpc] at h1; cases h1
      · rcases h3 with h3 | ⟨_, h4⟩
        · exact absurd h3 hD
        · rcases h4 with h4 | h4
          · exact h4.mono hRR
          · exact hbacked h4
    have held_av : HeldL (ovr N.booked a ((N.booked a).insertDb [(v, v)])) rows' a v := by
      rw [HeldL, ovr_same]
      refine ⟨(hcv v).mpr hcvv, ?_⟩
      intro q hq
      rw [partial?_insertDb, hp] at hq; cases hq
      exact ⟨hpc, fun h => ((hHR a v).mp h).2 ⟨rfl, Nat.le_refl _, Nat.le_refl _⟩⟩
    have held_fwd : ∀ a' w, HeldL N.booked N.seqRows a' w →
        HeldL (ovr N.booked a ((N.booked a).insertDb [(v, v)])) rows' a' w := by
      intro a' w ⟨h1, h2⟩
      by_cases ha : a' = a
      · subst ha
        rw [HeldL, ovr_same]
        refine ⟨(hcv w).mpr h1, ?_⟩
        intro q hq
        rw [partial?_insertDb] at hq
        obtain ⟨h3, h4⟩ := h2 q hq
        exact ⟨h3, fun h => h4 ((hHR a' w).mp h).1⟩
      · rw [HeldL, ovr_other _ _ _ ha]
        refine ⟨h1, ?_⟩
        intro q hq
        obtain ⟨h3, h4⟩ := h2 q hq
        exact ⟨h3, fun h => h4 ((hHR a' w).mp h).1⟩
    refine ⟨?_, ?_, ?_, fun r h => hG.rows_fwd r ((hr r).mp h).1, ?_, ?_, ?_, ?_, ?_,
      fun r h => hG.last_rows r ((hr r).mp h).1, ?_, ?_, ?_, ?_, fun c h => hG.bufsub c ((hb c).mp h).1, ?_⟩
    · intro a'
      by_cases ha : a' = a
      · subst ha
        rw [ovr_same]
        exact insertDb_needed_wf (hG.needed_wf a') _
          (by intro r hr; rw [List.mem_singleton] at hr; subst hr; exact Nat.le_refl _)
      · rw [ovr_other _ _ _ ha]; exact hG.needed_wf a'
    · intro a'
      by_cases ha : a' = a
      · subst ha; rw [ovr_same]; exact insertDb_pwf (hG.pwf a') _
      · rw [ovr_other _ _ _ ha]; exact hG.pwf a'
    · intro a'
      by_cases ha : a' = a
      · subst ha; rw [ovr_same]; exact insertDb_keysSorted (hG.keys a') _
      · rw [ovr_other _ _ _ ha]; exact hG.keys a'
    · intro r h
      have := hG.rows_le r ((hr r).mp h).1
      by_cases ha : r.site = a
      · rw [ha, ovr_same, hmax]; rw [ha] at this; exact this
      · rw [ovr_other _ _ _ ha]; exact this
    · intro a'
      by_cases ha : a' = a
      · subst ha; rw [ovr_same, hmax]; exact hG.head_le a'
      · rw [ovr_other _ _ _ ha]; exact hG.head_le a'
    · intro a' w q hq
      by_cases ha : a' = a
      · subst ha
        rw [ovr_same] at hq ⊢
        rw [partial?_insertDb] at hq
        exact (hcv w).mpr (hG.part_known a' w q hq)
      · rw [ovr_other _ _ _ ha] at hq ⊢; exact hG.part_known a' w q hq
    · intro a' w q hq
      have hq' : (N.booked a').partial? w = some q := by
        by_cases ha : a' = a
        · subst ha; rw [ovr_same, partial?_insertDb] at hq; exact hq
        · rw [ovr_other _ _ _ ha] at hq; exact hq
      by_cases hav : a' = a ∧ w = v
      · obtain ⟨rfl, rfl⟩ := hav
        rw [hp] at hq'; cases hq'
        exact Or.inl ⟨hpc, fun h => ((hHR a' w).mp h).2 ⟨rfl, Nat.le_refl _, Nat.le_refl _⟩⟩
      · rcases hG.part_state a' w q hq' with ⟨h1, h2⟩ | ⟨h1, h2, h3⟩ | ⟨h1, h2, h3⟩
        · exact Or.inl ⟨h1, fun h => h2 ((hHR a' w).mp h).1⟩
        · exact Or.inr (Or.inl ⟨h1, (hHR a' w).mpr ⟨h2, hnotav hav⟩, hsb a' w q hav h3⟩)
        · refine Or.inr (Or.inr ⟨h1, (hHR a' w).mpr ⟨h2, hnotav hav⟩, ?_⟩)
          rcases h3 with h3 | ⟨h3, h4⟩
          · exact absurd h3 hD
          · refine Or.inr ⟨?_, ?_⟩
            · rcases hA _ h3 with h | h
              · simp only [Prod.mk.injEq] at h; exact absurd h hav
              · exact h
            · rcases h4 with h4 | h4
              · exact Or.inl (h4.mono hRR)
              · exact Or.inr (hsb a' w q hav h4)
    · intro a' w x hx c hc hcx
      obtain ⟨hx1, hx2⟩ := (hSM a' w x).mp hx
      rcases hG.cover a' w x hx1 c hc hcx with h | h
      · left
        refine (hb c).mpr ⟨h, ?_⟩
        obtain ⟨_, h1, h2, _⟩ := hL.mem_get hc
        rw [h1, h2]; exact hx2
      · exact Or.inr h
    · intro a' w hh
      by_cases hav : a' = a ∧ w = v
      · obtain ⟨rfl, rfl⟩ := hav; exact hdata
      · apply (hG.held a' w _).mono hRR
        by_cases ha : a' = a
        · subst ha
          rw [HeldL, ovr_same] at hh
          refine ⟨(hcv w).mp hh.1, ?_⟩
          intro q hq
          obtain ⟨h3, h4⟩ := hh.2 q (by rw [partial?_insertDb]; exact hq)
          exact ⟨h3, fun h => h4 ((hHR a' w).mpr ⟨h, hnotav hav⟩)⟩
        · rw [HeldL, ovr_other _ _ _ ha] at hh
          refine ⟨hh.1, ?_⟩
          intro q hq
          obtain ⟨h3, h4⟩ := hh.2 q hq
          exact ⟨h3, fun h => h4 ((hHR a' w).mpr ⟨h, hnotav hav⟩)⟩
    · intro e he
      rcases List.mem_append.mp he with h | h
      · rw [mem_sortBySeq] at h
        have := (List.mem_filter.mp h).2
        simp only [decide_eq_true_eq] at this
        rw [this.1, this.2]; exact hdata
      · exact (hG.rgot e h).mono hRR
    · intro r h
      obtain ⟨h1, _⟩ := (hr r).mp h
      rcases hG.rows_part r h1 with ⟨q, hq⟩ | h3
      · left
        refine ⟨q, ?_⟩
        by_cases ha : r.site = a
        · rw [ha, ovr_same, partial?_insertDb]; rw [ha] at hq; exact hq
        · rw [ovr_other _ _ _ ha]; exact hq
      · exact Or.inr h3
    · intro c h
      obtain ⟨h1, h2⟩ := (hb c).mp h
      exact (hHR _ _).mpr ⟨hG.buf_rows c h1, h2⟩
    · intro a' w hc
      obtain ⟨h1, h2⟩ := hG.clr_none a' w hc
      by_cases ha : a' = a
      · subst ha
        rw [ovr_same, partial?_insertDb]
        exact ⟨(hcv w).mpr h1, h2⟩
      · rw [ovr_other _ _ _ ha]; exact ⟨h1, h2⟩

/-! ### micro-step 2: an incomplete chunk is buffered inside the transaction

The rows and buffered rows are those of `bufferChunk`, the bookkeeping of `a` gets
`insert_db [(v, v)]` and the merged range of the chunk; when the partial is complete now, the apply
is scheduled (and pending). -/

section Buffer
variable {D : Prop} {L : Log} {V : Node} {R : List Chg} {C : List (Nat × Nat × Nat)} {A : List (Nat × Nat)}
  {a v lo hi last : Nat} {cs : List Chg}

/-- the received ranges of the partial after buffering lie in the sequence rows if those of the old
partial did -/
theorem backed_bufNode (hG : GI D L V.booked V.seqRows V.buf R C A)
    (hck : ChunkOK L (.full a v lo hi last cs)) (hlh : lo ≤ hi)
    (hold : ∀ old, (V.booked a).partial? v = some old → SeqsBacked L V.seqRows a v old) :
    SeqsBacked L (bufNode V a v lo hi last cs).seqRows a v (bufPartial V a v lo hi last cs) := by
  constructor
  · intro x hx
    rcases (mem_bufPartial hlh x).mp hx with ⟨old, ho, hm⟩ | hm
    · exact (seqMem_bufNode_same hG.rows_fwd hlh x).mpr (Or.inl ((hold old ho).1 x hm))
    · exact ⟨_, bufNode_newRow V a v lo hi last cs, rfl, rfl, hm.1, hm.2⟩
  · rw [bufPartial_last]
    cases ho : (V.booked a).partial? v with
    | none => exact hck.2.2.2
    | some old => exact (hold old ho).2

/-- every change of the version whose seq lies in a sequence row after buffering is buffered or
dominated -/
theorem cover_bufNode' (hG : GI D L V.booked V.seqRows V.buf R C A) (hL : LogOK L)
    (hck : ChunkOK L (.full a v lo hi last cs)) (hlh : lo ≤ hi) (x : Nat)
    (hx : SeqMem (bufNode V a v lo hi last cs).seqRows a v x) (c : Chg) (hc : c ∈ L.get a v)
    (hcx : c.seq = x) : c ∈ (bufNode V a v lo hi last cs).buf ∨ Dom L.all c := by
  obtain ⟨_, hcs, hcov, _⟩ := hck
  rw [bufNode_buf]
  rcases (seqMem_bufNode_same hG.rows_fwd hlh x).mp hx with h | h
  · rcases hG.cover a v x h c hc hcx with h | h
    · exact Or.inl (mem_buf_bufferChunk h)
    · exact Or.inr h
  · rcases hcov c hc (by omega) (by omega) with h | h
    · left
      rw [bufferChunk_eq]
      obtain ⟨y, hy, hk⟩ := bufAdd_has_key V.buf cs h
      have hyL : y ∈ L.all := by
        rcases mem_bufAdd hy with h' | h'
        · exact hG.bufsub y h'
        · exact (hL.mem_get (hcs y h')).1
      have := hL.attr_unique hyL (hL.mem_get hc).1 hk.1 hk.2.1 hk.2.2
      rw [← this]; exact hy
    · exact Or.inr h

theorem gi_buffer (hG : GI D L V.booked V.seqRows V.buf R C A) (hL : LogOK L)
    (hck : ChunkOK L (.full a v lo hi last cs)) (hlh : lo ≤ hi) (hnc : ¬ InClears C a v) :
    GI D L (bufNode V a v lo hi last cs).booked (bufNode V a v lo hi last cs).seqRows
      (bufNode V a v lo hi last cs).buf R C
      (if (bufPartial V a v lo hi last cs).complete then A ++ [(a, v)] else A) := by
  have hck' := hck
  obtain ⟨hvh, hcs, hcov, hlast⟩ := hck
  have hcv := @bufBooked_cv V a v lo hi last cs (hG.needed_wf a)
  have hAsub : ∀ t ∈ A, t ∈ (if (bufPartial V a v lo hi last cs).complete then A ++ [(a, v)] else A) := by
    intro t ht
    split
    · exact List.mem_append_left _ ht
    · exact ht
  have hHRo : ∀ {a' w : Nat}, ¬ (a' = a ∧ w = v) →
      (HasRowsL (bufNode V a v lo hi last cs).seqRows a' w ↔ HasRowsL V.seqRows a' w) :=
    fun h => hasRows_bufNode_other h
  have hHRs : HasRowsL (bufNode V a v lo hi last cs).seqRows a v := hasRows_bufNode_same V a v lo hi last cs
  have hsbo : ∀ {a' w : Nat} (q : Partial), ¬ (a' = a ∧ w = v) → SeqsBacked L V.seqRows a' w q →
      SeqsBacked L (bufNode V a v lo hi last cs).seqRows a' w q := by
    intro a' w q hne ⟨h1, h2⟩
    exact ⟨fun x hx => (seqMem_bufNode_other hne x).mpr (h1 x hx), h2⟩
  -- the partial of `(a', w) ≠ (a, v)` is unchanged
  have hpo : ∀ {a' w : Nat}, ¬ (a' = a ∧ w = v) →
      ((bufNode V a v lo hi last cs).booked a').partial? w = (V.booked a').partial? w := by
    intro a' w hne
    by_cases ha : a' = a
    · subst ha
      rw [bufNode_booked_same, bufBooked_partial_other _ _ _ _ _ _ _ w (fun h => hne ⟨rfl, h⟩)]
    · rw [bufNode_booked_other _ _ _ _ _ _ _ a' ha]
  have hps : ((bufNode V a v lo hi last cs).booked a).partial? v = some (bufPartial V a v lo hi last cs) := by
    rw [bufNode_booked_same, bufBooked_partial_same]
  have hcvo : ∀ a' w, (V.booked a').containsVersion w = true →
      ((bufNode V a v lo hi last cs).booked a').containsVersion w = true := by
    intro a' w h
    by_cases ha : a' = a
    · subst ha; rw [bufNode_booked_same, hcv w]; exact Or.inr h
    · rw [bufNode_booked_other _ _ _ _ _ _ _ a' ha]; exact h
  -- `Held` before and after, for versions other than `(a, v)`
  have held_iff : ∀ a' w, ¬ (a' = a ∧ w = v) →
      (HeldL (bufNode V a v lo hi last cs).booked (bufNode V a v lo hi last cs).seqRows a' w ↔
        HeldL V.booked V.seqRows a' w) := by
    intro a' w hne
    unfold HeldL
    rw [hpo hne, hHRo hne]
    by_cases ha : a' = a
    · subst ha
      have hw : w ≠ v := fun h => hne ⟨rfl, h⟩
      rw [bufNode_booked_same, hcv w]
      constructor
      · rintro ⟨h1 | h1, h2⟩
        · exact absurd h1 hw
        · exact ⟨h1, h2⟩
      · rintro ⟨h1, h2⟩; exact ⟨Or.inr h1, h2⟩
    · rw [bufNode_booked_other _ _ _ _ _ _ _ a' ha]
  have not_held_new : ¬ HeldL (bufNode V a v lo hi last cs).booked (bufNode V a v lo hi last cs).seqRows a v := by
    intro hh
    exact (hh.2 _ hps).2 hHRs
  -- every old partial of `(a, v)` that is not complete-and-applied is backed or its data is in `R`
  have hold_state : ∀ old, (V.booked a).partial? v = some old →
      (old.complete = true ∧ (D ∨ AllIn L R a v)) ∨ SeqsBacked L V.seqRows a v old := by
    intro old ho
    rcases hG.part_state a v old ho with ⟨h1, h2⟩ | ⟨_, _, h3⟩ | ⟨h1, _, h3⟩
    · left
      refine ⟨h1, Or.inr (hG.held a v ⟨hG.part_known a v old ho, ?_⟩)⟩
      intro q hq
      rw [ho] at hq; cases hq
      exact ⟨h1, h2⟩
    · exact Or.inr h3
    · rcases h3 with h3 | ⟨_, h4⟩
      · exact Or.inl ⟨h1, Or.inl h3⟩
      · rcases h4 with h4 | h4
        · exact Or.inl ⟨h1, Or.inr h4⟩
        · exact Or.inr h4
  refine ⟨?_, ?_, ?_, ?_, ?_, ?_, ?_, ?_, ?_, ?_, ?_, ?_, ?_, ?_, ?_, ?_⟩
  · intro a'
    by_cases ha : a' = a
    · subst ha
      rw [bufNode_booked_same, bufBooked_needed]
      exact insertDb_needed_wf (hG.needed_wf a') _
        (by intro r hr; rw [List.mem_singleton] at hr; subst hr; exact Nat.le_refl _)
    · rw [bufNode_booked_other _ _ _ _ _ _ _ a' ha]; exact hG.needed_wf a'
  · intro a'
    by_cases ha : a' = a
    · subst ha
      rw [bufNode_booked_same]; exact bufBooked_pwf (hG.pwf a') hlh
    · rw [bufNode_booked_other _ _ _ _ _ _ _ a' ha]; exact hG.pwf a'
  · intro a'
    by_cases ha : a' = a
    · subst ha
      rw [bufNode_booked_same]; exact bufBooked_keys (hG.keys a')
    · rw [bufNode_booked_other _ _ _ _ _ _ _ a' ha]; exact hG.keys a'
  · intro r hr
    rcases mem_bufNode_rows hr with h | h
    · exact hG.rows_fwd r h
    · have := bufChunk_range V a v lo hi last cs
      subst h; simp only; omega
  · intro r hr
    rcases mem_bufNode_rows hr with h | h
    · have := hG.rows_le r h
      by_cases ha : r.site = a
      · rw [ha] at this ⊢
        rw [bufNode_booked_same, bufBooked_max]; omega
      · rw [bufNode_booked_other _ _ _ _ _ _ _ _ ha]; exact this
    · subst h
      simp only
      rw [bufNode_booked_same, bufBooked_max]; omega
  · intro a'
    by_cases ha : a' = a
    · subst ha
      rw [bufNode_booked_same, bufBooked_max]
      have := hG.head_le a'
      omega
    · rw [bufNode_booked_other _ _ _ _ _ _ _ a' ha]; exact hG.head_le a'
  · intro a' w p hp
    by_cases hav : a' = a ∧ w = v
    · obtain ⟨rfl, rfl⟩ := hav
      rw [bufNode_booked_same, hcv w]; exact Or.inl rfl
    · rw [hpo hav] at hp
      exact hcvo a' w (hG.part_known a' w p hp)
  · intro a' w p hp
    by_cases hav : a' = a ∧ w = v
    · obtain ⟨rfl, rfl⟩ := hav
      rw [hps] at hp
      cases hp
      cases hpc : (bufPartial V a' w lo hi last cs).complete with
      | false =>
        refine Or.inr (Or.inl ⟨rfl, hHRs, backed_bufNode hG hck' hlh ?_⟩)
        intro old ho
        rcases hold_state old ho with ⟨h1, _⟩ | h
        · rw [bufPartial_complete_of_old (hG.pwf a') hlh ho h1] at hpc; cases hpc
        · exact h
      | true =>
        refine Or.inr (Or.inr ⟨rfl, hHRs, ?_⟩)
        by_cases hD : D
        · exact Or.inl hD
        · refine Or.inr ⟨by simp, ?_⟩
          by_cases hR : AllIn L R a' w
          · exact Or.inl hR
          · right
            apply backed_bufNode hG hck' hlh
            intro old ho
            rcases hold_state old ho with ⟨_, h2 | h2⟩ | h
            · exact absurd h2 hD
            · exact absurd h2 hR
            · exact h
    · rw [hpo hav] at hp
      rcases hG.part_state a' w p hp with ⟨h1, h2⟩ | ⟨h1, h2, h3⟩ | ⟨h1, h2, h3⟩
      · exact Or.inl ⟨h1, fun h => h2 ((hHRo hav).mp h)⟩
      · exact Or.inr (Or.inl ⟨h1, (hHRo hav).mpr h2, hsbo p hav h3⟩)
      · refine Or.inr (Or.inr ⟨h1, (hHRo hav).mpr h2, ?_⟩)
        rcases h3 with h3 | ⟨h3, h4⟩
        · exact Or.inl h3
        · refine Or.inr ⟨hAsub _ h3, ?_⟩
          rcases h4 with h4 | h4
          · exact Or.inl h4
          · exact Or.inr (hsbo p hav h4)
  · intro a' w x hx c hc hcx
    by_cases hav : a' = a ∧ w = v
    · obtain ⟨rfl, rfl⟩ := hav
      exact cover_bufNode' hG hL hck' hlh x hx c hc hcx
    · rcases hG.cover a' w x ((seqMem_bufNode_other hav x).mp hx) c hc hcx with h | h
      · left; rw [bufNode_buf]; exact mem_buf_bufferChunk h
      · exact Or.inr h
  · intro r hr
    rcases mem_bufNode_rows hr with h | h
    · exact hG.last_rows r h
    · subst h; exact hlast
  · intro a' w hh
    by_cases hav : a' = a ∧ w = v
    · obtain ⟨rfl, rfl⟩ := hav
      exact absurd hh not_held_new
    · exact hG.held a' w ((held_iff a' w hav).mp hh)
  · exact hG.rgot
  · intro r hr
    by_cases hav : r.site = a ∧ r.ver = v
    · left; rw [hav.1, hav.2]; exact ⟨_, hps⟩
    · rcases hG.rows_part r ((mem_bufNode_rows_other hav).mp hr) with ⟨p, hp⟩ | h
      · exact Or.inl ⟨p, by rw [hpo hav]; exact hp⟩
      · exact Or.inr h
  · intro c hc
    rw [bufNode_buf] at hc
    rcases mem_bufferChunk_buf hc with h | h
    · have := hG.buf_rows c h
      by_cases hav : c.site = a ∧ c.dbv = v
      · rw [hav.1, hav.2]; exact hHRs
      · exact (hHRo hav).mpr this
    · obtain ⟨_, h1, h2, _⟩ := hL.mem_get (hcs c h)
      rw [h1, h2]; exact hHRs
  · intro c hc
    rw [bufNode_buf] at hc
    rcases mem_bufferChunk_buf hc with h | h
    · exact hG.bufsub c h
    · exact (hL.mem_get (hcs c h)).1
  · intro a' w hc
    have hav : ¬ (a' = a ∧ w = v) := by
      rintro ⟨rfl, rfl⟩; exact hnc hc
    obtain ⟨h1, h2⟩ := hG.clr_none a' w hc
    exact ⟨hcvo a' w h1, by rw [hpo hav]; exact h2⟩

end Buffer

end Corro.ClusterSys.Full