/-
C01, protocol level, BATCHES AND CRASHES — liveness under a fairness hypothesis in the batched cluster
model with `kill` / `restart`: every node — dead or alive, across kills, restarts and batches — knows its
own versions with no partial (`reachF_own`); a lossless session `i ← j` whose answers an ALIVE client
processes in ANY split into batches makes `i` hold every foreign version a clean server `j` (dead or
alive) holds (`sync_step_progressF`); hence after writes and crashes have stopped, any schedule of
lossless sessions that contains a session `i ← a` for every alive node `i` and every other node `a`
ends with every alive node holding every version (`holds_after_scheduleF`).
-/
import Corro.Lemmas.ClusterFullSession
import Corro.Lemmas.ClusterFullStep
import Corro.Lemmas.ClusterBatchConv

namespace Corro.ClusterSys.Full
open Corro.Crdt Corro.Node

/-! ### sequences of batches, any node -/

theorem foldB_keeps {L : Log} (hL : LogOK L) (batches : List (List Item)) (s : Node × List Chg)
    (hN : NInv L s.1 s.2) (hI : Crash.KInv L s.1 s.2) (hck : ∀ b ∈ batches, ∀ it ∈ b, ChunkOK L it) {a v : Nat}
    (h : Crash.OwnHeld s.1 a v) : Crash.OwnHeld (batches.foldl deliverB s).1 a v := by
  induction batches generalizing s with
  | nil => exact h
  | cons b batches ih =>
    have h1 := hck b List.mem_cons_self
    exact ih (deliverB s b) (ninv_deliverB hN hL (fun it hit => chunkOK_changes hL (h1 it hit)))
      (kinv_deliverB hN hI hL h1) (fun x hx => hck x (List.mem_cons_of_mem _ hx))
      (deliverB_keeps hN hI hL h1 h)

theorem foldB_dbv_ge (batches : List (List Item)) (s : Node × List Chg) (a : Nat) :
    dbvOf s.1 a ≤ dbvOf (batches.foldl deliverB s).1 a := by
  induction batches generalizing s with
  | nil => exact Nat.le_refl _
  | cons b batches ih =>
    rw [List.foldl_cons]
    exact Nat.le_trans (dbvOf_deliverB_ge s.1 b a) (ih (deliverB s b))

theorem foldB_alive {L : Log} (hL : LogOK L) (batches : List (List Item)) (s : Node × List Chg)
    (hN : NInv L s.1 s.2) (hI : Crash.KInv L s.1 s.2) (hck : ∀ b ∈ batches, ∀ it ∈ b, ChunkOK L it) :
    (batches.foldl deliverB s).1.alive = s.1.alive := by
  induction batches generalizing s with
  | nil => rfl
  | cons b batches ih =>
    have h1 := hck b List.mem_cons_self
    rw [List.foldl_cons, ih (deliverB s b) (ninv_deliverB hN hL (fun it hit => chunkOK_changes hL (h1 it hit)))
      (kinv_deliverB hN hI hL h1) (fun x hx => hck x (List.mem_cons_of_mem _ hx))]
    exact deliverB_alive hN hI hL h1

/-! ### every node knows its own versions -/

theorem reachF_own {k : Nat} {c : Cluster} (h : ReachF k c) (hL : LogOK c.log) : Crash.OwnInvC k c := by
  induction h with
  | init => exact Crash.ownInvC_init k
  | @step c op hr hok hclean ih =>
    have hL0 := logOK_of_stepB hL
    have ih := ih hL0
    have hfull := reachF_inv hr hL0
    cases op with
    | write i stmts =>
      rw [stepB_write, step_write] at hL ⊢
      cases hi : c.nodes[i]? with
      | none => simp only [hi] at hL ⊢; exact ih
      | some n =>
        simp only [hi] at hL ⊢
        split at hL
        · rename_i n' ver chs hw
          simp only at hL
          have hn := hfull.node i n hi
          obtain ⟨_, hheld, hpart, hid, _, hdb, hdbver⟩ := Crash.cinv_write hn.1 hn.2 hw hL
          have hni := ih.ids i n hi
          have hlt : i < c.nodes.length := (List.getElem?_eq_some_iff.mp hi).1
          have hver : ver = c.log.head n.id + 1 := hL.2.1
          refine ⟨by simp [ih.len], ?_, ?_, ?_, ?_⟩
          · intro j m hj
            by_cases hij : i = j
            · subst hij
              simp only [List.getElem?_set_self hlt, Option.some.injEq] at hj
              rw [← hj, hid]; exact hni
            · simp only [List.getElem?_set_ne hij] at hj
              exact ih.ids j m hj
          · intro e he
            rcases List.mem_cons.mp he with rfl | he
            · simp only; rw [hni, ← ih.len]; exact hlt
            · exact ih.sites e he
          · intro j m hj v h1 h2
            rw [head_cons] at h2
            simp only at h2
            by_cases hij : i = j
            · subst hij
              simp only [List.getElem?_set_self hlt, Option.some.injEq] at hj
              rw [← hj]
              rw [if_pos hni] at h2
              rw [hni] at hver
              by_cases hv : v = ver
              · refine ⟨((hheld i v).mpr (Or.inl ⟨hni.symm, by omega, by omega⟩)).1, ?_⟩
                rw [hpart]
                cases hp : (n.booked i).partial? v with
                | none => rfl
                | some p =>
                  have := ((containsVersion_iff _ _).mp (hn.2.part_known i v p hp)).2
                  have := hn.2.head_le i
                  omega
              · have ho := ih.own i n hi v h1 (by omega)
                exact ⟨((hheld i v).mpr (Or.inr ho.held)).1, by rw [hpart]; exact ho.2⟩
            · simp only [List.getElem?_set_ne hij] at hj
              rw [if_neg (by rw [hni]; exact hij)] at h2
              exact ih.own j m hj v h1 h2
          · intro j m hj
            rw [head_cons]
            simp only
            by_cases hij : i = j
            · subst hij
              simp only [List.getElem?_set_self hlt, Option.some.injEq] at hj
              rw [← hj, if_pos hni]
              rw [hni] at hver hdbver
              omega
            · simp only [List.getElem?_set_ne hij] at hj
              rw [if_neg (by rw [hni]; exact hij)]
              exact ih.own_dbv j m hj
        · exact ih
    | deliverOrigins i chunks =>
      rw [stepB_deliverOrigins] at hL ⊢
      cases hi' : c.nodes[i]? with
      | none => simp only [hi'] at hL ⊢; exact ih
      | some n =>
        simp only [hi'] at hL ⊢
        have hn := hfull.node i n hi'
        exact Crash.ownInvC_setNode ih hi' (deliverB_id n _)
          (fun v _ _ hh => deliverB_keeps hn.1 hn.2 hL0 (chunkOK_originBatch hL0 chunks) hh)
          (dbvOf_deliverB_ge n _ i)
    | syncB i j batches =>
      rw [stepB_syncB] at hL ⊢
      cases hi : c.nodes[i]? with
      | none => simp only [hi] at hL ⊢; exact ih
      | some ni =>
        cases hj : c.nodes[j]? with
        | none => simp only [hi, hj] at hL ⊢; exact ih
        | some nj =>
          simp only [hi, hj] at hL ⊢
          split
          · exact ih
          · have hni := hfull.node i ni hi
            have hnj := hfull.node j nj hj
            exact Crash.ownInvC_setNode ih hi (foldB_id _ _)
              (fun v _ _ hh => foldB_keeps hL0 _ (ni, c.R i) hni.1 hni.2
                (chunkOK_pickBatches hnj.1 hnj.2 hL0 (serverCleanB_sync hclean hj) batches) hh)
              (foldB_dbv_ge _ (ni, c.R i) i)
    | kill i =>
      rw [stepB_kill, step_kill] at hL ⊢
      cases hi : c.nodes[i]? with
      | none => simp only [hi] at hL ⊢; exact ih
      | some n =>
        simp only [hi] at hL ⊢
        exact Crash.ownInvC_setNode ih hi (s := (n.kill, c.R i)) rfl (fun _ _ _ hh => hh) (Nat.le_refl _)
    | restart i =>
      rw [stepB_restart, step_restart] at hL ⊢
      cases hi : c.nodes[i]? with
      | none => simp only [hi] at hL ⊢; exact ih
      | some n =>
        simp only [hi] at hL ⊢
        have hn := hfull.node i n hi
        exact Crash.ownInvC_setNode ih hi (s := (n.restart, restartMerged n ++ c.R i)) (restart_id n)
          (fun v _ h2 hh => Crash.restart_keeps hn.2 hL0 hh (Nat.le_trans h2 (ih.own_dbv i n hi)))
          (Crash.dbvOf_restart_ge n i)

/-! ### one lossless session, in batches -/

/-- **`sync_round_progress`, batches and crashes.**  In a cluster reachable by any steps of the batched
model (kills and restarts included), a session of an ALIVE client `i` with a clean server `j` (dead or
alive) that is lossless (`LosslessB`: the client's batches contain answers only, every answer in at
least one batch) leaves `i` alive and holding every version of every actor other than `i` that `j`
holds — and everything `i` held. -/
theorem sync_step_progressF {k : Nat} {c : Cluster} (h : ReachF k c) (hL : LogOK c.log)
    {i j : Nat} (hij : i ≠ j) {ni nj : Node} (hi : c.nodes[i]? = some ni)
    (hj : c.nodes[j]? = some nj) (hcl : nodeClean nj = true) (hal : ni.alive = true)
    {batches : List (List Pick)} (hless : LosslessB (answers ni nj) batches) :
    ∃ ni', (stepB c (.syncB i j batches)).nodes[i]? = some ni' ∧ ni'.alive = true ∧
      (∀ a v, a ≠ i → 1 ≤ v → Held nj a v → Held ni' a v) ∧ (∀ a v, Held ni a v → Held ni' a v) := by
  have hfull := reachF_inv h hL
  have hown := reachF_own h hL
  have hni := hfull.node i ni hi
  have hnj := hfull.node j nj hj
  have hA : Crash.AInv c.log ni (c.R i) := ⟨hni.1, Crash.kinv_alive hni.2 hal, hal⟩
  have hck := chunkOK_pickBatches (ni := ni) hnj.1 hnj.2 hL hcl batches
  rw [stepB_syncB]
  simp only [hi, hj, if_neg hij]
  refine ⟨_, setNode_nodes_self hi _, ?_, ?_, ?_⟩
  · exact (foldB_ainv hL _ (ni, c.R i) hA hck).alive
  · intro a v ha hv hh
    exact session_progressB hL hA hnj.1 hnj.2 hcl
      (by rw [hown.ids i ni hi]; exact ha) hv hh _ (losslessB_sub hless) (losslessB_cov hless)
  · intro a v hh
    exact foldB_held_mono hL _ (ni, c.R i) hA hck hh

/-! ### a schedule of lossless sessions -/

/-- a sync step changes no `alive` flag -/
theorem syncB_alive {k : Nat} {c : Cluster} (h : ReachF k c) (hL : LogOK c.log) (hcl : c.clean = true)
    (i j : Nat) (batches : List (List Pick)) (m : Nat) :
    (∀ n, c.nodes[m]? = some n →
      ∃ n', (stepB c (.syncB i j batches)).nodes[m]? = some n' ∧ n'.alive = n.alive) ∧
    (∀ n', (stepB c (.syncB i j batches)).nodes[m]? = some n' →
      ∃ n, c.nodes[m]? = some n ∧ n'.alive = n.alive) := by
  by_cases him : i = m
  · subst him
    have key : (stepB c (.syncB i j batches)).nodes[i]? = c.nodes[i]? ∨
        ∃ ni ni', c.nodes[i]? = some ni ∧ (stepB c (.syncB i j batches)).nodes[i]? = some ni' ∧
          ni'.alive = ni.alive := by
      rw [stepB_syncB]
      cases hi : c.nodes[i]? with
      | none => left; simp only; exact hi
      | some ni =>
        cases hj : c.nodes[j]? with
        | none => left; simp only; exact hi
        | some nj =>
          simp only
          split
          · left; exact hi
          · right
            have hfull := reachF_inv h hL
            have hni := hfull.node i ni hi
            have hnj := hfull.node j nj hj
            exact ⟨ni, _, rfl, setNode_nodes_self hi _,
              foldB_alive hL _ (ni, c.R i) hni.1 hni.2
                (chunkOK_pickBatches hnj.1 hnj.2 hL (clean_node hcl hj) batches)⟩
    rcases key with h | ⟨ni, ni', h1, h2, h3⟩
    · rw [h]
      exact ⟨fun n hn => ⟨n, hn, rfl⟩, fun n' hn' => ⟨n', hn', rfl⟩⟩
    · rw [h1, h2]
      constructor
      · intro n hn; cases hn; exact ⟨ni', rfl, h3⟩
      · intro n' hn'; cases hn'; exact ⟨ni, rfl, h3⟩
  · rw [syncB_nodes_other c i j batches him]
    exact ⟨fun n hn => ⟨n, hn, rfl⟩, fun n' hn' => ⟨n', hn', rfl⟩⟩

theorem aliveAt_syncB {k : Nat} {c : Cluster} (h : ReachF k c) (hL : LogOK c.log) (hcl : c.clean = true)
    (i j : Nat) (batches : List (List Pick)) (m : Nat) :
    Crash.AliveAt (stepB c (.syncB i j batches)) m ↔ Crash.AliveAt c m := by
  obtain ⟨h1, h2⟩ := syncB_alive h hL hcl i j batches m
  constructor
  · intro h n hn
    obtain ⟨n', hn', he⟩ := h1 n hn
    rw [← he]; exact h n' hn'
  · intro h n' hn'
    obtain ⟨n, hn, he⟩ := h2 n' hn'
    rw [he]; exact h n hn

theorem reachF_sync {k : Nat} {c : Cluster} (h : ReachF k c) (hcl : c.clean = true) (i j : Nat)
    (batches : List (List Pick)) : ReachF k (stepB c (.syncB i j batches)) :=
  ReachF.step (.syncB i j batches) h trivial (serverCleanB_of_clean hcl _)

/-- a sync session never loses `HoldsAll` of an alive node -/
theorem holdsAll_syncF {k : Nat} {c : Cluster} (h : ReachF k c) (hL : LogOK c.log)
    (hcl : c.clean = true) (i j : Nat) (batches : List (List Pick)) {m a : Nat} (hal : Crash.AliveAt c m)
    (hm : HoldsAll c m a) : HoldsAll (stepB c (.syncB i j batches)) m a := by
  intro n hn v h1 h2
  rw [syncB_log] at h2
  by_cases him : i = m
  · subst him
    rw [stepB_syncB] at hn
    cases hi : c.nodes[i]? with
    | none => simp only [hi] at hn; cases hn
    | some ni =>
      cases hj : c.nodes[j]? with
      | none => simp only [hi, hj] at hn; cases hn; exact hm _ hi v h1 h2
      | some nj =>
        simp only [hi, hj] at hn
        split at hn
        · rw [hi] at hn; cases hn; exact hm _ hi v h1 h2
        · rw [setNode_nodes_self hi] at hn
          cases hn
          have hfull := reachF_inv h hL
          have hni := hfull.node i ni hi
          have hnj := hfull.node j nj hj
          have hA : Crash.AInv c.log ni (c.R i) := ⟨hni.1, Crash.kinv_alive hni.2 (hal ni hi), hal ni hi⟩
          exact foldB_held_mono hL _ (ni, c.R i) hA
            (chunkOK_pickBatches hnj.1 hnj.2 hL (clean_node hcl hj) batches) (hm ni hi v h1 h2)
  · rw [syncB_nodes_other c i j batches him] at hn
    exact hm n hn v h1 h2

/-- **`eventual_convergence`, the bookkeeping half, batches and crashes.**  Start from a cluster
reachable by any steps of the batched model — kills and restarts included — and run ANY schedule `ops`
of lossless sync sessions from clean states, each processed by its client in any split into batches.
If for every ALIVE node `i` and every other node `a` the schedule contains a session `i ← a`, then at
the end every node that was alive holds every version of every actor (killed nodes serve, but are not
claimed to catch up). -/
theorem holds_after_scheduleF {k : Nat} {c : Cluster} (h : ReachF k c) (hL : LogOK c.log)
    (ops : List OpB) (hrun : LosslessRunB c ops)
    (hcov : ∀ i a, i < k → a < k → Crash.AliveAt c i →
      HoldsAll c i a ∨ (i ≠ a ∧ ∃ batches, OpB.syncB i a batches ∈ ops)) :
    ReachF k (runB c ops) ∧ (runB c ops).log = c.log ∧
      (∀ i, Crash.AliveAt (runB c ops) i ↔ Crash.AliveAt c i) ∧
      ∀ i a, i < k → a < k → Crash.AliveAt c i → HoldsAll (runB c ops) i a := by
  induction ops generalizing c with
  | nil =>
    refine ⟨h, rfl, fun _ => Iff.rfl, ?_⟩
    intro i a hi ha hal
    rcases hcov i a hi ha hal with h1 | ⟨_, _, h2⟩
    · exact h1
    · cases h2
  | cons op ops ih =>
    obtain ⟨⟨i0, j0, b0, rfl, hless⟩, hcl, hrest⟩ := hrun
    have hr' := reachF_sync h hcl i0 j0 b0
    have hlog := syncB_log c i0 j0 b0
    have hL' : LogOK (stepB c (.syncB i0 j0 b0)).log := by rw [hlog]; exact hL
    have hA := aliveAt_syncB h hL hcl i0 j0 b0
    have := ih hr' hL' hrest ?_
    · exact ⟨this.1, this.2.1.trans hlog, fun i => (this.2.2.1 i).trans (hA i),
        fun i a hi ha hal => this.2.2.2 i a hi ha ((hA i).mpr hal)⟩
    · intro i a hi ha hal'
      have hal := (hA i).mp hal'
      rcases hcov i a hi ha hal with h1 | ⟨hne, batches, hmem⟩
      · exact Or.inl (holdsAll_syncF h hL hcl i0 j0 b0 hal h1)
      · rcases List.mem_cons.mp hmem with heq | hmem
        · simp only [OpB.syncB.injEq] at heq
          obtain ⟨rfl, rfl, rfl⟩ := heq
          left
          have hown := reachF_own h hL
          have hlen := hown.len
          obtain ⟨ni, hni⟩ : ∃ ni, c.nodes[i]? = some ni :=
            ⟨c.nodes[i]'(by omega), List.getElem?_eq_getElem (by omega)⟩
          obtain ⟨na, hna⟩ : ∃ na, c.nodes[a]? = some na :=
            ⟨c.nodes[a]'(by omega), List.getElem?_eq_getElem (by omega)⟩
          obtain ⟨ni', h1, _, h2, _⟩ :=
            sync_step_progressF h hL hne hni hna (clean_node hcl hna) (hal ni hni) (hless ni na hni hna)
          intro n hn v hv1 hv2
          rw [h1] at hn
          cases hn
          rw [hlog] at hv2
          exact h2 a v (fun h => hne h.symm) hv1 (hown.own a na hna v hv1 hv2).held
        · exact Or.inr ⟨hne, batches, hmem⟩

end Corro.ClusterSys.Full
