/-
Remote versions on the node (C07): merging changes of OTHER actors creates no clock entry attributed
to the own site, keeps the own version counter, the own bookkeeping and the invariants `DbOk` / `Good`.
-/
import Corro.Lemmas.LocalTx
namespace Corro.Crdt

theorem rowClocks_resurrect {o : Option Row} {c : Chg} {k : Clock} (h : k ∈ rowClocks (resurrect o c)) :
    k.site = c.site ∨ ∃ r, o = some r ∧ ∃ k' ∈ rowClocks r, k'.site = k.site ∧ k'.dbv = k.dbv := by
  unfold rowClocks at h
  rw [resurrect_cells] at h
  simp only [resurrect, Option.toList, List.mem_append, List.mem_cons, List.mem_map] at h
  rcases h with h | ⟨x, hx, rfl⟩
  · rcases h with rfl | h
    · exact Or.inl rfl
    · cases h
  · cases o with
    | none => cases hx
    | some r =>
      simp only [] at hx
      split at hx
      · obtain ⟨y, hy, rfl⟩ := List.mem_map.mp hx
        exact Or.inr ⟨r, rfl, y.clk, List.mem_append_right _ (List.mem_map_of_mem hy), rfl, rfl⟩
      · cases hx

theorem mergeRow_clocks {o : Option Row} {c : Chg} {s : Nat} {r' : Row} (hc : c.site ≠ s)
    (h : mergeRow o c = some r') :
    ∀ k ∈ rowClocks r', k.site = s →
      ∃ r, o = some r ∧ ∃ k' ∈ rowClocks r, k'.site = s ∧ k'.dbv = k.dbv := by
  have hres : ∀ k ∈ rowClocks (resurrect o c), k.site = s →
      ∃ r, o = some r ∧ ∃ k' ∈ rowClocks r, k'.site = s ∧ k'.dbv = k.dbv := by
    intro k hk hs
    rcases rowClocks_resurrect hk with h1 | ⟨r, hr, k', hk', h1, h2⟩
    · exact absurd (h1.symm.trans hs) hc
    · exact ⟨r, hr, k', hk', h1.trans hs, h2⟩
  have hset : ∀ (X : Row), (∀ k ∈ rowClocks X, k.site = s →
      ∃ r, o = some r ∧ ∃ k' ∈ rowClocks r, k'.site = s ∧ k'.dbv = k.dbv) →
      ∀ k ∈ rowClocks (X.setCell c.cell), k.site = s →
      ∃ r, o = some r ∧ ∃ k' ∈ rowClocks r, k'.site = s ∧ k'.dbv = k.dbv := by
    intro X hX k hk hs
    rcases mem_rowClocks_setCell hk with rfl | hk
    · exact absurd hs hc
    · exact hX k hk hs
  have hself : ∀ r, o = some r → ∀ k ∈ rowClocks r, k.site = s →
      ∃ r, o = some r ∧ ∃ k' ∈ rowClocks r, k'.site = s ∧ k'.dbv = k.dbv :=
    fun r hr k hk hs => ⟨r, hr, k, hk, hs, rfl⟩
  unfold mergeRow at h
  simp only [] at h
  split at h
  · cases h
  split at h
  · split at h
    · cases h
    · cases h
      intro k hk hs
      simp [rowClocks] at hk
      subst hk
      exact absurd hs hc
  split at h
  · split at h
    · cases h
    · cases h; exact hres
  split at h
  · cases h
    split
    · apply hset
      intro k hk; simp [rowClocks] at hk
    · exact hset _ hres
  · split at h
    · cases h
    · skip
      split at h
      · cases h; exact hset _ (hself _ rfl)
      · split at h
        · cases h; exact hset _ (hself _ rfl)
        · cases h

theorem merge_clocks {db : Db} {c : Chg} {s : Nat} (hc : c.site ≠ s) :
    ∀ k ∈ dbClocks (merge db c), k.site = s → ∃ k' ∈ dbClocks db, k'.site = s ∧ k'.dbv = k.dbv := by
  intro k hk hs
  rw [merge_eq] at hk
  cases hm : mergeRow (db.findRow c.tbl c.pk) c with
  | none => rw [hm] at hk; exact ⟨k, hk, hs, rfl⟩
  | some r' =>
    rw [hm] at hk
    obtain ⟨x, hx, hkx⟩ := mem_dbClocks.mp hk
    rcases mem_rows_setRow hx with rfl | hx
    · obtain ⟨r, hr, k', hk', h1, h2⟩ := mergeRow_clocks hc hm k hkx hs
      exact ⟨k', mem_dbClocks.mpr ⟨r, (findRow_some hr).2.2, hk'⟩, h1, h2⟩
    · exact ⟨k, mem_dbClocks.mpr ⟨x, hx, hkx⟩, hs, rfl⟩

@[simp] theorem merge_dbv (db : Db) (c : Chg) : (merge db c).dbv = db.dbv := by
  rw [merge_eq]; cases mergeRow (db.findRow c.tbl c.pk) c <;> simp [Db.applyRow]

/-- merging changes of OTHER sites keeps the store invariant and the own version counter -/
theorem DbOk.merge {db : Db} (h : DbOk db) {c : Chg} (hc : c.site ≠ db.site) : DbOk (Crdt.merge db c) := by
  refine ⟨merge_noDup c h.nodup, ?_⟩
  intro k hk hs
  rw [merge_site] at hs
  obtain ⟨k', hk', h1, h2⟩ := merge_clocks hc k hk hs
  rw [merge_dbv, ← h2]
  exact h.le k' hk' h1

theorem DbOk.mergeAll {cs : List Chg} {db : Db} (h : DbOk db) (hc : ∀ c ∈ cs, c.site ≠ db.site) :
    DbOk (Crdt.mergeAll db cs) ∧ (Crdt.mergeAll db cs).site = db.site ∧ (Crdt.mergeAll db cs).dbv = db.dbv := by
  induction cs generalizing db with
  | nil => exact ⟨h, rfl, rfl⟩
  | cons c cs ih =>
    have h1 := h.merge (hc c List.mem_cons_self)
    have := ih h1 (fun x hx => by rw [merge_site]; exact hc x (List.mem_cons_of_mem _ hx))
    simp only [Crdt.mergeAll, List.foldl_cons] at this ⊢
    exact ⟨this.1, this.2.1.trans (merge_site db c), this.2.2.trans (merge_dbv db c)⟩

end Corro.Crdt

namespace Corro.LocalTx
open Corro.Crdt Corro.Node

theorem mergeChanges_fields (cs : List Chg) (n : Node) :
    (n.mergeChanges cs).db = mergeAll n.db cs ∧ (n.mergeChanges cs).id = n.id ∧
    (n.mergeChanges cs).book = n.book := by
  induction cs generalizing n with
  | nil => exact ⟨rfl, rfl, rfl⟩
  | cons c cs ih =>
    have := ih ({ (n.bumpDbv c.site c.dbv) with db := merge n.db c })
    simp only [Node.mergeChanges, mergeAll, List.foldl_cons] at this ⊢
    refine ⟨this.1, ?_, ?_⟩
    · rw [this.2.1]; simp
    · rw [this.2.2]; simp

theorem remote_own (n : LNode) (chs : List Chg) : (n.remote chs).own = n.own := by
  have h := mergeChanges_fields chs n.node
  unfold LNode.own LNode.remote Node.booked
  simp only [h.2.1, h.2.2]

theorem remote_dbv (n : LNode) (chs : List Chg) : (n.remote chs).node.db.dbv = n.node.db.dbv := by
  have h := mergeChanges_fields chs n.node
  show (n.node.mergeChanges chs).db.dbv = _
  rw [h.1]
  clear h
  generalize n.node.db = db
  induction chs generalizing db with
  | nil => rfl
  | cons c cs ih => simp only [mergeAll, List.foldl_cons] at ih ⊢; rw [ih]; exact merge_dbv db c

theorem good_remote {n : LNode} (hg : Good n) {chs : List Chg} (hc : ∀ c ∈ chs, c.site ≠ n.node.id) :
    Good (n.remote chs) := by
  have h := mergeChanges_fields chs n.node
  have hm := hg.db.mergeAll (cs := chs) (fun c hcs => by rw [hg.site]; exact hc c hcs)
  refine ⟨?_, ?_, ?_, ?_⟩
  · show (n.node.mergeChanges chs).db.site = (n.node.mergeChanges chs).id
    rw [h.1, h.2.1, hm.2.1]; exact hg.site
  · show DbOk (n.node.mergeChanges chs).db
    rw [h.1]; exact hm.1
  · rw [remote_own]; exact hg.needed
  · rw [remote_own, remote_dbv]; exact hg.max

end Corro.LocalTx
