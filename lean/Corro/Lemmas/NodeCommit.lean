/-
The in-memory part of `process_multiple_changes` after the commit (`insert_db` of all processed
versions, then `insert_partial` / removal of stale partials in processing order): what the resulting
bookkeeping is, in terms of the `processed` list of the transaction.
-/
import Corro.Lemmas.NodeTx
namespace Corro.Node
open Corro.Crdt

/-! ### `sup` and `insertDb` -/

theorem sup_foldl_ge (rs : List (Nat × Nat)) (m : Nat) : m ≤ rs.foldl (fun m r => Nat.max m r.2) m := by
  induction rs generalizing m with
  | nil => exact Nat.le_refl _
  | cons r rs ih => exact Nat.le_trans (Nat.le_max_left _ _) (ih _)

theorem le_sup {rs : List (Nat × Nat)} {r : Nat × Nat} (h : r ∈ rs) : r.2 ≤ sup rs := by
  unfold sup
  suffices hs : ∀ m, r.2 ≤ rs.foldl (fun m r => Nat.max m r.2) m from hs 0
  induction rs with
  | nil => cases h
  | cons a l ih =>
    intro m
    simp only [List.foldl_cons]
    rcases List.mem_cons.mp h with rfl | h
    · exact Nat.le_trans (Nat.le_max_right _ _) (sup_foldl_ge _ _)
    · exact ih h _

theorem sup_attained (rs : List (Nat × Nat)) : sup rs = 0 ∨ ∃ r ∈ rs, sup rs = r.2 := by
  unfold sup
  suffices hs : ∀ m, rs.foldl (fun m r => Nat.max m r.2) m = m ∨
      ∃ r ∈ rs, rs.foldl (fun m r => Nat.max m r.2) m = r.2 by
    rcases hs 0 with h | h
    · exact Or.inl h
    · exact Or.inr h
  induction rs with
  | nil => intro m; left; rfl
  | cons a l ih =>
    intro m
    simp only [List.foldl_cons]
    rcases ih (Nat.max m a.2) with h | ⟨r, hr, h⟩
    · rw [h]
      by_cases hm : a.2 ≤ m
      · left; exact Nat.max_eq_left hm
      · right; exact ⟨a, by simp, Nat.max_eq_right (by omega)⟩
    · right; exact ⟨r, by simp [hr], h⟩

theorem insertDb_max (b : Booked) (vs : List (Nat × Nat)) (h : vs ≠ []) :
    (b.insertDb vs).max = Nat.max b.max (sup vs) := by
  unfold Booked.insertDb
  rw [if_neg (by simpa using h)]

theorem insertDb_needed_wf {b : Booked} (hw : RSet.WF b.needed) (vs : List (Nat × Nat))
    (hvs : ∀ r ∈ vs, r.1 ≤ r.2) : RSet.WF (b.insertDb vs).needed := by
  unfold Booked.insertDb
  split
  · exact hw
  · simp only
    apply RSet.removeAll_wf _ _ _ hvs
    split
    · rename_i h; exact RSet.insert_wf _ _ _ h hw
    · exact hw

theorem mem_insertDb_needed {b : Booked} (hw : RSet.WF b.needed) (vs : List (Nat × Nat))
    (hvs : ∀ r ∈ vs, r.1 ≤ r.2) (hne : vs ≠ []) (x : Nat) :
    RSet.Mem (b.insertDb vs).needed x ↔
      (RSet.Mem b.needed x ∨ (b.max + 1 ≤ x ∧ x ≤ sup vs)) ∧ ¬ ∃ r ∈ vs, r.1 ≤ x ∧ x ≤ r.2 := by
  unfold Booked.insertDb
  rw [if_neg (by simpa using hne)]
  simp only
  have hw1 : RSet.WF (if b.max + 1 ≤ sup vs then RSet.insert b.needed (b.max + 1, sup vs) else b.needed) := by
    split
    · rename_i h; exact RSet.insert_wf _ _ _ h hw
    · exact hw
  rw [RSet.mem_removeAll _ _ hw1 hvs]
  split
  · rename_i h
    rw [RSet.mem_insert _ _ _ _ h]
  · rename_i h
    constructor
    · rintro ⟨h1, h2⟩; exact ⟨Or.inl h1, h2⟩
    · rintro ⟨h1 | h1, h2⟩
      · exact ⟨h1, h2⟩
      · omega

/-! ### the after-commit fold -/

/-- `v` lies in the range of a processed entry that cleared / completed its versions -/
def NoneCov (P : List Processed) (v : Nat) : Prop := ∃ e ∈ P, e.part = none ∧ e.vlo ≤ v ∧ v ≤ e.vhi

structure CI (L : Nat → Nat → Nat) (site : Nat) (b1 : Booked) (done : List Processed)
    (acc : Booked × List (Nat × Nat)) : Prop where
  pwf : acc.1.PWF
  keys : acc.1.KeysSorted
  none_cov : ∀ v, NoneCov done v → acc.1.partial? v = none
  some_iff : ∀ v, ¬ NoneCov done v →
    ((acc.1.partial? v).isSome = true ↔
      (b1.partial? v).isSome = true ∨ ∃ e ∈ done, e.vlo = v ∧ e.part.isSome = true)
  mem : ∀ v p, acc.1.partial? v = some p →
    (∀ x, RSet.Mem p.seqs x ↔ (∃ p0, b1.partial? v = some p0 ∧ RSet.Mem p0.seqs x) ∨
      ∃ e ∈ done, e.vlo = v ∧ ∃ q, e.part = some q ∧ RSet.Mem q.seqs x) ∧ p.last = L site v
  needed : acc.1.needed = b1.needed
  max : acc.1.max = b1.max
  app_site : ∀ t ∈ acc.2, t.1 = site ∧ ∃ e ∈ done, e.vlo = t.2 ∧ e.part.isSome = true
  app_complete : ∀ v p, acc.1.partial? v = some p → p.complete = true →
    (∃ p0, b1.partial? v = some p0 ∧ p0.complete = true) ∨ (site, v) ∈ acc.2

/-- what the transaction invariant says about the `processed` list, as needed here -/
structure ProcOK (L : Nat → Nat → Nat) (site : Nat) (b1 : Booked) (P : List Processed) : Prop where
  pw : P.Pairwise (fun e f => e.part = none → f.part.isSome = true → ¬ (e.vlo ≤ f.vlo ∧ f.vlo ≤ e.vhi))
  shape : ∀ e ∈ P, ∀ q, e.part = some q → RSet.WF q.seqs ∧ q.last = L site e.vlo
  le_max : ∀ e ∈ P, e.vlo ≤ b1.max

theorem CI.init {L : Nat → Nat → Nat} {site : Nat} {b1 : Booked} (hp : b1.PWF) (hk : b1.KeysSorted)
    (hl : ∀ v p, b1.partial? v = some p → p.last = L site v) : CI L site b1 [] (b1, []) := by
  refine ⟨hp, hk, ?_, ?_, ?_, rfl, rfl, (fun t ht => by cases ht), ?_⟩
  · rintro v ⟨e, he, _⟩; cases he
  · intro v _
    constructor
    · intro h; exact Or.inl h
    · rintro (h | ⟨e, he, _⟩)
      · exact h
      · cases he
  · intro v p hp'
    refine ⟨?_, hl v p hp'⟩
    intro x
    constructor
    · intro h; exact Or.inl ⟨p, hp', h⟩
    · rintro (⟨p0, h1, h2⟩ | ⟨e, he, _⟩)
      · rw [hp'] at h1; cases h1; exact h2
      · cases he
  · intro v p hp' hc; exact Or.inl ⟨p, hp', hc⟩

theorem noneCov_append_some {done : List Processed} {f : Processed} (hf : f.part.isSome = true) (v : Nat) :
    NoneCov (done ++ [f]) v ↔ NoneCov done v := by
  unfold NoneCov
  constructor
  · rintro ⟨e, he, hn, hc⟩
    rcases List.mem_append.mp he with he' | he'
    · exact ⟨e, he', hn, hc⟩
    · simp only [List.mem_singleton] at he'
      rw [he'] at hn; rw [hn] at hf; cases hf
  · rintro ⟨e, he, hn, hc⟩; exact ⟨e, by simp [he], hn, hc⟩

theorem CI.stepSome {L : Nat → Nat → Nat} {site : Nat} {b1 : Booked} {done : List Processed}
    {acc : Booked × List (Nat × Nat)} (h : CI L site b1 done acc) (f : Processed) (q : Partial)
    (hq : f.part = some q) (hqw : RSet.WF q.seqs) (hql : q.last = L site f.vlo)
    (hle : f.vlo ≤ b1.max) (hnc : ¬ NoneCov done f.vlo) :
    CI L site b1 (done ++ [f]) (commitStep site acc f) := by
  have hfs : f.part.isSome = true := by rw [hq]; rfl
  have hsame := partial?_insertPartial_same acc.1 f.vlo q
  have hother := partial?_insertPartial_other acc.1 f.vlo q
  have hfst : (commitStep site acc f).1 = (acc.1.insertPartial f.vlo q).1 := by
    unfold commitStep; rw [hq]; simp only; split <;> rfl
  have hsnd : (commitStep site acc f).2 =
      if (mergedPartial acc.1 f.vlo q).complete then acc.2 ++ [(site, f.vlo)] else acc.2 := by
    unfold commitStep; rw [hq]; simp only; rw [insertPartial_snd]; split <;> rfl
  refine ⟨by rw [hfst]; exact insertPartial_pwf h.pwf f.vlo hqw,
    by rw [hfst]; exact insertPartial_keysSorted h.keys f.vlo q, ?_, ?_, ?_,
    by rw [hfst, insertPartial_needed]; exact h.needed, ?_, ?_, ?_⟩
  · intro v hv
    rw [noneCov_append_some hfs] at hv
    have hvne : v ≠ f.vlo := by rintro rfl; exact hnc hv
    rw [hfst, hother v hvne]; exact h.none_cov v hv
  · intro v hv
    rw [noneCov_append_some hfs] at hv
    rw [hfst]
    by_cases hvv : v = f.vlo
    · subst hvv
      rw [hsame]
      simp only [Option.isSome_some, true_iff]
      exact Or.inr ⟨f, by simp, rfl, hfs⟩
    · rw [hother v hvv, h.some_iff v hv]
      constructor
      · rintro (h1 | ⟨e, he, h1⟩)
        · exact Or.inl h1
        · exact Or.inr ⟨e, by simp [he], h1⟩
      · rintro (h1 | ⟨e, he, h1, h2⟩)
        · exact Or.inl h1
        · rcases List.mem_append.mp he with he' | he'
          · exact Or.inr ⟨e, he', h1, h2⟩
          · simp only [List.mem_singleton] at he'
            rw [he'] at h1; exact absurd h1.symm hvv
  · intro v p hp
    rw [hfst] at hp
    by_cases hvv : v = f.vlo
    · subst hvv
      rw [hsame] at hp
      simp only [Option.some.injEq] at hp
      subst hp
      constructor
      · intro x
        rw [mem_mergedPartial f.vlo hqw]
        constructor
        · rintro (⟨old, ho, hm⟩ | hm)
          · rcases ((h.mem f.vlo old ho).1 x).mp hm with h1 | ⟨e, he, h1⟩
            · exact Or.inl h1
            · exact Or.inr ⟨e, by simp [he], h1⟩
          · exact Or.inr ⟨f, by simp, rfl, q, hq, hm⟩
        · rintro (⟨p0, h1, h2⟩ | ⟨e, he, h1, q', h2, h3⟩)
          · left
            have hs : (acc.1.partial? f.vlo).isSome = true :=
              (h.some_iff f.vlo hnc).mpr (Or.inl (by rw [h1]; rfl))
            cases ho : acc.1.partial? f.vlo with
            | none => rw [ho] at hs; cases hs
            | some old => exact ⟨old, rfl, ((h.mem f.vlo old ho).1 x).mpr (Or.inl ⟨p0, h1, h2⟩)⟩
          · rcases List.mem_append.mp he with he' | he'
            · left
              have hs : (acc.1.partial? f.vlo).isSome = true :=
                (h.some_iff f.vlo hnc).mpr (Or.inr ⟨e, he', h1, by rw [h2]; rfl⟩)
              cases ho : acc.1.partial? f.vlo with
              | none => rw [ho] at hs; cases hs
              | some old => exact ⟨old, rfl, ((h.mem f.vlo old ho).1 x).mpr (Or.inr ⟨e, he', h1, q', h2, h3⟩)⟩
            · simp only [List.mem_singleton] at he'
              rw [he', hq] at h2
              cases h2
              exact Or.inr h3
      · rw [mergedPartial_last]
        cases ho : acc.1.partial? f.vlo with
        | none => exact hql
        | some old => exact (h.mem f.vlo old ho).2
    · rw [hother v hvv] at hp
      refine ⟨?_, (h.mem v p hp).2⟩
      intro x
      rw [(h.mem v p hp).1 x]
      constructor
      · rintro (h1 | ⟨e, he, h1⟩)
        · exact Or.inl h1
        · exact Or.inr ⟨e, by simp [he], h1⟩
      · rintro (h1 | ⟨e, he, h1, h2⟩)
        · exact Or.inl h1
        · rcases List.mem_append.mp he with he' | he'
          · exact Or.inr ⟨e, he', h1, h2⟩
          · simp only [List.mem_singleton] at he'
            rw [he'] at h1; exact absurd h1.symm hvv
  · rw [hfst, insertPartial_max]
    split
    · exact h.max
    · have hmax : ∀ x y : Nat, Nat.max x y = Max.max x y := fun _ _ => rfl
      rw [hmax, h.max]; omega
  · intro t ht
    rw [hsnd] at ht
    have hold : ∀ t ∈ acc.2, t.1 = site ∧ ∃ e ∈ done ++ [f], e.vlo = t.2 ∧ e.part.isSome = true := by
      intro t ht
      obtain ⟨h1, e, he, h2⟩ := h.app_site t ht
      exact ⟨h1, e, by simp [he], h2⟩
    split at ht
    · rcases List.mem_append.mp ht with ht' | ht'
      · exact hold t ht'
      · simp only [List.mem_singleton] at ht'
        rw [ht']
        exact ⟨rfl, f, by simp, rfl, hfs⟩
    · exact hold t ht
  · intro v p hp hc
    rw [hfst] at hp
    rw [hsnd]
    by_cases hvv : v = f.vlo
    · subst hvv
      rw [hsame] at hp
      simp only [Option.some.injEq] at hp
      subst hp
      right
      rw [if_pos hc]; simp
    · rw [hother v hvv] at hp
      rcases h.app_complete v p hp hc with h1 | h1
      · exact Or.inl h1
      · right
        split
        · exact List.mem_append.mpr (Or.inl h1)
        · exact h1

theorem CI.stepNone {L : Nat → Nat → Nat} {site : Nat} {b1 : Booked} {done : List Processed}
    {acc : Booked × List (Nat × Nat)} (h : CI L site b1 done acc) (f : Processed) (hq : f.part = none) :
    CI L site b1 (done ++ [f]) (commitStep site acc f) := by
  have hstep : commitStep site acc f = (acc.1.dropPartials f.vlo f.vhi, acc.2) := by
    unfold commitStep; rw [hq]
  rw [hstep]
  have hcov : ∀ v, NoneCov (done ++ [f]) v ↔ NoneCov done v ∨ (f.vlo ≤ v ∧ v ≤ f.vhi) := by
    intro v
    unfold NoneCov
    constructor
    · rintro ⟨e, he, hn, hc⟩
      rcases List.mem_append.mp he with he' | he'
      · exact Or.inl ⟨e, he', hn, hc⟩
      · simp only [List.mem_singleton] at he'
        rw [he'] at hc; exact Or.inr hc
    · rintro (⟨e, he, hn, hc⟩ | hc)
      · exact ⟨e, by simp [he], hn, hc⟩
      · exact ⟨f, by simp, hq, hc⟩
  have hsomeEx : ∀ v (R : Processed → Prop), (∀ e, R e → e.part.isSome = true) →
      ((∃ e ∈ done ++ [f], e.vlo = v ∧ R e) ↔ ∃ e ∈ done, e.vlo = v ∧ R e) := by
    intro v R hR
    constructor
    · rintro ⟨e, he, h1, h2⟩
      rcases List.mem_append.mp he with he' | he'
      · exact ⟨e, he', h1, h2⟩
      · simp only [List.mem_singleton] at he'
        have := hR e h2
        rw [he', hq] at this; cases this
    · rintro ⟨e, he, h1⟩; exact ⟨e, by simp [he], h1⟩
  refine ⟨dropPartials_pwf h.pwf _ _, dropPartials_keysSorted h.keys _ _, ?_, ?_, ?_, h.needed, h.max, ?_, ?_⟩
  · intro v hv
    simp only
    rw [partial?_dropPartials]
    split
    · rfl
    · rename_i hr
      rcases (hcov v).mp hv with h1 | h1
      · exact h.none_cov v h1
      · exact absurd h1 hr
  · intro v hv
    simp only
    have hv' : ¬ NoneCov done v ∧ ¬ (f.vlo ≤ v ∧ v ≤ f.vhi) := by
      constructor
      · intro hc; exact hv ((hcov v).mpr (Or.inl hc))
      · intro hc; exact hv ((hcov v).mpr (Or.inr hc))
    rw [partial?_dropPartials, if_neg hv'.2, h.some_iff v hv'.1,
      hsomeEx v (fun e => e.part.isSome = true) (fun _ h => h)]
  · intro v p hp
    simp only at hp
    rw [partial?_dropPartials] at hp
    split at hp
    · cases hp
    · refine ⟨?_, (h.mem v p hp).2⟩
      intro x
      rw [(h.mem v p hp).1 x,
        hsomeEx v (fun e => ∃ q, e.part = some q ∧ RSet.Mem q.seqs x)
          (fun e ⟨q, h1, _⟩ => by rw [h1]; rfl)]
  · intro t ht
    obtain ⟨h1, e, he, h2⟩ := h.app_site t ht
    exact ⟨h1, e, by simp [he], h2⟩
  · intro v p hp hc
    simp only at hp
    rw [partial?_dropPartials] at hp
    split at hp
    · cases hp
    · exact h.app_complete v p hp hc

/-- the invariant holds after the whole fold -/
theorem commitFold_CI {L : Nat → Nat → Nat} {site : Nat} {b1 : Booked} (hp : b1.PWF) (hk : b1.KeysSorted)
    (hl : ∀ v p, b1.partial? v = some p → p.last = L site v) (P : List Processed)
    (hP : ProcOK L site b1 P) : CI L site b1 P (P.foldl (commitStep site) (b1, [])) := by
  suffices hs : ∀ (rest done : List Processed) (acc : Booked × List (Nat × Nat)), P = done ++ rest →
      CI L site b1 done acc → CI L site b1 (done ++ rest) (rest.foldl (commitStep site) acc) by
    simpa using hs P [] (b1, []) rfl (CI.init hp hk hl)
  intro rest
  induction rest with
  | nil => intro done acc _ h; simpa using h
  | cons f rest ih =>
    intro done acc hPeq h
    have hfP : f ∈ P := by rw [hPeq]; simp
    have hstep : CI L site b1 (done ++ [f]) (commitStep site acc f) := by
      cases hq : f.part with
      | none => exact h.stepNone f hq
      | some q =>
        have hsh := hP.shape f hfP q hq
        refine h.stepSome f q hq hsh.1 hsh.2 (hP.le_max f hfP) ?_
        rintro ⟨e, he, hn, hc⟩
        have hpw := hP.pw
        rw [hPeq] at hpw
        have := (List.pairwise_append.mp hpw).2.2 e he f (by simp)
        exact this hn (by rw [hq]; rfl) hc
    have := ih (done ++ [f]) (commitStep site acc f) (by rw [hPeq]; simp) hstep
    simpa using this

end Corro.Node
