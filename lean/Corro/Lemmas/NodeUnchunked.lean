/-
C03 helper lemmas for `apply_eq_unchunked`: the chunks of one version, delivered one per batch in any
order with duplicates and overlaps, to an alive node that does not know the version.
-/
import Corro.Lemmas.NodeSingle
namespace Corro.Node
open Corro.Crdt

/-- the change list of the version: strictly sorted by seq, attributed to `(site, ver)`, seqs within
`0..=last` -/
structure CsOK (site ver last : Nat) (cs : List Chg) : Prop where
  sorted : cs.Pairwise (fun x y => x.seq < y.seq)
  own : ∀ c ∈ cs, c.site = site ∧ c.dbv = ver ∧ c.seq ≤ last

/-- the changes of the chunk with seq range `r` -/
def chunkOf (cs : List Chg) (r : Nat × Nat) : List Chg := cs.filter (fun c => r.1 ≤ c.seq ∧ c.seq ≤ r.2)

def chunkItem (site ver last : Nat) (cs : List Chg) (r : Nat × Nat) : Item :=
  Item.full site ver r.1 r.2 last (chunkOf cs r)

theorem cs_inj {site ver last : Nat} {cs : List Chg} (h : CsOK site ver last cs) {x y : Chg}
    (hx : x ∈ cs) (hy : y ∈ cs) (hs : x.seq = y.seq) : x = y := by
  have hp := h.sorted
  induction cs with
  | nil => cases hx
  | cons a l ih =>
    have hp' := List.pairwise_cons.mp hp
    rcases List.mem_cons.mp hx with rfl | hx' <;> rcases List.mem_cons.mp hy with rfl | hy'
    · rfl
    · have := hp'.1 y hy'; omega
    · have := hp'.1 x hx'; omega
    · exact ih ⟨hp'.2, fun c hc => h.own c (by simp [hc])⟩ hx' hy' hp'.2

theorem chunkOf_all {site ver last : Nat} {cs : List Chg} (h : CsOK site ver last cs) :
    chunkOf cs (0, last) = cs := by
  unfold chunkOf
  apply List.filter_eq_self.mpr
  intro c hc
  have := (h.own c hc).2.2
  simp only [decide_eq_true_eq]
  omega

theorem chunkItem_wf {L : Nat → Nat → Nat} {site ver last : Nat} {cs : List Chg} (h : CsOK site ver last cs)
    (hL : L site ver = last) (r : Nat × Nat) (hr : r.2 ≤ last) : ItemWF L (chunkItem site ver last cs r) := by
  refine ⟨hL.symm, hr, ?_⟩
  intro c hc
  have hc' := List.mem_filter.mp hc
  have := h.own c hc'.1
  simp only [decide_eq_true_eq] at hc'
  exact ⟨this.1, this.2.1, hc'.2.1, hc'.2.2⟩

theorem finish_noApplies (N : Node) (cl : List (Nat × Nat × Nat)) : finish (N, [], cl) = clearAll N cl := by
  show (if (clearAll N cl).alive then clearAll N cl else clearAll N cl) = clearAll N cl
  split <;> rfl

/-! ### the two kinds of states -/

/-- the version is not applied yet -/
structure Before (L : Nat → Nat → Nat) (site ver : Nat) (cs : List Chg) (db0 : Db) (m : Node) : Prop where
  cons : Consistent L m
  alive : m.alive = true
  np : NoPending m
  keys : BufKeysUnique m.buf
  db : m.db = db0
  buf_sub : ∀ c ∈ m.buf, c.site = site → c.dbv = ver → c ∈ cs
  buf_sup : ∀ c ∈ cs, SeqMem m.seqRows site ver c.seq → c ∈ m.buf
  part : ((m.booked site).partial? ver = none ∧ (m.booked site).containsVersion ver = false) ∨
    ∃ q, (m.booked site).partial? ver = some q ∧ q.complete = false

/-- the version has been applied: the store is the old store with the whole change list merged, and
every further chunk of the version is known -/
structure After (site ver last : Nat) (cs : List Chg) (db0 : Db) (m : Node) : Prop where
  db : m.db = mergeAll db0 cs
  known : ∀ lo hi, hi ≤ last → (m.booked site).containsAll ver ver (some (lo, hi)) = true

theorem After.step {site ver last : Nat} {cs : List Chg} {db0 : Db} {m : Node} (h : After site ver last cs db0 m)
    (r : Nat × Nat) (hr : r.2 ≤ last) : (m.deliver [chunkItem site ver last cs r]) = m :=
  deliver_single_skip m _ (h.known r.1 r.2 hr)

/-- sorting the buffered rows of the version gives back the change list, once they are all there -/
theorem sortBySeq_bufOf_eq {site ver last : Nat} {cs : List Chg} (hcs : CsOK site ver last cs) (buf : List Chg)
    (hk : BufKeysUnique buf) (hsub : ∀ c ∈ buf, c.site = site → c.dbv = ver → c ∈ cs)
    (hsup : ∀ c ∈ cs, c ∈ buf) : sortBySeq (bufOf buf site ver) = cs := by
  have hmem : ∀ c, c ∈ bufOf buf site ver ↔ c ∈ cs := by
    intro c
    unfold bufOf
    rw [List.mem_filter]
    simp only [decide_eq_true_eq]
    constructor
    · rintro ⟨h1, h2, h3⟩; exact hsub c h1 h2 h3
    · intro h; have := hcs.own c h; exact ⟨hsup c h, this.1, this.2.1⟩
  have hnd : (bufOf buf site ver).Pairwise (fun x y => x.seq ≠ y.seq) := by
    have h1 : (bufOf buf site ver).Pairwise (fun x y => sameKey x y = false) :=
      List.Pairwise.sublist List.filter_sublist hk
    have h2 : (bufOf buf site ver).Pairwise (fun x y => (x.site = site ∧ x.dbv = ver) ∧ (y.site = site ∧ y.dbv = ver)) := by
      apply List.pairwise_of_forall_mem_list
      intro x hx y hy
      unfold bufOf at hx hy
      have hx' := (List.mem_filter.mp hx).2
      have hy' := (List.mem_filter.mp hy).2
      simp only [decide_eq_true_eq] at hx' hy'
      exact ⟨hx', hy'⟩
    refine List.Pairwise.imp ?_ (h1.and h2)
    rintro x y ⟨hk', ⟨hx1, hx2⟩, hy1, hy2⟩ hs
    simp only [sameKey, decide_eq_false_iff_not] at hk'
    exact hk' ⟨by rw [hy1, hx1], by rw [hy2, hx2], hs.symm⟩
  have hnd' : (sortBySeq (bufOf buf site ver)).Pairwise (fun x y => x.seq ≠ y.seq) :=
    (List.Perm.pairwise_iff (fun {_ _} h => Ne.symm h) (sortBySeq_perm _)).mpr hnd
  have hstrict : (sortBySeq (bufOf buf site ver)).Pairwise (fun x y => x.seq < y.seq) := by
    refine List.Pairwise.imp ?_ ((sortBySeq_sorted (bufOf buf site ver)).and hnd')
    rintro x y ⟨h1, h2⟩; omega
  apply eq_of_sorted_perm (fun (c : Chg) => c.seq) hstrict hcs.sorted
  intro c
  rw [mem_sortBySeq, hmem]

/-! ### one more chunk -/

theorem contains_some_eq (b : Booked) (v : Nat) (s : Nat × Nat) :
    b.contains v (some s) = (b.containsVersion v &&
      match b.partial? v with
      | some p => (RSet.gaps p.seqs s).isEmpty
      | none => true) := by
  unfold Booked.contains
  cases b.partial? v <;> rfl

section
variable {L : Nat → Nat → Nat} {site ver last : Nat} {cs : List Chg} {db0 : Db} {m : Node}

theorem Before.hasRows_of_partial (h : Before L site ver cs db0 m) {q : Partial}
    (hq : (m.booked site).partial? ver = some q) (hinc : q.complete = false) : HasRows m site ver := by
  apply Classical.byContradiction
  intro hnr
  have := (h.cons.actor site).norows_part ver q hq hnr
  rw [hinc] at this; cases this

/-- the whole version in one changeset -/
theorem Before.step_complete (h : Before L site ver cs db0 m) (hcs : CsOK site ver last cs)
    (hL : L site ver = last) :
    After site ver last cs db0 (m.deliver [chunkItem site ver last cs (0, last)]) := by
  have hca := h.cons.actor site
  have hitem : chunkItem site ver last cs (0, last) = Item.full site ver 0 last last cs := by
    unfold chunkItem; rw [chunkOf_all hcs]
  have hnc : (m.booked site).containsAll ver ver (some (0, last)) = false := by
    rw [containsAll_single, contains_some_eq]
    rcases h.part with ⟨h1, h2⟩ | ⟨q, hq, hinc⟩
    · rw [h2]; rfl
    · rw [hq]
      simp only
      have hql : q.last = last := by rw [hca.part_last ver q hq, hL]
      have : (RSet.gaps q.seqs (0, last)).isEmpty = false := by
        rw [← hql]; exact hinc
      rw [this, Bool.and_false]
  -- the bookkeeping of the actor afterwards
  have hknown : ∀ (N : Node), N.booked site = ((m.booked site).insertDb [(ver, ver)]).dropPartials ver ver →
      ∀ lo hi, (N.booked site).containsAll ver ver (some (lo, hi)) = true := by
    intro N hN lo hi
    rw [containsAll_single, contains_some_eq, hN, partial?_dropPartials,
      if_pos ⟨Nat.le_refl _, Nat.le_refl _⟩]
    simp only [Bool.and_true]
    unfold Booked.containsVersion
    rw [dropPartials_needed, dropPartials_max, insertDb_max _ _ (by simp), sup_singleton]
    have hnn := insertDb_not_needed (m.booked site) hca.needed_wf [(ver, ver)] (by simp) ver
      ⟨(ver, ver), by simp, Nat.le_refl _, Nat.le_refl _⟩
    have : RSet.contains ((m.booked site).insertDb [(ver, ver)]).needed ver = false := by
      cases hcn : RSet.contains ((m.booked site).insertDb [(ver, ver)]).needed ver with
      | false => rfl
      | true => exact absurd ((RSet.contains_iff _ _).mp hcn) hnn
    rw [this]
    simp only [Bool.not_false, Bool.true_and, decide_eq_true_eq]
    exact Nat.le_max_right _ _
  rw [hitem, deliver_eq', deliverFold_single m _ (by simpa [Item.site, Item.versions, Item.seqs] using hnc)]
  simp only [Item.site]
  by_cases hne : cs = []
  · subst hne
    rw [processActor_single_cleared m site ver last hnc, finish_noApplies]
    refine ⟨?_, ?_⟩
    · rw [clearAll_db, setBooked_db]
      split
      · rw [bumpDbv_db]; exact h.db
      · exact h.db
    · intro lo hi _
      apply hknown
      unfold Node.booked; rw [clearAll_book]
      exact booked_setBooked_same _ _ _
  · rw [processActor_single_complete m site ver last cs hnc hne, finish_noApplies]
    refine ⟨?_, ?_⟩
    · rw [clearAll_db, setBooked_db, mergeChanges_db, h.db]
    · intro lo hi _
      apply hknown
      unfold Node.booked; rw [clearAll_book]
      exact booked_setBooked_same _ _ _

/-- a chunk whose range is already received -/
theorem Before.step_skip (h : Before L site ver cs db0 m) (r : Nat × Nat)
    (hct : (m.booked site).containsAll ver ver (some r) = true) :
    m.deliver [chunkItem site ver last cs r] = m ∧ ∀ x, r.1 ≤ x ∧ x ≤ r.2 → SeqMem m.seqRows site ver x := by
  refine ⟨deliver_single_skip m _ hct, ?_⟩
  intro x hx
  have hca := h.cons.actor site
  rw [containsAll_single, contains_some_eq] at hct
  rcases h.part with ⟨h1, h2⟩ | ⟨q, hq, hinc⟩
  · rw [h2] at hct; cases hct
  · rw [hq] at hct
    simp only [Bool.and_eq_true] at hct
    have hmem := mem_of_gaps_empty (hca.pwf.of_partial? hq) hct.2 hx
    rcases hca.rows_part ver (h.hasRows_of_partial hq hinc) with h3 | ⟨q', hq', hm⟩
    · exact absurd h3 (not_covered_nil ver)
    · rw [hq] at hq'; cases hq'
      exact (hm x).mp hmem

/-- an incomplete chunk that is not yet (fully) received -/
theorem Before.step_buffer (h : Before L site ver cs db0 m) (hcs : CsOK site ver last cs)
    (hL : L site ver = last) (r : Nat × Nat) (hlh : r.1 ≤ r.2) (hr : r.2 ≤ last)
    (hinc : ¬ (r.1 = 0 ∧ r.2 = last))
    (hnc : (m.booked site).containsAll ver ver (some r) = false) :
    (Before L site ver cs db0 (m.deliver [chunkItem site ver last cs r]) ∧
      ∀ x, (SeqMem m.seqRows site ver x ∨ (r.1 ≤ x ∧ x ≤ r.2)) →
        SeqMem (m.deliver [chunkItem site ver last cs r]).seqRows site ver x) ∨
    After site ver last cs db0 (m.deliver [chunkItem site ver last cs r]) := by
  have hca := h.cons.actor site
  have hwf : ∀ it ∈ [chunkItem site ver last cs r], ItemWF L it := by
    intro it hit
    simp only [List.mem_singleton] at hit
    subst hit
    exact chunkItem_wf hcs hL r hr
  have hm'c := deliver_consistent' h.cons _ hwf
  have hm'np := deliver_noPending' h.cons _ hwf h.alive h.np
  -- the explicit pre-apply node
  have hfold := deliverFold_single m (chunkItem site ver last cs r)
    (by simpa [chunkItem, Item.site, Item.versions, Item.seqs] using hnc)
  have hpa := processActor_single_buffer m site ver r.1 r.2 last (chunkOf cs r) hnc hlh hinc
  simp only [chunkItem, Item.site] at hfold
  rw [hpa] at hfold
  generalize hX : (m.bufferChunk site ver r.1 r.2 last (chunkOf cs r)).1.setBooked site
    ((((m.booked site).insertDb [(ver, ver)]).insertPartial ver
      ⟨[(m.bufferChunk site ver r.1 r.2 last (chunkOf cs r)).2], last⟩).1) = X at hfold
  generalize hgot : mergedPartial ((m.booked site).insertDb [(ver, ver)]) ver
    ⟨[(m.bufferChunk site ver r.1 r.2 last (chunkOf cs r)).2], last⟩ = got at hfold
  have hpre : preApply m [chunkItem site ver last cs r] = X := by
    unfold preApply chunkItem; rw [hfold]; rfl
  have hXc : Consistent L X := by rw [← hpre]; exact preApply_consistent h.cons _ hwf
  have hXa := hXc.actor site
  have hXalive : X.alive = true := by
    rw [← hX, setBooked_alive, bufferChunk_alive]; exact h.alive
  have hXbuf : X.buf = bufAdd m.buf (chunkOf cs r) := by rw [← hX, setBooked_buf]; rfl
  have hXrows : X.seqRows = (m.bufferChunk site ver r.1 r.2 last (chunkOf cs r)).1.seqRows := by
    rw [← hX, setBooked_seqRows]
  have hXdb : X.db = db0 := by rw [← hX, setBooked_db, bufferChunk_db]; exact h.db
  have hXpart : (X.booked site).partial? ver = some got := by
    rw [← hX, booked_setBooked_same, partial?_insertPartial_same, hgot]
  have hf : ∀ r' ∈ rowsOf m.seqRows site ver, r'.lo ≤ r'.hi := by
    intro r' hr'; have := mem_rowsOf.mp hr'; exact (hca.rows_fwd r' this.1 this.2.1).1
  have hsm : ∀ x, SeqMem X.seqRows site ver x ↔ SeqMem m.seqRows site ver x ∨ (r.1 ≤ x ∧ x ≤ r.2) := by
    intro x; rw [hXrows]; exact seqMem_bufferChunk m site ver r.1 r.2 last _ hlh hf x
  have hXhr : HasRows X site ver := by
    obtain ⟨r', h1, h2⟩ := hasRows_bufferChunk_same m site ver r.1 r.2 last (chunkOf cs r)
    exact ⟨r', by rw [hXrows]; exact h1, h2⟩
  have hsub : ∀ c ∈ X.buf, c.site = site → c.dbv = ver → c ∈ cs := by
    intro c hc h1 h2
    rw [hXbuf] at hc
    rcases mem_bufAdd hc with h3 | h3
    · exact h.buf_sub c h3 h1 h2
    · exact (List.mem_filter.mp h3).1
  have hsup : ∀ c ∈ cs, SeqMem X.seqRows site ver c.seq → c ∈ X.buf := by
    intro c hc hm
    rw [hXbuf]
    rcases (hsm c.seq).mp hm with h1 | h1
    · exact (bufAdd_prefix m.buf _).subset (h.buf_sup c hc h1)
    · have hcc : c ∈ chunkOf cs r := List.mem_filter.mpr ⟨hc, by simpa using h1⟩
      obtain ⟨x, hx, k1, k2, k3⟩ := bufAdd_has_key m.buf (chunkOf cs r) hcc
      have hco := hcs.own c hc
      have hxcs : x ∈ cs := hsub x (by rw [hXbuf]; exact hx) (by rw [k1, hco.1]) (by rw [k2, hco.2.1])
      rw [← cs_inj hcs hxcs hc k3]; exact hx
  have hkeys : BufKeysUnique X.buf := by rw [hXbuf]; exact bufAdd_keysUnique _ _ h.keys
  have hdel : m.deliver [chunkItem site ver last cs r] =
      if got.complete then X.applyBuffered site ver else X := by
    rw [deliver_eq']
    unfold chunkItem; rw [hfold]
    unfold finish
    simp only [clearAll_nil, hXalive, if_true]
    split
    · rfl
    · rfl
  rw [hdel] at hm'c hm'np ⊢
  cases hgc : got.complete with
  | false =>
    left
    rw [hgc] at hm'c hm'np
    simp only [Bool.false_eq_true, if_false] at hm'c hm'np ⊢
    exact ⟨⟨hXc, hXalive, hm'np, hkeys, hXdb, hsub, hsup, Or.inr ⟨got, hXpart, hgc⟩⟩,
      fun x hx => (hsm x).mpr hx⟩
  | true =>
    right
    rw [hgc] at hm'c hm'np
    simp only [if_true] at hm'c hm'np ⊢
    have hgl : got.last = last := by rw [hXa.part_last ver got hXpart, hL]
    have hgw := hXa.pwf.of_partial? hXpart
    have hall : ∀ c ∈ cs, c ∈ X.buf := by
      intro c hc
      apply hsup c hc
      rcases hXa.rows_part ver hXhr with h3 | ⟨q', hq', hm⟩
      · exact absurd h3 (not_covered_nil ver)
      · rw [hXpart] at hq'; cases hq'
        apply (hm c.seq).mp
        exact (complete_iff hgw).mp hgc c.seq (by rw [hgl]; exact (hcs.own c hc).2.2)
    refine ⟨?_, ?_⟩
    · rw [applyBuffered_complete X site ver got hXpart hgc, clearMeta_db, applyCore_db, hXdb,
        sortBySeq_bufOf_eq hcs X.buf hkeys hsub hall]
    · intro lo hi hhi
      rw [containsAll_single]
      have hp' : ((X.applyBuffered site ver).booked site).partial? ver = some got := by
        rw [partial?_applyBuffered]; exact hXpart
      exact contains_of_complete ((hm'c.actor site).pwf.of_partial? hp') hp' hgc (by rw [hgl]; exact hhi)
        ((hm'c.actor site).part_known ver got hp')

/-- **one more chunk of the version**: either the version is still not applied, the store is
unchanged and the chunk's range is now received; or the version has just been applied -/
theorem Before.step (h : Before L site ver cs db0 m) (hcs : CsOK site ver last cs)
    (hL : L site ver = last) (r : Nat × Nat) (hlh : r.1 ≤ r.2) (hr : r.2 ≤ last) :
    (Before L site ver cs db0 (m.deliver [chunkItem site ver last cs r]) ∧
      ∀ x, (SeqMem m.seqRows site ver x ∨ (r.1 ≤ x ∧ x ≤ r.2)) →
        SeqMem (m.deliver [chunkItem site ver last cs r]).seqRows site ver x) ∨
    After site ver last cs db0 (m.deliver [chunkItem site ver last cs r]) := by
  by_cases hcomp : r.1 = 0 ∧ r.2 = last
  · right
    have : r = (0, last) := Prod.ext hcomp.1 hcomp.2
    rw [this]; exact h.step_complete hcs hL
  · cases hct : (m.booked site).containsAll ver ver (some r) with
    | true =>
      left
      obtain ⟨h1, h2⟩ := h.step_skip (last := last) r hct
      rw [h1]
      refine ⟨h, ?_⟩
      rintro x (hx | hx)
      · exact hx
      · exact h2 x hx
    | false => exact h.step_buffer hcs hL r hlh hr hcomp hct

/-- a node that does not know the version at all is in a `Before` state -/
theorem Before.init {n : Node} (hc : Consistent L n) (hal : n.alive = true) (hnp : NoPending n)
    (hk : BufKeysUnique n.buf) (hpn : (n.booked site).partial? ver = none)
    (hcv : (n.booked site).containsVersion ver = false) : Before L site ver cs n.db n := by
  have hnr : ¬ HasRows n site ver := by
    intro hr
    rcases (hc.actor site).rows_part ver hr with h3 | ⟨q, hq, _⟩
    · exact not_covered_nil ver h3
    · rw [hpn] at hq; cases hq
  refine ⟨hc, hal, hnp, hk, rfl, ?_, ?_, Or.inl ⟨hpn, hcv⟩⟩
  · intro c hcm h1 h2
    exfalso
    obtain ⟨r, hr1, hr2, hr3, _⟩ := (hc.actor site).buf_cov c hcm h1
    exact hnr ⟨r, hr1, hr2, by rw [hr3, h2]⟩
  · intro c _ hm
    exact absurd (hasRows_of_seqMem rfl hm) hnr

/-- **all the chunks, one per batch, in any order, with duplicates and overlaps** -/
theorem chunks_apply {n : Node} (h0 : Before L site ver cs db0 n) (hcs : CsOK site ver last cs)
    (hL : L site ver = last) (chunks : List (Nat × Nat)) (hch : ∀ r ∈ chunks, r.1 ≤ r.2 ∧ r.2 ≤ last)
    (hcov : ∀ x, x ≤ last → ∃ r ∈ chunks, r.1 ≤ x ∧ x ≤ r.2) :
    (chunks.foldl (fun m r => m.deliver [chunkItem site ver last cs r]) n).db = mergeAll db0 cs := by
  have hinv : (fun (done : List (Nat × Nat)) (m : Node) =>
      (Before L site ver cs db0 m ∧ ∀ r ∈ done, ∀ x, r.1 ≤ x ∧ x ≤ r.2 → SeqMem m.seqRows site ver x) ∨
        After site ver last cs db0 m) chunks
      (chunks.foldl (fun m r => m.deliver [chunkItem site ver last cs r]) n) := by
    apply foldl_inv_prefix chunks (fun m r => m.deliver [chunkItem site ver last cs r]) n
      (fun done m => (Before L site ver cs db0 m ∧
        ∀ r ∈ done, ∀ x, r.1 ≤ x ∧ x ≤ r.2 → SeqMem m.seqRows site ver x) ∨ After site ver last cs db0 m)
    · exact Or.inl ⟨h0, fun r hr => by cases hr⟩
    · intro done r rest m hl hm
      have hrr := hch r (by rw [hl]; simp)
      rcases hm with ⟨hb, hrec⟩ | ha
      · rcases hb.step hcs hL r hrr.1 hrr.2 with ⟨hb', hmono⟩ | ha'
        · left
          refine ⟨hb', ?_⟩
          intro r' hr' x hx
          rcases List.mem_append.mp hr' with h1 | h1
          · exact hmono x (Or.inl (hrec r' h1 x hx))
          · simp only [List.mem_singleton] at h1
            subst h1
            exact hmono x (Or.inr hx)
        · exact Or.inr ha'
      · right
        rw [ha.step r hrr.2]; exact ha
  rcases hinv with ⟨hb, hrec⟩ | ha
  · exfalso
    generalize chunks.foldl (fun m r => m.deliver [chunkItem site ver last cs r]) n = m at hb hrec
    have hca := hb.cons.actor site
    have hall : ∀ x, x ≤ last → SeqMem m.seqRows site ver x := by
      intro x hx
      obtain ⟨r, hr, h1⟩ := hcov x hx
      exact hrec r hr x h1
    have hhr : HasRows m site ver := hasRows_of_seqMem rfl (hall 0 (Nat.zero_le _))
    rcases hca.rows_part ver hhr with h3 | ⟨q, hq, hm⟩
    · exact not_covered_nil ver h3
    · rcases hb.part with ⟨h1, _⟩ | ⟨q', hq', hinc⟩
      · rw [h1] at hq; cases hq
      · rw [hq] at hq'; cases hq'
        have : q.complete = true := by
          rw [complete_iff (hca.pwf.of_partial? hq), hca.part_last ver q hq, hL]
          intro x hx
          exact (hm x).mpr (hall x hx)
        rw [hinc] at this; cases this
  · exact ha.db

end

end Corro.Node
