/-
C01 with crashes — ONE delivery (`Node.deliver [it]`) to a node that may be dead or alive preserves
the node invariant `KInv` (`kinv_deliver`), and a sequence of deliveries does (`deliverOne_fold_kinv`).
On a dead node a chunk that completes a version leaves it complete but unapplied.
-/
import Corro.Lemmas.ClusterCrashBuf

namespace Corro.ClusterSys.Crash
open Corro.Crdt Corro.Node Corro.ClusterSys

theorem applyBuffered_alive (n : Node) (a v : Nat) : (n.applyBuffered a v).alive = n.alive := by
  unfold Node.applyBuffered
  simp only
  split
  · rfl
  · split
    · rfl
    · rw [clearMeta_alive, setBooked_alive]
      split
      · exact bumpDbv_alive _ _ _
      · exact mergeChanges_alive _ _

theorem bufNode_alive (n : Node) (a v lo hi last : Nat) (cs : List Chg) :
    (bufNode n a v lo hi last cs).alive = n.alive := by
  unfold bufNode; rw [setBooked_alive, bufferChunk_alive]

/-- a delivery never changes whether the node is alive -/
theorem deliver_alive (n : Node) (it : Item) : (n.deliver [it]).alive = n.alive := by
  cases it with
  | empty a vlo vhi =>
    cases hc : (n.booked a).containsAll vlo vhi none with
    | true => rw [deliver_empty_skip n a vlo vhi hc]
    | false =>
      rw [deliver_empty n a vlo vhi hc, clearedNode_alive]
      split <;> simp
  | full a v lo hi last cs =>
    cases hc : (n.booked a).containsAll v v (some (lo, hi)) with
    | true => rw [deliver_full_skip n a v lo hi last cs hc]
    | false =>
      by_cases hcomp : lo = 0 ∧ hi = last
      · obtain ⟨rfl, rfl⟩ := hcomp
        by_cases hne : cs = []
        · subst hne
          rw [deliver_full_cleared n a v hi hc, clearedNode_alive]
          split <;> simp
        · rw [deliver_full_complete n a v hi cs hc hne, clearedNode_alive, mergeChanges_alive]
      · by_cases hlt : hi < lo
        · rw [deliver_full_backward n a v lo hi last cs hc hlt]
        · rw [deliver_full_buffer n a v lo hi last cs hc (by omega) hcomp]
          split
          · rw [applyBuffered_alive, bufNode_alive]
          · exact bufNode_alive _ _ _ _ _ _ _

theorem dbvOf_bump_le (n : Node) (a vhi a' : Nat) (c : Prop) [Decidable c] :
    dbvOf (if c then n.bumpDbv a vhi else n) a' ≤ if a' = a then max (dbvOf n a) vhi else dbvOf n a' := by
  have hmx : ∀ x y : Nat, Nat.max x y = max x y := fun _ _ => rfl
  split
  · rw [dbvOf_bumpDbv]
    split
    · rw [hmx]; exact Nat.le_refl _
    · exact Nat.le_refl _
  · split
    · rename_i h; rw [h]; omega
    · exact Nat.le_refl _

/-- **`held_inv`, one delivery, any node**: delivering a changeset that satisfies `ChunkOK` to a
node (dead or alive) preserves the node invariant with `P` = "the node is dead", the ghost list
extended by what the delivery merged -/
theorem cinv_deliver {L : Log} {n : Node} {R : List Chg} {it : Item} (hN : NInv L n R)
    (hI : CInv (fun _ _ => n.alive = false) L n R) (hL : LogOK L) (hck : ChunkOK L it) :
    CInv (fun _ _ => n.alive = false) L (n.deliver [it]) (mergedBy n it ++ R) := by
  cases it with
  | empty a vlo vhi =>
    show CInv _ L _ R
    cases hc : (n.booked a).containsAll vlo vhi none with
    | true => rw [deliver_empty_skip n a vlo vhi hc]; exact hI
    | false =>
      have hle : vlo ≤ vhi := by
        apply Classical.byContradiction
        intro h
        rw [containsAll_backward _ _ _ _ (by omega)] at hc
        cases hc
      rw [deliver_empty n a vlo vhi hc]
      refine (cinv_cleared hI hL ?_ ?_ ?_ hle hck.1 (dbvOf_bump_le n a vhi · _) (fun e he => he)
        (fun e he => Or.inl he) ?_).1
      · split <;> simp
      · split <;> simp
      · split <;> simp
      · intro w h1 h2 c hcm
        exact Or.inr (hck.2 w h1 h2 c hcm)
  | full a v lo hi last cs =>
    obtain ⟨hvh, hcs, hcov, hlast⟩ := hck
    have hdata : lo = 0 → hi = last → ∀ c ∈ L.get a v, c ∈ cs ∨ Dom L.all c := by
      intro h1 h2 c hc
      by_cases hle : c.seq ≤ last
      · exact hcov c hc (by omega) (by omega)
      · exact Or.inr (hlast c hc (by omega))
    cases hc : (n.booked a).containsAll v v (some (lo, hi)) with
    | true =>
      rw [deliver_full_skip n a v lo hi last cs hc]
      have : mergedBy n (.full a v lo hi last cs) = [] := by
        unfold mergedBy; simp only [hc, if_true]
      rw [this]; exact hI
    | false =>
      by_cases hcomp : lo = 0 ∧ hi = last
      · obtain ⟨rfl, rfl⟩ := hcomp
        have hm : mergedBy n (.full a v 0 hi hi cs) = cs := by
          unfold mergedBy
          simp only [hc, Bool.false_eq_true, if_false, beq_self_eq_true, Bool.and_self, if_true]
        rw [hm]
        by_cases hne : cs = []
        · subst hne
          rw [deliver_full_cleared n a v hi hc]
          refine (cinv_cleared hI hL ?_ ?_ ?_ (Nat.le_refl v) hvh (dbvOf_bump_le n a v · _) (fun e he => he)
            (fun e he => Or.inl he) ?_).1
          · split <;> simp
          · split <;> simp
          · split <;> simp
          · intro w h1 h2 c hcm
            have : w = v := by omega
            subst this
            rcases hdata rfl rfl c hcm with h | h
            · cases h
            · exact Or.inr h
        · rw [deliver_full_complete n a v hi cs hc hne]
          refine (cinv_cleared hI hL (by simp) (by simp) (by simp) (Nat.le_refl v) hvh ?_
            (fun e he => List.mem_append_right _ he) ?_ ?_).1
          · intro a'
            have hmx : ∀ x y : Nat, Nat.max x y = max x y := fun _ _ => rfl
            rw [dbvOf_mergeChanges n cs a v (fun c hc' => by
              obtain ⟨_, h1, h2, _⟩ := hL.mem_get (hcs c hc'); exact ⟨h1, h2⟩) a']
            by_cases ha : a' = a
            · rw [if_pos ⟨ha, hne⟩, if_pos ha, hmx]; exact Nat.le_refl _
            · rw [if_neg (fun h => ha h.1), if_neg ha]; exact Nat.le_refl _
          · intro e he
            rcases List.mem_append.mp he with h | h
            · right
              obtain ⟨_, h1, h2, _⟩ := hL.mem_get (hcs e h)
              exact ⟨h1, by omega, by omega⟩
            · exact Or.inl h
          · intro w h1 h2 c hcm
            have : w = v := by omega
            subst this
            rcases hdata rfl rfl c hcm with h | h
            · exact Or.inl (List.mem_append_left _ h)
            · exact Or.inr h
      · by_cases hlt : hi < lo
        · rw [deliver_full_backward n a v lo hi last cs hc hlt]
          have : mergedBy n (.full a v lo hi last cs) = [] := by
            have hb : (lo == 0 && hi == last) = false := by
              cases h : (lo == 0 && hi == last) with
              | false => rfl
              | true =>
                simp only [Bool.and_eq_true, beq_iff_eq] at h
                exact absurd h hcomp
            unfold mergedBy
            simp only [hc, hb, Bool.false_eq_true, if_false, hlt, if_true]
          rw [this]; exact hI
        · have hlh : lo ≤ hi := by omega
          have hck' : ChunkOK L (.full a v lo hi last cs) := ⟨hvh, hcs, hcov, hlast⟩
          rw [deliver_full_buffer n a v lo hi last cs hc hlh hcomp,
            mergedBy_full_buffer n a v lo hi last cs hc hlh hcomp]
          cases hpa : ((bufPartial n a v lo hi last cs).complete && n.alive) with
          | true =>
            simp only [if_true]
            rw [Bool.and_eq_true] at hpa
            exact (cinv_buffer_apply hN hI hL hck' hlh (by rw [hpa.2]; simp) hpa.1).1
          | false =>
            simp only [Bool.false_eq_true, if_false, List.nil_append]
            refine (cinv_buffer hN hI hL hck' hlh (fun _ _ h => h) ?_).1
            intro hpc
            rw [hpc, Bool.true_and] at hpa
            exact hpa

/-- the same for the node invariant `KInv` -/
theorem kinv_deliver {L : Log} {n : Node} {R : List Chg} {it : Item} (hN : NInv L n R) (hI : KInv L n R)
    (hL : LogOK L) (hck : ChunkOK L it) : KInv L (n.deliver [it]) (mergedBy n it ++ R) := by
  have := cinv_deliver hN hI hL hck
  exact this.mono (fun _ _ h => by rw [deliver_alive]; exact h)

/-- a sequence of deliveries to one node -/
theorem deliverOne_fold_kinv {L : Log} (hL : LogOK L) (items : List Item) (s : Node × List Chg)
    (hN : NInv L s.1 s.2) (hI : KInv L s.1 s.2) (hck : ∀ it ∈ items, ChunkOK L it) :
    NInv L (items.foldl deliverOne s).1 (items.foldl deliverOne s).2 ∧
    KInv L (items.foldl deliverOne s).1 (items.foldl deliverOne s).2 := by
  induction items generalizing s with
  | nil => exact ⟨hN, hI⟩
  | cons it items ih =>
    have h1 := hck it List.mem_cons_self
    exact ih (deliverOne s it) (ninv_deliver hN hL (chunkOK_changes hL h1)) (kinv_deliver hN hI hL h1)
      (fun x hx => hck x (List.mem_cons_of_mem _ hx))

theorem fold_alive (items : List Item) (s : Node × List Chg) :
    (items.foldl deliverOne s).1.alive = s.1.alive := by
  induction items generalizing s with
  | nil => rfl
  | cons it items ih =>
    rw [List.foldl_cons, ih]
    exact deliver_alive s.1 it

end Corro.ClusterSys.Crash
