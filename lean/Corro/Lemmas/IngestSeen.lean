/-
Lemmas about the `seen` cache operations of the ingest model (C10): `upsert`, `modify`,
`swapRemove`, `record`, the eviction on drop in its repaired form.
-/
import Corro.Lemmas.Ingest

namespace Corro.Ingest
open Corro Corro.Node

theorem hasKey_iff (s : Seen) (k : Key) : s.hasKey k = true ↔ ∃ e ∈ s, e.1 = k := by
  simp [Seen.hasKey]

theorem hasKey_false_iff (s : Seen) (k : Key) : s.hasKey k = false ↔ ∀ e ∈ s, e.1 ≠ k := by
  simp [Seen.hasKey]

theorem get?_some_mem {s : Seen} {k : Key} {rs : RSet} (h : s.get? k = some rs) : (k, rs) ∈ s := by
  unfold Seen.get? at h
  cases hf : s.find? (fun e => e.1 = k) with
  | none => simp [hf] at h
  | some e =>
    simp [hf] at h
    have h1 := List.mem_of_find?_eq_some hf
    have h2 := List.find?_some hf
    simp at h2
    obtain ⟨a, b⟩ := e
    simp at h h2
    subst h h2
    exact h1

theorem mem_get? : ∀ {s : Seen}, (s.map (·.1)).Nodup → ∀ {e : Key × RSet}, e ∈ s → s.get? e.1 = some e.2 := by
  intro s
  induction s with
  | nil => intro _ e he; simp at he
  | cons a t ih =>
    intro hn e he
    simp only [List.map_cons, List.nodup_cons] at hn
    simp only [List.mem_cons] at he
    unfold Seen.get?
    by_cases hk : a.1 = e.1
    · rcases he with rfl | he
      · simp
      · exfalso; apply hn.1; rw [hk]; exact List.mem_map_of_mem (f := (·.1)) he
    · rcases he with rfl | he
      · exact absurd rfl hk
      · have := ih hn.2 he
        unfold Seen.get? at this
        simp [hk, this]

theorem wf_nonempty_mem {rs : RSet} (hw : RSet.WF rs) (hne : rs.isEmpty = false) : ∃ x, RSet.Mem rs x := by
  cases rs with
  | nil => simp at hne
  | cons p t =>
    obtain ⟨a, b⟩ := p
    simp only [RSet.WF, RSet.WFfrom] at hw
    exact ⟨a, (a, b), by simp, by simp, hw.2.1⟩

/-! ### entries keep being justified when the pool only loses a changeset that does not back them -/

theorem entry_transfer {P P' : List Item} {d : Item} {e : Key × RSet}
    (hP : ∀ i ∈ P, i ∈ P' ∨ i = d) (hd : ¬ Backs d e.1) (h : EntrySound P e) : EntrySound P' e := by
  obtain ⟨⟨i, hi, hb⟩, hc⟩ := h
  refine ⟨?_, ?_⟩
  · rcases hP i hi with h' | rfl
    · exact ⟨i, h', hb⟩
    · exact absurd hb hd
  · intro x hx
    obtain ⟨j, hj, hcov⟩ := hc x hx
    rcases hP j hj with h' | rfl
    · exact ⟨j, h', hcov⟩
    · exact absurd hcov.1 hd

theorem entry_mono {P P' : List Item} {e : Key × RSet} (hP : ∀ i ∈ P, i ∈ P') (h : EntrySound P e) :
    EntrySound P' e := by
  obtain ⟨⟨i, hi, hb⟩, hc⟩ := h
  refine ⟨⟨i, hP i hi, hb⟩, ?_⟩
  intro x hx
  obtain ⟨j, hj, hcov⟩ := hc x hx
  exact ⟨j, hP j hj, hcov⟩

theorem soundWrt_mono {P P' : List Item} {sn : Seen} (hP : ∀ i ∈ P, i ∈ P') (h : SoundWrt P sn) :
    SoundWrt P' sn := fun e he => entry_mono hP (h e he)

/-! ### upsert -/

theorem upsert_keys (s : Seen) (k : Key) (f : RSet → RSet) :
    (s.upsert k f).map (·.1) = if s.hasKey k then s.map (·.1) else s.map (·.1) ++ [k] := by
  unfold Seen.upsert
  split
  · simp only [List.map_map]
    apply List.map_congr_left
    intro e _
    simp only [Function.comp]
    split <;> simp_all
  · simp

theorem mem_upsert {s : Seen} {k : Key} {f : RSet → RSet} {e' : Key × RSet} (h : e' ∈ s.upsert k f) :
    (e' ∈ s ∧ e'.1 ≠ k) ∨ (∃ e ∈ s, e.1 = k ∧ e' = (k, f e.2)) ∨ (s.hasKey k = false ∧ e' = (k, f [])) := by
  unfold Seen.upsert at h
  split at h
  · simp only [List.mem_map] at h
    obtain ⟨e, he, rfl⟩ := h
    by_cases hk : e.1 = k
    · right; left; exact ⟨e, he, hk, by simp [hk]⟩
    · left; simp [hk, he]
  · rename_i hno
    simp only [List.mem_append, List.mem_singleton] at h
    rcases h with h | rfl
    · left
      refine ⟨h, ?_⟩
      have := (hasKey_false_iff s k).1 (by simpa using hno)
      exact this _ h
    · right; right; exact ⟨by simpa using hno, rfl⟩

theorem upsert_inv {P : List Item} {sn : Seen} {k : Key} {f : RSet → RSet} {it : Item}
    (hi : SeenInv sn) (hs : SoundWrt P sn) (hit : it ∈ P) (hb : Backs it k)
    (hwf : ∀ rs, RSet.WF rs → RSet.WF (f rs))
    (hmem : ∀ rs x, RSet.WF rs → RSet.Mem (f rs) x → RSet.Mem rs x ∨ Covers it k x) :
    SeenInv (sn.upsert k f) ∧ SoundWrt P (sn.upsert k f) := by
  refine ⟨⟨?_, ?_⟩, ?_⟩
  · rw [upsert_keys]
    split
    · exact hi.1
    · rename_i hno
      rw [List.nodup_append]
      refine ⟨hi.1, by simp, ?_⟩
      intro a ha b hb'
      simp only [List.mem_singleton] at hb'
      rw [hb']
      simp only [List.mem_map] at ha
      obtain ⟨e, he, rfl⟩ := ha
      have := (hasKey_false_iff sn k).1 (by simpa using hno)
      exact this e he
  · intro e' he'
    rcases mem_upsert he' with ⟨h, _⟩ | ⟨e, he, _, rfl⟩ | ⟨_, rfl⟩
    · exact hi.2 _ h
    · exact hwf _ (hi.2 _ he)
    · exact hwf _ (by simp [RSet.WF, RSet.WFfrom])
  · intro e' he'
    rcases mem_upsert he' with ⟨h, _⟩ | ⟨e, he, hk, rfl⟩ | ⟨_, rfl⟩
    · exact hs _ h
    · refine ⟨⟨it, hit, hb⟩, ?_⟩
      intro x hx
      rcases hmem _ x (hi.2 _ he) hx with h | h
      · have := (hs e he).2 x h
        rw [hk] at this
        exact this
      · exact ⟨it, hit, h⟩
    · refine ⟨⟨it, hit, hb⟩, ?_⟩
      intro x hx
      rcases hmem _ x (by simp [RSet.WF, RSet.WFfrom]) hx with h | h
      · exact absurd h (RSet.mem_nil x)
      · exact ⟨it, hit, h⟩

theorem mem_versionsOf {it : Item} {v : Nat} : v ∈ versionsOf it ↔ it.versions.1 ≤ v ∧ v ≤ it.versions.2 := by
  simp only [versionsOf, List.mem_map, List.mem_range]
  constructor
  · rintro ⟨i, hi, rfl⟩; omega
  · intro h; exact ⟨v - it.versions.1, by omega, by omega⟩

theorem versionsOf_full (site ver lo hi last : Nat) (cs : List Crdt.Chg) :
    versionsOf (.full site ver lo hi last cs) = [ver] := by
  simp [versionsOf, Item.versions, List.range_succ]

/-- recording an accepted changeset keeps the cache justified by any pool that contains it -/
theorem record_inv {P : List Item} {it : Item} (hit : it ∈ P) (hw : ItemWF it) :
    ∀ (sn : Seen), SeenInv sn → SoundWrt P sn → SeenInv (record sn it) ∧ SoundWrt P (record sn it) := by
  unfold record
  have key : ∀ (vs : List Nat), (∀ v ∈ vs, v ∈ versionsOf it) → ∀ (sn : Seen), SeenInv sn → SoundWrt P sn →
      SeenInv (vs.foldl (fun sn v => sn.upsert (it.site, v)
        (fun rs => match it.seqs with | some r => RSet.insert rs r | none => rs)) sn) ∧
      SoundWrt P (vs.foldl (fun sn v => sn.upsert (it.site, v)
        (fun rs => match it.seqs with | some r => RSet.insert rs r | none => rs)) sn) := by
    intro vs
    induction vs with
    | nil => intro _ sn hi hs; exact ⟨hi, hs⟩
    | cons v t ih =>
      intro hv sn hi hs
      simp only [List.foldl_cons]
      have hvm := mem_versionsOf.1 (hv v (by simp))
      have hb : Backs it (it.site, v) := ⟨rfl, hvm.1, hvm.2⟩
      have := upsert_inv (P := P) (k := (it.site, v))
        (f := fun rs => match it.seqs with | some r => RSet.insert rs r | none => rs) hi hs hit hb
        (by
          intro rs hrs
          cases hsq : it.seqs with
          | none => simpa using hrs
          | some r => simp only; exact RSet.insert_wf rs r.1 r.2 (hw r hsq) hrs)
        (by
          intro rs x _ hx
          cases hsq : it.seqs with
          | none => left; simpa [hsq] using hx
          | some r =>
            simp only [hsq] at hx
            rcases (RSet.mem_insert rs r.1 r.2 x (hw r hsq)).1 hx with h | h
            · left; exact h
            · right; exact ⟨hb, r, hsq, h.1, h.2⟩)
      exact ih (fun w hw' => hv w (by simp [hw'])) _ this.1 this.2
  exact key _ (fun _ h => h)

/-! ### swapRemove -/

theorem swapRemove_spec : ∀ (s : Seen) (k : Key), (s.map (·.1)).Nodup →
    (∀ e ∈ s.swapRemove k, e ∈ s ∧ e.1 ≠ k) ∧ ((s.swapRemove k).map (·.1)).Nodup := by
  intro s k hn
  unfold Seen.swapRemove
  split
  · rename_i hk
    cases hl : s.getLast? with
    | none =>
      have : s = [] := by simpa using hl
      subst this
      simp [Seen.hasKey] at hk
    | some l =>
      simp only
      have hs : s.dropLast ++ [l] = s := by
        obtain ⟨ys, hys⟩ := List.getLast?_eq_some_iff.1 hl
        rw [hys]; simp
      rw [← hs] at hn
      simp only [List.map_append, List.map_cons, List.map_nil] at hn
      rw [List.nodup_append] at hn
      obtain ⟨hn1, _, hn3⟩ := hn
      have hlnot : ∀ e ∈ s.dropLast, e.1 ≠ l.1 := by
        intro e he heq
        exact hn3 e.1 (List.mem_map_of_mem (f := (·.1)) he) l.1 (by simp) heq
      have hsub : ∀ e ∈ s.dropLast, e ∈ s := fun e he => by rw [← hs]; simp [he]
      have hlmem : l ∈ s := by rw [← hs]; simp
      split
      · rename_i hlk
        refine ⟨?_, hn1⟩
        intro e he
        exact ⟨hsub e he, fun h => hlnot e he (by rw [h, hlk])⟩
      · rename_i hlk
        refine ⟨?_, ?_⟩
        · intro e he
          simp only [List.mem_map] at he
          obtain ⟨e0, he0, rfl⟩ := he
          by_cases h0 : e0.1 = k
          · simp only [h0, if_true]; exact ⟨hlmem, hlk⟩
          · simp only [h0, if_false]; exact ⟨hsub e0 he0, h0⟩
        · -- keys: the (unique) `k` is replaced by the key of the last entry, which occurs nowhere else
          have gen : ∀ (t : Seen), (t.map (·.1)).Nodup → (∀ e ∈ t, e.1 ≠ l.1) →
              ((t.map (fun e => if e.1 = k then l else e)).map (·.1)).Nodup := by
            intro t
            induction t with
            | nil => intro _ _; simp
            | cons a t ih =>
              intro hnt hlt
              simp only [List.map_cons, List.nodup_cons] at hnt ⊢
              refine ⟨?_, ih hnt.2 (fun e he => hlt e (by simp [he]))⟩
              intro hmem
              simp only [List.mem_map] at hmem
              obtain ⟨e1, ⟨e0, he0, rfl⟩, heq⟩ := hmem
              by_cases ha : a.1 = k
              · simp only [ha, if_true] at heq
                by_cases h0 : e0.1 = k
                · apply hnt.1; rw [ha, ← h0]; exact List.mem_map_of_mem (f := (·.1)) he0
                · simp only [h0, if_false] at heq
                  exact hlt e0 (by simp [he0]) heq
              · simp only [ha, if_false] at heq
                by_cases h0 : e0.1 = k
                · simp only [h0, if_true] at heq
                  exact hlt a (by simp) heq.symm
                · simp only [h0, if_false] at heq
                  apply hnt.1; rw [← heq]; exact List.mem_map_of_mem (f := (·.1)) he0
          exact gen _ hn1 hlnot
  · rename_i hk
    refine ⟨?_, hn⟩
    intro e he
    have := (hasKey_false_iff s k).1 (by simpa using hk)
    exact ⟨he, this e he⟩

/-! ### modify -/

theorem modify_keys (s : Seen) (k : Key) (f : RSet → RSet) : (s.modify k f).map (·.1) = s.map (·.1) := by
  unfold Seen.modify
  simp only [List.map_map]
  apply List.map_congr_left
  intro e _
  simp only [Function.comp]
  split <;> simp_all

theorem mem_modify {s : Seen} {k : Key} {f : RSet → RSet} {e' : Key × RSet} (h : e' ∈ s.modify k f) :
    (e' ∈ s ∧ e'.1 ≠ k) ∨ (∃ e ∈ s, e.1 = k ∧ e' = (k, f e.2)) := by
  unfold Seen.modify at h
  simp only [List.mem_map] at h
  obtain ⟨e, he, rfl⟩ := h
  by_cases hk : e.1 = k
  · right; exact ⟨e, he, hk, by simp [hk]⟩
  · left; simp [hk, he]

/-! ### the repaired eviction -/

/-- dropping a `Full` changeset `d` (the only key it backs is `k`): the cache stays justified by the
pool without `d` -/
theorem evictOne_full_inv {P P' : List Item} {sn : Seen} {d : Item} {r : Nat × Nat} {k : Key}
    (hi : SeenInv sn) (hs : SoundWrt P sn) (hP : ∀ i ∈ P, i ∈ P' ∨ i = d)
    (hd : d.seqs = some r) (hr : r.1 ≤ r.2) (hk : ∀ k', Backs d k' → k' = k) :
    SeenInv (evictOne true (some r) sn k) ∧ SoundWrt P' (evictOne true (some r) sn k) := by
  have other : ∀ e ∈ sn, e.1 ≠ k → EntrySound P' e := fun e he hne =>
    entry_transfer hP (fun hb => hne (hk _ hb)) (hs e he)
  unfold evictOne
  split
  · -- the key is present
    have hi' : SeenInv (sn.modify k (fun rs => RSet.remove rs r)) := by
      refine ⟨by rw [modify_keys]; exact hi.1, ?_⟩
      intro e' he'
      rcases mem_modify he' with ⟨h, _⟩ | ⟨e, he, _, rfl⟩
      · exact hi.2 _ h
      · exact RSet.remove_wf e.2 r.1 r.2 hr (hi.2 _ he)
    -- seqs that survive the removal are carried by somebody else
    have cov : ∀ e ∈ sn, e.1 = k → ∀ x, RSet.Mem (RSet.remove e.2 r) x → ∃ i ∈ P', Covers i k x := by
      intro e he hek x hx
      have hx' := (RSet.mem_remove e.2 r.1 r.2 x 0 (hi.2 _ he)).1 hx
      obtain ⟨i, hiP, hcov⟩ := (hs e he).2 x hx'.1
      rw [hek] at hcov
      rcases hP i hiP with h | rfl
      · exact ⟨i, h, hcov⟩
      · exfalso
        obtain ⟨_, r', hr', hx1, hx2⟩ := hcov
        rw [hd] at hr'
        cases hr'
        exact hx'.2 ⟨hx1, hx2⟩
    simp only [Bool.true_and]
    split
    · -- emptied: the entry goes away
      have sp := swapRemove_spec (sn.modify k (fun rs => RSet.remove rs r)) k hi'.1
      refine ⟨⟨sp.2, fun e he => hi'.2 _ (sp.1 e he).1⟩, ?_⟩
      intro e' he'
      obtain ⟨hm, hne⟩ := sp.1 e' he'
      rcases mem_modify hm with ⟨h, hne'⟩ | ⟨e, _, _, rfl⟩
      · exact other e' h hne'
      · exact absurd rfl hne
    · rename_i hnonempty
      refine ⟨hi', ?_⟩
      intro e' he'
      rcases mem_modify he' with ⟨h, hne'⟩ | ⟨e, he, hek, rfl⟩
      · exact other e' h hne'
      · have hg := mem_get? hi'.1 he'
        simp only at hg
        rw [hg] at hnonempty
        simp only [Option.getD_some] at hnonempty
        have hwf : RSet.WF (RSet.remove e.2 r) := RSet.remove_wf e.2 r.1 r.2 hr (hi.2 _ he)
        obtain ⟨x, hx⟩ := wf_nonempty_mem hwf (by simpa using hnonempty)
        obtain ⟨i, hiP, hcov⟩ := cov e he hek x hx
        exact ⟨⟨i, hiP, hcov.1⟩, fun y hy => cov e he hek y hy⟩
  · rename_i hno
    refine ⟨hi, ?_⟩
    intro e he
    have := (hasKey_false_iff sn k).1 (by simpa using hno)
    exact other e he (this e he)

/-- removal of the keys `(a, v)`, `v ∈ vs` -/
theorem evict_keys_spec (a : Nat) : ∀ (vs : List Nat) (sn : Seen), (sn.map (·.1)).Nodup →
    (∀ e ∈ vs.foldl (fun sn v => evictOne true none sn (a, v)) sn, e ∈ sn ∧ ∀ v ∈ vs, e.1 ≠ (a, v)) ∧
    ((vs.foldl (fun sn v => evictOne true none sn (a, v)) sn).map (·.1)).Nodup := by
  intro vs
  induction vs with
  | nil => intro sn hn; exact ⟨fun e he => ⟨he, by simp⟩, hn⟩
  | cons v t ih =>
    intro sn hn
    simp only [List.foldl_cons]
    have step : (∀ e ∈ evictOne true none sn (a, v), e ∈ sn ∧ e.1 ≠ (a, v)) ∧
        ((evictOne true none sn (a, v)).map (·.1)).Nodup := by
      unfold evictOne
      split
      · exact swapRemove_spec sn (a, v) hn
      · rename_i hno
        have := (hasKey_false_iff sn (a, v)).1 (by simpa using hno)
        exact ⟨fun e he => ⟨he, this e he⟩, hn⟩
    obtain ⟨h1, h2⟩ := ih _ step.2
    refine ⟨?_, h2⟩
    intro e he
    obtain ⟨hm, hne⟩ := h1 e he
    obtain ⟨hm', hne'⟩ := step.1 e hm
    refine ⟨hm', ?_⟩
    intro w hw
    simp only [List.mem_cons] at hw
    rcases hw with rfl | hw
    · exact hne'
    · exact hne w hw

/-- dropping an `Empty` changeset `d`: every key it backs is removed -/
theorem evictAll_empty_inv {P P' : List Item} {sn : Seen} {d : Item}
    (hi : SeenInv sn) (hs : SoundWrt P sn) (hP : ∀ i ∈ P, i ∈ P' ∨ i = d) (hd : d.seqs = none) :
    SeenInv (evictAll true d d.site sn) ∧ SoundWrt P' (evictAll true d d.site sn) := by
  unfold evictAll
  rw [hd]
  obtain ⟨h1, h2⟩ := evict_keys_spec d.site (versionsOf d) sn hi.1
  refine ⟨⟨h2, fun e he => hi.2 _ (h1 e he).1⟩, ?_⟩
  intro e he
  obtain ⟨hm, hne⟩ := h1 e he
  apply entry_transfer hP _ (hs e hm)
  intro hb
  apply hne e.1.2 (mem_versionsOf.2 ⟨hb.2.1, hb.2.2⟩)
  obtain ⟨hb1, _⟩ := hb
  cases hk : e.1
  simp_all

/-- the repaired eviction for any dropped changeset -/
theorem evictAll_inv {P P' : List Item} {sn : Seen} {d : Item}
    (hi : SeenInv sn) (hs : SoundWrt P sn) (hP : ∀ i ∈ P, i ∈ P' ∨ i = d) (hw : ItemWF d) :
    SeenInv (evictAll true d d.site sn) ∧ SoundWrt P' (evictAll true d d.site sn) := by
  cases d with
  | empty site vlo vhi => exact evictAll_empty_inv hi hs hP rfl
  | full site ver lo hi' last cs =>
    unfold evictAll
    rw [versionsOf_full]
    simp only [List.foldl_cons, List.foldl_nil, Item.seqs, Item.site]
    apply evictOne_full_inv hi hs hP rfl (hw (lo, hi') rfl)
    intro k' hb
    obtain ⟨h1, h2, h3⟩ := hb
    simp only [Item.site, Item.versions] at h1 h2 h3
    cases k'
    simp_all
    omega

end Corro.Ingest
