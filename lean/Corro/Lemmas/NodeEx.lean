/-
Concrete node states used by the `example`s of `Props/C03.lean`, `Props/C05.lean`, `Props/C06.lean`
(non-vacuity of the hypotheses).  Definitions only; every state is produced by the model's own
operations from a fresh node.
-/
import Corro.Model.Node

namespace Corro.Node.Ex
open Corro.Crdt

/-- a column change of table `t` (field order of `Chg`: `tbl pk cid val colv cl site dbv seq`) -/
def ch (pk col : String) (site dbv seq : Nat) : Chg := ⟨"t", pk, col, .int 1, 1, 1, site, dbv, seq⟩

/-- version 1 of actor 1, whole: two changes, seqs 0..1 -/
def v1 : List Chg := [ch "1" "a" 1 1 0, ch "1" "b" 1 1 1]
/-- version 3 of actor 1: four changes, seqs 0..3 -/
def v3 : List Chg := [ch "3" "a" 1 3 0, ch "3" "b" 1 3 1, ch "4" "a" 1 3 2, ch "4" "b" 1 3 3]
def v3lo : List Chg := [ch "3" "a" 1 3 0, ch "3" "b" 1 3 1]
def v3hi : List Chg := [ch "4" "a" 1 3 2, ch "4" "b" 1 3 3]
def v5 : List Chg := [ch "5" "a" 1 5 0]

/-- node 9 after: version 1 whole; version 2 cleared; seqs 0..1 of version 3 (last 3) buffered;
version 5 whole (so version 4 is needed).  Actor 1: head 5, needed {4}, partial 3 ↦ {0..1}. -/
def srv : Node :=
  (((Node.fresh 9).deliver [Item.full 1 1 0 1 1 v1]).deliver
    [Item.empty 1 2 2, Item.full 1 3 0 1 3 v3lo]).deliver [Item.full 1 5 0 0 0 v5]

/-- the same history received by a node whose apply loop is dead, then the rest of version 3:
version 3 is fully buffered but not applied -/
def pending : Node := (srv.kill).deliver [Item.full 1 3 2 3 3 v3hi]

/-- a node that knows actor 1 only through a cleared version -/
def clearedOnly : Node := (Node.fresh 9).deliver [Item.empty 1 1 2]

end Corro.Node.Ex
