/-
C01 with crashes — an incomplete chunk delivered to ANY node (dead or alive): buffered and booked as
a partial (`cinv_buffer`: pending, or complete and stuck because the apply loop is gone), and one run
of `process_fully_buffered_changes` for a version whose partial is complete (`cinv_apply`, used by
the apply loop of an alive node and by the re-scheduled applies of a restart).
-/
import Corro.Lemmas.ClusterCrashInv

namespace Corro.ClusterSys.Crash
open Corro.Crdt Corro.Node Corro.ClusterSys

section Buffer
variable {P Q : Nat → Nat → Prop} {L : Log} {n : Node} {R : List Chg} {a v lo hi last : Nat} {cs : List Chg}

/-- the received ranges of the partial after buffering lie in the sequence rows, unless the old
partial was complete -/
theorem seqs_bufNode (hI : CInv P L n R) (hlh : lo ≤ hi)
    (hold : ∀ old, (n.booked a).partial? v = some old → old.complete = false) (x : Nat)
    (hx : RSet.Mem (bufPartial n a v lo hi last cs).seqs x) :
    SeqMem (bufNode n a v lo hi last cs).seqRows a v x := by
  rcases (mem_bufPartial hlh x).mp hx with ⟨old, ho, hm⟩ | hm
  · rcases hI.part_state a v old ho with ⟨h1, _⟩ | ⟨_, _, h3⟩ | ⟨_, h1, _⟩
    · rw [hold old ho] at h1; cases h1
    · exact (seqMem_bufNode_same hI.rows_fwd hlh x).mpr (Or.inl (h3 x hm))
    · rw [hold old ho] at h1; cases h1
  · exact ⟨_, bufNode_newRow n a v lo hi last cs, rfl, rfl, hm.1, hm.2⟩

/-- every change of the version whose seq lies in a sequence row after buffering is buffered or
dominated -/
theorem cover_bufNode (hN : NInv L n R) (hI : CInv P L n R) (hL : LogOK L)
    (hck : ChunkOK L (.full a v lo hi last cs)) (hlh : lo ≤ hi) (x : Nat)
    (hx : SeqMem (bufNode n a v lo hi last cs).seqRows a v x) (c : Chg) (hc : c ∈ L.get a v)
    (hcx : c.seq = x) : c ∈ (bufNode n a v lo hi last cs).buf ∨ Dom L.all c := by
  obtain ⟨_, hcs, hcov, _⟩ := hck
  rw [bufNode_buf]
  rcases (seqMem_bufNode_same hI.rows_fwd hlh x).mp hx with h | h
  · rcases hI.cover a v x h c hc hcx with h | h
    · exact Or.inl (mem_buf_bufferChunk h)
    · exact Or.inr h
  · rcases hcov c hc (by omega) (by omega) with h | h
    · left
      rw [bufferChunk_eq]
      obtain ⟨y, hy, hk⟩ := bufAdd_has_key n.buf cs h
      have hyL : y ∈ L.all := by
        rcases mem_bufAdd hy with h' | h'
        · exact hN.bufsub y h'
        · exact (hL.mem_get (hcs y h')).1
      have := hL.attr_unique hyL (hL.mem_get hc).1 hk.1 hk.2.1 hk.2.2
      rw [← this]; exact hy
    · exact Or.inr h

theorem dbvOf_bufNode (n : Node) (a v lo hi last : Nat) (cs : List Chg) (a' : Nat) :
    dbvOf (bufNode n a v lo hi last cs) a' = dbvOf n a' := by
  apply dbvOf_congr
  unfold bufNode
  rw [setBooked_dbv, bufferChunk_dbv]

/-- an incomplete partial stays incomplete only if the old one was -/
theorem old_incomplete (hI : CInv P L n R) (hlh : lo ≤ hi)
    (hpc : (bufPartial n a v lo hi last cs).complete = false) :
    ∀ old, (n.booked a).partial? v = some old → old.complete = false := by
  intro old ho
  cases hc : old.complete with
  | false => rfl
  | true => rw [bufPartial_complete_of_old (hI.pwf a) hlh ho hc] at hpc; cases hpc

/-- a version whose chunk is not yet known and leaves the partial incomplete was not held -/
theorem not_held_of_pending (hI : CInv P L n R)
    (hnc : (n.booked a).containsAll v v (some (lo, hi)) = false) (hlh : lo ≤ hi)
    (hpc : (bufPartial n a v lo hi last cs).complete = false) : ¬ Held n a v := by
  have hold := old_incomplete hI hlh hpc
  rintro ⟨h1, h2⟩
  rw [containsAll_single] at hnc
  unfold Booked.contains at hnc
  rw [h1] at hnc
  cases ho : (n.booked a).partial? v with
  | none => rw [ho] at hnc; simp at hnc
  | some old =>
    have := (h2 old ho).1
    rw [hold old ho] at this; cases this

/-- **buffered** (any node): the chunk was buffered; the version now has sequence rows and a partial
that is incomplete, or complete and waiting for the apply loop (`Q a v`) -/
theorem cinv_buffer (hN : NInv L n R) (hI : CInv P L n R) (hL : LogOK L)
    (hck : ChunkOK L (.full a v lo hi last cs)) (hlh : lo ≤ hi)
    (hQ : ∀ a' w, P a' w → Q a' w)
    (hQc : (bufPartial n a v lo hi last cs).complete = true → Q a v) :
    CInv Q L (bufNode n a v lo hi last cs) R ∧
    (∀ a' w, ¬ (a' = a ∧ w = v) → (Held (bufNode n a v lo hi last cs) a' w ↔ Held n a' w)) ∧
    ¬ Held (bufNode n a v lo hi last cs) a v := by
  have hck' := hck
  obtain ⟨hvh, hcs, hcov, hlast⟩ := hck
  have hrange := bufChunk_range n a v lo hi last cs
  have hcv := @bufBooked_cv n a v lo hi last cs (hI.needed_wf a)
  have held_iff : ∀ a' w, ¬ (a' = a ∧ w = v) →
      (Held (bufNode n a v lo hi last cs) a' w ↔ Held n a' w) := by
    intro a' w hne
    unfold Held
    by_cases ha : a' = a
    · subst ha
      have hw : w ≠ v := fun h => hne ⟨rfl, h⟩
      rw [bufNode_booked_same, hcv w, bufBooked_partial_other _ _ _ _ _ _ _ w hw,
        hasRows_bufNode_other hne]
      constructor
      · rintro ⟨h1 | h1, h2⟩
        · exact absurd h1 hw
        · exact ⟨h1, h2⟩
      · rintro ⟨h1, h2⟩; exact ⟨Or.inr h1, h2⟩
    · rw [bufNode_booked_other _ _ _ _ _ _ _ a' ha, hasRows_bufNode_other hne]
  have not_held : ¬ Held (bufNode n a v lo hi last cs) a v := by
    intro hh
    exact (hh.2 _ (by rw [bufNode_booked_same, bufBooked_partial_same])).2
      (hasRows_bufNode_same n a v lo hi last cs)
  have main : CInv Q L (bufNode n a v lo hi last cs) R := by
    refine ⟨?_, ?_, ?_, ?_, ?_, ?_, ?_, ?_, ?_, ?_, ?_, ?_, ?_, ?_, ?_, ?_, ?_⟩
    · unfold bufNode
      exact setBooked_sorted (by rw [bufferChunk_book]; exact hI.sorted) _ _
    · intro a'
      by_cases ha : a' = a
      · subst ha
        rw [bufNode_booked_same, bufBooked_needed]
        exact insertDb_needed_wf (hI.needed_wf a') _ (by intro r hr; rw [List.mem_singleton] at hr; subst hr; exact Nat.le_refl _)
      · rw [bufNode_booked_other _ _ _ _ _ _ _ a' ha]; exact hI.needed_wf a'
    · intro a'
      by_cases ha : a' = a
      · subst ha
        rw [bufNode_booked_same]; exact bufBooked_pwf (hI.pwf a') hlh
      · rw [bufNode_booked_other _ _ _ _ _ _ _ a' ha]; exact hI.pwf a'
    · intro a'
      by_cases ha : a' = a
      · subst ha
        rw [bufNode_booked_same]; exact bufBooked_keys (hI.keys a')
      · rw [bufNode_booked_other _ _ _ _ _ _ _ a' ha]; exact hI.keys a'
    · intro r hr
      rcases mem_bufNode_rows hr with h | h
      · exact hI.rows_fwd r h
      · subst h; simp only; omega
    · intro r hr
      rcases mem_bufNode_rows hr with h | h
      · have := hI.rows_le r h
        by_cases ha : r.site = a
        · rw [ha] at this ⊢
          rw [bufNode_booked_same, bufBooked_max]; omega
        · rw [bufNode_booked_other _ _ _ _ _ _ _ _ ha]; exact this
      · subst h
        simp only
        rw [bufNode_booked_same, bufBooked_max]; omega
    · intro a'
      by_cases ha : a' = a
      · subst ha
        rw [bufNode_booked_same, bufBooked_max]
        have := hI.head_le a'
        omega
      · rw [bufNode_booked_other _ _ _ _ _ _ _ a' ha]; exact hI.head_le a'
    · intro a' w p hp
      by_cases ha : a' = a
      · subst ha
        rw [bufNode_booked_same] at hp ⊢
        rw [hcv w]
        by_cases hw : w = v
        · exact Or.inl hw
        · rw [bufBooked_partial_other _ _ _ _ _ _ _ w hw] at hp
          exact Or.inr (hI.part_known a' w p hp)
      · rw [bufNode_booked_other _ _ _ _ _ _ _ a' ha] at hp ⊢
        exact hI.part_known a' w p hp
    · intro a' w p hp
      by_cases hav : a' = a ∧ w = v
      · obtain ⟨rfl, rfl⟩ := hav
        rw [bufNode_booked_same, bufBooked_partial_same] at hp
        cases hp
        cases hpc : (bufPartial n a' w lo hi last cs).complete with
        | true => exact Or.inr (Or.inr ⟨hQc hpc, rfl, hasRows_bufNode_same n a' w lo hi last cs⟩)
        | false =>
          exact Or.inr (Or.inl ⟨rfl, hasRows_bufNode_same n a' w lo hi last cs,
            fun x hx => seqs_bufNode hI hlh (old_incomplete hI hlh hpc) x hx⟩)
      · have hp' : (n.booked a').partial? w = some p := by
          by_cases ha : a' = a
          · subst ha
            rw [bufNode_booked_same, bufBooked_partial_other _ _ _ _ _ _ _ w (fun h => hav ⟨rfl, h⟩)] at hp
            exact hp
          · rw [bufNode_booked_other _ _ _ _ _ _ _ a' ha] at hp; exact hp
        rcases hI.part_state a' w p hp' with ⟨h1, h2⟩ | ⟨h1, h2, h3⟩ | ⟨h0, h1, h2⟩
        · exact Or.inl ⟨h1, fun hr => h2 ((hasRows_bufNode_other hav).mp hr)⟩
        · exact Or.inr (Or.inl ⟨h1, (hasRows_bufNode_other hav).mpr h2,
            fun x hx => (seqMem_bufNode_other hav x).mpr (h3 x hx)⟩)
        · exact Or.inr (Or.inr ⟨hQ a' w h0, h1, (hasRows_bufNode_other hav).mpr h2⟩)
    · intro a' w x hx c hc hcx
      by_cases hav : a' = a ∧ w = v
      · obtain ⟨rfl, rfl⟩ := hav
        exact cover_bufNode hN hI hL hck' hlh x hx c hc hcx
      · rcases hI.cover a' w x ((seqMem_bufNode_other hav x).mp hx) c hc hcx with h | h
        · left; rw [bufNode_buf]; exact mem_buf_bufferChunk h
        · exact Or.inr h
    · intro r hr
      rcases mem_bufNode_rows hr with h | h
      · exact hI.last_rows r h
      · subst h; exact hlast
    · intro a' w p hp hc
      by_cases hav : a' = a ∧ w = v
      · obtain ⟨rfl, rfl⟩ := hav
        rw [bufNode_booked_same, bufBooked_partial_same] at hp
        cases hp
        rw [bufPartial_last]
        cases ho : (n.booked a').partial? w with
        | none => exact hlast
        | some old => exact hI.last_part a' w old ho (old_incomplete hI hlh hc old ho)
      · have hp' : (n.booked a').partial? w = some p := by
          by_cases ha : a' = a
          · subst ha
            rw [bufNode_booked_same, bufBooked_partial_other _ _ _ _ _ _ _ w (fun h => hav ⟨rfl, h⟩)] at hp
            exact hp
          · rw [bufNode_booked_other _ _ _ _ _ _ _ a' ha] at hp; exact hp
        exact hI.last_part a' w p hp' hc
    · intro a' w hh
      by_cases hav : a' = a ∧ w = v
      · obtain ⟨rfl, rfl⟩ := hav
        exact absurd hh not_held
      · exact hI.held a' w ((held_iff a' w hav).mp hh)
    · exact hI.rgot
    · intro r hr
      by_cases hav : r.site = a ∧ r.ver = v
      · rw [hav.1, hav.2, bufNode_booked_same, bufBooked_partial_same]
        exact ⟨_, rfl⟩
      · obtain ⟨p, hp⟩ := hI.rows_part r ((mem_bufNode_rows_other hav).mp hr)
        refine ⟨p, ?_⟩
        by_cases ha : r.site = a
        · rw [ha] at hp ⊢
          rw [bufNode_booked_same, bufBooked_partial_other _ _ _ _ _ _ _ r.ver (fun h => hav ⟨ha, h⟩)]
          exact hp
        · rw [bufNode_booked_other _ _ _ _ _ _ _ _ ha]; exact hp
    · intro c hc
      rw [bufNode_buf] at hc
      rcases mem_bufferChunk_buf hc with h | h
      · have := hI.buf_rows c h
        by_cases hav : c.site = a ∧ c.dbv = v
        · rw [hav.1, hav.2]; exact hasRows_bufNode_same n a v lo hi last cs
        · exact (hasRows_bufNode_other hav).mpr this
      · obtain ⟨_, h1, h2, _⟩ := hL.mem_get (hcs c h)
        rw [h1, h2]; exact hasRows_bufNode_same n a v lo hi last cs
    · intro a'
      rw [dbvOf_bufNode]
      have := hI.dbv_le a'
      by_cases ha : a' = a
      · subst ha
        rw [bufNode_booked_same, bufBooked_max]; omega
      · rw [bufNode_booked_other _ _ _ _ _ _ _ a' ha]; exact this
  exact ⟨main, held_iff, not_held⟩

end Buffer

/-! ### one run of `process_fully_buffered_changes` -/

/-- **applied** (any node): the version `(a, v)` has a complete partial and all its changes are
buffered, merged before, or dominated; `applyBuffered` merges the buffered rows, books the version and
clears its rows.  Afterwards `(a, v)` is held. -/
theorem cinv_apply {P P' : Nat → Nat → Prop} {L : Log} {m : Node} {R : List Chg} {a v : Nat} {p : Partial}
    (hI : CInv P L m R) (hL : LogOK L) (hp : (m.booked a).partial? v = some p) (hpc : p.complete = true)
    (hP : ∀ a' w, ¬ (a' = a ∧ w = v) → P a' w → P' a' w)
    (hdata : ∀ c ∈ L.get a v, c ∈ m.buf ∨ c ∈ R ∨ Dom L.all c) :
    CInv P' L (m.applyBuffered a v) (sortBySeq (bufOf m.buf a v) ++ R) ∧
    (∀ a' w, Held (m.applyBuffered a v) a' w ↔ (a' = a ∧ v ≤ w ∧ w ≤ v) ∨ Held m a' w) ∧
    (∀ a' w, ¬ (a' = a ∧ v ≤ w ∧ w ≤ v) →
      ((m.applyBuffered a v).booked a').partial? w = (m.booked a').partial? w) := by
  have hX := applyBuffered_complete m a v p hp hpc
  have hbk_same : ((m.applyBuffered a v).booked a) = (m.booked a).insertDb [(v, v)] := by
    rw [hX, booked_clearMeta, applyCore_booked_same]
  have hvm : v ≤ (m.booked a).max := ((containsVersion_iff _ _).mp (hI.part_known a v p hp)).2
  have hmax2 : ((m.booked a).insertDb [(v, v)]).max = max (m.booked a).max v := by
    rw [insertDb_max _ _ (by simp), sup_singleton]
  refine cinv_close (a := a) (vlo := v) (vhi := v) hI hL
    (fun a' w h => hP a' w (fun h' => h ⟨h'.1, by omega, by omega⟩)) ?_ ?_ ?_ ?_ ?_ ?_ ?_ ?_ ?_ ?_ ?_ ?_ ?_ ?_ ?_ ?_
  · exact applyBuffered_sorted hI.sorted a v
  · intro a' ha
    rw [hX, booked_clearMeta, applyCore_booked_other _ _ _ _ ha]
  · intro w
    rw [hbk_same]
    exact containsVersion_insertDb (hI.needed_wf a) (Nat.le_refl v) w
  · rw [hbk_same]
    exact insertDb_needed_wf (hI.needed_wf a) _ (by intro r hr; rw [List.mem_singleton] at hr; subst hr; exact Nat.le_refl _)
  · rw [hbk_same]; exact insertDb_pwf (hI.pwf a) _
  · rw [hbk_same]; exact insertDb_keysSorted (hI.keys a) _
  · rw [hbk_same, hmax2]; omega
  · rw [hbk_same, hmax2]
    have := hI.head_le a
    omega
  · intro w _
    rw [hbk_same, partial?_insertDb]
  · intro w q h1 h2 hq
    have : w = v := by omega
    subst this
    rw [hbk_same, partial?_insertDb, hp] at hq
    cases hq; exact hpc
  · intro r
    rw [hX, mem_clearMeta_rows, applyCore_seqRows]
  · intro c
    rw [hX, mem_clearMeta_buf, applyCore_buf]
  · intro e he; exact List.mem_append_right _ he
  · intro e he
    rcases List.mem_append.mp he with h | h
    · right
      rw [mem_sortBySeq] at h
      have := (List.mem_filter.mp h).2
      simp only [decide_eq_true_eq] at this
      exact ⟨this.1, by omega, by omega⟩
    · exact Or.inl h
  · intro w h1 h2 c hc
    have : w = v := by omega
    subst this
    rcases hdata c hc with h | h | h
    · left
      apply List.mem_append_left
      rw [mem_sortBySeq]
      obtain ⟨_, h3, h4, _⟩ := hL.mem_get hc
      exact List.mem_filter.mpr ⟨h, by simpa using ⟨h3, h4⟩⟩
    · exact Or.inl (List.mem_append_right _ h)
    · exact Or.inr h
  · intro a'
    have hd : dbvOf (m.applyBuffered a v) a' = dbvOf (applyCore m a v) a' := by
      rw [hX]; exact dbvOf_congr (clearMeta_dbv _ _ _ _) a'
    rw [hd, dbvOf_applyCore]
    have := hI.dbv_le a'
    have hmx : ∀ x y : Nat, Nat.max x y = max x y := fun _ _ => rfl
    by_cases ha : a' = a
    · subst ha
      rw [if_pos rfl, hbk_same, hmax2, hmx]; omega
    · rw [if_neg ha, hX, booked_clearMeta, applyCore_booked_other _ _ _ _ ha]; exact this

/-- the rows and buffered rows after `applyBuffered` of a complete partial -/
theorem applyBuffered_rows_buf {m : Node} {a v : Nat} {p : Partial}
    (hp : (m.booked a).partial? v = some p) (hpc : p.complete = true) :
    (∀ r, r ∈ (m.applyBuffered a v).seqRows ↔ r ∈ m.seqRows ∧ ¬ (r.site = a ∧ r.ver = v)) ∧
    (∀ c, c ∈ (m.applyBuffered a v).buf ↔ c ∈ m.buf ∧ ¬ (c.site = a ∧ c.dbv = v)) := by
  have hX := applyBuffered_complete m a v p hp hpc
  constructor
  · intro r
    rw [hX, mem_clearMeta_rows, applyCore_seqRows]
    constructor
    · rintro ⟨h1, h2⟩; exact ⟨h1, fun h => h2 ⟨h.1, by omega, by omega⟩⟩
    · rintro ⟨h1, h2⟩; exact ⟨h1, fun h => h2 ⟨h.1, by omega⟩⟩
  · intro c
    rw [hX, mem_clearMeta_buf, applyCore_buf]
    constructor
    · rintro ⟨h1, h2⟩; exact ⟨h1, fun h => h2 ⟨h.1, by omega, by omega⟩⟩
    · rintro ⟨h1, h2⟩; exact ⟨h1, fun h => h2 ⟨h.1, by omega⟩⟩

/-- **buffered and applied** (a node on which `(a, v)` is not pending — an alive one): the chunk
completed the version and the apply loop merged the buffered rows -/
theorem cinv_buffer_apply {P : Nat → Nat → Prop} {L : Log} {n : Node} {R : List Chg} {a v lo hi last : Nat}
    {cs : List Chg} (hN : NInv L n R) (hI : CInv P L n R) (hL : LogOK L)
    (hck : ChunkOK L (.full a v lo hi last cs)) (hlh : lo ≤ hi) (hnP : ¬ P a v)
    (hpc : (bufPartial n a v lo hi last cs).complete = true) :
    CInv P L ((bufNode n a v lo hi last cs).applyBuffered a v)
      (sortBySeq (bufOf (bufNode n a v lo hi last cs).buf a v) ++ R) ∧
    (∀ a' w, Held ((bufNode n a v lo hi last cs).applyBuffered a v) a' w ↔
      (a' = a ∧ v ≤ w ∧ w ≤ v) ∨ Held n a' w) ∧
    (∀ a' w, ¬ (a' = a ∧ v ≤ w ∧ w ≤ v) →
      (((bufNode n a v lo hi last cs).applyBuffered a v).booked a').partial? w = (n.booked a').partial? w) := by
  have hck' := hck
  obtain ⟨hvh, hcs, hcov, hlast⟩ := hck
  obtain ⟨hB, hBheld, _⟩ := cinv_buffer (Q := fun a' w => P a' w ∨ (a' = a ∧ w = v)) hN hI hL hck' hlh
    (fun _ _ h => Or.inl h) (fun _ => Or.inr ⟨rfl, rfl⟩)
  have hdata : ∀ c ∈ L.get a v, c ∈ (bufNode n a v lo hi last cs).buf ∨ c ∈ R ∨ Dom L.all c := by
    intro c hc
    have fresh : (∀ old, (n.booked a).partial? v = some old → old.complete = false) →
        (last_ok : ∀ c ∈ L.get a v, (bufPartial n a v lo hi last cs).last < c.seq → Dom L.all c) →
        c ∈ (bufNode n a v lo hi last cs).buf ∨ c ∈ R ∨ Dom L.all c := by
      intro hold last_ok
      by_cases hle : c.seq ≤ (bufPartial n a v lo hi last cs).last
      · have hm := (complete_iff (bufBooked_pwf (hI.pwf a) hlh |>.of_partial?
          (bufBooked_partial_same n a v lo hi last cs))).mp hpc c.seq hle
        rcases cover_bufNode hN hI hL hck' hlh c.seq (seqs_bufNode hI hlh hold c.seq hm) c hc rfl with h | h
        · exact Or.inl h
        · exact Or.inr (Or.inr h)
      · exact Or.inr (Or.inr (last_ok c hc (by omega)))
    cases ho : (n.booked a).partial? v with
    | some old =>
      cases hoc : old.complete with
      | true =>
        rcases hI.part_state a v old ho with ⟨_, h4⟩ | ⟨h3, _⟩ | ⟨h0, _⟩
        · have hh : Held n a v := by
            refine ⟨hI.part_known a v old ho, ?_⟩
            intro p hp
            rw [ho] at hp; cases hp
            exact ⟨hoc, h4⟩
          rcases hI.held a v hh c hc with h | h
          · exact Or.inr (Or.inl h)
          · exact Or.inr (Or.inr h)
        · rw [hoc] at h3; cases h3
        · exact absurd h0 hnP
      | false =>
        apply fresh
        · intro old' ho'; rw [ho] at ho'; cases ho'; exact hoc
        · intro c' hc' hlt
          rw [bufPartial_last, ho] at hlt
          exact hI.last_part a v old ho hoc c' hc' hlt
    | none =>
      apply fresh
      · intro old' ho'; rw [ho] at ho'; cases ho'
      · intro c' hc' hlt
        rw [bufPartial_last, ho] at hlt
        exact hlast c' hc' hlt
  obtain ⟨hA, hAheld, hApart⟩ := cinv_apply (P' := P) hB hL (bufNode_partial n a v lo hi last cs) hpc
    (fun a' w hne h => by
      rcases h with h | h
      · exact h
      · exact absurd h hne) hdata
  refine ⟨hA, ?_, ?_⟩
  · intro a' w
    rw [hAheld a' w]
    constructor
    · rintro (h | h)
      · exact Or.inl h
      · by_cases hav : a' = a ∧ w = v
        · exact Or.inl ⟨hav.1, by omega, by omega⟩
        · exact Or.inr ((hBheld a' w hav).mp h)
    · rintro (h | h)
      · exact Or.inl h
      · by_cases hav : a' = a ∧ w = v
        · exact Or.inl ⟨hav.1, by omega, by omega⟩
        · exact Or.inr ((hBheld a' w hav).mpr h)
  · intro a' w hne
    rw [hApart a' w hne]
    have hav : ¬ (a' = a ∧ w = v) := fun h => hne ⟨h.1, by omega, by omega⟩
    by_cases ha : a' = a
    · subst ha
      rw [bufNode_booked_same, bufBooked_partial_other _ _ _ _ _ _ _ w (fun h => hav ⟨rfl, h⟩)]
    · rw [bufNode_booked_other _ _ _ _ _ _ _ a' ha]

end Corro.ClusterSys.Crash
