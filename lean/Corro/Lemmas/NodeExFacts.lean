/-
Facts about the example nodes of `Lemmas/NodeEx.lean` that need the invariant machinery (shared by
the `example`s of `Props/C03.lean` and `Props/C06.lean`), and two small corollaries of `Consistent`.
-/
import Corro.Lemmas.NodeUnchunked
import Corro.Lemmas.NodeEx
namespace Corro.Node
open Corro.Crdt

/-- in a consistent node every stored partial has canonical seq ranges -/
theorem Consistent.bookWF {L : Nat → Nat → Nat} {n : Node} (hc : Consistent L n) : n.BookWF := by
  intro e he
  have : n.booked e.1 = e.2 := by
    rw [booked_eq, alook_of_mem_sorted hc.sorted (show (e.1, e.2) ∈ n.book from he)]; rfl
  rw [← this]; exact (hc.actor e.1).pwf

/-- a consistent node's buffered rows all lie inside sequence rows -/
theorem Consistent.bufCovered {L : Nat → Nat → Nat} {n : Node} (hc : Consistent L n) : n.BufCovered :=
  fun c hcm => (hc.actor c.site).buf_cov c hcm rfl

/-- the invariant of the chunk-by-chunk delivery, for any list of chunks (covering or not): the
store is still the old one, or it is the old one with the whole version merged -/
theorem chunks_all_or_nothing {L : Nat → Nat → Nat} {site ver last : Nat} {cs : List Chg} {db0 : Db}
    {n : Node} (h0 : Before L site ver cs db0 n) (hcs : CsOK site ver last cs) (hL : L site ver = last)
    (chunks : List (Nat × Nat)) (hch : ∀ r ∈ chunks, r.1 ≤ r.2 ∧ r.2 ≤ last) :
    Before L site ver cs db0 (chunks.foldl (fun m r => m.deliver [chunkItem site ver last cs r]) n) ∨
    After site ver last cs db0 (chunks.foldl (fun m r => m.deliver [chunkItem site ver last cs r]) n) := by
  apply foldl_inv (fun m => Before L site ver cs db0 m ∨ After site ver last cs db0 m)
  · exact Or.inl h0
  · intro m r hr hm
    have hrr := hch r hr
    rcases hm with hb | ha
    · rcases hb.step hcs hL r hrr.1 hrr.2 with ⟨hb', _⟩ | ha'
      · exact Or.inl hb'
      · exact Or.inr ha'
    · right; rw [ha.step r hrr.2]; exact ha

namespace Ex

/-- true `last_seq` of the versions of the example history -/
def L (_ v : Nat) : Nat := if v = 3 then 3 else if v = 1 then 1 else 0

theorem srv_consistent : Consistent L srv := by
  unfold srv
  refine deliver_consistent' (deliver_consistent' (deliver_consistent' (fresh_consistent L 9) _ ?_) _ ?_) _ ?_
  · intro it hit
    simp only [List.mem_singleton] at hit
    subst hit
    exact ⟨rfl, by decide, by decide⟩
  · intro it hit
    simp only [List.mem_cons, List.not_mem_nil, or_false] at hit
    rcases hit with rfl | rfl
    · exact Nat.le_refl 2
    · exact ⟨rfl, by decide, by decide⟩
  · intro it hit
    simp only [List.mem_singleton] at hit
    subst hit
    exact ⟨rfl, by decide, by decide⟩

theorem srv_noPending : NoPending srv := by
  intro a v p hp hcomp
  by_cases ha : a = 1
  · subst ha
    have hbk : srv.booked 1 = { max := 5, needed := [(4, 4)], partials := [(3, ⟨[(0, 1)], 3⟩)] } := by decide
    rw [hbk, partial?_eq, alook_cons] at hp
    by_cases hv : v = 3
    · subst hv
      simp only [if_true, Option.some.injEq] at hp
      subst hp
      exact absurd hcomp (by decide)
    · have hv' : ¬ 3 = v := fun h => hv h.symm
      simp only [hv', if_false, alook_nil] at hp; cases hp
  · have hbk : srv.booked a = {} := by
      have hb : srv.book = [(1, { max := 5, needed := [(4, 4)], partials := [(3, ⟨[(0, 1)], 3⟩)] })] := by
        decide
      rw [booked_eq, hb, alook_cons]
      have : ¬ 1 = a := fun h => ha h.symm
      simp [this, alook_nil]
    rw [hbk] at hp; cases hp

/-- the version 3 of the example as a `CsOK` change list -/
theorem v3_ok : CsOK 1 3 3 v3 := ⟨by decide, by decide⟩

end Ex
end Corro.Node
