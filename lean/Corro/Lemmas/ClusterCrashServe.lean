/-
C01 with crashes — everything a sync server sends satisfies `ChunkOK`, for a server that satisfies
the crash-tolerant invariant `CInv` (dead or alive, possibly with complete-but-unapplied versions)
and has no sequence row lacking a buffered row (`nodeClean`).  The relay serves its live entries of a
version only if ALL changes of that version are merged or dominated (`rgot`) — it need not book the
version as held any more (it may have re-buffered a chunk of it while killed).
-/
import Corro.Lemmas.ClusterCrashDeliver

namespace Corro.ClusterSys.Crash
open Corro.Crdt Corro.Node Corro.Needs Corro.ClusterSys

/-- every request stays within the server's head -/
theorem requests_le_head {P : Nat → Nat → Prop} {L : Log} {ni nj : Node} {Rj : List Chg}
    (hj : CInv P L nj Rj) {a : Nat}
    {ns : List Need} (h : (a, ns) ∈ computeAvailableNeeds ni.syncState nj.syncState) {need : Need}
    (hn : need ∈ ns) (v : Nat) (hv : requests need v) : v ≤ (nj.booked a).max := by
  obtain ⟨head, hhm, _, hh0, rfl, _⟩ := mem_computeAvailableNeeds.mp h
  have hhead := head_of_syncState hj.sorted hhm
  have hfw : ∀ r ∈ needOf nj.syncState a, r.1 ≤ r.2 := by
    intro r hr
    exact Corro.Needs.wf_forward (hj.needed_wf a) r (needOf_syncState hj.sorted a hr)
  have hh1 : 1 ≤ head := by omega
  have hwf := otherHaves_wf head hh1 (needOf nj.syncState a) (partialsOf nj.syncState a) hfw
  have hmo := mem_otherHaves head hh1 (needOf nj.syncState a) (partialsOf nj.syncState a) hfw
  rw [← hhead]
  rcases mem_needsFor.mp hn with h | h | h
  · obtain ⟨r, _, p, hp, rfl⟩ := mem_fullFromNeed.mp h
    have hps := ((RSet.mem_overlapping _ r p).mp hp).1
    have hpf := Corro.Needs.wf_forward hwf p hps
    have hhi := (hmo p.2).mp ⟨p, hps, hpf, Nat.le_refl _⟩
    simp only [requests, clip] at hv
    omega
  · obtain ⟨q, hq, h⟩ := mem_partialNeeds.mp h
    rcases h with ⟨hm, rfl⟩ | ⟨_, os, hos, _, rfl⟩
    · have := (hmo q.1).mp hm
      simp only [requests] at hv
      omega
    · obtain ⟨p, hp⟩ := partialsOf_syncState hj.sorted a (aget_mem hos)
      have := (containsVersion_iff _ _).mp (hj.part_known a q.1 p hp)
      simp only [requests] at hv
      omega
  · rcases mem_missing.mp h with ⟨_, rfl⟩ | ⟨oh, _, _, rfl⟩ <;>
      simp only [requests] at hv <;> omega

section Server
variable {P : Nat → Nat → Prop} {L : Log} {n : Node} {R : List Chg}

/-- a live entry attributed to `(a, v)` is a change of `(a, v)` of the log, and every change of the
version is merged or dominated -/
theorem of_mem_live (hN : NInv L n R) (hI : CInv P L n R) (hL : LogOK L) {a v : Nat} {c : Chg}
    (hc : c ∈ n.live a v) : c ∈ L.get a v ∧ ∀ c' ∈ L.get a v, c' ∈ R ∨ Dom L.all c' := by
  obtain ⟨h1, h2, h3, _⟩ := mem_live.mp hc
  have hR := hN.store.lit.mem h1
  have hg := hL.get_of_mem_all (hN.rsub c hR)
  have hh := hI.rgot c hR
  rw [h2, h3] at hg hh
  exact ⟨hg, hh⟩

/-- **relay lemma, node level**: every change of a version all of whose changes are merged or
dominated is among the live entries the node serves for the version, or is dominated in the log -/
theorem live_covers_got (hN : NInv L n R) (hL : LogOK L) {a v : Nat}
    (hg : ∀ c' ∈ L.get a v, c' ∈ R ∨ Dom L.all c')
    {c : Chg} (hc : c ∈ L.get a v) : c ∈ n.live a v ∨ Dom L.all c := by
  by_cases hd : Dom L.all c
  · exact Or.inr hd
  · left
    obtain ⟨_, h2, h3, hok⟩ := hL.mem_get hc
    rcases hg c hc with h | h
    · have := live_of_nondominated hN.store hN.rsub hok h hd
      exact mem_live.mpr ⟨this, h2, h3, hok.2.2.2.2.2⟩
    · exact absurd h hd

theorem live_covers (hN : NInv L n R) (hI : CInv P L n R) (hL : LogOK L) {a v : Nat} (hh : Held n a v)
    {c : Chg} (hc : c ∈ L.get a v) : c ∈ n.live a v ∨ Dom L.all c :=
  live_covers_got hN hL (hI.held a v hh) hc

theorem dom_of_no_live (hN : NInv L n R) (hI : CInv P L n R) (hL : LogOK L) {a v : Nat} (hh : Held n a v)
    (hl : (n.live a v).isEmpty = true) {c : Chg} (hc : c ∈ L.get a v) : Dom L.all c := by
  rcases live_covers hN hI hL hh hc with h | h
  · rw [List.isEmpty_iff.mp hl] at h; cases h
  · exact h

/-- a version within the head that is not needed and has no buffered row is held, on a node whose
sequence rows all have buffered rows -/
theorem held_of_quiet (hI : CInv P L n R) (hcl : nodeClean n = true) {a v : Nat}
    (hv : v ≤ (n.booked a).max) (hg : n.inGaps a v = false) (hb : n.hasBuf a v = false) :
    Held n a v := by
  refine ⟨(containsVersion_iff _ _).mpr ⟨?_, hv⟩, ?_⟩
  · intro hm
    rw [inGaps_iff.mpr hm] at hg; cases hg
  · intro p hp
    have noRows : ¬ HasRows n a v := by
      rintro ⟨r, hr, h1, h2⟩
      unfold nodeClean at hcl
      have := List.all_eq_true.mp hcl r hr
      obtain ⟨c, hc, hk⟩ := List.any_eq_true.mp this
      simp only [decide_eq_true_eq] at hk
      exact hasBuf_false_iff.mp hb c hc ⟨hk.1.trans h1, hk.2.trans h2⟩
    rcases hI.part_state a v p hp with h | ⟨_, h, _⟩ | ⟨_, _, h⟩
    · exact h
    · exact absurd h noRows
    · exact absurd h noRows

theorem chunkOK_live (hN : NInv L n R) (hI : CInv P L n R) (hL : LogOK L) {a v lo hi : Nat}
    (hne : (n.live a v).isEmpty = false) :
    ChunkOK L (.full a v lo hi (maxSeq (n.live a v))
      ((n.live a v).filter (fun c => lo ≤ c.seq ∧ c.seq ≤ hi))) := by
  obtain ⟨c0, hc0⟩ : ∃ c0, c0 ∈ n.live a v := by
    cases hl : n.live a v with
    | nil => rw [hl] at hne; cases hne
    | cons c cs => exact ⟨c, by simp⟩
  obtain ⟨hg0, hgot⟩ := of_mem_live hN hI hL hc0
  refine ⟨?_, ?_, ?_, ?_⟩
  · apply Classical.byContradiction
    intro hlt
    rw [hL.get_beyond (by omega)] at hg0
    cases hg0
  · intro e he
    exact (of_mem_live hN hI hL (List.mem_filter.mp he).1).1
  · intro c hc h1 h2
    rcases live_covers_got hN hL hgot hc with h | h
    · exact Or.inl (List.mem_filter.mpr ⟨h, by simpa using ⟨h1, h2⟩⟩)
    · exact Or.inr h
  · intro c hc hlt
    rcases live_covers_got hN hL hgot hc with h | h
    · have := le_maxSeq h; omega
    · exact h

theorem chunkOK_buf (hN : NInv L n R) (hI : CInv P L n R) (hL : LogOK L) {a v lo hi : Nat} {r : SeqRow}
    (hr : r ∈ n.seqRows) (hs : r.site = a) (hv : r.ver = v) (h1 : r.lo ≤ lo) (h2 : hi ≤ r.hi) :
    ChunkOK L (.full a v lo hi r.last (n.bufIn a v lo hi)) := by
  refine ⟨?_, ?_, ?_, ?_⟩
  · have := hI.rows_le r hr
    have := hI.head_le a
    rw [hs, hv] at *
    omega
  · intro e he
    obtain ⟨h3, h4, h5, _⟩ := mem_bufIn.mp he
    have := hL.get_of_mem_all (hN.bufsub e h3)
    rw [h4, h5] at this
    exact this
  · intro c hc h3 h4
    have hsm : SeqMem n.seqRows a v c.seq := ⟨r, hr, hs, hv, by omega, by omega⟩
    rcases hI.cover a v c.seq hsm c hc rfl with h | h
    · left
      obtain ⟨_, h5, h6, _⟩ := hL.mem_get hc
      exact mem_bufIn.mpr ⟨h, h5, h6, h3, h4⟩
    · exact Or.inr h
  · intro c hc hlt
    have := hI.last_rows r hr
    rw [hs, hv] at this
    exact this c hc hlt

theorem chunkOK_empty_one (hN : NInv L n R) (hI : CInv P L n R) (hL : LogOK L) (hcl : nodeClean n = true)
    {a v : Nat} (hv : v ≤ (n.booked a).max) (hl : (n.live a v).isEmpty = true)
    (hb : n.hasBuf a v = false) (hg : n.inGaps a v = false) :
    ∀ c ∈ L.get a v, Dom L.all c :=
  fun _ hc => dom_of_no_live hN hI hL (held_of_quiet hI hcl hv hg hb) hl hc

/-- **everything a server sends for a request within its head satisfies `ChunkOK`** -/
theorem chunkOK_handleNeed (hN : NInv L n R) (hI : CInv P L n R) (hL : LogOK L) (hcl : nodeClean n = true)
    {a : Nat} {need : Need} (hreq : ∀ v, requests need v → v ≤ (n.booked a).max) {it : Corro.Node.Item}
    (hit : it ∈ handleNeed n a need) : ChunkOK L it := by
  cases need with
  | full lo hi =>
    rcases mem_handleNeed_full.mp hit with ⟨v, _, _, h3⟩ | ⟨v, r, _, _, _, _, h5, rfl⟩ | ⟨p, hp, rfl⟩
    · obtain ⟨hne, rfl⟩ := liveItem_some h3
      have := chunkOK_live hN hI hL (lo := 0) (hi := maxSeq (n.live a v)) hne
      rw [filter_true_eq _ _ (fun c hc => le_maxSeq hc)] at this
      exact this
    · obtain ⟨hr, hs, hv⟩ := mem_seqRowsOf.mp h5
      exact chunkOK_buf hN hI hL hr hs hv (Nat.le_refl _) (Nat.le_refl _)
    · have hpf := Corro.Needs.wf_forward (emptyRanges_wf n a lo hi) p hp
      have hin : ∀ v, p.1 ≤ v → v ≤ p.2 → v ∈ emptyVs n a lo hi :=
        fun v h1 h2 => mem_emptyRanges.mp ⟨p, hp, h1, h2⟩
      refine ⟨?_, ?_⟩
      · have := mem_emptyVs.mp (hin p.2 hpf (Nat.le_refl _))
        have := hreq p.2 ⟨this.1, this.2.1⟩
        have := hI.head_le a
        omega
      · intro v h1 h2
        obtain ⟨h3, h4, h5, h6, h7⟩ := mem_emptyVs.mp (hin v h1 h2)
        exact chunkOK_empty_one hN hI hL hcl (hreq v ⟨h3, h4⟩) h5 h6 h7
  | part w seqs =>
    rcases mem_handleNeed_part.mp hit with ⟨hne, r, _, h3⟩ | ⟨_, _, r, _, row, hrow, _, rfl⟩ |
        ⟨hl, hb, hg, rfl⟩
    · rw [livePart_some h3]
      exact chunkOK_live hN hI hL hne
    · obtain ⟨hr, hs, hv⟩ := mem_seqRowsOf.mp hrow
      have hmax : ∀ x y : Nat, Nat.max x y = max x y := fun _ _ => rfl
      have hmin : ∀ x y : Nat, Nat.min x y = min x y := fun _ _ => rfl
      exact chunkOK_buf hN hI hL hr hs hv (by rw [hmax]; omega) (by rw [hmin]; omega)
    · have hw := hreq w rfl
      refine ⟨?_, ?_⟩
      · have := hI.head_le a; omega
      · intro v h1 h2
        have : v = w := by omega
        subst this
        exact chunkOK_empty_one hN hI hL hcl hw hl hb hg

end Server

/-- **every answer of a sync session satisfies `ChunkOK`** (server dead or alive) -/
theorem chunkOK_answers {P : Nat → Nat → Prop} {L : Log} {ni nj : Node} {Rj : List Chg}
    (hN : NInv L nj Rj) (hI : CInv P L nj Rj)
    (hL : LogOK L) (hcl : nodeClean nj = true) {it : Corro.Node.Item} (hit : it ∈ answers ni nj) :
    ChunkOK L it := by
  unfold answers at hit
  obtain ⟨an, han, hit⟩ := List.mem_flatMap.mp hit
  obtain ⟨need, hneed, hit⟩ := List.mem_flatMap.mp hit
  obtain ⟨a, ns⟩ := an
  exact chunkOK_handleNeed hN hI hL hcl (fun v hv => requests_le_head hI han hneed v hv) (mem_serve hit)

end Corro.ClusterSys.Crash
