/-
Lemmas about the local write path of the cell store model (`applyStmt`, `localTx`): membership in
`sortBySeq` / `Db.changes`, and what a successful INSERT stores.
-/
import Corro.Lemmas.CrdtLookup

namespace Corro.Crdt

theorem mem_insertBySeq {c x : Chg} {l : List Chg} : x ∈ insertBySeq c l ↔ x = c ∨ x ∈ l := by
  induction l with
  | nil => simp [insertBySeq]
  | cons a l ih =>
    unfold insertBySeq
    split
    · simp
    · simp only [List.mem_cons, ih]; grind

theorem mem_foldl_insertBySeq {x : Chg} (cs acc : List Chg) :
    x ∈ cs.foldl (fun acc c => insertBySeq c acc) acc ↔ x ∈ cs ∨ x ∈ acc := by
  induction cs generalizing acc with
  | nil => simp
  | cons c cs ih =>
    simp only [List.foldl_cons, ih, mem_insertBySeq, List.mem_cons]; grind

theorem mem_sortBySeq {x : Chg} {cs : List Chg} : x ∈ sortBySeq cs ↔ x ∈ cs := by
  unfold sortBySeq
  rw [mem_foldl_insertBySeq]; simp

theorem le_foldl_max_init (cs : List Chg) (m : Nat) : m ≤ cs.foldl (fun m c => max m c.seq) m := by
  induction cs generalizing m with
  | nil => exact Nat.le_refl _
  | cons c cs ih => exact Nat.le_trans (Nat.le_max_left _ _) (ih _)

theorem le_foldl_max {cs : List Chg} {x : Chg} (h : x ∈ cs) (m : Nat) :
    x.seq ≤ cs.foldl (fun m c => max m c.seq) m := by
  induction cs generalizing m with
  | nil => cases h
  | cons c cs ih =>
    rcases List.mem_cons.mp h with rfl | h
    · exact Nat.le_trans (Nat.le_max_right _ _) (le_foldl_max_init cs _)
    · exact ih h _

theorem exists_mem_zipIdx {α : Type} {l : List α} {a : α} (h : a ∈ l) (k : Nat) :
    ∃ i, (a, i) ∈ l.zipIdx k := by
  induction l generalizing k with
  | nil => cases h
  | cons b l ih =>
    rw [List.zipIdx_cons]
    rcases List.mem_cons.mp h with rfl | h
    · exact ⟨k, List.mem_cons_self⟩
    · obtain ⟨i, hi⟩ := ih h (k + 1)
      exact ⟨i, List.mem_cons_of_mem _ hi⟩

/-- the column changes of a stored row are live entries of `crsql_changes` -/
theorem mem_changes_of_cell {db : Db} {r : Row} {l : Cell} (hr : r ∈ db.rows) (hl : l ∈ r.cells) :
    (⟨r.tbl, r.pk, l.cid, l.val, l.clk.colv, r.cl, l.clk.site, l.clk.dbv, l.clk.seq⟩ : Chg) ∈
      db.changes := by
  unfold Db.changes
  rw [List.mem_flatMap]
  refine ⟨r, hr, ?_⟩
  rw [List.mem_append]
  right
  exact List.mem_map.mpr ⟨l, hl, rfl⟩

/-- a successful local INSERT stores a live row (odd causal length) with one cell, of column
version 1 and attributed to the writing site and version, for every non-key column of the table -/
theorem applyStmt_ins_row {db : Db} {ver seq : Nat} {tbl pk : String} {assigns : List (String × Val)}
    {cols : List String} {db' : Db} {seq' : Nat} (hc : tableCols tbl = some cols)
    (h : applyStmt db ver seq (.ins tbl pk assigns) = .ok (db', seq')) :
    ∃ r, db'.findRow tbl pk = some r ∧ r.tbl = tbl ∧ r.pk = pk ∧ r.cl % 2 = 1 ∧ db'.site = db.site ∧
      ∀ col ∈ cols, ∃ l ∈ r.cells, l.cid = col ∧ l.clk.colv = 1 ∧ l.clk.site = db.site ∧
        l.clk.dbv = ver := by
  unfold applyStmt at h
  simp only [hc] at h
  have fin : ∀ (r : Row) (x : Nat), r.tbl = tbl → r.pk = pk → r.cl % 2 = 1 →
      (∀ col ∈ cols, ∃ l ∈ r.cells, l.cid = col ∧ l.clk.colv = 1 ∧ l.clk.site = db.site ∧
        l.clk.dbv = ver) →
      (Except.ok (db.setRow r, x) : Except WErr (Db × Nat)) = .ok (db', seq') →
      ∃ r, db'.findRow tbl pk = some r ∧ r.tbl = tbl ∧ r.pk = pk ∧ r.cl % 2 = 1 ∧
        db'.site = db.site ∧ ∀ col ∈ cols, ∃ l ∈ r.cells, l.cid = col ∧ l.clk.colv = 1 ∧
          l.clk.site = db.site ∧ l.clk.dbv = ver := by
    intro r x h1 h2 hodd hcells h
    simp only [Except.ok.injEq, Prod.mk.injEq] at h
    obtain ⟨h3, _⟩ := h
    subst h3
    refine ⟨r, ?_, h1, h2, hodd, by simp, hcells⟩
    rw [← h1, ← h2]
    exact findRow_setRow_same db r
  have hcells : ∀ (s0 : Nat), ∀ col ∈ cols, ∃ l ∈ (cols.zipIdx.map fun (x : String × Nat) =>
      (⟨x.1, match assigns.find? (·.1 = x.1) with | some (_, v) => v | none => Val.null,
        ⟨1, db.site, ver, s0 + x.2⟩⟩ : Cell)),
      l.cid = col ∧ l.clk.colv = 1 ∧ l.clk.site = db.site ∧ l.clk.dbv = ver := by
    intro s0 col hcol
    obtain ⟨i, hi⟩ := exists_mem_zipIdx hcol 0
    exact ⟨_, List.mem_map.mpr ⟨(col, i), hi, rfl⟩, rfl, rfl, rfl, rfl⟩
  cases hf : db.findRow tbl pk with
  | none =>
    rw [hf] at h
    simp only [] at h
    split at h
    · cases h
    · exact fin _ _ rfl rfl (by simp) (hcells _) h
  | some r =>
    rw [hf] at h
    simp only [] at h
    split at h
    · cases h
    · exact fin _ _ rfl rfl (by simp only []; split <;> omega) (hcells _) h

end Corro.Crdt
