/-
C01 with crashes — liveness under a fairness hypothesis: every node — dead or alive, across kills
and restarts — knows its own versions with no partial (`OwnInvC`; the restart rebuilds the own head
from the db-version row, which local writes keep at the own head), a lossless session `i ← j` of an
ALIVE client makes `i` hold every foreign version `j` holds (`sync_step_progress_crash`), hence after
writes and crashes have stopped and every node has been restarted, any schedule of lossless sessions
containing a session `i ← a` for every ordered pair ends with every node holding every version
(`allHeld_after_schedule_crash`).
-/
import Corro.Lemmas.ClusterCrashSession

namespace Corro.ClusterSys.Crash
open Corro.Crdt Corro.Node Corro.ClusterSys

/-! ### a version known with no partial at all -/

/-- `(a, v)` is within the head, not needed, and has no partial (not even an applied one) -/
def OwnHeld (n : Node) (a v : Nat) : Prop :=
  (n.booked a).containsVersion v = true ∧ (n.booked a).partial? v = none

theorem OwnHeld.held {n : Node} {a v : Nat} (h : OwnHeld n a v) : Held n a v :=
  ⟨h.1, fun p hp => by rw [h.2] at hp; cases hp⟩

theorem applyBuffered_keeps {m : Node} {a0 v0 a v : Nat} (hwf : RSet.WF (m.booked a0).needed)
    (h : OwnHeld m a v) : OwnHeld (m.applyBuffered a0 v0) a v := by
  refine ⟨?_, by rw [partial?_applyBuffered]; exact h.2⟩
  cases hp : (m.booked a0).partial? v0 with
  | none => rw [applyBuffered_skip m a0 v0 (fun p hp' => by rw [hp] at hp'; cases hp')]; exact h.1
  | some p =>
    cases hpc : p.complete with
    | false =>
      rw [applyBuffered_skip m a0 v0 (fun p' hp' => by rw [hp] at hp'; cases hp'; exact hpc)]; exact h.1
    | true =>
      rw [applyBuffered_complete m a0 v0 p hp hpc, booked_clearMeta]
      by_cases ha : a = a0
      · subst ha
        rw [applyCore_booked_same]
        exact (containsVersion_insertDb hwf (Nat.le_refl v0) v).mpr (Or.inr h.1)
      · rw [applyCore_booked_other _ _ _ _ ha]; exact h.1

theorem clearedNode_keeps {P : Nat → Nat → Prop} {L : Log} {n N : Node} {R : List Chg}
    (hI : CInv P L n R) (hbook : N.book = n.book) {a0 vlo vhi : Nat} (hle : vlo ≤ vhi) {a v : Nat}
    (h : OwnHeld n a v) :
    OwnHeld (clearedNode N a0 vlo vhi (((n.booked a0).insertDb [(vlo, vhi)]).dropPartials vlo vhi)) a v := by
  by_cases ha : a = a0
  · subst ha
    unfold OwnHeld
    rw [clearedNode_booked_same, containsVersion_dropPartials, partial?_dropPartials, partial?_insertDb]
    refine ⟨(containsVersion_insertDb (hI.needed_wf a) hle v).mpr (Or.inr h.1), ?_⟩
    split
    · rfl
    · exact h.2
  · unfold OwnHeld
    rw [clearedNode_booked_other _ _ _ _ _ _ ha, booked_of_book hbook a]
    exact h

/-- **a delivery never disturbs a version known with no partial** (any node, dead or alive, any
changeset) -/
theorem deliver_keeps {P : Nat → Nat → Prop} {L : Log} {n : Node} {R : List Chg} (hI : CInv P L n R)
    (it : Item) {a v : Nat} (h : OwnHeld n a v) : OwnHeld (n.deliver [it]) a v := by
  cases it with
  | empty a0 vlo vhi =>
    cases hc : (n.booked a0).containsAll vlo vhi none with
    | true => rw [deliver_empty_skip n a0 vlo vhi hc]; exact h
    | false =>
      have hle : vlo ≤ vhi := by
        apply Classical.byContradiction
        intro h'
        rw [containsAll_backward _ _ _ _ (by omega)] at hc
        cases hc
      rw [deliver_empty n a0 vlo vhi hc]
      exact clearedNode_keeps hI (by split <;> simp) hle h
  | full a0 v0 lo hi last cs =>
    cases hc : (n.booked a0).containsAll v0 v0 (some (lo, hi)) with
    | true => rw [deliver_full_skip n a0 v0 lo hi last cs hc]; exact h
    | false =>
      by_cases hcomp : lo = 0 ∧ hi = last
      · obtain ⟨rfl, rfl⟩ := hcomp
        by_cases hne : cs = []
        · subst hne
          rw [deliver_full_cleared n a0 v0 hi hc]
          exact clearedNode_keeps hI (by split <;> simp) (Nat.le_refl v0) h
        · rw [deliver_full_complete n a0 v0 hi cs hc hne]
          exact clearedNode_keeps hI (by simp) (Nat.le_refl v0) h
      · by_cases hlt : hi < lo
        · rw [deliver_full_backward n a0 v0 lo hi last cs hc hlt]; exact h
        · have hne : ¬ (a = a0 ∧ v = v0) := by
            rintro ⟨rfl, rfl⟩
            rw [containsAll_single] at hc
            unfold Booked.contains at hc
            rw [h.1, h.2] at hc
            cases hc
          have hB : OwnHeld (bufNode n a0 v0 lo hi last cs) a v := by
            by_cases ha : a = a0
            · subst ha
              have hv : v ≠ v0 := fun h' => hne ⟨rfl, h'⟩
              unfold OwnHeld
              rw [bufNode_booked_same, bufBooked_partial_other _ _ _ _ _ _ _ v hv]
              exact ⟨(bufBooked_cv (hI.needed_wf a) v).mpr (Or.inr h.1), h.2⟩
            · unfold OwnHeld
              rw [bufNode_booked_other _ _ _ _ _ _ _ a ha]
              exact h
          rw [deliver_full_buffer n a0 v0 lo hi last cs hc (by omega) hcomp]
          split
          · refine applyBuffered_keeps ?_ hB
            rw [bufNode_booked_same, bufBooked_needed]
            exact insertDb_needed_wf (hI.needed_wf a0) _
              (by intro r hr; rw [List.mem_singleton] at hr; subst hr; exact Nat.le_refl _)
          · exact hB

/-! ### the db-version rows only grow -/

theorem dbvOf_mergeChanges_ge (n : Node) (cs : List Chg) (a : Nat) :
    dbvOf n a ≤ dbvOf (n.mergeChanges cs) a := by
  induction cs generalizing n with
  | nil => exact Nat.le_refl _
  | cons c cs ih =>
    rw [mergeChanges_cons]
    refine Nat.le_trans ?_ (ih _)
    have hd : dbvOf ({ (n.bumpDbv c.site c.dbv) with db := merge n.db c } : Node) a =
        dbvOf (n.bumpDbv c.site c.dbv) a := rfl
    rw [hd, dbvOf_bumpDbv]
    have hmx : ∀ x y : Nat, Nat.max x y = max x y := fun _ _ => rfl
    split
    · rename_i h'; rw [h', hmx]; omega
    · exact Nat.le_refl _

theorem dbvOf_applyBuffered_ge (m : Node) (a0 v0 a : Nat) : dbvOf m a ≤ dbvOf (m.applyBuffered a0 v0) a := by
  cases hp : (m.booked a0).partial? v0 with
  | none => rw [applyBuffered_skip m a0 v0 (fun p hp' => by rw [hp] at hp'; cases hp')]; exact Nat.le_refl _
  | some p =>
    cases hpc : p.complete with
    | false =>
      rw [applyBuffered_skip m a0 v0 (fun p' hp' => by rw [hp] at hp'; cases hp'; exact hpc)]
      exact Nat.le_refl _
    | true =>
      rw [applyBuffered_complete m a0 v0 p hp hpc, dbvOf_congr (clearMeta_dbv _ _ _ _), dbvOf_applyCore]
      have hmx : ∀ x y : Nat, Nat.max x y = max x y := fun _ _ => rfl
      split
      · rename_i h'; rw [h', hmx]; omega
      · exact Nat.le_refl _

theorem dbvOf_applyAll_ge (m : Node) (T : List (Nat × Nat)) (a : Nat) : dbvOf m a ≤ dbvOf (applyAll m T) a := by
  induction T generalizing m with
  | nil => exact Nat.le_refl _
  | cons t T ih =>
    show _ ≤ dbvOf (applyAll (m.applyBuffered t.1 t.2) T) a
    exact Nat.le_trans (dbvOf_applyBuffered_ge m t.1 t.2 a) (ih _)

theorem dbvOf_restart_ge (n : Node) (a : Nat) : dbvOf n a ≤ dbvOf n.restart a := by
  rw [restart_eq']
  exact dbvOf_applyAll_ge (reloaded n) _ a

theorem dbvOf_bump_ge (n : Node) (a0 v0 a : Nat) (c : Prop) [Decidable c] :
    dbvOf n a ≤ dbvOf (if c then n.bumpDbv a0 v0 else n) a := by
  split
  · rw [dbvOf_bumpDbv]
    have hmx : ∀ x y : Nat, Nat.max x y = max x y := fun _ _ => rfl
    split
    · rename_i h'; rw [h', hmx]; omega
    · exact Nat.le_refl _
  · exact Nat.le_refl _

theorem dbvOf_deliver_ge (n : Node) (it : Item) (a : Nat) : dbvOf n a ≤ dbvOf (n.deliver [it]) a := by
  cases it with
  | empty a0 vlo vhi =>
    cases hc : (n.booked a0).containsAll vlo vhi none with
    | true => rw [deliver_empty_skip n a0 vlo vhi hc]; exact Nat.le_refl _
    | false =>
      rw [deliver_empty n a0 vlo vhi hc, dbvOf_clearedNode]
      exact dbvOf_bump_ge n a0 vhi a _
  | full a0 v0 lo hi last cs =>
    cases hc : (n.booked a0).containsAll v0 v0 (some (lo, hi)) with
    | true => rw [deliver_full_skip n a0 v0 lo hi last cs hc]; exact Nat.le_refl _
    | false =>
      by_cases hcomp : lo = 0 ∧ hi = last
      · obtain ⟨rfl, rfl⟩ := hcomp
        by_cases hne : cs = []
        · subst hne
          rw [deliver_full_cleared n a0 v0 hi hc, dbvOf_clearedNode]
          exact dbvOf_bump_ge n a0 v0 a _
        · rw [deliver_full_complete n a0 v0 hi cs hc hne, dbvOf_clearedNode]
          exact dbvOf_mergeChanges_ge n cs a
      · by_cases hlt : hi < lo
        · rw [deliver_full_backward n a0 v0 lo hi last cs hc hlt]; exact Nat.le_refl _
        · rw [deliver_full_buffer n a0 v0 lo hi last cs hc (by omega) hcomp]
          split
          · refine Nat.le_trans ?_ (dbvOf_applyBuffered_ge _ a0 v0 a)
            rw [dbvOf_bufNode]; exact Nat.le_refl _
          · rw [dbvOf_bufNode]; exact Nat.le_refl _

/-- a sequence of deliveries keeps what is known with no partial, and the db-version rows grow -/
theorem fold_keeps {L : Log} (hL : LogOK L) (items : List Item) (s : Node × List Chg)
    (hN : NInv L s.1 s.2) (hI : KInv L s.1 s.2) (hck : ∀ it ∈ items, ChunkOK L it) {a v : Nat}
    (h : OwnHeld s.1 a v) : OwnHeld (items.foldl deliverOne s).1 a v := by
  induction items generalizing s with
  | nil => exact h
  | cons it items ih =>
    have h1 := hck it List.mem_cons_self
    exact ih (deliverOne s it) (ninv_deliver hN hL (chunkOK_changes hL h1)) (kinv_deliver hN hI hL h1)
      (fun x hx => hck x (List.mem_cons_of_mem _ hx)) (deliver_keeps hI it h)

theorem fold_dbv_ge (items : List Item) (s : Node × List Chg) (a : Nat) :
    dbvOf s.1 a ≤ dbvOf (items.foldl deliverOne s).1 a := by
  induction items generalizing s with
  | nil => exact Nat.le_refl _
  | cons it items ih =>
    rw [List.foldl_cons]
    exact Nat.le_trans (dbvOf_deliver_ge s.1 it a) (ih (deliverOne s it))

/-- **restart keeps the own versions**: a version known with no partial, within the db-version row
of its actor, is known with no partial after the restart -/
theorem restart_keeps {P : Nat → Nat → Prop} {L : Log} {n : Node} {R : List Chg} (hI : CInv P L n R)
    (hL : LogOK L) {a v : Nat} (h : OwnHeld n a v) (hv : v ≤ dbvOf n a) : OwnHeld n.restart a v := by
  have hnr : ¬ HasRows n a v := by
    rintro ⟨r, hr, h1, h2⟩
    obtain ⟨p, hp⟩ := hI.rows_part r hr
    rw [h1, h2, h.2] at hp
    cases hp
  have hp0 : ((reloaded n).booked a).partial? v = none := by
    cases hp : ((reloaded n).booked a).partial? v with
    | none => rfl
    | some p =>
      exact absurd ((reloaded_partial_isSome hI a v).mp (by rw [hp]; rfl)) hnr
  have hh : Held (reloaded n) a v := by
    refine ⟨(containsVersion_iff _ _).mpr ⟨?_, ?_⟩, fun p hp => by rw [hp0] at hp; cases hp⟩
    · rw [reloaded_needed]; exact ((containsVersion_iff _ _).mp h.1).1
    · have := (reloaded_max hI a).1
      omega
  refine ⟨((cinv_restart hI hL).2.2 a v hh).1, ?_⟩
  rw [restart_eq', partial?_applyAll]
  exact hp0

/-! ### every node knows its own versions -/

/-- nodes sit at their ids, the log only mentions nodes of the cluster, every node knows every
version it has produced with no partial, and its own db-version row is at its own head -/
structure OwnInvC (k : Nat) (c : Cluster) : Prop where
  len : c.nodes.length = k
  ids : ∀ (i : Nat) (n : Node), c.nodes[i]? = some n → n.id = i
  sites : ∀ e ∈ c.log, e.1.1 < k
  own : ∀ (i : Nat) (n : Node), c.nodes[i]? = some n → ∀ v, 1 ≤ v → v ≤ c.log.head i → OwnHeld n i v
  own_dbv : ∀ (i : Nat) (n : Node), c.nodes[i]? = some n → c.log.head i ≤ dbvOf n i

/-- replacing node `i` by a node with the same id that keeps what it knew with no partial and whose
db-version rows did not shrink keeps `OwnInvC` -/
theorem ownInvC_setNode {k : Nat} {c : Cluster} (h : OwnInvC k c) {i : Nat} {n : Node}
    (hi : c.nodes[i]? = some n) {s : Node × List Chg} (hid : s.1.id = n.id)
    (hmono : ∀ v, 1 ≤ v → v ≤ c.log.head i → OwnHeld n i v → OwnHeld s.1 i v)
    (hdbv : dbvOf n i ≤ dbvOf s.1 i) : OwnInvC k (c.setNode i s) := by
  refine ⟨by simp [Cluster.setNode, h.len], ?_, h.sites, ?_, ?_⟩
  · intro j m hj
    by_cases hij : i = j
    · subst hij
      rw [setNode_nodes_self hi] at hj
      cases hj
      rw [hid]; exact h.ids i n hi
    · rw [setNode_nodes_other hij] at hj
      exact h.ids j m hj
  · intro j m hj v h1 h2
    by_cases hij : i = j
    · subst hij
      rw [setNode_nodes_self hi] at hj
      cases hj
      exact hmono v h1 h2 (h.own i n hi v h1 h2)
    · rw [setNode_nodes_other hij] at hj
      exact h.own j m hj v h1 h2
  · intro j m hj
    by_cases hij : i = j
    · subst hij
      rw [setNode_nodes_self hi] at hj
      cases hj
      exact Nat.le_trans (h.own_dbv i n hi) hdbv
    · rw [setNode_nodes_other hij] at hj
      exact h.own_dbv j m hj

theorem ownInvC_init (k : Nat) : OwnInvC k (Cluster.init k) := by
  have h0 := ownInv_init k
  refine ⟨h0.len, h0.ids, h0.sites, ?_, ?_⟩
  · intro i n _ v h1 h2
    have : Log.head (Cluster.init k).log i = 0 := rfl
    omega
  · intro i n _
    have : Log.head (Cluster.init k).log i = 0 := rfl
    omega

theorem reachC_own {k : Nat} {c : Cluster} (h : ReachC k c) (hL : LogOK c.log) : OwnInvC k c := by
  induction h with
  | init => exact ownInvC_init k
  | @step c op hr hok hclean ih =>
    have hL0 := logOK_of_step hL
    have ih := ih hL0
    have hfull := reachC_inv hr hL0
    cases op with
    | write i stmts =>
      rw [step_write] at hL ⊢
      cases hi : c.nodes[i]? with
      | none => simp only [hi] at hL ⊢; exact ih
      | some n =>
        simp only [hi] at hL ⊢
        split at hL
        · rename_i n' ver chs hw
          simp only at hL
          have hn := hfull.node i n hi
          obtain ⟨_, hheld, hpart, hid, _, hdb, hdbver⟩ := cinv_write hn.1 hn.2 hw hL
          have hni := ih.ids i n hi
          have hlt : i < c.nodes.length := (List.getElem?_eq_some_iff.mp hi).1
          have hver : ver = c.log.head n.id + 1 := hL.2.1
          refine ⟨by simp [ih.len], ?_, ?_, ?_, ?_⟩
          · intro j m hj
            by_cases hij : i = j
            · subst hij
              simp only [List.getElem?_set_self hlt, Option.some.injEq] at hj
              rw [← hj, hid]; exact hni
            · simp only [List.getElem?_set_ne hij] at hj
              exact ih.ids j m hj
          · intro e he
            rcases List.mem_cons.mp he with rfl | he
            · simp only; rw [hni, ← ih.len]; exact hlt
            · exact ih.sites e he
          · intro j m hj v h1 h2
            rw [head_cons] at h2
            simp only at h2
            by_cases hij : i = j
            · subst hij
              simp only [List.getElem?_set_self hlt, Option.some.injEq] at hj
              rw [← hj]
              rw [if_pos hni] at h2
              rw [hni] at hver
              by_cases hv : v = ver
              · refine ⟨((hheld i v).mpr (Or.inl ⟨hni.symm, by omega, by omega⟩)).1, ?_⟩
                rw [hpart]
                cases hp : (n.booked i).partial? v with
                | none => rfl
                | some p =>
                  have := ((containsVersion_iff _ _).mp (hn.2.part_known i v p hp)).2
                  have := hn.2.head_le i
                  omega
              · have ho := ih.own i n hi v h1 (by omega)
                exact ⟨((hheld i v).mpr (Or.inr ho.held)).1, by rw [hpart]; exact ho.2⟩
            · simp only [List.getElem?_set_ne hij] at hj
              rw [if_neg (by rw [hni]; exact hij)] at h2
              exact ih.own j m hj v h1 h2
          · intro j m hj
            rw [head_cons]
            simp only
            by_cases hij : i = j
            · subst hij
              simp only [List.getElem?_set_self hlt, Option.some.injEq] at hj
              rw [← hj, if_pos hni]
              rw [hni] at hver hdbver
              omega
            · simp only [List.getElem?_set_ne hij] at hj
              rw [if_neg (by rw [hni]; exact hij)]
              exact ih.own_dbv j m hj
        · exact ih
    | deliverOrigin i site ver lo hi =>
      rw [step_deliverOrigin] at hL ⊢
      cases hi' : c.nodes[i]? with
      | none => simp only [hi'] at hL ⊢; exact ih
      | some n =>
        simp only [hi'] at hL ⊢
        split
        · have hn := hfull.node i n hi'
          exact ownInvC_setNode ih hi' (deliver_id n _)
            (fun v _ _ hh => deliver_keeps hn.2 _ hh) (dbvOf_deliver_ge n _ i)
        · exact ih
    | sync i j keep =>
      rw [step_sync] at hL ⊢
      cases hi : c.nodes[i]? with
      | none => simp only [hi] at hL ⊢; exact ih
      | some ni =>
        cases hj : c.nodes[j]? with
        | none => simp only [hi, hj] at hL ⊢; exact ih
        | some nj =>
          simp only [hi, hj] at hL ⊢
          split
          · exact ih
          · have hni := hfull.node i ni hi
            have hnj := hfull.node j nj hj
            have hck : ∀ it ∈ pick (answers ni nj) keep, ChunkOK c.log it :=
              fun it hit => chunkOK_answers hnj.1 hnj.2 hL0 (serverClean_sync hclean hj) (mem_pick hit)
            exact ownInvC_setNode ih hi (fold_id _ _)
              (fun v _ _ hh => fold_keeps hL0 _ (ni, c.R i) hni.1 hni.2 hck hh)
              (fold_dbv_ge _ (ni, c.R i) i)
    | kill i =>
      rw [step_kill] at hL ⊢
      cases hi : c.nodes[i]? with
      | none => simp only [hi] at hL ⊢; exact ih
      | some n =>
        simp only [hi] at hL ⊢
        exact ownInvC_setNode ih hi (s := (n.kill, c.R i)) rfl (fun _ _ _ hh => hh) (Nat.le_refl _)
    | restart i =>
      rw [step_restart] at hL ⊢
      cases hi : c.nodes[i]? with
      | none => simp only [hi] at hL ⊢; exact ih
      | some n =>
        simp only [hi] at hL ⊢
        have hn := hfull.node i n hi
        exact ownInvC_setNode ih hi (s := (n.restart, restartMerged n ++ c.R i)) (restart_id n)
          (fun v _ h2 hh => restart_keeps hn.2 hL0 hh (Nat.le_trans h2 (ih.own_dbv i n hi)))
          (dbvOf_restart_ge n i)

/-! ### one lossless session -/

/-- **`sync_round_progress`, with crashes.**  In a cluster reachable by any steps (kills and
restarts included), a session of an ALIVE client `i` with a clean server `j` (dead or
alive) in which every answer is delivered leaves `i` holding every version of every actor other than
`i` that `j` holds — and everything `i` held. -/
theorem sync_step_progress_crash {k : Nat} {c : Cluster} (h : ReachC k c) (hL : LogOK c.log)
    {i j : Nat} (hij : i ≠ j) {ni nj : Node} (hi : c.nodes[i]? = some ni)
    (hj : c.nodes[j]? = some nj) (hcl : nodeClean nj = true) (hal : ni.alive = true) {keep : List Nat}
    (hkeep : pick (answers ni nj) keep = answers ni nj) :
    ∃ ni', (step c (.sync i j keep)).nodes[i]? = some ni' ∧ ni'.alive = true ∧
      (∀ a v, a ≠ i → 1 ≤ v → Held nj a v → Held ni' a v) ∧ (∀ a v, Held ni a v → Held ni' a v) := by
  have hfull := reachC_inv h hL
  have hown := reachC_own h hL
  have hni := hfull.node i ni hi
  have hnj := hfull.node j nj hj
  have hA : AInv c.log ni (c.R i) := ⟨hni.1, kinv_alive hni.2 hal, hal⟩
  have hck : ∀ it ∈ answers ni nj, ChunkOK c.log it :=
    fun it hit => chunkOK_answers hnj.1 hnj.2 hL hcl hit
  rw [step_sync]
  simp only [hi, hj, if_neg hij, hkeep]
  refine ⟨_, setNode_nodes_self hi _, ?_, ?_, ?_⟩
  · rw [fold_alive]; exact hal
  · intro a v ha hv hh
    exact session_progress hL hA hnj.1 hnj.2 hcl
      (by rw [hown.ids i ni hi]; exact ha) hv hh
  · intro a v hh
    exact fold_held_mono hL _ (ni, c.R i) hA hck hh

/-! ### a schedule of lossless sessions -/

/-- every node is alive (every killed node has been restarted) -/
def AllAlive (c : Cluster) : Prop := ∀ (i : Nat) (n : Node), c.nodes[i]? = some n → n.alive = true

instance (c : Cluster) : Decidable (AllAlive c) :=
  decidable_of_iff (c.nodes.all (fun n => n.alive) = true) (by
    unfold AllAlive
    rw [List.all_eq_true]
    constructor
    · intro h i n hi; exact h n (List.mem_of_getElem? hi)
    · intro h n hn
      obtain ⟨i, hi⟩ := List.getElem?_of_mem hn
      exact h i n hi)

/-- node `i` is alive -/
def AliveAt (c : Cluster) (i : Nat) : Prop := ∀ (n : Node), c.nodes[i]? = some n → n.alive = true

/-- a sync step changes no `alive` flag -/
theorem sync_alive (c : Cluster) (i j : Nat) (keep : List Nat) (m : Nat) :
    (∀ n, c.nodes[m]? = some n → ∃ n', (step c (.sync i j keep)).nodes[m]? = some n' ∧ n'.alive = n.alive) ∧
    (∀ n', (step c (.sync i j keep)).nodes[m]? = some n' → ∃ n, c.nodes[m]? = some n ∧ n'.alive = n.alive) := by
  by_cases him : i = m
  · subst him
    have key : (step c (.sync i j keep)).nodes[i]? = c.nodes[i]? ∨
        ∃ ni ni', c.nodes[i]? = some ni ∧ (step c (.sync i j keep)).nodes[i]? = some ni' ∧
          ni'.alive = ni.alive := by
      rw [step_sync]
      cases hi : c.nodes[i]? with
      | none => left; simp only; exact hi
      | some ni =>
        cases hj : c.nodes[j]? with
        | none => left; simp only; exact hi
        | some nj =>
          simp only
          split
          · left; exact hi
          · right
            exact ⟨ni, _, rfl, setNode_nodes_self hi _, fold_alive _ _⟩
    rcases key with h | ⟨ni, ni', h1, h2, h3⟩
    · rw [h]
      exact ⟨fun n hn => ⟨n, hn, rfl⟩, fun n' hn' => ⟨n', hn', rfl⟩⟩
    · rw [h1, h2]
      constructor
      · intro n hn; cases hn; exact ⟨ni', rfl, h3⟩
      · intro n' hn'; cases hn'; exact ⟨ni, rfl, h3⟩
  · rw [sync_nodes_other c i j keep him]
    exact ⟨fun n hn => ⟨n, hn, rfl⟩, fun n' hn' => ⟨n', hn', rfl⟩⟩

theorem aliveAt_sync (c : Cluster) (i j : Nat) (keep : List Nat) (m : Nat) :
    AliveAt (step c (.sync i j keep)) m ↔ AliveAt c m := by
  obtain ⟨h1, h2⟩ := sync_alive c i j keep m
  constructor
  · intro h n hn
    obtain ⟨n', hn', he⟩ := h1 n hn
    rw [← he]; exact h n' hn'
  · intro h n' hn'
    obtain ⟨n, hn, he⟩ := h2 n' hn'
    rw [he]; exact h n hn

theorem reachC_sync {k : Nat} {c : Cluster} (h : ReachC k c) (hcl : c.clean = true) (i j : Nat)
    (keep : List Nat) : ReachC k (step c (.sync i j keep)) :=
  ReachC.step (.sync i j keep) h trivial (serverClean_of_clean hcl _)

/-- a sync session never loses `HoldsAll` of an alive node -/
theorem holdsAll_sync_crash {k : Nat} {c : Cluster} (h : ReachC k c) (hL : LogOK c.log)
    (hcl : c.clean = true) (i j : Nat) (keep : List Nat) {m a : Nat} (hal : AliveAt c m)
    (hm : HoldsAll c m a) : HoldsAll (step c (.sync i j keep)) m a := by
  intro n hn v h1 h2
  rw [sync_log] at h2
  by_cases him : i = m
  · subst him
    rw [step_sync] at hn
    cases hi : c.nodes[i]? with
    | none => simp only [hi] at hn; cases hn
    | some ni =>
      cases hj : c.nodes[j]? with
      | none => simp only [hi, hj] at hn; cases hn; exact hm _ hi v h1 h2
      | some nj =>
        simp only [hi, hj] at hn
        split at hn
        · rw [hi] at hn; cases hn; exact hm _ hi v h1 h2
        · rw [setNode_nodes_self hi] at hn
          cases hn
          have hfull := reachC_inv h hL
          have hni := hfull.node i ni hi
          have hnj := hfull.node j nj hj
          have hA : AInv c.log ni (c.R i) := ⟨hni.1, kinv_alive hni.2 (hal ni hi), hal ni hi⟩
          exact fold_held_mono hL _ (ni, c.R i) hA
            (fun it hit => chunkOK_answers hnj.1 hnj.2 hL (clean_node hcl hj) (mem_pick hit))
            (hm ni hi v h1 h2)
  · rw [sync_nodes_other c i j keep him] at hn
    exact hm n hn v h1 h2

/-- **`eventual_convergence`, the bookkeeping half, with crashes.**  Start from a cluster reachable by
any steps — kills and restarts included — and run ANY schedule `ops` of lossless sync sessions from
clean states.  If for every ALIVE node `i` and every other node `a` the schedule contains a session
`i ← a`, then at the end every node that was alive holds every version of every actor (killed nodes
serve, but are not claimed to catch up). -/
theorem holds_after_schedule_crash {k : Nat} {c : Cluster} (h : ReachC k c) (hL : LogOK c.log)
    (ops : List Op) (hrun : LosslessRun c ops)
    (hcov : ∀ i a, i < k → a < k → AliveAt c i →
      HoldsAll c i a ∨ (i ≠ a ∧ ∃ keep, Op.sync i a keep ∈ ops)) :
    ReachC k (run c ops) ∧ (run c ops).log = c.log ∧ (∀ i, AliveAt (run c ops) i ↔ AliveAt c i) ∧
      ∀ i a, i < k → a < k → AliveAt c i → HoldsAll (run c ops) i a := by
  induction ops generalizing c with
  | nil =>
    refine ⟨h, rfl, fun _ => Iff.rfl, ?_⟩
    intro i a hi ha hal
    rcases hcov i a hi ha hal with h1 | ⟨_, _, h2⟩
    · exact h1
    · cases h2
  | cons op ops ih =>
    obtain ⟨⟨i0, j0, keep0, rfl, hless⟩, hcl, hrest⟩ := hrun
    have hr' := reachC_sync h hcl i0 j0 keep0
    have hlog := sync_log c i0 j0 keep0
    have hL' : LogOK (step c (.sync i0 j0 keep0)).log := by rw [hlog]; exact hL
    have hA := aliveAt_sync c i0 j0 keep0
    have := ih hr' hL' hrest ?_
    · exact ⟨this.1, this.2.1.trans hlog, fun i => (this.2.2.1 i).trans (hA i),
        fun i a hi ha hal => this.2.2.2 i a hi ha ((hA i).mpr hal)⟩
    · intro i a hi ha hal'
      have hal := (hA i).mp hal'
      rcases hcov i a hi ha hal with h1 | ⟨hne, keep, hmem⟩
      · exact Or.inl (holdsAll_sync_crash h hL hcl i0 j0 keep0 hal h1)
      · rcases List.mem_cons.mp hmem with heq | hmem
        · simp only [Op.sync.injEq] at heq
          obtain ⟨rfl, rfl, rfl⟩ := heq
          left
          have hown := reachC_own h hL
          have hlen := hown.len
          obtain ⟨ni, hni⟩ : ∃ ni, c.nodes[i]? = some ni :=
            ⟨c.nodes[i]'(by omega), List.getElem?_eq_getElem (by omega)⟩
          obtain ⟨na, hna⟩ : ∃ na, c.nodes[a]? = some na :=
            ⟨c.nodes[a]'(by omega), List.getElem?_eq_getElem (by omega)⟩
          obtain ⟨ni', h1, _, h2, _⟩ :=
            sync_step_progress_crash h hL hne hni hna (clean_node hcl hna) (hal ni hni) (hless ni na hni hna)
          intro n hn v hv1 hv2
          rw [h1] at hn
          cases hn
          rw [hlog] at hv2
          exact h2 a v (fun h => hne h.symm) hv1 (hown.own a na hna v hv1 hv2).held
        · exact Or.inr ⟨hne, keep, hmem⟩

/-- for concrete runs: the node at a valid position, as an equation -/
theorem nodes_getD (c : Cluster) (i : Nat) (h : i < c.nodes.length) :
    c.nodes[i]? = some ((c.nodes[i]?).getD (Node.fresh i)) := by
  rw [List.getElem?_eq_getElem h]; rfl

end Corro.ClusterSys.Crash
