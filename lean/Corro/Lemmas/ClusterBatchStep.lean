/-
C01, protocol level, BATCHES — the cluster invariants of the batched cluster model
(`Model/ClusterSysBatch.lean`): reachability (`ReachB`, `ReachLiveB`), and the invariants of
reachable clusters (`reachB_ninv`, `reachLiveB_inv`) — the analogues of `reach_ninv` and
`reachLive_inv` with whole batches handed to `process_multiple_changes`.
-/
import Corro.Lemmas.ClusterBatchDeliver

namespace Corro.ClusterSys
open Corro.Crdt Corro.Node

/-! ### reachability -/

/-- side condition of a step (the local write path agrees with merging its own change list) -/
def OpOKB (c : Cluster) : OpB → Prop
  | .write i stmts => OpOK c (.write i stmts)
  | _ => True

instance (c : Cluster) (op : OpB) : Decidable (OpOKB c op) := by
  cases op with
  | write i stmts => exact inferInstanceAs (Decidable (OpOK c (.write i stmts)))
  | deliverOrigins => exact isTrue trivial
  | syncB => exact isTrue trivial
  | kill => exact isTrue trivial
  | restart => exact isTrue trivial

/-- clusters reachable from `k` fresh nodes by any steps of the batched model -/
inductive ReachB (k : Nat) : Cluster → Prop
  | init : ReachB k (Cluster.init k)
  | step {c : Cluster} (op : OpB) : ReachB k c → OpOKB c op → ReachB k (stepB c op)

def OpB.noCrash : OpB → Bool
  | .kill _ => false
  | .restart _ => false
  | _ => true

/-- clusters reachable without `kill` / `restart`, through clean states -/
inductive ReachLiveB (k : Nat) : Cluster → Prop
  | init : ReachLiveB k (Cluster.init k)
  | step {c : Cluster} (op : OpB) : ReachLiveB k c → op.noCrash = true → OpOKB c op → c.clean = true →
      ReachLiveB k (stepB c op)

theorem ReachLiveB.reach {k : Nat} {c : Cluster} (h : ReachLiveB k c) : ReachB k c := by
  induction h with
  | init => exact ReachB.init
  | step op _ _ hok _ ih => exact ReachB.step op ih hok

/-! ### the steps -/

theorem stepB_write (c : Cluster) (i : Nat) (stmts : List Stmt) :
    stepB c (.write i stmts) = step c (.write i stmts) := rfl

theorem stepB_kill (c : Cluster) (i : Nat) : stepB c (.kill i) = step c (.kill i) := rfl

theorem stepB_restart (c : Cluster) (i : Nat) : stepB c (.restart i) = step c (.restart i) := rfl

theorem stepB_deliverOrigins (c : Cluster) (i : Nat) (chunks : List (Nat × Nat × Nat × Nat)) :
    stepB c (.deliverOrigins i chunks) =
      match c.nodes[i]? with
      | none => c
      | some n => c.setNode i (deliverB (n, c.R i) (originBatch c.log chunks)) := rfl

theorem stepB_syncB (c : Cluster) (i j : Nat) (batches : List (List Pick)) :
    stepB c (.syncB i j batches) =
      match c.nodes[i]?, c.nodes[j]? with
      | some ni, some nj =>
        if i = j then c
        else c.setNode i ((batches.map (pickBatch c.log (answers ni nj))).foldl deliverB (ni, c.R i))
      | _, _ => c := rfl

theorem stepB_log (c : Cluster) (op : OpB) :
    (stepB c op).log = c.log ∨ ∃ e, (stepB c op).log = e :: c.log := by
  cases op with
  | write i stmts => exact step_log c (.write i stmts)
  | deliverOrigins i chunks =>
    rw [stepB_deliverOrigins]
    split <;> exact Or.inl rfl
  | syncB i j batches =>
    rw [stepB_syncB]
    split
    · split <;> exact Or.inl rfl
    · exact Or.inl rfl
  | kill i => exact step_log c (.kill i)
  | restart i => exact step_log c (.restart i)

theorem logOK_of_stepB {c : Cluster} {op : OpB} (h : LogOK (stepB c op).log) : LogOK c.log := by
  rcases stepB_log c op with h1 | ⟨e, h1⟩
  · rw [h1] at h; exact h
  · rw [h1] at h; exact h.tail

/-! ### what a batch consists of -/

theorem originValid_has {L : Log} {site ver lo hi : Nat} (h : originValid L site ver lo hi = true) :
    L.has site ver = true := by
  unfold originValid at h
  simp only [Bool.and_eq_true] at h
  exact h.1.1

theorem mem_originBatch {L : Log} {chunks : List (Nat × Nat × Nat × Nat)} {it : Item}
    (h : it ∈ originBatch L chunks) :
    ∃ site ver lo hi, L.has site ver = true ∧ it = originItem L site ver lo hi := by
  unfold originBatch at h
  obtain ⟨q, _, hq⟩ := List.mem_filterMap.mp h
  split at hq
  · rename_i hv
    simp only [Option.some.injEq] at hq
    exact ⟨_, _, _, _, originValid_has hv, hq.symm⟩
  · cases hq

theorem mem_pickBatch {L : Log} {ans : List Item} {ps : List Pick} {it : Item} (h : it ∈ pickBatch L ans ps) :
    it ∈ ans ∨ ∃ site ver lo hi, L.has site ver = true ∧ it = originItem L site ver lo hi := by
  unfold pickBatch at h
  obtain ⟨p, _, hp⟩ := List.mem_filterMap.mp h
  cases p with
  | ans k => exact Or.inl (List.mem_of_getElem? hp)
  | orig site ver lo hi =>
    simp only at hp
    split at hp
    · rename_i hv
      simp only [Option.some.injEq] at hp
      exact Or.inr ⟨_, _, _, _, originValid_has hv, hp.symm⟩
    · cases hp

/-! ### the invariants of reachable clusters -/

/-- **`received_set` / `store_from_log`, batched cluster**: in every reachable cluster of the batched
model whose log is well formed, every node's store is a merge of exactly its ghost list `R i`, every
live entry is literally a change of `R i`, and `R i` and the buffered rows consist of changes of the
log -/
theorem reachB_ninv {k : Nat} {c : Cluster} (h : ReachB k c) (hL : LogOK c.log) :
    AllNodes (NInv c.log) c := by
  induction h with
  | init => exact allNodes_init _ k ninv_fresh
  | @step c op _ hok ih =>
    have hL0 := logOK_of_stepB hL
    have ih := ih hL0
    cases op with
    | write i stmts =>
      rw [stepB_write, step_write] at hL ⊢
      cases hi : c.nodes[i]? with
      | none => simp only [hi] at hL ⊢; exact ih
      | some n =>
        simp only [hi] at hL ⊢
        split at hL
        · rename_i n' ver chs hw
          simp only at hL
          have ih' : AllNodes (NInv (((n.id, ver), chs) :: c.log))
              ({ c with log := ((n.id, ver), chs) :: c.log } : Cluster) :=
            allNodes_mono ih rfl rfl (fun _ _ h => h.cons_log _)
          exact allNodes_setNode (c := { c with log := ((n.id, ver), chs) :: c.log }) ih' hi
            (s := (n', chs ++ c.R i)) (ninv_write (ih.node i n hi) hw (opOK_write hok hi) hL)
        · exact ih
    | deliverOrigins i chunks =>
      rw [stepB_deliverOrigins] at hL ⊢
      cases hi' : c.nodes[i]? with
      | none => simp only [hi'] at hL ⊢; exact ih
      | some n =>
        simp only [hi'] at hL ⊢
        refine allNodes_setNode ih hi' (ninv_deliverB (ih.node i n hi') hL0 ?_)
        intro it hit
        obtain ⟨site, ver, lo, hi, _, rfl⟩ := mem_originBatch hit
        exact originItem_changes hL0 _ _ _ _
    | syncB i j batches =>
      rw [stepB_syncB] at hL ⊢
      cases hi : c.nodes[i]? with
      | none => simp only [hi] at hL ⊢; exact ih
      | some ni =>
        cases hj : c.nodes[j]? with
        | none => simp only [hi, hj] at hL ⊢; exact ih
        | some nj =>
          simp only [hi, hj] at hL ⊢
          split
          · exact ih
          · refine allNodes_setNode ih hi (deliverB_fold_ninv hL0 _ (ni, c.R i) (ih.node i ni hi) ?_)
            intro b hb it hit
            obtain ⟨ps, _, rfl⟩ := List.mem_map.mp hb
            rcases mem_pickBatch hit with h | ⟨site, ver, lo, hi, _, rfl⟩
            · exact answers_changes (ih.node j nj hj) it h
            · exact originItem_changes hL0 _ _ _ _
    | kill i =>
      rw [stepB_kill, step_kill] at hL ⊢
      cases hi : c.nodes[i]? with
      | none => simp only [hi] at hL ⊢; exact ih
      | some n =>
        simp only [hi] at hL ⊢
        exact allNodes_setNode ih hi (s := (n.kill, c.R i)) (ninv_kill (ih.node i n hi))
    | restart i =>
      rw [stepB_restart, step_restart] at hL ⊢
      cases hi : c.nodes[i]? with
      | none => simp only [hi] at hL ⊢; exact ih
      | some n =>
        simp only [hi] at hL ⊢
        exact allNodes_setNode ih hi (s := (n.restart, restartMerged n ++ c.R i))
          (ninv_restart (ih.node i n hi) hL0)

/-- **`held_inv`, batched cluster**: in every cluster reachable in the batched model without kill /
restart through clean states, with a well-formed log, every node satisfies the full invariant -/
theorem reachLiveB_inv {k : Nat} {c : Cluster} (h : ReachLiveB k c) (hL : LogOK c.log) :
    AllNodes (FullInv c.log) c := by
  induction h with
  | init => exact allNodes_init _ k (fun i => ⟨ninv_fresh i, linv_fresh i⟩)
  | @step c op _ hlive hok hclean ih =>
    have hL0 := logOK_of_stepB hL
    have ih := ih hL0
    cases op with
    | write i stmts =>
      rw [stepB_write, step_write] at hL ⊢
      cases hi : c.nodes[i]? with
      | none => simp only [hi] at hL ⊢; exact ih
      | some n =>
        simp only [hi] at hL ⊢
        split at hL
        · rename_i n' ver chs hw
          simp only at hL
          have ih' : AllNodes (FullInv (((n.id, ver), chs) :: c.log))
              ({ c with log := ((n.id, ver), chs) :: c.log } : Cluster) :=
            allNodes_mono ih rfl rfl (fun _ _ h => ⟨h.1.cons_log _, h.2.cons_log hL⟩)
          have hn := ih.node i n hi
          exact allNodes_setNode (c := { c with log := ((n.id, ver), chs) :: c.log }) ih' hi
            (s := (n', chs ++ c.R i))
            ⟨ninv_write hn.1 hw (opOK_write hok hi) hL, (linv_write hn.1 hn.2 hw hL).1⟩
        · exact ih
    | deliverOrigins i chunks =>
      rw [stepB_deliverOrigins] at hL ⊢
      cases hi' : c.nodes[i]? with
      | none => simp only [hi'] at hL ⊢; exact ih
      | some n =>
        simp only [hi'] at hL ⊢
        have hn := ih.node i n hi'
        have hck : ∀ it ∈ originBatch c.log chunks, ChunkOK c.log it := by
          intro it hit
          obtain ⟨site, ver, lo, hi, hhas, rfl⟩ := mem_originBatch hit
          exact chunkOK_origin hL0 hhas
        exact allNodes_setNode ih hi'
          ⟨ninv_deliverB hn.1 hL0 (fun it hit => chunkOK_changes hL0 (hck it hit)),
            linv_deliverB hn.1 hn.2 hL0 hck⟩
    | syncB i j batches =>
      rw [stepB_syncB] at hL ⊢
      cases hi : c.nodes[i]? with
      | none => simp only [hi] at hL ⊢; exact ih
      | some ni =>
        cases hj : c.nodes[j]? with
        | none => simp only [hi, hj] at hL ⊢; exact ih
        | some nj =>
          simp only [hi, hj] at hL ⊢
          split
          · exact ih
          · have hni := ih.node i ni hi
            have hnj := ih.node j nj hj
            refine allNodes_setNode ih hi (deliverB_fold_inv hL0 _ (ni, c.R i) hni.1 hni.2 ?_)
            intro b hb it hit
            obtain ⟨ps, _, rfl⟩ := List.mem_map.mp hb
            rcases mem_pickBatch hit with h | ⟨site, ver, lo, hi, hhas, rfl⟩
            · exact chunkOK_answers hnj.1 hnj.2 hL0 (clean_node hclean hj) h
            · exact chunkOK_origin hL0 hhas
    | kill i => cases hlive
    | restart i => cases hlive

/-! ### checking a concrete run -/

/-- every step of the run is a no-crash step satisfying its side condition from a clean state -/
def runOKB : Cluster → List OpB → Prop
  | _, [] => True
  | c, op :: ops => op.noCrash = true ∧ OpOKB c op ∧ c.clean = true ∧ runOKB (stepB c op) ops

instance : (c : Cluster) → (ops : List OpB) → Decidable (runOKB c ops)
  | _, [] => isTrue trivial
  | c, op :: ops =>
    have := instDecidableRunOKB (stepB c op) ops
    by unfold runOKB; exact inferInstance

theorem reachLiveB_run {k : Nat} {c : Cluster} (h : ReachLiveB k c) (ops : List OpB) (hok : runOKB c ops) :
    ReachLiveB k (runB c ops) := by
  induction ops generalizing c with
  | nil => exact h
  | cons op ops ih =>
    obtain ⟨h1, h2, h3, h4⟩ := hok
    exact ih (ReachLiveB.step op h h1 h2 h3) h4

end Corro.ClusterSys
