/-
Helper lemmas for C04 about the model `Corro.Needs` (part 1: `compute_available_needs`).
Point-set meaning of every intermediate set of the function, membership characterisations of the
three sources of needs.
-/
import Corro.Model.Needs
import Corro.Lemmas.Ranges

namespace Corro.Needs
open Corro.RSet

/-! ### association lists -/

theorem aget_mem {κ β : Type} [DecidableEq κ] {k : κ} {v : β} {m : List (κ × β)}
    (h : aget k m = some v) : (k, v) ∈ m := by
  induction m with
  | nil => simp [aget] at h
  | cons p t ih =>
    obtain ⟨k', v'⟩ := p
    unfold aget at h
    split at h
    · rename_i hk; subst hk; simp at h; subst h; simp
    · exact List.mem_cons_of_mem _ (ih h)

theorem aget_eq_none {κ β : Type} [DecidableEq κ] {k : κ} {m : List (κ × β)} :
    aget k m = none ↔ ∀ p ∈ m, p.1 ≠ k := by
  induction m with
  | nil => simp [aget]
  | cons p t ih =>
    obtain ⟨k', v'⟩ := p
    unfold aget
    split
    · rename_i hk; subst hk; simp
    · rename_i hk; simp [ih, hk]

/-- keys strictly increasing: the canonical list form of a map -/
def KeysSorted {β : Type} (m : List (Nat × β)) : Prop := (m.map (·.1)).Pairwise (· < ·)

instance {β : Type} (m : List (Nat × β)) : Decidable (KeysSorted m) := by
  unfold KeysSorted; infer_instance

theorem aget_of_mem {β : Type} {k : Nat} {v : β} {m : List (Nat × β)} (hs : KeysSorted m)
    (h : (k, v) ∈ m) : aget k m = some v := by
  induction m with
  | nil => cases h
  | cons p t ih =>
    obtain ⟨k', v'⟩ := p
    simp only [KeysSorted, List.map_cons, List.pairwise_cons] at hs
    unfold aget
    rcases List.mem_cons.mp h with h1 | h1
    · cases h1; simp
    · have : k' < k := hs.1 k (List.mem_map.mpr ⟨(k, v), h1, rfl⟩)
      have hne : ¬ k' = k := by omega
      simp only [hne, if_false]
      exact ih hs.2 h1

theorem aget_aset_same {κ β : Type} [DecidableEq κ] (k : κ) (v : β) (m : List (κ × β)) :
    aget k (aset k v m) = some v := by
  induction m with
  | nil => simp [aset, aget]
  | cons p t ih =>
    obtain ⟨k', v'⟩ := p
    unfold aset
    split
    · simp [aget]
    · rename_i hk; simp [aget, hk, ih]

theorem aget_aset_other {κ β : Type} [DecidableEq κ] (k k2 : κ) (v : β) (m : List (κ × β))
    (hne : k2 ≠ k) : aget k2 (aset k v m) = aget k2 m := by
  induction m with
  | nil =>
    have : ¬ k = k2 := fun h => hne h.symm
    simp [aset, aget, this]
  | cons p t ih =>
    obtain ⟨k', v'⟩ := p
    unfold aset
    split
    · rename_i hk
      subst hk
      have : ¬ k' = k2 := fun h => hne h.symm
      simp [aget, this]
    · simp only [aget, ih]

/-! ### interval sets -/

theorem wfFrom_forward {lb : Nat} {s : RSet} (h : WFfrom lb s) : ∀ p ∈ s, p.1 ≤ p.2 := by
  induction s generalizing lb with
  | nil => intro p hp; cases hp
  | cons q t ih =>
    obtain ⟨a, b⟩ := q
    simp only [WFfrom] at h
    intro p hp
    rcases List.mem_cons.mp hp with h1 | h1
    · subst h1; exact h.2.1
    · exact ih h.2.2 p h1

theorem wf_forward {s : RSet} (h : WF s) : ∀ p ∈ s, p.1 ≤ p.2 := wfFrom_forward h

theorem wf_singleton {lo hi : Nat} (h : lo ≤ hi) : WF [(lo, hi)] := by
  simp [WF, WFfrom, h]

theorem wf_nil : WF [] := by simp [WF, WFfrom]

/-- the pieces `max(r.start, p.start)..=min(r.end, p.end)` over the stored intervals `p` that
overlap `r` cover exactly `r ∩ s`. -/
theorem mem_clip_overlapping (s : RSet) (r : Nat × Nat) (x : Nat) :
    (∃ p ∈ overlapping s r, (clip r p).1 ≤ x ∧ x ≤ (clip r p).2) ↔
      (r.1 ≤ x ∧ x ≤ r.2) ∧ Mem s x := by
  constructor
  · rintro ⟨p, hp, h1, h2⟩
    rw [mem_overlapping] at hp
    simp only [clip] at h1 h2
    exact ⟨⟨by omega, by omega⟩, p, hp.1, by omega, by omega⟩
  · rintro ⟨⟨h1, h2⟩, p, hp, h3, h4⟩
    refine ⟨p, (mem_overlapping s r p).mpr ⟨hp, by omega, by omega⟩, ?_, ?_⟩ <;> simp only [clip] <;> omega

/-- every clipped piece is a forward range inside both `r` and the stored interval. -/
theorem clip_overlapping_bounds (s : RSet) (hs : ∀ p ∈ s, p.1 ≤ p.2) (r : Nat × Nat) (hr : r.1 ≤ r.2)
    (p : Nat × Nat) (hp : p ∈ overlapping s r) :
    p ∈ s ∧ (clip r p).1 ≤ (clip r p).2 ∧ r.1 ≤ (clip r p).1 ∧ p.1 ≤ (clip r p).1 ∧
      (clip r p).2 ≤ r.2 ∧ (clip r p).2 ≤ p.2 := by
  rw [mem_overlapping] at hp
  have := hs p hp.1
  simp only [clip]
  refine ⟨hp.1, ?_, ?_, ?_, ?_, ?_⟩ <;> omega

/-- `other_haves`, as a point set. -/
theorem otherHaves_wf (head : Nat) (hh : 1 ≤ head) (need : List (Nat × Nat))
    (parts : List (Nat × List (Nat × Nat))) (hn : ∀ r ∈ need, r.1 ≤ r.2) :
    WF (otherHaves head need parts) := by
  unfold otherHaves
  apply removeAll_wf
  · exact removeAll_wf _ _ (wf_singleton hh) hn
  · intro r hr
    obtain ⟨p, _, rfl⟩ := List.mem_map.mp hr
    exact Nat.le_refl _

theorem mem_otherHaves (head : Nat) (hh : 1 ≤ head) (need : List (Nat × Nat))
    (parts : List (Nat × List (Nat × Nat))) (hn : ∀ r ∈ need, r.1 ≤ r.2) (x : Nat) :
    Mem (otherHaves head need parts) x ↔
      (1 ≤ x ∧ x ≤ head) ∧ ¬ Mem need x ∧ ∀ p ∈ parts, p.1 ≠ x := by
  unfold otherHaves
  rw [mem_removeAll _ _ (removeAll_wf _ _ (wf_singleton hh) hn)
        (by intro r hr; obtain ⟨p, _, rfl⟩ := List.mem_map.mp hr; exact Nat.le_refl _),
      mem_removeAll _ _ (wf_singleton hh) hn, mem_singleton]
  constructor
  · rintro ⟨⟨h1, h2⟩, h3⟩
    refine ⟨h1, fun ⟨r, hr, hx⟩ => h2 ⟨r, hr, hx⟩, ?_⟩
    intro p hp heq
    exact h3 ⟨(p.1, p.1), List.mem_map.mpr ⟨p, hp, rfl⟩, by simp [heq]⟩
  · rintro ⟨h1, h2, h3⟩
    refine ⟨⟨h1, fun ⟨r, hr, hx⟩ => h2 ⟨r, hr, hx⟩⟩, ?_⟩
    rintro ⟨r, hr, hx⟩
    obtain ⟨p, hp, rfl⟩ := List.mem_map.mp hr
    simp only at hx
    exact h3 p hp (by omega)

/-! ### `max` of range ends -/

theorem maxEnd?_ge {rs : List (Nat × Nat)} {r : Nat × Nat} (h : r ∈ rs) :
    ∃ m, maxEnd? rs = some m ∧ r.2 ≤ m := by
  induction rs with
  | nil => cases h
  | cons q t ih =>
    unfold maxEnd?
    rcases List.mem_cons.mp h with h1 | h1
    · subst h1
      cases maxEnd? t with
      | none => exact ⟨_, rfl, Nat.le_refl _⟩
      | some m => exact ⟨_, rfl, Nat.le_max_left _ _⟩
    · obtain ⟨m, hm, hle⟩ := ih h1
      rw [hm]
      exact ⟨_, rfl, by have := Nat.le_max_right q.2 m; omega⟩

theorem optMax_right_ge {a : Option Nat} {m : Nat} : ∃ e, optMax a (some m) = some e ∧ m ≤ e := by
  cases a with
  | none => exact ⟨m, rfl, Nat.le_refl _⟩
  | some x => exact ⟨max x m, rfl, Nat.le_max_right _ _⟩

/-- both sides partial: exactly the seqs we miss and the peer does not. -/
theorem mem_partialSeqs (ours others : List (Nat × Nat)) (ho : ∀ r ∈ others, r.1 ≤ r.2) (s : Nat) :
    Mem (partialSeqs ours others) s ↔ Mem ours s ∧ ¬ Mem others s := by
  unfold partialSeqs
  split
  · rename_i hnone
    constructor
    · intro h; exact absurd h (mem_nil s)
    · rintro ⟨⟨r, hr, _, _⟩, _⟩
      obtain ⟨m, hm, _⟩ := maxEnd?_ge hr
      rw [hm] at hnone
      obtain ⟨e, he, _⟩ := @optMax_right_ge (maxEnd? others) m
      rw [he] at hnone; cases hnone
  · rename_i e he
    have hwf : WF [(0, e)] := wf_singleton (Nat.zero_le _)
    have hmem : ∀ y, Mem (removeAll [(0, e)] others) y ↔ y ≤ e ∧ ¬ Mem others y := by
      intro y
      rw [mem_removeAll _ _ hwf ho, mem_singleton]
      simp only [Nat.zero_le, true_and]
      constructor
      · rintro ⟨h1, h2⟩; exact ⟨h1, fun ⟨r, hr, hx⟩ => h2 ⟨r, hr, hx⟩⟩
      · rintro ⟨h1, h2⟩; exact ⟨h1, fun ⟨r, hr, hx⟩ => h2 ⟨r, hr, hx⟩⟩
    constructor
    · rintro ⟨q, hq, hx⟩
      obtain ⟨r, hr, hq2⟩ := List.mem_flatMap.mp hq
      obtain ⟨p, hp, rfl⟩ := List.mem_map.mp hq2
      have := (mem_clip_overlapping _ r s).mp ⟨p, hp, hx⟩
      exact ⟨⟨r, hr, this.1⟩, ((hmem s).mp this.2).2⟩
    · rintro ⟨⟨r, hr, hx⟩, hno⟩
      obtain ⟨m, hm, hle⟩ := maxEnd?_ge hr
      rw [hm] at he
      obtain ⟨e', he', hle'⟩ := @optMax_right_ge (maxEnd? others) m
      rw [he'] at he
      have hee : e' = e := Option.some.inj he
      have hs : Mem (removeAll [(0, e)] others) s := (hmem s).mpr ⟨by omega, hno⟩
      obtain ⟨p, hp, hx2⟩ := (mem_clip_overlapping _ r s).mpr ⟨hx, hs⟩
      exact ⟨clip r p, List.mem_flatMap.mpr ⟨r, hr, List.mem_map.mpr ⟨p, hp, rfl⟩⟩, hx2⟩

theorem partialSeqs_forward (ours others : List (Nat × Nat)) (hu : ∀ r ∈ ours, r.1 ≤ r.2)
    (ho : ∀ r ∈ others, r.1 ≤ r.2) : ∀ q ∈ partialSeqs ours others, q.1 ≤ q.2 := by
  unfold partialSeqs
  split
  · intro q hq; cases hq
  · rename_i e he
    intro q hq
    obtain ⟨r, hr, hq2⟩ := List.mem_flatMap.mp hq
    obtain ⟨p, hp, rfl⟩ := List.mem_map.mp hq2
    have hwf : WF (removeAll [(0, e)] others) := removeAll_wf _ _ (wf_singleton (Nat.zero_le _)) ho
    exact (clip_overlapping_bounds _ (wf_forward hwf) r (hu r hr) p hp).2.1

/-! ### membership in the three sources and in the result -/

theorem mem_fullFromNeed {haves : RSet} {ourNeed : List (Nat × Nat)} {n : Need} :
    n ∈ fullFromNeed haves ourNeed ↔
      ∃ r ∈ ourNeed, ∃ p ∈ overlapping haves r, n = Need.full (clip r p).1 (clip r p).2 := by
  unfold fullFromNeed
  rw [List.mem_flatMap]
  constructor
  · rintro ⟨r, hr, hn⟩
    obtain ⟨p, hp, rfl⟩ := List.mem_map.mp hn
    exact ⟨r, hr, p, hp, rfl⟩
  · rintro ⟨r, hr, p, hp, rfl⟩
    exact ⟨r, hr, List.mem_map.mpr ⟨p, hp, rfl⟩⟩

theorem mem_partialNeeds {haves : RSet} {ours others : List (Nat × List (Nat × Nat))} {n : Need} :
    n ∈ partialNeeds haves ours others ↔
      ∃ p ∈ ours,
        (Mem haves p.1 ∧ n = Need.part p.1 p.2) ∨
        (¬ Mem haves p.1 ∧ ∃ os, aget p.1 others = some os ∧ partialSeqs p.2 os ≠ [] ∧
          n = Need.part p.1 (partialSeqs p.2 os)) := by
  unfold partialNeeds
  rw [List.mem_filterMap]
  constructor
  · rintro ⟨p, hp, h⟩
    refine ⟨p, hp, ?_⟩
    by_cases hc : contains haves p.1 = true
    · simp only [hc, if_true, Option.some.injEq] at h
      exact Or.inl ⟨(contains_iff _ _).mp hc, h.symm⟩
    · simp only [hc] at h
      right
      refine ⟨fun hm => hc ((contains_iff _ _).mpr hm), ?_⟩
      cases hget : aget p.1 others with
      | none => simp [hget] at h
      | some os =>
        simp only [hget] at h
        by_cases he : (partialSeqs p.2 os).isEmpty = true
        · simp [he] at h
        · simp only [he] at h
          simp only [Bool.false_eq_true, if_false, Option.some.injEq] at h
          exact ⟨os, rfl, by simpa [List.isEmpty_iff] using he, h.symm⟩
  · rintro ⟨p, hp, h⟩
    refine ⟨p, hp, ?_⟩
    rcases h with ⟨hm, rfl⟩ | ⟨hm, os, hget, hne, rfl⟩
    · simp [(contains_iff _ _).mpr hm]
    · have hc : ¬ contains haves p.1 = true := fun hc => hm ((contains_iff _ _).mp hc)
      have he : ¬ (partialSeqs p.2 os).isEmpty = true := by simpa [List.isEmpty_iff] using hne
      simp [hc, hget, he]

theorem mem_missing {ourHead : Option Nat} {head : Nat} {n : Need} :
    n ∈ missing ourHead head ↔
      (ourHead = none ∧ n = Need.full 1 head) ∨
      (∃ oh, ourHead = some oh ∧ oh < head ∧ n = Need.full (oh + 1) head) := by
  unfold missing
  cases ourHead with
  | none => simp
  | some oh =>
    by_cases h : head > oh
    · simp [h]
    · simp [h]

theorem mem_needsFor {us peer : SyncState} {a : Actor} {head : Nat} {n : Need} :
    n ∈ needsFor us peer a head ↔
      n ∈ fullFromNeed (otherHaves head (needOf peer a) (partialsOf peer a)) (needOf us a) ∨
      n ∈ partialNeeds (otherHaves head (needOf peer a) (partialsOf peer a)) (partialsOf us a)
            (partialsOf peer a) ∨
      n ∈ missing (aget a us.heads) head := by
  unfold needsFor
  simp only [List.mem_append, or_assoc]

theorem mem_computeAvailableNeeds {us peer : SyncState} {a : Actor} {ns : List Need} :
    (a, ns) ∈ computeAvailableNeeds us peer ↔
      ∃ head, (a, head) ∈ peer.heads ∧ a ≠ us.actor ∧ head ≠ 0 ∧
        ns = needsFor us peer a head ∧ ns ≠ [] := by
  unfold computeAvailableNeeds
  rw [List.mem_filterMap]
  constructor
  · rintro ⟨⟨a', head⟩, hmem, h⟩
    simp only at h
    by_cases h1 : a' = us.actor
    · simp [h1] at h
    · by_cases h2 : head = 0
      · simp [h1, h2] at h
      · by_cases h3 : (needsFor us peer a' head).isEmpty = true
        · simp [h1, h2, h3] at h
        · simp only [h1, h2, h3, if_false, Bool.false_eq_true, Option.some.injEq, Prod.mk.injEq] at h
          obtain ⟨rfl, rfl⟩ := h
          exact ⟨head, hmem, h1, h2, rfl, by simpa [List.isEmpty_iff] using h3⟩
  · rintro ⟨head, hmem, h1, h2, rfl, h3⟩
    refine ⟨(a, head), hmem, ?_⟩
    have h3' : ¬ (needsFor us peer a head).isEmpty = true := by simpa [List.isEmpty_iff] using h3
    simp [h1, h2, h3']

/-! ### unpacking `needOf` / `partialsOf`, building members of the result -/

instance (s : RSet) (x : Nat) : Decidable (Mem s x) := by unfold Mem; infer_instance

theorem needOf_mem {s : SyncState} {a : Actor} {r : Nat × Nat} (h : r ∈ needOf s a) :
    ∃ rs, (a, rs) ∈ s.need ∧ r ∈ rs := by
  unfold needOf at h
  cases hg : aget a s.need with
  | none => rw [hg] at h; cases h
  | some rs => rw [hg] at h; exact ⟨rs, aget_mem hg, h⟩

theorem partialsOf_mem {s : SyncState} {a : Actor} {p : Nat × List (Nat × Nat)}
    (h : p ∈ partialsOf s a) : ∃ pm, (a, pm) ∈ s.partialNeed ∧ p ∈ pm := by
  unfold partialsOf at h
  cases hg : aget a s.partialNeed with
  | none => rw [hg] at h; cases h
  | some pm => rw [hg] at h; exact ⟨pm, aget_mem hg, h⟩

theorem mem_compute_of_mem_needsFor {us peer : SyncState} {a : Actor} {head : Nat} {n : Need}
    (hm : (a, head) ∈ peer.heads) (ha : a ≠ us.actor) (hh : head ≠ 0)
    (hn : n ∈ needsFor us peer a head) :
    (a, needsFor us peer a head) ∈ computeAvailableNeeds us peer :=
  mem_computeAvailableNeeds.mpr ⟨head, hm, ha, hh, rfl, fun he => by rw [he] at hn; cases hn⟩

end Corro.Needs
