/-
Helper lemmas for the wire codec model (`Corro/Model/Codec.lean`): the decoder monad, little-endian
integers, round trips of the primitives and combinators, and the reservation accounting (`Good`,
`Tight`).  Core Lean only.
-/
import Corro.Model.Codec
import Corro.Lemmas.Pack

namespace Corro.Codec
open Corro.Pack (Bytes Val validUtf8 pat64 ofPat64)

/-! ### the monad -/

theorem bind_def (d : Dec α) (f : α → Dec β) (bs : Bytes) :
    (d >>= f) bs = match (d bs).val with
      | .error e => ⟨(d bs).alloc, (d bs).rest, .error e⟩
      | .ok a => ⟨(d bs).alloc + (f a (d bs).rest).alloc, (f a (d bs).rest).rest,
          (f a (d bs).rest).val⟩ := rfl

theorem pure_def (a : α) (bs : Bytes) : (pure a : Dec α) bs = ⟨0, bs, .ok a⟩ := rfl

@[simp] theorem run_pure (a : α) (bs : Bytes) : Dec.run (pure a) bs = (.ok a, bs) := rfl

@[simp] theorem run_fail (e : Err) (bs : Bytes) : Dec.run (fail e : Dec α) bs = (.error e, bs) := rfl

@[simp] theorem run_bind (d : Dec α) (f : α → Dec β) (bs : Bytes) :
    Dec.run (d >>= f) bs = match Dec.run d bs with
      | (.error e, r) => (.error e, r)
      | (.ok a, r) => Dec.run (f a) r := by
  simp only [Dec.run, bind_def]
  cases (d bs).val <;> rfl

/-- `do let x ← d; pure (g x)` -/
theorem run_map (d : Dec α) (g : α → β) (bs : Bytes) (a : α) (r : Bytes)
    (h : Dec.run d bs = (.ok a, r)) : Dec.run (d >>= fun x => pure (g x)) bs = (.ok (g a), r) := by
  simp [h]

/-! ### little-endian integers -/

theorem leBytes_length (k n : Nat) : (leBytes k n).length = k := by
  induction k generalizing n with
  | zero => rfl
  | succ k ih => simp [leBytes, ih]

theorem leNat_leBytes (k n : Nat) : leNat (leBytes k n) = n % 256 ^ k := by
  induction k generalizing n with
  | zero => simp [leBytes, leNat, Nat.mod_one]
  | succ k ih =>
    simp only [leBytes, leNat, ih, UInt8.toNat_ofNat']
    have h1 : n % 256 ^ (k + 1) = n % 256 + 256 * (n / 256 % 256 ^ k) := by
      rw [Nat.pow_succ, Nat.mul_comm (256 ^ k) 256, Nat.mod_mul]
    omega

theorem leNat_leBytes_of_lt (k n : Nat) (h : n < 256 ^ k) : leNat (leBytes k n) = n := by
  rw [leNat_leBytes, Nat.mod_eq_of_lt h]

/-! ### round trips of the primitives -/

theorem run_take (n : Nat) (x rest : Bytes) (h : x.length = n) :
    Dec.run (take n) (x ++ rest) = (.ok x, rest) := by
  have : ¬ (n + rest.length < n) := by omega
  simp [Dec.run, take, h, List.take_left', List.drop_left', this]

theorem run_uN (k n : Nat) (rest : Bytes) (h : n < 256 ^ k) :
    Dec.run (uN k) (leBytes k n ++ rest) = (.ok n, rest) := by
  simp [uN, run_take k _ rest (leBytes_length k n), leNat_leBytes_of_lt k n h]

theorem run_u8 (n : Nat) (rest : Bytes) (h : n < 256) :
    Dec.run u8 (encU8 n ++ rest) = (.ok n, rest) := run_uN 1 n rest h

theorem run_u16 (n : Nat) (rest : Bytes) (h : n < 65536) :
    Dec.run u16 (encU16 n ++ rest) = (.ok n, rest) := run_uN 2 n rest h

theorem run_u32 (n : Nat) (rest : Bytes) (h : n < 4294967296) :
    Dec.run u32 (encU32 n ++ rest) = (.ok n, rest) := run_uN 4 n rest h

theorem run_u64 (n : Nat) (rest : Bytes) (h : n < 18446744073709551616) :
    Dec.run u64 (encU64 n ++ rest) = (.ok n, rest) := run_uN 8 n rest h

theorem run_i64 (v : Int) (rest : Bytes) (h1 : -9223372036854775808 ≤ v)
    (h2 : v < 9223372036854775808) : Dec.run i64 (encI64 v ++ rest) = (.ok v, rest) := by
  have := run_u64 (pat64 v) rest (Corro.Pack.pat64_lt v)
  simp only [i64, run_bind, encI64, encU64] at this ⊢
  rw [this]
  simp [Corro.Pack.ofPat64_pat64 v h1 h2]

/-- a tag byte written as a literal -/
theorem run_u8_cons (n : Nat) (rest : Bytes) (h : n < 256) :
    Dec.run u8 (UInt8.ofNat n :: rest) = (.ok n, rest) := by
  have := run_u8 n rest h
  simpa [encU8, leBytes, Nat.mod_eq_of_lt h] using this

theorem run_reserve (e : Err) (k minsz : Nat) (bs : Bytes) (h : k * minsz ≤ bs.length) :
    Dec.run (reserve e k minsz) bs = (.ok (), bs) := by
  simp [Dec.run, reserve, h]

theorem run_takeOwned (x rest : Bytes) :
    Dec.run (takeOwned x.length) (x ++ rest) = (.ok x, rest) := by
  simp [takeOwned, run_reserve .eof x.length 1 (x ++ rest) (by simp), run_take x.length x rest rfl]

theorem run_bytes (b rest : Bytes) (h : b.length < 4294967296) :
    Dec.run bytes (encStr b ++ rest) = (.ok b, rest) := by
  simp [bytes, encStr, List.append_assoc, run_u32 _ _ h, run_takeOwned]

theorem run_str (b rest : Bytes) (h : b.length < 4294967296) (hu : validUtf8 b = true) :
    Dec.run str (encStr b ++ rest) = (.ok b, rest) := by
  simp [str, encStr, List.append_assoc, run_u32 _ _ h, run_takeOwned, hu]

theorem run_opt_none (d : Dec α) (e : α → Bytes) (rest : Bytes) :
    Dec.run (opt d) (encOpt e none ++ rest) = (.ok none, rest) := by
  have := run_u8_cons 0 rest (by omega)
  simp only [opt, encOpt, run_bind, List.cons_append, List.nil_append]
  have h0 : (UInt8.ofNat 0) = (0 : UInt8) := rfl
  rw [h0] at this
  rw [this]
  simp

theorem run_opt_some (d : Dec α) (e : α → Bytes) (a : α) (rest : Bytes)
    (h : Dec.run d (e a ++ rest) = (.ok a, rest)) :
    Dec.run (opt d) (encOpt e (some a) ++ rest) = (.ok (some a), rest) := by
  have := run_u8_cons 1 (e a ++ rest) (by omega)
  simp only [opt, encOpt, run_bind, List.cons_append]
  have h0 : (UInt8.ofNat 1) = (1 : UInt8) := rfl
  rw [h0] at this
  rw [this]
  simp [h]

theorem run_opt (d : Dec α) (e : α → Bytes) (o : Option α) (rest : Bytes)
    (h : ∀ a, o = some a → Dec.run d (e a ++ rest) = (.ok a, rest)) :
    Dec.run (opt d) (encOpt e o ++ rest) = (.ok o, rest) := by
  cases o with
  | none => exact run_opt_none d e rest
  | some a => exact run_opt_some d e a rest (h a rfl)

theorem run_many (d : Dec α) (e : α → Bytes) (as : List α) (rest : Bytes)
    (h : ∀ a ∈ as, ∀ r, Dec.run d (e a ++ r) = (.ok a, r)) :
    Dec.run (many d as.length) (encMany e as ++ rest) = (.ok as, rest) := by
  induction as with
  | nil => rfl
  | cons a as ih =>
    simp only [List.length_cons, many, encMany, List.append_assoc, run_bind]
    rw [h a (by simp)]
    simp only []
    rw [ih (fun b hb => h b (by simp [hb]))]
    simp

theorem length_encMany_ge (e : α → Bytes) (as : List α) (m : Nat)
    (h : ∀ a ∈ as, m ≤ (e a).length) : as.length * m ≤ (encMany e as).length := by
  induction as with
  | nil => simp [encMany]
  | cons a as ih =>
    have h1 := h a (by simp)
    have h2 := ih (fun b hb => h b (by simp [hb]))
    simp only [List.length_cons, encMany, List.length_append, Nat.add_mul, Nat.one_mul]
    omega

/-- guarded vector: `reserve` passes on the encoding of a list whose items are at least `m` long -/
theorem run_vec (err : Err) (d : Dec α) (e : α → Bytes) (as : List α) (m : Nat) (rest : Bytes)
    (hm : ∀ a ∈ as, m ≤ (e a).length)
    (h : ∀ a ∈ as, ∀ r, Dec.run d (e a ++ r) = (.ok a, r)) :
    Dec.run (vec err m d as.length) (encMany e as ++ rest) = (.ok as, rest) := by
  have hl := length_encMany_ge e as m hm
  rw [vec, run_bind, run_reserve err _ _ _ (by simp only [List.length_append]; omega)]
  exact run_many d e as rest h

/-! ### reservation accounting

`Good D m d`: on success the decoder has consumed at least `m` bytes more than it has booked; on
failure it has booked at most `D` times the input it was given.  `Tight d`: booked + remaining never
exceeds the input, on both paths (what `default_on_eof` needs, because it turns a failure into a
success). -/

def Good (D m : Nat) (d : Dec α) : Prop := ∀ bs,
  match (d bs).val with
  | .ok _ => (d bs).alloc + m + (d bs).rest.length ≤ bs.length
  | .error _ => (d bs).alloc ≤ D * bs.length

def Tight (d : Dec α) : Prop := ∀ bs, (d bs).alloc + (d bs).rest.length ≤ bs.length

theorem good_pure (D : Nat) (a : α) : Good D 0 (pure a : Dec α) := by
  intro bs; simp [pure_def]

theorem good_fail (D m : Nat) (e : Err) : Good D m (fail e : Dec α) := by
  intro bs; simp [fail]

theorem good_take (D n : Nat) : Good D n (take n) := by
  intro bs
  by_cases h : bs.length < n
  · simp [take, h]
  · simp only [take, h, if_false, List.length_drop]; omega

theorem good_weaken {D D' m m' : Nat} {d : Dec α} (hm : m' ≤ m) (hD : D ≤ D') (h : Good D m d) :
    Good D' m' d := by
  intro bs
  have := h bs
  cases hv : (d bs).val with
  | ok a => simp only [hv] at this ⊢; omega
  | error e => simp only [hv] at this ⊢; exact Nat.le_trans this (Nat.mul_le_mul_right _ hD)

theorem good_bind {D m1 m2 : Nat} {d : Dec α} {f : α → Dec β} (hD : 1 ≤ D)
    (h1 : Good D m1 d) (h2 : ∀ a, Good D m2 (f a)) : Good D (m1 + m2) (d >>= f) := by
  intro bs
  rw [bind_def]
  have a1 := h1 bs
  cases hv : (d bs).val with
  | error e => simp only [hv] at a1 ⊢; exact a1
  | ok a =>
    simp only [hv] at a1 ⊢
    have a2 := h2 a (d bs).rest
    cases hw : (f a (d bs).rest).val with
    | error e =>
      simp only [hw] at a2 ⊢
      have : D * (d bs).rest.length + (d bs).alloc ≤ D * bs.length := by
        have : (d bs).alloc + (d bs).rest.length ≤ bs.length := by omega
        calc D * (d bs).rest.length + (d bs).alloc
            ≤ D * (d bs).rest.length + D * (d bs).alloc := by
              have := Nat.le_mul_of_pos_left (d bs).alloc hD; omega
          _ = D * ((d bs).alloc + (d bs).rest.length) := by rw [Nat.mul_add]; omega
          _ ≤ D * bs.length := Nat.mul_le_mul_left _ this
      omega
    | ok b => simp only [hw] at a2 ⊢; omega

theorem good_map {D m : Nat} {d : Dec α} (g : α → β) (hD : 1 ≤ D) (h : Good D m d) :
    Good D m (d >>= fun x => pure (g x)) := by
  have := good_bind hD h (fun a => good_pure D (g a))
  simpa using this

theorem good_uN (D k : Nat) (hD : 1 ≤ D) : Good D k (uN k) := good_map _ hD (good_take D k)

theorem good_u8 (D : Nat) (hD : 1 ≤ D) : Good D 1 u8 := good_uN D 1 hD
theorem good_u16 (D : Nat) (hD : 1 ≤ D) : Good D 2 u16 := good_uN D 2 hD
theorem good_u32 (D : Nat) (hD : 1 ≤ D) : Good D 4 u32 := good_uN D 4 hD
theorem good_u64 (D : Nat) (hD : 1 ≤ D) : Good D 8 u64 := good_uN D 8 hD
theorem good_i64 (D : Nat) (hD : 1 ≤ D) : Good D 8 i64 := good_map _ hD (good_u64 D hD)

theorem good_many {D m : Nat} {d : Dec α} (hD : 1 ≤ D) (h : Good D m d) (n : Nat) :
    Good D (n * m) (many d n) := by
  induction n with
  | zero => simpa [many] using good_pure D ([] : List α)
  | succ n ih =>
    have := good_bind hD h (fun a => good_map (fun as => a :: as) hD ih)
    simp only [many]
    refine good_weaken (by rw [Nat.add_mul]; omega) (Nat.le_refl _) this

/-- the guarded vector: `k` items are booked only if `k * minsz` bytes remain, and every item
consumes at least `minsz` beyond what it books itself -/
theorem good_vec {D m minsz : Nat} {d : Dec α} (e : Err) (k : Nat) (hD : 1 ≤ D)
    (h : Good D m d) (hm : minsz ≤ m) (h1 : 1 ≤ minsz) :
    Good (D + 1) 0 (vec e minsz d k) := by
  intro bs
  rw [vec, bind_def]
  have hmax : max minsz 1 = minsz := Nat.max_eq_left h1
  by_cases hk : k * minsz ≤ bs.length
  · simp only [reserve, hk, if_true, hmax]
    have a := good_many hD h k bs
    cases hv : (many d k bs).val with
    | error e =>
      simp only [hv] at a ⊢
      rw [Nat.add_mul]; omega
    | ok as =>
      simp only [hv] at a ⊢
      have : k * minsz ≤ k * m := Nat.mul_le_mul_left _ hm
      omega
  · simp [reserve, hk]

theorem tight_good {d : Dec α} (D : Nat) (hD : 1 ≤ D) (h : Tight d) : Good D 0 d := by
  intro bs
  have := h bs
  split
  · omega
  · have : bs.length ≤ D * bs.length := Nat.le_mul_of_pos_left _ hD
    omega

theorem tight_pure (a : α) : Tight (pure a : Dec α) := by intro bs; simp [pure_def]
theorem tight_fail (e : Err) : Tight (fail e : Dec α) := by intro bs; simp [fail]

theorem tight_take (n : Nat) : Tight (take n) := by
  intro bs
  by_cases h : bs.length < n
  · simp [take, h]
  · simp only [take, h, if_false, List.length_drop]; omega

theorem tight_bind {d : Dec α} {f : α → Dec β} (h1 : Tight d) (h2 : ∀ a, Tight (f a)) :
    Tight (d >>= f) := by
  intro bs
  rw [bind_def]
  have a1 := h1 bs
  cases hv : (d bs).val with
  | error e => exact a1
  | ok a =>
    have a2 := h2 a (d bs).rest
    simp only []
    omega

theorem tight_uN (k : Nat) : Tight (uN k) := tight_bind (tight_take k) (fun _ => tight_pure _)

theorem tight_takeOwned (n : Nat) : Tight (takeOwned n) := by
  intro bs
  simp only [takeOwned, bind_def, reserve, take]
  by_cases h : n ≤ bs.length
  · have h' : ¬ bs.length < n := by omega
    simp only [Nat.mul_one, Nat.max_self, h, h', if_true, if_false, List.length_drop]
    omega
  · simp [h]

theorem tight_str : Tight str :=
  tight_bind (tight_uN 4) (fun n => tight_bind (tight_takeOwned n) (fun b => by
    by_cases h : validUtf8 b = true
    · rw [if_pos h]; exact tight_pure b
    · rw [if_neg h]; exact tight_fail _))

theorem tight_opt {d : Dec α} (h : Tight d) : Tight (opt d) :=
  tight_bind (tight_uN 1) (fun f => by
    by_cases hf : f ≠ 0
    · rw [if_pos hf]; exact tight_bind h (fun _ => tight_pure _)
    · rw [if_neg hf]; exact tight_pure _)

theorem defaultOnEof_alloc (d : Dec α) (dflt : α) (bs : Bytes) :
    (defaultOnEof d dflt bs).alloc = (d bs).alloc := by
  cases hv : (d bs).val with
  | ok a => simp only [defaultOnEof, hv]
  | error e => cases e <;> simp only [defaultOnEof, hv]

theorem defaultOnEof_rest (d : Dec α) (dflt : α) (bs : Bytes) :
    (defaultOnEof d dflt bs).rest = (d bs).rest := by
  cases hv : (d bs).val with
  | ok a => simp only [defaultOnEof, hv]
  | error e => cases e <;> simp only [defaultOnEof, hv]

theorem defaultOnEof_val (d : Dec α) (dflt : α) (bs : Bytes) :
    (defaultOnEof d dflt bs).val = match (d bs).val with
      | .error .eof => .ok dflt
      | v => v := by
  cases hv : (d bs).val with
  | ok a => simp only [defaultOnEof, hv]
  | error e => cases e <;> simp only [defaultOnEof, hv]

theorem tight_defaultOnEof {d : Dec α} (dflt : α) (h : Tight d) : Tight (defaultOnEof d dflt) := by
  intro bs
  rw [defaultOnEof_alloc, defaultOnEof_rest]
  exact h bs

/-- `default_on_eof` on a decoder that succeeds -/
theorem run_defaultOnEof_ok (d : Dec α) (dflt a : α) (bs r : Bytes)
    (h : Dec.run d bs = (.ok a, r)) : Dec.run (defaultOnEof d dflt) bs = (.ok a, r) := by
  simp only [Dec.run, Prod.mk.injEq] at h ⊢
  rw [defaultOnEof_val, defaultOnEof_rest, h.1, h.2]
  exact ⟨rfl, rfl⟩

/-- `default_on_eof` on a decoder that hits the end of the input: the default, and the reader
stays where the inner decoder stopped -/
theorem run_defaultOnEof_eof (d : Dec α) (dflt : α) (bs r : Bytes)
    (h : Dec.run d bs = (.error .eof, r)) : Dec.run (defaultOnEof d dflt) bs = (.ok dflt, r) := by
  simp only [Dec.run, Prod.mk.injEq] at h ⊢
  rw [defaultOnEof_val, defaultOnEof_rest, h.1, h.2]
  exact ⟨rfl, rfl⟩

theorem good_opt {D m : Nat} {d : Dec α} (hD : 1 ≤ D) (h : Good D m d) : Good D 1 (opt d) := by
  have := good_bind (m2 := 0) hD (good_u8 D hD) (fun f => (by
    by_cases hf : f ≠ 0
    · rw [if_pos hf]
      exact good_weaken (Nat.zero_le _) (Nat.le_refl _) (good_map some hD h)
    · rw [if_neg hf]; exact good_pure D none : Good D 0 (if f ≠ 0 then (do let a ← d; pure (some a)) else pure none)))
  simpa [opt] using this

theorem good_takeOwned (D n : Nat) (hD : 1 ≤ D) : Good D 0 (takeOwned n) :=
  tight_good D hD (tight_takeOwned n)

theorem good_str (D : Nat) (hD : 1 ≤ D) : Good D 4 str := by
  have := good_bind (m2 := 0) hD (good_u32 D hD) (fun n =>
    good_bind (m1 := 0) (m2 := 0) hD (good_takeOwned D n hD) (fun b => (by
      by_cases h : validUtf8 b = true
      · rw [if_pos h]; exact good_pure D b
      · rw [if_neg h]; exact good_fail D 0 _ :
      Good D 0 (if validUtf8 b = true then pure b else fail .invalid))))
  simpa [str] using this

theorem good_bytes (D : Nat) (hD : 1 ≤ D) : Good D 4 bytes := by
  have := good_bind (m2 := 0) hD (good_u32 D hD) (fun n => good_takeOwned D n hD)
  simpa [bytes] using this

/-! ### round trips of the leaf types -/

theorem run_u8_byte (b : UInt8) (rest : Bytes) : Dec.run u8 (b :: rest) = (.ok b.toNat, rest) := by
  simp [u8, uN, Dec.run, bind_def, take, pure_def, leNat]

theorem run_tag0 (rest : Bytes) : Dec.run tag0 (encU32 0 ++ rest) = (.ok (), rest) := by
  simp [tag0, run_u32 0 rest (by omega)]

theorem run_range (r : Range) (rest : Bytes) (h : WFRange r) :
    Dec.run range (encRange r ++ rest) = (.ok r, rest) := by
  simp [range, encRange, List.append_assoc, run_u64 _ _ h.1, run_u64 _ _ h.2]

theorem run_actor (a rest : Bytes) (h : WFActor a) : Dec.run actor (a ++ rest) = (.ok a, rest) :=
  run_take 16 a rest h

theorem run_optTs (o : Option Nat) (rest : Bytes) (h : WFOptTs o) :
    Dec.run optTs (encOpt encU64 o ++ rest) = (.ok o, rest) := by
  apply run_opt
  intro a ha
  subst ha
  exact run_u64 a rest h

theorem run_sqliteValue (v : Val) (rest : Bytes) (h : WFWireVal v) :
    Dec.run sqliteValue (encSqliteValue v ++ rest) = (.ok v, rest) := by
  cases v with
  | null => simp [sqliteValue, encSqliteValue, run_u8_byte]
  | int i =>
    simp only [WFWireVal, I64] at h
    simp [sqliteValue, encSqliteValue, run_u8_byte, run_i64 i rest h.1 h.2]
  | real b =>
    simp only [WFWireVal, U64] at h
    simp [sqliteValue, encSqliteValue, run_u8_byte, run_u64 b rest h]
  | text s =>
    simp only [WFWireVal, WFText] at h
    simp [sqliteValue, encSqliteValue, run_u8_byte, run_str s rest h.1 h.2]
  | blob b =>
    simp only [WFWireVal, Len32] at h
    simp [sqliteValue, encSqliteValue, run_u8_byte, run_bytes b rest h]

theorem run_change (c : Change) (rest : Bytes) (h : WFChange c) :
    Dec.run change (encChange c ++ rest) = (.ok c, rest) := by
  obtain ⟨h1, h2, h3, h4, h5, h6, h7, h8, h9⟩ := h
  simp only [Len32, U64] at h2 h6 h7
  simp [change, strBorrowed, encChange, List.append_assoc, run_str _ _ h1.1 h1.2, run_bytes _ _ h2,
    run_str _ _ h3.1 h3.2, run_sqliteValue _ _ h4, run_i64 _ _ h5.1 h5.2, run_u64 _ _ h6,
    run_u64 _ _ h7, run_take 16 _ _ h8, run_i64 _ _ h9.1 h9.2]

/-! ### encoded lengths (what the reservation guards compare against) -/

@[simp] theorem length_encU8 (n : Nat) : (encU8 n).length = 1 := leBytes_length 1 n
@[simp] theorem length_encU16 (n : Nat) : (encU16 n).length = 2 := leBytes_length 2 n
@[simp] theorem length_encU32 (n : Nat) : (encU32 n).length = 4 := leBytes_length 4 n
@[simp] theorem length_encU64 (n : Nat) : (encU64 n).length = 8 := leBytes_length 8 n
@[simp] theorem length_encI64 (v : Int) : (encI64 v).length = 8 := leBytes_length 8 _
@[simp] theorem length_encStr (b : Bytes) : (encStr b).length = 4 + b.length := by simp [encStr]
@[simp] theorem length_encRange (r : Range) : (encRange r).length = 16 := by simp [encRange]

theorem length_encOpt_ge (e : α → Bytes) (o : Option α) : 1 ≤ (encOpt e o).length := by
  cases o <;> simp [encOpt]

theorem length_encSqliteValue_ge (v : Val) : 1 ≤ (encSqliteValue v).length := by
  cases v <;> simp [encSqliteValue]

theorem length_encChange_ge (c : Change) : changeMinBytes ≤ (encChange c).length := by
  have := length_encSqliteValue_ge c.val
  simp only [encChange, changeMinBytes, List.length_append, length_encStr, length_encI64,
    length_encU64]
  omega

theorem length_encSyncNeed_ge (n : SyncNeed) : syncNeedMinBytes ≤ (encSyncNeed n).length := by
  cases n with
  | full vs => simp [encSyncNeed, syncNeedMinBytes]
  | part v seqs => simp [encSyncNeed, syncNeedMinBytes]; omega
  | empty ts =>
    have := length_encOpt_ge encU64 ts
    simp only [encSyncNeed, syncNeedMinBytes, List.length_cons]; omega

/-! ### round trips: Changeset, ChangeV1, SyncNeedV1, SyncStateV1 -/

theorem run_rangeVec (rs : List Range) (rest : Bytes) (h : WFRanges rs) :
    Dec.run rangeVec (encU64 rs.length ++ encMany encRange rs ++ rest) = (.ok rs, rest) := by
  rw [List.append_assoc, rangeVec, run_bind, run_u64 _ _ h.1]
  exact run_vec .invalid range encRange rs 16 rest (fun r _ => by simp)
    (fun r hr rest' => run_range r rest' (h.2 r hr))

theorem run_changes (cs : List Change) (rest : Bytes) (h : ∀ c ∈ cs, WFChange c) :
    Dec.run (vec .eof changeMinBytes change cs.length) (encMany encChange cs ++ rest)
      = (.ok cs, rest) :=
  run_vec .eof change encChange cs changeMinBytes rest
    (fun c _ => length_encChange_ge c) (fun c hc r => run_change c r (h c hc))

theorem u8_toNat_lit0 : (0 : UInt8).toNat = 0 := rfl
theorem u8_toNat_lit1 : (1 : UInt8).toNat = 1 := rfl
theorem u8_toNat_lit2 : (2 : UInt8).toNat = 2 := rfl

theorem run_changeset (c : Changeset) (rest : Bytes) (h : WFChangeset c) :
    Dec.run changeset (encChangeset c ++ rest) = (.ok c, rest) := by
  cases c with
  | empty vs ts =>
    simp only [WFChangeset] at h
    simp only [changeset, encChangeset, List.cons_append, List.append_assoc, run_bind, run_u8_byte,
      u8_toNat_lit0, run_range _ _ h.1, run_optTs _ _ h.2, run_pure]
  | full version changes seqs lastSeq ts =>
    simp only [WFChangeset, U64] at h
    obtain ⟨h1, h2, h3, h4, h5, h6⟩ := h
    simp only [changeset, encChangeset, List.cons_append, List.append_assoc, run_bind, run_u8_byte,
      u8_toNat_lit1, run_u64 _ _ h1, run_u32 _ _ h2, run_changes _ _ h3, run_range _ _ h4,
      run_u64 _ _ h5, run_u64 _ _ h6, run_pure]
  | emptySet vs ts =>
    simp only [WFChangeset, U64] at h
    have hv := run_rangeVec vs (encU64 ts ++ rest) h.1
    simp only [List.append_assoc] at hv
    simp only [changeset, encChangeset, List.cons_append, List.append_assoc, run_bind, run_u8_byte,
      u8_toNat_lit2, hv, run_u64 _ _ h.2, run_pure]

theorem run_changeV1 (c : ChangeV1) (rest : Bytes) (h : WFChangeV1 c) :
    Dec.run changeV1 (encChangeV1 c ++ rest) = (.ok c, rest) := by
  simp only [changeV1, encChangeV1, List.append_assoc, run_bind, run_actor _ _ h.1,
    run_changeset _ _ h.2, run_pure]

theorem run_syncNeed (n : SyncNeed) (rest : Bytes) (h : WFSyncNeed n) :
    Dec.run syncNeed (encSyncNeed n ++ rest) = (.ok n, rest) := by
  cases n with
  | full vs =>
    simp only [WFSyncNeed] at h
    simp only [syncNeed, encSyncNeed, List.cons_append, run_bind, run_u8_byte, u8_toNat_lit0,
      run_range _ _ h, run_pure]
  | part version seqs =>
    simp only [WFSyncNeed, U64] at h
    have hv := run_rangeVec seqs rest h.2
    simp only [List.append_assoc] at hv
    simp only [syncNeed, encSyncNeed, List.cons_append, List.append_assoc, run_bind, run_u8_byte,
      u8_toNat_lit1, run_u64 _ _ h.1, hv, run_pure]
  | empty ts =>
    simp only [WFSyncNeed] at h
    simp only [syncNeed, encSyncNeed, List.cons_append, run_bind, run_u8_byte, u8_toNat_lit2,
      run_optTs _ _ h, run_pure]

theorem run_headEntry (e : Bytes × Nat) (rest : Bytes) (h : WFActor e.1 ∧ U64 e.2) :
    Dec.run headEntry (encHeadEntry e ++ rest) = (.ok e, rest) := by
  simp only [headEntry, encHeadEntry, List.append_assoc, run_bind, run_actor _ _ h.1,
    run_u64 _ _ h.2, run_pure]

theorem run_needEntry (e : Bytes × List Range) (rest : Bytes) (h : WFActor e.1 ∧ WFRanges e.2) :
    Dec.run needEntry (encNeedEntry e ++ rest) = (.ok e, rest) := by
  have hv := run_rangeVec e.2 rest h.2
  simp only [List.append_assoc] at hv
  simp only [needEntry, encNeedEntry, encRangeVec, List.append_assoc, run_bind, run_actor _ _ h.1,
    hv, run_pure]

theorem run_versionEntry (e : Nat × List Range) (rest : Bytes) (h : U64 e.1 ∧ WFRanges e.2) :
    Dec.run versionEntry (encVersionEntry e ++ rest) = (.ok e, rest) := by
  have hv := run_rangeVec e.2 rest h.2
  simp only [List.append_assoc] at hv
  simp only [versionEntry, encVersionEntry, encRangeVec, List.append_assoc, run_bind,
    run_u64 _ _ h.1, hv, run_pure]

theorem length_encNeedEntry_ge (e : Bytes × List Range) (h : WFActor e.1) :
    24 ≤ (encNeedEntry e).length := by
  simp only [WFActor] at h
  simp [encNeedEntry, encRangeVec, h]; omega

theorem length_encVersionEntry_ge (e : Nat × List Range) : 16 ≤ (encVersionEntry e).length := by
  simp [encVersionEntry, encRangeVec]; omega

theorem length_encPartialEntry_ge (e : Bytes × List (Nat × List Range)) (h : WFActor e.1) :
    24 ≤ (encPartialEntry e).length := by
  simp only [WFActor] at h
  simp [encPartialEntry, h]; omega

theorem run_partialEntry (e : Bytes × List (Nat × List Range)) (rest : Bytes)
    (h : WFActor e.1 ∧ e.2.length < 18446744073709551616 ∧ ∀ v ∈ e.2, U64 v.1 ∧ WFRanges v.2) :
    Dec.run partialEntry (encPartialEntry e ++ rest) = (.ok e, rest) := by
  have hv := run_vec .invalid versionEntry encVersionEntry e.2 16 rest
    (fun v _ => length_encVersionEntry_ge v) (fun v hv r => run_versionEntry v r (h.2.2 v hv))
  simp only [partialEntry, encPartialEntry, List.append_assoc, run_bind, run_actor _ _ h.1,
    run_u64 _ _ h.2.1, hv, run_pure]

theorem run_syncState (s : SyncState) (rest : Bytes) (h : WFSyncState s) :
    Dec.run syncState (encSyncState s ++ rest) = (.ok s, rest) := by
  obtain ⟨h1, ⟨h2a, h2b⟩, ⟨h3a, h3b⟩, ⟨h4a, h4b⟩, h5⟩ := h
  have e1 := fun r => run_many headEntry encHeadEntry s.heads r
    (fun e he r' => run_headEntry e r' (h2b e he))
  have e2 := fun r => run_vec .invalid needEntry encNeedEntry s.need 24 r
    (fun e he => length_encNeedEntry_ge e (h3b e he).1) (fun e he r' => run_needEntry e r' (h3b e he))
  have e3 := fun r => run_vec .invalid partialEntry encPartialEntry s.partialNeed 24 r
    (fun e he => length_encPartialEntry_ge e (h4b e he).1)
    (fun e he r' => run_partialEntry e r' (h4b e he))
  simp only [syncState, encSyncState, List.append_assoc, run_bind, run_actor _ _ h1,
    run_u32 _ _ h2a, e1, run_u64 _ _ h3a, e2, run_u64 _ _ h4a, e3, run_optTs _ _ h5, run_pure]

/-! ### round trips: the top-level frames -/

theorem run_uniPayload (u : UniPayload) (rest : Bytes) (h : WFUniPayload u) :
    Dec.run uniPayload (encUniPayload u ++ rest) = (.ok u, rest) := by
  have hc := run_defaultOnEof_ok u16 0 u.clusterId (encU16 u.clusterId ++ rest) rest
    (run_u16 _ _ h.2)
  simp only [uniPayload, encUniPayload, encUniData, List.append_assoc, run_bind, run_tag0,
    run_changeV1 _ _ h.1, hc, run_pure]

theorem run_optText (o : Option Bytes) (rest : Bytes) (h : WFOptText o) :
    Dec.run (opt str) (encOpt encStr o ++ rest) = (.ok o, rest) := by
  apply run_opt
  intro a ha
  subst ha
  exact run_str a rest h.1 h.2

theorem run_traceCtx (t : TraceCtx) (rest : Bytes) (h : WFTraceCtx t) :
    Dec.run traceCtx (encTraceCtx t ++ rest) = (.ok t, rest) := by
  simp only [traceCtx, encTraceCtx, List.append_assoc, run_bind, run_optText _ _ h.1,
    run_optText _ _ h.2, run_pure]

theorem run_biPayload (b : BiPayload) (rest : Bytes) (h : WFBiPayload b) :
    Dec.run biPayload (encBiPayload b ++ rest) = (.ok b, rest) := by
  have ht := run_defaultOnEof_ok traceCtx ⟨none, none⟩ b.traceCtx
    (encTraceCtx b.traceCtx ++ (encU16 b.clusterId ++ rest)) _ (run_traceCtx _ _ h.2.1)
  have hc := run_defaultOnEof_ok u16 0 b.clusterId (encU16 b.clusterId ++ rest) rest
    (run_u16 _ _ h.2.2)
  simp only [biPayload, encBiPayload, List.append_assoc, run_bind, run_tag0, run_actor _ _ h.1, ht,
    hc, run_pure]

theorem run_requestEntry (e : Bytes × List SyncNeed) (rest : Bytes)
    (h : WFActor e.1 ∧ e.2.length < 4294967296 ∧ ∀ n ∈ e.2, WFSyncNeed n) :
    Dec.run (requestEntry syncNeedMinBytes) (encRequestEntry e ++ rest) = (.ok e, rest) := by
  have hv := run_vec .eof syncNeed encSyncNeed e.2 syncNeedMinBytes rest
    (fun n _ => length_encSyncNeed_ge n) (fun n hn r => run_syncNeed n r (h.2.2 n hn))
  simp only [requestEntry, encRequestEntry, List.append_assoc, run_bind, run_actor _ _ h.1,
    run_u32 _ _ h.2.1, hv, run_pure]

theorem length_encRequestEntry_ge (e : Bytes × List SyncNeed) (h : WFActor e.1) :
    requestEntryMinBytes ≤ (encRequestEntry e).length := by
  simp only [WFActor] at h
  simp [encRequestEntry, requestEntryMinBytes, h]; omega

theorem run_syncMsg (m : SyncMsg) (rest : Bytes) (h : WFSyncMsg m) :
    Dec.run syncMsg (encSyncMsg m ++ rest) = (.ok m, rest) := by
  cases m with
  | state s =>
    simp only [WFSyncMsg] at h
    simp only [syncMsg, syncMsgP, encSyncMsg, List.append_assoc, run_bind, run_tag0,
      run_u32 0 _ (by omega), run_syncState _ _ h, run_pure]
  | changeset c =>
    simp only [WFSyncMsg] at h
    simp only [syncMsg, syncMsgP, encSyncMsg, List.append_assoc, run_bind, run_tag0,
      run_u32 1 _ (by omega), run_changeV1 _ _ h, run_pure]
  | clock ts =>
    simp only [WFSyncMsg, U64] at h
    simp only [syncMsg, syncMsgP, encSyncMsg, List.append_assoc, run_bind, run_tag0,
      run_u32 2 _ (by omega), run_u64 _ _ h, run_pure]
  | rejection r =>
    simp only [WFSyncMsg] at h
    simp only [syncMsg, syncMsgP, encSyncMsg, List.append_assoc, run_bind, run_tag0,
      run_u32 3 _ (by omega), run_u32 r _ (by omega), h, if_true, run_pure]
  | request es =>
    simp only [WFSyncMsg] at h
    have hv := run_vec .eof (requestEntry syncNeedMinBytes) encRequestEntry es requestEntryMinBytes
      rest (fun e he => length_encRequestEntry_ge e (h.2 e he).1)
      (fun e he r => run_requestEntry e r (h.2 e he))
    simp only [syncMsg, syncMsgP, encSyncMsg, List.append_assoc, run_bind, run_tag0,
      run_u32 4 _ (by omega), run_u32 _ _ h.1, hv, run_pure]

/-! ### reservation accounting of every decoder

`Good D m d` with `m` = what `minimum_bytes_needed()` promises for the type (or more) and `D` = one
more than the nesting depth of guarded collections below it. -/

theorem good_range (D : Nat) (hD : 1 ≤ D) : Good D 16 range := by
  have := good_bind hD (good_u64 D hD) (fun lo => good_bind hD (good_u64 D hD)
    (fun hi => good_pure D (lo, hi)))
  exact this

theorem good_actor (D : Nat) : Good D 16 actor := good_take D 16

theorem good_optTs (D : Nat) (hD : 1 ≤ D) : Good D 1 optTs := good_opt hD (good_u64 D hD)

theorem good_rangeVec : Good 2 8 rangeVec := by
  have := good_bind (D := 2) (by omega) (good_u64 2 (by omega))
    (fun n => good_vec .invalid n (by omega) (good_range 1 (by omega)) (Nat.le_refl 16) (by omega))
  exact this

theorem good_tag0 (D : Nat) (hD : 1 ≤ D) : Good D 4 tag0 := by
  have := good_bind (m2 := 0) hD (good_u32 D hD) (fun t => (by
    by_cases h : t = 0
    · rw [if_pos h]; exact good_pure D ()
    · rw [if_neg h]; exact good_fail D 0 _ : Good D 0 (if t = 0 then pure () else fail .invalid)))
  exact this

theorem good_sqliteValue (D : Nat) (hD : 1 ≤ D) : Good D 1 sqliteValue := by
  have := good_bind (m2 := 0) hD (good_u8 D hD) (fun t => (by
    split
    · exact good_pure D _
    · exact good_weaken (Nat.zero_le _) (Nat.le_refl _) (good_map _ hD (good_i64 D hD))
    · exact good_weaken (Nat.zero_le _) (Nat.le_refl _) (good_map _ hD (good_u64 D hD))
    · exact good_weaken (Nat.zero_le _) (Nat.le_refl _) (good_map _ hD (good_str D hD))
    · exact good_weaken (Nat.zero_le _) (Nat.le_refl _) (good_map _ hD (good_bytes D hD))
    · exact good_fail D 0 _ :
    Good D 0 (match t with
      | 0 => pure Val.null
      | 1 => do let v ← i64; pure (Val.int v)
      | 2 => do let b ← u64; pure (Val.real b)
      | 3 => do let s ← str; pure (Val.text s)
      | 4 => do let b ← bytes; pure (Val.blob b)
      | _ => fail .invalid)))
  exact this

/-- `Change` consumes at least 61 bytes beyond what it books (≥ the 37 the derive promises) -/
theorem good_change (D : Nat) (hD : 1 ≤ D) : Good D 61 change := by
  unfold change strBorrowed
  refine good_weaken (m := 4 + (4 + (4 + (1 + (8 + (8 + (8 + (16 + (8 + 0)))))))))
    (by omega) (Nat.le_refl D) ?_
  exact good_bind hD (good_str D hD) (fun table =>
    good_bind hD (good_bytes D hD) (fun pk =>
    good_bind hD (good_str D hD) (fun cid =>
    good_bind hD (good_sqliteValue D hD) (fun val =>
    good_bind hD (good_i64 D hD) (fun colVersion =>
    good_bind hD (good_u64 D hD) (fun dbVersion =>
    good_bind hD (good_u64 D hD) (fun seq =>
    good_bind hD (good_take D 16) (fun siteId =>
    good_bind hD (good_i64 D hD) (fun cl =>
    good_pure D (Change.mk table pk cid val colVersion dbVersion seq siteId cl))))))))))

theorem good_changeset : Good 2 2 changeset := by
  have hD : 1 ≤ 2 := by omega
  have := good_bind (m2 := 1) hD (good_u8 2 hD) (fun t => (by
    split
    · exact good_weaken (by omega) (Nat.le_refl _) (good_bind hD (good_range 2 hD) (fun vs =>
        good_bind hD (good_optTs 2 hD) (fun ts => good_pure 2 (Changeset.empty vs ts))))
    · exact good_weaken (by omega) (Nat.le_refl _) (good_bind hD (good_u64 2 hD) (fun version =>
        good_bind hD (good_u32 2 hD) (fun n =>
        good_bind hD (good_vec .eof n (by omega) (good_change 1 (by omega))
          (by show changeMinBytes ≤ 61; decide) (by show 1 ≤ changeMinBytes; decide)) (fun changes =>
        good_bind hD (good_range 2 hD) (fun seqs =>
        good_bind hD (good_u64 2 hD) (fun lastSeq =>
        good_bind hD (good_u64 2 hD) (fun ts =>
        good_pure 2 (Changeset.full version changes seqs lastSeq ts))))))))
    · exact good_weaken (by omega) (Nat.le_refl _) (good_bind hD good_rangeVec (fun vs =>
        good_bind hD (good_u64 2 hD) (fun ts => good_pure 2 (Changeset.emptySet vs ts))))
    · exact good_fail 2 1 _ :
    Good 2 1 (match t with
      | 0 => do let vs ← range; let ts ← optTs; pure (Changeset.empty vs ts)
      | 1 => do
        let version ← u64
        let n ← u32
        let changes ← vec .eof changeMinBytes change n
        let seqs ← range
        let lastSeq ← u64
        let ts ← u64
        pure (Changeset.full version changes seqs lastSeq ts)
      | 2 => do let vs ← rangeVec; let ts ← u64; pure (Changeset.emptySet vs ts)
      | _ => fail .invalid)))
  exact this

theorem good_changeV1 : Good 2 18 changeV1 := by
  have := good_bind (D := 2) (by omega) (good_actor 2) (fun a =>
    good_bind (by omega) good_changeset (fun c => good_pure 2 (ChangeV1.mk a c)))
  exact this

/-- `SyncNeedV1` consumes at least the 2 bytes its `minimum_bytes_needed()` promises -/
theorem good_syncNeed : Good 2 2 syncNeed := by
  have hD : 1 ≤ 2 := by omega
  have := good_bind (m2 := 1) hD (good_u8 2 hD) (fun t => (by
    split
    · exact good_weaken (by omega) (Nat.le_refl _) (good_map _ hD (good_range 2 hD))
    · exact good_weaken (by omega) (Nat.le_refl _) (good_bind hD (good_u64 2 hD) (fun version =>
        good_map _ hD good_rangeVec))
    · exact good_map _ hD (good_optTs 2 hD)
    · exact good_fail 2 1 _ :
    Good 2 1 (match t with
      | 0 => do let vs ← range; pure (SyncNeed.full vs)
      | 1 => do let version ← u64; let seqs ← rangeVec; pure (SyncNeed.part version seqs)
      | 2 => do let ts ← optTs; pure (SyncNeed.empty ts)
      | _ => fail .invalid)))
  exact this

theorem good_headEntry (D : Nat) (hD : 1 ≤ D) : Good D 24 headEntry := by
  have := good_bind hD (good_actor D) (fun a => good_bind hD (good_u64 D hD)
    (fun v => good_pure D (a, v)))
  exact this

theorem good_needEntry : Good 2 24 needEntry := by
  have := good_bind (D := 2) (by omega) (good_actor 2) (fun a =>
    good_bind (by omega) good_rangeVec (fun rs => good_pure 2 (a, rs)))
  exact this

theorem good_versionEntry : Good 2 16 versionEntry := by
  have := good_bind (D := 2) (by omega) (good_u64 2 (by omega)) (fun v =>
    good_bind (by omega) good_rangeVec (fun rs => good_pure 2 (v, rs)))
  exact this

theorem good_partialEntry : Good 3 24 partialEntry := by
  have hD : 1 ≤ 3 := by omega
  have := good_bind hD (good_actor 3) (fun a =>
    good_bind hD (good_u64 3 hD) (fun n =>
    good_bind hD (good_vec .invalid n (by omega) good_versionEntry (Nat.le_refl 16) (by omega)) (fun vs =>
    good_pure 3 (a, vs))))
  exact this

theorem good_syncState : Good 4 37 syncState := by
  have hD : 1 ≤ 4 := by omega
  have := good_bind hD (good_actor 4) (fun actorId =>
    good_bind hD (good_u32 4 hD) (fun nh =>
    good_bind hD (good_weaken (Nat.zero_le _) (Nat.le_refl _)
      (good_many hD (good_headEntry 4 hD) nh)) (fun heads =>
    good_bind hD (good_u64 4 hD) (fun nn =>
    good_bind hD (good_weaken (Nat.le_refl 0) (by omega : 3 ≤ 4)
      (good_vec .invalid nn (by omega) good_needEntry (Nat.le_refl 24) (by omega))) (fun need =>
    good_bind hD (good_u64 4 hD) (fun np =>
    good_bind hD (good_vec .invalid np (by omega) good_partialEntry (Nat.le_refl 24) (by omega))
      (fun partialNeed =>
    good_bind hD (good_optTs 4 hD) (fun ts =>
    good_pure 4 (SyncState.mk actorId heads need partialNeed ts)))))))))
  exact good_weaken (by omega) (Nat.le_refl _) this

theorem tight_u16 : Tight u16 := tight_uN 2

theorem tight_traceCtx : Tight traceCtx :=
  tight_bind (tight_opt tight_str) (fun _ => tight_bind (tight_opt tight_str) (fun _ => tight_pure _))

theorem good_uniPayload : Good 2 30 uniPayload := by
  have hD : 1 ≤ 2 := by omega
  have := good_bind hD (good_tag0 2 hD) (fun _ =>
    good_bind hD (good_tag0 2 hD) (fun _ =>
    good_bind hD (good_tag0 2 hD) (fun _ =>
    good_bind hD good_changeV1 (fun c =>
    good_bind hD (tight_good 2 hD (tight_defaultOnEof 0 tight_u16)) (fun cl =>
    good_pure 2 (UniPayload.mk c cl))))))
  exact this

theorem good_biPayload : Good 2 24 biPayload := by
  have hD : 1 ≤ 2 := by omega
  have := good_bind hD (good_tag0 2 hD) (fun _ =>
    good_bind hD (good_tag0 2 hD) (fun _ =>
    good_bind hD (good_actor 2) (fun a =>
    good_bind hD (tight_good 2 hD (tight_defaultOnEof ⟨none, none⟩ tight_traceCtx)) (fun t =>
    good_bind hD (tight_good 2 hD (tight_defaultOnEof 0 tight_u16)) (fun cl =>
    good_pure 2 (BiPayload.mk a t cl))))))
  exact this

/-- a request entry, provided `SyncNeedV1` declares a minimum of at most the 2 bytes every need
really takes -/
theorem good_requestEntry (needMin : Nat) (h : needMin ≤ 2) (h1 : 1 ≤ needMin) :
    Good 3 20 (requestEntry needMin) := by
  have hD : 1 ≤ 3 := by omega
  have := good_bind hD (good_actor 3) (fun a =>
    good_bind hD (good_u32 3 hD) (fun n =>
    good_bind hD (good_vec .eof n (by omega) good_syncNeed h h1) (fun ns =>
    good_pure 3 (a, ns))))
  exact this

theorem good_syncMsgP (needMin : Nat) (h : needMin ≤ 2) (h1 : 1 ≤ needMin) :
    Good 4 8 (syncMsgP needMin) := by
  have hD : 1 ≤ 4 := by omega
  have := good_bind hD (good_tag0 4 hD) (fun _ =>
    good_bind (m2 := 0) hD (good_u32 4 hD) (fun t => (by
    split
    · exact good_weaken (by omega) (Nat.le_refl _) (good_map _ hD good_syncState)
    · exact good_weaken (by omega) (by omega) (good_map _ (by omega : 1 ≤ 2) good_changeV1)
    · exact good_weaken (by omega) (Nat.le_refl _) (good_map _ hD (good_u64 4 hD))
    · exact good_weaken (by omega) (Nat.le_refl _) (good_bind (m2 := 0) hD (good_u32 4 hD) (fun r =>
        (by
          by_cases hr : r < 2
          · rw [if_pos hr]; exact good_pure 4 _
          · rw [if_neg hr]; exact good_fail 4 0 _ :
          Good 4 0 (if r < 2 then pure (SyncMsg.rejection r) else fail .invalid))))
    · exact good_weaken (by omega) (Nat.le_refl _) (good_bind hD (good_u32 4 hD) (fun n =>
        good_map _ hD (good_vec .eof n (by omega) (good_requestEntry needMin h h1)
          (by show requestEntryMinBytes ≤ 20; decide) (by show 1 ≤ requestEntryMinBytes; decide))))
    · exact good_fail 4 0 _ :
    Good 4 0 (match t with
      | 0 => do let s ← syncState; pure (SyncMsg.state s)
      | 1 => do let c ← changeV1; pure (SyncMsg.changeset c)
      | 2 => do let ts ← u64; pure (SyncMsg.clock ts)
      | 3 => do
        let r ← u32
        if r < 2 then pure (SyncMsg.rejection r) else fail .invalid
      | 4 => do
        let n ← u32
        let es ← vec .eof requestEntryMinBytes (requestEntry needMin) n
        pure (SyncMsg.request es)
      | _ => fail .invalid))))
  exact this

/-- what `Good` says about the booked bytes, on both paths -/
theorem good_alloc_le {D m : Nat} {d : Dec α} (hD : 1 ≤ D) (h : Good D m d) (bs : Bytes) :
    (d bs).alloc ≤ D * bs.length := by
  have := h bs
  cases hv : (d bs).val with
  | error e => simpa only [hv] using this
  | ok a =>
    simp only [hv] at this
    have : bs.length ≤ D * bs.length := Nat.le_mul_of_pos_left _ hD
    omega

/-! ### decoded text is valid UTF-8 -/

theorem run_bind_ok {d : Dec α} {f : α → Dec β} {bs r : Bytes} {b : β}
    (h : Dec.run (d >>= f) bs = (.ok b, r)) :
    ∃ a r', Dec.run d bs = (.ok a, r') ∧ Dec.run (f a) r' = (.ok b, r) := by
  rw [run_bind] at h
  cases hd : Dec.run d bs with
  | mk v r' =>
    rw [hd] at h
    cases v with
    | error e => simp at h
    | ok a => exact ⟨a, r', rfl, h⟩

theorem run_pure_ok {a b : α} {bs r : Bytes} (h : Dec.run (pure a : Dec α) bs = (.ok b, r)) :
    b = a := by
  simp only [run_pure, Prod.mk.injEq, Except.ok.injEq] at h
  exact h.1.symm

theorem str_valid {bs b r : Bytes} (h : Dec.run str bs = (.ok b, r)) : validUtf8 b = true := by
  obtain ⟨n, r1, _, h⟩ := run_bind_ok h
  obtain ⟨x, r2, _, h⟩ := run_bind_ok h
  by_cases hv : validUtf8 x = true
  · rw [if_pos hv] at h
    rw [run_pure_ok h]; exact hv
  · rw [if_neg hv] at h
    simp at h

theorem sqliteValue_valid {bs r : Bytes} {v : Val} (h : Dec.run sqliteValue bs = (.ok v, r)) :
    ValTextValid v := by
  obtain ⟨t, r1, _, h⟩ := run_bind_ok h
  split at h
  · rw [run_pure_ok h]; trivial
  · obtain ⟨x, _, _, h⟩ := run_bind_ok h; rw [run_pure_ok h]; trivial
  · obtain ⟨x, _, _, h⟩ := run_bind_ok h; rw [run_pure_ok h]; trivial
  · obtain ⟨x, _, hs, h⟩ := run_bind_ok h; rw [run_pure_ok h]; exact str_valid hs
  · obtain ⟨x, _, _, h⟩ := run_bind_ok h; rw [run_pure_ok h]; trivial
  · simp at h

theorem change_valid {bs r : Bytes} {c : Change} (h : Dec.run change bs = (.ok c, r)) :
    ChangeTextValid c := by
  obtain ⟨table, _, h1, h⟩ := run_bind_ok h
  obtain ⟨pk, _, _, h⟩ := run_bind_ok h
  obtain ⟨cid, _, h3, h⟩ := run_bind_ok h
  obtain ⟨val, _, h4, h⟩ := run_bind_ok h
  obtain ⟨_, _, _, h⟩ := run_bind_ok h
  obtain ⟨_, _, _, h⟩ := run_bind_ok h
  obtain ⟨_, _, _, h⟩ := run_bind_ok h
  obtain ⟨_, _, _, h⟩ := run_bind_ok h
  obtain ⟨_, _, _, h⟩ := run_bind_ok h
  rw [run_pure_ok h]
  exact ⟨str_valid h1, str_valid h3, sqliteValue_valid h4⟩

theorem many_all {d : Dec α} {P : α → Prop}
    (hd : ∀ bs a r, Dec.run d bs = (.ok a, r) → P a) :
    ∀ (n : Nat) (bs r : Bytes) (as : List α), Dec.run (many d n) bs = (.ok as, r) →
      ∀ a ∈ as, P a := by
  intro n
  induction n with
  | zero =>
    intro bs r as h
    simp only [many] at h
    rw [run_pure_ok h]; simp
  | succ n ih =>
    intro bs r as h
    simp only [many] at h
    obtain ⟨a, r1, h1, h⟩ := run_bind_ok h
    obtain ⟨as', r2, h2, h⟩ := run_bind_ok h
    rw [run_pure_ok h]
    intro x hx
    simp only [List.mem_cons] at hx
    cases hx with
    | inl e => rw [e]; exact hd _ _ _ h1
    | inr e => exact ih _ _ _ h2 x e

theorem vec_all {d : Dec α} {P : α → Prop} (e : Err) (minsz n : Nat)
    (hd : ∀ bs a r, Dec.run d bs = (.ok a, r) → P a) {bs r : Bytes} {as : List α}
    (h : Dec.run (vec e minsz d n) bs = (.ok as, r)) : ∀ a ∈ as, P a := by
  rw [vec] at h
  obtain ⟨_, r1, _, h⟩ := run_bind_ok h
  exact many_all hd n _ _ _ h

theorem changeset_valid {bs r : Bytes} {c : Changeset} (h : Dec.run changeset bs = (.ok c, r)) :
    ChangesetTextValid c := by
  obtain ⟨t, _, _, h⟩ := run_bind_ok h
  split at h
  · obtain ⟨_, _, _, h⟩ := run_bind_ok h
    obtain ⟨_, _, _, h⟩ := run_bind_ok h
    rw [run_pure_ok h]; trivial
  · obtain ⟨_, _, _, h⟩ := run_bind_ok h
    obtain ⟨n, _, _, h⟩ := run_bind_ok h
    obtain ⟨cs, _, hc, h⟩ := run_bind_ok h
    obtain ⟨_, _, _, h⟩ := run_bind_ok h
    obtain ⟨_, _, _, h⟩ := run_bind_ok h
    obtain ⟨_, _, _, h⟩ := run_bind_ok h
    rw [run_pure_ok h]
    exact vec_all .eof changeMinBytes n (fun _ _ _ hx => change_valid hx) hc
  · obtain ⟨_, _, _, h⟩ := run_bind_ok h
    obtain ⟨_, _, _, h⟩ := run_bind_ok h
    rw [run_pure_ok h]; trivial
  · simp at h

theorem changeV1_valid {bs r : Bytes} {c : ChangeV1} (h : Dec.run changeV1 bs = (.ok c, r)) :
    ChangesetTextValid c.changeset := by
  obtain ⟨_, _, _, h⟩ := run_bind_ok h
  obtain ⟨cs, _, hc, h⟩ := run_bind_ok h
  rw [run_pure_ok h]
  exact changeset_valid hc

theorem optStr_valid {bs r : Bytes} {o : Option Bytes} (h : Dec.run (opt str) bs = (.ok o, r)) :
    OptTextValid o := by
  rw [opt] at h
  obtain ⟨f, _, _, h⟩ := run_bind_ok h
  by_cases hf : f ≠ 0
  · rw [if_pos hf] at h
    obtain ⟨s, _, hs, h⟩ := run_bind_ok h
    rw [run_pure_ok h]; exact str_valid hs
  · rw [if_neg hf] at h
    rw [run_pure_ok h]; trivial

end Corro.Codec
