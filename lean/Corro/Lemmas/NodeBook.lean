/-
Association-list lookups of the node model (`Node.booked`, `Booked.partial?`, `setBooked`,
`bumpDbv`, `insertPartial`, `dropPartials`, `insertDb`) and frame lemmas: which fields of the node
each primitive operation touches.
-/
import Corro.Lemmas.NodeSeq

namespace Corro.Node
open Corro.Crdt

/-! ### lookups in association lists keyed by a `Nat` -/

section Assoc
variable {β : Type}

/-- first value stored under key `k` -/
def alook (l : List (Nat × β)) (k : Nat) : Option β := (l.find? (·.1 = k)).map (·.2)

theorem alook_nil (k : Nat) : alook ([] : List (Nat × β)) k = none := rfl

theorem alook_cons (e : Nat × β) (l : List (Nat × β)) (k : Nat) :
    alook (e :: l) k = if e.1 = k then some e.2 else alook l k := by
  unfold alook
  by_cases h : e.1 = k <;> simp [h]

theorem alook_eq_none {l : List (Nat × β)} {k : Nat} : alook l k = none ↔ ∀ e ∈ l, e.1 ≠ k := by
  induction l with
  | nil => simp [alook_nil]
  | cons e l ih =>
    rw [alook_cons]
    by_cases h : e.1 = k <;> simp [h, ih]

theorem alook_some_mem {l : List (Nat × β)} {k : Nat} {v : β} (h : alook l k = some v) :
    (k, v) ∈ l := by
  induction l with
  | nil => simp [alook_nil] at h
  | cons e l ih =>
    rw [alook_cons] at h
    by_cases he : e.1 = k
    · simp only [he, if_true, Option.some.injEq] at h
      obtain ⟨a, b⟩ := e
      simp only at he h
      subst he; subst h; simp
    · simp only [he, if_false] at h
      exact List.mem_cons_of_mem _ (ih h)

theorem any_key_eq (l : List (Nat × β)) (k : Nat) :
    l.any (·.1 = k) = (alook l k).isSome := by
  induction l with
  | nil => rfl
  | cons e l ih =>
    rw [alook_cons, List.any_cons, ih]
    by_cases h : e.1 = k <;> simp [h]

/-- replacing the values stored under `k` -/
theorem alook_map_replace (l : List (Nat × β)) (k : Nat) (g : Nat × β → β) (k' : Nat) :
    alook (l.map (fun e => if e.1 = k then (k, g e) else e)) k' =
      if k' = k then (l.find? (·.1 = k)).map g else alook l k' := by
  induction l with
  | nil => by_cases h : k' = k <;> simp [alook, h]
  | cons e l ih =>
    rw [List.map_cons, alook_cons, ih, alook_cons]
    by_cases h1 : e.1 = k
    · by_cases h2 : k' = k
      · subst h2; simp [h1]
      · have h3 : ¬ k = k' := by omega
        simp [h1, h2, h3]
    · by_cases h2 : k' = k
      · subst h2; simp [h1]
      · simp [h1, h2]

theorem alook_insertSortedBy_other (l : List (Nat × β)) (k : Nat) (v : β) (k' : Nat) (h : k' ≠ k) :
    alook (insertSortedBy (·.1) (k, v) l) k' = alook l k' := by
  induction l with
  | nil => simp [insertSortedBy, alook_cons, alook_nil]; omega
  | cons e l ih =>
    unfold insertSortedBy
    split
    · rw [alook_cons]; simp only; rw [if_neg (by omega)]
    · rw [alook_cons, alook_cons, ih]

theorem alook_insertSortedBy_same (l : List (Nat × β)) (k : Nat) (v : β) (h : alook l k = none) :
    alook (insertSortedBy (·.1) (k, v) l) k = some v := by
  induction l with
  | nil => simp [insertSortedBy, alook_cons]
  | cons e l ih =>
    rw [alook_cons] at h
    have he : ¬ e.1 = k := by intro he; simp [he] at h
    simp only [he, if_false] at h
    unfold insertSortedBy
    split
    · rw [alook_cons]; simp
    · rw [alook_cons, if_neg he, ih h]

end Assoc

/-! ### the node's bookkeeping lookups -/

theorem booked_eq (n : Node) (a : Nat) : n.booked a = (alook n.book a).getD {} := rfl

theorem partial?_eq (b : Booked) (v : Nat) : b.partial? v = alook b.partials v := rfl

theorem booked_setBooked_same (n : Node) (a : Nat) (b : Booked) : (n.setBooked a b).booked a = b := by
  unfold Node.setBooked
  split
  · rename_i h
    rw [any_key_eq] at h
    rw [booked_eq]
    simp only
    rw [alook_map_replace n.book a (fun _ => b) a, if_pos rfl]
    cases hf : n.book.find? (·.1 = a) with
    | none => simp [alook, hf] at h
    | some e => rfl
  · rename_i h
    rw [any_key_eq] at h
    rw [booked_eq]
    simp only
    rw [alook_insertSortedBy_same]
    · rfl
    · cases ha : alook n.book a with
      | none => rfl
      | some x => simp [ha] at h

theorem booked_setBooked_other (n : Node) (a : Nat) (b : Booked) (a' : Nat) (h : a' ≠ a) :
    (n.setBooked a b).booked a' = n.booked a' := by
  unfold Node.setBooked
  split
  · rw [booked_eq, booked_eq]
    simp only
    rw [alook_map_replace n.book a (fun _ => b) a', if_neg h]
  · rw [booked_eq, booked_eq]
    simp only
    rw [alook_insertSortedBy_other _ _ _ _ h]

/-! ### frame lemmas: fields each primitive leaves alone -/

@[simp] theorem setBooked_db (n : Node) (a : Nat) (b : Booked) : (n.setBooked a b).db = n.db := by
  unfold Node.setBooked; split <;> rfl
@[simp] theorem setBooked_seqRows (n : Node) (a : Nat) (b : Booked) :
    (n.setBooked a b).seqRows = n.seqRows := by unfold Node.setBooked; split <;> rfl
@[simp] theorem setBooked_buf (n : Node) (a : Nat) (b : Booked) : (n.setBooked a b).buf = n.buf := by
  unfold Node.setBooked; split <;> rfl
@[simp] theorem setBooked_dbv (n : Node) (a : Nat) (b : Booked) : (n.setBooked a b).dbv = n.dbv := by
  unfold Node.setBooked; split <;> rfl
@[simp] theorem setBooked_alive (n : Node) (a : Nat) (b : Booked) :
    (n.setBooked a b).alive = n.alive := by unfold Node.setBooked; split <;> rfl
@[simp] theorem setBooked_id (n : Node) (a : Nat) (b : Booked) : (n.setBooked a b).id = n.id := by
  unfold Node.setBooked; split <;> rfl

@[simp] theorem bumpDbv_db (n : Node) (s v : Nat) : (n.bumpDbv s v).db = n.db := by
  unfold Node.bumpDbv; split <;> rfl
@[simp] theorem bumpDbv_book (n : Node) (s v : Nat) : (n.bumpDbv s v).book = n.book := by
  unfold Node.bumpDbv; split <;> rfl
@[simp] theorem bumpDbv_seqRows (n : Node) (s v : Nat) : (n.bumpDbv s v).seqRows = n.seqRows := by
  unfold Node.bumpDbv; split <;> rfl
@[simp] theorem bumpDbv_buf (n : Node) (s v : Nat) : (n.bumpDbv s v).buf = n.buf := by
  unfold Node.bumpDbv; split <;> rfl
@[simp] theorem bumpDbv_alive (n : Node) (s v : Nat) : (n.bumpDbv s v).alive = n.alive := by
  unfold Node.bumpDbv; split <;> rfl
@[simp] theorem bumpDbv_id (n : Node) (s v : Nat) : (n.bumpDbv s v).id = n.id := by
  unfold Node.bumpDbv; split <;> rfl

theorem booked_bumpDbv (n : Node) (s v a : Nat) : (n.bumpDbv s v).booked a = n.booked a := by
  unfold Node.booked; rw [bumpDbv_book]

@[simp] theorem clearMeta_db (n : Node) (s lo hi : Nat) : (n.clearMeta s lo hi).db = n.db := rfl
@[simp] theorem clearMeta_book (n : Node) (s lo hi : Nat) : (n.clearMeta s lo hi).book = n.book := rfl
@[simp] theorem clearMeta_dbv (n : Node) (s lo hi : Nat) : (n.clearMeta s lo hi).dbv = n.dbv := rfl
@[simp] theorem clearMeta_alive (n : Node) (s lo hi : Nat) : (n.clearMeta s lo hi).alive = n.alive := rfl
@[simp] theorem clearMeta_id (n : Node) (s lo hi : Nat) : (n.clearMeta s lo hi).id = n.id := rfl

theorem booked_clearMeta (n : Node) (s lo hi a : Nat) : (n.clearMeta s lo hi).booked a = n.booked a := rfl

@[simp] theorem bufferChunk_db (n : Node) (s v lo hi last : Nat) (cs : List Chg) :
    (n.bufferChunk s v lo hi last cs).1.db = n.db := rfl
@[simp] theorem bufferChunk_book (n : Node) (s v lo hi last : Nat) (cs : List Chg) :
    (n.bufferChunk s v lo hi last cs).1.book = n.book := rfl
@[simp] theorem bufferChunk_dbv (n : Node) (s v lo hi last : Nat) (cs : List Chg) :
    (n.bufferChunk s v lo hi last cs).1.dbv = n.dbv := rfl
@[simp] theorem bufferChunk_alive (n : Node) (s v lo hi last : Nat) (cs : List Chg) :
    (n.bufferChunk s v lo hi last cs).1.alive = n.alive := rfl
@[simp] theorem bufferChunk_id (n : Node) (s v lo hi last : Nat) (cs : List Chg) :
    (n.bufferChunk s v lo hi last cs).1.id = n.id := rfl

/-! ### `mergeChanges` -/

theorem mergeChanges_nil (n : Node) : n.mergeChanges [] = n := rfl

theorem mergeChanges_cons (n : Node) (c : Chg) (cs : List Chg) :
    n.mergeChanges (c :: cs) =
      ({ (n.bumpDbv c.site c.dbv) with db := merge n.db c } : Node).mergeChanges cs := rfl

theorem mergeChanges_db (n : Node) (cs : List Chg) : (n.mergeChanges cs).db = mergeAll n.db cs := by
  induction cs generalizing n with
  | nil => rfl
  | cons c cs ih => rw [mergeChanges_cons, ih]; rfl

@[simp] theorem mergeChanges_book (n : Node) (cs : List Chg) : (n.mergeChanges cs).book = n.book := by
  induction cs generalizing n with
  | nil => rfl
  | cons c cs ih => rw [mergeChanges_cons, ih]; exact bumpDbv_book n c.site c.dbv

@[simp] theorem mergeChanges_seqRows (n : Node) (cs : List Chg) :
    (n.mergeChanges cs).seqRows = n.seqRows := by
  induction cs generalizing n with
  | nil => rfl
  | cons c cs ih => rw [mergeChanges_cons, ih]; exact bumpDbv_seqRows n c.site c.dbv

@[simp] theorem mergeChanges_buf (n : Node) (cs : List Chg) : (n.mergeChanges cs).buf = n.buf := by
  induction cs generalizing n with
  | nil => rfl
  | cons c cs ih => rw [mergeChanges_cons, ih]; exact bumpDbv_buf n c.site c.dbv

@[simp] theorem mergeChanges_alive (n : Node) (cs : List Chg) :
    (n.mergeChanges cs).alive = n.alive := by
  induction cs generalizing n with
  | nil => rfl
  | cons c cs ih => rw [mergeChanges_cons, ih]; exact bumpDbv_alive n c.site c.dbv

@[simp] theorem mergeChanges_id (n : Node) (cs : List Chg) : (n.mergeChanges cs).id = n.id := by
  induction cs generalizing n with
  | nil => rfl
  | cons c cs ih => rw [mergeChanges_cons, ih]; exact bumpDbv_id n c.site c.dbv

theorem booked_mergeChanges (n : Node) (cs : List Chg) (a : Nat) :
    (n.mergeChanges cs).booked a = n.booked a := by
  unfold Node.booked; rw [mergeChanges_book]

/-! ### `insertDb`, `insertPartial`, `dropPartials` on the partials map -/

@[simp] theorem insertDb_partials (b : Booked) (vs : List (Nat × Nat)) :
    (b.insertDb vs).partials = b.partials := by
  unfold Booked.insertDb; split <;> rfl

theorem partial?_insertDb (b : Booked) (vs : List (Nat × Nat)) (v : Nat) :
    (b.insertDb vs).partial? v = b.partial? v := by
  unfold Booked.partial?; rw [insertDb_partials]

/-- what `insert_partial` stores and returns for version `v` -/
def mergedPartial (b : Booked) (v : Nat) (p : Partial) : Partial :=
  match b.partial? v with
  | none => p
  | some old => { old with seqs := RSet.insertAll old.seqs p.seqs }

theorem insertPartial_snd (b : Booked) (v : Nat) (p : Partial) :
    (b.insertPartial v p).2 = mergedPartial b v p := by
  unfold Booked.insertPartial mergedPartial
  cases b.partial? v <;> rfl

theorem partial?_insertPartial_same (b : Booked) (v : Nat) (p : Partial) :
    (b.insertPartial v p).1.partial? v = some (mergedPartial b v p) := by
  unfold Booked.insertPartial mergedPartial
  cases h : b.partial? v with
  | none =>
    simp only [partial?_eq]
    exact alook_insertSortedBy_same _ _ _ h
  | some old =>
    simp only [partial?_eq]
    rw [alook_map_replace b.partials v (fun _ => { old with seqs := RSet.insertAll old.seqs p.seqs }) v,
      if_pos rfl]
    rw [partial?_eq, alook] at h
    cases hf : b.partials.find? (·.1 = v) with
    | none => rw [hf] at h; cases h
    | some e => rfl

theorem partial?_insertPartial_other (b : Booked) (v : Nat) (p : Partial) (w : Nat) (h : w ≠ v) :
    (b.insertPartial v p).1.partial? w = b.partial? w := by
  unfold Booked.insertPartial
  cases hv : b.partial? v with
  | none =>
    simp only [partial?_eq]
    exact alook_insertSortedBy_other _ _ _ _ h
  | some old =>
    simp only [partial?_eq]
    rw [alook_map_replace b.partials v (fun _ => { old with seqs := RSet.insertAll old.seqs p.seqs }) w,
      if_neg h]

@[simp] theorem insertPartial_needed (b : Booked) (v : Nat) (p : Partial) :
    (b.insertPartial v p).1.needed = b.needed := by
  unfold Booked.insertPartial; cases b.partial? v <;> rfl

theorem insertPartial_max (b : Booked) (v : Nat) (p : Partial) :
    (b.insertPartial v p).1.max = if (b.partial? v).isSome then b.max else Nat.max b.max v := by
  unfold Booked.insertPartial; cases b.partial? v <;> rfl

theorem find?_filter_key {β : Type} (l : List (Nat × β)) (q : Nat → Bool) (k : Nat) :
    alook (l.filter (fun e => q e.1)) k = if q k then alook l k else none := by
  induction l with
  | nil => simp [alook_nil]
  | cons e l ih =>
    by_cases hq : q e.1 = true
    · rw [List.filter_cons_of_pos (p := fun (e : Nat × β) => q e.1) hq, alook_cons, alook_cons, ih]
      by_cases hk : e.1 = k
      · subst hk; simp [hq]
      · simp [hk]
    · rw [List.filter_cons_of_neg (p := fun (e : Nat × β) => q e.1) hq, ih, alook_cons]
      by_cases hk : e.1 = k
      · subst hk; simp [hq]
      · simp [hk]

theorem partial?_dropPartials (b : Booked) (lo hi v : Nat) :
    (b.dropPartials lo hi).partial? v = if lo ≤ v ∧ v ≤ hi then none else b.partial? v := by
  unfold Booked.dropPartials
  simp only [partial?_eq]
  rw [find?_filter_key b.partials (fun k => !(decide (lo ≤ k) && decide (k ≤ hi))) v]
  by_cases h : lo ≤ v ∧ v ≤ hi
  · simp [h]
  · rw [if_neg h, if_pos]
    simp only [Bool.not_eq_true', Bool.and_eq_false_iff, decide_eq_false_iff_not]
    omega

@[simp] theorem dropPartials_needed (b : Booked) (lo hi : Nat) : (b.dropPartials lo hi).needed = b.needed := rfl
@[simp] theorem dropPartials_max (b : Booked) (lo hi : Nat) : (b.dropPartials lo hi).max = b.max := rfl

/-! ### completeness of a partial -/

/-- the received seq ranges of a partial are in canonical form -/
def Booked.PWF (b : Booked) : Prop := ∀ e ∈ b.partials, RSet.WF e.2.seqs

/-- every in-memory partial of the node has canonical seq ranges -/
def Node.BookWF (n : Node) : Prop := ∀ e ∈ n.book, e.2.PWF

theorem Booked.PWF.of_partial? {b : Booked} (h : b.PWF) {v : Nat} {p : Partial}
    (hp : b.partial? v = some p) : RSet.WF p.seqs :=
  h (v, p) (alook_some_mem hp)

theorem complete_iff {p : Partial} (hw : RSet.WF p.seqs) :
    p.complete = true ↔ ∀ x, x ≤ p.last → RSet.Mem p.seqs x := by
  unfold Partial.complete
  rw [wf_isEmpty_iff (RSet.gaps_wfFrom p.seqs 0 p.last 0 hw)]
  constructor
  · intro h x hx
    apply Classical.byContradiction
    intro hn
    exact h x ((RSet.mem_gaps p.seqs 0 p.last x 0 hw).mpr ⟨⟨Nat.zero_le _, hx⟩, hn⟩)
  · intro h x hx
    have := (RSet.mem_gaps p.seqs 0 p.last x 0 hw).mp hx
    exact this.2 (h x this.1.2)

theorem mergedPartial_wf {b : Booked} (hb : b.PWF) (v : Nat) {p : Partial} (hp : RSet.WF p.seqs) :
    RSet.WF (mergedPartial b v p).seqs := by
  unfold mergedPartial
  cases h : b.partial? v with
  | none => exact hp
  | some old =>
    exact RSet.insertAll_wf _ _ (hb.of_partial? h) (wfFrom_forward hp)

theorem mem_mergedPartial {b : Booked} (v : Nat) {p : Partial} (hp : RSet.WF p.seqs) (x : Nat) :
    RSet.Mem (mergedPartial b v p).seqs x ↔
      (∃ old, b.partial? v = some old ∧ RSet.Mem old.seqs x) ∨ RSet.Mem p.seqs x := by
  unfold mergedPartial
  cases h : b.partial? v with
  | none => simp
  | some old =>
    simp only [Option.some.injEq, exists_eq_left']
    rw [RSet.mem_insertAll _ _ (wfFrom_forward hp)]
    rfl

theorem mergedPartial_last (b : Booked) (v : Nat) (p : Partial) :
    (mergedPartial b v p).last = match b.partial? v with | none => p.last | some old => old.last := by
  unfold mergedPartial; cases b.partial? v <;> rfl

theorem insertPartial_pwf {b : Booked} (hb : b.PWF) (v : Nat) {p : Partial} (hp : RSet.WF p.seqs) :
    (b.insertPartial v p).1.PWF := by
  have hm := mergedPartial_wf hb v hp
  unfold Booked.insertPartial
  unfold mergedPartial at hm
  cases h : b.partial? v with
  | none =>
    rw [h] at hm
    intro e he
    rcases (mem_insertSortedBy _).mp he with rfl | he
    · exact hp
    · exact hb e he
  | some old =>
    rw [h] at hm
    intro e he
    simp only at he
    obtain ⟨e', he', rfl⟩ := List.mem_map.mp he
    split
    · exact hm
    · exact hb e' he'

theorem dropPartials_pwf {b : Booked} (hb : b.PWF) (lo hi : Nat) : (b.dropPartials lo hi).PWF := by
  intro e he
  exact hb e (List.mem_filter.mp he).1

theorem insertDb_pwf {b : Booked} (hb : b.PWF) (vs : List (Nat × Nat)) : (b.insertDb vs).PWF := by
  unfold Booked.PWF; rw [insertDb_partials]; exact hb

theorem booked_pwf {n : Node} (h : n.BookWF) (a : Nat) : (n.booked a).PWF := by
  rw [booked_eq]
  cases ha : alook n.book a with
  | none => intro e he; cases he
  | some b => exact h (a, b) (alook_some_mem ha)

theorem setBooked_bookWF {n : Node} (h : n.BookWF) (a : Nat) {b : Booked} (hb : b.PWF) :
    (n.setBooked a b).BookWF := by
  unfold Node.setBooked
  split
  · intro e he
    simp only at he
    obtain ⟨e', he', rfl⟩ := List.mem_map.mp he
    split
    · exact hb
    · exact h e' he'
  · intro e he
    simp only at he
    rcases (mem_insertSortedBy _).mp he with rfl | he
    · exact hb
    · exact h e he

/-- a complete partial stays complete when more seqs are merged into it -/
theorem mergedPartial_complete_mono {b : Booked} (hb : b.PWF) (v : Nat) {p old : Partial}
    (hp : RSet.WF p.seqs) (ho : b.partial? v = some old) (hc : old.complete = true) :
    (mergedPartial b v p).complete = true := by
  rw [complete_iff (mergedPartial_wf hb v hp)]
  rw [mergedPartial_last, ho]
  intro x hx
  rw [mem_mergedPartial v hp]
  left
  exact ⟨old, ho, (complete_iff (hb.of_partial? ho)).mp hc x hx⟩

end Corro.Node
