/-
Invariant of the write-pool transition system and its preservation by every action.
-/
import Corro.Model.WritePool

namespace Corro.WritePool

/-- The inductive invariant.
* `guard_owner`: whoever owns (or is being sent) a guard is the requester the dispatcher waits for;
* `disp_started`: the requester the dispatcher waits for has been served (it is past `queued`);
* `conns*` / `perm*`: the pool / semaphore counters are exactly what the requesters' phases say;
* `queued_in_q`: a requester that waits for its oneshot has its sender in one of the queues. -/
structure Inv (s : State) : Prop where
  guard_owner : ∀ r, (s.phase r).hasGuardTok = true → s.disp = some r
  disp_started : ∀ r, s.disp = some r → s.phase r ≠ .idle ∧ s.phase r ≠ .queued
  conns0 : (∀ r, (s.phase r).holdsConn = false) → s.connsOut = 0
  conns1 : ∀ r, (s.phase r).holdsConn = true → s.connsOut = 1
  perm0 : (∀ r, s.phase r ≠ .holding) → s.permitsOut = s.ext
  perm1 : ∀ r, s.phase r = .holding → s.permitsOut = s.ext + 1
  queued_in_q : ∀ r, s.phase r = .queued → ∃ p, r ∈ s.q p

theorem inv_init : Inv init := by
  constructor <;> simp [init, Phase.hasGuardTok, Phase.holdsConn]

theorem holdsConn_hasGuardTok {p : Phase} (h : p.holdsConn = true) : p.hasGuardTok = true := by
  cases p <;> simp_all [Phase.holdsConn, Phase.hasGuardTok]

/-- two owners of a guard are the same requester -/
theorem Inv.guard_unique {s : State} (h : Inv s) {r1 r2 : Nat}
    (h1 : (s.phase r1).hasGuardTok = true) (h2 : (s.phase r2).hasGuardTok = true) : r1 = r2 := by
  have a := h.guard_owner r1 h1
  have b := h.guard_owner r2 h2
  rw [a] at b
  exact Option.some.inj b

/-- membership in a queue after `setQ` -/
theorem mem_setQ_of_ne {s : State} {p p' : Prio} {l : List Nat} {r : Nat} (h : p' ≠ p) :
    r ∈ (setQ s p l).q p' ↔ r ∈ s.q p' := by
  simp [setQ, h]

theorem mem_setQ_self {s : State} {p : Prio} {l : List Nat} {r : Nat} :
    r ∈ (setQ s p l).q p ↔ r ∈ l := by
  simp [setQ]

theorem inv_enqueue {cfg : Cfg} {s s' : State} {r : Nat} {p : Prio} (h : Inv s)
    (hs : step cfg s (.enqueue r p) = some s') : Inv s' := by
  simp only [step] at hs
  split at hs
  · rename_i hid
    cases hs
    obtain ⟨h1, h2, h3, h4, h5, h6, h7⟩ := h
    constructor
    · simp only [setPhase, setQ]; grind [Phase.hasGuardTok]
    · simp only [setPhase, setQ]; grind
    · simp only [setPhase, setQ]; grind [Phase.holdsConn]
    · simp only [setPhase, setQ]; grind [Phase.holdsConn]
    · simp only [setPhase, setQ]; grind
    · simp only [setPhase, setQ]; grind
    · intro r' hq
      by_cases e : r' = r
      · exact ⟨p, by simp [setPhase, setQ, e]⟩
      · obtain ⟨p', hp'⟩ := h7 r' (by simpa [setPhase, setQ, e] using hq)
        refine ⟨p', ?_⟩
        by_cases e2 : p' = p
        · subst e2; simp [setPhase, setQ, hp']
        · simpa [setPhase, setQ, e2] using hp'
  · cases hs

theorem inv_dispatch {cfg : Cfg} {s s' : State} {p : Prio} (h : Inv s)
    (hs : step cfg s (.dispatch p) = some s') : Inv s' := by
  simp only [step] at hs
  split at hs
  · rename_i hen
    split at hs
    · cases hs
    · rename_i r rest hq
      have hidle : s.disp = none := by
        cases hd : s.disp <;> simp_all
      obtain ⟨h1, h2, h3, h4, h5, h6, h7⟩ := h
      -- nobody owns a guard while the dispatcher is idle
      have hnog : ∀ r', (s.phase r').hasGuardTok = false := by
        intro r'
        cases hg : (s.phase r').hasGuardTok
        · rfl
        · have := h1 r' hg; rw [hidle] at this; cases this
      have q7 : ∀ (ph : Nat → Phase), (∀ r', ph r' = .queued → s.phase r' = .queued ∧ r' ≠ r ∨
          (s.phase r' = .queued ∧ False)) → ∀ r', ph r' = .queued → ∃ p', r' ∈ (setQ s p rest).q p' := by
        intro ph hph r' hr'
        rcases hph r' hr' with ⟨a, b⟩ | ⟨_, f⟩
        · obtain ⟨p', hp'⟩ := h7 r' a
          refine ⟨p', ?_⟩
          by_cases e2 : p' = p
          · subst e2
            rw [mem_setQ_self]
            rw [hq] at hp'
            simp only [List.mem_cons] at hp'
            rcases hp' with e | e
            · exact absurd e b
            · exact e
          · rw [mem_setQ_of_ne e2]; exact hp'
        · exact f.elim
      split at hs
      · rename_i hqd
        cases hs
        constructor
        · simp only [setPhase, setQ]; grind [Phase.hasGuardTok]
        · simp only [setPhase, setQ]; grind
        · simp only [setPhase, setQ]; grind [Phase.holdsConn, Phase.hasGuardTok]
        · simp only [setPhase, setQ]; grind [Phase.holdsConn, Phase.hasGuardTok]
        · simp only [setPhase, setQ]; grind
        · simp only [setPhase, setQ]; grind
        · intro r' hr'
          have : (setPhase (setQ s p rest) r Phase.granted).phase r' = .queued := hr'
          apply q7 (fun x => if x = r then Phase.granted else s.phase x)
          · intro x hx
            by_cases e : x = r
            · simp [e] at hx
            · left; simp [e] at hx; exact ⟨hx, e⟩
          · simpa [setPhase, setQ] using this
      · rename_i hqd
        cases hs
        constructor
        · simp only [setQ]; exact h1
        · simp only [setQ]; exact h2
        · simp only [setQ]; exact h3
        · simp only [setQ]; exact h4
        · simp only [setQ]; exact h5
        · simp only [setQ]; exact h6
        · intro r' hr'
          have hr'' : s.phase r' = .queued := hr'
          apply q7 s.phase
          · intro x hx
            left
            refine ⟨hx, ?_⟩
            intro e; subst e; exact hqd hx
          · exact hr''
  · cases hs


theorem inv_wake {cfg : Cfg} {s s' : State} (h : Inv s)
    (hs : step cfg s .wake = some s') : Inv s' := by
  simp only [step] at hs
  split at hs
  · rename_i r hd
    split at hs
    · cases hs
    · rename_i hng
      cases hs
      obtain ⟨h1, h2, h3, h4, h5, h6, h7⟩ := h
      constructor
      · intro r' hg
        have := h1 r' hg
        rw [hd] at this
        cases this
        exact absurd hg hng
      · intro r' hd'; cases hd'
      · exact h3
      · exact h4
      · exact h5
      · exact h6
      · exact h7
  · cases hs

theorem inv_recvGuard {cfg : Cfg} {s s' : State} {r : Nat} (h : Inv s)
    (hs : step cfg s (.recvGuard r) = some s') : Inv s' := by
  simp only [step] at hs
  split at hs
  · rename_i hph
    cases hs
    obtain ⟨h1, h2, h3, h4, h5, h6, h7⟩ := h
    have hg := h1 r (by simp [hph, Phase.hasGuardTok])
    constructor
    · simp only [setPhase]; grind [Phase.hasGuardTok]
    · simp only [setPhase]; grind
    · simp only [setPhase]; grind [Phase.holdsConn]
    · simp only [setPhase]; grind [Phase.holdsConn]
    · simp only [setPhase]; grind
    · simp only [setPhase]; grind
    · simp only [setPhase]; grind
  · cases hs

theorem inv_takeConn {cfg : Cfg} {s s' : State} {r : Nat} (h : Inv s)
    (hs : step cfg s (.takeConn r) = some s') : Inv s' := by
  simp only [step] at hs
  split at hs
  · rename_i hph
    cases hs
    have hu := fun r' => h.guard_unique (r1 := r') (r2 := r)
    obtain ⟨h1, h2, h3, h4, h5, h6, h7⟩ := h
    have hg := h1 r (by simp [hph.1, Phase.hasGuardTok])
    -- nobody holds a connection yet: a holder would own the guard, but `r` owns it
    have hnone : ∀ r', (s.phase r').holdsConn = false := by
      intro r'
      cases hc : (s.phase r').holdsConn
      · rfl
      · have := hu r' (holdsConn_hasGuardTok hc) (by simp [hph.1, Phase.hasGuardTok])
        subst this
        simp [hph.1, Phase.holdsConn] at hc
    have hz := h3 hnone
    constructor
    · simp only [setPhase]; grind [Phase.hasGuardTok]
    · simp only [setPhase]; grind
    · simp only [setPhase]; intro hall; have := hall r; simp [Phase.holdsConn] at this
    · simp only [setPhase]; intro r' _; omega
    · simp only [setPhase]; grind
    · simp only [setPhase]; grind
    · simp only [setPhase]; grind
  · cases hs

theorem inv_takePermit {cfg : Cfg} {s s' : State} {r : Nat} (h : Inv s)
    (hs : step cfg s (.takePermit r) = some s') : Inv s' := by
  simp only [step] at hs
  split at hs
  · rename_i hph
    cases hs
    have hu := fun r' => h.guard_unique (r1 := r') (r2 := r)
    obtain ⟨h1, h2, h3, h4, h5, h6, h7⟩ := h
    have hg := h1 r (by simp [hph.1, Phase.hasGuardTok])
    have hnone : ∀ r', s.phase r' ≠ .holding := by
      intro r' hc
      have := hu r' (by simp [hc, Phase.hasGuardTok]) (by simp [hph.1, Phase.hasGuardTok])
      subst this
      rw [hph.1] at hc; cases hc
    have hz := h5 hnone
    have hc1 := h4 r (by simp [hph.1, Phase.holdsConn])
    constructor
    · simp only [setPhase]; grind [Phase.hasGuardTok]
    · simp only [setPhase]; grind
    · simp only [setPhase]; intro hall; have := hall r; simp [Phase.holdsConn] at this
    · simp only [setPhase]; intro r' _; exact hc1
    · simp only [setPhase]; intro hall; have := hall r; simp at this
    · simp only [setPhase]; intro r' _; omega
    · simp only [setPhase]; grind
  · cases hs

/-- a requester going away (from whatever phase) preserves the invariant -/
theorem inv_dropEffect {s : State} (r : Nat) (h : Inv s) : Inv (dropEffect s r) := by
  have hu := fun r' => h.guard_unique (r1 := r') (r2 := r)
  obtain ⟨h1, h2, h3, h4, h5, h6, h7⟩ := h
  -- nobody else holds a connection / a permit when `r` does
  have hother : (s.phase r).hasGuardTok = true → ∀ r', r' ≠ r → (s.phase r').hasGuardTok = false := by
    intro hg r' hne
    cases hc : (s.phase r').hasGuardTok
    · rfl
    · exact absurd (hu r' hc hg) hne
  constructor
  · simp only [dropEffect, setPhase]; grind [Phase.hasGuardTok]
  · simp only [dropEffect, setPhase]; grind
  · simp only [dropEffect, setPhase]
    intro hall
    by_cases hc : (s.phase r).holdsConn = true
    · simp only [hc, if_true]; have := h4 r hc; omega
    · simp only [hc]
      apply h3
      intro r'
      by_cases e : r' = r
      · subst e; simpa using hc
      · have := hall r'; simpa [e] using this
  · simp only [dropEffect, setPhase]
    intro r' hr'
    by_cases e : r' = r
    · subst e; simp [Phase.holdsConn] at hr'
    · simp only [e, if_false] at hr'
      by_cases hc : (s.phase r).holdsConn = true
      · have := hother (holdsConn_hasGuardTok hc) r' e
        have := holdsConn_hasGuardTok hr'
        simp_all
      · simp only [hc]; exact h4 r' hr'
  · simp only [dropEffect, setPhase]
    intro hall
    by_cases hc : s.phase r = .holding
    · simp only [hc, if_true]; have := h6 r hc; omega
    · simp only [hc]
      apply h5
      intro r'
      by_cases e : r' = r
      · subst e; exact hc
      · have := hall r'; simpa [e] using this
  · simp only [dropEffect, setPhase]
    intro r' hr'
    by_cases e : r' = r
    · subst e; simp at hr'
    · simp only [e, if_false] at hr'
      by_cases hc : s.phase r = .holding
      · have := hother (by simp [hc, Phase.hasGuardTok]) r' e
        simp [hr', Phase.hasGuardTok] at this
      · simp only [hc]; exact h6 r' hr'
  · simp only [dropEffect, setPhase]; grind

theorem inv_ext {cfg : Cfg} {s s' : State} (h : Inv s) :
    (step cfg s .extAcquire = some s' → Inv s') ∧ (step cfg s .extRelease = some s' → Inv s') := by
  obtain ⟨h1, h2, h3, h4, h5, h6, h7⟩ := h
  constructor
  · intro hs
    simp only [step] at hs
    split at hs
    · cases hs
      constructor
      · exact h1
      · exact h2
      · exact h3
      · exact h4
      · intro hall; have := h5 hall; simp only; omega
      · intro r' hr'; have := h6 r' hr'; simp only; omega
      · exact h7
    · cases hs
  · intro hs
    simp only [step] at hs
    split at hs
    · rename_i hpos
      cases hs
      constructor
      · exact h1
      · exact h2
      · exact h3
      · exact h4
      · intro hall; have := h5 hall; simp only; omega
      · intro r' hr'; have := h6 r' hr'; simp only; omega
      · exact h7
    · cases hs

/-- every action preserves the invariant -/
theorem inv_step {cfg : Cfg} {s s' : State} (a : Action) (h : Inv s)
    (hs : step cfg s a = some s') : Inv s' := by
  cases a with
  | enqueue r p => exact inv_enqueue h hs
  | dispatch p => exact inv_dispatch h hs
  | wake => exact inv_wake h hs
  | recvGuard r => exact inv_recvGuard h hs
  | takeConn r => exact inv_takeConn h hs
  | takePermit r => exact inv_takePermit h hs
  | release r =>
    simp only [step] at hs
    split at hs
    · cases hs; exact inv_dropEffect r h
    · cases hs
  | cancel r =>
    simp only [step] at hs
    split at hs
    · cases hs
    · cases hs; exact inv_dropEffect r h
  | timeout r =>
    simp only [step] at hs
    split at hs
    · cases hs; exact inv_dropEffect r h
    · cases hs
  | extAcquire => exact (inv_ext h).1 hs
  | extRelease => exact (inv_ext h).2 hs

theorem inv_reachable {cfg : Cfg} {s : State} (h : Reachable cfg s) : Inv s := by
  induction h with
  | init => exact inv_init
  | step a _ hs ih => exact inv_step a ih hs

end Corro.WritePool

namespace Corro.WritePool

/-! ### the biased select -/

theorem firstNonEmpty_std (q : Prio → List Nat) (p0 : Prio)
    (h : firstNonEmpty q [.priority, .normal, .low] = some p0) :
    q p0 ≠ [] ∧ (q .priority ≠ [] → p0 = .priority) ∧
    (q .priority = [] → q .normal ≠ [] → p0 = .normal) ∧
    (q .priority = [] → q .normal = [] → p0 = .low) := by
  simp only [firstNonEmpty] at h
  by_cases h1 : q .priority = []
  · by_cases h2 : q .normal = []
    · by_cases h3 : q .low = []
      · simp [h1, h2, h3] at h
      · simp [h1, h2, h3] at h; subst h; simp [h1, h2, h3]
    · simp [h1, h2] at h; subst h; simp [h1, h2]
  · simp [h1] at h; subst h; simp [h1]

theorem firstNonEmpty_std_some (q : Prio → List Nat) (p : Prio) (h : q p ≠ []) :
    ∃ p0, firstNonEmpty q [.priority, .normal, .low] = some p0 := by
  simp only [firstNonEmpty]
  by_cases h1 : q .priority = []
  · by_cases h2 : q .normal = []
    · by_cases h3 : q .low = []
      · cases p <;> simp_all
      · exact ⟨.low, by simp [h1, h2, h3]⟩
    · exact ⟨.normal, by simp [h1, h2]⟩
  · exact ⟨.priority, by simp [h1]⟩

/-- `dispatch p` is enabled whenever the dispatcher is idle and the biased select yields `p` -/
theorem dispatch_enabled {cfg : Cfg} (hb : cfg.biased = true) {s : State} {p : Prio}
    (hd : s.disp = none) (hf : firstNonEmpty s.q cfg.order = some p) (hne : s.q p ≠ []) :
    ∃ s', step cfg s (.dispatch p) = some s' := by
  simp only [step, hd, selectable, hb, hf, Option.isNone_none, if_true, beq_self_eq_true,
    Bool.and_self]
  cases hq : s.q p with
  | nil => exact absurd hq hne
  | cons r rest =>
    simp only
    split
    · exact ⟨_, rfl⟩
    · exact ⟨_, rfl⟩

/-! ### a measure that every system step decreases -/

def phaseRank : Phase → Nat
  | .granted => 5
  | .hasGuard => 4
  | .hasConn => 3
  | .holding => 2
  | _ => 1

def dispRank (s : State) : Nat :=
  match s.disp with
  | none => 0
  | some r => phaseRank (s.phase r)

/-- bounds the number of system steps that can happen before the environment acts again -/
def measure (s : State) : Nat := 7 * totalQueued s + dispRank s + s.ext

theorem totalQueued_pop {s : State} {p : Prio} {r : Nat} {rest : List Nat} (h : s.q p = r :: rest) :
    totalQueued (setQ s p rest) + 1 = totalQueued s := by
  cases p <;> simp [totalQueued, setQ, h] <;> omega


theorem bounds_step {cfg : Cfg} {s s' : State} (a : Action)
    (ih : s.connsOut ≤ cfg.poolSize ∧ s.permitsOut ≤ cfg.permits)
    (hs : step cfg s a = some s') :
    s'.connsOut ≤ cfg.poolSize ∧ s'.permitsOut ≤ cfg.permits := by
  have hdrop : ∀ r, (dropEffect s r).connsOut ≤ cfg.poolSize ∧ (dropEffect s r).permitsOut ≤ cfg.permits := by
    intro r
    simp only [dropEffect, setPhase]
    constructor
    · split <;> omega
    · split <;> omega
  cases a <;> simp only [step] at hs
  case enqueue r p => split at hs <;> cases hs; simpa [setPhase, setQ] using ih
  case dispatch p =>
    split at hs
    · split at hs
      · cases hs
      · split at hs <;> cases hs <;> simpa [setPhase, setQ] using ih
    · cases hs
  case wake =>
    split at hs
    · split at hs <;> cases hs; exact ih
    · cases hs
  case recvGuard r => split at hs <;> cases hs; simpa [setPhase] using ih
  case takeConn r =>
    split at hs <;> cases hs
    rename_i h; simp only [setPhase]; omega
  case takePermit r =>
    split at hs <;> cases hs
    rename_i h; simp only [setPhase]; omega
  case release r => split at hs <;> cases hs; exact hdrop r
  case cancel r => split at hs <;> cases hs; exact hdrop r
  case timeout r => split at hs <;> cases hs; exact hdrop r
  case extAcquire => split at hs <;> cases hs; simp only; omega
  case extRelease => split at hs <;> cases hs; simp only; omega

end Corro.WritePool
