/-
C01, protocol level — the global log of acknowledged transactions (`ClusterSys.Log`, newest first):
well-formedness `LogOK` (every transaction of site `a` carries the next version of `a`; its changes
are attributed to it, satisfy `ChgOK`, and are strictly sorted by seq) and the lookups.
-/
import Corro.Lemmas.ClusterCrdt

namespace Corro.ClusterSys
open Corro.Crdt

/-- one acknowledged transaction: its changes are attributed to `(site, version)`, are changes of
a history without re-insertion, and are strictly sorted by seq -/
def EntryOK (e : (Nat × Nat) × List Chg) : Prop :=
  (∀ c ∈ e.2, c.site = e.1.1 ∧ c.dbv = e.1.2 ∧ ChgOK c) ∧ e.2.Pairwise (fun x y => x.seq < y.seq)

instance (e : (Nat × Nat) × List Chg) : Decidable (EntryOK e) := by unfold EntryOK; exact inferInstance

/-- **well-formed log**: the transactions of every site carry the versions `1, 2, 3, …` in the order
they were acknowledged, and every transaction is `EntryOK` -/
def LogOK : Log → Prop
  | [] => True
  | e :: L => LogOK L ∧ e.1.2 = Log.head L e.1.1 + 1 ∧ EntryOK e

instance : (L : Log) → Decidable (LogOK L)
  | [] => isTrue trivial
  | e :: L =>
    have := instDecidableLogOK L
    by unfold LogOK; exact inferInstance

theorem LogOK.tail {e : (Nat × Nat) × List Chg} {L : Log} (h : LogOK (e :: L)) : LogOK L := h.1

/-! ### lookups on a cons -/

theorem head_cons (e : (Nat × Nat) × List Chg) (L : Log) (a : Nat) :
    Log.head (e :: L) a = if e.1.1 = a then Log.head L a + 1 else Log.head L a := by
  unfold Log.head
  by_cases h : e.1.1 = a
  · rw [List.filter_cons_of_pos (by simpa using h), if_pos h]; rfl
  · rw [List.filter_cons_of_neg (by simpa using h), if_neg h]

theorem head_le_cons (e : (Nat × Nat) × List Chg) (L : Log) (a : Nat) :
    Log.head L a ≤ Log.head (e :: L) a := by
  rw [head_cons]; split <;> omega

theorem get_cons (e : (Nat × Nat) × List Chg) (L : Log) (a v : Nat) :
    Log.get (e :: L) a v = if e.1.1 = a ∧ e.1.2 = v then e.2 else Log.get L a v := by
  unfold Log.get
  by_cases h : e.1.1 = a ∧ e.1.2 = v
  · rw [List.find?_cons_of_pos (by simpa using h), if_pos h]; rfl
  · rw [List.find?_cons_of_neg (by simpa using h), if_neg h]

theorem all_cons (e : (Nat × Nat) × List Chg) (L : Log) : Log.all (e :: L) = e.2 ++ Log.all L := by
  unfold Log.all; rfl

theorem mem_all_cons {e : (Nat × Nat) × List Chg} {L : Log} {c : Chg} (h : c ∈ Log.all L) :
    c ∈ Log.all (e :: L) := by
  rw [all_cons]; exact List.mem_append_right _ h

/-! ### what a well-formed log contains -/

/-- every transaction in the log has a version within its site's head -/
theorem LogOK.ver_le {L : Log} (h : LogOK L) : ∀ e ∈ L, 1 ≤ e.1.2 ∧ e.1.2 ≤ Log.head L e.1.1 := by
  induction L with
  | nil => intro e he; cases he
  | cons f L ih =>
    intro e he
    obtain ⟨h1, h2, _⟩ := h
    rw [head_cons]
    rcases List.mem_cons.mp he with rfl | he
    · rw [if_pos rfl]; omega
    · have := ih h1 e he
      split <;> omega

/-- a version beyond the head has no transaction -/
theorem LogOK.get_beyond {L : Log} (h : LogOK L) {a v : Nat} (hv : Log.head L a < v) :
    Log.get L a v = [] := by
  unfold Log.get
  cases hf : L.find? (fun e => e.1.1 = a ∧ e.1.2 = v) with
  | none => rfl
  | some e =>
    exfalso
    have hm := List.mem_of_find?_eq_some hf
    have hp := List.find?_some hf
    simp only [decide_eq_true_eq] at hp
    have := (h.ver_le e hm).2
    rw [hp.1, hp.2] at this
    omega

/-- the newest transaction does not change the lookup of older versions -/
theorem LogOK.get_cons_old {e : (Nat × Nat) × List Chg} {L : Log} (h : LogOK (e :: L)) {a v : Nat}
    (hv : v ≤ Log.head L a) : Log.get (e :: L) a v = Log.get L a v := by
  rw [get_cons, if_neg]
  rintro ⟨h1, h2⟩
  have := h.2.1
  rw [h1, h2] at this
  omega

theorem LogOK.get_cons_new {e : (Nat × Nat) × List Chg} {L : Log} (_h : LogOK (e :: L)) :
    Log.get (e :: L) e.1.1 e.1.2 = e.2 := by
  rw [get_cons, if_pos ⟨rfl, rfl⟩]

theorem LogOK.get_cons_other {e : (Nat × Nat) × List Chg} {L : Log} {a v : Nat}
    (hne : ¬ (e.1.1 = a ∧ e.1.2 = v)) : Log.get (e :: L) a v = Log.get L a v := by
  rw [get_cons, if_neg hne]

/-- the changes of a version are changes of the log, attributed to the version, well formed -/
theorem LogOK.mem_get {L : Log} (h : LogOK L) {a v : Nat} {c : Chg} (hc : c ∈ Log.get L a v) :
    c ∈ Log.all L ∧ c.site = a ∧ c.dbv = v ∧ ChgOK c := by
  induction L with
  | nil => cases hc
  | cons e L ih =>
    rw [get_cons] at hc
    split at hc
    · rename_i hk
      have := h.2.2.1 c hc
      exact ⟨by rw [all_cons]; exact List.mem_append_left _ hc, this.1.trans hk.1, this.2.1.trans hk.2,
        this.2.2⟩
    · have := ih h.1 hc
      exact ⟨mem_all_cons this.1, this.2⟩

/-- every change of the log is found under its own `(site, version)` -/
theorem LogOK.get_of_mem_all {L : Log} (h : LogOK L) {c : Chg} (hc : c ∈ Log.all L) :
    c ∈ Log.get L c.site c.dbv := by
  induction L with
  | nil => cases hc
  | cons e L ih =>
    rw [all_cons] at hc
    rcases List.mem_append.mp hc with hc | hc
    · have := h.2.2.1 c hc
      rw [get_cons, if_pos ⟨this.1.symm, this.2.1.symm⟩]
      exact hc
    · have hin := ih h.1 hc
      rw [get_cons, if_neg]
      · exact hin
      · rintro ⟨h1, h2⟩
        have hb : Log.get L c.site c.dbv = [] := by
          apply h.1.get_beyond
          have := h.2.1
          rw [h1, h2] at this
          omega
        rw [hb] at hin
        cases hin

theorem LogOK.chgOK {L : Log} (h : LogOK L) {c : Chg} (hc : c ∈ Log.all L) : ChgOK c :=
  (h.mem_get (h.get_of_mem_all hc)).2.2.2

/-- the change list of a version is strictly sorted by seq -/
theorem LogOK.get_sorted {L : Log} (h : LogOK L) (a v : Nat) :
    (Log.get L a v).Pairwise (fun x y => x.seq < y.seq) := by
  induction L with
  | nil => exact List.Pairwise.nil
  | cons e L ih =>
    rw [get_cons]
    split
    · exact h.2.2.2
    · exact ih h.1

theorem pairwise_lt_inj {l : List Chg} (h : l.Pairwise (fun x y => x.seq < y.seq)) {x y : Chg}
    (hx : x ∈ l) (hy : y ∈ l) (hs : x.seq = y.seq) : x = y := by
  induction l with
  | nil => cases hx
  | cons a l ih =>
    rw [List.pairwise_cons] at h
    rcases List.mem_cons.mp hx with hxa | hx <;> rcases List.mem_cons.mp hy with hya | hy
    · rw [hxa, hya]
    · have := h.1 y hy; rw [← hxa] at this; omega
    · have := h.1 x hx; rw [← hya] at this; omega
    · exact ih h.2 hx hy

/-- **the attribution `(site, db_version, seq)` identifies a change of the log** -/
theorem LogOK.attr_unique {L : Log} (h : LogOK L) {c d : Chg} (hc : c ∈ Log.all L) (hd : d ∈ Log.all L)
    (h1 : c.site = d.site) (h2 : c.dbv = d.dbv) (h3 : c.seq = d.seq) : c = d := by
  have hc' := h.get_of_mem_all hc
  have hd' := h.get_of_mem_all hd
  rw [h1, h2] at hc'
  exact pairwise_lt_inj (h.get_sorted d.site d.dbv) hc' hd' h3

theorem LogOK.has_iff {L : Log} (h : LogOK L) (a v : Nat) :
    Log.has L a v = true ↔ 1 ≤ v ∧ v ≤ Log.head L a := by
  induction L with
  | nil => simp [Log.has, Log.head]; omega
  | cons e L ih =>
    have := ih h.1
    have hv := h.2.1
    unfold Log.has at this ⊢
    rw [List.any_cons, Bool.or_eq_true, this, head_cons]
    simp only [decide_eq_true_eq]
    constructor
    · rintro (⟨h1, h2⟩ | h1)
      · rw [if_pos h1]; rw [h1] at hv; omega
      · split <;> omega
    · intro h1
      by_cases he : e.1.1 = a
      · rw [if_pos he] at h1
        rw [he] at hv
        by_cases hv2 : v = Log.head L a + 1
        · left; exact ⟨he, by omega⟩
        · right; omega
      · rw [if_neg he] at h1
        right; exact h1

end Corro.ClusterSys
