/-
C06 helper lemmas, part 1: actor discovery (`knownActors`), the structure of `Node.restart`
(reload of the bookkeeping, then one `applyBuffered` per fully buffered version), what
`applyBuffered` does, and what `from_conn` rebuilds from the sequence rows.
-/
import Corro.Lemmas.NodeDeliver
namespace Corro.Node
open Corro.Crdt

/-! ### sorted de-duplication (`knownActors`, `sitesOf`) -/
def dedupSorted (all : List Nat) : List Nat :=
  all.foldl (fun acc a => if acc.contains a then acc else insertSortedBy (fun (x : Nat) => x) a acc) []

def actorSources (n : Node) : List Nat :=
  n.dbv.map (·.1) ++ n.seqRows.map (·.site) ++ (n.book.filter (fun e => !e.2.needed.isEmpty)).map (·.1)

theorem knownActors_eq (n : Node) : n.knownActors = dedupSorted (actorSources n) := rfl
theorem sitesOf_eq (batch : List Item) : sitesOf batch = dedupSorted (batch.map (·.site)) := by
  unfold sitesOf dedupSorted
  rw [List.foldl_map]

def restartBook (n : Node) : List (Nat × Booked) := n.knownActors.map (fun a => (a, n.fromConn a))

def restartTasks (n : Node) : List (Nat × Nat) :=
  (restartBook n).flatMap (fun e => (e.2.partials.filter (fun vp => vp.2.complete)).map (fun vp => (e.1, vp.1)))

theorem restart_eq (n : Node) :
    n.restart = applyAll { n with book := restartBook n, alive := true } (restartTasks n) := by
  unfold Node.restart restartTasks applyAll
  simp only
  rw [List.foldl_flatMap]
  congr 1
  funext m e
  rw [List.foldl_map, List.foldl_filter]

theorem mem_dedupSorted {all : List Nat} {a : Nat} : a ∈ dedupSorted all ↔ a ∈ all := by
  unfold dedupSorted
  suffices hs : ∀ (l acc : List Nat), a ∈ l.foldl (fun acc a =>
      if acc.contains a then acc else insertSortedBy (fun (x : Nat) => x) a acc) acc ↔ a ∈ acc ∨ a ∈ l by
    simpa using hs all []
  intro l
  induction l with
  | nil => intro acc; simp
  | cons b l ih =>
    intro acc
    simp only [List.foldl_cons]
    rw [ih]
    split
    · rename_i hc
      have hb : b ∈ acc := by simpa using hc
      simp only [List.mem_cons]
      constructor
      · rintro (h | h)
        · exact Or.inl h
        · exact Or.inr (Or.inr h)
      · rintro (h | rfl | h)
        · exact Or.inl h
        · exact Or.inl hb
        · exact Or.inr h
    · simp only [mem_insertSortedBy, List.mem_cons]
      constructor
      · rintro ((rfl | h) | h)
        · exact Or.inr (Or.inl rfl)
        · exact Or.inl h
        · exact Or.inr (Or.inr h)
      · rintro (h | rfl | h)
        · exact Or.inl (Or.inr h)
        · exact Or.inl (Or.inl rfl)
        · exact Or.inr h

theorem dedupSorted_sorted (all : List Nat) : (dedupSorted all).Pairwise (fun x y => x < y) := by
  unfold dedupSorted
  apply foldl_inv (fun (acc : List Nat) => acc.Pairwise (fun x y => x < y))
  · exact List.Pairwise.nil
  · intro acc a _ hacc
    split
    · exact hacc
    · rename_i hc
      have hb : a ∉ acc := by simpa using hc
      exact insertSortedBy_strict (fun (x : Nat) => x) a hacc (fun x hx h => hb (by rw [← h]; exact hx))

theorem mem_knownActors {n : Node} {a : Nat} :
    a ∈ n.knownActors ↔
      (∃ e ∈ n.dbv, e.1 = a) ∨ (∃ r ∈ n.seqRows, r.site = a) ∨
        (∃ e ∈ n.book, e.1 = a ∧ e.2.needed.isEmpty = false) := by
  rw [knownActors_eq, mem_dedupSorted]
  unfold actorSources
  simp only [List.mem_append, List.mem_map, List.mem_filter, or_assoc]
  constructor
  · rintro (⟨e, he, rfl⟩ | ⟨r, hr, rfl⟩ | ⟨e, ⟨he, hn⟩, rfl⟩)
    · exact Or.inl ⟨e, he, rfl⟩
    · exact Or.inr (Or.inl ⟨r, hr, rfl⟩)
    · exact Or.inr (Or.inr ⟨e, he, rfl, by simpa using hn⟩)
  · rintro (⟨e, he, rfl⟩ | ⟨r, hr, rfl⟩ | ⟨e, he, rfl, hn⟩)
    · exact Or.inl ⟨e, he, rfl⟩
    · exact Or.inr (Or.inl ⟨r, hr, rfl⟩)
    · exact Or.inr (Or.inr ⟨e, ⟨he, by simpa using hn⟩, rfl⟩)

theorem knownActors_sorted (n : Node) : n.knownActors.Pairwise (fun x y => x < y) :=
  dedupSorted_sorted _

/-! ### what `applyBuffered` does -/

/-- buffered rows of `(a, v)` -/
def bufOf (buf : List Chg) (a v : Nat) : List Chg := buf.filter (fun c => c.site = a ∧ c.dbv = v)

theorem clearMeta_buf_single (n : Node) (a v : Nat) :
    (n.clearMeta a v v).buf = n.buf.filter (fun c => !decide (c.site = a ∧ c.dbv = v)) := by
  unfold Node.clearMeta
  simp only
  apply List.filter_congr
  intro c _
  by_cases h1 : c.site = a <;> by_cases h2 : c.dbv = v <;> simp [h1, h2] <;> omega

theorem clearMeta_seqRows_single (n : Node) (a v : Nat) :
    (n.clearMeta a v v).seqRows = n.seqRows.filter (fun r => !decide (r.site = a ∧ r.ver = v)) := by
  unfold Node.clearMeta
  simp only
  apply List.filter_congr
  intro c _
  by_cases h1 : c.site = a <;> by_cases h2 : c.ver = v <;> simp [h1, h2] <;> omega

theorem applyBuffered_skip (m : Node) (a v : Nat)
    (h : ∀ p, (m.booked a).partial? v = some p → p.complete = false) : m.applyBuffered a v = m := by
  unfold Node.applyBuffered
  simp only
  cases hp : (m.booked a).partial? v with
  | none => rfl
  | some p => simp [h p hp]

/-- the node right before the clear job inside `applyBuffered` -/
def applyCore (m : Node) (a v : Nat) : Node :=
  let rows := sortBySeq (bufOf m.buf a v)
  (if rows.isEmpty then m.bumpDbv a v else m.mergeChanges rows).setBooked a ((m.booked a).insertDb [(v, v)])

theorem applyBuffered_complete (m : Node) (a v : Nat) (p : Partial)
    (hp : (m.booked a).partial? v = some p) (hc : p.complete = true) :
    m.applyBuffered a v = (applyCore m a v).clearMeta a v v := by
  unfold Node.applyBuffered applyCore
  simp only [hp, hc]
  rfl

theorem applyCore_db (m : Node) (a v : Nat) :
    (applyCore m a v).db = mergeAll m.db (sortBySeq (bufOf m.buf a v)) := by
  unfold applyCore
  simp only [setBooked_db]
  split
  · rename_i he
    rw [bumpDbv_db]
    have : sortBySeq (bufOf m.buf a v) = [] := List.isEmpty_iff.mp he
    rw [this]; rfl
  · exact mergeChanges_db _ _

theorem applyCore_buf (m : Node) (a v : Nat) : (applyCore m a v).buf = m.buf := by
  unfold applyCore
  simp only [setBooked_buf]
  split
  · exact bumpDbv_buf _ _ _
  · exact mergeChanges_buf _ _

theorem applyCore_seqRows (m : Node) (a v : Nat) : (applyCore m a v).seqRows = m.seqRows := by
  unfold applyCore
  simp only [setBooked_seqRows]
  split
  · exact bumpDbv_seqRows _ _ _
  · exact mergeChanges_seqRows _ _

theorem applyCore_alive (m : Node) (a v : Nat) : (applyCore m a v).alive = m.alive := by
  unfold applyCore
  simp only [setBooked_alive]
  split
  · exact bumpDbv_alive _ _ _
  · exact mergeChanges_alive _ _

theorem applyCore_booked_same (m : Node) (a v : Nat) :
    (applyCore m a v).booked a = (m.booked a).insertDb [(v, v)] := by
  unfold applyCore; exact booked_setBooked_same _ _ _

theorem applyCore_booked_other (m : Node) (a v a' : Nat) (h : a' ≠ a) :
    (applyCore m a v).booked a' = m.booked a' := by
  unfold applyCore
  simp only
  rw [booked_setBooked_other _ _ _ _ h]
  split
  · exact booked_bumpDbv _ _ _ _
  · exact booked_mergeChanges _ _ _

/-- one re-scheduled apply, on the store and the buffer -/
def applyTask (s : Db × List Chg) (t : Nat × Nat) : Db × List Chg :=
  (mergeAll s.1 (sortBySeq (bufOf s.2 t.1 t.2)), s.2.filter (fun c => !decide (c.site = t.1 ∧ c.dbv = t.2)))

/-- the effect of a list of applies of versions that all have a complete partial -/
theorem applyAll_tasks (m : Node) (T : List (Nat × Nat))
    (h : ∀ t ∈ T, ∃ p, (m.booked t.1).partial? t.2 = some p ∧ p.complete = true) :
    ((applyAll m T).db, (applyAll m T).buf) = T.foldl applyTask (m.db, m.buf) ∧
    (applyAll m T).seqRows =
      T.foldl (fun rows t => rows.filter (fun r => !decide (r.site = t.1 ∧ r.ver = t.2))) m.seqRows ∧
    (applyAll m T).alive = m.alive := by
  induction T generalizing m with
  | nil => exact ⟨rfl, rfl, rfl⟩
  | cons t T ih =>
    obtain ⟨p, hp, hc⟩ := h t (by simp)
    have hstep := applyBuffered_complete m t.1 t.2 p hp hc
    have h' : ∀ t' ∈ T, ∃ p, ((m.applyBuffered t.1 t.2).booked t'.1).partial? t'.2 = some p ∧
        p.complete = true := by
      intro t' ht'
      rw [partial?_applyBuffered]
      exact h t' (by simp [ht'])
    obtain ⟨i1, i2, i3⟩ := ih (m.applyBuffered t.1 t.2) h'
    show ((applyAll (m.applyBuffered t.1 t.2) T).db, (applyAll (m.applyBuffered t.1 t.2) T).buf) = _ ∧
      (applyAll (m.applyBuffered t.1 t.2) T).seqRows = _ ∧ (applyAll (m.applyBuffered t.1 t.2) T).alive = _
    rw [i1, i2, i3, hstep]
    simp only [List.foldl_cons, clearMeta_db, clearMeta_alive, applyCore_db, applyCore_alive,
      clearMeta_buf_single, clearMeta_seqRows_single, applyCore_buf, applyCore_seqRows, applyTask,
      and_self]

theorem mem_foldl_filter_rows {r : SeqRow} (T : List (Nat × Nat)) (rows : List SeqRow) :
    r ∈ T.foldl (fun rows t => rows.filter (fun r => !decide (r.site = t.1 ∧ r.ver = t.2))) rows ↔
      r ∈ rows ∧ ∀ t ∈ T, ¬ (r.site = t.1 ∧ r.ver = t.2) := by
  induction T generalizing rows with
  | nil => simp
  | cons t T ih =>
    simp only [List.foldl_cons, ih, List.mem_filter, List.mem_cons, forall_eq_or_imp,
      Bool.not_eq_true', decide_eq_false_iff_not]
    exact ⟨fun h => ⟨h.1.1, h.1.2, h.2⟩, fun h => ⟨⟨h.1, h.2.1⟩, h.2.2⟩⟩

theorem applyTask_foldl_buf {c : Chg} (T : List (Nat × Nat)) (s : Db × List Chg) :
    c ∈ (T.foldl applyTask s).2 ↔ c ∈ s.2 ∧ ∀ t ∈ T, ¬ (c.site = t.1 ∧ c.dbv = t.2) := by
  induction T generalizing s with
  | nil => simp
  | cons t T ih =>
    simp only [List.foldl_cons, ih, applyTask, List.mem_filter, List.mem_cons, forall_eq_or_imp,
      Bool.not_eq_true', decide_eq_false_iff_not]
    exact ⟨fun h => ⟨h.1.1, h.1.2, h.2⟩, fun h => ⟨⟨h.1, h.2.1⟩, h.2.2⟩⟩

/-! ### keys of the partials map stay strictly sorted -/

def Booked.KeysSorted (b : Booked) : Prop := b.partials.Pairwise (fun x y => x.1 < y.1)

theorem insertPartial_keysSorted {b : Booked} (h : b.KeysSorted) (v : Nat) (p : Partial) :
    (b.insertPartial v p).1.KeysSorted := by
  unfold Booked.insertPartial
  cases hv : b.partial? v with
  | none =>
    simp only
    refine insertSortedBy_strict (fun (e : Nat × Partial) => e.1) (v, p) h ?_
    intro x hx
    exact alook_eq_none.mp hv x hx
  | some old =>
    simp only
    unfold Booked.KeysSorted
    simp only
    rw [List.pairwise_map]
    refine List.Pairwise.imp ?_ h
    intro x y hxy
    by_cases h1 : x.1 = v <;> by_cases h2 : y.1 = v <;> simp [h1, h2] <;> omega

theorem dropPartials_keysSorted {b : Booked} (h : b.KeysSorted) (lo hi : Nat) :
    (b.dropPartials lo hi).KeysSorted :=
  List.Pairwise.sublist List.filter_sublist h

theorem insertDb_keysSorted {b : Booked} (h : b.KeysSorted) (vs : List (Nat × Nat)) :
    (b.insertDb vs).KeysSorted := by
  unfold Booked.KeysSorted; rw [insertDb_partials]; exact h

/-- with sorted (hence unique) keys, every stored entry is the one the lookup finds -/
theorem alook_of_mem_sorted {β : Type} {l : List (Nat × β)} (h : l.Pairwise (fun x y => x.1 < y.1))
    {v : Nat} {p : β} (hm : (v, p) ∈ l) : alook l v = some p := by
  induction l with
  | nil => cases hm
  | cons e l ih =>
    have h' := List.pairwise_cons.mp h
    rw [alook_cons]
    rcases List.mem_cons.mp hm with rfl | hm
    · simp
    · have := h'.1 (v, p) hm
      simp only at this
      rw [if_neg (by omega)]
      exact ih h'.2 hm

theorem partial?_of_mem {b : Booked} (h : b.KeysSorted) {v : Nat} {p : Partial}
    (hm : (v, p) ∈ b.partials) : b.partial? v = some p := alook_of_mem_sorted h hm

/-! ### what `from_conn` rebuilds from the sequence rows -/

def rowPartial (r : SeqRow) : Partial := ⟨[(r.lo, r.hi)], r.last⟩

def loadRows (b : Booked) (rs : List SeqRow) : Booked :=
  rs.foldl (fun b r => (b.insertPartial r.ver (rowPartial r)).1) b

/-- the sequence rows of actor `a` in primary-key order -/
def actorRows (n : Node) (a : Nat) : List SeqRow :=
  (n.seqRows.filter (·.site = a)).foldl
    (fun acc r => insertSortedBy (fun (x : SeqRow) => x.ver * 1000000 + x.lo) r acc) []

def dbvOf (n : Node) (a : Nat) : Nat := ((n.dbv.find? (·.1 = a)).map (·.2)).getD 0

theorem fromConn_eq (n : Node) (a : Nat) :
    n.fromConn a = { loadRows { max := dbvOf n a } (actorRows n a) with needed := (n.booked a).needed } := rfl

theorem mem_actorRows {n : Node} {a : Nat} {r : SeqRow} : r ∈ actorRows n a ↔ r ∈ n.seqRows ∧ r.site = a := by
  unfold actorRows
  rw [mem_foldl_insertSortedBy, List.mem_filter]
  simp

/-- invariant of loading rows `done` into an initially partial-free bookkeeping with head `m0` -/
structure LoadInv (m0 : Nat) (done : List SeqRow) (b : Booked) : Prop where
  pwf : b.PWF
  keys : b.KeysSorted
  some_iff : ∀ v, (b.partial? v).isSome = true ↔ ∃ r ∈ done, r.ver = v
  mem : ∀ v p, b.partial? v = some p →
    ∀ x, RSet.Mem p.seqs x ↔ ∃ r ∈ done, r.ver = v ∧ r.lo ≤ x ∧ x ≤ r.hi
  last : ∀ v p, b.partial? v = some p → ∃ r ∈ done, r.ver = v ∧ p.last = r.last
  max_ge : m0 ≤ b.max ∧ ∀ r ∈ done, r.ver ≤ b.max
  max_att : b.max = m0 ∨ ∃ r ∈ done, b.max = r.ver
  needed : b.needed = []

theorem rowPartial_wf {r : SeqRow} (h : r.lo ≤ r.hi) : RSet.WF (rowPartial r).seqs := by
  exact ⟨Nat.zero_le _, h, trivial⟩

theorem loadInv_step {m0 : Nat} {done : List SeqRow} {b : Booked} (hi : LoadInv m0 done b) (r : SeqRow)
    (hr : r.lo ≤ r.hi) : LoadInv m0 (done ++ [r]) (b.insertPartial r.ver (rowPartial r)).1 := by
  have hwf := rowPartial_wf hr
  have hsame := partial?_insertPartial_same b r.ver (rowPartial r)
  have hother := partial?_insertPartial_other b r.ver (rowPartial r)
  refine ⟨insertPartial_pwf hi.pwf r.ver hwf, insertPartial_keysSorted hi.keys r.ver _, ?_, ?_, ?_, ?_, ?_, ?_⟩
  · intro v
    by_cases hv : v = r.ver
    · subst hv; rw [hsame]; simp
    · rw [hother v hv, hi.some_iff v]
      simp only [List.mem_append, List.mem_singleton]
      constructor
      · rintro ⟨r', h1, h2⟩; exact ⟨r', Or.inl h1, h2⟩
      · rintro ⟨r', h1 | h1, h2⟩
        · exact ⟨r', h1, h2⟩
        · subst h1; exact absurd h2.symm hv
  · intro v p hp x
    by_cases hv : v = r.ver
    · subst hv
      rw [hsame] at hp
      simp only [Option.some.injEq] at hp
      subst hp
      rw [mem_mergedPartial r.ver hwf]
      simp only [List.mem_append, List.mem_singleton, rowPartial, RSet.mem_singleton]
      constructor
      · rintro (⟨old, ho, hm⟩ | hm)
        · obtain ⟨r', h1, h2⟩ := (hi.mem r.ver old ho x).mp hm
          exact ⟨r', Or.inl h1, h2⟩
        · exact ⟨r, Or.inr rfl, rfl, hm⟩
      · rintro ⟨r', h1 | h1, h2, h3⟩
        · left
          have : (b.partial? r.ver).isSome = true := (hi.some_iff r.ver).mpr ⟨r', h1, h2⟩
          cases ho : b.partial? r.ver with
          | none => rw [ho] at this; cases this
          | some old => exact ⟨old, rfl, (hi.mem r.ver old ho x).mpr ⟨r', h1, h2, h3⟩⟩
        · subst h1; exact Or.inr h3
    · rw [hother v hv] at hp
      rw [hi.mem v p hp x]
      simp only [List.mem_append, List.mem_singleton]
      constructor
      · rintro ⟨r', h1, h2⟩; exact ⟨r', Or.inl h1, h2⟩
      · rintro ⟨r', h1 | h1, h2⟩
        · exact ⟨r', h1, h2⟩
        · subst h1; exact absurd h2.1.symm hv
  · intro v p hp
    by_cases hv : v = r.ver
    · subst hv
      rw [hsame] at hp
      simp only [Option.some.injEq] at hp
      subst hp
      rw [mergedPartial_last]
      cases ho : b.partial? r.ver with
      | none => exact ⟨r, by simp, rfl, rfl⟩
      | some old =>
        obtain ⟨r', h1, h2, h3⟩ := hi.last r.ver old ho
        exact ⟨r', by simp [h1], h2, h3⟩
    · rw [hother v hv] at hp
      obtain ⟨r', h1, h2, h3⟩ := hi.last v p hp
      exact ⟨r', by simp [h1], h2, h3⟩
  · rw [insertPartial_max]
    have hmax : ∀ a b : Nat, Nat.max a b = max a b := fun _ _ => rfl
    constructor
    · split
      · exact hi.max_ge.1
      · rw [hmax]; have := hi.max_ge.1; omega
    · intro r' hr'
      rcases List.mem_append.mp hr' with h1 | h1
      · have := hi.max_ge.2 r' h1
        split
        · exact this
        · rw [hmax]; omega
      · simp only [List.mem_singleton] at h1
        subst h1
        split
        · rename_i hs
          obtain ⟨r'', h2, h3⟩ := (hi.some_iff r'.ver).mp hs
          rw [← h3]; exact hi.max_ge.2 r'' h2
        · rw [hmax]; omega
  · rw [insertPartial_max]
    have hmax : ∀ a b : Nat, Nat.max a b = max a b := fun _ _ => rfl
    split
    · rcases hi.max_att with h | ⟨r', h1, h2⟩
      · exact Or.inl h
      · exact Or.inr ⟨r', by simp [h1], h2⟩
    · rw [hmax]
      by_cases hle : r.ver ≤ b.max
      · rw [Nat.max_eq_left hle]
        rcases hi.max_att with h | ⟨r', h1, h2⟩
        · exact Or.inl h
        · exact Or.inr ⟨r', by simp [h1], h2⟩
      · rw [Nat.max_eq_right (by omega)]
        exact Or.inr ⟨r, by simp, rfl⟩
  · rw [insertPartial_needed]; exact hi.needed

theorem loadInv_init (m0 : Nat) : LoadInv m0 [] { max := m0 } := by
  refine ⟨(fun e he => by cases he), List.Pairwise.nil, ?_, ?_, ?_,
    ⟨Nat.le_refl _, (fun r hr => by cases hr)⟩, Or.inl rfl, rfl⟩
  · intro v; simp [Booked.partial?]
  · intro v p hp; simp [Booked.partial?] at hp
  · intro v p hp; simp [Booked.partial?] at hp

theorem loadRows_inv (m0 : Nat) (rs : List SeqRow) (hf : ∀ r ∈ rs, r.lo ≤ r.hi) :
    LoadInv m0 rs (loadRows { max := m0 } rs) := by
  suffices hs : ∀ (rs done : List SeqRow) (b : Booked), (∀ r ∈ rs, r.lo ≤ r.hi) → LoadInv m0 done b →
      LoadInv m0 (done ++ rs) (loadRows b rs) by
    simpa using hs rs [] _ hf (loadInv_init m0)
  intro rs
  induction rs with
  | nil => intro done b _ h; simpa [loadRows] using h
  | cons r rs ih =>
    intro done b hf h
    have := ih (done ++ [r]) _ (fun r' hr' => hf r' (by simp [hr'])) (loadInv_step h r (hf r (by simp)))
    simpa [loadRows] using this

theorem loadRows_keysSorted (b : Booked) (hb : b.KeysSorted) (rs : List SeqRow) :
    (loadRows b rs).KeysSorted := by
  induction rs generalizing b with
  | nil => exact hb
  | cons r rs ih => exact ih _ (insertPartial_keysSorted hb r.ver _)

theorem partial?_fromConn (n : Node) (a v : Nat) :
    (n.fromConn a).partial? v = (loadRows { max := dbvOf n a } (actorRows n a)).partial? v := rfl

theorem fromConn_keysSorted (n : Node) (a : Nat) : (n.fromConn a).KeysSorted :=
  loadRows_keysSorted { max := dbvOf n a } (by unfold Booked.KeysSorted; exact List.Pairwise.nil) (actorRows n a)

theorem fromConn_max (n : Node) (a : Nat) :
    (n.fromConn a).max = (loadRows { max := dbvOf n a } (actorRows n a)).max := rfl

theorem fromConn_needed (n : Node) (a : Nat) : (n.fromConn a).needed = (n.booked a).needed := rfl

/-- the sequence rows of actor `a` are forward -/
def Node.ActorRowsForward (n : Node) (a : Nat) : Prop := ∀ r ∈ n.seqRows, r.site = a → r.lo ≤ r.hi

theorem fromConn_inv (n : Node) (a : Nat) (hf : n.ActorRowsForward a) :
    LoadInv (dbvOf n a) (actorRows n a) (loadRows { max := dbvOf n a } (actorRows n a)) :=
  loadRows_inv _ _ (fun r hr => by have := mem_actorRows.mp hr; exact hf r this.1 this.2)

/-- `from_conn` has a partial for `v` exactly when `(a, v)` has sequence rows -/
theorem fromConn_partial_isSome (n : Node) (a v : Nat) (hf : n.ActorRowsForward a) :
    ((n.fromConn a).partial? v).isSome = true ↔ ∃ r ∈ n.seqRows, r.site = a ∧ r.ver = v := by
  rw [partial?_fromConn, (fromConn_inv n a hf).some_iff v]
  constructor
  · rintro ⟨r, hr, hv⟩; have := mem_actorRows.mp hr; exact ⟨r, this.1, this.2, hv⟩
  · rintro ⟨r, hr, hs, hv⟩; exact ⟨r, mem_actorRows.mpr ⟨hr, hs⟩, hv⟩

/-- … its seq ranges are canonical and cover exactly the points of those rows, and its `last_seq`
is the one of one of the rows -/
theorem fromConn_partial_spec (n : Node) (a v : Nat) (hf : n.ActorRowsForward a) {p : Partial}
    (hp : (n.fromConn a).partial? v = some p) :
    RSet.WF p.seqs ∧ (∀ x, RSet.Mem p.seqs x ↔ SeqMem n.seqRows a v x) ∧
      ∃ r ∈ n.seqRows, r.site = a ∧ r.ver = v ∧ p.last = r.last := by
  have hi := fromConn_inv n a hf
  rw [partial?_fromConn] at hp
  refine ⟨hi.pwf.of_partial? hp, ?_, ?_⟩
  · intro x
    rw [hi.mem v p hp x]
    unfold SeqMem
    constructor
    · rintro ⟨r, hr, h1, h2⟩; have := mem_actorRows.mp hr; exact ⟨r, this.1, this.2, h1, h2⟩
    · rintro ⟨r, hr, hs, h1, h2⟩; exact ⟨r, mem_actorRows.mpr ⟨hr, hs⟩, h1, h2⟩
  · obtain ⟨r, hr, h1, h2⟩ := hi.last v p hp
    have := mem_actorRows.mp hr
    exact ⟨r, this.1, this.2, h1, h2⟩

/-- rows that cover `0..=last` give a complete partial after reload -/
theorem fromConn_complete_of_covered (n : Node) (a v L : Nat) (hf : n.ActorRowsForward a)
    (hex : ∃ r ∈ n.seqRows, r.site = a ∧ r.ver = v)
    (hlast : ∀ r ∈ n.seqRows, r.site = a → r.ver = v → r.last = L)
    (hcov : ∀ x, x ≤ L → SeqMem n.seqRows a v x) :
    ∃ p, (n.fromConn a).partial? v = some p ∧ p.complete = true := by
  have hs := (fromConn_partial_isSome n a v hf).mpr hex
  cases hp : (n.fromConn a).partial? v with
  | none => rw [hp] at hs; cases hs
  | some p =>
    obtain ⟨hw, hm, r, hr, h1, h2, h3⟩ := fromConn_partial_spec n a v hf hp
    refine ⟨p, rfl, (complete_iff hw).mpr ?_⟩
    intro x hx
    rw [hm]
    exact hcov x (by rw [h3, hlast r hr h1 h2] at hx; exact hx)

/-! ### the reloaded bookkeeping -/

theorem alook_map_key {β : Type} (l : List Nat) (f : Nat → β) (a : Nat) :
    alook (l.map (fun a => (a, f a))) a = if a ∈ l then some (f a) else none := by
  induction l with
  | nil => rfl
  | cons b l ih =>
    rw [List.map_cons, alook_cons, ih]
    by_cases h : b = a
    · subst h; simp
    · have : a ≠ b := fun h' => h h'.symm
      simp [h, this]

/-- the node right after the reload, before the re-scheduled applies -/
def reloaded (n : Node) : Node := { n with book := restartBook n, alive := true }

theorem reloaded_booked (n : Node) (a : Nat) :
    (reloaded n).booked a = if a ∈ n.knownActors then n.fromConn a else {} := by
  rw [booked_eq]
  show (alook (restartBook n) a).getD {} = _
  unfold restartBook
  rw [alook_map_key]
  split <;> rfl

theorem mem_restartTasks {n : Node} {t : Nat × Nat} :
    t ∈ restartTasks n ↔
      t.1 ∈ n.knownActors ∧ ∃ p, (n.fromConn t.1).partial? t.2 = some p ∧ p.complete = true := by
  unfold restartTasks restartBook
  simp only [List.mem_flatMap, List.mem_map, List.mem_filter]
  constructor
  · rintro ⟨e, ⟨a, ha, rfl⟩, vp, ⟨hvp, hc⟩, rfl⟩
    exact ⟨ha, vp.2, partial?_of_mem (fromConn_keysSorted n a) hvp, hc⟩
  · rintro ⟨ha, p, hp, hc⟩
    exact ⟨(t.1, n.fromConn t.1), ⟨t.1, ha, rfl⟩, (t.2, p), ⟨alook_some_mem hp, hc⟩, rfl⟩

theorem restart_eq' (n : Node) : n.restart = applyAll (reloaded n) (restartTasks n) := restart_eq n

theorem restartTasks_complete (n : Node) :
    ∀ t ∈ restartTasks n, ∃ p, ((reloaded n).booked t.1).partial? t.2 = some p ∧ p.complete = true := by
  intro t ht
  obtain ⟨ha, p, hp, hc⟩ := mem_restartTasks.mp ht
  rw [reloaded_booked, if_pos ha]
  exact ⟨p, hp, hc⟩

/-- the durable effect of a restart -/
theorem restart_effect (n : Node) :
    ((n.restart).db, (n.restart).buf) = (restartTasks n).foldl applyTask (n.db, n.buf) ∧
    (n.restart).seqRows =
      (restartTasks n).foldl (fun rows t => rows.filter (fun r => !decide (r.site = t.1 ∧ r.ver = t.2)))
        n.seqRows ∧
    (n.restart).alive = true := by
  rw [restart_eq']
  exact applyAll_tasks (reloaded n) (restartTasks n) (restartTasks_complete n)

end Corro.Node
