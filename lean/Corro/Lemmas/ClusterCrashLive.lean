/-
C01 with crashes — progress on an ALIVE node with nothing pending (`CInv NoneP`, `alive = true`: any
node that has not been killed since its last restart): what one delivery does to `Held` and to the
partial of a version, and what a sequence of deliveries achieves.  (Port of the first half of
`ClusterLive.lean` to the crash-tolerant invariant.)
-/
import Corro.Lemmas.ClusterCrashStep

namespace Corro.ClusterSys.Crash
open Corro.Crdt Corro.Node Corro.ClusterSys

/-- an alive node satisfies the node invariant iff it satisfies it with nothing pending -/
theorem kinv_alive {L : Log} {n : Node} {R : List Chg} (h : KInv L n R) (hal : n.alive = true) :
    CInv NoneP L n R :=
  h.mono (fun _ _ h' => by rw [hal] at h'; cases h')

theorem CInv.toK {L : Log} {n : Node} {R : List Chg} (h : CInv NoneP L n R) : KInv L n R :=
  h.mono (fun _ _ h' => absurd h' id)

/-- one delivery to an alive node with nothing pending leaves nothing pending -/
theorem ainv_deliver {L : Log} {n : Node} {R : List Chg} {it : Item} (hN : NInv L n R)
    (hI : CInv NoneP L n R) (hal : n.alive = true) (hL : LogOK L) (hck : ChunkOK L it) :
    CInv NoneP L (n.deliver [it]) (mergedBy n it ++ R) :=
  (cinv_deliver hN hI.toK hL hck).mono (fun _ _ h' => by rw [hal] at h'; cases h')

/-- a version the bookkeeping "contains" as a whole is held (nothing pending) -/
theorem held_of_contains_none {L : Log} {n : Node} {R : List Chg} (hI : CInv NoneP L n R) {a w : Nat}
    (h : (n.booked a).contains w none = true) : Held n a w := by
  unfold Booked.contains at h
  rw [Bool.and_eq_true] at h
  refine ⟨h.1, ?_⟩
  intro p hp
  rw [hp] at h
  have hc : p.complete = true := h.2
  rcases hI.part_state a w p hp with h1 | ⟨h1, _⟩ | ⟨h1, _⟩
  · exact h1
  · rw [hc] at h1; cases h1
  · exact absurd h1 id

/-! ### the effect of one delivery -/

section Effect
variable {L : Log} {n : Node} {R : List Chg}

theorem deliver_empty_effect (hI : CInv NoneP L n R) (hL : LogOK L) {a vlo vhi : Nat}
    (hck : ChunkOK L (.empty a vlo vhi)) :
    (∀ w, vlo ≤ w → w ≤ vhi → Held (n.deliver [.empty a vlo vhi]) a w) ∧
    (∀ a' w, Held n a' w → Held (n.deliver [.empty a vlo vhi]) a' w) ∧
    (∀ a' w, Held (n.deliver [.empty a vlo vhi]) a' w ∨
      ((n.deliver [.empty a vlo vhi]).booked a').partial? w = (n.booked a').partial? w) := by
  cases hc : (n.booked a).containsAll vlo vhi none with
  | true =>
    rw [deliver_empty_skip n a vlo vhi hc]
    refine ⟨?_, fun _ _ h => h, fun _ _ => Or.inr rfl⟩
    intro w h1 h2
    exact held_of_contains_none hI ((containsAll_iff _ _ _ _).mp hc w h1 h2)
  | false =>
    have hle : vlo ≤ vhi := by
      apply Classical.byContradiction
      intro h
      rw [containsAll_backward _ _ _ _ (by omega)] at hc
      cases hc
    rw [deliver_empty n a vlo vhi hc]
    obtain ⟨_, h2, h3⟩ := cinv_cleared (R' := R) (N := if (n.booked a).max ≤ vhi then n.bumpDbv a vhi else n)
      hI hL (by split <;> simp) (by split <;> simp) (by split <;> simp) hle hck.1
      (dbvOf_bump_le n a vhi · _)
      (fun e he => he) (fun e he => Or.inl he)
      (fun w h1 h2 c hcm => Or.inr (hck.2 w h1 h2 c hcm))
    refine ⟨fun w h1 h2' => (h2 a w).mpr (Or.inl ⟨rfl, h1, h2'⟩), fun a' w h => (h2 a' w).mpr (Or.inr h), ?_⟩
    intro a' w
    by_cases hin : a' = a ∧ vlo ≤ w ∧ w ≤ vhi
    · exact Or.inl ((h2 a' w).mpr (Or.inl hin))
    · exact Or.inr (h3 a' w hin)

theorem deliver_full_effect (hN : NInv L n R) (hI : CInv NoneP L n R) (hal : n.alive = true) (hL : LogOK L)
    {a v lo hi last : Nat} {cs : List Chg} (hck : ChunkOK L (.full a v lo hi last cs)) :
    (∀ a' w, Held n a' w → Held (n.deliver [.full a v lo hi last cs]) a' w) ∧
    (∀ a' w, ¬ (a' = a ∧ w = v) →
      ((n.deliver [.full a v lo hi last cs]).booked a').partial? w = (n.booked a').partial? w) ∧
    (lo = 0 → hi = last → (n.booked a).partial? v = none → Held (n.deliver [.full a v lo hi last cs]) a v) ∧
    (∀ q, (n.booked a).partial? v = some q → q.complete = false →
      Held (n.deliver [.full a v lo hi last cs]) a v ∨
      ∃ q', ((n.deliver [.full a v lo hi last cs]).booked a).partial? v = some q' ∧ q'.complete = false ∧
        q'.last = q.last ∧ (∀ x, RSet.Mem q.seqs x → RSet.Mem q'.seqs x) ∧
        (lo ≤ hi → ∀ x, lo ≤ x → x ≤ hi → RSet.Mem q'.seqs x)) := by
  obtain ⟨hvh, hcs, hcov, hlast⟩ := hck
  have hck' : ChunkOK L (.full a v lo hi last cs) := ⟨hvh, hcs, hcov, hlast⟩
  have hdata : lo = 0 → hi = last → ∀ c ∈ L.get a v, c ∈ cs ∨ Dom L.all c := by
    intro h1 h2 c hc
    by_cases hle : c.seq ≤ last
    · exact hcov c hc (by omega) (by omega)
    · exact Or.inr (hlast c hc (by omega))
  have hrange : ∀ a' w, ¬ (a' = a ∧ w = v) → ¬ (a' = a ∧ v ≤ w ∧ w ≤ v) :=
    fun a' w h h' => h ⟨h'.1, by omega⟩
  cases hc : (n.booked a).containsAll v v (some (lo, hi)) with
  | true =>
    rw [deliver_full_skip n a v lo hi last cs hc]
    rw [containsAll_single] at hc
    unfold Booked.contains at hc
    rw [Bool.and_eq_true] at hc
    refine ⟨fun _ _ h => h, fun _ _ _ => rfl, ?_, ?_⟩
    · intro _ _ hp
      exact ⟨hc.1, fun p hp' => by rw [hp] at hp'; cases hp'⟩
    · intro q hq hqc
      right
      refine ⟨q, hq, hqc, rfl, fun x hx => hx, ?_⟩
      intro _ x h1 h2
      have h3 := hc.2
      rw [hq] at h3
      exact mem_of_gaps_empty ((hI.pwf a).of_partial? hq) h3 ⟨h1, h2⟩
  | false =>
    by_cases hcomp : lo = 0 ∧ hi = last
    · obtain ⟨rfl, rfl⟩ := hcomp
      have key : ∀ (N : Node) (R' : List Chg), N.book = n.book → N.seqRows = n.seqRows → N.buf = n.buf →
          (∀ a', dbvOf N a' ≤ if a' = a then max (dbvOf n a) v else dbvOf n a') →
          (∀ e ∈ R, e ∈ R') → (∀ e ∈ R', e ∈ R ∨ (e.site = a ∧ v ≤ e.dbv ∧ e.dbv ≤ v)) →
          (∀ c ∈ L.get a v, c ∈ R' ∨ Dom L.all c) →
          let n' := clearedNode N a v v (((n.booked a).insertDb [(v, v)]).dropPartials v v)
          (∀ a' w, Held n a' w → Held n' a' w) ∧
          (∀ a' w, ¬ (a' = a ∧ w = v) → (n'.booked a').partial? w = (n.booked a').partial? w) ∧
          Held n' a v := by
        intro N R' h1 h2 h3 h4 h5 h6 h7
        obtain ⟨_, g2, g3⟩ := cinv_cleared (R' := R') hI hL h1 h2 h3 (Nat.le_refl v) hvh h4 h5 h6
          (fun w k1 k2 c hcm => by
            have : w = v := by omega
            subst this
            exact h7 c hcm)
        exact ⟨fun a' w h => (g2 a' w).mpr (Or.inr h), fun a' w h => g3 a' w (hrange a' w h),
          (g2 a v).mpr (Or.inl ⟨rfl, Nat.le_refl _, Nat.le_refl _⟩)⟩
      by_cases hne : cs = []
      · subst hne
        rw [deliver_full_cleared n a v hi hc]
        obtain ⟨k1, k2, k3⟩ := key (if (n.booked a).max ≤ v then n.bumpDbv a v else n) R
          (by split <;> simp) (by split <;> simp) (by split <;> simp) (dbvOf_bump_le n a v · _)
          (fun e he => he) (fun e he => Or.inl he)
          (fun c hcm => by
            rcases hdata rfl rfl c hcm with h | h
            · cases h
            · exact Or.inr h)
        exact ⟨k1, k2, fun _ _ _ => k3, fun _ _ _ => Or.inl k3⟩
      · rw [deliver_full_complete n a v hi cs hc hne]
        obtain ⟨k1, k2, k3⟩ := key (n.mergeChanges cs) (cs ++ R) (by simp) (by simp) (by simp)
          (fun a' => by
            have hmx : ∀ x y : Nat, Nat.max x y = max x y := fun _ _ => rfl
            rw [dbvOf_mergeChanges n cs a v (fun c hc' => by
              obtain ⟨_, h1, h2, _⟩ := hL.mem_get (hcs c hc'); exact ⟨h1, h2⟩) a']
            by_cases ha : a' = a
            · rw [if_pos ⟨ha, hne⟩, if_pos ha, hmx]; exact Nat.le_refl _
            · rw [if_neg (fun h => ha h.1), if_neg ha]; exact Nat.le_refl _)
          (fun e he => List.mem_append_right _ he)
          (fun e he => by
            rcases List.mem_append.mp he with h | h
            · right
              obtain ⟨_, h1, h2, _⟩ := hL.mem_get (hcs e h)
              exact ⟨h1, by omega, by omega⟩
            · exact Or.inl h)
          (fun c hcm => by
            rcases hdata rfl rfl c hcm with h | h
            · exact Or.inl (List.mem_append_left _ h)
            · exact Or.inr h)
        exact ⟨k1, k2, fun _ _ _ => k3, fun _ _ _ => Or.inl k3⟩
    · by_cases hlt : hi < lo
      · rw [deliver_full_backward n a v lo hi last cs hc hlt]
        refine ⟨fun _ _ h => h, fun _ _ _ => rfl, fun h1 h2 => absurd ⟨h1, h2⟩ hcomp, ?_⟩
        intro q hq hqc
        exact Or.inr ⟨q, hq, hqc, rfl, fun x hx => hx, fun h => by omega⟩
      · have hlh : lo ≤ hi := by omega
        rw [deliver_full_buffer n a v lo hi last cs hc hlh hcomp, hal, Bool.and_true]
        cases hpc : (bufPartial n a v lo hi last cs).complete with
        | true =>
          simp only [if_true]
          obtain ⟨_, g2, g3⟩ := cinv_buffer_apply hN hI hL hck' hlh id hpc
          have hh : Held ((bufNode n a v lo hi last cs).applyBuffered a v) a v :=
            (g2 a v).mpr (Or.inl ⟨rfl, Nat.le_refl _, Nat.le_refl _⟩)
          exact ⟨fun a' w h => (g2 a' w).mpr (Or.inr h), fun a' w h => g3 a' w (hrange a' w h),
            fun _ _ _ => hh, fun _ _ _ => Or.inl hh⟩
        | false =>
          simp only [Bool.false_eq_true, if_false]
          obtain ⟨_, g2, _⟩ := cinv_buffer (Q := NoneP) hN hI hL hck' hlh (fun _ _ h => h)
            (fun h => by rw [hpc] at h; cases h)
          have g3 := not_held_of_pending hI hc hlh hpc
          refine ⟨?_, ?_, fun h1 h2 => absurd ⟨h1, h2⟩ hcomp, ?_⟩
          · intro a' w h
            by_cases hav : a' = a ∧ w = v
            · rw [hav.1, hav.2] at h; exact absurd h g3
            · exact (g2 a' w hav).mpr h
          · intro a' w hav
            by_cases ha : a' = a
            · subst ha
              rw [bufNode_booked_same, bufBooked_partial_other _ _ _ _ _ _ _ w (fun h => hav ⟨rfl, h⟩)]
            · rw [bufNode_booked_other _ _ _ _ _ _ _ a' ha]
          · intro q hq _
            right
            have hr := bufChunk_range n a v lo hi last cs
            refine ⟨bufPartial n a v lo hi last cs, ?_, hpc, ?_, ?_, ?_⟩
            · rw [bufNode_booked_same, bufBooked_partial_same]
            · rw [bufPartial_last, hq]
            · intro x hx
              exact (mem_bufPartial hlh x).mpr (Or.inl ⟨q, hq, hx⟩)
            · intro _ x h1 h2
              exact (mem_bufPartial hlh x).mpr (Or.inr ⟨by omega, by omega⟩)

end Effect

/-! ### a sequence of deliveries -/

/-- an alive node with nothing pending -/
structure AInv (L : Log) (n : Node) (R : List Chg) : Prop where
  ninv : NInv L n R
  cinv : CInv NoneP L n R
  alive : n.alive = true

section Fold
variable {L : Log}

theorem fold_step (hL : LogOK L) (s : Node × List Chg) (it : Corro.Node.Item) (hA : AInv L s.1 s.2)
    (hck : ChunkOK L it) : AInv L (deliverOne s it).1 (deliverOne s it).2 :=
  ⟨ninv_deliver hA.ninv hL (chunkOK_changes hL hck), ainv_deliver hA.ninv hA.cinv hA.alive hL hck,
    by show (s.1.deliver [it]).alive = true; rw [deliver_alive]; exact hA.alive⟩

theorem fold_ainv (hL : LogOK L) (items : List Corro.Node.Item) (s : Node × List Chg)
    (hA : AInv L s.1 s.2) (hck : ∀ it ∈ items, ChunkOK L it) :
    AInv L (items.foldl deliverOne s).1 (items.foldl deliverOne s).2 := by
  induction items generalizing s with
  | nil => exact hA
  | cons it items ih =>
    exact ih (deliverOne s it) (fold_step hL s it hA (hck it List.mem_cons_self))
      (fun x hx => hck x (List.mem_cons_of_mem _ hx))

/-- what is held stays held -/
theorem fold_held_mono (hL : LogOK L) (items : List Corro.Node.Item) (s : Node × List Chg)
    (hA : AInv L s.1 s.2) (hck : ∀ it ∈ items, ChunkOK L it) {a v : Nat}
    (h : Held s.1 a v) : Held (items.foldl deliverOne s).1 a v := by
  induction items generalizing s with
  | nil => exact h
  | cons it items ih =>
    have hc := hck it List.mem_cons_self
    have hA' := fold_step hL s it hA hc
    refine ih (deliverOne s it) hA' (fun x hx => hck x (List.mem_cons_of_mem _ hx)) ?_
    cases it with
    | empty a' lo hi => exact (deliver_empty_effect hA.cinv hL hc).2.1 a v h
    | full a' w lo hi last cs => exact (deliver_full_effect hA.ninv hA.cinv hA.alive hL hc).1 a v h

/-- an `Empty` covering `(a, v)` somewhere in the list: held at the end -/
theorem fold_empty_holds (hL : LogOK L) (items : List Corro.Node.Item) (s : Node × List Chg)
    (hA : AInv L s.1 s.2) (hck : ∀ it ∈ items, ChunkOK L it) {a v lo hi : Nat}
    (hm : Corro.Node.Item.empty a lo hi ∈ items) (h1 : lo ≤ v) (h2 : v ≤ hi) :
    Held (items.foldl deliverOne s).1 a v := by
  induction items generalizing s with
  | nil => cases hm
  | cons it items ih =>
    have hc := hck it List.mem_cons_self
    have hA' := fold_step hL s it hA hc
    have hck' : ∀ x ∈ items, ChunkOK L x := fun x hx => hck x (List.mem_cons_of_mem _ hx)
    rcases List.mem_cons.mp hm with rfl | hm
    · exact fold_held_mono hL items _ hA' hck' ((deliver_empty_effect hA.cinv hL hc).1 v h1 h2)
    · exact ih (deliverOne s it) hA' hck' hm

/-- **no partial → settled** -/
theorem fold_finalize (hL : LogOK L) (items : List Corro.Node.Item) (s : Node × List Chg)
    (hA : AInv L s.1 s.2) (hck : ∀ it ∈ items, ChunkOK L it) {a v : Nat}
    (hshape : ∀ it ∈ items, ∀ lo hi last cs, it = Corro.Node.Item.full a v lo hi last cs → lo = 0 ∧ hi = last)
    (hstart : Held s.1 a v ∨ ((s.1.booked a).partial? v = none ∧ ∃ it ∈ items, Final a v it)) :
    Held (items.foldl deliverOne s).1 a v := by
  induction items generalizing s with
  | nil =>
    rcases hstart with h | ⟨_, it, hit, _⟩
    · exact h
    · cases hit
  | cons it items ih =>
    have hc := hck it List.mem_cons_self
    have hA' := fold_step hL s it hA hc
    have hck' : ∀ x ∈ items, ChunkOK L x := fun x hx => hck x (List.mem_cons_of_mem _ hx)
    have hshape' : ∀ x ∈ items, ∀ lo hi last cs, x = Corro.Node.Item.full a v lo hi last cs → lo = 0 ∧ hi = last :=
      fun x hx => hshape x (List.mem_cons_of_mem _ hx)
    rcases hstart with h | ⟨hp, fin, hfin, hF⟩
    · exact fold_held_mono hL (it :: items) s hA hck h
    · have hnext : Held (deliverOne s it).1 a v ∨ ((deliverOne s it).1.booked a).partial? v = none := by
        cases it with
        | empty a' lo hi =>
          rcases (deliver_empty_effect hA.cinv hL hc).2.2 a v with h | h
          · exact Or.inl h
          · right; show ((s.1.deliver [_]).booked a).partial? v = none; rw [h]; exact hp
        | full a' w lo hi last cs =>
          by_cases hav : a = a' ∧ v = w
          · obtain ⟨rfl, rfl⟩ := hav
            obtain ⟨h1, h2⟩ := hshape _ List.mem_cons_self lo hi last cs rfl
            exact Or.inl ((deliver_full_effect hA.ninv hA.cinv hA.alive hL hc).2.2.1 h1 h2 hp)
          · right
            show ((s.1.deliver [_]).booked a).partial? v = none
            rw [(deliver_full_effect hA.ninv hA.cinv hA.alive hL hc).2.1 a v (fun h => hav ⟨h.1, h.2⟩)]
            exact hp
      rcases List.mem_cons.mp hfin with rfl | hfin
      · refine ih (deliverOne s fin) hA' hck' hshape' (Or.inl ?_)
        rcases hF with ⟨last, cs, rfl⟩ | ⟨lo, hi, rfl, h1, h2⟩
        · exact (deliver_full_effect hA.ninv hA.cinv hA.alive hL hc).2.2.1 rfl rfl hp
        · exact (deliver_empty_effect hA.cinv hL hc).1 v h1 h2
      · refine ih (deliverOne s it) hA' hck' hshape' ?_
        rcases hnext with h | h
        · exact Or.inl h
        · exact Or.inr ⟨h, fin, hfin, hF⟩

/-- **a partial grows** -/
theorem fold_partial_grows (hL : LogOK L) (items : List Corro.Node.Item) (s : Node × List Chg)
    (hA : AInv L s.1 s.2) (hck : ∀ it ∈ items, ChunkOK L it) {a v : Nat}
    {p : Partial} (D : Nat × Nat → Prop)
    (hstart : Held s.1 a v ∨ ∃ q, (s.1.booked a).partial? v = some q ∧ q.complete = false ∧
      q.last = p.last ∧ (∀ x, RSet.Mem p.seqs x → RSet.Mem q.seqs x) ∧
      (∀ r, D r → ∀ x, r.1 ≤ x → x ≤ r.2 → RSet.Mem q.seqs x)) :
    Held (items.foldl deliverOne s).1 a v ∨
    ∃ q, ((items.foldl deliverOne s).1.booked a).partial? v = some q ∧ q.complete = false ∧
      q.last = p.last ∧ (∀ x, RSet.Mem p.seqs x → RSet.Mem q.seqs x) ∧
      (∀ r, D r ∨ r ∈ rangesFor a v items → ∀ x, r.1 ≤ x → x ≤ r.2 → RSet.Mem q.seqs x) := by
  induction items generalizing s D with
  | nil =>
    rcases hstart with h | ⟨q, h1, h2, h3, h4, h5⟩
    · exact Or.inl h
    · refine Or.inr ⟨q, h1, h2, h3, h4, ?_⟩
      intro r hr
      rcases hr with hr | hr
      · exact h5 r hr
      · cases hr
  | cons it items ih =>
    have hc := hck it List.mem_cons_self
    have hA' := fold_step hL s it hA hc
    have hck' : ∀ x ∈ items, ChunkOK L x := fun x hx => hck x (List.mem_cons_of_mem _ hx)
    rcases hstart with h | ⟨q, h1, h2, h3, h4, h5⟩
    · exact Or.inl (fold_held_mono hL (it :: items) s hA hck h)
    · cases it with
      | empty a' lo hi =>
        have hr : rangesFor a v (Corro.Node.Item.empty a' lo hi :: items) = rangesFor a v items := rfl
        rw [hr]
        refine ih (deliverOne s (.empty a' lo hi)) hA' hck' D ?_
        rcases (deliver_empty_effect hA.cinv hL hc).2.2 a v with h | h
        · exact Or.inl h
        · exact Or.inr ⟨q, by show ((s.1.deliver [_]).booked a).partial? v = some q; rw [h]; exact h1,
            h2, h3, h4, h5⟩
      | full a' w lo hi last cs =>
        by_cases hav : a' = a ∧ w = v
        · obtain ⟨rfl, rfl⟩ := hav
          rcases (deliver_full_effect hA.ninv hA.cinv hA.alive hL hc).2.2.2 q h1 h2 with
            h | ⟨q', g1, g2, g3, g4, g5⟩
          · exact Or.inl (fold_held_mono hL items _ hA' hck' h)
          · have := ih (deliverOne s (.full a' w lo hi last cs)) hA' hck'
              (fun r => D r ∨ (lo ≤ hi ∧ r = (lo, hi)))
              (Or.inr ⟨q', g1, g2, g3.trans h3, fun x hx => g4 x (h4 x hx), ?_⟩)
            · rcases this with h | ⟨q2, k1, k2, k3, k4, k5⟩
              · exact Or.inl h
              · refine Or.inr ⟨q2, k1, k2, k3, k4, ?_⟩
                intro r hr
                apply k5 r
                rcases hr with hr | hr
                · exact Or.inl (Or.inl hr)
                · unfold rangesFor at hr
                  rw [List.filterMap_cons] at hr
                  simp only [true_and] at hr
                  split at hr
                  · exact Or.inr hr
                  · rename_i heq
                    split at heq
                    · simp only [Option.some.injEq] at heq
                      rcases List.mem_cons.mp hr with hr | hr
                      · rename_i hle
                        exact Or.inl (Or.inr ⟨hle, by rw [hr, heq]⟩)
                      · exact Or.inr hr
                    · cases heq
            · intro r hr x hx1 hx2
              rcases hr with hr | ⟨hle, rfl⟩
              · exact g4 x (h5 r hr x hx1 hx2)
              · exact g5 hle x hx1 hx2
        · have hr : rangesFor a v (Corro.Node.Item.full a' w lo hi last cs :: items) = rangesFor a v items := by
            unfold rangesFor
            rw [List.filterMap_cons]
            have : ¬ (a' = a ∧ w = v ∧ lo ≤ hi) := fun h => hav ⟨h.1, h.2.1⟩
            simp only [this, if_false]
          rw [hr]
          refine ih (deliverOne s (.full a' w lo hi last cs)) hA' hck' D (Or.inr ⟨q, ?_, h2, h3, h4, h5⟩)
          show ((s.1.deliver [_]).booked a).partial? v = some q
          rw [(deliver_full_effect hA.ninv hA.cinv hA.alive hL hc).2.1 a v
            (fun h => hav ⟨h.1.symm ▸ rfl, h.2.symm ▸ rfl⟩)]
          exact h1

end Fold

end Corro.ClusterSys.Crash
